(* PaserkProofs.v — C05 (round trips, fixed lengths), C06 (acceptance characterisations, tamper lemmas)
   for the PASERK models of Paserk.v. *)
From Coq Require Import List NArith String Bool Lia Arith.
From PV Require Import Bytes Result Ctr Oracle Local LocalProofs Paserk BigEndian.
Import ListNotations.
Set Default Timeout 120.
Local Open Scope list_scope.

(* ================================================================== PIE *)
Section Pie.
  Variable O : oracle.
  Variable P : pie_params.

  Lemma pie_unwrap_triple header wk tag n c :
    length tag = pie_tlen P -> length n = 32 ->
    pie_unwrap P header wk (tag ++ n ++ c) =
      if beq (pie_auth P wk header n c) tag then Ok (xorl c (pie_ks P wk n (length c))) else Err CryptoError.
  Proof.
    intros Ht Hn. unfold pie_unwrap.
    rewrite <- Ht at 1. rewrite split_first_app. cbn [ok_or bind].
    rewrite <- Hn at 1. rewrite split_first_app. cbn [ok_or bind]. reflexivity.
  Qed.

  (* C06: acceptance characterisation *)
  Theorem pie_accept_iff header wk d k :
    pie_unwrap P header wk d = Ok k <->
    exists tag n c, d = tag ++ n ++ c /\ length tag = pie_tlen P /\ length n = 32 /\
                    pie_auth P wk header n c = tag /\ k = xorl c (pie_ks P wk n (length c)).
  Proof.
    split.
    - unfold pie_unwrap.
      destruct (split_first (pie_tlen P) d) as [[tag rest]|] eqn:E1; cbn [ok_or bind]; [|discriminate].
      destruct (split_first 32 rest) as [[n c]|] eqn:E2; cbn [ok_or bind]; [|discriminate].
      destruct (beq (pie_auth P wk header n c) tag) eqn:Eb; [|discriminate].
      intros E; inversion E; subst k.
      apply split_first_spec in E1 as [-> Lt]. apply split_first_spec in E2 as [-> Ln].
      exists tag, n, c. repeat split; try assumption. apply beq_eq. exact Eb.
    - intros (tag & n & c & -> & Lt & Ln & Ha & ->).
      rewrite pie_unwrap_triple by assumption. rewrite Ha, beq_refl. reflexivity.
  Qed.

  Theorem pie_short header wk d : length d < pie_tlen P + 32 -> pie_unwrap P header wk d = Err InvalidKey.
  Proof.
    intros H. unfold pie_unwrap.
    destruct (Nat.leb_spec (pie_tlen P) (length d)).
    - rewrite split_first_ge by lia. cbn [ok_or bind].
      rewrite split_first_lt by (rewrite drop_length; lia). reflexivity.
    - rewrite split_first_lt by lia. reflexivity.
  Qed.

  Theorem pie_tag_tamper header wk tag tag' n c :
    length tag = pie_tlen P -> length tag' = pie_tlen P -> length n = 32 ->
    pie_auth P wk header n c = tag -> tag' <> tag ->
    pie_unwrap P header wk (tag' ++ n ++ c) = Err CryptoError.
  Proof.
    intros Ht Ht' Hn Ha Hne. rewrite pie_unwrap_triple by assumption. rewrite Ha.
    destruct (beq tag tag') eqn:E; [apply beq_eq in E; congruence|reflexivity].
  Qed.

  (* an accepted blob carrying the tag of another (wrapping key, header, nonce, ciphertext) is a MAC collision *)
  Theorem pie_forgery_is_collision header wk n c header' wk' n' c' k' :
    length n = 32 -> length n' = 32 -> length (pie_auth P wk header n c) = pie_tlen P ->
    pie_unwrap P header' wk' (pie_auth P wk header n c ++ n' ++ c') = Ok k' ->
    (wk', header', n', c') <> (wk, header, n, c) ->
    pie_auth P wk' header' n' c' = pie_auth P wk header n c /\ (wk', header', n', c') <> (wk, header, n, c).
  Proof.
    intros Hn Hn' Ht Hok Hne. split; [|exact Hne].
    rewrite pie_unwrap_triple in Hok by assumption.
    destruct (beq (pie_auth P wk' header' n' c') (pie_auth P wk header n c)) eqn:E; [|discriminate].
    apply beq_eq. exact E.
  Qed.

  Theorem pie_unwrap_no_panic header wk d : is_panic (pie_unwrap P header wk d) = false.
  Proof.
    unfold pie_unwrap.
    destruct (split_first (pie_tlen P) d) as [[tag rest]|]; cbn [ok_or bind]; [|reflexivity].
    destruct (split_first 32 rest) as [[n c]|]; cbn [ok_or bind]; [|reflexivity].
    destruct (beq _ tag); reflexivity.
  Qed.

  Hypothesis Hks : forall wk n len, length (pie_ks P wk n len) = len.
  Hypothesis Hmac : forall wk n msg, length (pie_mac P wk n msg) = pie_tlen P.

  (* C05: wrap then unwrap returns the key; the blob has the format's fixed length *)
  Theorem pie_roundtrip header wk key nonce :
    length nonce = 32 ->
    exists blob, pie_wrap P header wk key nonce = Ok blob /\ pie_unwrap P header wk blob = Ok key /\
                 length blob = pie_tlen P + 32 + length key.
  Proof.
    intros Hn. unfold pie_wrap. eexists; split; [reflexivity|]. split.
    - rewrite pie_unwrap_triple; [|apply Hmac|exact Hn].
      rewrite xorl_length by (rewrite Hks; lia). rewrite beq_refl.
      rewrite xorl_involutive by (rewrite Hks; lia). reflexivity.
    - rewrite !app_length. unfold pie_auth. rewrite Hmac, Hn. rewrite xorl_length by (rewrite Hks; lia). lia.
  Qed.
End Pie.

(* the MAC input of PIE is plain concatenation "kN" || header || nonce(32) || c: injective because the
   version has 2 bytes, the nonce 32, and the two headers are not prefixes of one another *)
Lemma skipn_add {A} (a b : nat) (l : list A) : skipn a (skipn b l) = skipn (b + a) l.
Proof.
  revert l. induction b as [|b IH]; intros l; [reflexivity|].
  destruct l as [|x l]; [cbn; destruct a; reflexivity|]. cbn [Nat.add skipn]. apply IH.
Qed.

Lemma app_eq_len (a b c d : bytes) : length a = length c -> a ++ b = c ++ d -> a = c /\ b = d.
Proof.
  revert c. induction a as [|x a IH]; intros [|y c] H E; cbn in *; try discriminate; [auto|].
  inversion E; subst. destruct (IH c) as [-> ->]; [lia|assumption|auto].
Qed.

Definition pie_headers : list bytes := [str ".local-wrap.pie."; str ".secret-wrap.pie."].

Lemma pie_input_injective (v v' h h' n n' c c' : bytes) :
  length v = 2 -> length v' = 2 -> In h pie_headers -> In h' pie_headers -> length n = 32 -> length n' = 32 ->
  v ++ h ++ n ++ c = v' ++ h' ++ n' ++ c' -> (v, h, n, c) = (v', h', n', c').
Proof.
  intros Lv Lv' Hh Hh' Ln Ln' E.
  destruct v as [|a [|b [|]]]; try discriminate. destruct v' as [|a' [|b' [|]]]; try discriminate.
  cbn [app] in E. inversion E as [[Ea Eb E2]]. subst a' b'.
  cbn [In pie_headers] in Hh, Hh'.
  assert (Hcase : (h = h' /\ n ++ c = n' ++ c') \/ h <> h').
  { destruct Hh as [<-|[<-|[]]]; destruct Hh' as [<-|[<-|[]]].
    - left. split; [reflexivity|]. apply app_inv_head in E2. exact E2.
    - right. intros Hx. apply (f_equal (@length byte)) in Hx. vm_compute in Hx. discriminate.
    - right. intros Hx. apply (f_equal (@length byte)) in Hx. vm_compute in Hx. discriminate.
    - left. split; [reflexivity|]. apply app_inv_head in E2. exact E2. }
  destruct Hcase as [[-> E3]|Hne].
  - assert (n = n' /\ c = c') as [-> ->].
    { apply app_eq_len; [congruence|exact E3]. }
    reflexivity.
  - exfalso.
    destruct Hh as [<-|[<-|[]]]; destruct Hh' as [<-|[<-|[]]]; try (apply Hne; reflexivity);
      cbn in E2; inversion E2.
Qed.

(* ================================================================== PBKW *)
Section Pw.
  Variable P : pw_params.

  Lemma pw_unwrap_parts header pass salt params nonce c tag :
    length salt = pw_salt_len P -> length params = pw_par_len P -> length nonce = pw_nonce_len P ->
    length tag = pw_tlen P ->
    pw_unwrap P header pass ((salt ++ params ++ nonce) ++ c ++ tag) =
      (pre <- pw_prekey P pass salt params ;;
       if beq (pw_mac P (pw_ak P pre) (pw_ver P ++ header ++ (salt ++ params ++ nonce) ++ c)) tag
       then Ok (xorl c (pw_ks P (pw_ek P pre) nonce (length c))) else Err CryptoError).
  Proof.
    intros Ls Lp Ln Lt. unfold pw_unwrap.
    assert (Lpre : length (salt ++ params ++ nonce) = pw_prefix_len P).
    { unfold pw_prefix_len. rewrite !app_length. lia. }
    rewrite <- Lpre at 1. rewrite split_first_app. cbn [ok_or bind].
    rewrite <- Lt at 1. rewrite split_last_app. cbn [ok_or bind].
    rewrite (take_app_exact salt (params ++ nonce)) by (symmetry; exact Ls).
    rewrite (drop_app_exact salt (params ++ nonce)) by (symmetry; exact Ls).
    rewrite (take_app_exact params nonce) by (symmetry; exact Lp).
    replace (drop (pw_salt_len P + pw_par_len P) (salt ++ params ++ nonce)) with nonce.
    - reflexivity.
    - rewrite app_assoc. symmetry. apply drop_app_exact. rewrite app_length. lia.
  Qed.

  (* C06: acceptance characterisation *)
  Theorem pw_accept_iff header pass d k :
    pw_unwrap P header pass d = Ok k <->
    exists salt params nonce c tag pre,
      d = (salt ++ params ++ nonce) ++ c ++ tag /\
      length salt = pw_salt_len P /\ length params = pw_par_len P /\ length nonce = pw_nonce_len P /\
      length tag = pw_tlen P /\ pw_prekey P pass salt params = Ok pre /\
      pw_mac P (pw_ak P pre) (pw_ver P ++ header ++ (salt ++ params ++ nonce) ++ c) = tag /\
      k = xorl c (pw_ks P (pw_ek P pre) nonce (length c)).
  Proof.
    split.
    - unfold pw_unwrap.
      destruct (split_first (pw_prefix_len P) d) as [[prefix rest]|] eqn:E1; cbn [ok_or bind]; [|discriminate].
      destruct (split_last (pw_tlen P) rest) as [[c tag]|] eqn:E2; cbn [ok_or bind]; [|discriminate].
      apply split_first_spec in E1 as [-> Lpre]. apply split_last_spec in E2 as [-> Lt].
      set (salt := take (pw_salt_len P) prefix). set (params := take (pw_par_len P) (drop (pw_salt_len P) prefix)).
      set (nonce := drop (pw_salt_len P + pw_par_len P) prefix).
      destruct (pw_prekey P pass salt params) as [pre| |] eqn:Ek; cbn [bind]; try discriminate.
      destruct (beq _ tag) eqn:Eb; [|discriminate].
      intros E; inversion E; subst k.
      unfold pw_prefix_len in Lpre.
      assert (Epre : prefix = salt ++ params ++ nonce).
      { unfold salt, params, nonce. rewrite <- (take_drop (pw_salt_len P) prefix) at 1. f_equal.
        rewrite <- (take_drop (pw_par_len P) (drop (pw_salt_len P) prefix)) at 1. f_equal.
        unfold drop. rewrite skipn_add. reflexivity. }
      exists salt, params, nonce, c, tag, pre. repeat split.
      + rewrite <- Epre. reflexivity.
      + apply take_length_le. lia.
      + apply take_length_le. rewrite drop_length. lia.
      + unfold nonce. rewrite drop_length. lia.
      + exact Lt.
      + exact Ek.
      + rewrite <- Epre. apply beq_eq. exact Eb.
    - intros (salt & params & nonce & c & tag & pre & -> & Ls & Lp & Ln & Lt & Ek & Hm & ->).
      rewrite pw_unwrap_parts by assumption. rewrite Ek. cbn [bind]. rewrite Hm, beq_refl. reflexivity.
  Qed.

  Theorem pw_short header pass d :
    length d < pw_prefix_len P + pw_tlen P -> pw_unwrap P header pass d = Err InvalidKey.
  Proof.
    intros H. unfold pw_unwrap.
    destruct (Nat.leb_spec (pw_prefix_len P) (length d)).
    - rewrite split_first_ge by lia. cbn [ok_or bind].
      rewrite split_last_lt by (rewrite drop_length; lia). reflexivity.
    - rewrite split_first_lt by lia. reflexivity.
  Qed.

  Theorem pw_tag_tamper header pass salt params nonce c tag tag' pre :
    length salt = pw_salt_len P -> length params = pw_par_len P -> length nonce = pw_nonce_len P ->
    length tag = pw_tlen P -> length tag' = pw_tlen P ->
    pw_prekey P pass salt params = Ok pre ->
    pw_mac P (pw_ak P pre) (pw_ver P ++ header ++ (salt ++ params ++ nonce) ++ c) = tag -> tag' <> tag ->
    pw_unwrap P header pass ((salt ++ params ++ nonce) ++ c ++ tag') = Err CryptoError.
  Proof.
    intros Ls Lp Ln Lt Lt' Ek Hm Hne. rewrite pw_unwrap_parts by assumption. rewrite Ek. cbn [bind]. rewrite Hm.
    destruct (beq tag tag') eqn:E; [apply beq_eq in E; congruence|reflexivity].
  Qed.

  Theorem pw_unwrap_no_panic header pass d :
    (forall p s q, is_panic (pw_prekey P p s q) = false) -> is_panic (pw_unwrap P header pass d) = false.
  Proof.
    intros Hp. unfold pw_unwrap.
    destruct (split_first (pw_prefix_len P) d) as [[prefix rest]|]; cbn [ok_or bind]; [|reflexivity].
    destruct (split_last (pw_tlen P) rest) as [[c tag]|]; cbn [ok_or bind]; [|reflexivity].
    match goal with |- context [pw_prekey P ?p ?s ?q] => specialize (Hp p s q); destruct (pw_prekey P p s q) end;
      cbn [bind] in *; try congruence; try reflexivity.
    destruct (beq _ tag); reflexivity.
  Qed.

  Hypothesis Hks : forall ek n len, length (pw_ks P ek n len) = len.
  Hypothesis Hmac : forall ak msg, length (pw_mac P ak msg) = pw_tlen P.

  (* C05 *)
  Theorem pw_roundtrip header pass params key salt nonce pre :
    length salt = pw_salt_len P -> length params = pw_par_len P -> length nonce = pw_nonce_len P ->
    pw_prekey P pass salt params = Ok pre ->
    exists blob, pw_wrap P header pass params key salt nonce = Ok blob /\ pw_unwrap P header pass blob = Ok key /\
                 length blob = pw_prefix_len P + length key + pw_tlen P.
  Proof.
    intros Ls Lp Ln Ek. unfold pw_wrap. rewrite Ek. cbn [bind]. eexists; split; [reflexivity|]. split.
    - rewrite pw_unwrap_parts; try assumption; [|apply Hmac]. rewrite Ek. cbn [bind].
      rewrite xorl_length by (rewrite Hks; lia). rewrite beq_refl.
      rewrite xorl_involutive by (rewrite Hks; lia). reflexivity.
    - unfold pw_prefix_len. rewrite !app_length, Hmac, Ls, Lp, Ln.
      rewrite xorl_length by (rewrite Hks; lia). lia.
  Qed.
End Pw.

(* ================================================================== parameter sets satisfy the hypotheses *)
Section Instances.
  Variable O : oracle.
  Hypothesis L : laws O.

  Lemma pieA_ks_len ver W : forall wk n len, length (pie_ks (pieA O ver W) wk n len) = len.
  Proof. intros. cbn [pieA pie_ks]. destruct (pieA_keys O wk n) as [[ek n2] ak]. apply (aes_ctr_len O L). Qed.
  Lemma pieA_mac_len ver W : forall wk n msg, length (pie_mac (pieA O ver W) wk n msg) = pie_tlen (pieA O ver W).
  Proof. intros. cbn [pieA pie_mac pie_tlen]. destruct (pieA_keys O wk n) as [[ek n2] ak]. apply (hmac384_len O L). Qed.
  Lemma pieB_ks_len ver : forall wk n len, length (pie_ks (pieB O ver) wk n len) = len.
  Proof. intros. cbn [pieB pie_ks]. destruct (pieB_keys O wk n) as [[ek n2] ak]. apply (xchacha20_len O L). Qed.
  Lemma pieB_mac_len ver : forall wk n msg, length (pie_mac (pieB O ver) wk n msg) = pie_tlen (pieB O ver).
  Proof. intros. cbn [pieB pie_mac pie_tlen]. destruct (pieB_keys O wk n) as [[ek n2] ak]. apply (blake2b_len O L). Qed.

  Lemma pwA_ks_len ver W z : forall ek n len, length (pw_ks (pwA O ver W z) ek n len) = len.
  Proof. intros. cbn [pwA pw_ks]. apply (aes_ctr_len O L). Qed.
  Lemma pwA_mac_len ver W z : forall ak msg, length (pw_mac (pwA O ver W z) ak msg) = pw_tlen (pwA O ver W z).
  Proof. intros. cbn [pwA pw_mac pw_tlen]. apply (hmac384_len O L). Qed.
  Lemma pwB_ks_len ver pk : forall ek n len, length (pw_ks (pwB O ver pk) ek n len) = len.
  Proof. intros. cbn [pwB pw_ks]. apply (xchacha20_len O L). Qed.
  Lemma pwB_mac_len ver pk : forall ak msg, length (pw_mac (pwB O ver pk) ak msg) = pw_tlen (pwB O ver pk).
  Proof. intros. cbn [pwB pw_mac pw_tlen]. apply (blake2b_len O L). Qed.

  (* every password and every non-rejected parameter set yields a pre-key: PBKDF2 is total *)
  Lemma pwA_prekey_total ver W pass salt params :
    (be_val params <> 0)%N -> exists pre, pw_prekey (pwA O ver W true) pass salt params = Ok pre.
  Proof.
    intros H. cbn [pwA pw_prekey]. cbv zeta. destruct (N.eqb_spec (be_val params) 0); [contradiction|].
    cbn [andb]. eexists; reflexivity.
  Qed.
  Lemma pwA_prekey_total' ver W pass salt params :
    exists pre, pw_prekey (pwA O ver W false) pass salt params = Ok pre.
  Proof. cbn [pwA pw_prekey]. cbv zeta. cbn [andb]. eexists; reflexivity. Qed.

  (* ================================================================== PKE round trips (C05) *)
  Theorem v3_pke_roundtrip_gen W bad sk pk key esk epk :
    length key = 32 -> p384_pk O sk = Some pk -> p384_pk O esk = Some epk ->
    exists blob, v3_pke_seal O W pk key esk = Ok blob /\ v3_pke_unseal_gen O W bad sk blob = Ok key /\
                 length blob = 48 + 49 + 32.
  Proof.
    intros Lk Hpk Hepk.
    destruct (ecdh_comm O L esk sk epk pk Hepk Hpk) as [Hc Hn].
    destruct (ecdh_p384 O esk pk) as [xk|] eqn:Ex; [|congruence].
    unfold v3_pke_seal. rewrite Hepk, Ex.
    destruct (v3_seal_keys O xk epk pk) as [[ek n] ak] eqn:Ekeys.
    pose proof (p384_pk_len O L _ _ Hepk) as Lepk.
    assert (Ledk : length (xorl key (aes_ctr O W ek n 32)) = 32).
    { rewrite xorl_length by (rewrite (aes_ctr_len O L); lia). exact Lk. }
    eexists; split; [reflexivity|]. split.
    - unfold v3_pke_unseal_gen.
      rewrite <- (hmac384_len O L ak (str "k3.seal." ++ epk ++ xorl key (aes_ctr O W ek n 32))) at 1.
      rewrite split_first_app. cbn [ok_or bind].
      rewrite <- Lepk at 1. rewrite split_first_app. cbn [ok_or bind].
      rewrite Ledk. cbn [Nat.eqb negb]. rewrite Hpk.
      rewrite (p384_pk_parses O L _ _ Hepk). rewrite <- Hc. rewrite Ekeys. rewrite beq_refl.
      rewrite <- Lk at 2. rewrite <- (xorl_length key (aes_ctr O W ek n 32)) at 1 by (rewrite (aes_ctr_len O L); lia).
      rewrite Ledk. rewrite xorl_involutive by (rewrite (aes_ctr_len O L); lia). reflexivity.
    - rewrite !app_length, (hmac384_len O L), Lepk, Ledk. reflexivity.
  Qed.

  Theorem x_pke_roundtrip ver strict xpk_of sk seed key r :
    length key = 32 -> take 32 sk = seed -> xpk_of sk = Some (x_of_seed O seed) ->
    (strict = true -> x_mul O r (x_of_seed O seed) <> zero32) ->
    exists blob, x_pke_seal O ver strict (ed_pk O seed) key r = Ok blob /\
                 x_pke_unseal O ver strict xpk_of sk blob = Ok key /\
                 length blob = 96.
  Proof.
    intros Lk Hsk Hxpk Hz. unfold x_pke_seal. rewrite (x_of_edpk_seed O L).
    set (xpk := x_of_seed O seed) in *. set (epk := x_base O r). set (xk := x_mul O r xpk).
    assert (Ez : strict && beq xk zero32 = false).
    { destruct strict; [|reflexivity]. cbn [andb]. apply beq_false. apply Hz. reflexivity. }
    rewrite Ez.
    destruct (x_seal_keys O ver xk epk xpk) as [[ek n] ak] eqn:Ekeys.
    assert (Ledk : length (xorl key (xchacha20 O ek n 32)) = 32).
    { rewrite xorl_length by (rewrite (xchacha20_len O L); lia). exact Lk. }
    assert (Lepk : length epk = 32) by apply (x_base_len O L).
    eexists; split; [reflexivity|]. split.
    - unfold x_pke_unseal.
      rewrite <- (blake2b_len O L 32 ak (ver ++ str ".seal." ++ epk ++ xorl key (xchacha20 O ek n 32))) at 1.
      rewrite split_first_app. cbn [ok_or bind].
      rewrite <- Lepk at 1. rewrite split_first_app. cbn [ok_or bind].
      rewrite Ledk. cbn [Nat.eqb negb]. rewrite Hxpk, Hsk.
      (* the recipient's shared secret equals the sender's (X25519 commutativity) *)
      assert (Exk : x_mul_seed O seed epk = xk) by (unfold epk, xk, xpk; apply (x_dh_comm O L)).
      rewrite Exk, Ez, Ekeys, beq_refl.
      rewrite xorl_involutive by (rewrite (xchacha20_len O L); lia). reflexivity.
    - rewrite !app_length, (blake2b_len O L), Lepk, Ledk. reflexivity.
  Qed.

  (* instances: RustCrypto key object = 32-byte seed; libsodium key object = seed || public key *)
  Corollary v4_pke_roundtrip seed key r :
    length key = 32 -> length seed = 32 ->
    exists blob, v4_pke_seal O (ed_pk O seed) key r = Ok blob /\ v4_pke_unseal O seed blob = Ok key /\ length blob = 96.
  Proof.
    intros Lk Ls. apply (x_pke_roundtrip (str "k4") false (fun sk => Some (x_of_seed O sk)) seed seed key r Lk).
    - unfold take. apply firstn_all2. lia.
    - reflexivity.
    - discriminate.
  Qed.
  Corollary v2_pke_roundtrip seed key r :
    length key = 32 -> length seed = 32 ->
    exists blob, v2_pke_seal O (ed_pk O seed) key r = Ok blob /\ v2_pke_unseal O seed blob = Ok key /\ length blob = 96.
  Proof.
    intros Lk Ls. apply (x_pke_roundtrip (str "k2") false (fun sk => Some (x_of_seed O sk)) seed seed key r Lk).
    - unfold take. apply firstn_all2. lia.
    - reflexivity.
    - discriminate.
  Qed.
  Corollary na_pke_roundtrip seed key r :
    length key = 32 -> length seed = 32 -> x_mul O r (x_of_seed O seed) <> zero32 ->
    exists blob, na_pke_seal O (ed_pk O seed) key r = Ok blob /\
                 na_pke_unseal O (seed ++ ed_pk O seed) blob = Ok key /\ length blob = 96.
  Proof.
    intros Lk Ls Hz.
    apply (x_pke_roundtrip (str "k4") true (fun sk => x_of_edpk O (drop 32 sk)) (seed ++ ed_pk O seed) seed key r Lk).
    - apply take_app_exact. symmetry. exact Ls.
    - cbv beta. rewrite drop_app_exact by (symmetry; exact Ls). apply (x_of_edpk_seed O L).
    - intros _. exact Hz.
  Qed.

  (* ---- v1: RSA-KEM.  [c] ranges over everything RSA encryption can return, in particular integers
          with leading zero bytes ---- *)
  Theorem v1_pke_roundtrip sk key r0 cn :
    length key = 32 -> length r0 = 512 ->
    rsa_enc O (rsa_pk O sk) (be_val (v1_mask_r r0)) = Some cn ->
    exists blob, v1_pke_seal O (rsa_pk O sk) key r0 = Ok blob /\ v1_pke_unseal O sk blob = Ok key /\
                 length blob = 48 + 32 + 512.
  Proof.
    intros Lk Lr Henc.
    destruct r0 as [|b0 rest]; [discriminate|]. cbn [length] in Lr.
    assert (Lrest : length rest = 511) by lia.
    change (v1_mask_r (b0 :: rest)) with (mask_byte b0 :: rest) in *.
    pose proof (mask_byte_range b0) as [Hlo Hhi].
    set (r := mask_byte b0 :: rest) in *.
    assert (Hr : (be_val r < 2 ^ 4095)%N) by (apply be_val_512_bound; assumption).
    pose proof (rsa_enc_range O L _ _ _ Henc) as Hc.
    pose proof (rsa_dec_enc O L sk _ _ Hr Henc) as Hdec.
    unfold v1_pke_seal. change (v1_mask_r (b0 :: rest)) with r. rewrite Henc.
    set (c := be_bytes 512 cn).
    assert (Lc : length c = 512) by apply be_bytes_length.
    assert (Vc : be_val c = cn).
    { unfold c. rewrite be_val_be_bytes. apply N.mod_small. exact Hc. }
    destruct (v1_seal_keys O c r) as [[ek n] ak] eqn:Ekeys.
    assert (Ledk : length (xorl key (aes_ctr O ctr_w_rustcrypto ek n 32)) = 32).
    { rewrite xorl_length by (rewrite (aes_ctr_len O L); lia). exact Lk. }
    eexists; split; [reflexivity|]. split.
    - unfold v1_pke_unseal.
      rewrite <- (hmac384_len O L ak (str "k1.seal." ++ c ++ xorl key (aes_ctr O ctr_w_rustcrypto ek n 32))) at 1.
      rewrite split_first_app. cbn [ok_or bind].
      rewrite <- Lc at 1. rewrite split_last_app. cbn [ok_or bind].
      rewrite Ledk. cbn [Nat.eqb negb]. rewrite Vc, Hdec.
      assert (Emin : be_minimal (be_val r) = r).
      { unfold r. apply be_minimal_be_val; [lia|cbn [length]; lia]. }
      rewrite Emin, Ekeys, beq_refl.
      rewrite xorl_involutive by (rewrite (aes_ctr_len O L); lia). reflexivity.
    - rewrite !app_length, (hmac384_len O L), Lc, Ledk. reflexivity.
  Qed.

  (* the defect repaired by "fix: paseto-v1 seal pads the RSA-KEM ciphertext": with the minimal
     serialisation a ciphertext below 256^511 gives a blob that is too short to be unsealed *)
  Theorem v1_pke_minimal_refuted sk key r0 cn :
    length key = 32 -> (cn < 256 ^ N.of_nat 511)%N ->
    rsa_enc O (rsa_pk O sk) (be_val (v1_mask_r r0)) = Some cn ->
    exists blob, v1_pke_seal_minimal O (rsa_pk O sk) key r0 = Ok blob /\ length blob < 48 + 32 + 512.
  Proof.
    intros Lk Hcn Henc. unfold v1_pke_seal_minimal. rewrite Henc.
    destruct (v1_seal_keys O (be_minimal cn) (v1_mask_r r0)) as [[ek n] ak].
    eexists; split; [reflexivity|].
    rewrite !app_length, (hmac384_len O L).
    rewrite xorl_length by (rewrite (aes_ctr_len O L); lia). rewrite Lk.
    assert (Hm : length (be_minimal cn) <= 511); [|lia].
    unfold be_minimal.
    replace 520 with (9 + 511) by reflexivity. rewrite be_bytes_widen by exact Hcn.
    rewrite strip0_zeros.
    assert (Hs : forall l : bytes, length (strip0 l) <= length l).
    { induction l as [|x l IH]; [cbn; lia|]. cbn [strip0]. destruct (N.eqb (b2n x) 0); cbn [length]; lia. }
    pose proof (Hs (be_bytes 511 cn)) as H1. rewrite be_bytes_length in H1.
    destruct (strip0 (be_bytes 511 cn)); cbn [length] in *; lia.
  Qed.
End Instances.

(* ================================================================== all six backends at once *)
Section AllBackends.
  Variable O : oracle.
  Hypothesis L : laws O.

  Definition all_pie : list pie_params := [v1_pie O; v2_pie O; v3_pie O; lc_pie O; v4_pie O; na_pie O].
  Definition all_pw : list pw_params := [v1_pw O; v2_pw O; v3_pw O; lc_pw O; v4_pw O; na_pw O].

  Lemma all_pie_ok P : In P all_pie ->
    (forall wk n len, length (pie_ks P wk n len) = len) /\ (forall wk n msg, length (pie_mac P wk n msg) = pie_tlen P).
  Proof.
    intros H. cbn [In all_pie] in H.
    destruct H as [<-|[<-|[<-|[<-|[<-|[<-|[]]]]]]]; split;
      first [apply (pieA_ks_len O L) | apply (pieA_mac_len O L) | apply (pieB_ks_len O L) | apply (pieB_mac_len O L)].
  Qed.

  Lemma all_pw_ok P : In P all_pw ->
    (forall ek n len, length (pw_ks P ek n len) = len) /\ (forall ak msg, length (pw_mac P ak msg) = pw_tlen P).
  Proof.
    intros H. cbn [In all_pw] in H.
    destruct H as [<-|[<-|[<-|[<-|[<-|[<-|[]]]]]]]; split;
      first [apply (pwA_ks_len O L) | apply (pwA_mac_len O L) | apply (pwB_ks_len O L) | apply (pwB_mac_len O L)].
  Qed.

  Theorem pie_roundtrip_all P header wk key nonce :
    In P all_pie -> length nonce = 32 ->
    exists blob, pie_wrap P header wk key nonce = Ok blob /\ pie_unwrap P header wk blob = Ok key /\
                 length blob = pie_tlen P + 32 + length key.
  Proof. intros HP. destruct (all_pie_ok P HP) as [A B]. apply pie_roundtrip; assumption. Qed.

  Theorem pw_roundtrip_all P header pass params key salt nonce pre :
    In P all_pw ->
    length salt = pw_salt_len P -> length params = pw_par_len P -> length nonce = pw_nonce_len P ->
    pw_prekey P pass salt params = Ok pre ->
    exists blob, pw_wrap P header pass params key salt nonce = Ok blob /\ pw_unwrap P header pass blob = Ok key /\
                 length blob = pw_prefix_len P + length key + pw_tlen P.
  Proof. intros HP. destruct (all_pw_ok P HP) as [A B]. apply pw_roundtrip; assumption. Qed.

  Lemma all_pw_prekey_no_panic P : In P all_pw -> forall p s q, is_panic (pw_prekey P p s q) = false.
  Proof.
    intros H p s q. cbn [In all_pw] in H.
    destruct H as [<-|[<-|[<-|[<-|[<-|[<-|[]]]]]]]; cbn [pw_prekey v1_pw v2_pw v3_pw lc_pw v4_pw na_pw pwA pwB];
      unfold v4_prekey, na_prekey; cbv zeta;
      repeat match goal with
             | |- context [let '(_, _) := ?x in _] => destruct x
             | |- context [if ?b then _ else _] => destruct b
             | |- context [match ?x with Some _ => _ | None => _ end] => destruct x
             end; reflexivity.
  Qed.
End AllBackends.
