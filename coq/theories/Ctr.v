(* Ctr.v — big-endian counter mode over a 16-byte block function, with the counter occupying the low
   [W] bits of the block (W = 64: `ctr::Ctr64BE`, W = 128: `ctr::Ctr128BE`, NIST SP 800-38A,
   AES_ctr128_encrypt).  The high 128 - W bits are never touched: the low word wraps silently. *)
From PV Require Import Bytes.

Definition ctr_block (W : N) (iv : bytes) (i : N) : bytes :=
  let v := be_val iv in
  let m := (2 ^ W)%N in
  be_bytes 16 ((v / m) * m + ((v mod m + i) mod m)).

Definition nblocks (len : nat) : nat := (len + 15) / 16.

Definition ctr_keystream (W : N) (E : bytes -> bytes) (iv : bytes) (len : nat) : bytes :=
  firstn len (flat_map (fun i => E (ctr_block W iv (N.of_nat i))) (seq 0 (nblocks len))).

(* The block sequence of the specification's counter mode (width 128) and of a narrower counter agree
   as long as the low word does not wrap inside the message; when it wraps they differ. *)
