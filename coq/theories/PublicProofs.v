(* PublicProofs.v — theorems about the public (signature) token schemes of Public.v:
   instance lemmas, acceptance characterisation (C02), round trips under [laws O] (C01). *)
From Coq Require Import List NArith String Bool Lia Arith.
From PV Require Import Bytes Result Rs Pae Oracle Local Public LocalProofs.
Import ListNotations.
Set Default Timeout 60.
Local Open Scope list_scope.

Lemma p384_n_lt : (p384_n < 256 ^ N.of_nat 48)%N.
Proof. vm_compute. reflexivity. Qed.

Lemma be_val_be48 x : (x < p384_n)%N -> be_val (be_bytes 48 x) = x.
Proof.
  intros H. rewrite be_val_be_bytes. apply N.mod_small. pose proof p384_n_lt. lia.
Qed.

Section Generic.
  Variable P : pparams.

  Definition paad_ok (a : bytes) : Prop := pp_aad P = true \/ a = [].

  Lemma paad_gate a : paad_ok a -> negb (pp_aad P) && negb (isnil a) = false.
  Proof. intros [H|H]; [rewrite H; reflexivity|subst; cbn; apply andb_false_r]. Qed.

  Lemma pg_unseal_pair pk enc m sig f a :
    length sig = pp_slen P -> paad_ok a ->
    pg_unseal P pk enc (m ++ sig) f a = (_ <- pp_check P pk (pp_pre P pk enc m f a) sig ;; Ok m).
  Proof.
    intros Hs Ha. unfold pg_unseal. rewrite (paad_gate _ Ha).
    rewrite app_length, Hs.
    destruct (Nat.ltb_spec (length m + pp_slen P) (pp_slen P)); [lia|].
    replace (length m + pp_slen P - pp_slen P) with (length m) by lia.
    rewrite take_app_exact, drop_app_exact by reflexivity. reflexivity.
  Qed.

  (* C02: exactly message || signature with a signature that checks over the pre-authentication
     encoding of (key, header, message, footer, assertion) is accepted, and the message is returned as is *)
  Theorem pg_accept_iff pk enc p f a m :
    pg_unseal P pk enc p f a = Ok m <->
    paad_ok a /\ exists sig, p = m ++ sig /\ length sig = pp_slen P /\
                             pp_check P pk (pp_pre P pk enc m f a) sig = Ok tt.
  Proof.
    split.
    - unfold pg_unseal.
      destruct (negb (pp_aad P) && negb (isnil a)) eqn:Ea; [discriminate|].
      assert (Ha : paad_ok a).
      { unfold paad_ok. destruct (pp_aad P); [left; reflexivity|]. cbn in Ea. destruct a; [right; reflexivity|discriminate]. }
      destruct (Nat.ltb_spec (length p) (pp_slen P)); [discriminate|].
      set (m0 := take (length p - pp_slen P) p). set (sig := drop (length p - pp_slen P) p).
      destruct (pp_check P pk (pp_pre P pk enc m0 f a) sig) as [[]| |] eqn:Ec; cbn [bind]; try discriminate.
      intros E; inversion E; subst m. split; [exact Ha|]. exists sig. repeat split.
      + symmetry. apply take_drop.
      + unfold sig. rewrite drop_length. lia.
      + exact Ec.
    - intros (Ha & sig & -> & Hs & Hc). rewrite pg_unseal_pair by assumption. rewrite Hc. reflexivity.
  Qed.

  Theorem pg_short pk enc p f a :
    paad_ok a -> length p < pp_slen P -> pg_unseal P pk enc p f a = Err InvalidToken.
  Proof.
    intros Ha H. unfold pg_unseal. rewrite (paad_gate _ Ha).
    destruct (Nat.ltb_spec (length p) (pp_slen P)); [reflexivity|lia].
  Qed.

  Theorem pg_aad_refused pk enc p f a :
    pp_aad P = false -> a <> [] -> pg_unseal P pk enc p f a = Err ClaimsError.
  Proof. intros H Ha. unfold pg_unseal. rewrite H. destruct a; [congruence|reflexivity]. Qed.

  (* an accepted token whose (key, suffix, message, footer, assertion, signature) differs from a signed one
     exhibits a signature that checks for a message/signature pair that was never produced: the
     strong-forgery event, stated without idealising the signature scheme *)
  Theorem pg_forgery_event pk enc m sig f a pk' enc' p' f' a' m' :
    length sig = pp_slen P ->
    pg_unseal P pk' enc' p' f' a' = Ok m' ->
    (pk', enc', p', f', a') <> (pk, enc, m ++ sig, f, a) ->
    exists sig', p' = m' ++ sig' /\ pp_check P pk' (pp_pre P pk' enc' m' f' a') sig' = Ok tt /\
                 (pk', enc', m', f', a', sig') <> (pk, enc, m, f, a, sig).
  Proof.
    intros Hs Hok Hne. apply pg_accept_iff in Hok as (_ & sig' & -> & Hs' & Hc).
    exists sig'. repeat split; [exact Hc|]. intros E; inversion E; subst. apply Hne. reflexivity.
  Qed.

  Theorem pg_unseal_no_panic pk enc p f a :
    (forall k x s, is_panic (pp_check P k x s) = false) -> is_panic (pg_unseal P pk enc p f a) = false.
  Proof.
    intros H. unfold pg_unseal.
    destruct (negb (pp_aad P) && negb (isnil a)); [reflexivity|].
    destruct (Nat.ltb (length p) (pp_slen P)); [reflexivity|].
    match goal with |- context [pp_check P ?k ?x ?s] => specialize (H k x s); destruct (pp_check P k x s) as [[]| |] end;
      cbn in *; congruence.
  Qed.
End Generic.

Section Instances.
  Variable O : oracle.

  Ltac split_tail n :=
    match goal with |- context [Nat.ltb (length ?p) n] => destruct (Nat.ltb_spec (length p) n) end.

  Lemma v4_punseal_inst pk enc p f a : v4_public_unseal O pk enc p f a = pg_unseal (v4_pparams O) pk enc p f a.
  Proof.
    unfold v4_public_unseal, pg_unseal, v4_pparams. cbn [pp_aad pp_slen pp_pre pp_check negb andb].
    split_tail 64; [reflexivity|].
    (* len >= 64: `len - 64`, `split_at(len - 64)` and `tag.try_into().unwrap()` (exactly 64 bytes) are safe *)
    rewrite rs_sub_ok by lia. rewrite rs_split_at_ok by lia. rewrite rs_exact_ok by (rewrite drop_length; lia).
    unfold chk. destruct (ed_verify O pk _ _); reflexivity.
  Qed.

  Lemma v2_punseal_inst pk enc p f a : v2_public_unseal O pk enc p f a = pg_unseal (v2_pparams O) pk enc p f a.
  Proof.
    unfold v2_public_unseal, pg_unseal, v2_pparams. cbn [pp_aad pp_slen pp_pre pp_check negb andb].
    destruct (negb (isnil a)); [reflexivity|].
    split_tail 64; [reflexivity|].
    rewrite rs_sub_ok by lia. rewrite rs_split_at_ok by lia. rewrite rs_exact_ok by (rewrite drop_length; lia).
    unfold chk. destruct (ed_verify O pk _ _); reflexivity.
  Qed.

  Lemma na_punseal_inst pk enc p f a : na_public_unseal O pk enc p f a = pg_unseal (na_pparams O) pk enc p f a.
  Proof.
    unfold na_public_unseal, pg_unseal, na_pparams. cbn [pp_aad pp_slen pp_pre pp_check negb andb].
    split_tail 64.
    - rewrite split_last_lt by lia. reflexivity.
    - rewrite split_last_ge by lia. cbn [ok_or bind]. unfold chk. destruct (ed_verify_strict O pk _ _); reflexivity.
  Qed.

  Lemma v3_punseal_inst pk enc p f a : v3_public_unseal O pk enc p f a = pg_unseal (v3_pparams O) pk enc p f a.
  Proof.
    unfold v3_public_unseal, pg_unseal, v3_pparams. cbn [pp_aad pp_slen pp_pre pp_check negb andb].
    split_tail 96.
    - rewrite split_last_lt by lia. reflexivity.
    - rewrite split_last_ge by lia. cbn [ok_or bind].
      destruct (negb _); [reflexivity|]. unfold chk. destruct (ecdsa_verify O pk _ _ _); reflexivity.
  Qed.

  Lemma lc_punseal_inst pk enc p f a : lc_public_unseal O pk enc p f a = pg_unseal (lc_pparams O) pk enc p f a.
  Proof.
    unfold lc_public_unseal, pg_unseal, lc_pparams. cbn [pp_aad pp_slen pp_pre pp_check negb andb].
    split_tail 96; [reflexivity|]. rewrite rs_sub_ok by lia. rewrite rs_split_at_ok by lia. unfold chk.
    match goal with |- context [if ?b then _ else _] => destruct b end; reflexivity.
  Qed.

  Lemma v1_punseal_inst pk enc p f a : v1_public_unseal O pk enc p f a = pg_unseal (v1_pparams O) pk enc p f a.
  Proof.
    unfold v1_public_unseal, pg_unseal, v1_pparams. cbn [pp_aad pp_slen pp_pre pp_check negb andb].
    destruct (negb (isnil a)); [reflexivity|].
    split_tail 256.
    - rewrite split_last_lt by lia. reflexivity.
    - rewrite split_last_ge by lia. cbn [ok_or bind]. unfold chk. destruct (rsa_pss_verify O pk _ _); reflexivity.
  Qed.

  Hypothesis L : laws O.

  (* ---------- C01 round trips ---------- *)
  Theorem v4_public_roundtrip seed enc m f a :
    exists p, v4_public_seal O seed enc m f a = Ok p /\ v4_public_unseal O (ed_pk O seed) enc p f a = Ok m.
  Proof.
    eexists; split; [reflexivity|]. rewrite v4_punseal_inst.
    rewrite pg_unseal_pair; [|apply (ed_sign_len O L)|left; reflexivity].
    cbn [v4_pparams pp_check pp_pre]. rewrite (ed_verify_sign O L). reflexivity.
  Qed.

  Theorem na_public_roundtrip seed enc m f a :
    exists p, na_public_seal O seed enc m f a = Ok p /\ na_public_unseal O (ed_pk O seed) enc p f a = Ok m.
  Proof.
    eexists; split; [reflexivity|]. rewrite na_punseal_inst.
    rewrite pg_unseal_pair; [|apply (ed_sign_len O L)|left; reflexivity].
    cbn [na_pparams pp_check pp_pre]. rewrite (ed_verify_strict_sign O L). reflexivity.
  Qed.

  Theorem v2_public_roundtrip seed enc m f :
    exists p, v2_public_seal O seed enc m f [] = Ok p /\ v2_public_unseal O (ed_pk O seed) enc p f [] = Ok m.
  Proof.
    eexists; split; [reflexivity|]. rewrite v2_punseal_inst.
    rewrite pg_unseal_pair; [|apply (ed_sign_len O L)|right; reflexivity].
    cbn [v2_pparams pp_check pp_pre]. rewrite (ed_verify_sign O L). reflexivity.
  Qed.

  Lemma low_s_range s : (0 < s < p384_n)%N -> (0 < low_s s < p384_n)%N.
  Proof.
    intros H. unfold low_s. destruct (N.ltb_spec p384_half_n s); [|lia].
    assert (p384_half_n < p384_n)%N by (vm_compute; reflexivity). lia.
  Qed.

  Lemma scalar_ok_range x : (0 < x < p384_n)%N -> scalar_ok x = true.
  Proof.
    intros [H1 H2]. unfold scalar_ok. apply andb_true_iff. split; apply N.ltb_lt; assumption.
  Qed.

  Theorem v3_public_roundtrip sk pk enc m f a :
    p384_pk O sk = Some pk ->
    exists p, v3_public_seal O sk enc m f a = Ok p /\ v3_public_unseal O pk enc p f a = Ok m.
  Proof.
    intros Hpk. unfold v3_public_seal. rewrite Hpk.
    pose proof (ecdsa_range O L sk (v3_ppre pk enc m f a) []) as [Hr Hs].
    pose proof (ecdsa_verify_sign O L sk pk (v3_ppre pk enc m f a) [] Hpk) as Hv.
    destruct (ecdsa_sign O sk (v3_ppre pk enc m f a) []) as [r s]. cbn [fst snd] in *.
    eexists; split; [reflexivity|]. rewrite v3_punseal_inst.
    rewrite pg_unseal_pair; [|rewrite app_length, !be_bytes_length; reflexivity|left; reflexivity].
    cbn [v3_pparams pp_check pp_pre].
    rewrite take_app_exact, drop_app_exact by (rewrite be_bytes_length; reflexivity).
    pose proof (low_s_range s Hs) as Hls.
    rewrite !be_val_be48 by lia.
    rewrite (scalar_ok_range r Hr), (scalar_ok_range _ Hls). cbn [andb negb].
    assert (Hv' : ecdsa_verify O pk (v3_ppre pk enc m f a) r (low_s s) = true).
    { unfold low_s. destruct (N.ltb p384_half_n s); [apply (ecdsa_verify_neg_s O L); assumption|exact Hv]. }
    rewrite Hv'. reflexivity.
  Qed.

  Theorem lc_public_roundtrip sk pk enc m f a aux :
    p384_pk O sk = Some pk ->
    exists p, lc_public_seal O sk enc m f a aux = Ok p /\ lc_public_unseal O pk enc p f a = Ok m.
  Proof.
    intros Hpk. unfold lc_public_seal. rewrite Hpk.
    pose proof (ecdsa_range O L sk (v3_ppre pk enc m f a) aux) as [Hr Hs].
    pose proof (ecdsa_verify_sign O L sk pk (v3_ppre pk enc m f a) aux Hpk) as Hv.
    destruct (ecdsa_sign O sk (v3_ppre pk enc m f a) aux) as [r s]. cbn [fst snd] in *.
    unfold lc_sig_bytes. pose proof p384_n_lt as Hn. cbn [N.of_nat] in Hn.
    assert (Er : (r <? 256 ^ 48)%N = true) by (apply N.ltb_lt; cbn in Hn; lia).
    assert (Es : (s <? 256 ^ 48)%N = true) by (apply N.ltb_lt; cbn in Hn; lia).
    rewrite Er, Es. cbn [andb bind].
    eexists; split; [reflexivity|]. rewrite lc_punseal_inst.
    rewrite pg_unseal_pair; [|rewrite app_length, !be_bytes_length; reflexivity|left; reflexivity].
    cbn [lc_pparams pp_check pp_pre].
    rewrite take_app_exact, drop_app_exact by (rewrite be_bytes_length; reflexivity).
    rewrite !be_val_be48 by lia.
    rewrite (scalar_ok_range r Hr), (scalar_ok_range s Hs), Hv. reflexivity.
  Qed.

  Theorem v1_public_roundtrip sk enc m f aux sig :
    rsa_pss_sign O sk (v1_ppre enc m f) aux = Some sig ->
    exists p, v1_public_seal O sk enc m f [] aux = Ok p /\ v1_public_unseal O (rsa_pk O sk) enc p f [] = Ok m.
  Proof.
    intros Hsig. unfold v1_public_seal. cbn [isnil negb]. rewrite Hsig.
    eexists; split; [reflexivity|]. rewrite v1_punseal_inst.
    rewrite pg_unseal_pair; [|apply (rsa_pss_len O L _ _ _ _ Hsig)|right; reflexivity].
    cbn [v1_pparams pp_check pp_pre]. rewrite (rsa_pss_verify_sign O L _ _ _ _ Hsig). reflexivity.
  Qed.
End Instances.
