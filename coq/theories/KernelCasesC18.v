(* KernelCasesC18.v — what out/cases_C18.v (written by ./check from the C18 harness's sample) needs in scope. *)
From Coq Require Export String List Bool.
From PV Require Export TypeRules.
From PV.Gen Require Export Impls.
Export ListNotations.
Global Open Scope string_scope.
Global Open Scope list_scope.
