(* PaserkTamper.v — the MAC inputs of PIE and PBKW are what the acceptance theorems say they are, and they
   determine every field (C06: bound to header, version, nonce / salt / parameters and ciphertext). *)
From Coq Require Import List NArith String Bool Lia Arith.
From PV Require Import Bytes Result Oracle Local Paserk PaserkProofs.
Import ListNotations.
Local Open Scope string_scope.
Local Open Scope list_scope.
Set Default Timeout 120.

(* the tag of a PIE blob is the MAC of exactly this concatenation (ties [pie_input_injective] to [pie_auth]) *)
Lemma pie_auth_input (P : pie_params) wk header nonce c :
  pie_auth P wk header nonce c = pie_mac P wk nonce (pie_ver P ++ header ++ nonce ++ c).
Proof. reflexivity. Qed.

(* two PIE authentications over different (version, header, nonce, ciphertext) feed different strings to
   the MAC: a blob re-labelled (local-wrap <-> secret-wrap, k3 <-> k1 ...) or with bytes moved between nonce
   and ciphertext never presents the MAC with the original input *)
Theorem pie_auth_inputs_differ (P P' : pie_params) (h h' n n' c c' : bytes) :
  length (pie_ver P) = 2 -> length (pie_ver P') = 2 -> In h pie_headers -> In h' pie_headers ->
  length n = 32 -> length n' = 32 ->
  (pie_ver P, h, n, c) <> (pie_ver P', h', n', c') ->
  pie_ver P ++ h ++ n ++ c <> pie_ver P' ++ h' ++ n' ++ c'.
Proof.
  intros Lv Lv' Hh Hh' Ln Ln' Hne E. apply Hne. apply pie_input_injective; assumption.
Qed.

Definition pw_headers : list bytes := [str ".local-pw."; str ".secret-pw."].

(* PBKW: "kN" || header || (salt || params || nonce) || c *)
Lemma pw_input_injective (v v' h h' p p' c c' : bytes) :
  length v = 2 -> length v' = 2 -> In h pw_headers -> In h' pw_headers -> length p = length p' ->
  v ++ h ++ p ++ c = v' ++ h' ++ p' ++ c' -> (v, h, p, c) = (v', h', p', c').
Proof.
  intros Lv Lv' Hh Hh' Lp E.
  destruct v as [|a [|b [|]]]; try discriminate. destruct v' as [|a' [|b' [|]]]; try discriminate.
  cbn [app] in E. inversion E as [[Ea Eb E2]]. subst a' b'.
  cbn [In pw_headers] in Hh, Hh'.
  destruct Hh as [<-|[<-|[]]]; destruct Hh' as [<-|[<-|[]]].
  - apply app_inv_head in E2. apply app_eq_len in E2 as [-> ->]; [reflexivity|exact Lp].
  - exfalso. cbn in E2. inversion E2.
  - exfalso. cbn in E2. inversion E2.
  - apply app_inv_head in E2. apply app_eq_len in E2 as [-> ->]; [reflexivity|exact Lp].
Qed.

(* the tag of a PBKW blob authenticates version, header, salt, parameters, nonce and ciphertext: splitting the
   prefix of fixed field widths is injective too *)
Lemma pw_prefix_injective (P : pw_params) (s s' q q' n n' : bytes) :
  length s = pw_salt_len P -> length s' = pw_salt_len P -> length q = pw_par_len P -> length q' = pw_par_len P ->
  s ++ q ++ n = s' ++ q' ++ n' -> (s, q, n) = (s', q', n').
Proof.
  intros Ls Ls' Lq Lq' E.
  apply app_eq_len in E as [-> E]; [|congruence]. apply app_eq_len in E as [-> ->]; [reflexivity|congruence].
Qed.
