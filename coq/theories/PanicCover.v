(* PanicCover.v — the reviewed list of panicking constructs in non-test library code, with the reason each
   one cannot be reached from public input (C04).  The obligation (PanicCoverProofs.v) is that the inventory
   regenerated from /repo on every run (Gen/PanicSites.v) is covered: a new unwrap / expect / assert / index /
   split_at in any function, or one more of them in a covered function, breaks it. *)
From Coq Require Import List String NArith.
Import ListNotations.
Local Open Scope string_scope.

Inductive reason :=
| ByLemma        (* unreachable: proved of the model (lemma named in the note) *)
| Base64Arith    (* base64 slice arithmetic, Base64Proofs *)
| ConstSize      (* conversion / index on a value whose size is a compile-time constant *)
| LibTotal       (* third-party call total on the argument sizes the code passes *)
| Ffi            (* aws-lc pointer invariants *)
| OutOfScope     (* reachable only through dangerous_seal_with_nonce with a short caller nonce *)
| Reviewed.      (* reviewed by hand, see the note *)

(* file, fn, kind, maximal count, reason, note *)
Definition panic_cover : list (string * string * string * N * reason * string) :=
  [ ("paseto-core/src/base64.rs", "decode_3bytes", "index", 7%N, Base64Arith, "slice arithmetic of the base64 codec: Base64Proofs.decode_no_panic / encode total");
    ("paseto-core/src/base64.rs", "decode_inner", "copy_from_slice", 2%N, Base64Arith, "slice arithmetic of the base64 codec: Base64Proofs.decode_no_panic / encode total");
    ("paseto-core/src/base64.rs", "decode_inner", "index", 2%N, Base64Arith, "slice arithmetic of the base64 codec: Base64Proofs.decode_no_panic / encode total");
    ("paseto-core/src/base64.rs", "decode_vec", "index", 1%N, Base64Arith, "slice arithmetic of the base64 codec: Base64Proofs.decode_no_panic / encode total");
    ("paseto-core/src/base64.rs", "encode_3bytes", "index", 7%N, Base64Arith, "slice arithmetic of the base64 codec: Base64Proofs.decode_no_panic / encode total");
    ("paseto-core/src/base64.rs", "encode_last", "index", 1%N, Base64Arith, "slice arithmetic of the base64 codec: Base64Proofs.decode_no_panic / encode total");
    ("paseto-core/src/base64.rs", "write_to_fmt", "unchecked", 2%N, Base64Arith, "slice arithmetic of the base64 codec: Base64Proofs.decode_no_panic / encode total");
    ("paseto-core/src/key.rs", "from", "expect", 1%N, ByLemma, "a [u8; 32] always decodes as a local key: KeysProofs.local_decode_iff");
    ("paseto-core/src/key.rs", "from", "index", 1%N, ByLemma, "a [u8; 32] always decodes as a local key: KeysProofs.local_decode_iff");
    ("paseto-v1/src/core/local.rs", "dangerous_seal_with_nonce", "expect", 2%N, ConstSize, "HMAC / BLAKE2b output truncated to the nonce length");
    ("paseto-v1/src/core/local.rs", "dangerous_seal_with_nonce", "index", 1%N, ConstSize, "HMAC / BLAKE2b output truncated to the nonce length");
    ("paseto-v1/src/core/local.rs", "kdf", "unwrap", 1%N, LibTotal, "HMAC accepts every key length; BLAKE2b keys of 32 bytes and outputs <= 64; HKDF output <= 255 * 48");
    ("paseto-v1/src/core/local.rs", "keys", "expect", 1%N, LibTotal, "HMAC accepts every key length; BLAKE2b keys of 32 bytes and outputs <= 64; HKDF output <= 255 * 48");
    ("paseto-v1/src/core/mod.rs", "hash_key", "assert", 1%N, ConstSize, "digest output has 48 (33) bytes");
    ("paseto-v1/src/core/mod.rs", "hash_key", "index", 1%N, ConstSize, "digest output has 48 (33) bytes");
    ("paseto-v1/src/core/mod.rs", "hash_key", "unwrap", 1%N, ConstSize, "digest output has 48 (33) bytes");
    ("paseto-v1/src/core/pie_wrap.rs", "kdf", "expect", 1%N, LibTotal, "HMAC accepts every key length; BLAKE2b keys of 32 bytes and outputs <= 64; HKDF output <= 255 * 48");
    ("paseto-v1/src/core/pie_wrap.rs", "wrap_keys", "expect", 1%N, LibTotal, "HMAC accepts every key length; BLAKE2b keys of 32 bytes and outputs <= 64; HKDF output <= 255 * 48");
    ("paseto-v1/src/core/pie_wrap.rs", "wrap_keys", "index", 1%N, LibTotal, "HMAC accepts every key length; BLAKE2b keys of 32 bytes and outputs <= 64; HKDF output <= 255 * 48");
    ("paseto-v1/src/core/pke.rs", "encode", "expect", 2%N, LibTotal, "DER encoding of a parsed RSA key; fixed-size conversions after the length check");
    ("paseto-v1/src/core/pke.rs", "seal_key", "expect", 1%N, LibTotal, "HMAC accepts every key length; the recipient key was validated at decode");
    ("paseto-v1/src/core/pke.rs", "seal_key", "index", 3%N, LibTotal, "HMAC accepts every key length; the recipient key was validated at decode");
    ("paseto-v1/src/core/pke.rs", "seal_key", "unwrap", 1%N, LibTotal, "HMAC accepts every key length; the recipient key was validated at decode");
    ("paseto-v1/src/core/pke.rs", "unseal_key", "expect", 1%N, ByLemma, "after the length check / split: LocalProofs.lg_unseal_no_panic, PublicProofs.pg_unseal_no_panic, Paserk unseal models");
    ("paseto-v1/src/core/pke.rs", "unseal_key", "index", 1%N, ByLemma, "after the length check / split: LocalProofs.lg_unseal_no_panic, PublicProofs.pg_unseal_no_panic, Paserk unseal models");
    ("paseto-v1/src/core/pke.rs", "unseal_key", "unwrap", 1%N, ByLemma, "after the length check / split: LocalProofs.lg_unseal_no_panic, PublicProofs.pg_unseal_no_panic, Paserk unseal models");
    ("paseto-v1/src/core/public.rs", "encode", "expect", 2%N, LibTotal, "DER encoding of a parsed RSA key; fixed-size conversions after the length check");
    ("paseto-v1/src/core/public.rs", "unseal", "index", 1%N, ByLemma, "after the length check / split: LocalProofs.lg_unseal_no_panic, PublicProofs.pg_unseal_no_panic, Paserk unseal models");
    ("paseto-v1/src/core/pw_wrap.rs", "pw_wrap_key", "expect", 1%N, ConstSize, "the buffer was just created with size_of::<Prefix>() bytes");
    ("paseto-v1/src/core/pw_wrap.rs", "wrap_keys", "expect", 2%N, LibTotal, "HMAC accepts every key length; BLAKE2b keys of 32 bytes and outputs <= 64; HKDF output <= 255 * 48");
    ("paseto-v2/src/core/local.rs", "dangerous_seal_with_nonce", "expect", 1%N, ConstSize, "HMAC / BLAKE2b output truncated to the nonce length");
    ("paseto-v2/src/core/pie_wrap.rs", "kdf", "expect", 1%N, LibTotal, "HMAC accepts every key length; BLAKE2b keys of 32 bytes and outputs <= 64; HKDF output <= 255 * 48");
    ("paseto-v2/src/core/pie_wrap.rs", "wrap_keys", "expect", 1%N, LibTotal, "HMAC accepts every key length; BLAKE2b keys of 32 bytes and outputs <= 64; HKDF output <= 255 * 48");
    ("paseto-v2/src/core/pke.rs", "seal_key", "unwrap", 2%N, LibTotal, "HMAC accepts every key length; the recipient key was validated at decode");
    ("paseto-v2/src/core/pke.rs", "unseal_key", "unwrap", 1%N, ByLemma, "after the length check / split: LocalProofs.lg_unseal_no_panic, PublicProofs.pg_unseal_no_panic, Paserk unseal models");
    ("paseto-v2/src/core/public.rs", "is_identity", "index", 4%N, ConstSize, "indices 0 and 31 of a [u8; 32]");
    ("paseto-v2/src/core/public.rs", "preauth_secret", "expect", 1%N, LibTotal, "raw_sign_byupdate with an infallible closure");
    ("paseto-v2/src/core/public.rs", "unseal", "split_at", 1%N, ByLemma, "the mirror has the Panic branch (Rs.rs_sub / rs_split_at): NoPanic.v2_public_unseal_no_panic; guard constant tied to the source by GuardRules.guards_tied / guards_sufficient");
    ("paseto-v2/src/core/public.rs", "unseal", "unwrap", 1%N, ByLemma, "after the length check / split: LocalProofs.lg_unseal_no_panic, PublicProofs.pg_unseal_no_panic, Paserk unseal models");
    ("paseto-v2/src/core/pw_wrap.rs", "pw_wrap_key", "expect", 1%N, ConstSize, "the buffer was just created with size_of::<Prefix>() bytes");
    ("paseto-v2/src/core/pw_wrap.rs", "wrap_keys", "expect", 1%N, LibTotal, "HMAC accepts every key length; BLAKE2b keys of 32 bytes and outputs <= 64; HKDF output <= 255 * 48");
    ("paseto-v3-aws-lc/src/core/local.rs", "dangerous_seal_with_nonce", "split_at", 1%N, OutOfScope, "caller-supplied nonce shorter than the scheme's: outside C04's scope (recorded in DESIGN.md)");
    ("paseto-v3-aws-lc/src/core/local.rs", "unseal", "split_at", 2%N, ByLemma, "the mirror has the Panic branches (Rs.rs_sub / rs_split_at x2): NoPanic.lc_local_unseal_no_panic; guard constants tied to the source by GuardRules.guards_tied / guards_sufficient");
    ("paseto-v3-aws-lc/src/core/mod.rs", "hash_key", "assert", 1%N, ConstSize, "digest output has 48 (33) bytes");
    ("paseto-v3-aws-lc/src/core/mod.rs", "hash_key", "index", 1%N, ConstSize, "digest output has 48 (33) bytes");
    ("paseto-v3-aws-lc/src/core/mod.rs", "hash_key", "unwrap", 1%N, ConstSize, "digest output has 48 (33) bytes");
    ("paseto-v3-aws-lc/src/core/pie_wrap.rs", "wrap_keys", "index", 1%N, LibTotal, "HMAC accepts every key length; BLAKE2b keys of 32 bytes and outputs <= 64; HKDF output <= 255 * 48");
    ("paseto-v3-aws-lc/src/core/public.rs", "unseal", "split_at", 1%N, ByLemma, "the mirror has the Panic branch (Rs.rs_sub / rs_split_at): NoPanic.lc_public_unseal_no_panic; guard constant tied to the source by GuardRules");
    ("paseto-v3-aws-lc/src/core/pw_wrap.rs", "pw_wrap_key", "expect", 1%N, ConstSize, "the buffer was just created with size_of::<Prefix>() bytes");
    ("paseto-v3-aws-lc/src/core/pw_wrap.rs", "wrap_keys", "index", 1%N, LibTotal, "HMAC accepts every key length; BLAKE2b keys of 32 bytes and outputs <= 64; HKDF output <= 255 * 48");
    ("paseto-v3-aws-lc/src/lc/mod.rs", "append_to_vec", "unchecked", 1%N, Ffi, "projections of an owned, fully initialised EC_KEY are non-null; EC_group_p384 is static");
    ("paseto-v3-aws-lc/src/lc/mod.rs", "clone", "assert", 3%N, Ffi, "projections of an owned, fully initialised EC_KEY are non-null; EC_group_p384 is static");
    ("paseto-v3-aws-lc/src/lc/mod.rs", "clone", "unwrap", 7%N, Ffi, "projections of an owned, fully initialised EC_KEY are non-null; EC_group_p384 is static");
    ("paseto-v3-aws-lc/src/lc/mod.rs", "compressed_pub_key", "assert", 1%N, ByLemma, "point2oct of a non-infinity point returns 49: infinity is rejected at decode (fix 9252c32); Keys.lc_decode_public");
    ("paseto-v3-aws-lc/src/lc/mod.rs", "compressed_pub_key", "expect", 1%N, ByLemma, "point2oct of a non-infinity point returns 49: infinity is rejected at decode (fix 9252c32); Keys.lc_decode_public");
    ("paseto-v3-aws-lc/src/lc/mod.rs", "compressed_pub_key", "unwrap", 2%N, ByLemma, "point2oct of a non-infinity point returns 49: infinity is rejected at decode (fix 9252c32); Keys.lc_decode_public");
    ("paseto-v3-aws-lc/src/lc/mod.rs", "diffie_hellman", "unwrap", 1%N, Ffi, "projections of an owned, fully initialised EC_KEY are non-null; EC_group_p384 is static");
    ("paseto-v3-aws-lc/src/lc/mod.rs", "encode", "assert", 2%N, ByLemma, "BN_num_bytes <= 48 for a scalar accepted by from_sec1_bytes: KeysProofs.lc_encode_is_identity");
    ("paseto-v3-aws-lc/src/lc/mod.rs", "encode", "index", 1%N, ByLemma, "BN_num_bytes <= 48 for a scalar accepted by from_sec1_bytes: KeysProofs.lc_encode_is_identity");
    ("paseto-v3-aws-lc/src/lc/mod.rs", "encode", "unwrap", 1%N, ByLemma, "BN_num_bytes <= 48 for a scalar accepted by from_sec1_bytes: KeysProofs.lc_encode_is_identity");
    ("paseto-v3-aws-lc/src/lc/mod.rs", "from_bytes", "index", 2%N, ByLemma, "length checked to be 96 on entry");
    ("paseto-v3-aws-lc/src/lc/mod.rs", "verifying_key", "expect", 2%N, Ffi, "projections of an owned, fully initialised EC_KEY are non-null; EC_group_p384 is static");
    ("paseto-v3-aws-lc/src/lc/mod.rs", "verifying_key", "unwrap", 1%N, Ffi, "projections of an owned, fully initialised EC_KEY are non-null; EC_group_p384 is static");
    ("paseto-v3-aws-lc/src/lc/ptr.rs", "deref", "unreachable", 1%N, Ffi, "pointer wrapper invariants (non-null by construction)");
    ("paseto-v3-aws-lc/src/lc/ptr.rs", "detach", "unwrap", 1%N, Ffi, "pointer wrapper invariants (non-null by construction)");
    ("paseto-v3-aws-lc/src/lc/ptr.rs", "from", "unreachable", 1%N, Ffi, "pointer wrapper invariants (non-null by construction)");
    ("paseto-v3/src/core/local.rs", "kdf", "unwrap", 1%N, LibTotal, "HMAC accepts every key length; BLAKE2b keys of 32 bytes and outputs <= 64; HKDF output <= 255 * 48");
    ("paseto-v3/src/core/local.rs", "keys", "expect", 1%N, LibTotal, "HMAC accepts every key length; BLAKE2b keys of 32 bytes and outputs <= 64; HKDF output <= 255 * 48");
    ("paseto-v3/src/core/mod.rs", "hash_key", "assert", 1%N, ConstSize, "digest output has 48 (33) bytes");
    ("paseto-v3/src/core/mod.rs", "hash_key", "index", 1%N, ConstSize, "digest output has 48 (33) bytes");
    ("paseto-v3/src/core/mod.rs", "hash_key", "unwrap", 1%N, ConstSize, "digest output has 48 (33) bytes");
    ("paseto-v3/src/core/pie_wrap.rs", "kdf", "expect", 1%N, LibTotal, "HMAC accepts every key length; BLAKE2b keys of 32 bytes and outputs <= 64; HKDF output <= 255 * 48");
    ("paseto-v3/src/core/pie_wrap.rs", "wrap_keys", "expect", 1%N, LibTotal, "HMAC accepts every key length; BLAKE2b keys of 32 bytes and outputs <= 64; HKDF output <= 255 * 48");
    ("paseto-v3/src/core/pie_wrap.rs", "wrap_keys", "index", 1%N, LibTotal, "HMAC accepts every key length; BLAKE2b keys of 32 bytes and outputs <= 64; HKDF output <= 255 * 48");
    ("paseto-v3/src/core/pke.rs", "seal_key", "unwrap", 1%N, LibTotal, "HMAC accepts every key length; the recipient key was validated at decode");
    ("paseto-v3/src/core/pke.rs", "unseal_key", "unwrap", 1%N, ByLemma, "after the length check / split: LocalProofs.lg_unseal_no_panic, PublicProofs.pg_unseal_no_panic, Paserk unseal models");
    ("paseto-v3/src/core/public.rs", "decode", "index", 1%N, ByLemma, "bytes[0] behind the short-circuit of `len != 49 ||`: a live Panic branch of Keys.v3_decode_public, NoPanic.v3_decode_public_no_panic");
    ("paseto-v3/src/core/public.rs", "unseal", "index", 1%N, ByLemma, "after the length check / split: LocalProofs.lg_unseal_no_panic, PublicProofs.pg_unseal_no_panic, Paserk unseal models");
    ("paseto-v3/src/core/pw_wrap.rs", "pw_wrap_key", "expect", 1%N, ConstSize, "the buffer was just created with size_of::<Prefix>() bytes");
    ("paseto-v3/src/core/pw_wrap.rs", "wrap_keys", "expect", 2%N, LibTotal, "HMAC accepts every key length; BLAKE2b keys of 32 bytes and outputs <= 64; HKDF output <= 255 * 48");
    ("paseto-v4-sodium/src/core/local.rs", "keys", "expect", 3%N, LibTotal, "HMAC accepts every key length; BLAKE2b keys of 32 bytes and outputs <= 64; HKDF output <= 255 * 48");
    ("paseto-v4-sodium/src/core/local.rs", "unseal", "copy_from_slice", 1%N, LibTotal, "xchacha20 stream_xor returns exactly as many bytes as it is given (law xchacha20_len)");
    ("paseto-v4-sodium/src/core/mod.rs", "hash_key", "expect", 2%N, ConstSize, "digest output has 48 (33) bytes");
    ("paseto-v4-sodium/src/core/mod.rs", "kdf", "expect", 1%N, LibTotal, "HMAC accepts every key length; BLAKE2b keys of 32 bytes and outputs <= 64; HKDF output <= 255 * 48");
    ("paseto-v4-sodium/src/core/pie_wrap.rs", "pie_unwrap_key", "copy_from_slice", 1%N, LibTotal, "xchacha20 stream_xor returns exactly as many bytes as it is given");
    ("paseto-v4-sodium/src/core/pie_wrap.rs", "wrap_keys", "expect", 3%N, LibTotal, "HMAC accepts every key length; BLAKE2b keys of 32 bytes and outputs <= 64; HKDF output <= 255 * 48");
    ("paseto-v4-sodium/src/core/pke.rs", "seal_key", "unwrap", 4%N, LibTotal, "HMAC accepts every key length; the recipient key was validated at decode");
    ("paseto-v4-sodium/src/core/pke.rs", "unseal_key", "unwrap", 4%N, ByLemma, "after the length check / split: LocalProofs.lg_unseal_no_panic, PublicProofs.pg_unseal_no_panic, Paserk unseal models");
    ("paseto-v4-sodium/src/core/public.rs", "decode", "index", 1%N, LibTotal, "as_bytes()[..]: the full range of a slice, never out of bounds");
    ("paseto-v4-sodium/src/core/public.rs", "is_identity", "index", 4%N, ConstSize, "indices 0 and 31 of a [u8; 32]");
    ("paseto-v4-sodium/src/core/public.rs", "unsealing_key", "expect", 1%N, ConstSize, "a 64-byte secret key ends with 32 bytes");
    ("paseto-v4-sodium/src/core/pw_wrap.rs", "pw_unwrap_key", "copy_from_slice", 1%N, LibTotal, "xchacha20 stream_xor returns exactly as many bytes as it is given");
    ("paseto-v4-sodium/src/core/pw_wrap.rs", "pw_wrap_key", "expect", 1%N, ConstSize, "the buffer was just created with size_of::<Prefix>() bytes");
    ("paseto-v4-sodium/src/core/pw_wrap.rs", "wrap_keys", "expect", 2%N, LibTotal, "HMAC accepts every key length; BLAKE2b keys of 32 bytes and outputs <= 64; HKDF output <= 255 * 48");
    ("paseto-v4/src/core/local.rs", "dangerous_seal_with_nonce", "split_at", 1%N, OutOfScope, "caller-supplied nonce shorter than the scheme's: outside C04's scope (recorded in DESIGN.md)");
    ("paseto-v4/src/core/local.rs", "keys", "expect", 1%N, LibTotal, "HMAC accepts every key length; BLAKE2b keys of 32 bytes and outputs <= 64; HKDF output <= 255 * 48");
    ("paseto-v4/src/core/mod.rs", "kdf", "expect", 1%N, LibTotal, "HMAC accepts every key length; BLAKE2b keys of 32 bytes and outputs <= 64; HKDF output <= 255 * 48");
    ("paseto-v4/src/core/pie_wrap.rs", "wrap_keys", "expect", 1%N, LibTotal, "HMAC accepts every key length; BLAKE2b keys of 32 bytes and outputs <= 64; HKDF output <= 255 * 48");
    ("paseto-v4/src/core/pke.rs", "seal_key", "unwrap", 2%N, LibTotal, "HMAC accepts every key length; the recipient key was validated at decode");
    ("paseto-v4/src/core/pke.rs", "unseal_key", "unwrap", 1%N, ByLemma, "after the length check / split: LocalProofs.lg_unseal_no_panic, PublicProofs.pg_unseal_no_panic, Paserk unseal models");
    ("paseto-v4/src/core/public.rs", "is_identity", "index", 4%N, ConstSize, "indices 0 and 31 of a [u8; 32]");
    ("paseto-v4/src/core/public.rs", "preauth_secret", "expect", 1%N, LibTotal, "raw_sign_byupdate with an infallible closure");
    ("paseto-v4/src/core/public.rs", "unseal", "split_at", 1%N, ByLemma, "the mirror has the Panic branch (Rs.rs_sub / rs_split_at / rs_exact): NoPanic.v4_public_unseal_no_panic; guard constant tied to the source by GuardRules");
    ("paseto-v4/src/core/public.rs", "unseal", "unwrap", 1%N, ByLemma, "after the length check / split: LocalProofs.lg_unseal_no_panic, PublicProofs.pg_unseal_no_panic, Paserk unseal models");
    ("paseto-v4/src/core/pw_wrap.rs", "pw_wrap_key", "expect", 1%N, ConstSize, "the buffer was just created with size_of::<Prefix>() bytes");
    ("paseto-v4/src/core/pw_wrap.rs", "wrap_keys", "expect", 1%N, LibTotal, "HMAC accepts every key length; BLAKE2b keys of 32 bytes and outputs <= 64; HKDF output <= 255 * 48") ].
