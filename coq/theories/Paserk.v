(* Paserk.v — models of the PASERK operations of the six backends (each src/core/{pie_wrap,pw_wrap,pke}.rs)
   and of the generic wrappers in paseto-core/src/paserk/{pie_wrap,pw_wrap,pke}.rs.  No proofs here.

   Layouts:  PIE   tag || nonce(32) || c                     tag = MAC(Ak, "kN" || header || nonce || c)
             PBKW  salt || params || nonce || c || tag        tag = MAC(Ak, "kN" || header || prefix || c)
             PKE   tag || epk || edk   (v1: tag || edk || c)
   [header] is K::PIE_WRAP_HEADER / K::PW_WRAP_HEADER (".local-wrap.pie." ...), ["kN"] the PASERK version. *)
From Coq Require Import List NArith String Bool.
From PV Require Import Bytes Result Ctr Oracle Local.
Import ListNotations.
Local Open Scope string_scope.
Local Open Scope list_scope.

Section WithOracle.
  Variable O : oracle.

  (* ================================================================== PIE *)
  Record pie_params : Type := {
    pie_ver : bytes;                                      (* "k1" .. "k4" *)
    pie_tlen : nat;
    pie_ks : bytes -> bytes -> nat -> bytes;              (* wrapping key, nonce, len -> keystream *)
    pie_mac : bytes -> bytes -> bytes -> bytes;           (* wrapping key, nonce, message -> tag *)
  }.

  Definition pie_auth (P : pie_params) (wk header nonce c : bytes) : bytes :=
    pie_mac P wk nonce (pie_ver P ++ header ++ nonce ++ c).

  (* V::pie_wrap_key with the 32 drawn bytes [nonce] *)
  Definition pie_wrap (P : pie_params) (header wk key_data nonce : bytes) : result bytes :=
    let c := xorl key_data (pie_ks P wk nonce (length key_data)) in
    Ok (pie_auth P wk header nonce c ++ nonce ++ c).

  Definition pie_unwrap (P : pie_params) (header wk data : bytes) : result bytes :=
    '(tag, rest) <- ok_or (split_first (pie_tlen P) data) InvalidKey ;;
    '(nonce, c) <- ok_or (split_first 32 rest) InvalidKey ;;
    if beq (pie_auth P wk header nonce c) tag
    then Ok (xorl c (pie_ks P wk nonce (length c)))
    else Err CryptoError.

  (* family A (v1, v3, v3-aws-lc): HMAC-SHA384 keyed KDF with domain bytes 0x80 / 0x81, AES-256-CTR *)
  Definition pieA_keys (wk nonce : bytes) : bytes * bytes * bytes :=
    let t := hmac384 O wk (hex "80" ++ nonce) in
    let ak := take 32 (hmac384 O wk (hex "81" ++ nonce)) in
    (take 32 t, drop 32 t, ak).
  Definition pieA (ver : bytes) (W : N) : pie_params :=
    {| pie_ver := ver; pie_tlen := 48;
       pie_ks := fun wk n len => let '(ek, n2, _) := pieA_keys wk n in aes_ctr O W ek n2 len;
       pie_mac := fun wk n msg => let '(_, _, ak) := pieA_keys wk n in hmac384 O ak msg |}.
  Definition v1_pie := pieA (str "k1") ctr_w_rustcrypto.
  Definition v3_pie := pieA (str "k3") ctr_w_rustcrypto.
  Definition lc_pie := pieA (str "k3") ctr_w_awslc.

  (* family B (v2, v4, v4-sodium): keyed BLAKE2b KDF, XChaCha20 *)
  Definition pieB_keys (wk nonce : bytes) : bytes * bytes * bytes :=
    let t := blake2b O 56 wk (hex "80" ++ nonce) in
    let ak := blake2b O 32 wk (hex "81" ++ nonce) in
    (take 32 t, drop 32 t, ak).
  Definition pieB (ver : bytes) : pie_params :=
    {| pie_ver := ver; pie_tlen := 32;
       pie_ks := fun wk n len => let '(ek, n2, _) := pieB_keys wk n in xchacha20 O ek n2 len;
       pie_mac := fun wk n msg => let '(_, _, ak) := pieB_keys wk n in blake2b O 32 ak msg |}.
  Definition v2_pie := pieB (str "k2").
  Definition v4_pie := pieB (str "k4").
  Definition na_pie := pieB (str "k4").

  (* ================================================================== PBKW *)
  Record pw_params : Type := {
    pw_ver : bytes;
    pw_salt_len : nat; pw_par_len : nat; pw_nonce_len : nat; pw_tlen : nat;
    (* password, salt, encoded params -> the 32-byte pre-key, or the error of wrap_keys *)
    pw_prekey : bytes -> bytes -> bytes -> result bytes;
    pw_ek : bytes -> bytes;  pw_ak : bytes -> bytes;          (* pre-key -> Ek, Ak *)
    pw_ks : bytes -> bytes -> nat -> bytes;                   (* Ek, nonce, len *)
    pw_mac : bytes -> bytes -> bytes;                         (* Ak, message *)
  }.

  Definition pw_prefix_len (P : pw_params) : nat := pw_salt_len P + pw_par_len P + pw_nonce_len P.

  (* V::pw_wrap_key with the drawn salt and nonce *)
  Definition pw_wrap (P : pw_params) (header pass params key_data salt nonce : bytes) : result bytes :=
    let prefix := salt ++ params ++ nonce in
    pre <- pw_prekey P pass salt params ;;
    let c := xorl key_data (pw_ks P (pw_ek P pre) nonce (length key_data)) in
    Ok (prefix ++ c ++ pw_mac P (pw_ak P pre) (pw_ver P ++ header ++ prefix ++ c)).

  Definition pw_unwrap (P : pw_params) (header pass data : bytes) : result bytes :=
    '(prefix, rest) <- ok_or (split_first (pw_prefix_len P) data) InvalidKey ;;
    '(c, tag) <- ok_or (split_last (pw_tlen P) rest) InvalidKey ;;
    let salt := take (pw_salt_len P) prefix in
    let params := take (pw_par_len P) (drop (pw_salt_len P) prefix) in
    let nonce := drop (pw_salt_len P + pw_par_len P) prefix in
    pre <- pw_prekey P pass salt params ;;
    if beq (pw_mac P (pw_ak P pre) (pw_ver P ++ header ++ prefix ++ c)) tag
    then Ok (xorl c (pw_ks P (pw_ek P pre) nonce (length c)))
    else Err CryptoError.

  (* PwWrapVersion::get_params *)
  Definition pw_get_params (P : pw_params) (data : bytes) : result bytes :=
    '(prefix, _) <- ok_or (split_first (pw_prefix_len P) data) InvalidKey ;;
    Ok (take (pw_par_len P) (drop (pw_salt_len P) prefix)).

  (* family A: PBKDF2-SHA384, Ek = SHA384(0xFF || k)[..32], Ak = SHA384(0xFE || k) *)
  Definition pwA (ver : bytes) (W : N) (zero_iter_rejected : bool) : pw_params :=
    {| pw_ver := ver; pw_salt_len := 32; pw_par_len := 4; pw_nonce_len := 16; pw_tlen := 48;
       pw_prekey := fun pass salt params =>
         let it := be_val params in
         if zero_iter_rejected && N.eqb it 0 then Err InvalidKey
         else Ok (pbkdf2_384 O pass salt it 32);
       pw_ek := fun k => take 32 (sha384 O (hex "ff" ++ k));
       pw_ak := fun k => sha384 O (hex "fe" ++ k);
       pw_ks := fun ek nonce len => aes_ctr O W ek nonce len;
       pw_mac := hmac384 O |}.
  Definition v1_pw := pwA (str "k1") ctr_w_rustcrypto false.
  Definition v3_pw := pwA (str "k3") ctr_w_rustcrypto false.
  Definition lc_pw := pwA (str "k3") ctr_w_awslc true.

  (* family B: Argon2id; params = mem (bytes, u64 BE) || time (u32 BE) || parallelism (u32 BE) *)
  Definition pwB_fields (params : bytes) : N * N * N :=
    (be_val (take 8 params), be_val (take 4 (drop 8 params)), be_val (drop 12 params)).

  (* RustCrypto argon2: mem must be a multiple of 1024 and fit u32 KiB; bad parameter sets -> InvalidKey *)
  Definition v4_prekey (pass salt params : bytes) : result bytes :=
    let '(mem, time, para) := pwB_fields params in
    if negb (N.eqb (mem mod 1024) 0) then Err InvalidKey else
    if negb (mem / 1024 <? 2 ^ 32)%N then Err InvalidKey else
    match argon2id O pass salt (mem / 1024) time para 32 with
    | Some k => Ok k
    | None => Err InvalidKey
    end.
  (* libsodium crypto_pwhash: parallelism fixed to 1; memlimit in bytes (floored to KiB); failure -> CryptoError *)
  Definition na_prekey (pass salt params : bytes) : result bytes :=
    let '(mem, time, para) := pwB_fields params in
    if negb (N.eqb para 1) then Err InvalidKey else
    match argon2id O pass salt (mem / 1024) time 1 32 with
    | Some k => Ok k
    | None => Err CryptoError
    end.
  Definition pwB (ver : bytes) (prekey : bytes -> bytes -> bytes -> result bytes) : pw_params :=
    {| pw_ver := ver; pw_salt_len := 16; pw_par_len := 16; pw_nonce_len := 24; pw_tlen := 32;
       pw_prekey := prekey;
       pw_ek := fun k => blake2b O 32 [] (hex "ff" ++ k);
       pw_ak := fun k => blake2b O 32 [] (hex "fe" ++ k);
       pw_ks := fun ek nonce len => xchacha20 O ek nonce len;
       pw_mac := fun ak msg => blake2b O 32 ak msg |}.
  Definition v2_pw := pwB (str "k2") v4_prekey.
  Definition v4_pw := pwB (str "k4") v4_prekey.
  Definition na_pw := pwB (str "k4") na_prekey.

  (* ================================================================== PKE, v3 family (ECDH P-384) *)
  Definition v3_seal_keys (xk epk pk : bytes) : bytes * bytes * bytes :=
    let e := sha384 O (hex "01" ++ str "k3.seal." ++ xk ++ epk ++ pk) in
    let ak := sha384 O (hex "02" ++ str "k3.seal." ++ xk ++ epk ++ pk) in
    (take 32 e, drop 32 e, ak).

  (* seal_key(pk, key) with the ephemeral scalar [esk] (first valid 48-byte draw) *)
  Definition v3_pke_seal (W : N) (pk key esk : bytes) : result bytes :=
    match p384_pk O esk, ecdh_p384 O esk pk with
    | Some epk, Some xk =>
        let '(ek, n, ak) := v3_seal_keys xk epk pk in
        let edk := xorl key (aes_ctr O W ek n 32) in
        Ok (hmac384 O ak (str "k3.seal." ++ epk ++ edk) ++ epk ++ edk)
    | _, _ => Err CryptoError
    end.

  Definition v3_pke_unseal_gen (W : N) (bad_epk : err) (sk data : bytes) : result bytes :=
    '(tag, rest) <- ok_or (split_first 48 data) InvalidKey ;;
    '(epk, edk) <- ok_or (split_first 49 rest) InvalidKey ;;
    if negb (Nat.eqb (length edk) 32) then Err InvalidKey else
    match p384_pk O sk with
    | None => Panic "paseto-v3: secret key object holds an invalid scalar"
    | Some pk =>
        match p384_parse O epk with
        | None => Err bad_epk
        | Some epk' =>
            match ecdh_p384 O sk epk' with
            | None => Err CryptoError
            | Some xk =>
                let '(ek, n, ak) := v3_seal_keys xk epk pk in
                if beq (hmac384 O ak (str "k3.seal." ++ epk ++ edk)) tag
                then Ok (xorl edk (aes_ctr O W ek n 32))
                else Err CryptoError
            end
        end
    end.
  Definition v3_pke_unseal := v3_pke_unseal_gen ctr_w_rustcrypto CryptoError.
  Definition lc_pke_unseal := v3_pke_unseal_gen ctr_w_awslc InvalidKey.

  (* ================================================================== PKE, v2 / v4 family (X25519) *)
  Definition x_seal_keys (ver xk epk xpk : bytes) : bytes * bytes * bytes :=
    (blake2b O 32 [] (hex "01" ++ ver ++ str ".seal." ++ xk ++ epk ++ xpk),
     blake2b O 24 [] (epk ++ xpk),
     blake2b O 32 [] (hex "02" ++ ver ++ str ".seal." ++ xk ++ epk ++ xpk)).

  Definition zero32 : bytes := repeat x00 32.

  (* [strict]: libsodium's scalarmult refuses an all-zero shared secret and ed25519_pk_to_curve25519
     refuses invalid / small-order points with CryptoError; the RustCrypto code unwraps a decompression
     that key decoding guarantees *)
  Definition x_pke_seal (ver : bytes) (strict : bool) (edpk key r : bytes) : result bytes :=
    match x_of_edpk O edpk with
    | None => if strict then Err CryptoError else Panic "pke.rs: pk.decompress().unwrap()"
    | Some xpk =>
        let epk := x_base O r in
        let xk := x_mul O r xpk in
        if strict && beq xk zero32 then Err CryptoError else
        let '(ek, n, ak) := x_seal_keys ver xk epk xpk in
        let edk := xorl key (xchacha20 O ek n 32) in
        Ok (blake2b O 32 ak (ver ++ str ".seal." ++ epk ++ edk) ++ epk ++ edk)
    end.

  (* [xpk_of sk]: the recipient's X25519 public key as the backend derives it *)
  Definition x_pke_unseal (ver : bytes) (strict : bool) (xpk_of : bytes -> option bytes) (sk data : bytes) : result bytes :=
    '(tag, rest) <- ok_or (split_first 32 data) InvalidKey ;;
    '(epk, edk) <- ok_or (split_first 32 rest) InvalidKey ;;
    if negb (Nat.eqb (length edk) 32) then Err InvalidKey else
    match xpk_of sk with
    | None => Err CryptoError
    | Some xpk =>
        let xk := x_mul_seed O (take 32 sk) epk in
        if strict && beq xk zero32 then Err CryptoError else
        let '(ek, n, ak) := x_seal_keys ver xk epk xpk in
        if beq (blake2b O 32 ak (ver ++ str ".seal." ++ epk ++ edk)) tag
        then Ok (xorl edk (xchacha20 O ek n 32))
        else Err CryptoError
    end.

  (* RustCrypto: key object = seed; xpk = (expanded scalar * B) in Montgomery form *)
  Definition v4_pke_seal := x_pke_seal (str "k4") false.
  Definition v2_pke_seal := x_pke_seal (str "k2") false.
  Definition v4_pke_unseal := x_pke_unseal (str "k4") false (fun sk => Some (x_of_seed O sk)).
  Definition v2_pke_unseal := x_pke_unseal (str "k2") false (fun sk => Some (x_of_seed O sk)).
  (* libsodium: key object = seed || pk (64 bytes); xpk is converted from the STORED public half *)
  Definition na_pke_seal := x_pke_seal (str "k4") true.
  Definition na_pke_unseal := x_pke_unseal (str "k4") true (fun sk => x_of_edpk O (drop 32 sk)).

  (* ================================================================== PKE, v1 (RSA-KEM, 4096 bit) *)
  Definition v1_seal_keys (c r : bytes) : bytes * bytes * bytes :=
    let k := sha384 O c in
    let e := hmac384 O k (hex "01" ++ str "k1.seal." ++ r) in
    let ak := hmac384 O k (hex "02" ++ str "k1.seal." ++ r) in
    (take 32 e, drop 32 e, ak).

  (* r[0] &= 0x7f; r[0] |= 0x40 *)
  Definition v1_mask_r (r : bytes) : bytes :=
    match r with
    | [] => []
    | b :: rest => n2b (N.lor (N.land (b2n b) 127) 64) :: rest
    end.

  (* seal_key with the 512 drawn bytes; the RSA ciphertext is serialised with fixed width (512 bytes) *)
  Definition v1_pke_seal (pk key r0 : bytes) : result bytes :=
    let r := v1_mask_r r0 in
    match rsa_enc O pk (be_val r) with
    | None => Err CryptoError
    | Some cn =>
        let c := be_bytes 512 cn in
        let '(ek, n, ak) := v1_seal_keys c r in
        let edk := xorl key (aes_ctr O ctr_w_rustcrypto ek n 32) in
        Ok (hmac384 O ak (str "k1.seal." ++ c ++ edk) ++ edk ++ c)
    end.

  (* the serialisation the code used before the fix (BigUint::to_bytes_be strips leading zeros) *)
  Definition v1_pke_seal_minimal (pk key r0 : bytes) : result bytes :=
    let r := v1_mask_r r0 in
    match rsa_enc O pk (be_val r) with
    | None => Err CryptoError
    | Some cn =>
        let c := be_minimal cn in
        let '(ek, n, ak) := v1_seal_keys c r in
        let edk := xorl key (aes_ctr O ctr_w_rustcrypto ek n 32) in
        Ok (hmac384 O ak (str "k1.seal." ++ c ++ edk) ++ edk ++ c)
    end.

  Definition v1_pke_unseal (sk data : bytes) : result bytes :=
    '(tag, rest) <- ok_or (split_first 48 data) InvalidKey ;;
    '(edk, c) <- ok_or (split_last 512 rest) InvalidKey ;;
    if negb (Nat.eqb (length edk) 32) then Err InvalidKey else
    match rsa_dec O sk (be_val c) with
    | None => Err CryptoError
    | Some rn =>
        let r := be_minimal rn in
        let '(ek, n, ak) := v1_seal_keys c r in
        if beq (hmac384 O ak (str "k1.seal." ++ c ++ edk)) tag
        then Ok (xorl edk (aes_ctr O ctr_w_rustcrypto ek n 32))
        else Err CryptoError
    end.

End WithOracle.
