(* Result.v — outcomes of modelled Rust functions: Ok / Err(PasetoError kind) / Panic(site). *)
From PV Require Import Bytes.

Inductive err : Type :=
| Base64DecodeError | InvalidKey | InvalidToken | CryptoError | ClaimsError | PayloadError.

Inductive result (A : Type) : Type :=
| Ok (a : A)
| Err (e : err)
| Panic (site : String.string).
Arguments Ok {A} a.
Arguments Err {A} e.
Arguments Panic {A} site%string_scope.

Definition bind {A B} (r : result A) (f : A -> result B) : result B :=
  match r with
  | Ok a => f a
  | Err e => Err e
  | Panic s => Panic s
  end.

Definition rmap {A B} (f : A -> B) (r : result A) : result B := bind r (fun a => Ok (f a)).

(* Rust: opt.ok_or(e)? *)
Definition ok_or {A} (o : option A) (e : err) : result A :=
  match o with Some a => Ok a | None => Err e end.

(* Rust: r.map_err(|_| e) *)
Definition map_err {A} (r : result A) (e : err) : result A :=
  match r with Ok a => Ok a | Err _ => Err e | Panic s => Panic s end.

Notation "x <- r ;; k" := (bind r (fun x => k)) (at level 61, r at next level, right associativity).
Notation "' p <- r ;; k" := (bind r (fun p => k)) (at level 61, p pattern, r at next level, right associativity).

Definition is_ok {A} (r : result A) : bool := match r with Ok _ => true | _ => false end.
Definition is_panic {A} (r : result A) : bool := match r with Panic _ => true | _ => false end.

Definition err_eqb (a b : err) : bool :=
  match a, b with
  | Base64DecodeError, Base64DecodeError | InvalidKey, InvalidKey | InvalidToken, InvalidToken
  | CryptoError, CryptoError | ClaimsError, ClaimsError | PayloadError, PayloadError => true
  | _, _ => false
  end.

Lemma bind_ok {A B} (r : result A) (f : A -> result B) b :
  bind r f = Ok b -> exists a, r = Ok a /\ f a = Ok b.
Proof. destruct r; cbn; intros H; try discriminate. eauto. Qed.
