(* ValidationProofs.v — C11: the built-in validators and the combinators are exact. *)
From PV Require Import Bytes Result Validation.
Local Open Scope Z_scope.
Set Default Timeout 60.

Lemma check_ok b : check b = Ok tt <-> b = true.
Proof. destruct b; cbn; split; congruence. Qed.

Lemma check_err b : check b = Err ClaimsError <-> b = false.
Proof. destruct b; cbn; split; congruence. Qed.

Lemma check_cases b : check b = Ok tt \/ check b = Err ClaimsError.
Proof. destruct b; cbn; auto. Qed.

Definition opt_le (o : option Z) (f : Z -> Prop) : Prop :=
  match o with Some x => f x | None => True end.

(* ---- time ---- *)
Theorem time_exact now c :
  validate (VTime now) c = Ok tt <->
  (match exp c with Some e => now <= e | None => True end) /\
  (match nbf c with Some n => n <= now | None => True end).
Proof.
  cbn [validate]. destruct (exp c) as [e|], (nbf c) as [n|]; cbn [bind].
  - destruct (Z.ltb_spec e now); cbn; [split; [discriminate | lia]|].
    destruct (Z.ltb_spec now n); cbn; split; try discriminate; try lia; auto.
  - destruct (Z.ltb_spec e now); cbn; split; try discriminate; try lia; auto.
  - destruct (Z.ltb_spec now n); cbn; split; try discriminate; try lia; auto.
  - tauto.
Qed.

Theorem time_rejects_with_claims_error now c :
  validate (VTime now) c = Ok tt \/ validate (VTime now) c = Err ClaimsError.
Proof.
  cbn [validate]. destruct (exp c) as [e|], (nbf c) as [n|]; cbn [bind];
    repeat match goal with |- context [check ?b] => destruct b; cbn end; auto.
Qed.

(* ---- time with leeway: both bounds widened by exactly the leeway ---- *)
Theorem leeway_exact now leeway c :
  ts_ok (now - leeway) = true -> ts_ok (now + leeway) = true ->
  (validate (VTimeLeeway now leeway) c = Ok tt <->
   (match exp c with Some e => now - leeway <= e | None => True end) /\
   (match nbf c with Some n => n <= now + leeway | None => True end)).
Proof.
  intros H1 H2. cbn [validate]. rewrite H1, H2.
  destruct (exp c) as [e|], (nbf c) as [n|]; cbn [bind].
  - destruct (Z.ltb_spec e (now - leeway)); cbn; [split; [discriminate | lia]|].
    destruct (Z.ltb_spec (now + leeway) n); cbn; split; try discriminate; try lia; auto.
  - destruct (Z.ltb_spec e (now - leeway)); cbn; split; try discriminate; try lia; auto.
  - destruct (Z.ltb_spec (now + leeway) n); cbn; split; try discriminate; try lia; auto.
  - tauto.
Qed.

Theorem leeway_zero_is_time now c :
  ts_ok now = true -> validate (VTimeLeeway now 0) c = validate (VTime now) c.
Proof. intros H. cbn [validate]. rewrite Z.sub_0_r, Z.add_0_r, H. reflexivity. Qed.

Theorem leeway_no_panic now leeway c :
  ts_ok (now - leeway) = true -> ts_ok (now + leeway) = true ->
  validate (VTimeLeeway now leeway) c = Ok tt \/ validate (VTimeLeeway now leeway) c = Err ClaimsError.
Proof.
  intros H1 H2. cbn [validate]. rewrite H1, H2.
  destruct (exp c) as [e|], (nbf c) as [n|]; cbn [bind];
    repeat match goal with |- context [check ?b] => destruct b; cbn end; auto.
Qed.

(* ---- presence / equality validators ---- *)
Theorem has_expiry_exact c : validate VHasExpiry c = Ok tt <-> exists e, exp c = Some e.
Proof.
  cbn [validate]. destruct (exp c); cbn; split; try discriminate; eauto.
  intros [e H]. discriminate.
Qed.

Lemma opt_bytes_is_spec o s : opt_bytes_is o s = true <-> o = Some s.
Proof.
  unfold opt_bytes_is. destruct o as [b|]; [|split; discriminate].
  rewrite beq_eq. split; congruence.
Qed.

Theorem for_subject_exact s c : validate (VForSubject s) c = Ok tt <-> sub c = Some s.
Proof. cbn [validate]. rewrite check_ok. apply opt_bytes_is_spec. Qed.
Theorem from_issuer_exact s c : validate (VFromIssuer s) c = Ok tt <-> iss c = Some s.
Proof. cbn [validate]. rewrite check_ok. apply opt_bytes_is_spec. Qed.
Theorem for_audience_exact s c : validate (VForAudience s) c = Ok tt <-> aud c = Some s.
Proof. cbn [validate]. rewrite check_ok. apply opt_bytes_is_spec. Qed.

Theorem no_validation_accepts c : validate VNoValidation c = Ok tt.
Proof. reflexivity. Qed.

(* ---- combinators ---- *)
Lemma bind_unit_ok (r : result unit) (k : result unit) :
  (_ <- r ;; k) = Ok tt <-> r = Ok tt /\ k = Ok tt.
Proof. destruct r as [[]| |]; cbn; split; try tauto; try discriminate; intros [? ?]; discriminate. Qed.

Theorem and_then_exact a b c :
  validate (VAndThen a b) c = Ok tt <-> validate a c = Ok tt /\ validate b c = Ok tt.
Proof. cbn [validate]. apply bind_unit_ok. Qed.

Lemma validate_all_exact l c :
  validate_all l c = Ok tt <-> Forall (fun v => validate v c = Ok tt) l.
Proof.
  induction l as [|x r IH]; cbn [validate_all].
  - split; [constructor | reflexivity].
  - fold (validate_all r c). rewrite bind_unit_ok, IH. split.
    + intros [A B]. constructor; assumption.
    + intros F. inversion F; subst. tauto.
Qed.

Theorem slice_exact l c :
  validate (VSlice l) c = Ok tt <-> Forall (fun v => validate v c = Ok tt) l.
Proof. exact (validate_all_exact l c). Qed.

Theorem vec_exact l c :
  validate (VVec l) c = Ok tt <-> Forall (fun v => validate v c = Ok tt) l.
Proof. exact (validate_all_exact l c). Qed.

Theorem wrappers_transparent v c :
  validate (VBox v) c = validate v c /\ validate (VRc v) c = validate v c /\
  validate (VArc v) c = validate v c.
Proof. repeat split. Qed.

Theorem map_validates_projection k v c : validate (VMap k v) c = validate v (transform k c).
Proof. reflexivity. Qed.

(* first failing member decides (early return): the slice result is the first non-Ok result *)
Theorem slice_first_failure l1 x l2 c :
  Forall (fun v => validate v c = Ok tt) l1 -> validate x c <> Ok tt ->
  validate (VSlice (l1 ++ x :: l2)) c = validate x c.
Proof.
  intros F N. change (validate_all (l1 ++ x :: l2) c = validate x c).
  induction F as [|y l1 Hy _ IH]; cbn [app validate_all].
  - fold (validate_all l2 c). destruct (validate x c) as [[]| |]; cbn; congruence.
  - fold (validate_all (l1 ++ x :: l2) c). rewrite Hy. cbn [bind]. exact IH.
Qed.
