(* Base64.v — model of paseto-core/src/base64.rs, function by function.
   i16 arithmetic is modelled on Z with an explicit two's-complement wrap [i16];
   [as u8] is [mod 256]; [>>] on i16 is the arithmetic shift (Z.shiftr). *)
From PV Require Import Bytes Result.
Local Open Scope Z_scope.

Definition i16 (z : Z) : Z := (z + 32768) mod 65536 - 32768.
Definition u8 (z : Z) : byte := n2b (Z.to_N (z mod 256)).
Definition zb (b : byte) : Z := Z.of_N (b2n b).

(* fn decode_6bits(src: u8) -> i16 *)
Definition range_mask (lo hi s : Z) : Z :=
  (* ((lo - 1) - src) & (src - (hi + 1))) >> 8   : -1 iff lo <= src <= hi, else 0 *)
  Z.shiftr (Z.land (i16 ((lo - 1) - s)) (i16 (s - (hi + 1)))) 8.

Definition decode_6bits (src : byte) : Z :=
  let s := zb src in
  let ret := -1 in
  let ret := i16 (ret + Z.land (range_mask 65 90 s) (i16 (s + -64))) in    (* 'A'..'Z' *)
  let ret := i16 (ret + Z.land (range_mask 97 122 s) (i16 (s + -70))) in   (* 'a'..'z' *)
  let ret := i16 (ret + Z.land (range_mask 48 57 s) (i16 (s + 5))) in      (* '0'..'9' *)
  let ret := i16 (ret + Z.land (range_mask 45 45 s) 63) in                 (* '-' *)
  let ret := i16 (ret + Z.land (range_mask 95 95 s) 64) in                 (* '_' *)
  ret.

(* fn encode_6bits(src: i16) -> u8 *)
Definition encode_6bits (src : Z) : byte :=
  let diff := i16 (src + 65) in
  let diff := i16 (diff + Z.land (Z.shiftr (i16 (25 - src)) 8) 6) in
  let diff := i16 (diff + Z.land (Z.shiftr (i16 (51 - src)) 8) (-75)) in
  let diff := i16 (diff + Z.land (Z.shiftr (i16 (61 - src)) 8) (-(45 - 32))) in
  let diff := i16 (diff + Z.land (Z.shiftr (i16 (62 - src)) 8) (95 - 45 - 1)) in
  u8 diff.

(* fn decode_3bytes(src: &[u8; 4], dst: &mut [u8; 3]) -> i16 *)
Definition decode_3bytes (s0 s1 s2 s3 : byte) : bytes * Z :=
  let c0 := decode_6bits s0 in
  let c1 := decode_6bits s1 in
  let c2 := decode_6bits s2 in
  let c3 := decode_6bits s3 in
  ([ u8 (Z.lor (i16 (Z.shiftl c0 2)) (Z.shiftr c1 4));
     u8 (Z.lor (i16 (Z.shiftl c1 4)) (Z.shiftr c2 2));
     u8 (Z.lor (i16 (Z.shiftl c2 6)) c3) ],
   Z.land (Z.shiftr (Z.lor (Z.lor (Z.lor c0 c1) c2) c3) 8) 1).

(* fn encode_3bytes(src: &[u8; 3], dst: &mut [u8; 4]) *)
Definition encode_3bytes (a b c : byte) : bytes :=
  let b0 := zb a in
  let b1 := zb b in
  let b2 := zb c in
  [ encode_6bits (Z.shiftr b0 2);
    encode_6bits (Z.land (Z.lor (i16 (Z.shiftl b0 4)) (Z.shiftr b1 4)) 63);
    encode_6bits (Z.land (Z.lor (i16 (Z.shiftl b1 2)) (Z.shiftr b2 6)) 63);
    encode_6bits (Z.land b2 63) ].

(* fn encode_last(bytes: &[u8], dst) -> &[u8] *)
Definition encode_last (bs : bytes) : bytes :=
  match bs with
  | [] => firstn 0 (encode_3bytes x00 x00 x00)
  | [a] => firstn 2 (encode_3bytes a x00 x00)
  | [a; b] => firstn 3 (encode_3bytes a b x00)
  | a :: b :: c :: _ => firstn 4 (encode_3bytes a b c)
  end.

(* pub fn write_to_fmt: as_chunks::<3>() then encode_last(rem) *)
Fixpoint encode (bs : bytes) : bytes :=
  match bs with
  | a :: b :: c :: r => encode_3bytes a b c ++ encode r
  | _ => encode_last bs
  end.

Local Close Scope Z_scope.

(* pub(crate) fn decoded_len(input_len: usize) -> usize *)
Definition decoded_len (n : nat) : nat :=
  let k := n / 4 in
  let l := n - 4 * k in
  3 * k + (3 * l) / 4.

(* the zip over (src_chunks, dst_chunks): decoded full blocks, accumulated err, src remainder (< 4) *)
Fixpoint decode_chunks (s : bytes) : bytes * Z * bytes :=
  match s with
  | a :: b :: c :: d :: r =>
      let '(o, e) := decode_3bytes a b c d in
      let '(o', e', rem) := decode_chunks r in
      (o ++ o', Z.lor e e', rem)
  | _ => ([], 0%Z, s)
  end.

Definition last_block_start (len block : nat) : nat := ((len - 1) / block) * block.

(* fn validate_last_block(encoded, decoded) *)
Definition validate_last_block (encoded decoded : bytes) : result unit :=
  match encoded, decoded with
  | [], [] => Ok tt
  | _, _ =>
      let enc_block := skipn (last_block_start (length encoded) 4) encoded in
      let dec_block := skipn (last_block_start (length decoded) 3) decoded in
      let bs := encode_last dec_block in
      (* zip: compares only the common prefix *)
      let acc := fold_left (fun acc ab => N.lor acc (N.lxor (b2n (fst ab)) (b2n (snd ab))))
                           (combine bs enc_block) 0%N in
      if N.eqb acc 0 then Ok tt else Err Base64DecodeError
  end.

Definition pad_A (rem : bytes) : bytes := firstn 4 (rem ++ [x41; x41; x41; x41]).

(* fn decode_inner(src, dst) with dst = vec![0; decoded_len(src.len())]; returns the filled dst.
   Slice operations that would be out of bounds in Rust are [Panic] here. *)
Definition decode_vec (s : bytes) : result bytes :=
  let dlen := decoded_len (length s) in
  let '(o, e, rem) := decode_chunks s in
  let ndst_rem := dlen - length o in
  (* zip() stops at the shorter side; dst_chunks has dlen/3 chunks *)
  if negb (Nat.eqb (length o) (3 * (dlen / 3))) then Panic "base64: chunk count mismatch"
  else
    let e := Z.lor e (if (Nat.eqb (length rem) 0 || Nat.leb 2 (length rem))%bool then 0 else 1)%Z in
    match pad_A rem with
    | [t0; t1; t2; t3] =>
        let '(t, e2) := decode_3bytes t0 t1 t2 t3 in
        let e := Z.lor e e2 in
        if Nat.ltb 3 ndst_rem then Panic "base64: tmp_out[..dst_rem.len()]"
        else
          let out := o ++ firstn ndst_rem t in
          if Z.eqb e 0 then
            (_ <- validate_last_block s out ;; Ok out)
          else Err Base64DecodeError
    | _ => Panic "base64: tmp_in[..src_rem.len()]"
    end.

(* pub fn decode(src, dst: &mut [u8; cap]) -> Result<&[u8]>  (fixed buffer; used by key ids) *)
Definition decode_fixed (cap : nat) (s : bytes) : result bytes :=
  if Nat.leb (decoded_len (length s)) cap then decode_vec s else Err Base64DecodeError.
