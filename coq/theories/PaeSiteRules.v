(* PaeSiteRules.v — the tie between the model's authenticated inputs and the source's `pre_auth_encode` call sites.
   Gen/PaeSites.v is regenerated from /repo on every check: one Gallina function per call site, from the enclosing fn's
   byte-string parameters (in declaration order) to the pieces the call passes.  Every lemma below is closed by
   computation; it fails as soon as a site passes other pieces, another order, another literal or header constant. *)
From Coq Require Import List String NArith.
From PV Require Import Bytes Pae Local Public.
From PV.Gen Require Import Headers PaeSites.
Import ListNotations.
Local Open Scope string_scope.
Local Open Scope list_scope.

(* ---- local ---- *)
Lemma site_v1_local : forall enc n c f, pae (site_paseto_v1_local_0 enc n c f) = v1_pre enc n c f.
Proof. reflexivity. Qed.
Lemma site_v2_local : forall enc n f, pae (site_paseto_v2_local_0 enc n f) = v2_pre enc n f.
Proof. reflexivity. Qed.
Lemma site_v3_local : forall enc n c f a, pae (site_paseto_v3_local_0 enc n c f a) = v3_pre enc n c f a.
Proof. reflexivity. Qed.
Lemma site_v3_awslc_local : forall enc n c f a, pae (site_paseto_v3_aws_lc_local_0 enc n c f a) = v3_pre enc n c f a.
Proof. reflexivity. Qed.
Lemma site_v4_local : forall enc n c f a, pae (site_paseto_v4_local_0 enc n c f a) = v4_pre enc n c f a.
Proof. reflexivity. Qed.
Lemma site_v4_sodium_local : forall enc n c f a, pae (site_paseto_v4_sodium_local_0 enc n c f a) = v4_pre enc n c f a.
Proof. reflexivity. Qed.

(* ---- public: verification side, and the separate signing-side site of the ed25519-dalek backends ---- *)
Lemma site_v1_public : forall enc m f, pae (site_paseto_v1_public_0 enc m f) = v1_ppre enc m f.
Proof. reflexivity. Qed.
Lemma site_v2_public_verify : forall enc m f, pae (site_paseto_v2_public_0 enc m f) = v2_ppre enc m f.
Proof. reflexivity. Qed.
Lemma site_v2_public_sign : forall enc m f, pae (site_paseto_v2_public_1 enc m f) = v2_ppre enc m f.
Proof. reflexivity. Qed.
Lemma site_v3_public : forall pk enc m f a, pae (site_paseto_v3_public_0 pk enc m f a) = v3_ppre pk enc m f a.
Proof. reflexivity. Qed.
Lemma site_v3_awslc_public : forall pk enc m f a, pae (site_paseto_v3_aws_lc_public_0 pk enc m f a) = v3_ppre pk enc m f a.
Proof. reflexivity. Qed.
Lemma site_v4_public_verify : forall enc m f a, pae (site_paseto_v4_public_0 enc m f a) = v4_ppre enc m f a.
Proof. reflexivity. Qed.
Lemma site_v4_public_sign : forall enc m f a, pae (site_paseto_v4_public_1 enc m f a) = v4_ppre enc m f a.
Proof. reflexivity. Qed.
Lemma site_v4_sodium_public : forall enc m f a, pae (site_paseto_v4_sodium_public_0 enc m f a) = v4_ppre enc m f a.
Proof. reflexivity. Qed.

(* no further call site exists (a new one would be authenticated input the model does not know), per file *)
Definition expected_pae_site_files : list String.string :=
  [ "paseto-v1/src/core/local.rs"; "paseto-v1/src/core/public.rs";
    "paseto-v2/src/core/local.rs"; "paseto-v2/src/core/public.rs"; "paseto-v2/src/core/public.rs";
    "paseto-v3/src/core/local.rs"; "paseto-v3/src/core/public.rs";
    "paseto-v3-aws-lc/src/core/local.rs"; "paseto-v3-aws-lc/src/core/public.rs";
    "paseto-v4/src/core/local.rs"; "paseto-v4/src/core/public.rs"; "paseto-v4/src/core/public.rs";
    "paseto-v4-sodium/src/core/local.rs"; "paseto-v4-sodium/src/core/public.rs" ].
Lemma pae_sites_complete : map (fun r => fst (fst r)) gen_pae_sites = expected_pae_site_files.
Proof. reflexivity. Qed.

(* the only parameter that is not passed through as given: v3 (p384) hashes the COMPRESSED encoding of the key, which is
   what the model's `pk` stands for (aws-lc receives the 49 compressed bytes as the parameter itself) *)
Lemma pae_rebinds_known :
  map (fun r => (fst (fst (fst r)), snd (fst r), snd r)) gen_pae_rebinds = [ ("paseto-v3/src/core/public.rs", 0%N, "#.to_encoded_point(true)") ].
Proof. reflexivity. Qed.
