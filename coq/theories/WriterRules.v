(* WriterRules.v — the sinks `pre_auth_encode` writes into.  Gen/Writers.v is regenerated from every
   `impl WriteBytes for T` of the workspace on each run: file, self type and the shape of `fn write`.  The three shapes
   the source uses hand the slice on unchanged (to a hash / MAC / stream verifier: "update"; to the buffer: "extend"; to
   the writer behind a `&mut`: "deref"); their meaning here is "append to what the sink has received".  Any other body
   (buffering, splitting, skipping) has no meaning in this model and the theorem below fails for it. *)
From Coq Require Import List String Bool.
From PV Require Import Bytes Pae.
From PV.Gen Require Import Writers.
Import ListNotations.
Local Open Scope string_scope.
Local Open Scope list_scope.

Definition forwarding (shape : String.string) : bool :=
  String.eqb shape "update" || String.eqb shape "extend" || String.eqb shape "deref".

(* one call of `write`: what the sink behind the adapter has received afterwards *)
Definition write_step (shape : String.string) (received slice : bytes) : option bytes :=
  if forwarding shape then Some (received ++ slice) else None.

Fixpoint run_writer (shape : String.string) (received : bytes) (writes : list bytes) : option bytes :=
  match writes with
  | [] => Some received
  | w :: rest => match write_step shape received w with Some r => run_writer shape r rest | None => None end
  end.

Lemma run_writer_forwarding shape : forwarding shape = true ->
  forall writes received, run_writer shape received writes = Some (received ++ concat writes).
Proof.
  intros F writes. induction writes as [|w rest IH]; intros received; cbn [run_writer concat].
  - now rewrite app_nil_r.
  - unfold write_step. rewrite F. rewrite IH. now rewrite <- app_assoc.
Qed.

Lemma all_writers_forward : forallb (fun r => forwarding (snd r)) gen_writers = true.
Proof. vm_compute. reflexivity. Qed.

(* every writer of the source, fed the writes of pre_auth_encode, has received exactly the encoding *)
Theorem writers_receive_the_encoding : forall r, In r gen_writers ->
  forall pieces, run_writer (snd r) [] (pae_writes pieces) = Some (pae pieces).
Proof.
  intros r Hin pieces.
  pose proof (proj1 (forallb_forall _ _) all_writers_forward r Hin) as F. cbn beta in F.
  rewrite (run_writer_forwarding _ F). reflexivity.
Qed.

(* ... and a writer that is not of these shapes receives nothing this model can vouch for *)
Lemma other_shape_is_refused : forall shape received w rest, forwarding shape = false ->
  run_writer shape received (w :: rest) = None.
Proof. intros shape received w rest F. cbn [run_writer]. unfold write_step. now rewrite F. Qed.
