(* GuardRules.v — C04: the length guards of every `fn unseal` cover the panicking slice splits after them.

   Gen/Guards.v is regenerated from the Rust source on every run: per `fn unseal`, the guards and splits in
   source order with their constants.  Here: (1) the same table as the MODEL uses it, built from the constants
   of the mirror functions, with shape lemmas (closed by reflexivity) stating that the mirrors are written with
   exactly these constants; (2) [guards_tied]: the generated table IS the model's; (3) a symbolic checker that
   walks a row keeping a lower bound on the length of the slice at hand and demands that every panicking
   operation is within it, and [guards_sufficient]: it accepts every row of the GENERATED table.  A guard
   lowered in the source (say 80 -> 70) breaks (2) and (3); the same change in the model alone breaks (1) and
   the no-panic theorems of NoPanic.v. *)
From Coq Require Import List NArith String Bool Lia.
From PV Require Import Bytes Result Rs Oracle Local Public.
From PV.Gen Require Import Guards.
Import ListNotations.
Local Open Scope string_scope.
Local Open Scope list_scope.

(* constants of the four mirrors that use panicking splits *)
Definition lc_local_G := 80.  Definition lc_local_T := 48.  Definition lc_local_N := 32.
Definition lc_public_G := 96. Definition lc_public_S := 96.
Definition ed_public_G := 64. Definition ed_public_S := 64.

Lemma lc_local_unseal_shape O key enc p f a :
  lc_local_unseal O key enc p f a =
  if Nat.ltb (length p) lc_local_G then Err InvalidToken else
  rs_sub (length p) lc_local_T "paseto-v3-aws-lc/local.rs unseal: len - 48" (fun mid =>
  rs_split_at mid p "paseto-v3-aws-lc/local.rs unseal: split_at_mut(len - 48)" (fun rest tag =>
  rs_split_at lc_local_N rest "paseto-v3-aws-lc/local.rs unseal: split_at_mut(32)" (fun nonce c =>
  let '(ek, n2, ak) := lc_keys O key nonce in
  if beq (hmac384 O ak (v3_pre enc nonce c f a)) tag
  then Ok (xorl c (aes_ctr O ctr_w_awslc ek n2 (length c)))
  else Err CryptoError))).
Proof. reflexivity. Qed.

Lemma v4_public_unseal_shape O pk enc p f a :
  v4_public_unseal O pk enc p f a =
  if Nat.ltb (length p) ed_public_G then Err InvalidToken else
  rs_sub (length p) ed_public_S "paseto-v4/public.rs unseal: len - 64" (fun mid =>
  rs_split_at mid p "paseto-v4/public.rs unseal: split_at(len - 64)" (fun m tag =>
  rs_exact ed_public_S tag "paseto-v4/public.rs unseal: tag.try_into().unwrap()" (fun sig =>
  if ed_verify O pk (v4_ppre enc m f a) sig then Ok m else Err CryptoError))).
Proof. reflexivity. Qed.

Lemma v2_public_unseal_shape O pk enc p f a :
  v2_public_unseal O pk enc p f a =
  if negb (isnil a) then Err ClaimsError else
  if Nat.ltb (length p) ed_public_G then Err InvalidToken else
  rs_sub (length p) ed_public_S "paseto-v2/public.rs unseal: len - 64" (fun mid =>
  rs_split_at mid p "paseto-v2/public.rs unseal: split_at(len - 64)" (fun m tag =>
  rs_exact ed_public_S tag "paseto-v2/public.rs unseal: tag.try_into().unwrap()" (fun sig =>
  if ed_verify O pk (v2_ppre enc m f) sig then Ok m else Err CryptoError))).
Proof. reflexivity. Qed.

Lemma lc_public_unseal_shape O pk enc p f a :
  lc_public_unseal O pk enc p f a =
  if Nat.ltb (length p) lc_public_G then Err InvalidToken else
  rs_sub (length p) lc_public_S "paseto-v3-aws-lc/public.rs unseal: len - 96" (fun mid =>
  rs_split_at mid p "paseto-v3-aws-lc/public.rs unseal: split_at(len - 96)" (fun m sig =>
  let r := be_val (take 48 sig) in
  let s := be_val (drop 48 sig) in
  if scalar_ok r && scalar_ok s && ecdsa_verify O pk (v3_ppre pk enc m f a) r s then Ok m else Err CryptoError)).
Proof. reflexivity. Qed.

Definition n (x : nat) : N := N.of_nat x.

(* the table as the model has it (the rows of the eight `Option`-splitting unseals list what Local.v /
   Public.v write as split_last / split_first) *)
Definition model_guards : list (string * list (string * N)) :=
  [ ("paseto-v1/src/core/local.rs", [("guard", 80%N); ("chunk_last", 48%N); ("chunk_first", 32%N)]);
    ("paseto-v1/src/core/public.rs", [("chunk_last", 256%N)]);
    ("paseto-v2/src/core/local.rs", [("chunk_last", 16%N); ("chunk_first", 24%N)]);
    ("paseto-v2/src/core/public.rs", [("guard", n ed_public_G); ("split_sub", n ed_public_S); ("to_array", 0%N)]);
    ("paseto-v3/src/core/local.rs", [("guard", 80%N); ("chunk_last", 48%N); ("chunk_first", 32%N)]);
    ("paseto-v3/src/core/public.rs", [("chunk_last", 96%N)]);
    ("paseto-v3-aws-lc/src/core/local.rs", [("guard", n lc_local_G); ("split_sub", n lc_local_T); ("split", n lc_local_N)]);
    ("paseto-v3-aws-lc/src/core/public.rs", [("guard", n lc_public_G); ("split_sub", n lc_public_S)]);
    ("paseto-v4/src/core/local.rs", [("chunk_last", 32%N); ("chunk_first", 32%N)]);
    ("paseto-v4/src/core/public.rs", [("guard", n ed_public_G); ("split_sub", n ed_public_S); ("to_array", 0%N)]);
    ("paseto-v4-sodium/src/core/local.rs", [("guard", 64%N); ("chunk_last", 32%N); ("chunk_first", 32%N)]);
    ("paseto-v4-sodium/src/core/public.rs", [("chunk_last", 64%N)]) ].

Theorem guards_tied : gen_guards = model_guards.
Proof. vm_compute. reflexivity. Qed.

(* symbolic walk: [lo] = a lower bound on the length of the slice the next operation applies to; [exact] =
   Some k when the most recently split-off tail has exactly k bytes (what a following try_into().unwrap()
   converts) *)
Fixpoint ops_safe (lo : N) (tail : option N) (ops : list (string * N)) : bool :=
  match ops with
  | [] => true
  | (op, k) :: rest =>
      if String.eqb op "guard" then ops_safe (N.max lo k) tail rest
      else if String.eqb op "split_sub" then (k <=? lo)%N && ops_safe (lo - k) (Some k) rest
      else if String.eqb op "split" then (k <=? lo)%N && ops_safe (lo - k) None rest
      else if String.eqb op "chunk_last" then ops_safe (N.max lo k - k) (Some k) rest
      else if String.eqb op "chunk_first" then ops_safe (N.max lo k - k) None rest
      else if String.eqb op "to_array" then (match tail with Some _ => true | None => false end) && ops_safe lo tail rest
      else false
  end.

Theorem guards_sufficient : forallb (fun r => ops_safe 0 None (snd r)) gen_guards = true.
Proof. vm_compute. reflexivity. Qed.

(* the checker is live: the aws-lc local row with the guard lowered to 70 is refused, and so is a split with
   no guard at all *)
Example guards_checker_rejects_lower_guard :
  ops_safe 0 None [("guard", 70%N); ("split_sub", 48%N); ("split", 32%N)] = false.
Proof. reflexivity. Qed.
Example guards_checker_rejects_unguarded_split : ops_safe 0 None [("split_sub", 64%N)] = false.
Proof. reflexivity. Qed.
Example guards_table_nonempty : length gen_guards = 12.
Proof. reflexivity. Qed.
