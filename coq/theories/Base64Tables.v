(* Base64Tables.v — finite facts about the bit-twiddling in base64.rs, each proved by an exhaustive
   vm_compute sweep over its (stated) finite domain and lifted with forallb_forall. *)
From PV Require Import Bytes Result Base64.
Local Open Scope Z_scope.

Definition zrange (n : nat) : list Z := map Z.of_nat (seq 0 n).

Lemma zrange_complete n z : 0 <= z < Z.of_nat n -> In z (zrange n).
Proof.
  intros H. unfold zrange. replace z with (Z.of_nat (Z.to_nat z)) by lia.
  apply in_map, in_seq. lia.
Qed.

Lemma forall_zrange n (P : Z -> bool) :
  forallb P (zrange n) = true -> forall z, 0 <= z < Z.of_nat n -> P z = true.
Proof. intros H z Hz. rewrite forallb_forall in H. apply H, zrange_complete, Hz. Qed.

Lemma forall_zrange2 n m (P : Z -> Z -> bool) :
  forallb (fun x => forallb (P x) (zrange m)) (zrange n) = true ->
  forall x y, 0 <= x < Z.of_nat n -> 0 <= y < Z.of_nat m -> P x y = true.
Proof.
  intros H x y Hx Hy.
  pose proof (forall_zrange n _ H x Hx) as H1. cbv beta in H1.
  exact (forall_zrange m _ H1 y Hy).
Qed.

Lemma forall_bytes2 (P : byte -> byte -> bool) :
  forallb (fun x => forallb (P x) all_bytes) all_bytes = true -> forall a b, P a b = true.
Proof.
  intros H a b. pose proof (forall_bytes _ H a) as H1. cbv beta in H1.
  exact (forall_bytes _ H1 b).
Qed.

Lemma zb_range b : 0 <= zb b < 256.
Proof. unfold zb. pose proof (b2n_lt b). lia. Qed.

Lemma u8_zb b : u8 (zb b) = b.
Proof.
  unfold u8, zb. pose proof (b2n_lt b).
  rewrite Z.mod_small by lia. rewrite N2Z.id. apply n2b_b2n.
Qed.

Lemma u8_mod z : u8 (z mod 256) = u8 z.
Proof. unfold u8. now rewrite Z.mod_mod by lia. Qed.

Lemma u8_eq_mod x y : x mod 256 = y mod 256 -> u8 x = u8 y.
Proof. unfold u8. now intros ->. Qed.

(* ---------- the 6-bit alphabet ---------- *)

Lemma d6_range : forall b, -1 <= decode_6bits b < 64.
Proof.
  intro b.
  assert (H : ((-1 <=? decode_6bits b) && (decode_6bits b <? 64))%bool = true)
    by (revert b; apply forall_bytes; vm_compute; reflexivity).
  lia.
Qed.

Lemma e6_d6 : forall b, 0 <= decode_6bits b -> encode_6bits (decode_6bits b) = b.
Proof.
  intros b Hb.
  assert (H : ((decode_6bits b <? 0) || Byte.eqb (encode_6bits (decode_6bits b)) b)%bool = true)
    by (revert b Hb; intros b _; revert b; apply forall_bytes; vm_compute; reflexivity).
  apply orb_true_iff in H. destruct H as [H|H]; [lia | now apply Byte.byte_dec_bl].
Qed.

Lemma d6_e6 : forall s, 0 <= s < 64 -> decode_6bits (encode_6bits s) = s.
Proof.
  intros s Hs.
  assert (H : (decode_6bits (encode_6bits s) =? s) = true)
    by (revert s Hs; apply (forall_zrange 64); vm_compute; reflexivity).
  lia.
Qed.

(* the alphabet is exactly RFC 4648 §5 (base64url): A-Z a-z 0-9 - _ *)
Definition rfc4648_url (b : byte) : Z :=
  let s := zb b in
  if (65 <=? s) && (s <=? 90) then s - 65
  else if (97 <=? s) && (s <=? 122) then s - 97 + 26
  else if (48 <=? s) && (s <=? 57) then s - 48 + 52
  else if s =? 45 then 62 else if s =? 95 then 63 else -1.

Lemma d6_is_rfc4648 : forall b, decode_6bits b = rfc4648_url b.
Proof.
  intro b. assert (H : (decode_6bits b =? rfc4648_url b) = true)
    by (revert b; apply forall_bytes; vm_compute; reflexivity).
  lia.
Qed.

(* every output character is ASCII (the from_utf8_unchecked obligation) *)
Lemma e6_ascii : forall s, 0 <= s < 64 -> zb (encode_6bits s) < 128.
Proof.
  intros s Hs. assert (H : (zb (encode_6bits s) <? 128) = true)
    by (revert s Hs; apply (forall_zrange 64); vm_compute; reflexivity).
  lia.
Qed.

(* ---------- sextets of three bytes, as arithmetic ---------- *)

Definition S0 (a : byte) : Z := Z.shiftr (zb a) 2.
Definition S1 (a b : byte) : Z := Z.land (Z.lor (i16 (Z.shiftl (zb a) 4)) (Z.shiftr (zb b) 4)) 63.
Definition S2 (b c : byte) : Z := Z.land (Z.lor (i16 (Z.shiftl (zb b) 2)) (Z.shiftr (zb c) 6)) 63.
Definition S3 (c : byte) : Z := Z.land (zb c) 63.

Lemma S0_arith a : S0 a = zb a / 4.
Proof.
  assert (H : (S0 a =? zb a / 4) = true) by (revert a; apply forall_bytes; vm_compute; reflexivity).
  lia.
Qed.

Lemma S1_arith a b : S1 a b = (zb a mod 4) * 16 + zb b / 16.
Proof.
  assert (H : (S1 a b =? (zb a mod 4) * 16 + zb b / 16) = true)
    by (revert a b; apply forall_bytes2; vm_compute; reflexivity).
  lia.
Qed.

Lemma S2_arith b c : S2 b c = (zb b mod 16) * 4 + zb c / 64.
Proof.
  assert (H : (S2 b c =? (zb b mod 16) * 4 + zb c / 64) = true)
    by (revert b c; apply forall_bytes2; vm_compute; reflexivity).
  lia.
Qed.

Lemma S3_arith c : S3 c = zb c mod 64.
Proof.
  assert (H : (S3 c =? zb c mod 64) = true) by (revert c; apply forall_bytes; vm_compute; reflexivity).
  lia.
Qed.

(* ---------- bytes of four sextets, as arithmetic ---------- *)

Definition O0 (c0 c1 : Z) : Z := Z.lor (i16 (Z.shiftl c0 2)) (Z.shiftr c1 4).
Definition O1 (c1 c2 : Z) : Z := Z.lor (i16 (Z.shiftl c1 4)) (Z.shiftr c2 2).
Definition O2 (c2 c3 : Z) : Z := Z.lor (i16 (Z.shiftl c2 6)) c3.

Lemma O0_arith c0 c1 : 0 <= c0 < 64 -> 0 <= c1 < 64 -> O0 c0 c1 mod 256 = c0 * 4 + c1 / 16.
Proof.
  intros H0 H1.
  assert (H : (O0 c0 c1 mod 256 =? c0 * 4 + c1 / 16) = true)
    by (revert c0 c1 H0 H1; apply (forall_zrange2 64 64); vm_compute; reflexivity).
  lia.
Qed.

Lemma O1_arith c1 c2 : 0 <= c1 < 64 -> 0 <= c2 < 64 -> O1 c1 c2 mod 256 = (c1 mod 16) * 16 + c2 / 4.
Proof.
  intros H1 H2.
  assert (H : (O1 c1 c2 mod 256 =? (c1 mod 16) * 16 + c2 / 4) = true)
    by (revert c1 c2 H1 H2; apply (forall_zrange2 64 64); vm_compute; reflexivity).
  lia.
Qed.

Lemma O2_arith c2 c3 : 0 <= c2 < 64 -> 0 <= c3 < 64 -> O2 c2 c3 mod 256 = (c2 mod 4) * 64 + c3.
Proof.
  intros H2 H3.
  assert (H : (O2 c2 c3 mod 256 =? (c2 mod 4) * 64 + c3) = true)
    by (revert c2 c3 H2 H3; apply (forall_zrange2 64 64); vm_compute; reflexivity).
  lia.
Qed.

(* ---------- the error bit ---------- *)

Definition errbit (c0 c1 c2 c3 : Z) : Z :=
  Z.land (Z.shiftr (Z.lor (Z.lor (Z.lor c0 c1) c2) c3) 8) 1.

Definition c6 (c : Z) : Prop := -1 <= c < 64.

Lemma lor6 x y : c6 x -> c6 y -> c6 (Z.lor x y) /\ (Z.lor x y = -1 <-> x = -1 \/ y = -1).
Proof.
  unfold c6. intros Hx Hy.
  destruct (Z.eq_dec x (-1)) as [->|Nx]; [rewrite Z.lor_m1_l; lia|].
  destruct (Z.eq_dec y (-1)) as [->|Ny]; [rewrite Z.lor_m1_r; lia|].
  assert (H : ((0 <=? Z.lor x y) && (Z.lor x y <? 64))%bool = true).
  { assert (Hx' : 0 <= x < Z.of_nat 64) by lia. assert (Hy' : 0 <= y < Z.of_nat 64) by lia.
    revert x y Hx' Hy' Hx Hy Nx Ny. intros x y Hx' Hy' _ _ _ _. revert x y Hx' Hy'.
    apply (forall_zrange2 64 64). vm_compute. reflexivity. }
  lia.
Qed.

Lemma errbit_spec c0 c1 c2 c3 :
  c6 c0 -> c6 c1 -> c6 c2 -> c6 c3 ->
  (errbit c0 c1 c2 c3 = 0 /\ 0 <= c0 /\ 0 <= c1 /\ 0 <= c2 /\ 0 <= c3) \/
  (errbit c0 c1 c2 c3 = 1 /\ (c0 = -1 \/ c1 = -1 \/ c2 = -1 \/ c3 = -1)).
Proof.
  intros H0 H1 H2 H3. unfold errbit.
  destruct (lor6 c0 c1 H0 H1) as [Ha Ea].
  destruct (lor6 (Z.lor c0 c1) c2 Ha H2) as [Hb Eb].
  destruct (lor6 (Z.lor (Z.lor c0 c1) c2) c3 Hb H3) as [Hc Ec].
  set (v := Z.lor (Z.lor (Z.lor c0 c1) c2) c3) in *.
  destruct (Z.eq_dec v (-1)) as [E|N].
  - right. split; [rewrite E; reflexivity|]. tauto.
  - left. unfold c6 in *. clearbody v.
    assert (Hv : 0 <= v < Z.of_nat 64) by lia.
    assert (Hz : (Z.land (Z.shiftr v 8) 1 =? 0) = true)
      by (revert v Hv Hc Ec N; intros v Hv _ _ _; revert v Hv; apply (forall_zrange 64); vm_compute; reflexivity).
    split; [lia|]. repeat split; lia.
Qed.
