(* RngProofs.v — C16: fail-closed for every draw index; outputs embed exactly the drawn blocks; operations of
   a history consume disjoint, increasing draw indices, so a source that never repeats a block gives pairwise
   different nonces / salts / ephemeral keys / generated keys. *)
From Coq Require Import List NArith String Bool Lia Arith.
From PV Require Import Bytes Result Oracle Local LocalProofs Paserk PaserkProofs Keys Rng.
Import ListNotations.
Set Default Timeout 120.
Local Open Scope list_scope.

Lemma draw_all_spec R i sizes bs :
  draw_all R i sizes = Some bs <->
  length bs = length sizes /\ forall k, k < length sizes -> R (i + k) (nth k sizes 0) = Some (nth k bs []).
Proof.
  revert i bs. induction sizes as [|n rest IH]; intros i bs; cbn [draw_all].
  - split.
    + intros E; inversion E; subst. split; [reflexivity|]. cbn. intros k Hk. lia.
    + intros [Hl _]. destruct bs; [reflexivity|discriminate].
  - split.
    + destruct (R i n) as [b|] eqn:E0; [|discriminate].
      destruct (draw_all R (S i) rest) as [bs'|] eqn:E1; [|discriminate].
      intros E; inversion E; subst bs. apply IH in E1 as [Hl Hk]. split; [cbn; lia|].
      intros k Hlt. destruct k as [|k]; cbn [nth].
      * rewrite Nat.add_0_r. exact E0.
      * replace (i + S k) with (S i + k) by lia. apply Hk. cbn in Hlt. lia.
    + intros [Hl Hk]. destruct bs as [|b bs']; [discriminate|].
      pose proof (Hk 0 ltac:(cbn; lia)) as H0. rewrite Nat.add_0_r in H0. cbn [nth] in H0. rewrite H0.
      assert (E1 : draw_all R (S i) rest = Some bs').
      { apply IH. split; [cbn in Hl; lia|]. intros k Hlt.
        specialize (Hk (S k) ltac:(cbn; lia)). replace (i + S k) with (S i + k) in Hk by lia. exact Hk. }
      rewrite E1. reflexivity.
Qed.

(* FAIL CLOSED: if the source fails at ANY draw index of the operation, the operation returns the error and
   its body (which would build the token / blob / key) is never run on any bytes *)
Theorem fail_closed {A} R i sizes (body : list bytes -> result A) k :
  k < length sizes -> R (i + k) (nth k sizes 0) = None -> fst (run_op R i sizes body) = Err CryptoError.
Proof.
  intros Hk Hf. unfold run_op. destruct (draw_all R i sizes) as [bs|] eqn:E; [|reflexivity].
  apply draw_all_spec in E as [_ H]. rewrite (H k Hk) in Hf. discriminate.
Qed.

(* success: the body receives exactly the blocks served at the operation's own indices, and the next
   operation starts right after them *)
Theorem run_op_ok {A} R i sizes (body : list bytes -> result A) bs :
  draw_all R i sizes = Some bs ->
  run_op R i sizes body = (body bs, i + length sizes) /\
  forall k, k < length sizes -> R (i + k) (nth k sizes 0) = Some (nth k bs []).
Proof.
  intros E. unfold run_op. rewrite E. split; [reflexivity|]. apply draw_all_spec in E as [_ H]. exact H.
Qed.

Lemma calls_made_bounds R i sizes : calls_made R i sizes <= length sizes.
Proof.
  revert i. induction sizes as [|n rest IH]; intros i; cbn [calls_made length]; [lia|].
  destruct (R i n); [specialize (IH (S i)); lia|lia].
Qed.

(* an operation never consumes indices outside [i, i + length sizes), failed or not, and always advances
   monotonically: a failed operation does not disturb the indices of the operations after it *)
Theorem run_op_next {A} R i sizes (body : list bytes -> result A) :
  i <= snd (run_op R i sizes body) <= i + length sizes.
Proof.
  unfold run_op. pose proof (calls_made_bounds R i sizes) as Hc.
  destruct (draw_all R i sizes); unfold snd; lia.
Qed.

(* ---- disjointness over histories ---- *)
(* index range used by the successful draws of operation number p in a history started at i *)
Fixpoint start_of {A} (R : rng) (i : nat) (ops : list (list nat * (list bytes -> result A))) (p : nat) : nat :=
  match p, ops with
  | 0, _ => i
  | S p', (sizes, body) :: rest => start_of R (snd (run_op R i sizes body)) rest p'
  | S _, [] => i
  end.

Lemma start_of_mono {A} R i (ops : list (list nat * (list bytes -> result A))) p : i <= start_of R i ops p.
Proof.
  revert i ops. induction p as [|p IH]; intros i ops.
  - destruct ops as [|[sizes body] rest]; cbn; lia.
  - destruct ops as [|[sizes body] rest]; cbn [start_of]; [lia|].
    pose proof (run_op_next R i sizes body). specialize (IH (snd (run_op R i sizes body)) rest). lia.
Qed.

(* operation q > p starts at or after the end of the indices operation p may have used *)
Lemma later_op_starts_after {A} R i (ops : list (list nat * (list bytes -> result A))) p q sizes body :
  p < q -> nth_error ops p = Some (sizes, body) ->
  snd (run_op R (start_of R i ops p) sizes body) <= start_of R i ops q.
Proof.
  revert i ops q. induction p as [|p IH]; intros i ops q Hlt Hn.
  - destruct ops as [|[s0 b0] rest]; [discriminate|]. cbn in Hn. inversion Hn; subst s0 b0.
    destruct q as [|q]; [lia|]. cbn [start_of]. apply start_of_mono.
  - destruct ops as [|[s0 b0] rest]; [discriminate|]. cbn [nth_error] in Hn.
    destruct q as [|q]; [lia|]. cbn [start_of]. apply IH; [lia|exact Hn].
Qed.

(* FRESHNESS: in any history, the blocks served to two different operations whose draws all succeeded come
   from disjoint index ranges; hence under a source that never repeats a block they are pairwise different *)
Theorem distinct_ops_distinct_blocks {A} R hi i (ops : list (list nat * (list bytes -> result A))) p q sp bp sq bq dp dq a c :
  fresh_below R hi -> start_of R i ops q + c < hi -> p < q ->
  nth_error ops p = Some (sp, bp) -> nth_error ops q = Some (sq, bq) ->
  draw_all R (start_of R i ops p) sp = Some dp -> draw_all R (start_of R i ops q) sq = Some dq ->
  a < length sp -> c < length sq -> nth a dp [] <> [] ->
  nth a dp [] <> nth c dq [].
Proof.
  intros HF Hhi Hlt Hp Hq Dp Dq Ha Hc Hne.
  pose proof (later_op_starts_after R i ops p q sp bp Hlt Hp) as Hstart.
  destruct (run_op_ok R (start_of R i ops p) sp bp dp Dp) as [Erun Hdp].
  rewrite Erun in Hstart. cbn [snd] in Hstart.
  apply draw_all_spec in Dq as [_ Hdq].
  apply (HF (start_of R i ops p + a) (start_of R i ops q + c) (nth a sp 0) (nth c sq 0)).
  - lia.
  - exact Hhi.
  - lia.
  - apply Hdp. exact Ha.
  - apply Hdq. exact Hc.
  - exact Hne.
Qed.

(* ---- the outputs embed exactly the drawn blocks ---- *)
Section Embeds.
  Variable O : oracle.

  (* local tokens: the nonce field of the payload is the drawn block (v3, v4 families) or the synthetic nonce
     keyed by it (v1) *)
  Theorem local_nonce_is_draw (P : lparams) key enc n0 m f a p :
    length n0 = 32 -> lp_synth P = (fun n _ => n) ->
    lg_seal P key enc (n0 ++ m) f a = Ok p -> take 32 p = n0.
  Proof.
    intros Hn Hs. unfold lg_seal. destruct (negb (lp_aad P) && negb (isnil a)); [discriminate|].
    replace (split_first 32 (n0 ++ m)) with (Some (n0, m)) by (rewrite <- Hn; symmetry; apply split_first_app).
    rewrite Hs. intros E; inversion E. apply take_app_exact. symmetry. exact Hn.
  Qed.

  Theorem pie_nonce_is_draw (P : pie_params) header wk key nonce blob :
    length nonce = 32 -> (forall wk n msg, length (pie_mac P wk n msg) = pie_tlen P) ->
    pie_wrap P header wk key nonce = Ok blob -> take 32 (drop (pie_tlen P) blob) = nonce.
  Proof.
    intros Hn Hm. unfold pie_wrap. intros E; inversion E.
    rewrite drop_app_exact by (unfold pie_auth; rewrite Hm; reflexivity).
    apply take_app_exact. symmetry. exact Hn.
  Qed.

  Theorem pbkw_salt_nonce_are_draws (P : pw_params) header pass params key salt nonce blob :
    length salt = pw_salt_len P -> length params = pw_par_len P -> length nonce = pw_nonce_len P ->
    pw_wrap P header pass params key salt nonce = Ok blob ->
    take (pw_salt_len P) blob = salt /\
    take (pw_nonce_len P) (drop (pw_salt_len P + pw_par_len P) blob) = nonce.
  Proof.
    intros Ls Lp Ln. unfold pw_wrap. destruct (pw_prekey P pass salt params); cbn [bind]; try discriminate.
    intros E; inversion E. split.
    - rewrite <- !app_assoc. apply take_app_exact. symmetry. exact Ls.
    - rewrite <- !app_assoc. rewrite (app_assoc salt params). rewrite drop_app_exact by (rewrite app_length; lia).
      apply take_app_exact. symmetry. exact Ln.
  Qed.
End Embeds.

(* The index statement behind freshness, with no premise about the source: draw a of operation p and draw c
   of a later operation q sit at strictly increasing global indices of the source. *)
Theorem distinct_ops_distinct_indices {A} R i (ops : list (list nat * (list bytes -> result A))) p q sp bp sq bq dp a c :
  p < q -> nth_error ops p = Some (sp, bp) -> nth_error ops q = Some (sq, bq) ->
  draw_all R (start_of R i ops p) sp = Some dp -> a < length sp ->
  start_of R i ops p + a < start_of R i ops q + c.
Proof.
  intros Hlt Hp Hq Dp Ha.
  pose proof (later_op_starts_after R i ops p q sp bp Hlt Hp) as Hstart.
  destruct (run_op_ok R (start_of R i ops p) sp bp dp Dp) as [Erun _].
  rewrite Erun in Hstart. cbn [snd] in Hstart. lia.
Qed.

(* [fresh] is satisfiable: a counter source (block i = i+1 bytes 01) never repeats a block.  (A source of
   fixed-width blocks cannot be fresh on ALL of nat; [fresh] is the idealisation "no repeat ever", and
   [distinct_ops_distinct_indices] is the part that needs no idealisation.) *)
(* a total source that honours the requested length and is fresh for its first 256 calls: call i serves the
   little-endian encoding of i in the requested width *)
Definition le_counter_rng : rng := fun i n => Some (le_bytes n (N.of_nat i)).
Lemma le_counter_rng_len i n x : le_counter_rng i n = Some x -> length x = n.
Proof. unfold le_counter_rng. intros E; inversion E. apply le_bytes_length. Qed.
Lemma le_counter_rng_fresh_below : fresh_below le_counter_rng 256.
Proof.
  unfold fresh_below, le_counter_rng. intros i j n m x y Hi Hj Hij Hx Hy Hne E.
  assert (Ex : x = le_bytes n (N.of_nat i)) by congruence. assert (Ey : y = le_bytes m (N.of_nat j)) by congruence.
  rewrite Ex, Ey in E.
  assert (n = m) by (apply (f_equal (@List.length _)) in E; rewrite !le_bytes_length in E; exact E). subst m.
  assert (Hn : n <> 0). { intros ->. apply Hne. rewrite Ex. reflexivity. }
  apply (f_equal le_val) in E. rewrite !le_val_le_bytes in E.
  assert (Hp : (256 <= 256 ^ N.of_nat n)%N).
  { change 256%N with (256 ^ 1)%N at 1. apply N.pow_le_mono_r; lia. }
  rewrite !N.mod_small in E by lia. lia.
Qed.

Definition counter_rng : rng := fun i _ => Some (repeat x01 (S i)).
Lemma counter_rng_fresh : fresh counter_rng.
Proof.
  unfold fresh. intros i j n m x y Hij Hx Hy _ E. unfold counter_rng in *.
  assert (Ex : x = repeat x01 (S i)) by congruence. assert (Ey : y = repeat x01 (S j)) by congruence.
  rewrite Ex, Ey in E. apply (f_equal (@List.length _)) in E. rewrite !repeat_length in E. lia.
Qed.

(* ---- the modelled operations inside the draw monad: draws first (sizes as in [op_draws]), then the scheme's
        seal / wrap on the drawn blocks.  Fail-closed and "the random field IS the draw" for the composed
        operation, and the headline statement: two seals of the same message under the same key carry
        different nonces. ---- *)
Section Ops.
  Definition local_seal_op (P : lparams) (R : rng) (i : nat) (key enc m f a : bytes) : result bytes * nat :=
    run_op R i [32] (fun bs => match bs with [n0] => lg_seal P key enc (n0 ++ m) f a | _ => Panic "rng: block count" end).
  Definition pie_wrap_op (P : pie_params) (R : rng) (i : nat) (header wk key : bytes) : result bytes * nat :=
    run_op R i [32] (fun bs => match bs with [n] => pie_wrap P header wk key n | _ => Panic "rng: block count" end).
  Definition pw_wrap_op (P : pw_params) (R : rng) (i : nat) (header pass params key : bytes) : result bytes * nat :=
    run_op R i [pw_salt_len P; pw_nonce_len P]
      (fun bs => match bs with [s; n] => pw_wrap P header pass params key s n | _ => Panic "rng: block count" end).

  Theorem local_seal_op_fail_closed P R i key enc m f a :
    R i 32 = None -> local_seal_op P R i key enc m f a = (Err CryptoError, S i).
  Proof. intros H. unfold local_seal_op, run_op. cbn [draw_all calls_made]. rewrite H. f_equal. lia. Qed.

  Theorem local_seal_op_embeds P R i key enc m f a n0 p j :
    R i 32 = Some n0 -> length n0 = 32 -> lp_synth P = (fun n _ => n) ->
    local_seal_op P R i key enc m f a = (Ok p, j) -> take 32 p = n0 /\ j = S i.
  Proof.
    intros H Hl Hs. unfold local_seal_op, run_op. cbn [draw_all]. rewrite H. cbn [length].
    intros E. injection E as E1 E2. split; [|lia].
    eapply local_nonce_is_draw; eassumption.
  Qed.

  (* two seals, one after the other on one thread, of ANY messages (the same one included) under ANY keys: the
     nonce fields differ, for every source that honours the length at the two calls and does not repeat itself
     among its first [hi] calls *)
  Theorem consecutive_local_seals_have_different_nonces P R hi i key enc m f a key' enc' m' f' a' p1 p2 j k :
    fresh_below R hi -> S i < hi -> lp_synth P = (fun n _ => n) ->
    (forall x, R i 32 = Some x -> length x = 32) -> (forall x, R (S i) 32 = Some x -> length x = 32) ->
    local_seal_op P R i key enc m f a = (Ok p1, j) ->
    local_seal_op P R j key' enc' m' f' a' = (Ok p2, k) ->
    take 32 p1 <> take 32 p2.
  Proof.
    intros HF Hhi Hs L1 L2 E1 E2.
    destruct (R i 32) as [n1|] eqn:D1.
    2:{ rewrite (local_seal_op_fail_closed P R i key enc m f a D1) in E1. discriminate. }
    destruct (local_seal_op_embeds P R i key enc m f a n1 p1 j D1 (L1 _ eq_refl) Hs E1) as [T1 ->].
    destruct (R (S i) 32) as [n2|] eqn:D2.
    2:{ rewrite (local_seal_op_fail_closed P R (S i) key' enc' m' f' a' D2) in E2. discriminate. }
    destruct (local_seal_op_embeds P R (S i) key' enc' m' f' a' n2 p2 k D2 (L2 _ eq_refl) Hs E2) as [T2 _].
    rewrite T1, T2. apply (HF i (S i) 32 32 n1 n2); try lia; try assumption.
    intros ->. specialize (L1 _ eq_refl). discriminate.
  Qed.

  Theorem pie_wrap_op_fail_closed P R i header wk key :
    R i 32 = None -> pie_wrap_op P R i header wk key = (Err CryptoError, S i).
  Proof. intros H. unfold pie_wrap_op, run_op. cbn [draw_all calls_made]. rewrite H. f_equal. lia. Qed.

  Theorem pie_wrap_op_embeds P R i header wk key n blob j :
    R i 32 = Some n -> length n = 32 -> (forall wk n msg, length (pie_mac P wk n msg) = pie_tlen P) ->
    pie_wrap_op P R i header wk key = (Ok blob, j) -> take 32 (drop (pie_tlen P) blob) = n /\ j = S i.
  Proof.
    intros H Hl Hm. unfold pie_wrap_op, run_op. cbn [draw_all]. rewrite H. cbn [length].
    intros E. assert (E1 : pie_wrap P header wk key n = Ok blob) by congruence. assert (E2 : i + 1 = j) by congruence.
    split; [|lia]. exact (pie_nonce_is_draw P header wk key n blob Hl Hm E1).
  Qed.

  (* PBKW: a failure of EITHER draw (salt or nonce) gives the error; no blob from a default salt or nonce *)
  Theorem pw_wrap_op_fail_closed P R i header pass params key :
    R i (pw_salt_len P) = None \/ (exists s, R i (pw_salt_len P) = Some s /\ R (S i) (pw_nonce_len P) = None) ->
    fst (pw_wrap_op P R i header pass params key) = Err CryptoError.
  Proof.
    intros [H|(s & H1 & H2)]; unfold pw_wrap_op, run_op; cbn [draw_all].
    - rewrite H. reflexivity.
    - rewrite H1, H2. reflexivity.
  Qed.

  Theorem pw_wrap_op_embeds P R i header pass params key s n blob j :
    R i (pw_salt_len P) = Some s -> R (S i) (pw_nonce_len P) = Some n ->
    length s = pw_salt_len P -> length n = pw_nonce_len P -> length params = pw_par_len P ->
    pw_wrap_op P R i header pass params key = (Ok blob, j) ->
    take (pw_salt_len P) blob = s /\ take (pw_nonce_len P) (drop (pw_salt_len P + pw_par_len P) blob) = n /\ j = S (S i).
  Proof.
    intros H1 H2 Ls Ln Lp. unfold pw_wrap_op, run_op. cbn [draw_all]. rewrite H1, H2. cbn [length].
    intros E. injection E as E1 E2.
    destruct (pbkw_salt_nonce_are_draws P header pass params key s n blob Ls Lp Ln E1) as [A B].
    repeat split; [exact A|exact B|lia].
  Qed.
End Ops.

(* ---- key generation by rejection (paseto-v3 SecretKey::random: draw 48 bytes until they are a valid scalar).
        Modelled with explicit fuel; running out of fuel is reported as such and excluded by the statements. ---- *)
Section Generation.
  Variable O : oracle.

  Inductive gen_out := GenKey (k : bytes) | GenRngFailed | GenOutOfFuel.

  Fixpoint v3_random (R : rng) (i : nat) (fuel : nat) : gen_out * nat :=
    match fuel with
    | 0 => (GenOutOfFuel, i)
    | S f =>
        match R i 48 with
        | None => (GenRngFailed, S i)
        | Some b => match p384_pk O b with Some _ => (GenKey b, S i) | None => v3_random R (S i) f end
        end
    end.

  (* whatever key comes out was served by the source at the last call made, is a valid scalar, and — when the
     source honours the requested length — is accepted by the key decoder of both v3 backends *)
  Theorem v3_random_key_is_a_draw R i fuel k j :
    v3_random R i fuel = (GenKey k, j) -> i < j /\ R (j - 1) 48 = Some k /\ p384_pk O k <> None.
  Proof.
    revert i. induction fuel as [|f IH]; intros i; cbn [v3_random]; [discriminate|].
    destruct (R i 48) as [b|] eqn:E; [|discriminate].
    destruct (p384_pk O b) eqn:Ep.
    - intros H; inversion H; subst. replace (S i - 1) with i by lia. repeat split; [lia|exact E|congruence].
    - intros H. destruct (IH (S i) H) as (A & B & C). repeat split; [lia|exact B|exact C].
  Qed.

  Theorem v3_random_key_is_accepted R i fuel k j :
    (forall n x, R n 48 = Some x -> length x = 48) ->
    v3_random R i fuel = (GenKey k, j) ->
    v3_decode_secret O k = Ok k /\ lc_decode_secret O k = Ok k.
  Proof.
    intros HL H. destruct (v3_random_key_is_a_draw R i fuel k j H) as (_ & Hd & Hv).
    pose proof (HL _ _ Hd) as Lk.
    unfold v3_decode_secret, lc_decode_secret. rewrite Lk. cbn [Nat.eqb negb].
    destruct (p384_pk O k); [split; reflexivity|congruence].
  Qed.

  (* fail closed: a failure of the source at any call of the loop ends it with the failure, and no key *)
  Theorem v3_random_fail_closed R i fuel j :
    v3_random R i fuel = (GenRngFailed, j) -> i < j /\ R (j - 1) 48 = None.
  Proof.
    revert i. induction fuel as [|f IH]; intros i; cbn [v3_random]; [discriminate|].
    destruct (R i 48) as [b|] eqn:E.
    - destruct (p384_pk O b); [discriminate|]. intros H. destruct (IH (S i) H) as [A B]. split; [lia|exact B].
    - intros H; inversion H; subst. replace (S i - 1) with i by lia. split; [lia|exact E].
  Qed.

  (* ... and in the direction the property states it: if the source fails at call n, and every earlier call of the
     loop served an invalid scalar (so the loop gets that far), the outcome is the failure — no key, whatever the
     later calls would have served *)
  Theorem v3_random_failure_gives_no_key R fuel i n :
    (forall m x, i <= m < n -> R m 48 = Some x -> p384_pk O x = None) -> (forall m, i <= m < n -> R m 48 <> None) ->
    i <= n -> R n 48 = None -> n - i < fuel -> v3_random R i fuel = (GenRngFailed, S n).
  Proof.
    revert i n. induction fuel as [|f IH]; intros i n Hinv Hsome Hle Hn Hf; [lia|].
    cbn [v3_random]. destruct (Nat.eq_dec i n) as [->|Hne]; [rewrite Hn; reflexivity|].
    destruct (R i 48) as [b|] eqn:E; [|exfalso; apply (Hsome i); [lia|exact E]].
    rewrite (Hinv i b ltac:(lia) E). apply IH; try lia; try assumption.
    - intros m x Hm. apply Hinv. lia.
    - intros m Hm. apply Hsome. lia.
  Qed.

  (* every rejected draw was an invalid scalar: the loop never discards a usable key *)
  Theorem v3_random_skips_only_invalid R i fuel out j n x :
    v3_random R i fuel = (out, j) -> i <= n -> S n < j -> R n 48 = Some x -> p384_pk O x = None.
  Proof.
    revert i. induction fuel as [|f IH]; intros i; cbn [v3_random].
    - intros H; inversion H; subst. lia.
    - destruct (R i 48) as [b|] eqn:E.
      + destruct (p384_pk O b) eqn:Ep.
        * intros H; inversion H; subst. lia.
        * intros H Hi Hj Hx. destruct (Nat.eq_dec n i) as [->|Hne].
          -- rewrite E in Hx. inversion Hx; subst. exact Ep.
          -- apply (IH (S i) H); [lia|exact Hj|exact Hx].
      + intros H; inversion H; subst. lia.
  Qed.
End Generation.
