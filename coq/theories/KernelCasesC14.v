(* KernelCasesC14.v — everything out/cases_C14.v (written by ./check from the harness's sample) needs
   in scope.  The jiff text layer is supplied per case as a finite table of the answers jiff gave
   during that case, so every case is a closed term evaluated by vm_compute. *)
From PV Require Export Bytes Result Validation Claims.
Global Open Scope string_scope.
Global Open Scope list_scope.

(* parse_ts from a table of (text, jiff's answer); texts not in the table were never asked *)
Definition tbl_parse (tbl : list (bytes * option Z)) (s : bytes) : option Z :=
  match find (fun e : bytes * option Z => beq (fst e) s) tbl with
  | Some e => snd e
  | None => None
  end.

(* fmt_ts from a table of (nanoseconds, jiff's text) *)
Definition tbl_fmt (tbl : list (Z * bytes)) (t : Z) : bytes :=
  match find (fun e : Z * bytes => Z.eqb (fst e) t) tbl with
  | Some e => snd e
  | None => []
  end.
