(* TamperProofs.v — the authenticated input determines every field (C02's "boundary shift" and
   "header relabel" clauses): the pre-authentication encodings fed to the MAC / signature are injective
   in (suffix, nonce, ciphertext, footer, assertion), via PAE injectivity (C15). *)
From Coq Require Import List NArith String Bool Lia Arith.
From PV Require Import Bytes Result Pae PaeProofs Oracle Local Public LocalProofs.
Import ListNotations.
Set Default Timeout 60.
Local Open Scope list_scope.

Definition small (b : bytes) : Prop := len_ok b.

Lemma pieces_ok_5 a b c d e : small a -> small b -> small c -> small d -> small e -> pieces_ok [a; b; c; d; e].
Proof. intros. split; [vm_compute; reflexivity|repeat constructor; assumption]. Qed.
Lemma pieces_ok_4 a b c d : small a -> small b -> small c -> small d -> pieces_ok [a; b; c; d].
Proof. intros. split; [vm_compute; reflexivity|repeat constructor; assumption]. Qed.
Lemma pieces_ok_3 a b c : small a -> small b -> small c -> pieces_ok [a; b; c].
Proof. intros. split; [vm_compute; reflexivity|repeat constructor; assumption]. Qed.

(* header fragments: ver ++ enc ++ purpose determines enc *)
Lemma hdr_inj (ver pur enc enc' : bytes) : ver ++ enc ++ pur = ver ++ enc' ++ pur -> enc = enc'.
Proof. intros H. apply app_inv_head in H. apply app_inv_tail in H. exact H. Qed.

Lemma concat3 (a b c : bytes) : concat [a; b; c] = a ++ b ++ c.
Proof. cbn. rewrite app_nil_r. reflexivity. Qed.
Lemma concat1 (a : bytes) : concat [a] = a.
Proof. cbn. apply app_nil_r. Qed.

(* five-piece form: v3 / v4 local *)
Theorem pre5_injective (ver : bytes) enc n c f a enc' n' c' f' a' :
  small (ver ++ enc ++ str ".local.") -> small n -> small c -> small f -> small a ->
  small (ver ++ enc' ++ str ".local.") -> small n' -> small c' -> small f' -> small a' ->
  pae [local_hdr ver enc; [n]; [c]; [f]; [a]] = pae [local_hdr ver enc'; [n']; [c']; [f']; [a']] ->
  (enc, n, c, f, a) = (enc', n', c', f', a').
Proof.
  intros. unfold local_hdr in *.
  match goal with H : pae _ = pae _ |- _ => apply pae_injective in H end.
  - cbn [map] in *. rewrite !concat3, !concat1 in *.
    match goal with H : _ :: _ = _ :: _ |- _ => inversion H as [[E1 E2 E3 E4 E5]] end.
    first [apply hdr_inj in E1 | apply app_inv_tail in E1]. subst. reflexivity.
  - cbn [map]. rewrite concat3, !concat1. apply pieces_ok_5; assumption.
  - cbn [map]. rewrite concat3, !concat1. apply pieces_ok_5; assumption.
Qed.

Corollary v3_pre_injective enc n c f a enc' n' c' f' a' :
  small (str "v3" ++ enc ++ str ".local.") -> small n -> small c -> small f -> small a ->
  small (str "v3" ++ enc' ++ str ".local.") -> small n' -> small c' -> small f' -> small a' ->
  v3_pre enc n c f a = v3_pre enc' n' c' f' a' -> (enc, n, c, f, a) = (enc', n', c', f', a').
Proof. unfold v3_pre. apply pre5_injective. Qed.

Corollary v4_pre_injective enc n c f a enc' n' c' f' a' :
  small (str "v4" ++ enc ++ str ".local.") -> small n -> small c -> small f -> small a ->
  small (str "v4" ++ enc' ++ str ".local.") -> small n' -> small c' -> small f' -> small a' ->
  v4_pre enc n c f a = v4_pre enc' n' c' f' a' -> (enc, n, c, f, a) = (enc', n', c', f', a').
Proof. unfold v4_pre. apply pre5_injective. Qed.

(* four-piece form: v1 local *)
Theorem v1_pre_injective enc n c f enc' n' c' f' :
  small (str "v1" ++ enc ++ str ".local.") -> small n -> small c -> small f ->
  small (str "v1" ++ enc' ++ str ".local.") -> small n' -> small c' -> small f' ->
  v1_pre enc n c f = v1_pre enc' n' c' f' -> (enc, n, c, f) = (enc', n', c', f').
Proof.
  intros. unfold v1_pre, local_hdr in *.
  match goal with H : pae _ = pae _ |- _ => apply pae_injective in H end.
  - cbn [map] in *. rewrite !concat3, !concat1 in *.
    match goal with H : _ :: _ = _ :: _ |- _ => inversion H as [[E1 E2 E3 E4]] end.
    first [apply hdr_inj in E1 | apply app_inv_tail in E1]. subst. reflexivity.
  - cbn [map]. rewrite concat3, !concat1. apply pieces_ok_4; assumption.
  - cbn [map]. rewrite concat3, !concat1. apply pieces_ok_4; assumption.
Qed.

(* v2 local: the AEAD associated data determines (suffix, nonce, footer) *)
Theorem v2_pre_injective enc n f enc' n' f' :
  small (str "v2" ++ enc ++ str ".local.") -> small n -> small f ->
  small (str "v2" ++ enc' ++ str ".local.") -> small n' -> small f' ->
  v2_pre enc n f = v2_pre enc' n' f' -> (enc, n, f) = (enc', n', f').
Proof.
  intros. unfold v2_pre, local_hdr in *.
  match goal with H : pae _ = pae _ |- _ => apply pae_injective in H end.
  - cbn [map] in *. rewrite !concat3, !concat1 in *.
    match goal with H : _ :: _ = _ :: _ |- _ => inversion H as [[E1 E2 E3]] end.
    first [apply hdr_inj in E1 | apply app_inv_tail in E1]. subst. reflexivity.
  - cbn [map]. rewrite concat3, !concat1. apply pieces_ok_3; assumption.
  - cbn [map]. rewrite concat3, !concat1. apply pieces_ok_3; assumption.
Qed.

(* public tokens *)
Theorem v4_ppre_injective enc m f a enc' m' f' a' :
  small (str "v4" ++ enc ++ str ".public.") -> small m -> small f -> small a ->
  small (str "v4" ++ enc' ++ str ".public.") -> small m' -> small f' -> small a' ->
  v4_ppre enc m f a = v4_ppre enc' m' f' a' -> (enc, m, f, a) = (enc', m', f', a').
Proof.
  intros. unfold v4_ppre, public_hdr in *.
  match goal with H : pae _ = pae _ |- _ => apply pae_injective in H end.
  - cbn [map] in *. rewrite !concat3, !concat1 in *.
    match goal with H : _ :: _ = _ :: _ |- _ => inversion H as [[E1 E2 E3 E4]] end.
    first [apply hdr_inj in E1 | apply app_inv_tail in E1]. subst. reflexivity.
  - cbn [map]. rewrite concat3, !concat1. apply pieces_ok_4; assumption.
  - cbn [map]. rewrite concat3, !concat1. apply pieces_ok_4; assumption.
Qed.

Theorem v3_ppre_injective pk enc m f a pk' enc' m' f' a' :
  small pk -> small (str "v3" ++ enc ++ str ".public.") -> small m -> small f -> small a ->
  small pk' -> small (str "v3" ++ enc' ++ str ".public.") -> small m' -> small f' -> small a' ->
  v3_ppre pk enc m f a = v3_ppre pk' enc' m' f' a' -> (pk, enc, m, f, a) = (pk', enc', m', f', a').
Proof.
  intros. unfold v3_ppre, public_hdr in *.
  match goal with H : pae _ = pae _ |- _ => apply pae_injective in H end.
  - cbn [map] in *. rewrite !concat3, !concat1 in *.
    match goal with H : _ :: _ = _ :: _ |- _ => inversion H as [[E0 E1 E2 E3 E4]] end.
    first [apply hdr_inj in E1 | apply app_inv_tail in E1]. subst. reflexivity.
  - cbn [map]. rewrite concat3, !concat1. apply pieces_ok_5; assumption.
  - cbn [map]. rewrite concat3, !concat1. apply pieces_ok_5; assumption.
Qed.

Theorem v2_ppre_injective enc m f enc' m' f' :
  small (str "v2" ++ enc ++ str ".public.") -> small m -> small f ->
  small (str "v2" ++ enc' ++ str ".public.") -> small m' -> small f' ->
  v2_ppre enc m f = v2_ppre enc' m' f' -> (enc, m, f) = (enc', m', f').
Proof.
  intros. unfold v2_ppre, public_hdr in *.
  match goal with H : pae _ = pae _ |- _ => apply pae_injective in H end.
  - cbn [map] in *. rewrite !concat3, !concat1 in *.
    match goal with H : _ :: _ = _ :: _ |- _ => inversion H as [[E1 E2 E3]] end.
    first [apply hdr_inj in E1 | apply app_inv_tail in E1]. subst. reflexivity.
  - cbn [map]. rewrite concat3, !concat1. apply pieces_ok_3; assumption.
  - cbn [map]. rewrite concat3, !concat1. apply pieces_ok_3; assumption.
Qed.

Theorem v1_ppre_injective enc m f enc' m' f' :
  small (str "v1" ++ enc ++ str ".public.") -> small m -> small f ->
  small (str "v1" ++ enc' ++ str ".public.") -> small m' -> small f' ->
  v1_ppre enc m f = v1_ppre enc' m' f' -> (enc, m, f) = (enc', m', f').
Proof.
  intros. unfold v1_ppre, public_hdr in *.
  match goal with H : pae _ = pae _ |- _ => apply pae_injective in H end.
  - cbn [map] in *. rewrite !concat3, !concat1 in *.
    match goal with H : _ :: _ = _ :: _ |- _ => inversion H as [[E1 E2 E3]] end.
    first [apply hdr_inj in E1 | apply app_inv_tail in E1]. subst. reflexivity.
  - cbn [map]. rewrite concat3, !concat1. apply pieces_ok_3; assumption.
  - cbn [map]. rewrite concat3, !concat1. apply pieces_ok_3; assumption.
Qed.

(* versions are separated as well: the header fragment of one version never equals another's *)
Theorem version_separated (v v' enc enc' pur pur' : bytes) :
  length v = 2 -> length v' = 2 -> v <> v' -> v ++ enc ++ pur <> v' ++ enc' ++ pur'.
Proof.
  intros L1 L2 Hne E.
  destruct v as [|a [|b [|]]]; try discriminate. destruct v' as [|a' [|b' [|]]]; try discriminate.
  cbn in E. inversion E. subst. apply Hne. reflexivity.
Qed.
