(* AuthOrder.v — C12: what an unauthenticated token can cause.
   (1) the backends' unseal returns only InvalidToken / CryptoError / ClaimsError, never PayloadError or a
       panic, and WHICH error is a function of (assertion gate, length class, tag or signature validity)
       only — the would-be cleartext plays no role (the keystream is applied on the Ok branch only);
   (2) over the regenerated API table (Gen/Impls.v): SealedToken has no public field, and the only public
       method that hands out anything of a not-yet-verified token is named "unverified...". *)
From Coq Require Import List NArith String Bool Lia Arith Ascii.
From PV Require Import Bytes Result Oracle Local Public LocalProofs PublicProofs TypeRules.
From PV.Gen Require Import Impls.
Import ListNotations.
Set Default Timeout 60.
Local Open Scope list_scope.

Section Errors.
  Variable P : lparams.

  (* the exact error of the generic local unseal, case by case *)
  Theorem lg_unseal_error_cases key enc p f a e :
    lg_unseal P key enc p f a = Err e <->
    (~ aad_ok P a /\ e = ClaimsError) \/
    (aad_ok P a /\ length p < 32 + lp_tlen P /\ e = InvalidToken) \/
    (aad_ok P a /\ 32 + lp_tlen P <= length p /\ e = CryptoError /\
     let rest := take (length p - lp_tlen P) p in
     lp_tag P key enc (take 32 rest) (drop 32 rest) f a <> drop (length p - lp_tlen P) p).
  Proof.
    unfold lg_unseal.
    destruct (negb (lp_aad P) && negb (isnil a)) eqn:Ea.
    - assert (Hn : ~ aad_ok P a).
      { unfold aad_ok. apply andb_true_iff in Ea as [E1 E2]. intros [H|H].
        - rewrite H in E1. discriminate.
        - subst. discriminate. }
      split.
      + intros E; inversion E. left. auto.
      + intros [[_ ->]|[[H _]|[H _]]]; [reflexivity|contradiction|contradiction].
    - assert (Ha : aad_ok P a).
      { unfold aad_ok. destruct (lp_aad P); [left; reflexivity|]. cbn in Ea. destruct a; [right; reflexivity|discriminate]. }
      destruct (Nat.ltb_spec (length p) (32 + lp_tlen P)) as [Hlt|Hge].
      + split.
        * intros E; inversion E. right; left. auto.
        * intros [[H _]|[(_ & _ & ->)|(_ & H & _)]]; [contradiction|reflexivity|lia].
      + cbv zeta. match goal with |- context [beq ?x ?y] => destruct (beq x y) eqn:Eb end.
        * split; [discriminate|]. apply beq_eq in Eb.
          intros [[H _]|[(_ & H & _)|(_ & _ & _ & H)]]; [contradiction|lia|]. cbv zeta in H. contradiction.
        * split.
          -- intros E; inversion E. right; right. repeat split; try assumption. cbv zeta. apply beq_false. exact Eb.
          -- intros [[H _]|[(_ & H & _)|(_ & _ & -> & _)]]; [contradiction|lia|reflexivity].
  Qed.

  Corollary lg_unseal_error_kinds key enc p f a e :
    lg_unseal P key enc p f a = Err e -> e = ClaimsError \/ e = InvalidToken \/ e = CryptoError.
  Proof.
    intros H. apply lg_unseal_error_cases in H as [[_ ->]|[(_ & _ & ->)|(_ & _ & -> & _)]]; auto.
  Qed.
End Errors.

Section PublicErrors.
  Variable P : pparams.
  (* the signature check itself only ever reports a format or cryptographic error *)
  Hypothesis Hchk : forall pk x s e, pp_check P pk x s = Err e -> e = InvalidToken \/ e = CryptoError.

  Theorem pg_unseal_error_kinds pk enc p f a e :
    pg_unseal P pk enc p f a = Err e -> e = ClaimsError \/ e = InvalidToken \/ e = CryptoError.
  Proof.
    unfold pg_unseal.
    destruct (negb (pp_aad P) && negb (isnil a)); [intros E; inversion E; auto|].
    destruct (Nat.ltb (length p) (pp_slen P)); [intros E; inversion E; auto|].
    match goal with |- context [pp_check P ?k ?x ?s] => destruct (pp_check P k x s) as [[]|e'|s'] eqn:Ec end; cbn [bind].
    - discriminate.
    - intros E; inversion E; subst. destruct (Hchk _ _ _ _ Ec); auto.
    - discriminate.
  Qed.
End PublicErrors.

Lemma chk_err b e : chk b = Err e -> e = CryptoError.
Proof. unfold chk. destruct b; [discriminate|]. intros E; inversion E; reflexivity. Qed.

Lemma pparams_check_errors O (P : pparams) :
  In P [v1_pparams O; v2_pparams O; v3_pparams O; lc_pparams O; v4_pparams O; na_pparams O] ->
  forall pk x s e, pp_check P pk x s = Err e -> e = InvalidToken \/ e = CryptoError.
Proof.
  intros HP pk x s e. cbn [In] in HP.
  destruct HP as [<-|[<-|[<-|[<-|[<-|[<-|[]]]]]]]; cbn [pp_check v1_pparams v2_pparams v3_pparams lc_pparams v4_pparams na_pparams];
    try (intros H; apply chk_err in H; auto).
  cbv zeta. destruct (negb _); [intros E; inversion E; auto|]. intros H; apply chk_err in H; auto.
Qed.

Lemma pparams_check_no_panic O (P : pparams) :
  In P [v1_pparams O; v2_pparams O; v3_pparams O; lc_pparams O; v4_pparams O; na_pparams O] ->
  forall pk x s, is_panic (pp_check P pk x s) = false.
Proof.
  intros HP pk x s. cbn [In] in HP.
  destruct HP as [<-|[<-|[<-|[<-|[<-|[<-|[]]]]]]]; cbn [pp_check v1_pparams v2_pparams v3_pparams lc_pparams v4_pparams na_pparams];
    unfold chk; cbv zeta; repeat match goal with |- context [if ?b then _ else _] => destruct b end; reflexivity.
Qed.

Theorem v2_unseal_error_kinds O key enc p f a e :
  v2_local_unseal O key enc p f a = Err e -> e = ClaimsError \/ e = InvalidToken \/ e = CryptoError.
Proof.
  unfold v2_local_unseal. destruct (negb (isnil a)); [intros E; inversion E; auto|].
  destruct (split_last 16 p) as [[rest t]|]; cbn [ok_or bind]; [|intros E; inversion E; auto].
  destruct (split_first 24 rest) as [[n c]|]; cbn [ok_or bind]; [|intros E; inversion E; auto].
  destruct (xcp_open O key n (v2_pre enc n f) c t); [discriminate|intros E; inversion E; auto].
Qed.

(* ------------------------------------------------------------------ the API inventory *)
Local Open Scope string_scope.
Local Open Scope list_scope.

Definition is_sealed_token (t : ty) : bool :=
  match t with App c _ => String.eqb c "SealedToken" | _ => false end.

Fixpoint has_prefix (p s : string) : bool :=
  match p, s with
  | EmptyString, _ => true
  | String a p', String b s' => Ascii.eqb a b && has_prefix p' s'
  | _, _ => false
  end.

(* returns Result<UnsealedToken<..>, PasetoError>: the unsealing operations themselves *)
Definition returns_unsealed (t : ty) : bool :=
  match t with
  | App "Result" [App "UnsealedToken" _; _] => true
  | _ => false
  end.

Definition sealed_token_structs (T : table) : list struct :=
  filter (fun s => String.eqb (s_name s) "SealedToken") (t_structs T).

Definition sealed_token_fields_private (T : table) : bool :=
  negb (match sealed_token_structs T with [] => true | _ => false end) &&
  forallb (fun s => forallb (fun fv => negb (String.eqb (snd fv) "pub")) (s_fields s)) (sealed_token_structs T).

(* public inherent methods of SealedToken that are not the unsealing operations *)
Definition sealed_token_accessors (T : table) : list method :=
  filter (fun m => is_sealed_token (m_self m) && String.eqb (m_vis m) "pub" && negb (returns_unsealed (m_ret m))) (t_methods T).

Definition accessors_named_unverified (T : table) : bool :=
  forallb (fun m => has_prefix "unverified" (m_name m)) (sealed_token_accessors T).

(* traits implemented for SealedToken: text and serde forms only (no Deref / AsRef / Debug / Clone of the parts) *)
Definition sealed_token_traits (T : table) : list string :=
  map i_trait (filter (fun i => is_sealed_token (i_self i)) (t_impls T)).

Definition sealed_token_traits_ok (T : table) : bool :=
  forallb (fun t => existsb (String.eqb t) ["Display"; "FromStr"; "Serialize"; "Deserialize"]) (sealed_token_traits T).

Lemma api_inventory_ok :
  sealed_token_fields_private gen_table = true /\ accessors_named_unverified gen_table = true /\
  sealed_token_traits_ok gen_table = true /\
  map m_name (sealed_token_accessors gen_table) = ["unverified_footer"].
Proof. vm_compute. repeat split; reflexivity. Qed.
