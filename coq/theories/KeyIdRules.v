(* KeyIdRules.v — C13: equality, ordering and hashing of key ids agree with their 33 bytes.

   KeyId's PartialEq / Ord / Hash are written by hand in paseto-core/src/paserk/id.rs.  Gen/KeyIdImpls.v holds
   their bodies as they are in the source NOW (regenerated on every run); [keyid_impls_delegate] states that
   each of them is the delegation to the byte array [self.id] and that the struct has no other data field.
   The model of "[u8; 33] == / cmp / hash" is then equality, lexicographic order and a function of the bytes,
   and the order laws a caller relies on (BTreeMap / sort / dedup) are proved of it. *)
From Coq Require Import List NArith String Bool Lia.
From PV Require Import Bytes.
From PV.Gen Require Import KeyIdImpls.
Import ListNotations.
Local Open Scope string_scope.

Definition expected_keyid_fields : list string := ["pub(crate)id:[u8;33],_key:PhantomData<(V,K)>,"].
Definition expected_keyid_impls : list (string * string * string) :=
  [ ("PartialEq", "eq", "self.id==other.id");
    ("Eq", "", "");
    ("PartialOrd", "partial_cmp", "Some(self.cmp(other))");
    ("Ord", "cmp", "self.id.cmp(&other.id)");
    ("core::hash::Hash", "hash", "self.id.hash(state);");
    ("Clone", "clone", "*self");
    ("Copy", "", "") ].

Theorem keyid_impls_delegate : gen_keyid_fields = expected_keyid_fields /\ gen_keyid_impls = expected_keyid_impls.
Proof. split; vm_compute; reflexivity. Qed.

(* the model: ids are their bytes *)
Definition keyid_eq (a b : bytes) : bool := beq a b.
Fixpoint keyid_cmp (a b : bytes) : comparison :=
  match a, b with
  | [], [] => Eq
  | [], _ :: _ => Lt
  | _ :: _, [] => Gt
  | x :: a', y :: b' => match N.compare (b2n x) (b2n y) with Eq => keyid_cmp a' b' | c => c end
  end.

Theorem keyid_eq_iff a b : keyid_eq a b = true <-> a = b.
Proof. apply beq_eq. Qed.

Theorem keyid_cmp_eq_iff a b : keyid_cmp a b = Eq <-> a = b.
Proof.
  revert b. induction a as [|x a IH]; intros [|y b]; cbn [keyid_cmp]; try (split; [discriminate|discriminate]); [tauto|].
  destruct (N.compare_spec (b2n x) (b2n y)) as [E|E|E].
  - apply b2n_inj in E. subst y. rewrite IH. split; [intros ->; reflexivity|intros H; inversion H; reflexivity].
  - split; [discriminate|]. intros H; inversion H; subst. lia.
  - split; [discriminate|]. intros H; inversion H; subst. lia.
Qed.

(* Eq and Ord agree (what `Ord` requires of `PartialEq`) *)
Theorem keyid_ord_consistent_with_eq a b : keyid_cmp a b = Eq <-> keyid_eq a b = true.
Proof. rewrite keyid_cmp_eq_iff, keyid_eq_iff. tauto. Qed.

Theorem keyid_cmp_antisym a b : keyid_cmp b a = CompOpp (keyid_cmp a b).
Proof.
  revert b. induction a as [|x a IH]; intros [|y b]; cbn [keyid_cmp CompOpp]; try reflexivity.
  rewrite (N.compare_antisym (b2n x) (b2n y)). destruct (N.compare (b2n x) (b2n y)); cbn [CompOpp]; [apply IH|reflexivity|reflexivity].
Qed.

Theorem keyid_cmp_trans a b c : keyid_cmp a b = Lt -> keyid_cmp b c = Lt -> keyid_cmp a c = Lt.
Proof.
  revert b c. induction a as [|x a IH]; intros [|y b] [|z c]; cbn [keyid_cmp]; try discriminate; try reflexivity.
  destruct (N.compare_spec (b2n x) (b2n y)) as [E1|E1|E1]; try discriminate;
  destruct (N.compare_spec (b2n y) (b2n z)) as [E2|E2|E2]; try discriminate; intros H1 H2.
  - rewrite E1, E2. rewrite N.compare_refl. eapply IH; eassumption.
  - rewrite E1. rewrite (proj2 (N.compare_lt_iff _ _) E2). reflexivity.
  - rewrite <- E2. rewrite (proj2 (N.compare_lt_iff _ _) E1). reflexivity.
  - rewrite (proj2 (N.compare_lt_iff _ _) (N.lt_trans _ _ _ E1 E2)). reflexivity.
Qed.

(* hashing feeds exactly the bytes to the hasher: equal ids hash alike, whatever the hasher *)
Theorem keyid_hash_respects_eq {H : Type} (hasher : bytes -> H) a b : keyid_eq a b = true -> hasher a = hasher b.
Proof. intros E. apply keyid_eq_iff in E. subst. reflexivity. Qed.

Example keyid_cmp_examples :
  keyid_cmp [x00; x01] [x00; x02] = Lt /\ keyid_cmp [x01] [x00; x02] = Gt /\ keyid_cmp [x00] [x00; x00] = Lt.
Proof. repeat split. Qed.
