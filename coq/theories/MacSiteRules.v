(* MacSiteRules.v — the tie between the model's MAC / hash / KDF inputs in the PASERK operations (PIE, PBKW, PKE) and the
   source's `.update(...)` sequences.  Gen/MacSites.v is regenerated from /repo on every check: one Gallina function
   per sequence, from the byte strings it mentions (in order of first appearance) to the fragments fed, in order.  Every
   lemma below restates a definition of Paserk.v with the regenerated function in the place of the model's input and is
   closed by computation: it fails as soon as a sequence feeds other fragments, another order or another literal.
   Not covered: the constants passed for `sep` by the callers of the kdf helpers (0x80 / 0x81, 0xff / 0xfe), the key-
   derivation helper of paseto-v4 / v4-sodium PIE (a function of mod.rs without an update sequence), and which value
   each caller binds to each parameter — the correspondence harness's business. *)
From Coq Require Import List String NArith.
From PV Require Import Bytes Result Oracle Ctr Paserk.
From PV.Gen Require Import MacSites.
Import ListNotations.
Local Open Scope string_scope.
Local Open Scope list_scope.

(* what a MAC / hash sees after the updates: the fragments in order (no trailing [] so that the equalities below are
   conversions) *)
Fixpoint catl (l : list bytes) : bytes :=
  match l with
  | [] => []
  | [x] => x
  | x :: r => x ++ catl r
  end.

Section WithOracle.
  Variable O : oracle.

  Lemma v1_pie_kdf_site : forall wk n, pieA_keys O wk n =
    (let t := hmac384 O wk (catl (mac_paseto_v1_pie_wrap_0 (hex "80") n)) in
     let ak := take 32 (hmac384 O wk (catl (mac_paseto_v1_pie_wrap_0 (hex "81") n))) in (take 32 t, drop 32 t, ak)).
  Proof. reflexivity. Qed.
  Lemma v1_pie_auth_site : forall wk h n c, pie_auth (v1_pie O) wk h n c = pie_mac (v1_pie O) wk n (catl (mac_paseto_v1_pie_wrap_1 h n c)).
  Proof. reflexivity. Qed.
  Lemma v3_pie_kdf_site : forall wk n, pieA_keys O wk n =
    (let t := hmac384 O wk (catl (mac_paseto_v3_pie_wrap_0 (hex "80") n)) in
     let ak := take 32 (hmac384 O wk (catl (mac_paseto_v3_pie_wrap_0 (hex "81") n))) in (take 32 t, drop 32 t, ak)).
  Proof. reflexivity. Qed.
  Lemma v3_pie_auth_site : forall wk h n c, pie_auth (v3_pie O) wk h n c = pie_mac (v3_pie O) wk n (catl (mac_paseto_v3_pie_wrap_1 h n c)).
  Proof. reflexivity. Qed.
  Lemma lc_pie_kdf_site : forall wk n, pieA_keys O wk n =
    (let t := hmac384 O wk (catl (mac_paseto_v3_aws_lc_pie_wrap_0 (hex "80") n)) in
     let ak := take 32 (hmac384 O wk (catl (mac_paseto_v3_aws_lc_pie_wrap_0 (hex "81") n))) in (take 32 t, drop 32 t, ak)).
  Proof. reflexivity. Qed.
  Lemma lc_pie_auth_site : forall wk h n c, pie_auth (lc_pie O) wk h n c = pie_mac (lc_pie O) wk n (catl (mac_paseto_v3_aws_lc_pie_wrap_1 h n c)).
  Proof. reflexivity. Qed.
  Lemma v2_pie_kdf_site : forall wk n, pieB_keys O wk n =
    (let t := blake2b O 56 wk (catl (mac_paseto_v2_pie_wrap_1 (hex "80") n)) in
     let ak := blake2b O 32 wk (catl (mac_paseto_v2_pie_wrap_1 (hex "81") n)) in (take 32 t, drop 32 t, ak)).
  Proof. reflexivity. Qed.
  Lemma v2_pie_auth_site : forall wk h n c, pie_auth (v2_pie O) wk h n c = pie_mac (v2_pie O) wk n (catl (mac_paseto_v2_pie_wrap_0 h n c)).
  Proof. reflexivity. Qed.
  Lemma v4_pie_auth_site : forall wk h n c, pie_auth (v4_pie O) wk h n c = pie_mac (v4_pie O) wk n (catl (mac_paseto_v4_pie_wrap_0 h n c)).
  Proof. reflexivity. Qed.
  Lemma na_pie_auth_site : forall wk h n c, pie_auth (na_pie O) wk h n c = pie_mac (na_pie O) wk n (catl (mac_paseto_v4_sodium_pie_wrap_0 h n c)).
  Proof. reflexivity. Qed.
  Lemma v1_pw_subkeys_site : forall k, pw_ek (v1_pw O) k = take 32 (sha384 O (catl (mac_paseto_v1_pw_wrap_0 k (hex "ff")))) /\ pw_ak (v1_pw O) k = sha384 O (catl (mac_paseto_v1_pw_wrap_0 k (hex "fe"))).
  Proof. split; reflexivity. Qed.
  Lemma v1_pw_auth_site : forall header pass params key_data salt nonce,
    pw_wrap (v1_pw O) header pass params key_data salt nonce =
    (let prefix := salt ++ params ++ nonce in
     pre <- pw_prekey (v1_pw O) pass salt params ;;
     let c := xorl key_data (pw_ks (v1_pw O) (pw_ek (v1_pw O) pre) nonce (length key_data)) in
     Ok (prefix ++ c ++ pw_mac (v1_pw O) (pw_ak (v1_pw O) pre) (catl (mac_paseto_v1_pw_wrap_1 header prefix c)))).
  Proof. reflexivity. Qed.
  Lemma v3_pw_subkeys_site : forall k, pw_ek (v3_pw O) k = take 32 (sha384 O (catl (mac_paseto_v3_pw_wrap_0 k (hex "ff")))) /\ pw_ak (v3_pw O) k = sha384 O (catl (mac_paseto_v3_pw_wrap_0 k (hex "fe"))).
  Proof. split; reflexivity. Qed.
  Lemma v3_pw_auth_site : forall header pass params key_data salt nonce,
    pw_wrap (v3_pw O) header pass params key_data salt nonce =
    (let prefix := salt ++ params ++ nonce in
     pre <- pw_prekey (v3_pw O) pass salt params ;;
     let c := xorl key_data (pw_ks (v3_pw O) (pw_ek (v3_pw O) pre) nonce (length key_data)) in
     Ok (prefix ++ c ++ pw_mac (v3_pw O) (pw_ak (v3_pw O) pre) (catl (mac_paseto_v3_pw_wrap_1 header prefix c)))).
  Proof. reflexivity. Qed.
  Lemma lc_pw_subkeys_site : forall k, pw_ek (lc_pw O) k = take 32 (sha384 O (catl (mac_paseto_v3_aws_lc_pw_wrap_0 k (hex "ff")))) /\ pw_ak (lc_pw O) k = sha384 O (catl (mac_paseto_v3_aws_lc_pw_wrap_0 k (hex "fe"))).
  Proof. split; reflexivity. Qed.
  Lemma lc_pw_auth_site : forall header pass params key_data salt nonce,
    pw_wrap (lc_pw O) header pass params key_data salt nonce =
    (let prefix := salt ++ params ++ nonce in
     pre <- pw_prekey (lc_pw O) pass salt params ;;
     let c := xorl key_data (pw_ks (lc_pw O) (pw_ek (lc_pw O) pre) nonce (length key_data)) in
     Ok (prefix ++ c ++ pw_mac (lc_pw O) (pw_ak (lc_pw O) pre) (catl (mac_paseto_v3_aws_lc_pw_wrap_1 header prefix c)))).
  Proof. reflexivity. Qed.
  Lemma v2_pw_subkeys_site : forall k, pw_ek (v2_pw O) k = blake2b O 32 [] (catl (mac_paseto_v2_pw_wrap_0 k (hex "ff"))) /\ pw_ak (v2_pw O) k = blake2b O 32 [] (catl (mac_paseto_v2_pw_wrap_0 k (hex "fe"))).
  Proof. split; reflexivity. Qed.
  Lemma v2_pw_auth_site : forall header pass params key_data salt nonce,
    pw_wrap (v2_pw O) header pass params key_data salt nonce =
    (let prefix := salt ++ params ++ nonce in
     pre <- pw_prekey (v2_pw O) pass salt params ;;
     let c := xorl key_data (pw_ks (v2_pw O) (pw_ek (v2_pw O) pre) nonce (length key_data)) in
     Ok (prefix ++ c ++ pw_mac (v2_pw O) (pw_ak (v2_pw O) pre) (catl (mac_paseto_v2_pw_wrap_1 header prefix c)))).
  Proof. reflexivity. Qed.
  Lemma v4_pw_subkeys_site : forall k, pw_ek (v4_pw O) k = blake2b O 32 [] (catl (mac_paseto_v4_pw_wrap_0 k (hex "ff"))) /\ pw_ak (v4_pw O) k = blake2b O 32 [] (catl (mac_paseto_v4_pw_wrap_0 k (hex "fe"))).
  Proof. split; reflexivity. Qed.
  Lemma v4_pw_auth_site : forall header pass params key_data salt nonce,
    pw_wrap (v4_pw O) header pass params key_data salt nonce =
    (let prefix := salt ++ params ++ nonce in
     pre <- pw_prekey (v4_pw O) pass salt params ;;
     let c := xorl key_data (pw_ks (v4_pw O) (pw_ek (v4_pw O) pre) nonce (length key_data)) in
     Ok (prefix ++ c ++ pw_mac (v4_pw O) (pw_ak (v4_pw O) pre) (catl (mac_paseto_v4_pw_wrap_1 header prefix c)))).
  Proof. reflexivity. Qed.
  Lemma na_pw_subkeys_site : forall k, pw_ek (na_pw O) k = blake2b O 32 [] (catl (mac_paseto_v4_sodium_pw_wrap_0 k (hex "ff"))) /\ pw_ak (na_pw O) k = blake2b O 32 [] (catl (mac_paseto_v4_sodium_pw_wrap_0 k (hex "fe"))).
  Proof. split; reflexivity. Qed.
  Lemma na_pw_auth_site : forall header pass params key_data salt nonce,
    pw_wrap (na_pw O) header pass params key_data salt nonce =
    (let prefix := salt ++ params ++ nonce in
     pre <- pw_prekey (na_pw O) pass salt params ;;
     let c := xorl key_data (pw_ks (na_pw O) (pw_ek (na_pw O) pre) nonce (length key_data)) in
     Ok (prefix ++ c ++ pw_mac (na_pw O) (pw_ak (na_pw O) pre) (catl (mac_paseto_v4_sodium_pw_wrap_1 header prefix c)))).
  Proof. reflexivity. Qed.
  Lemma v2_pke_keys_site_seal : forall xk epk xpk, x_seal_keys O (str "k2") xk epk xpk =
    (blake2b O 32 [] (catl (mac_paseto_v2_pke_0 xpk epk xk)), blake2b O 24 [] (catl (mac_paseto_v2_pke_1 xpk epk)), blake2b O 32 [] (catl (mac_paseto_v2_pke_2 xpk epk xk))).
  Proof. reflexivity. Qed.
  Lemma v2_pke_keys_site_unseal : forall xk epk xpk, x_seal_keys O (str "k2") xk epk xpk =
    (blake2b O 32 [] (catl (mac_paseto_v2_pke_6 epk xpk xk)), blake2b O 24 [] (catl (mac_paseto_v2_pke_7 epk xpk)), blake2b O 32 [] (catl (mac_paseto_v2_pke_4 epk xpk xk))).
  Proof. reflexivity. Qed.
  Lemma v2_pke_tag_site : forall epk edk, str "k2" ++ str ".seal." ++ epk ++ edk = catl (mac_paseto_v2_pke_3 epk edk) /\ str "k2" ++ str ".seal." ++ epk ++ edk = catl (mac_paseto_v2_pke_5 epk edk).
  Proof. split; reflexivity. Qed.
  Lemma v4_pke_keys_site_seal : forall xk epk xpk, x_seal_keys O (str "k4") xk epk xpk =
    (blake2b O 32 [] (catl (mac_paseto_v4_pke_0 xpk epk xk)), blake2b O 24 [] (catl (mac_paseto_v4_pke_1 xpk epk)), blake2b O 32 [] (catl (mac_paseto_v4_pke_2 xpk epk xk))).
  Proof. reflexivity. Qed.
  Lemma v4_pke_keys_site_unseal : forall xk epk xpk, x_seal_keys O (str "k4") xk epk xpk =
    (blake2b O 32 [] (catl (mac_paseto_v4_pke_6 epk xpk xk)), blake2b O 24 [] (catl (mac_paseto_v4_pke_7 epk xpk)), blake2b O 32 [] (catl (mac_paseto_v4_pke_4 epk xpk xk))).
  Proof. reflexivity. Qed.
  Lemma v4_pke_tag_site : forall epk edk, str "k4" ++ str ".seal." ++ epk ++ edk = catl (mac_paseto_v4_pke_3 epk edk) /\ str "k4" ++ str ".seal." ++ epk ++ edk = catl (mac_paseto_v4_pke_5 epk edk).
  Proof. split; reflexivity. Qed.
  Lemma na_pke_keys_site_seal : forall xk epk xpk, x_seal_keys O (str "k4") xk epk xpk =
    (blake2b O 32 [] (catl (mac_paseto_v4_sodium_pke_0 xpk epk xk)), blake2b O 24 [] (catl (mac_paseto_v4_sodium_pke_1 xpk epk)), blake2b O 32 [] (catl (mac_paseto_v4_sodium_pke_2 xpk epk xk))).
  Proof. reflexivity. Qed.
  Lemma na_pke_keys_site_unseal : forall xk epk xpk, x_seal_keys O (str "k4") xk epk xpk =
    (blake2b O 32 [] (catl (mac_paseto_v4_sodium_pke_6 epk xpk xk)), blake2b O 24 [] (catl (mac_paseto_v4_sodium_pke_7 epk xpk)), blake2b O 32 [] (catl (mac_paseto_v4_sodium_pke_4 epk xpk xk))).
  Proof. reflexivity. Qed.
  Lemma na_pke_tag_site : forall epk edk, str "k4" ++ str ".seal." ++ epk ++ edk = catl (mac_paseto_v4_sodium_pke_3 epk edk) /\ str "k4" ++ str ".seal." ++ epk ++ edk = catl (mac_paseto_v4_sodium_pke_5 epk edk).
  Proof. split; reflexivity. Qed.
  Lemma v3_pke_keys_site : forall xk epk pk,
    v3_seal_keys O xk epk pk = (let e := sha384 O (catl (mac_paseto_v3_pke_0 pk epk xk)) in let ak := sha384 O (catl (mac_paseto_v3_pke_1 pk epk xk)) in (take 32 e, drop 32 e, ak)) /\
    v3_seal_keys O xk epk pk = (let e := sha384 O (catl (mac_paseto_v3_pke_5 epk pk xk)) in let ak := sha384 O (catl (mac_paseto_v3_pke_3 epk pk xk)) in (take 32 e, drop 32 e, ak)).
  Proof. split; reflexivity. Qed.
  Lemma v3_pke_tag_site : forall epk edk, str "k3.seal." ++ epk ++ edk = catl (mac_paseto_v3_pke_2 epk edk) /\ str "k3.seal." ++ epk ++ edk = catl (mac_paseto_v3_pke_4 epk edk).
  Proof. split; reflexivity. Qed.
  Lemma lc_pke_keys_site : forall xk epk pk,
    v3_seal_keys O xk epk pk = (let e := sha384 O (catl (mac_paseto_v3_aws_lc_pke_0 xk epk pk)) in let ak := sha384 O (catl (mac_paseto_v3_aws_lc_pke_1 xk epk pk)) in (take 32 e, drop 32 e, ak)).
  Proof. reflexivity. Qed.
  Lemma lc_pke_tag_site : forall epk edk, str "k3.seal." ++ epk ++ edk = catl (mac_paseto_v3_aws_lc_pke_2 epk edk) /\ str "k3.seal." ++ epk ++ edk = catl (mac_paseto_v3_aws_lc_pke_3 epk edk).
  Proof. split; reflexivity. Qed.
  Lemma v1_pke_keys_site : forall c r,
    v1_seal_keys O c r = (let k := sha384 O c in let e := hmac384 O k (catl (mac_paseto_v1_pke_0 r)) in let ak := hmac384 O k (catl (mac_paseto_v1_pke_1 r)) in (take 32 e, drop 32 e, ak)) /\
    v1_seal_keys O c r = (let k := sha384 O c in let e := hmac384 O k (catl (mac_paseto_v1_pke_5 r)) in let ak := hmac384 O k (catl (mac_paseto_v1_pke_3 r)) in (take 32 e, drop 32 e, ak)).
  Proof. split; reflexivity. Qed.
  Lemma v1_pke_tag_site : forall c edk, str "k1.seal." ++ c ++ edk = catl (mac_paseto_v1_pke_2 c edk) /\ str "k1.seal." ++ c ++ edk = catl (mac_paseto_v1_pke_4 edk c).
  Proof. split; reflexivity. Qed.
End WithOracle.

(* no further update sequence exists in those files (a new one is MAC or hash input the model does not know): file and
   number of fragments of every sequence, in source order *)
Definition expected_mac_sites : list (String.string * N) :=
  [ ("paseto-v1/src/core/pie_wrap.rs", 2%N);
    ("paseto-v1/src/core/pie_wrap.rs", 4%N);
    ("paseto-v1/src/core/pw_wrap.rs", 2%N);
    ("paseto-v1/src/core/pw_wrap.rs", 4%N);
    ("paseto-v1/src/core/pke.rs", 2%N);
    ("paseto-v1/src/core/pke.rs", 2%N);
    ("paseto-v1/src/core/pke.rs", 3%N);
    ("paseto-v1/src/core/pke.rs", 2%N);
    ("paseto-v1/src/core/pke.rs", 3%N);
    ("paseto-v1/src/core/pke.rs", 2%N);
    ("paseto-v2/src/core/pie_wrap.rs", 4%N);
    ("paseto-v2/src/core/pie_wrap.rs", 2%N);
    ("paseto-v2/src/core/pw_wrap.rs", 2%N);
    ("paseto-v2/src/core/pw_wrap.rs", 4%N);
    ("paseto-v2/src/core/pke.rs", 4%N);
    ("paseto-v2/src/core/pke.rs", 2%N);
    ("paseto-v2/src/core/pke.rs", 4%N);
    ("paseto-v2/src/core/pke.rs", 3%N);
    ("paseto-v2/src/core/pke.rs", 4%N);
    ("paseto-v2/src/core/pke.rs", 3%N);
    ("paseto-v2/src/core/pke.rs", 4%N);
    ("paseto-v2/src/core/pke.rs", 2%N);
    ("paseto-v3/src/core/pie_wrap.rs", 2%N);
    ("paseto-v3/src/core/pie_wrap.rs", 4%N);
    ("paseto-v3/src/core/pw_wrap.rs", 2%N);
    ("paseto-v3/src/core/pw_wrap.rs", 4%N);
    ("paseto-v3/src/core/pke.rs", 4%N);
    ("paseto-v3/src/core/pke.rs", 4%N);
    ("paseto-v3/src/core/pke.rs", 3%N);
    ("paseto-v3/src/core/pke.rs", 4%N);
    ("paseto-v3/src/core/pke.rs", 3%N);
    ("paseto-v3/src/core/pke.rs", 4%N);
    ("paseto-v3-aws-lc/src/core/pie_wrap.rs", 2%N);
    ("paseto-v3-aws-lc/src/core/pie_wrap.rs", 4%N);
    ("paseto-v3-aws-lc/src/core/pw_wrap.rs", 2%N);
    ("paseto-v3-aws-lc/src/core/pw_wrap.rs", 4%N);
    ("paseto-v3-aws-lc/src/core/pke.rs", 4%N);
    ("paseto-v3-aws-lc/src/core/pke.rs", 4%N);
    ("paseto-v3-aws-lc/src/core/pke.rs", 3%N);
    ("paseto-v3-aws-lc/src/core/pke.rs", 3%N);
    ("paseto-v4/src/core/pie_wrap.rs", 4%N);
    ("paseto-v4/src/core/pw_wrap.rs", 2%N);
    ("paseto-v4/src/core/pw_wrap.rs", 4%N);
    ("paseto-v4/src/core/pke.rs", 4%N);
    ("paseto-v4/src/core/pke.rs", 2%N);
    ("paseto-v4/src/core/pke.rs", 4%N);
    ("paseto-v4/src/core/pke.rs", 3%N);
    ("paseto-v4/src/core/pke.rs", 4%N);
    ("paseto-v4/src/core/pke.rs", 3%N);
    ("paseto-v4/src/core/pke.rs", 4%N);
    ("paseto-v4/src/core/pke.rs", 2%N);
    ("paseto-v4-sodium/src/core/pie_wrap.rs", 4%N);
    ("paseto-v4-sodium/src/core/pw_wrap.rs", 2%N);
    ("paseto-v4-sodium/src/core/pw_wrap.rs", 4%N);
    ("paseto-v4-sodium/src/core/pke.rs", 4%N);
    ("paseto-v4-sodium/src/core/pke.rs", 2%N);
    ("paseto-v4-sodium/src/core/pke.rs", 4%N);
    ("paseto-v4-sodium/src/core/pke.rs", 3%N);
    ("paseto-v4-sodium/src/core/pke.rs", 4%N);
    ("paseto-v4-sodium/src/core/pke.rs", 3%N);
    ("paseto-v4-sodium/src/core/pke.rs", 4%N);
    ("paseto-v4-sodium/src/core/pke.rs", 2%N) ].
Lemma mac_sites_complete : map (fun r => (fst (fst (fst (fst r))), snd r)) gen_mac_sites = expected_mac_sites.
Proof. reflexivity. Qed.
