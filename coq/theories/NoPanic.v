(* NoPanic.v — C04: the modelled glue never takes a Panic branch on any input (parsers, key decoding and use,
   unseal / unwrap / unseal-key), given only that key OBJECTS are ones a decoder returned. *)
From Coq Require Import List NArith String Bool Lia Arith.
From PV Require Import Bytes Result Base64 Text TextProofs Oracle Local Public LocalProofs PublicProofs Paserk PaserkProofs Keys KeysProofs.
Import ListNotations.
Set Default Timeout 120.
Local Open Scope list_scope.

Ltac break_ifs :=
  repeat match goal with
         | |- context [if ?b then _ else _] => destruct b
         | |- context [match ?x with Some _ => _ | None => _ end] => destruct x
         | |- context [let '(_, _) := ?x in _] => destruct x
         end.

Section NP.
  Variable O : oracle.

  (* the one index expression of the key decoders: `bytes[0]` is evaluated only when len = 49 *)
  Lemma v3_decode_public_no_panic bs : is_panic (v3_decode_public O bs) = false.
  Proof.
    unfold v3_decode_public. destruct (Nat.eqb_spec (length bs) 49) as [E|E]; cbn [negb]; [|reflexivity].
    destruct bs as [|b0 bs']; [discriminate E|]. break_ifs; reflexivity.
  Qed.

  Theorem key_decode_no_panic b k bs : is_panic (key_decode O b k bs) = false.
  Proof.
    destruct k, b; cbn [key_decode]; try apply v3_decode_public_no_panic; unfold decode_local, dalek_decode_public, dalek_decode_secret, na_decode_public,
      na_decode_secret, v3_decode_public, v3_decode_secret, lc_decode_public, lc_decode_secret, v1_decode_public, v1_decode_secret;
      try (break_ifs; reflexivity);
      (* dalek secret *)
      destruct (split_first 32 bs) as [[sd pk]|]; cbn [ok_or bind]; try reflexivity;
      unfold dalek_decode_public; break_ifs; cbn [bind]; break_ifs; reflexivity.
  Qed.

  (* whatever a decoder returned can be re-encoded (displayed, identified) without panicking *)
  Theorem key_encode_no_panic b k bs obj :
    key_decode O b k bs = Ok obj -> is_panic (key_encode O b k obj) = false.
  Proof.
    intros H. destruct k, b; cbn [key_encode]; try reflexivity.
    - (* aws-lc secret *) cbn [key_decode] in H. unfold lc_decode_secret in H.
      destruct (Nat.eqb_spec (length bs) 48); cbn [negb] in H; [|discriminate].
      destruct (p384_pk O bs); [|discriminate]. inversion H; subst. rewrite lc_encode_is_identity by assumption. reflexivity.
    - cbn [key_decode] in H. unfold lc_decode_secret in H.
      destruct (Nat.eqb_spec (length bs) 48); cbn [negb] in H; [|discriminate].
      destruct (p384_pk O bs); [|discriminate]. inversion H; subst. rewrite lc_encode_is_identity by assumption. reflexivity.
  Qed.

  Theorem key_text_and_id_no_panic b k bs obj :
    key_decode O b k bs = Ok obj ->
    is_panic (key_to_text O b k obj) = false /\ is_panic (key_id_text O b k obj) = false.
  Proof.
    intros H. pose proof (key_encode_no_panic b k bs obj H) as E.
    unfold key_id_text, key_id, key_to_text. destruct (key_encode O b k obj); cbn [bind] in *; try discriminate; auto.
  Qed.

  Theorem public_of_no_panic b bs sk :
    key_decode O b KSecret bs = Ok sk -> is_panic (public_of O b sk) = false.
  Proof.
    intros H. destruct b; cbn [public_of]; try reflexivity; cbn [key_decode] in H; unfold v3_public_of.
    - unfold v3_decode_secret in H. destruct (negb (Nat.eqb (length bs) 48)); [discriminate|].
      destruct (p384_pk O bs) eqn:E; [|discriminate]. inversion H; subst. rewrite E. reflexivity.
    - unfold lc_decode_secret in H. destruct (negb (Nat.eqb (length bs) 48)); [discriminate|].
      destruct (p384_pk O bs) eqn:E; [|discriminate]. inversion H; subst. rewrite E. reflexivity.
  Qed.

  Theorem key_from_str_no_panic b k s : is_panic (key_from_str O b k s) = false.
  Proof.
    unfold key_from_str. pose proof (paserk_parse_no_panic (paserk_ver b) (kind_hdr k) s) as P.
    destruct (parse_paserk (paserk_ver b) (kind_hdr k) s); cbn [bind] in *; try discriminate; try reflexivity.
    apply key_decode_no_panic.
  Qed.

  (* ---- PKE unseal ---- *)
  Theorem v3_pke_unseal_no_panic W bad sk data :
    p384_pk O sk <> None -> is_panic (v3_pke_unseal_gen O W bad sk data) = false.
  Proof.
    intros Hsk. unfold v3_pke_unseal_gen.
    destruct (split_first 48 data) as [[tag rest]|]; cbn [ok_or bind]; [|reflexivity].
    destruct (split_first 49 rest) as [[epk edk]|]; cbn [ok_or bind]; [|reflexivity].
    destruct (negb (Nat.eqb (length edk) 32)); [reflexivity|].
    destruct (p384_pk O sk) as [pk|]; [|congruence].
    destruct (p384_parse O epk) as [epk'|]; [|reflexivity]. destruct (ecdh_p384 O sk epk') as [xk|]; [|reflexivity].
    destruct (v3_seal_keys O xk epk pk) as [[ek nn] ak]. destruct (beq _ tag); reflexivity.
  Qed.

  Theorem x_pke_unseal_no_panic ver strict xpk_of sk data : is_panic (x_pke_unseal O ver strict xpk_of sk data) = false.
  Proof.
    unfold x_pke_unseal.
    destruct (split_first 32 data) as [[tag rest]|]; cbn [ok_or bind]; [|reflexivity].
    destruct (split_first 32 rest) as [[epk edk]|]; cbn [ok_or bind]; [|reflexivity].
    destruct (negb (Nat.eqb (length edk) 32)); [reflexivity|].
    destruct (xpk_of sk) as [xpk|]; [|reflexivity].
    destruct (strict && beq _ zero32); [reflexivity|].
    destruct (x_seal_keys O ver _ epk xpk) as [[ek nn] ak]. destruct (beq _ tag); reflexivity.
  Qed.

  Theorem v1_pke_unseal_no_panic sk data : is_panic (v1_pke_unseal O sk data) = false.
  Proof.
    unfold v1_pke_unseal.
    destruct (split_first 48 data) as [[tag rest]|]; cbn [ok_or bind]; [|reflexivity].
    destruct (split_last 512 rest) as [[edk c]|]; cbn [ok_or bind]; [|reflexivity].
    destruct (negb (Nat.eqb (length edk) 32)); [reflexivity|].
    destruct (rsa_dec O sk (be_val c)) as [rn|]; [|reflexivity].
    destruct (v1_seal_keys O c _) as [[ek nn] ak]. destruct (beq _ tag); reflexivity.
  Qed.

  (* ---- sealing to a parsed key (the RustCrypto v2/v4 `decompress().unwrap()`): a decoded public key
          decompresses, so the Panic branch of x_pke_seal is not taken ---- *)
  Theorem v4_pke_seal_no_panic bs pk key r :
    (forall p, ed_pk_ok O p = true -> x_of_edpk O p <> None) ->
    dalek_decode_public O bs = Ok pk -> is_panic (x_pke_seal O (str "k4") false pk key r) = false.
  Proof.
    intros Hd H. apply dalek_public_decode_iff in H as (_ & Hok & _ & ->).
    unfold x_pke_seal. specialize (Hd bs Hok). destruct (x_of_edpk O bs); [|congruence].
    cbn [andb]. destruct (x_seal_keys O _ _ _ _) as [[ek nn] ak]. reflexivity.
  Qed.
  (* ---- the backends that split their input with PANICKING slice operations after a length guard (Rs.v):
          the guard is sufficient.  (Not true by construction: the mirrors contain the Panic branches, and
          NonVacuity/C04.v shows the same bodies under a weaker guard do panic.) ---- *)
  Theorem lc_local_unseal_no_panic key enc p f a : is_panic (lc_local_unseal O key enc p f a) = false.
  Proof. rewrite lc_unseal_inst. apply lg_unseal_no_panic. Qed.
  Theorem v4_public_unseal_no_panic pk enc p f a : is_panic (v4_public_unseal O pk enc p f a) = false.
  Proof.
    rewrite v4_punseal_inst. apply pg_unseal_no_panic. intros k x s. cbn [v4_pparams pp_check]. unfold chk.
    destruct (ed_verify O k x s); reflexivity.
  Qed.
  Theorem v2_public_unseal_no_panic pk enc p f a : is_panic (v2_public_unseal O pk enc p f a) = false.
  Proof.
    rewrite v2_punseal_inst. apply pg_unseal_no_panic. intros k x s. cbn [v2_pparams pp_check]. unfold chk.
    destruct (ed_verify O k x s); reflexivity.
  Qed.
  Theorem lc_public_unseal_no_panic pk enc p f a : is_panic (lc_public_unseal O pk enc p f a) = false.
  Proof.
    rewrite lc_punseal_inst. apply pg_unseal_no_panic. intros k x s. cbn [lc_pparams pp_check]. unfold chk.
    match goal with |- context [if ?b then _ else _] => destruct b end; reflexivity.
  Qed.
End NP.
