(* C07 — PASERK wraps, seals and password-wraps are bit-exact per spec and interoperate.
   SpecPaserk.v is the specification transcription (validated on every official k*.json vector at run
   time); the theorems say backend model = specification for ALL inputs, nonces, salts, ephemeral values —
   in particular embedded counter blocks such as ff..ff, because the model's counter is the full 128 bits
   (tied to the source by C03_ctr_sites_full_width / Gen/Ciphers.v). *)
From PV Require Import Bytes Result Ctr Oracle Local Paserk PaserkProofs SpecPaserk SpecPaserkProofs SpecProofs CtrSites.
From PV.Gen Require Import Ciphers.
Local Open Scope string_scope.
Local Open Scope list_scope.

Theorem C07_pie_v1_v3_is_spec : forall O ver header wk ptk n,
  pie_wrap (pieA O ver 128) header wk ptk n = Ok (spec_pieA O (ver ++ header) wk ptk n).
Proof. exact pieA_is_spec. Qed.

Theorem C07_pie_v2_v4_is_spec : forall O ver header wk ptk n,
  pie_wrap (pieB O ver) header wk ptk n = Ok (spec_pieB O (ver ++ header) wk ptk n).
Proof. exact pieB_is_spec. Qed.

(* z = true is the aws-lc backend (iteration count 0 refused), z = false the RustCrypto ones *)
Theorem C07_pbkw_v1_v3_is_spec : forall O ver z header pw ptk s i n,
  (i < 2 ^ 32)%N -> (z = false \/ i <> 0%N) ->
  pw_wrap (pwA O ver 128 z) header pw (be_bytes 4 i) ptk s n = Ok (spec_pwA O (ver ++ header) pw ptk s i n).
Proof. exact pwA_is_spec. Qed.

Theorem C07_pbkw_v2_v4_is_spec : forall O ver header pw ptk s mem time para n blob,
  (mem < 2 ^ 64)%N -> (time < 2 ^ 32)%N -> (para < 2 ^ 32)%N ->
  (mem mod 1024 = 0)%N -> (mem / 1024 < 2 ^ 32)%N ->
  spec_pwB O (ver ++ header) pw ptk s mem time para n = Some blob ->
  pw_wrap (pwB O ver (v4_prekey O)) header pw (be_bytes 8 mem ++ be_bytes 4 time ++ be_bytes 4 para) ptk s n = Ok blob.
Proof. exact v4_pw_is_spec. Qed.

Theorem C07_pbkw_v4_sodium_is_spec : forall O header pw ptk s mem time n blob,
  (mem < 2 ^ 64)%N -> (time < 2 ^ 32)%N ->
  spec_pwB O (str "k4" ++ header) pw ptk s mem time 1 n = Some blob ->
  pw_wrap (na_pw O) header pw (be_bytes 8 mem ++ be_bytes 4 time ++ be_bytes 4 1) ptk s n = Ok blob.
Proof. exact na_pw_is_spec. Qed.

(* KNOWN FINDING (libsodium supports one lane only): a conforming blob with parallelism <> 1 is refused *)
Theorem C07_pbkw_v4_sodium_parallelism_refuted : forall O header pw s mem time para n c tag,
  (mem < 2 ^ 64)%N -> (time < 2 ^ 32)%N -> (para < 2 ^ 32)%N -> para <> 1%N ->
  length s = 16 -> length n = 24 -> length tag = 32 ->
  pw_unwrap (na_pw O) header pw ((s ++ (be_bytes 8 mem ++ be_bytes 4 time ++ be_bytes 4 para) ++ n) ++ c ++ tag) = Err InvalidKey.
Proof. exact na_pw_rejects_other_parallelism. Qed.

Theorem C07_seal_v3_is_spec : forall O pk pdk esk blob,
  spec_seal_v3 O pk pdk esk = Some blob -> v3_pke_seal O 128 pk pdk esk = Ok blob.
Proof. exact v3_seal_is_spec. Qed.

Theorem C07_seal_v2_v4_is_spec : forall O ver strict edpk xpk pdk r,
  x_of_edpk O edpk = Some xpk -> (strict = true -> x_mul O r xpk <> zero32) ->
  x_pke_seal O ver strict edpk pdk r = Ok (spec_seal_x O ver xpk pdk r).
Proof. exact x_seal_is_spec. Qed.

Theorem C07_seal_v1_is_spec : forall O pk pdk r0 blob,
  spec_seal_v1 O pk pdk (v1_mask_r r0) = Some blob -> v1_pke_seal O pk pdk r0 = Ok blob.
Proof. exact v1_seal_is_spec. Qed.

(* every conforming blob unwraps to the same key on every backend of its version: the model of each
   backend is the generic unwrap at parameter sets that differ only in the (equal) counter width *)
Theorem C07_v3_backends_same_pie : forall O, v3_pie O = lc_pie O.
Proof. reflexivity. Qed.
Theorem C07_v4_backends_same_pie : forall O, v4_pie O = na_pie O.
Proof. reflexivity. Qed.
Theorem C07_v3_backends_same_pke_unseal : forall O sk data r,
  v3_pke_unseal O sk data = Ok r -> lc_pke_unseal O sk data = Ok r.
Proof.
  intros O sk data r. unfold v3_pke_unseal, lc_pke_unseal, v3_pke_unseal_gen.
  destruct (split_first 48 data) as [[tag rest]|]; cbn [ok_or bind]; [|discriminate].
  destruct (split_first 49 rest) as [[epk edk]|]; cbn [ok_or bind]; [|discriminate].
  destruct (negb (Nat.eqb (length edk) 32)); [discriminate|].
  destruct (p384_pk O sk); [|discriminate]. destruct (p384_parse O epk); [|discriminate]. exact (fun H => H).
Qed.

(* the counter is full width at every PASERK site of the v1 / v3 sources *)
Theorem C07_ctr_sites_full_width :
  forall f tok, In (f, tok) gen_ctr_sites -> ctr_width_of tok = Some 128%N.
Proof. exact ctr_sites_forall. Qed.

(* ---- interoperability in the receiving direction: whatever blob the specification produces (i.e. any other
        conforming implementation's output) unwraps to the wrapped key on the backends of its version ---- *)
Theorem C07_spec_pie_blob_unwraps_v1_v3 : forall O, laws O -> forall ver header wk ptk n,
  length n = 32 -> pie_unwrap (pieA O ver 128) header wk (spec_pieA O (ver ++ header) wk ptk n) = Ok ptk.
Proof. exact spec_pieA_blob_unwraps. Qed.
Theorem C07_spec_pie_blob_unwraps_v2_v4 : forall O, laws O -> forall ver header wk ptk n,
  length n = 32 -> pie_unwrap (pieB O ver) header wk (spec_pieB O (ver ++ header) wk ptk n) = Ok ptk.
Proof. exact spec_pieB_blob_unwraps. Qed.
Theorem C07_spec_pbkw_blob_unwraps_v1_v3 : forall O, laws O -> forall ver z header pw ptk s i n,
  (i < 2 ^ 32)%N -> (z = false \/ i <> 0%N) -> length s = 32 -> length n = 16 ->
  pw_unwrap (pwA O ver 128 z) header pw (spec_pwA O (ver ++ header) pw ptk s i n) = Ok ptk.
Proof. exact spec_pwA_blob_unwraps. Qed.

Theorem C07_spec_pbkw_blob_unwraps_v2_v4 : forall O, laws O -> forall ver header pw ptk s mem time para n blob,
  (mem < 2 ^ 64)%N -> (time < 2 ^ 32)%N -> (para < 2 ^ 32)%N ->
  (mem mod 1024 = 0)%N -> (mem / 1024 < 2 ^ 32)%N -> length s = 16 -> length n = 24 ->
  spec_pwB O (ver ++ header) pw ptk s mem time para n = Some blob ->
  pw_unwrap (pwB O ver (v4_prekey O)) header pw blob = Ok ptk.
Proof. exact spec_pwB_blob_unwraps. Qed.
Theorem C07_spec_pbkw_blob_unwraps_v4_sodium : forall O, laws O -> forall header pw ptk s mem time n blob,
  (mem < 2 ^ 64)%N -> (time < 2 ^ 32)%N -> length s = 16 -> length n = 24 ->
  spec_pwB O (str "k4" ++ header) pw ptk s mem time 1 n = Some blob ->
  pw_unwrap (na_pw O) header pw blob = Ok ptk.
Proof. exact spec_pwB_blob_unwraps_sodium. Qed.
Theorem C07_spec_seal_blob_unseals_v3 : forall O, laws O -> forall bad sk pk key esk epk blob,
  length key = 32 -> p384_pk O sk = Some pk -> p384_pk O esk = Some epk ->
  spec_seal_v3 O pk key esk = Some blob -> v3_pke_unseal_gen O 128 bad sk blob = Ok key.
Proof. exact spec_seal_v3_blob_unseals. Qed.
Theorem C07_spec_seal_blob_unseals_v2_v4 : forall O, laws O -> forall ver strict xpk_of sk seed key r,
  length key = 32 -> take 32 sk = seed -> xpk_of sk = Some (x_of_seed O seed) ->
  (strict = true -> x_mul O r (x_of_seed O seed) <> zero32) ->
  x_pke_unseal O ver strict xpk_of sk (spec_seal_x O ver (x_of_seed O seed) key r) = Ok key.
Proof. exact spec_seal_x_blob_unseals. Qed.
Theorem C07_spec_seal_blob_unseals_v1 : forall O, laws O -> forall sk key r0 cn blob,
  length key = 32 -> length r0 = 512 ->
  rsa_enc O (rsa_pk O sk) (be_val (v1_mask_r r0)) = Some cn ->
  spec_seal_v1 O (rsa_pk O sk) key (v1_mask_r r0) = Some blob ->
  v1_pke_unseal O sk blob = Ok key.
Proof. exact spec_seal_v1_blob_unseals. Qed.

Print Assumptions C07_spec_pbkw_blob_unwraps_v2_v4.
Print Assumptions C07_spec_pbkw_blob_unwraps_v4_sodium.
Print Assumptions C07_spec_seal_blob_unseals_v3.
Print Assumptions C07_spec_seal_blob_unseals_v2_v4.
Print Assumptions C07_spec_seal_blob_unseals_v1.
Print Assumptions C07_spec_pie_blob_unwraps_v1_v3.
Print Assumptions C07_spec_pie_blob_unwraps_v2_v4.
Print Assumptions C07_spec_pbkw_blob_unwraps_v1_v3.
Print Assumptions C07_pie_v1_v3_is_spec.
Print Assumptions C07_pie_v2_v4_is_spec.
Print Assumptions C07_pbkw_v1_v3_is_spec.
Print Assumptions C07_pbkw_v2_v4_is_spec.
Print Assumptions C07_pbkw_v4_sodium_is_spec.
Print Assumptions C07_pbkw_v4_sodium_parallelism_refuted.
Print Assumptions C07_seal_v3_is_spec.
Print Assumptions C07_seal_v2_v4_is_spec.
Print Assumptions C07_seal_v1_is_spec.
Print Assumptions C07_v3_backends_same_pie.
Print Assumptions C07_v4_backends_same_pie.
Print Assumptions C07_v3_backends_same_pke_unseal.
Print Assumptions C07_ctr_sites_full_width.
