(* C06 (second file) — the MAC / hash / KDF inputs of the PASERK operations ARE what the source feeds: Gen/MacSites.v is
   regenerated from the `.update(...)` sequences of pie_wrap.rs, pw_wrap.rs and pke.rs of the six backends on every run,
   and each definition of the model is restated here with the regenerated function in the place of its input.  Kept apart
   from C06.v so that no other property's files depend on Gen/MacSites.v. *)
From Coq Require Import List String NArith.
From PV Require Import Bytes Result Oracle Ctr Paserk MacSiteRules KdfSiteRules.
From PV.Gen Require Import MacSites KdfSites.
Import ListNotations.
Local Open Scope string_scope.
Local Open Scope list_scope.

Theorem C06_pie_auth_input_is_the_sources : forall O : oracle,
  (forall wk h n c, pie_auth (v1_pie O) wk h n c = pie_mac (v1_pie O) wk n (catl (mac_paseto_v1_pie_wrap_1 h n c))) /\
  (forall wk h n c, pie_auth (v2_pie O) wk h n c = pie_mac (v2_pie O) wk n (catl (mac_paseto_v2_pie_wrap_0 h n c))) /\
  (forall wk h n c, pie_auth (v3_pie O) wk h n c = pie_mac (v3_pie O) wk n (catl (mac_paseto_v3_pie_wrap_1 h n c))) /\
  (forall wk h n c, pie_auth (lc_pie O) wk h n c = pie_mac (lc_pie O) wk n (catl (mac_paseto_v3_aws_lc_pie_wrap_1 h n c))) /\
  (forall wk h n c, pie_auth (v4_pie O) wk h n c = pie_mac (v4_pie O) wk n (catl (mac_paseto_v4_pie_wrap_0 h n c))) /\
  (forall wk h n c, pie_auth (na_pie O) wk h n c = pie_mac (na_pie O) wk n (catl (mac_paseto_v4_sodium_pie_wrap_0 h n c))).
Proof.
  intro O. exact (conj (v1_pie_auth_site O) (conj (v2_pie_auth_site O) (conj (v3_pie_auth_site O) (conj (lc_pie_auth_site O) (conj (v4_pie_auth_site O) (na_pie_auth_site O)))))).
Qed.

Theorem C06_pie_kdf_input_is_the_sources : forall O : oracle,
  (forall wk n, pieA_keys O wk n = (let t := hmac384 O wk (catl (mac_paseto_v1_pie_wrap_0 (hex "80") n)) in let ak := take 32 (hmac384 O wk (catl (mac_paseto_v1_pie_wrap_0 (hex "81") n))) in (take 32 t, drop 32 t, ak))) /\
  (forall wk n, pieB_keys O wk n = (let t := blake2b O 56 wk (catl (mac_paseto_v2_pie_wrap_1 (hex "80") n)) in let ak := blake2b O 32 wk (catl (mac_paseto_v2_pie_wrap_1 (hex "81") n)) in (take 32 t, drop 32 t, ak))) /\
  (forall wk n, pieA_keys O wk n = (let t := hmac384 O wk (catl (mac_paseto_v3_pie_wrap_0 (hex "80") n)) in let ak := take 32 (hmac384 O wk (catl (mac_paseto_v3_pie_wrap_0 (hex "81") n))) in (take 32 t, drop 32 t, ak))) /\
  (forall wk n, pieA_keys O wk n = (let t := hmac384 O wk (catl (mac_paseto_v3_aws_lc_pie_wrap_0 (hex "80") n)) in let ak := take 32 (hmac384 O wk (catl (mac_paseto_v3_aws_lc_pie_wrap_0 (hex "81") n))) in (take 32 t, drop 32 t, ak))).
Proof.
  intro O. exact (conj (v1_pie_kdf_site O) (conj (v2_pie_kdf_site O) (conj (v3_pie_kdf_site O) (lc_pie_kdf_site O)))).
Qed.

Theorem C06_pbkw_subkey_inputs_are_the_sources : forall O : oracle,
  (forall k, pw_ek (v1_pw O) k = take 32 (sha384 O (catl (mac_paseto_v1_pw_wrap_0 k (hex "ff")))) /\ pw_ak (v1_pw O) k = sha384 O (catl (mac_paseto_v1_pw_wrap_0 k (hex "fe")))) /\
  (forall k, pw_ek (v2_pw O) k = blake2b O 32 [] (catl (mac_paseto_v2_pw_wrap_0 k (hex "ff"))) /\ pw_ak (v2_pw O) k = blake2b O 32 [] (catl (mac_paseto_v2_pw_wrap_0 k (hex "fe")))) /\
  (forall k, pw_ek (v3_pw O) k = take 32 (sha384 O (catl (mac_paseto_v3_pw_wrap_0 k (hex "ff")))) /\ pw_ak (v3_pw O) k = sha384 O (catl (mac_paseto_v3_pw_wrap_0 k (hex "fe")))) /\
  (forall k, pw_ek (lc_pw O) k = take 32 (sha384 O (catl (mac_paseto_v3_aws_lc_pw_wrap_0 k (hex "ff")))) /\ pw_ak (lc_pw O) k = sha384 O (catl (mac_paseto_v3_aws_lc_pw_wrap_0 k (hex "fe")))) /\
  (forall k, pw_ek (v4_pw O) k = blake2b O 32 [] (catl (mac_paseto_v4_pw_wrap_0 k (hex "ff"))) /\ pw_ak (v4_pw O) k = blake2b O 32 [] (catl (mac_paseto_v4_pw_wrap_0 k (hex "fe")))) /\
  (forall k, pw_ek (na_pw O) k = blake2b O 32 [] (catl (mac_paseto_v4_sodium_pw_wrap_0 k (hex "ff"))) /\ pw_ak (na_pw O) k = blake2b O 32 [] (catl (mac_paseto_v4_sodium_pw_wrap_0 k (hex "fe")))).
Proof.
  intro O. exact (conj (v1_pw_subkeys_site O) (conj (v2_pw_subkeys_site O) (conj (v3_pw_subkeys_site O) (conj (lc_pw_subkeys_site O) (conj (v4_pw_subkeys_site O) (na_pw_subkeys_site O)))))).
Qed.

Theorem C06_pbkw_auth_input_is_the_sources : forall O : oracle,
  (forall header pass params key_data salt nonce, pw_wrap (v1_pw O) header pass params key_data salt nonce = (let prefix := salt ++ params ++ nonce in pre <- pw_prekey (v1_pw O) pass salt params ;; let c := xorl key_data (pw_ks (v1_pw O) (pw_ek (v1_pw O) pre) nonce (length key_data)) in Ok (prefix ++ c ++ pw_mac (v1_pw O) (pw_ak (v1_pw O) pre) (catl (mac_paseto_v1_pw_wrap_1 header prefix c))))) /\
  (forall header pass params key_data salt nonce, pw_wrap (v2_pw O) header pass params key_data salt nonce = (let prefix := salt ++ params ++ nonce in pre <- pw_prekey (v2_pw O) pass salt params ;; let c := xorl key_data (pw_ks (v2_pw O) (pw_ek (v2_pw O) pre) nonce (length key_data)) in Ok (prefix ++ c ++ pw_mac (v2_pw O) (pw_ak (v2_pw O) pre) (catl (mac_paseto_v2_pw_wrap_1 header prefix c))))) /\
  (forall header pass params key_data salt nonce, pw_wrap (v3_pw O) header pass params key_data salt nonce = (let prefix := salt ++ params ++ nonce in pre <- pw_prekey (v3_pw O) pass salt params ;; let c := xorl key_data (pw_ks (v3_pw O) (pw_ek (v3_pw O) pre) nonce (length key_data)) in Ok (prefix ++ c ++ pw_mac (v3_pw O) (pw_ak (v3_pw O) pre) (catl (mac_paseto_v3_pw_wrap_1 header prefix c))))) /\
  (forall header pass params key_data salt nonce, pw_wrap (lc_pw O) header pass params key_data salt nonce = (let prefix := salt ++ params ++ nonce in pre <- pw_prekey (lc_pw O) pass salt params ;; let c := xorl key_data (pw_ks (lc_pw O) (pw_ek (lc_pw O) pre) nonce (length key_data)) in Ok (prefix ++ c ++ pw_mac (lc_pw O) (pw_ak (lc_pw O) pre) (catl (mac_paseto_v3_aws_lc_pw_wrap_1 header prefix c))))) /\
  (forall header pass params key_data salt nonce, pw_wrap (v4_pw O) header pass params key_data salt nonce = (let prefix := salt ++ params ++ nonce in pre <- pw_prekey (v4_pw O) pass salt params ;; let c := xorl key_data (pw_ks (v4_pw O) (pw_ek (v4_pw O) pre) nonce (length key_data)) in Ok (prefix ++ c ++ pw_mac (v4_pw O) (pw_ak (v4_pw O) pre) (catl (mac_paseto_v4_pw_wrap_1 header prefix c))))) /\
  (forall header pass params key_data salt nonce, pw_wrap (na_pw O) header pass params key_data salt nonce = (let prefix := salt ++ params ++ nonce in pre <- pw_prekey (na_pw O) pass salt params ;; let c := xorl key_data (pw_ks (na_pw O) (pw_ek (na_pw O) pre) nonce (length key_data)) in Ok (prefix ++ c ++ pw_mac (na_pw O) (pw_ak (na_pw O) pre) (catl (mac_paseto_v4_sodium_pw_wrap_1 header prefix c))))).
Proof.
  intro O. exact (conj (v1_pw_auth_site O) (conj (v2_pw_auth_site O) (conj (v3_pw_auth_site O) (conj (lc_pw_auth_site O) (conj (v4_pw_auth_site O) (na_pw_auth_site O)))))).
Qed.

Theorem C06_pke_key_inputs_are_the_sources : forall O : oracle,
  (forall c r, v1_seal_keys O c r = (let k := sha384 O c in let e := hmac384 O k (catl (mac_paseto_v1_pke_0 r)) in let ak := hmac384 O k (catl (mac_paseto_v1_pke_1 r)) in (take 32 e, drop 32 e, ak)) /\ v1_seal_keys O c r = (let k := sha384 O c in let e := hmac384 O k (catl (mac_paseto_v1_pke_5 r)) in let ak := hmac384 O k (catl (mac_paseto_v1_pke_3 r)) in (take 32 e, drop 32 e, ak))) /\
  (forall xk epk xpk, x_seal_keys O (str "k2") xk epk xpk = (blake2b O 32 [] (catl (mac_paseto_v2_pke_0 xpk epk xk)), blake2b O 24 [] (catl (mac_paseto_v2_pke_1 xpk epk)), blake2b O 32 [] (catl (mac_paseto_v2_pke_2 xpk epk xk)))) /\
  (forall xk epk xpk, x_seal_keys O (str "k2") xk epk xpk = (blake2b O 32 [] (catl (mac_paseto_v2_pke_6 epk xpk xk)), blake2b O 24 [] (catl (mac_paseto_v2_pke_7 epk xpk)), blake2b O 32 [] (catl (mac_paseto_v2_pke_4 epk xpk xk)))) /\
  (forall xk epk pk, v3_seal_keys O xk epk pk = (let e := sha384 O (catl (mac_paseto_v3_pke_0 pk epk xk)) in let ak := sha384 O (catl (mac_paseto_v3_pke_1 pk epk xk)) in (take 32 e, drop 32 e, ak)) /\ v3_seal_keys O xk epk pk = (let e := sha384 O (catl (mac_paseto_v3_pke_5 epk pk xk)) in let ak := sha384 O (catl (mac_paseto_v3_pke_3 epk pk xk)) in (take 32 e, drop 32 e, ak))) /\
  (forall xk epk pk, v3_seal_keys O xk epk pk = (let e := sha384 O (catl (mac_paseto_v3_aws_lc_pke_0 xk epk pk)) in let ak := sha384 O (catl (mac_paseto_v3_aws_lc_pke_1 xk epk pk)) in (take 32 e, drop 32 e, ak))) /\
  (forall xk epk xpk, x_seal_keys O (str "k4") xk epk xpk = (blake2b O 32 [] (catl (mac_paseto_v4_pke_0 xpk epk xk)), blake2b O 24 [] (catl (mac_paseto_v4_pke_1 xpk epk)), blake2b O 32 [] (catl (mac_paseto_v4_pke_2 xpk epk xk)))) /\
  (forall xk epk xpk, x_seal_keys O (str "k4") xk epk xpk = (blake2b O 32 [] (catl (mac_paseto_v4_pke_6 epk xpk xk)), blake2b O 24 [] (catl (mac_paseto_v4_pke_7 epk xpk)), blake2b O 32 [] (catl (mac_paseto_v4_pke_4 epk xpk xk)))) /\
  (forall xk epk xpk, x_seal_keys O (str "k4") xk epk xpk = (blake2b O 32 [] (catl (mac_paseto_v4_sodium_pke_0 xpk epk xk)), blake2b O 24 [] (catl (mac_paseto_v4_sodium_pke_1 xpk epk)), blake2b O 32 [] (catl (mac_paseto_v4_sodium_pke_2 xpk epk xk)))) /\
  (forall xk epk xpk, x_seal_keys O (str "k4") xk epk xpk = (blake2b O 32 [] (catl (mac_paseto_v4_sodium_pke_6 epk xpk xk)), blake2b O 24 [] (catl (mac_paseto_v4_sodium_pke_7 epk xpk)), blake2b O 32 [] (catl (mac_paseto_v4_sodium_pke_4 epk xpk xk)))).
Proof.
  intro O. exact (conj (v1_pke_keys_site O) (conj (v2_pke_keys_site_seal O) (conj (v2_pke_keys_site_unseal O) (conj (v3_pke_keys_site O) (conj (lc_pke_keys_site O) (conj (v4_pke_keys_site_seal O) (conj (v4_pke_keys_site_unseal O) (conj (na_pke_keys_site_seal O) (na_pke_keys_site_unseal O))))))))).
Qed.

Theorem C06_pke_tag_input_is_the_sources : forall O : oracle,
  (forall c edk, str "k1.seal." ++ c ++ edk = catl (mac_paseto_v1_pke_2 c edk) /\ str "k1.seal." ++ c ++ edk = catl (mac_paseto_v1_pke_4 edk c)) /\
  (forall epk edk, str "k2" ++ str ".seal." ++ epk ++ edk = catl (mac_paseto_v2_pke_3 epk edk) /\ str "k2" ++ str ".seal." ++ epk ++ edk = catl (mac_paseto_v2_pke_5 epk edk)) /\
  (forall epk edk, str "k3.seal." ++ epk ++ edk = catl (mac_paseto_v3_pke_2 epk edk) /\ str "k3.seal." ++ epk ++ edk = catl (mac_paseto_v3_pke_4 epk edk)) /\
  (forall epk edk, str "k3.seal." ++ epk ++ edk = catl (mac_paseto_v3_aws_lc_pke_2 epk edk) /\ str "k3.seal." ++ epk ++ edk = catl (mac_paseto_v3_aws_lc_pke_3 epk edk)) /\
  (forall epk edk, str "k4" ++ str ".seal." ++ epk ++ edk = catl (mac_paseto_v4_pke_3 epk edk) /\ str "k4" ++ str ".seal." ++ epk ++ edk = catl (mac_paseto_v4_pke_5 epk edk)) /\
  (forall epk edk, str "k4" ++ str ".seal." ++ epk ++ edk = catl (mac_paseto_v4_sodium_pke_3 epk edk) /\ str "k4" ++ str ".seal." ++ epk ++ edk = catl (mac_paseto_v4_sodium_pke_5 epk edk)).
Proof.
  intro O. exact (conj v1_pke_tag_site (conj v2_pke_tag_site (conj v3_pke_tag_site (conj lc_pke_tag_site (conj v4_pke_tag_site na_pke_tag_site))))).
Qed.

Theorem C06_no_other_mac_site : map (fun r => (fst (fst (fst (fst r))), snd r)) gen_mac_sites = expected_mac_sites.
Proof. exact mac_sites_complete. Qed.

(* ---- the separator bytes of the PIE key derivation and of the PBKW sub-keys are the source's (Gen/KdfSites.v: the
        second argument of every `kdf(...)` call), and they are 0x80 / 0x81 and 0xff / 0xfe ---- *)
Theorem C06_pie_kdf_separators_are_the_sources : forall O : oracle, forall wk n,
  (pieA_keys O wk n = pieA_with O "paseto-v1/src/core/pie_wrap.rs" wk n /\
   pieA_keys O wk n = pieA_with O "paseto-v3/src/core/pie_wrap.rs" wk n /\
   pieA_keys O wk n = pieA_with O "paseto-v3-aws-lc/src/core/pie_wrap.rs" wk n) /\
  (pieB_keys O wk n = pieB_with O "paseto-v2/src/core/pie_wrap.rs" wk n /\
   pieB_keys O wk n = pieB_with O "paseto-v4/src/core/pie_wrap.rs" wk n /\
   pieB_keys O wk n = pieB_with O "paseto-v4-sodium/src/core/pie_wrap.rs" wk n).
Proof. intros O wk n. exact (conj (pieA_keys_labels O wk n) (pieB_keys_labels O wk n)). Qed.
Theorem C06_pbkw_subkey_separators_are_the_sources : forall O : oracle, forall k,
  ((pw_ek (v1_pw O) k, pw_ak (v1_pw O) k) = pwA_subkeys_with O "paseto-v1/src/core/pw_wrap.rs" k /\
   (pw_ek (v3_pw O) k, pw_ak (v3_pw O) k) = pwA_subkeys_with O "paseto-v3/src/core/pw_wrap.rs" k /\
   (pw_ek (lc_pw O) k, pw_ak (lc_pw O) k) = pwA_subkeys_with O "paseto-v3-aws-lc/src/core/pw_wrap.rs" k) /\
  ((pw_ek (v2_pw O) k, pw_ak (v2_pw O) k) = pwB_subkeys_with O "paseto-v2/src/core/pw_wrap.rs" k /\
   (pw_ek (v4_pw O) k, pw_ak (v4_pw O) k) = pwB_subkeys_with O "paseto-v4/src/core/pw_wrap.rs" k /\
   (pw_ek (na_pw O) k, pw_ak (na_pw O) k) = pwB_subkeys_with O "paseto-v4-sodium/src/core/pw_wrap.rs" k).
Proof. intros O k. exact (conj (pwA_subkeys_labels O k) (pwB_subkeys_labels O k)). Qed.
Theorem C06_separators_are_the_specs :
  (forall f, In f ["paseto-v1/src/core/pie_wrap.rs"; "paseto-v2/src/core/pie_wrap.rs"; "paseto-v3/src/core/pie_wrap.rs";
                   "paseto-v3-aws-lc/src/core/pie_wrap.rs"; "paseto-v4/src/core/pie_wrap.rs"; "paseto-v4-sodium/src/core/pie_wrap.rs"] ->
     kdf_label f 0 = hex "80" /\ kdf_label f 1 = hex "81") /\
  (forall f, In f ["paseto-v1/src/core/pw_wrap.rs"; "paseto-v2/src/core/pw_wrap.rs"; "paseto-v3/src/core/pw_wrap.rs";
                   "paseto-v3-aws-lc/src/core/pw_wrap.rs"; "paseto-v4/src/core/pw_wrap.rs"; "paseto-v4-sodium/src/core/pw_wrap.rs"] ->
     kdf_label f 0 = hex "ff" /\ kdf_label f 1 = hex "fe").
Proof.
  split; intros f [<-|[<-|[<-|[<-|[<-|[<-|[]]]]]]]; split; reflexivity.
Qed.

Print Assumptions C06_pie_auth_input_is_the_sources.
Print Assumptions C06_pie_kdf_input_is_the_sources.
Print Assumptions C06_pbkw_subkey_inputs_are_the_sources.
Print Assumptions C06_pbkw_auth_input_is_the_sources.
Print Assumptions C06_pke_key_inputs_are_the_sources.
Print Assumptions C06_pke_tag_input_is_the_sources.
Print Assumptions C06_no_other_mac_site.
Print Assumptions C06_pie_kdf_separators_are_the_sources.
Print Assumptions C06_pbkw_subkey_separators_are_the_sources.
Print Assumptions C06_separators_are_the_specs.
