(* C02 (second file) — the theorems that tie the model's authenticated input to the regenerated `pre_auth_encode` call
   sites.  Kept apart from C02.v so that no other property's files depend on Gen/PaeSites.v. *)
From Coq Require Import List String NArith.
From PV Require Import Bytes Result Pae Local Public PaeSiteRules.
From PV.Gen Require Import PaeSites.
Import ListNotations.
Local Open Scope string_scope.
Local Open Scope list_scope.

(* ---- the authenticated input of the theorems of C02.v IS what the source passes to pre_auth_encode: Gen/PaeSites.v is
        regenerated from /repo's `pre_auth_encode([...])` call sites on every run (one function per site, from the fn's
        byte-string parameters to the pieces), and each equals the model's input by computation ---- *)
Theorem C02_local_authenticated_input_is_the_sources :
  (forall enc n c f, pae (site_paseto_v1_local_0 enc n c f) = v1_pre enc n c f) /\
  (forall enc n f, pae (site_paseto_v2_local_0 enc n f) = v2_pre enc n f) /\
  (forall enc n c f a, pae (site_paseto_v3_local_0 enc n c f a) = v3_pre enc n c f a) /\
  (forall enc n c f a, pae (site_paseto_v3_aws_lc_local_0 enc n c f a) = v3_pre enc n c f a) /\
  (forall enc n c f a, pae (site_paseto_v4_local_0 enc n c f a) = v4_pre enc n c f a) /\
  (forall enc n c f a, pae (site_paseto_v4_sodium_local_0 enc n c f a) = v4_pre enc n c f a).
Proof.
  exact (conj site_v1_local (conj site_v2_local (conj site_v3_local (conj site_v3_awslc_local (conj site_v4_local site_v4_sodium_local))))).
Qed.
Theorem C02_public_signed_input_is_the_sources :
  (forall enc m f, pae (site_paseto_v1_public_0 enc m f) = v1_ppre enc m f) /\
  (forall enc m f, pae (site_paseto_v2_public_0 enc m f) = v2_ppre enc m f) /\
  (forall enc m f, pae (site_paseto_v2_public_1 enc m f) = v2_ppre enc m f) /\
  (forall pk enc m f a, pae (site_paseto_v3_public_0 pk enc m f a) = v3_ppre pk enc m f a) /\
  (forall pk enc m f a, pae (site_paseto_v3_aws_lc_public_0 pk enc m f a) = v3_ppre pk enc m f a) /\
  (forall enc m f a, pae (site_paseto_v4_public_0 enc m f a) = v4_ppre enc m f a) /\
  (forall enc m f a, pae (site_paseto_v4_public_1 enc m f a) = v4_ppre enc m f a) /\
  (forall enc m f a, pae (site_paseto_v4_sodium_public_0 enc m f a) = v4_ppre enc m f a).
Proof.
  exact (conj site_v1_public (conj site_v2_public_verify (conj site_v2_public_sign (conj site_v3_public
        (conj site_v3_awslc_public (conj site_v4_public_verify (conj site_v4_public_sign site_v4_sodium_public))))))).
Qed.
Theorem C02_no_other_pae_site :
  map (fun r => fst (fst r)) gen_pae_sites = expected_pae_site_files /\
  map (fun r => (fst (fst (fst r)), snd (fst r), snd r)) gen_pae_rebinds = [ ("paseto-v3/src/core/public.rs", 0%N, "#.to_encoded_point(true)") ].
Proof. exact (conj pae_sites_complete pae_rebinds_known). Qed.

Print Assumptions C02_local_authenticated_input_is_the_sources.
Print Assumptions C02_public_signed_input_is_the_sources.
Print Assumptions C02_no_other_pae_site.
