(* C17 — Shared keys behave the same under concurrent use and after failed operations. *)
From Coq Require Import String List.
From PV Require Import Concurrency ConcurrencyProofs.
From PV.Gen Require Import Sharing.
Import ListNotations.

(* no operation, failing or not, alters the key *)
Theorem C17_frame : forall (Key Op Out : Type) (eval : Key -> Op -> Out) k o, fst (step eval k o) = k.
Proof. exact @frame. Qed.
Theorem C17_history_frame : forall (Key Op Out : Type) (eval : Key -> Op -> Out) k ops, fst (run eval k ops) = k.
Proof. exact @run_frame. Qed.

(* after ANY history of failing and succeeding operations an operation gives the result it gives on a fresh copy *)
Theorem C17_history_independent : forall (Key Op Out : Type) (eval : Key -> Op -> Out) k h o,
  last (snd (run eval k (h ++ [o]))) (eval k o) = eval k o /\
  snd (run eval (fst (run eval k h)) [o]) = [eval k o].
Proof. exact @history_independent. Qed.

(* every interleaving of per-thread operation lists: each operation gets the result of running it alone, and
   each thread sees exactly its own operations, in order, with the results of its sequential run *)
Theorem C17_interleaving_equivalent : forall (Key Op Out : Type) (eval : Key -> Op -> Out) (ts : list (list Op)) (l : list (nat * Op)) k,
  interleave ts l -> snd (run eval k (map snd l)) = map (fun io => eval k (snd io)) l.
Proof. exact @interleaving_equivalent. Qed.
Theorem C17_thread_view_is_sequential : forall (Key Op Out : Type) (eval : Key -> Op -> Out) (ts : list (list Op)) (l : list (nat * Op)) k i,
  interleave ts l ->
  map (fun io => eval k (snd io)) (filter (fun io => Nat.eqb (fst io) i) l)
  = snd (run eval k (map snd (filter (fun io => Nat.eqb (fst io) i) l))).
Proof. exact @thread_view_is_sequential. Qed.
Theorem C17_interleaving_projects_to_threads : forall (Op : Type) (ts : list (list Op)) (l : list (nat * Op)) i,
  interleave ts l -> i < length ts -> map snd (filter (fun io => Nat.eqb (fst io) i) l) = nth i ts [].
Proof. exact @interleave_projects. Qed.

(* ... the statement in which the schedule matters: under ANY interleaving of the threads' lists, thread i is
   handed exactly the outputs of the sequential run of its own list.  (The model's [step] returns the key
   unchanged BY DEFINITION — Rust's `&self` methods over data without interior mutability; that the code has
   that shape is the inventory theorem below, regenerated from the source, and the stress runs.) *)
Theorem C17_each_thread_sees_its_sequential_run :
  forall (Key Op Out : Type) (eval : Key -> Op -> Out) (ts : list (list Op)) (l : list (nat * Op)) k i,
  interleave ts l -> i < length ts ->
  map snd (filter (fun r => Nat.eqb (fst r) i) (tagged_outputs eval k l)) = snd (run eval k (nth i ts [])).
Proof. exact @each_thread_sees_its_sequential_run. Qed.

(* the code has no shared mutable component: obligation over the inventory regenerated from /repo *)
Theorem C17_no_shared_mutable_state : sharing_ok = true.
Proof. exact sharing_inventory_ok. Qed.

Print Assumptions C17_frame.
Print Assumptions C17_history_frame.
Print Assumptions C17_history_independent.
Print Assumptions C17_interleaving_equivalent.
Print Assumptions C17_thread_view_is_sequential.
Print Assumptions C17_interleaving_projects_to_threads.
Print Assumptions C17_each_thread_sees_its_sequential_run.
Print Assumptions C17_no_shared_mutable_state.
