(* C15 (second file) — "streaming writers receive exactly the same byte sequence as a buffer would", for the writers that
   exist in the source: Gen/Writers.v is regenerated from every `impl WriteBytes for T` on each run.  Kept apart from C15.v
   so that no other property's files depend on Gen/Writers.v. *)
From Coq Require Import List String Bool.
From PV Require Import Bytes Pae WriterRules.
From PV.Gen Require Import Writers.
Import ListNotations.
Local Open Scope string_scope.
Local Open Scope list_scope.

Theorem C15_every_writer_receives_the_encoding : forall r, In r gen_writers ->
  forall pieces, run_writer (snd r) [] (pae_writes pieces) = Some (pae pieces).
Proof. exact writers_receive_the_encoding. Qed.

Theorem C15_writer_shapes_are_forwarding : forallb (fun r => forwarding (snd r)) gen_writers = true.
Proof. exact all_writers_forward. Qed.

Theorem C15_other_writer_shape_is_refused : forall shape received w rest, forwarding shape = false ->
  run_writer shape received (w :: rest) = None.
Proof. exact other_shape_is_refused. Qed.

Print Assumptions C15_every_writer_receives_the_encoding.
Print Assumptions C15_writer_shapes_are_forwarding.
Print Assumptions C15_other_writer_shape_is_refused.
