(* C15 — Pre-authentication encoding is exactly the spec's PAE and is injective.
   Only statements, [exact], [Check] pins and [Print Assumptions] live here. *)
From PV Require Import Bytes Pae PaeProofs.

(* (a) the encoder equals the specification's closed form on the concatenated fragments *)
Theorem C15_closed_form :
  forall ps : list piece,
    pae ps = le64 (N.of_nat (length ps))
             ++ flat_map (fun p => le64 (N.of_nat (length p)) ++ p) (map (@concat byte) ps).
Proof. exact pae_closed_form. Qed.

(* (b) distinct piece lists encode differently (lengths below 2^64 = the [as u64] of the source) *)
Theorem C15_injective :
  forall ps qs : list bytes,
    pieces_ok ps -> pieces_ok qs -> pae_spec ps = pae_spec qs -> ps = qs.
Proof. exact pae_spec_injective. Qed.

Theorem C15_injective_fragmented :
  forall ps qs : list piece,
    pieces_ok (map (@concat byte) ps) -> pieces_ok (map (@concat byte) qs) ->
    pae ps = pae qs -> map (@concat byte) ps = map (@concat byte) qs.
Proof. exact pae_injective. Qed.

(* (c) prefix-free: an encoding followed by anything determines the pieces *)
Theorem C15_prefix_free :
  forall ps qs r1 r2,
    pieces_ok ps -> pieces_ok qs ->
    pae_spec ps ++ r1 = pae_spec qs ++ r2 -> ps = qs /\ r1 = r2.
Proof. exact pae_spec_prefix_free. Qed.

(* (d) bytes cannot be shifted across a piece boundary *)
Theorem C15_no_boundary_shift :
  forall pre a b a' b' post,
    pieces_ok (pre ++ a :: b :: post) -> pieces_ok (pre ++ a' :: b' :: post) ->
    a <> a' ->
    pae_spec (pre ++ a :: b :: post) <> pae_spec (pre ++ a' :: b' :: post).
Proof. exact pae_shift. Qed.

(* (e) a streaming writer receives exactly the bytes a buffer would *)
Theorem C15_streaming :
  forall ps st, fold_left (fun acc w => acc ++ w) (pae_writes ps) st = st ++ pae ps.
Proof. exact pae_streaming. Qed.

Check C15_closed_form.
Check C15_injective : forall ps qs : list bytes,
    pieces_ok ps -> pieces_ok qs -> pae_spec ps = pae_spec qs -> ps = qs.
Print Assumptions C15_closed_form.
Print Assumptions C15_injective.
Print Assumptions C15_injective_fragmented.
Print Assumptions C15_prefix_free.
Print Assumptions C15_no_boundary_shift.
Print Assumptions C15_streaming.
