(* C02 — Unsealing accepts only the exact bytes, footer, assertion and key as sealed.
   Acceptance characterisations (iff) for every backend, and their corollaries.  "Accepted although
   modified" is never assumed impossible: the theorems hand over the explicit collision / forgery. *)
From PV Require Import Bytes Result Pae PaeProofs Oracle Local Public LocalProofs PublicProofs TamperProofs Base64 Text TextProofs.
Local Open Scope string_scope.
Local Open Scope list_scope.

(* ---- every MAC-then-XOR backend's unseal IS the generic unseal at its parameters ---- *)
Theorem C02_v1_is_generic : forall O key enc p f a, v1_local_unseal O key enc p f a = lg_unseal (v1_params O) key enc p f a.
Proof. exact v1_unseal_inst. Qed.
Theorem C02_v3_is_generic : forall O key enc p f a, v3_local_unseal O key enc p f a = lg_unseal (v3_params O) key enc p f a.
Proof. exact v3_unseal_inst. Qed.
Theorem C02_v3_awslc_is_generic : forall O key enc p f a, lc_local_unseal O key enc p f a = lg_unseal (lc_params O) key enc p f a.
Proof. exact lc_unseal_inst. Qed.
Theorem C02_v4_is_generic : forall O key enc p f a, v4_local_unseal O key enc p f a = lg_unseal (v4_params O) key enc p f a.
Proof. exact v4_unseal_inst. Qed.
Theorem C02_v4_sodium_is_generic : forall O key enc p f a, na_local_unseal O key enc p f a = lg_unseal (na_params O) key enc p f a.
Proof. exact na_unseal_inst. Qed.

(* ---- acceptance characterisation: accepted iff payload = nonce || c || tag with tag = MAC(everything else) ---- *)
Theorem C02_local_accept_iff : forall (P : lparams) key enc p f a m,
  lg_unseal P key enc p f a = Ok m <->
  aad_ok P a /\ exists n c t, p = n ++ c ++ t /\ length n = 32 /\ length t = lp_tlen P /\
                              lp_tag P key enc n c f a = t /\ m = xorl c (lp_ks P key n (length c)).
Proof. exact lg_accept_iff. Qed.

Theorem C02_v2_accept_iff : forall O key enc p f a m,
  v2_local_unseal O key enc p f a = Ok m <->
  a = [] /\ exists n c t, p = n ++ c ++ t /\ length n = 24 /\ length t = 16 /\
                          xcp_open O key n (v2_pre enc n f) c t = Some m.
Proof. exact v2_accept_iff. Qed.

(* any other tag on the same nonce and ciphertext: rejected, unconditionally (covers every bit of the tag) *)
Theorem C02_tag_tamper : forall (P : lparams) key enc n c t t' f a,
  length n = 32 -> length t = lp_tlen P -> length t' = lp_tlen P -> aad_ok P a ->
  lg_unseal P key enc (n ++ c ++ t) f a = Ok (xorl c (lp_ks P key n (length c))) ->
  t' <> t -> lg_unseal P key enc (n ++ c ++ t') f a = Err CryptoError.
Proof. exact lg_tag_tamper. Qed.

(* truncation below nonce + tag: always the format error *)
Theorem C02_local_short : forall (P : lparams) key enc p f a,
  aad_ok P a -> length p < 32 + lp_tlen P -> lg_unseal P key enc p f a = Err InvalidToken.
Proof. exact lg_short. Qed.
Theorem C02_v2_short : forall O key enc p f, length p < 40 -> v2_local_unseal O key enc p f [] = Err InvalidToken.
Proof. exact v2_short. Qed.

(* v1 / v2 refuse a non-empty assertion instead of ignoring it *)
Theorem C02_local_assertion_refused : forall (P : lparams) key enc p f a,
  lp_aad P = false -> a <> [] -> lg_unseal P key enc p f a = Err ClaimsError.
Proof. exact lg_aad_refused. Qed.
Theorem C02_v2_assertion_refused : forall O key enc p f a, a <> [] -> v2_local_unseal O key enc p f a = Err ClaimsError.
Proof. exact v2_aad_refused. Qed.
Theorem C02_public_assertion_refused : forall (P : pparams) pk enc p f a,
  pp_aad P = false -> a <> [] -> pg_unseal P pk enc p f a = Err ClaimsError.
Proof. exact pg_aad_refused. Qed.

(* any accepted change of key, suffix, nonce, ciphertext, footer or assertion under an unchanged tag is
   an explicit tag collision on two different authenticated tuples *)
Theorem C02_forgery_is_collision : forall (P : lparams) key enc n c t f a key' enc' n' c' f' a' m',
  length n = 32 -> length n' = 32 -> length t = lp_tlen P -> aad_ok P a -> aad_ok P a' ->
  lp_tag P key enc n c f a = t ->
  lg_unseal P key' enc' (n' ++ c' ++ t) f' a' = Ok m' ->
  (key', enc', n', c', f', a') <> (key, enc, n, c, f, a) ->
  lp_tag P key' enc' n' c' f' a' = lp_tag P key enc n c f a /\
  (key', enc', n', c', f', a') <> (key, enc, n, c, f, a).
Proof. exact lg_forgery_is_collision. Qed.

(* ... and the MAC input determines every field: bytes cannot move between suffix, nonce, ciphertext,
   footer and assertion (boundary shifts, add/remove footer or assertion) without changing the MAC input *)
Theorem C02_v3_mac_input_injective : forall enc n c f a enc' n' c' f' a',
  small (str "v3" ++ enc ++ str ".local.") -> small n -> small c -> small f -> small a ->
  small (str "v3" ++ enc' ++ str ".local.") -> small n' -> small c' -> small f' -> small a' ->
  v3_pre enc n c f a = v3_pre enc' n' c' f' a' -> (enc, n, c, f, a) = (enc', n', c', f', a').
Proof. exact v3_pre_injective. Qed.
Theorem C02_v4_mac_input_injective : forall enc n c f a enc' n' c' f' a',
  small (str "v4" ++ enc ++ str ".local.") -> small n -> small c -> small f -> small a ->
  small (str "v4" ++ enc' ++ str ".local.") -> small n' -> small c' -> small f' -> small a' ->
  v4_pre enc n c f a = v4_pre enc' n' c' f' a' -> (enc, n, c, f, a) = (enc', n', c', f', a').
Proof. exact v4_pre_injective. Qed.
Theorem C02_v1_mac_input_injective : forall enc n c f enc' n' c' f',
  small (str "v1" ++ enc ++ str ".local.") -> small n -> small c -> small f ->
  small (str "v1" ++ enc' ++ str ".local.") -> small n' -> small c' -> small f' ->
  v1_pre enc n c f = v1_pre enc' n' c' f' -> (enc, n, c, f) = (enc', n', c', f').
Proof. exact v1_pre_injective. Qed.
Theorem C02_v2_aead_aad_injective : forall enc n f enc' n' f',
  small (str "v2" ++ enc ++ str ".local.") -> small n -> small f ->
  small (str "v2" ++ enc' ++ str ".local.") -> small n' -> small f' ->
  v2_pre enc n f = v2_pre enc' n' f' -> (enc, n, f) = (enc', n', f').
Proof. exact v2_pre_injective. Qed.
(* header relabel: the version string is part of the authenticated header fragment *)
Theorem C02_version_separated : forall (v v' enc enc' pur pur' : bytes),
  length v = 2 -> length v' = 2 -> v <> v' -> v ++ enc ++ pur <> v' ++ enc' ++ pur'.
Proof. exact version_separated. Qed.

(* ---- public tokens ---- *)
Theorem C02_v1_public_is_generic : forall O pk enc p f a, v1_public_unseal O pk enc p f a = pg_unseal (v1_pparams O) pk enc p f a.
Proof. exact v1_punseal_inst. Qed.
Theorem C02_v2_public_is_generic : forall O pk enc p f a, v2_public_unseal O pk enc p f a = pg_unseal (v2_pparams O) pk enc p f a.
Proof. exact v2_punseal_inst. Qed.
Theorem C02_v3_public_is_generic : forall O pk enc p f a, v3_public_unseal O pk enc p f a = pg_unseal (v3_pparams O) pk enc p f a.
Proof. exact v3_punseal_inst. Qed.
Theorem C02_v3_awslc_public_is_generic : forall O pk enc p f a, lc_public_unseal O pk enc p f a = pg_unseal (lc_pparams O) pk enc p f a.
Proof. exact lc_punseal_inst. Qed.
Theorem C02_v4_public_is_generic : forall O pk enc p f a, v4_public_unseal O pk enc p f a = pg_unseal (v4_pparams O) pk enc p f a.
Proof. exact v4_punseal_inst. Qed.
Theorem C02_v4_sodium_public_is_generic : forall O pk enc p f a, na_public_unseal O pk enc p f a = pg_unseal (na_pparams O) pk enc p f a.
Proof. exact na_punseal_inst. Qed.

Theorem C02_public_accept_iff : forall (P : pparams) pk enc p f a m,
  pg_unseal P pk enc p f a = Ok m <->
  paad_ok P a /\ exists sig, p = m ++ sig /\ length sig = pp_slen P /\
                             pp_check P pk (pp_pre P pk enc m f a) sig = Ok tt.
Proof. exact pg_accept_iff. Qed.

Theorem C02_public_short : forall (P : pparams) pk enc p f a,
  paad_ok P a -> length p < pp_slen P -> pg_unseal P pk enc p f a = Err InvalidToken.
Proof. exact pg_short. Qed.

(* acceptance of anything but the signed tuple is a signature that checks on a (message, signature) pair
   never produced — the strong-forgery event, exhibited *)
Theorem C02_public_forgery_event : forall (P : pparams) pk enc m sig f a pk' enc' p' f' a' m',
  length sig = pp_slen P ->
  pg_unseal P pk' enc' p' f' a' = Ok m' ->
  (pk', enc', p', f', a') <> (pk, enc, m ++ sig, f, a) ->
  exists sig', p' = m' ++ sig' /\ pp_check P pk' (pp_pre P pk' enc' m' f' a') sig' = Ok tt /\
               (pk', enc', m', f', a', sig') <> (pk, enc, m, f, a, sig).
Proof. exact pg_forgery_event. Qed.

Theorem C02_v4_signed_input_injective : forall enc m f a enc' m' f' a',
  small (str "v4" ++ enc ++ str ".public.") -> small m -> small f -> small a ->
  small (str "v4" ++ enc' ++ str ".public.") -> small m' -> small f' -> small a' ->
  v4_ppre enc m f a = v4_ppre enc' m' f' a' -> (enc, m, f, a) = (enc', m', f', a').
Proof. exact v4_ppre_injective. Qed.
Theorem C02_v3_signed_input_injective : forall pk enc m f a pk' enc' m' f' a',
  small pk -> small (str "v3" ++ enc ++ str ".public.") -> small m -> small f -> small a ->
  small pk' -> small (str "v3" ++ enc' ++ str ".public.") -> small m' -> small f' -> small a' ->
  v3_ppre pk enc m f a = v3_ppre pk' enc' m' f' a' -> (pk, enc, m, f, a) = (pk', enc', m', f', a').
Proof. exact v3_ppre_injective. Qed.
Theorem C02_v2_signed_input_injective : forall enc m f enc' m' f',
  small (str "v2" ++ enc ++ str ".public.") -> small m -> small f ->
  small (str "v2" ++ enc' ++ str ".public.") -> small m' -> small f' ->
  v2_ppre enc m f = v2_ppre enc' m' f' -> (enc, m, f) = (enc', m', f').
Proof. exact v2_ppre_injective. Qed.
Theorem C02_v1_signed_input_injective : forall enc m f enc' m' f',
  small (str "v1" ++ enc ++ str ".public.") -> small m -> small f ->
  small (str "v1" ++ enc' ++ str ".public.") -> small m' -> small f' ->
  v1_ppre enc m f = v1_ppre enc' m' f' -> (enc, m, f) = (enc', m', f').
Proof. exact v1_ppre_injective. Qed.

(* v2.local (AEAD): any other tag on the same nonce and ciphertext is refused — the only premise is the AEAD
   fact that at most one tag opens a given (key, nonce, associated data, ciphertext) *)
Theorem C02_v2_tag_tamper : forall O, laws O -> forall key enc n c t t' f m,
  length n = 24 -> length t = 16 -> length t' = 16 ->
  v2_local_unseal O key enc (n ++ c ++ t) f [] = Ok m -> t' <> t ->
  v2_local_unseal O key enc (n ++ c ++ t') f [] = Err CryptoError.
Proof. exact v2_tag_tamper. Qed.

(* ---- text level ("truncating or extending the token"): a token text that was extended, truncated or changed in
        place either does not parse or carries other payload / footer bytes — to which the byte-level theorems above
        apply.  The single exception, stated: one dot after a footer-less token is the same token. ---- *)
Theorem C02_text_extension_changes_token :
  forall (F : Type) (fdec : bytes -> option F) (hdr sfx pur s x : bytes) (t t' : token) (v v' : F),
    parse_token fdec hdr sfx pur s = Ok (t, v) ->
    parse_token fdec hdr sfx pur (s ++ x) = Ok (t', v') ->
    x <> [] -> x <> [dot] -> t' <> t.
Proof. intros F fdec hdr sfx pur s x t t' v v'. exact (@token_text_extension_changes_token F fdec hdr sfx pur s x t v t' v'). Qed.
Theorem C02_text_truncation_changes_token :
  forall (F : Type) (fdec : bytes -> option F) (hdr sfx pur s x : bytes) (t t' : token) (v v' : F),
    parse_token fdec hdr sfx pur (s ++ x) = Ok (t, v) ->
    parse_token fdec hdr sfx pur s = Ok (t', v') ->
    x <> [] -> x <> [dot] -> t' <> t.
Proof.
  intros F fdec hdr sfx pur s x t t' v v' H1 H2 Hx Hd E.
  exact (@token_text_extension_changes_token F fdec hdr sfx pur s x t' v' t v H2 H1 Hx Hd (eq_sym E)).
Qed.
Theorem C02_text_substitution_changes_token :
  forall (F : Type) (fdec : bytes -> option F) (hdr sfx pur s1 s2 : bytes) (t t' : token) (v v' : F),
    parse_token fdec hdr sfx pur s1 = Ok (t, v) ->
    parse_token fdec hdr sfx pur s2 = Ok (t', v') ->
    length s1 = length s2 -> s1 <> s2 -> t' <> t.
Proof. intros F fdec hdr sfx pur s1 s2 t t' v v'. exact (@token_text_same_length_changes_token F fdec hdr sfx pur s1 s2 t v t' v'). Qed.

Print Assumptions C02_text_extension_changes_token.
Print Assumptions C02_text_truncation_changes_token.
Print Assumptions C02_text_substitution_changes_token.
Print Assumptions C02_v2_tag_tamper.
Print Assumptions C02_v1_is_generic.
Print Assumptions C02_v3_is_generic.
Print Assumptions C02_v3_awslc_is_generic.
Print Assumptions C02_v4_is_generic.
Print Assumptions C02_v4_sodium_is_generic.
Print Assumptions C02_local_accept_iff.
Print Assumptions C02_v2_accept_iff.
Print Assumptions C02_tag_tamper.
Print Assumptions C02_local_short.
Print Assumptions C02_v2_short.
Print Assumptions C02_local_assertion_refused.
Print Assumptions C02_v2_assertion_refused.
Print Assumptions C02_public_assertion_refused.
Print Assumptions C02_forgery_is_collision.
Print Assumptions C02_v3_mac_input_injective.
Print Assumptions C02_v4_mac_input_injective.
Print Assumptions C02_v1_mac_input_injective.
Print Assumptions C02_v2_aead_aad_injective.
Print Assumptions C02_version_separated.
Print Assumptions C02_v1_public_is_generic.
Print Assumptions C02_v2_public_is_generic.
Print Assumptions C02_v3_public_is_generic.
Print Assumptions C02_v3_awslc_public_is_generic.
Print Assumptions C02_v4_public_is_generic.
Print Assumptions C02_v4_sodium_public_is_generic.
Print Assumptions C02_public_accept_iff.
Print Assumptions C02_public_short.
Print Assumptions C02_public_forgery_event.
Print Assumptions C02_v4_signed_input_injective.
Print Assumptions C02_v3_signed_input_injective.
Print Assumptions C02_v2_signed_input_injective.
Print Assumptions C02_v1_signed_input_injective.
