(* C08 — Keys survive serialisation unchanged; secret keys derive the matching public key; wrong lengths,
   invalid points and out-of-range scalars are rejected.  Models: Keys.v (each backend's HasKey impls). *)
From PV Require Import Bytes Result Oracle Keys KeysProofs KeysProofs2 ToyOracle.
Local Open Scope list_scope.

(* local keys: exactly the 32-byte strings, unchanged *)
Theorem C08_local_exact : forall bs k, decode_local bs = Ok k <-> length bs = 32 /\ k = bs.
Proof. exact local_decode_iff. Qed.
Theorem C08_local_wrong_length : forall bs, length bs <> 32 -> decode_local bs = Err InvalidKey.
Proof. exact local_wrong_length. Qed.

(* Ed25519 (v2 / v4): public = 32 bytes, a curve point, not the neutral element *)
Theorem C08_ed_public_exact : forall O bs k,
  dalek_decode_public O bs = Ok k <-> length bs = 32 /\ ed_pk_ok O bs = true /\ ed_pk_weak bs = false /\ k = bs.
Proof. exact dalek_public_decode_iff. Qed.

(* secret = seed || public key of that seed, 64 bytes; round trip, canonical, idempotent *)
Theorem C08_ed_secret_roundtrip : forall O, laws O -> (forall sd, ed_pk_weak (ed_pk O sd) = false) ->
  forall seed, length seed = 32 -> dalek_decode_secret O (dalek_encode_secret O seed) = Ok seed.
Proof. exact dalek_secret_roundtrip. Qed.
Theorem C08_ed_secret_canonical : forall O bs seed,
  dalek_decode_secret O bs = Ok seed -> length seed = 32 /\ bs = dalek_encode_secret O seed /\ length bs = 64.
Proof. exact dalek_secret_decode_canonical. Qed.
Theorem C08_ed_secret_wrong_length : forall O bs, length bs <> 64 -> exists e, dalek_decode_secret O bs = Err e.
Proof. exact dalek_secret_wrong_length. Qed.
Theorem C08_ed_public_is_public_half : forall O seed,
  length seed = 32 -> dalek_public_of O seed = drop 32 (dalek_encode_secret O seed).
Proof. exact dalek_public_is_public_half. Qed.
Theorem C08_ed_public_verifies : forall O, laws O -> forall seed m,
  ed_verify O (dalek_public_of O seed) m (ed_sign O seed m) = true.
Proof. exact dalek_public_verifies. Qed.

(* libsodium: a secret key is accepted iff its public half is the seed's public key; hence public_key()
   verifies everything the key signs (the defect repaired by the sodium secret-key fix) *)
Theorem C08_sodium_secret_exact : forall O bs sk,
  na_decode_secret O bs = Ok sk <-> length bs = 64 /\ drop 32 bs = ed_pk O (take 32 bs) /\ sk = bs.
Proof. exact na_secret_decode_iff. Qed.
Theorem C08_sodium_secret_roundtrip : forall O, laws O -> forall seed,
  length seed = 32 -> na_decode_secret O (seed ++ ed_pk O seed) = Ok (seed ++ ed_pk O seed).
Proof. exact na_secret_roundtrip. Qed.
Theorem C08_sodium_public_verifies : forall O, laws O -> forall bs sk m,
  na_decode_secret O bs = Ok sk -> ed_verify_strict O (na_public_of sk) m (ed_sign O (take 32 sk) m) = true.
Proof. exact na_public_verifies. Qed.
Theorem C08_sodium_public_exact : forall bs k,
  na_decode_public bs = Ok k <-> length bs = 32 /\ na_point_valid bs = true /\ k = bs.
Proof. exact na_public_decode_iff. Qed.

(* P-384: 48-byte scalars in [1, n-1]; 49-byte compressed points, canonical and idempotent *)
Theorem C08_v3_secret_exact : forall O bs sk,
  v3_decode_secret O bs = Ok sk <-> length bs = 48 /\ p384_pk O bs <> None /\ sk = bs.
Proof. exact v3_secret_decode_iff. Qed.
Theorem C08_v3_public_canonical : forall O, laws O ->
  (forall bs pk, p384_parse O bs = Some pk -> compressed_tag pk = true) -> forall bs pk,
  v3_decode_public O bs = Ok pk -> length bs = 49 /\ length pk = 49 /\ v3_decode_public O pk = Ok pk.
Proof. exact v3_public_decode_canonical. Qed.
Theorem C08_v3_public_wrong_length : forall O bs, length bs <> 49 -> v3_decode_public O bs = Err InvalidKey.
Proof. exact v3_public_wrong_length. Qed.
Theorem C08_v3_awslc_public_wrong_length : forall O bs, length bs <> 49 -> lc_decode_public O bs = Err InvalidKey.
Proof. exact lc_public_wrong_length. Qed.
Theorem C08_v3_public_of_secret : forall O, laws O ->
  (forall sk pk, p384_pk O sk = Some pk -> compressed_tag pk = true) -> forall bs sk,
  v3_decode_secret O bs = Ok sk -> exists pk, v3_public_of O sk = Ok pk /\ v3_decode_public O pk = Ok pk.
Proof. exact v3_public_of_secret. Qed.
Theorem C08_v3_backends_agree_on_public_keys : forall O bs, lc_decode_public O bs = v3_decode_public O bs.
Proof. exact lc_v3_public_agree. Qed.
Theorem C08_v3_backends_agree_on_secret_keys : forall O bs sk,
  lc_decode_secret O bs = Ok sk <-> v3_decode_secret O bs = Ok sk.
Proof. exact lc_v3_secret_agree. Qed.
(* aws-lc's scalar encoder (minimal BN_bn2bin written at offset 48 - len) is the identity on 48 bytes:
   small scalars keep their leading zeros *)
Theorem C08_v3_awslc_scalar_encoding : forall sk, length sk = 48 -> lc_encode_secret sk = Ok sk.
Proof. exact lc_encode_is_identity. Qed.

(* ---- all backends but v1 at once: an accepted key re-encodes, and the encoding parses back to the same key
        object (bytes and PASERK text): serialise -> parse is the identity on accepted keys ---- *)
Theorem C08_reparse : forall O, laws O ->
  (forall sd, ed_pk_weak (ed_pk O sd) = false) ->
  (forall bs pk, p384_parse O bs = Some pk -> compressed_tag pk = true) ->
  forall b k bs0 obj, b <> B1 -> key_decode O b k bs0 = Ok obj ->
  exists bs, key_encode O b k obj = Ok bs /\ key_decode O b k bs = Ok obj.
Proof. exact key_reparse. Qed.
Theorem C08_text_roundtrip : forall O, laws O ->
  (forall sd, ed_pk_weak (ed_pk O sd) = false) ->
  (forall bs pk, p384_parse O bs = Some pk -> compressed_tag pk = true) ->
  forall b k bs0 obj, b <> B1 -> key_decode O b k bs0 = Ok obj ->
  exists text, key_to_text O b k obj = Ok text /\ key_from_str O b k text = Ok obj.
Proof. exact key_text_roundtrip. Qed.

Print Assumptions C08_local_exact.
Print Assumptions C08_local_wrong_length.
Print Assumptions C08_ed_public_exact.
Print Assumptions C08_ed_secret_roundtrip.
Print Assumptions C08_ed_secret_canonical.
Print Assumptions C08_ed_secret_wrong_length.
Print Assumptions C08_ed_public_is_public_half.
Print Assumptions C08_ed_public_verifies.
Print Assumptions C08_sodium_secret_exact.
Print Assumptions C08_sodium_secret_roundtrip.
Print Assumptions C08_sodium_public_verifies.
Print Assumptions C08_sodium_public_exact.
Print Assumptions C08_v3_secret_exact.
Print Assumptions C08_v3_public_canonical.
Print Assumptions C08_v3_public_wrong_length.
Print Assumptions C08_v3_awslc_public_wrong_length.
Print Assumptions C08_v3_public_of_secret.
Print Assumptions C08_v3_backends_agree_on_public_keys.
Print Assumptions C08_v3_backends_agree_on_secret_keys.
Print Assumptions C08_v3_awslc_scalar_encoding.

Print Assumptions C08_reparse.
Print Assumptions C08_text_roundtrip.

(* non-vacuity: the premises of the theorems above ([laws O] and the four point-encoder facts) have a model *)
Theorem C08_premises_satisfiable : exists O, laws O /\
  (forall sd, ed_pk_weak (ed_pk O sd) = false) /\
  (forall sd, na_point_valid (ed_pk O sd) = true) /\
  (forall bs pk, p384_parse O bs = Some pk -> compressed_tag pk = true) /\
  (forall sk pk, p384_pk O sk = Some pk -> compressed_tag pk = true).
Proof. exists toy. split; [exact toy_laws | exact toy_key_premises]. Qed.
Print Assumptions C08_premises_satisfiable.
