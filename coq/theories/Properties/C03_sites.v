(* C03 (second file) — the domain-separation constants of the local-token key derivations are the source's: Gen/KdfSites.v
   is regenerated from the `kdf(...)` calls of every backend's local.rs on each run, and each key derivation of the model is
   restated with the regenerated constants.  Kept apart from C03.v so that no other property's files depend on
   Gen/KdfSites.v. *)
From Coq Require Import List String NArith.
From PV Require Import Bytes Result Oracle Ctr Local KdfSiteRules.
From PV.Gen Require Import KdfSites.
Import ListNotations.
Local Open Scope string_scope.
Local Open Scope list_scope.

Theorem C03_local_key_derivation_labels_are_the_sources : forall O : oracle,
  (forall key nonce, v1_keys O key nonce =
    (let n1 := take 16 nonce in let n2 := drop 16 nonce in
     (hkdf384 O n1 key (kdf_label "paseto-v1/src/core/local.rs" 0) 32, n2, hkdf384 O n1 key (kdf_label "paseto-v1/src/core/local.rs" 1) 32))) /\
  (forall key nonce, v3_keys O key nonce =
    (let t := hkdf384 O [] key (kdf_label "paseto-v3/src/core/local.rs" 0 ++ nonce) 48 in
     let ak := hkdf384 O [] key (kdf_label "paseto-v3/src/core/local.rs" 1 ++ nonce) 48 in (take 32 t, drop 32 t, ak))) /\
  (forall key nonce, lc_keys O key nonce =
    (let t := hkdf384 O [] key (kdf_label "paseto-v3-aws-lc/src/core/local.rs" 0 ++ nonce) 48 in
     let ak := hkdf384 O [] key (kdf_label "paseto-v3-aws-lc/src/core/local.rs" 1 ++ nonce) 48 in
     match split_last 16 t with Some (ek, n2) => (ek, n2, ak) | None => ([], [], ak) end)) /\
  (forall key nonce, v4_keys O key nonce =
    (let t := blake2b O 56 key (kdf_label "paseto-v4/src/core/local.rs" 0 ++ nonce) in
     let ak := blake2b O 32 key (kdf_label "paseto-v4/src/core/local.rs" 1 ++ nonce) in (take 32 t, drop 32 t, ak))) /\
  (forall key nonce, na_keys O key nonce =
    (let t := blake2b O 56 key (kdf_label "paseto-v4-sodium/src/core/local.rs" 0 ++ nonce) in
     let ak := blake2b O 32 key (kdf_label "paseto-v4-sodium/src/core/local.rs" 1 ++ nonce) in
     match split_last 24 t with Some (ek, n2) => (ek, n2, ak) | None => ([], [], ak) end)).
Proof.
  intro O. exact (conj (v1_keys_labels O) (conj (v3_keys_labels O) (conj (lc_keys_labels O) (conj (v4_keys_labels O) (na_keys_labels O))))).
Qed.

(* and they are the specification's strings *)
Theorem C03_local_key_derivation_labels_are_the_specs :
  forall f, In f ["paseto-v1/src/core/local.rs"; "paseto-v3/src/core/local.rs"; "paseto-v3-aws-lc/src/core/local.rs";
                  "paseto-v4/src/core/local.rs"; "paseto-v4-sodium/src/core/local.rs"] ->
    kdf_label f 0 = str "paseto-encryption-key" /\ kdf_label f 1 = str "paseto-auth-key-for-aead".
Proof.
  intros f [<-|[<-|[<-|[<-|[<-|[]]]]]]; split; reflexivity.
Qed.

Theorem C03_no_other_kdf_call : map fst gen_kdf_sites = expected_kdf_files.
Proof. exact kdf_sites_complete. Qed.

Print Assumptions C03_local_key_derivation_labels_are_the_sources.
Print Assumptions C03_local_key_derivation_labels_are_the_specs.
Print Assumptions C03_no_other_kdf_call.
