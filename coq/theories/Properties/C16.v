(* C16 — Every seal and wrap uses fresh randomness and fails closed when the RNG fails. *)
From PV Require Import Bytes Result Oracle Local Paserk Keys Rng RngProofs.
Local Open Scope list_scope.

(* fail closed: a failure of the source at ANY draw index of an operation gives the error, and the part of
   the operation that builds a token / blob / key is never run *)
Theorem C16_fail_closed : forall A R i sizes (body : list bytes -> result A) k,
  k < length sizes -> R (i + k) (nth k sizes 0) = None -> fst (run_op R i sizes body) = Err CryptoError.
Proof. exact @fail_closed. Qed.

(* success: the operation is run on exactly the blocks served at its own indices *)
Theorem C16_uses_exactly_its_draws : forall A R i sizes (body : list bytes -> result A) bs,
  draw_all R i sizes = Some bs ->
  run_op R i sizes body = (body bs, i + length sizes) /\
  forall k, k < length sizes -> R (i + k) (nth k sizes 0) = Some (nth k bs []).
Proof. exact @run_op_ok. Qed.

(* failed or not, an operation consumes only its own index range: what follows is not disturbed *)
Theorem C16_index_range : forall A R i sizes (body : list bytes -> result A),
  i <= snd (run_op R i sizes body) <= i + length sizes.
Proof. exact @run_op_next. Qed.

(* freshness over histories: the blocks of two different operations of ANY history are served at different
   indices; under a source that does not repeat a block among its first [hi] calls they differ *)
Theorem C16_fresh_across_history :
  forall A R hi i (ops : list (list nat * (list bytes -> result A))) p q sp bp sq bq dp dq a c,
  fresh_below R hi -> start_of R i ops q + c < hi -> p < q ->
  nth_error ops p = Some (sp, bp) -> nth_error ops q = Some (sq, bq) ->
  draw_all R (start_of R i ops p) sp = Some dp -> draw_all R (start_of R i ops q) sq = Some dq ->
  a < length sp -> c < length sq -> nth a dp [] <> [] ->
  nth a dp [] <> nth c dq [].
Proof. exact @distinct_ops_distinct_blocks. Qed.

(* ... the index half of it needs no premise about the source at all *)
Theorem C16_disjoint_indices_across_history :
  forall A R i (ops : list (list nat * (list bytes -> result A))) p q sp bp sq bq dp a c,
  p < q -> nth_error ops p = Some (sp, bp) -> nth_error ops q = Some (sq, bq) ->
  draw_all R (start_of R i ops p) sp = Some dp -> a < length sp ->
  start_of R i ops p + a < start_of R i ops q + c.
Proof. exact @distinct_ops_distinct_indices. Qed.
(* ... and the premise has a model that never fails and serves blocks of exactly the requested length (which no
   source fresh on ALL of nat can: 257 one-byte blocks) *)
Theorem C16_fresh_satisfiable : exists R, fresh_below R 256 /\ (forall i n, exists x, R i n = Some x /\ length x = n).
Proof.
  exists le_counter_rng. split; [exact le_counter_rng_fresh_below|].
  intros i n. eexists; split; [reflexivity|apply le_bytes_length].
Qed.

(* the nonce / salt fields of the outputs ARE the drawn blocks *)
Theorem C16_local_nonce_is_draw : forall (P : lparams) key enc n0 m f a p,
  length n0 = 32 -> lp_synth P = (fun n _ => n) ->
  lg_seal P key enc (n0 ++ m) f a = Ok p -> take 32 p = n0.
Proof. exact local_nonce_is_draw. Qed.
Theorem C16_pie_nonce_is_draw : forall (P : pie_params) header wk key nonce blob,
  length nonce = 32 -> (forall wk n msg, length (pie_mac P wk n msg) = pie_tlen P) ->
  pie_wrap P header wk key nonce = Ok blob -> take 32 (drop (pie_tlen P) blob) = nonce.
Proof. exact pie_nonce_is_draw. Qed.
Theorem C16_pbkw_salt_nonce_are_draws : forall (P : pw_params) header pass params key salt nonce blob,
  length salt = pw_salt_len P -> length params = pw_par_len P -> length nonce = pw_nonce_len P ->
  pw_wrap P header pass params key salt nonce = Ok blob ->
  take (pw_salt_len P) blob = salt /\ take (pw_nonce_len P) (drop (pw_salt_len P + pw_par_len P) blob) = nonce.
Proof. exact pbkw_salt_nonce_are_draws. Qed.

(* ---- the modelled operations composed with their draws (sizes as in [op_draws]): the whole operation fails
        closed, its random fields are the blocks served at its own call indices, and two consecutive seals — of
        the same message under the same key included — carry different nonces ---- *)
Theorem C16_local_seal_op_fail_closed : forall (P : lparams) R i key enc m f a,
  R i 32 = None -> local_seal_op P R i key enc m f a = (Err CryptoError, S i).
Proof. exact local_seal_op_fail_closed. Qed.
Theorem C16_local_seal_op_embeds : forall (P : lparams) R i key enc m f a n0 p j,
  R i 32 = Some n0 -> length n0 = 32 -> lp_synth P = (fun n _ => n) ->
  local_seal_op P R i key enc m f a = (Ok p, j) -> take 32 p = n0 /\ j = S i.
Proof. exact local_seal_op_embeds. Qed.
Theorem C16_consecutive_seals_have_different_nonces :
  forall (P : lparams) R hi i key enc m f a key' enc' m' f' a' p1 p2 j k,
  fresh_below R hi -> S i < hi -> lp_synth P = (fun n _ => n) ->
  (forall x, R i 32 = Some x -> length x = 32) -> (forall x, R (S i) 32 = Some x -> length x = 32) ->
  local_seal_op P R i key enc m f a = (Ok p1, j) ->
  local_seal_op P R j key' enc' m' f' a' = (Ok p2, k) ->
  take 32 p1 <> take 32 p2.
Proof. exact consecutive_local_seals_have_different_nonces. Qed.
Theorem C16_pie_wrap_op_fail_closed : forall (P : pie_params) R i header wk key,
  R i 32 = None -> pie_wrap_op P R i header wk key = (Err CryptoError, S i).
Proof. exact pie_wrap_op_fail_closed. Qed.
Theorem C16_pbkw_wrap_op_fail_closed : forall (P : pw_params) R i header pass params key,
  R i (pw_salt_len P) = None \/ (exists s, R i (pw_salt_len P) = Some s /\ R (S i) (pw_nonce_len P) = None) ->
  fst (pw_wrap_op P R i header pass params key) = Err CryptoError.
Proof. exact pw_wrap_op_fail_closed. Qed.
Theorem C16_pbkw_wrap_op_embeds : forall (P : pw_params) R i header pass params key s n blob j,
  R i (pw_salt_len P) = Some s -> R (S i) (pw_nonce_len P) = Some n ->
  length s = pw_salt_len P -> length n = pw_nonce_len P -> length params = pw_par_len P ->
  pw_wrap_op P R i header pass params key = (Ok blob, j) ->
  take (pw_salt_len P) blob = s /\ take (pw_nonce_len P) (drop (pw_salt_len P + pw_par_len P) blob) = n /\ j = S (S i).
Proof. exact pw_wrap_op_embeds. Qed.

(* ---- key generation by rejection sampling (paseto-v3 SecretKey::random): the key returned is the last block
        drawn, a valid scalar the decoders of both v3 backends accept; a failure of the source at any call of
        the loop ends it with that failure and no key; only invalid scalars are ever skipped ---- *)
Theorem C16_v3_generated_key_is_a_draw : forall O R i fuel k j,
  v3_random O R i fuel = (GenKey k, j) -> i < j /\ R (j - 1) 48 = Some k /\ p384_pk O k <> None.
Proof. exact v3_random_key_is_a_draw. Qed.
Theorem C16_v3_generated_key_is_accepted : forall O R i fuel k j,
  (forall n x, R n 48 = Some x -> length x = 48) ->
  v3_random O R i fuel = (GenKey k, j) ->
  v3_decode_secret O k = Ok k /\ lc_decode_secret O k = Ok k.
Proof. exact v3_random_key_is_accepted. Qed.
Theorem C16_v3_generation_fails_closed : forall O R i fuel j,
  v3_random O R i fuel = (GenRngFailed, j) -> i < j /\ R (j - 1) 48 = None.
Proof. exact v3_random_fail_closed. Qed.
Theorem C16_v3_generation_failure_gives_no_key : forall O R fuel i n,
  (forall m x, i <= m < n -> R m 48 = Some x -> p384_pk O x = None) -> (forall m, i <= m < n -> R m 48 <> None) ->
  i <= n -> R n 48 = None -> n - i < fuel -> v3_random O R i fuel = (GenRngFailed, S n).
Proof. exact v3_random_failure_gives_no_key. Qed.
Theorem C16_v3_generation_skips_only_invalid_scalars : forall O R i fuel out j n x,
  v3_random O R i fuel = (out, j) -> i <= n -> S n < j -> R n 48 = Some x -> p384_pk O x = None.
Proof. exact v3_random_skips_only_invalid. Qed.

Print Assumptions C16_v3_generated_key_is_a_draw.
Print Assumptions C16_v3_generated_key_is_accepted.
Print Assumptions C16_v3_generation_fails_closed.
Print Assumptions C16_v3_generation_failure_gives_no_key.
Print Assumptions C16_v3_generation_skips_only_invalid_scalars.
Print Assumptions C16_local_seal_op_fail_closed.
Print Assumptions C16_local_seal_op_embeds.
Print Assumptions C16_consecutive_seals_have_different_nonces.
Print Assumptions C16_pie_wrap_op_fail_closed.
Print Assumptions C16_pbkw_wrap_op_fail_closed.
Print Assumptions C16_pbkw_wrap_op_embeds.
Print Assumptions C16_fail_closed.
Print Assumptions C16_uses_exactly_its_draws.
Print Assumptions C16_index_range.
Print Assumptions C16_fresh_across_history.
Print Assumptions C16_local_nonce_is_draw.
Print Assumptions C16_pie_nonce_is_draw.
Print Assumptions C16_pbkw_salt_nonce_are_draws.
Print Assumptions C16_disjoint_indices_across_history.
Print Assumptions C16_fresh_satisfiable.
