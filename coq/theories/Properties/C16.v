(* C16 — Every seal and wrap uses fresh randomness and fails closed when the RNG fails. *)
From PV Require Import Bytes Result Oracle Local Paserk Keys Rng RngProofs.
Local Open Scope list_scope.

(* fail closed: a failure of the source at ANY draw index of an operation gives the error, and the part of
   the operation that builds a token / blob / key is never run *)
Theorem C16_fail_closed : forall A R i sizes (body : list bytes -> result A) k,
  k < length sizes -> R (i + k) (nth k sizes 0) = None -> fst (run_op R i sizes body) = Err CryptoError.
Proof. exact @fail_closed. Qed.

(* success: the operation is run on exactly the blocks served at its own indices *)
Theorem C16_uses_exactly_its_draws : forall A R i sizes (body : list bytes -> result A) bs,
  draw_all R i sizes = Some bs ->
  run_op R i sizes body = (body bs, i + length sizes) /\
  forall k, k < length sizes -> R (i + k) (nth k sizes 0) = Some (nth k bs []).
Proof. exact @run_op_ok. Qed.

(* failed or not, an operation consumes only its own index range: what follows is not disturbed *)
Theorem C16_index_range : forall A R i sizes (body : list bytes -> result A),
  i <= snd (run_op R i sizes body) <= i + length sizes.
Proof. exact @run_op_next. Qed.

(* freshness over histories: the blocks of two different operations of ANY history are served at different
   indices; under a source that never repeats a block they differ *)
Theorem C16_fresh_across_history :
  forall A R i (ops : list (list nat * (list bytes -> result A))) p q sp bp sq bq dp dq a c,
  fresh R -> p < q ->
  nth_error ops p = Some (sp, bp) -> nth_error ops q = Some (sq, bq) ->
  draw_all R (start_of R i ops p) sp = Some dp -> draw_all R (start_of R i ops q) sq = Some dq ->
  a < length sp -> c < length sq -> nth a dp [] <> [] ->
  nth a dp [] <> nth c dq [].
Proof. exact @distinct_ops_distinct_blocks. Qed.

(* ... the index half of it needs no premise about the source at all *)
Theorem C16_disjoint_indices_across_history :
  forall A R i (ops : list (list nat * (list bytes -> result A))) p q sp bp sq bq dp a c,
  p < q -> nth_error ops p = Some (sp, bp) -> nth_error ops q = Some (sq, bq) ->
  draw_all R (start_of R i ops p) sp = Some dp -> a < length sp ->
  start_of R i ops p + a < start_of R i ops q + c.
Proof. exact @distinct_ops_distinct_indices. Qed.
(* ... and the premise [fresh R] has a model *)
Theorem C16_fresh_satisfiable : exists R, fresh R.
Proof. exists counter_rng. exact counter_rng_fresh. Qed.

(* the nonce / salt fields of the outputs ARE the drawn blocks *)
Theorem C16_local_nonce_is_draw : forall (P : lparams) key enc n0 m f a p,
  length n0 = 32 -> lp_synth P = (fun n _ => n) ->
  lg_seal P key enc (n0 ++ m) f a = Ok p -> take 32 p = n0.
Proof. exact local_nonce_is_draw. Qed.
Theorem C16_pie_nonce_is_draw : forall (P : pie_params) header wk key nonce blob,
  length nonce = 32 -> (forall wk n msg, length (pie_mac P wk n msg) = pie_tlen P) ->
  pie_wrap P header wk key nonce = Ok blob -> take 32 (drop (pie_tlen P) blob) = nonce.
Proof. exact pie_nonce_is_draw. Qed.
Theorem C16_pbkw_salt_nonce_are_draws : forall (P : pw_params) header pass params key salt nonce blob,
  length salt = pw_salt_len P -> length params = pw_par_len P -> length nonce = pw_nonce_len P ->
  pw_wrap P header pass params key salt nonce = Ok blob ->
  take (pw_salt_len P) blob = salt /\ take (pw_nonce_len P) (drop (pw_salt_len P + pw_par_len P) blob) = nonce.
Proof. exact pbkw_salt_nonce_are_draws. Qed.

Print Assumptions C16_fail_closed.
Print Assumptions C16_uses_exactly_its_draws.
Print Assumptions C16_index_range.
Print Assumptions C16_fresh_across_history.
Print Assumptions C16_local_nonce_is_draw.
Print Assumptions C16_pie_nonce_is_draw.
Print Assumptions C16_pbkw_salt_nonce_are_draws.
Print Assumptions C16_disjoint_indices_across_history.
Print Assumptions C16_fresh_satisfiable.
