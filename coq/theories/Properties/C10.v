(* C10 — a token or PASERK of one version/purpose/kind is never accepted as another.
   The header table is regenerated from /repo's sources (Gen/Headers.v) on every run. *)
From PV Require Import Bytes Result Base64 Text Headers Oracle Keys KeysProofs2 Paserk PaserkProofs PaserkTamper PkeProofs.
From PV.Gen Require Import Headers.
Local Open Scope string_scope.
Local Open Scope list_scope.

(* the constants in the source are the specifications' constants *)
Theorem C10_constants_are_the_specs :
  gen_versions = spec_versions /\ gen_key_kinds = spec_key_kinds /\
  gen_sealing_kinds = spec_sealing_kinds /\ gen_seal_header = str ".seal." /\
  gen_purposes = ["Public"; "Local"] /\ gen_text_uses = spec_text_uses.
Proof.
  exact (conj gen_versions_spec (conj gen_key_kinds_spec (conj gen_sealing_kinds_spec
        (conj gen_seal_header_spec (conj gen_purposes_spec gen_text_uses_spec))))).
Qed.

(* every full prefix ends in '.', and no full prefix is a prefix of a different one *)
Theorem C10_prefix_table_well_formed : headers_wf = true.
Proof. exact headers_wf_holds. Qed.

(* a string accepted by the parser of one (version, kind) is rejected — with the format error, before
   any decoding — by the parser of every other (version, kind), for all three parser families *)
Theorem C10_cross_kind_rejected :
  forall (k1 : parser_kind) (v1 kd1 : bytes) (k2 : parser_kind) (v2 kd2 s : bytes),
    In (v1 ++ kd1) all_prefixes -> In (v2 ++ kd2) all_prefixes -> v1 ++ kd1 <> v2 ++ kd2 ->
    accepts k1 v1 kd1 s = true -> rejects_with_format_error k2 v2 kd2 s.
Proof. exact cross_kind_rejected. Qed.

Theorem C10_kind_families_use_distinct_headers :
  let keys := map (fun '(_, h, _) => h) gen_key_kinds in
  let ids := map (fun '(_, _, i) => i) gen_key_kinds in
  let pies := map (fun '(_, p, _) => p) gen_sealing_kinds in
  let pws := map (fun '(_, _, w) => w) gen_sealing_kinds in
  forallb (fun a => forallb (fun b => negb (beq a b)) (ids ++ pies ++ pws ++ [gen_seal_header])) keys
  && forallb (fun a => forallb (fun b => negb (beq a b)) (pies ++ pws ++ [gen_seal_header])) ids
  && forallb (fun a => forallb (fun b => negb (beq a b)) (pws ++ [gen_seal_header])) pies
  && forallb (fun a => negb (beq a gen_seal_header)) pws = true.
Proof. exact kind_headers_distinct_families. Qed.

(* ---- key bytes: whatever a decoder accepts has exactly the length of the requested kind, so the bytes of a key
        of another kind or version with a different length never pass (v1: DER, variable length, excluded) ---- *)
Theorem C10_key_lengths_exact : forall O b k bs obj,
  b <> B1 \/ k = KLocal -> key_decode O b k bs = Ok obj -> length bs = klen b k.
Proof. exact key_exact_length. Qed.

(* ---- re-labelled blobs: version and header are part of what the tag authenticates.  A PIE / PBKW / seal blob
        presented under another version or header gives the MAC a different input (hence fails to unwrap unless the
        MAC collides: C06's acceptance theorems) ---- *)
Theorem C10_pie_relabel_changes_mac_input : forall (P P' : pie_params) (h h' n n' c c' : bytes),
  length (pie_ver P) = 2 -> length (pie_ver P') = 2 -> In h pie_headers -> In h' pie_headers ->
  length n = 32 -> length n' = 32 ->
  (pie_ver P, h, n, c) <> (pie_ver P', h', n', c') ->
  pie_ver P ++ h ++ n ++ c <> pie_ver P' ++ h' ++ n' ++ c'.
Proof. exact pie_auth_inputs_differ. Qed.
Theorem C10_pbkw_relabel_changes_mac_input : forall (v v' h h' p p' c c' : bytes),
  length v = 2 -> length v' = 2 -> In h pw_headers -> In h' pw_headers -> length p = length p' ->
  v ++ h ++ p ++ c = v' ++ h' ++ p' ++ c' -> (v, h, p, c) = (v', h', p', c').
Proof. exact pw_input_injective. Qed.
Theorem C10_seal_relabel_changes_mac_input : forall (v v' h epk epk' edk edk' : bytes),
  length v = 2 -> length v' = 2 -> length epk = length epk' ->
  v ++ h ++ epk ++ edk = v' ++ h ++ epk' ++ edk' -> (v, epk, edk) = (v', epk', edk').
Proof. exact pke_mac_input_injective. Qed.

Print Assumptions C10_key_lengths_exact.
Print Assumptions C10_pie_relabel_changes_mac_input.
Print Assumptions C10_pbkw_relabel_changes_mac_input.
Print Assumptions C10_seal_relabel_changes_mac_input.
Print Assumptions C10_constants_are_the_specs.
Print Assumptions C10_prefix_table_well_formed.
Print Assumptions C10_cross_kind_rejected.
Print Assumptions C10_kind_families_use_distinct_headers.
