(* C10 — a token or PASERK of one version/purpose/kind is never accepted as another.
   The header table is regenerated from /repo's sources (Gen/Headers.v) on every run. *)
From PV Require Import Bytes Result Base64 Text Headers.
From PV.Gen Require Import Headers.
Local Open Scope string_scope.
Local Open Scope list_scope.

(* the constants in the source are the specifications' constants *)
Theorem C10_constants_are_the_specs :
  gen_versions = spec_versions /\ gen_key_kinds = spec_key_kinds /\
  gen_sealing_kinds = spec_sealing_kinds /\ gen_seal_header = str ".seal." /\
  gen_purposes = ["Public"; "Local"] /\ gen_text_uses = spec_text_uses.
Proof.
  exact (conj gen_versions_spec (conj gen_key_kinds_spec (conj gen_sealing_kinds_spec
        (conj gen_seal_header_spec (conj gen_purposes_spec gen_text_uses_spec))))).
Qed.

(* every full prefix ends in '.', and no full prefix is a prefix of a different one *)
Theorem C10_prefix_table_well_formed : headers_wf = true.
Proof. exact headers_wf_holds. Qed.

(* a string accepted by the parser of one (version, kind) is rejected — with the format error, before
   any decoding — by the parser of every other (version, kind), for all three parser families *)
Theorem C10_cross_kind_rejected :
  forall (k1 : parser_kind) (v1 kd1 : bytes) (k2 : parser_kind) (v2 kd2 s : bytes),
    In (v1 ++ kd1) all_prefixes -> In (v2 ++ kd2) all_prefixes -> v1 ++ kd1 <> v2 ++ kd2 ->
    accepts k1 v1 kd1 s = true -> rejects_with_format_error k2 v2 kd2 s.
Proof. exact cross_kind_rejected. Qed.

Theorem C10_kind_families_use_distinct_headers :
  let keys := map (fun '(_, h, _) => h) gen_key_kinds in
  let ids := map (fun '(_, _, i) => i) gen_key_kinds in
  let pies := map (fun '(_, p, _) => p) gen_sealing_kinds in
  let pws := map (fun '(_, _, w) => w) gen_sealing_kinds in
  forallb (fun a => forallb (fun b => negb (beq a b)) (ids ++ pies ++ pws ++ [gen_seal_header])) keys
  && forallb (fun a => forallb (fun b => negb (beq a b)) (pies ++ pws ++ [gen_seal_header])) ids
  && forallb (fun a => forallb (fun b => negb (beq a b)) (pws ++ [gen_seal_header])) pies
  && forallb (fun a => negb (beq a gen_seal_header)) pws = true.
Proof. exact kind_headers_distinct_families. Qed.

Print Assumptions C10_constants_are_the_specs.
Print Assumptions C10_prefix_table_well_formed.
Print Assumptions C10_cross_kind_rejected.
Print Assumptions C10_kind_families_use_distinct_headers.
