(* C01 — Seal then unseal returns the original claims, for every key, payload and backend.
   Only statements, [exact], and [Print Assumptions] live here.  [O] ranges over all primitive oracles
   satisfying [laws O] (Oracle.v): correctness of the named primitives is the premise, everything the
   library itself decides (splits, lengths, draws, encodings, order) is proved. *)
From PV Require Import Bytes Result Text Tokens Oracle Local Public LocalProofs PublicProofs PipelineProofs ToyOracle.

(* ---- local tokens: the library's own nonce path (V::nonce() then seal) round-trips ---- *)
Theorem C01_v1_local : forall O, laws O -> forall draw key enc m f r,
  draw_exact draw -> draw 32 = Some r ->
  exists n, v1_local_nonce draw = Ok n /\
  exists p, v1_local_seal O key enc (n ++ m) f [] = Ok p /\ v1_local_unseal O key enc p f [] = Ok m.
Proof. exact v1_local_api_roundtrip. Qed.

Theorem C01_v2_local : forall O, laws O -> forall draw key enc m f r,
  draw_exact draw -> draw 24 = Some r ->
  exists n, v2_local_nonce draw = Ok n /\
  exists p, v2_local_seal O key enc (n ++ m) f [] = Ok p /\ v2_local_unseal O key enc p f [] = Ok m.
Proof. exact v2_local_api_roundtrip. Qed.

Theorem C01_v3_local : forall O, laws O -> forall draw key enc m f a r,
  draw_exact draw -> draw 32 = Some r ->
  exists n, v3_local_nonce draw = Ok n /\
  exists p, v3_local_seal O key enc (n ++ m) f a = Ok p /\ v3_local_unseal O key enc p f a = Ok m.
Proof. exact v3_local_api_roundtrip. Qed.

Theorem C01_v3_awslc_local : forall O, laws O -> forall draw key enc m f a r,
  draw_exact draw -> draw 32 = Some r ->
  exists n, lc_local_nonce draw = Ok n /\
  exists p, lc_local_seal O key enc (n ++ m) f a = Ok p /\ lc_local_unseal O key enc p f a = Ok m.
Proof. exact lc_local_api_roundtrip. Qed.

Theorem C01_v4_local : forall O, laws O -> forall draw key enc m f a r,
  draw_exact draw -> draw 32 = Some r ->
  exists n, v4_local_nonce draw = Ok n /\
  exists p, v4_local_seal O key enc (n ++ m) f a = Ok p /\ v4_local_unseal O key enc p f a = Ok m.
Proof. exact v4_local_api_roundtrip. Qed.

Theorem C01_v4_sodium_local : forall O, laws O -> forall draw key enc m f a r,
  draw_exact draw -> draw 32 = Some r ->
  exists n, na_local_nonce draw = Ok n /\
  exists p, na_local_seal O key enc (n ++ m) f a = Ok p /\ na_local_unseal O key enc p f a = Ok m.
Proof. exact na_local_api_roundtrip. Qed.

(* ---- public tokens: for every signature value the scheme can return ---- *)
Theorem C01_v1_public : forall O, laws O -> forall sk enc m f aux sig,
  rsa_pss_sign O sk (v1_ppre enc m f) aux = Some sig ->
  exists p, v1_public_seal O sk enc m f [] aux = Ok p /\ v1_public_unseal O (rsa_pk O sk) enc p f [] = Ok m.
Proof. exact v1_public_roundtrip. Qed.

Theorem C01_v2_public : forall O, laws O -> forall seed enc m f,
  exists p, v2_public_seal O seed enc m f [] = Ok p /\ v2_public_unseal O (ed_pk O seed) enc p f [] = Ok m.
Proof. exact v2_public_roundtrip. Qed.

(* r, s range over everything ECDSA can return, in particular values with leading zero bytes *)
Theorem C01_v3_public : forall O, laws O -> forall sk pk enc m f a,
  p384_pk O sk = Some pk ->
  exists p, v3_public_seal O sk enc m f a = Ok p /\ v3_public_unseal O pk enc p f a = Ok m.
Proof. exact v3_public_roundtrip. Qed.

Theorem C01_v3_awslc_public : forall O, laws O -> forall sk pk enc m f a aux,
  p384_pk O sk = Some pk ->
  exists p, lc_public_seal O sk enc m f a aux = Ok p /\ lc_public_unseal O pk enc p f a = Ok m.
Proof. exact lc_public_roundtrip. Qed.

Theorem C01_v4_public : forall O, laws O -> forall seed enc m f a,
  exists p, v4_public_seal O seed enc m f a = Ok p /\ v4_public_unseal O (ed_pk O seed) enc p f a = Ok m.
Proof. exact v4_public_roundtrip. Qed.

Theorem C01_v4_sodium_public : forall O, laws O -> forall seed enc m f a,
  exists p, na_public_seal O seed enc m f a = Ok p /\ na_public_unseal O (ed_pk O seed) enc p f a = Ok m.
Proof. exact na_public_roundtrip. Qed.

(* ---- the whole public API: seal, Display, FromStr, unseal, for any payload / footer codec ---- *)
Theorem C01_pipeline :
  forall (Claims Foot UKey SKey : Type)
         (v_unseal : UKey -> bytes -> bytes -> bytes -> bytes -> result bytes)
         (v_seal : SKey -> bytes -> bytes -> bytes -> bytes -> result bytes)
         (m_suffix : bytes) (m_encode : Claims -> option bytes) (m_decode : bytes -> option Claims)
         (f_encode : Foot -> option bytes) (f_decode : bytes -> option Foot) (validate : Claims -> result unit)
         hdr pur sk uk c fv aad nonce body fb p,
    m_encode c = Some body -> m_decode body = Some c ->
    f_encode fv = Some fb -> f_decode fb = Some fv ->
    validate c = Ok tt ->
    v_seal sk m_suffix (nonce ++ body) fb aad = Ok p ->
    v_unseal uk m_suffix p fb aad = Ok body ->
    exists tok,
      seal v_seal m_suffix m_encode f_encode sk c fv aad (Ok nonce) = Ok tok /\
      parse_token f_decode hdr m_suffix pur (print_token hdr m_suffix pur tok) = Ok (tok, fv) /\
      fst (unseal v_unseal m_suffix m_decode validate uk tok fv aad) = Ok (c, fv).
Proof. exact @pipeline_roundtrip. Qed.

(* the sealed payload always has the format's fixed overhead (nonce + tag) *)
Theorem C01_local_overhead : forall (P : lparams),
  (forall k n len, length (lp_ks P k n len) = len) ->
  (forall k e n c f a, length (lp_tag P k e n c f a) = lp_tlen P) ->
  (forall n0 m, length n0 = 32 -> length (lp_synth P n0 m) = 32) ->
  forall key enc n0 m f a p,
    length n0 = 32 -> lg_seal P key enc (n0 ++ m) f a = Ok p -> length p = 32 + length m + lp_tlen P.
Proof. exact lg_seal_length. Qed.

(* the defect repaired by "fix: paseto-v2 local nonce() must draw 24 bytes": with a 32-byte draw the
   faithful model returns the wrong claims for EVERY input *)
Theorem C01_v2_nonce32_refuted : forall O, laws O -> forall key enc m f r,
  length r = 32 ->
  exists p, v2_local_seal O key enc (r ++ m) f [] = Ok p /\
            v2_local_unseal O key enc p f [] = Ok (drop 24 r ++ m) /\ drop 24 r ++ m <> m.
Proof. exact v2_nonce_32_refuted. Qed.

(* ---- ... and composed with real backends: for v4 (RustCrypto) and v3 (aws-lc) local tokens the whole API path
        returns the claims and footer that went in, whatever 32 bytes the random source serves ---- *)
Theorem C01_v4_local_end_to_end : forall O, laws O ->
  forall (Claims Foot : Type) (m_suffix : bytes) (m_encode : Claims -> option bytes) (m_decode : bytes -> option Claims)
         (f_encode : Foot -> option bytes) (f_decode : bytes -> option Foot) (validate : Claims -> result unit)
         draw hdr pur key c fv aad r body fb,
  draw_exact draw -> draw 32 = Some r ->
  m_encode c = Some body -> m_decode body = Some c -> f_encode fv = Some fb -> f_decode fb = Some fv ->
  validate c = Ok tt ->
  exists tok,
    seal (v4_local_seal O) m_suffix m_encode f_encode key c fv aad (v4_local_nonce draw) = Ok tok /\
    parse_token f_decode hdr m_suffix pur (print_token hdr m_suffix pur tok) = Ok (tok, fv) /\
    fst (unseal (v4_local_unseal O) m_suffix m_decode validate key tok fv aad) = Ok (c, fv).
Proof. intros O L Claims Foot. exact (@v4_local_end_to_end O L Claims Foot). Qed.
Theorem C01_v3_awslc_local_end_to_end : forall O, laws O ->
  forall (Claims Foot : Type) (m_suffix : bytes) (m_encode : Claims -> option bytes) (m_decode : bytes -> option Claims)
         (f_encode : Foot -> option bytes) (f_decode : bytes -> option Foot) (validate : Claims -> result unit)
         draw hdr pur key c fv aad r body fb,
  draw_exact draw -> draw 32 = Some r ->
  m_encode c = Some body -> m_decode body = Some c -> f_encode fv = Some fb -> f_decode fb = Some fv ->
  validate c = Ok tt ->
  exists tok,
    seal (lc_local_seal O) m_suffix m_encode f_encode key c fv aad (lc_local_nonce draw) = Ok tok /\
    parse_token f_decode hdr m_suffix pur (print_token hdr m_suffix pur tok) = Ok (tok, fv) /\
    fst (unseal (lc_local_unseal O) m_suffix m_decode validate key tok fv aad) = Ok (c, fv).
Proof. intros O L Claims Foot. exact (@lc_local_end_to_end O L Claims Foot). Qed.

Print Assumptions C01_v4_local_end_to_end.
Print Assumptions C01_v3_awslc_local_end_to_end.
Print Assumptions C01_v1_local.
Print Assumptions C01_v2_local.
Print Assumptions C01_v3_local.
Print Assumptions C01_v3_awslc_local.
Print Assumptions C01_v4_local.
Print Assumptions C01_v4_sodium_local.
Print Assumptions C01_v1_public.
Print Assumptions C01_v2_public.
Print Assumptions C01_v3_public.
Print Assumptions C01_v3_awslc_public.
Print Assumptions C01_v4_public.
Print Assumptions C01_v4_sodium_public.
Print Assumptions C01_pipeline.
Print Assumptions C01_local_overhead.
Print Assumptions C01_v2_nonce32_refuted.

(* non-vacuity: the premise [laws O] of the theorems above has a model (ToyOracle.v) *)
Theorem C01_premises_satisfiable : exists O, laws O.
Proof. exact laws_satisfiable. Qed.
Print Assumptions C01_premises_satisfiable.
