(* C19 — every cargo feature subset builds; reduced builds behave like the full one.
   The feature tables, cfg gates and cfg positions are regenerated from /repo (Gen/Features.v) on every run;
   the model is FeatureRules.v; cargo itself is run on the closures by tools/c19_harness.py. *)
From Coq Require Import String List Bool.
From PV Require Import FeatureRules FeatureRulesProofs.
From PV.Gen Require Import Features.
Import ListNotations.
Local Open Scope string_scope.

(* the tables are those of the six crates, with the documented feature flags *)
Theorem C19_crates_and_features :
  map c_name gen_crates = ["paseto-v1"; "paseto-v2"; "paseto-v3"; "paseto-v4"; "paseto-core"; "paseto-json"] /\
  map feature_names gen_crates =
  let nine := ["default"; "decrypting"; "encrypting"; "id"; "paserk"; "pbkw"; "pie-wrap"; "pke"; "signing"; "verifying"] in
  [nine; nine; nine; nine; ["default"; "serde"]; ["default"; "claims"]].
Proof. exact (conj gen_crates_are gen_feature_names). Qed.

(* every one of the 2^n subsets of the declared features: after cargo's feature implication, every compiled
   item only mentions optional crates, dependency features, gated names and modules that are switched on *)
Theorem C19_every_subset_builds_v1 :
  forall S, In S (all_subsets (feature_names gen_v1)) -> builds gen_v1 (closure gen_v1 S) = true.
Proof. exact every_subset_builds_v1. Qed.

Theorem C19_every_subset_builds_v2 :
  forall S, In S (all_subsets (feature_names gen_v2)) -> builds gen_v2 (closure gen_v2 S) = true.
Proof. exact every_subset_builds_v2. Qed.

Theorem C19_every_subset_builds_v3 :
  forall S, In S (all_subsets (feature_names gen_v3)) -> builds gen_v3 (closure gen_v3 S) = true.
Proof. exact every_subset_builds_v3. Qed.

Theorem C19_every_subset_builds_v4 :
  forall S, In S (all_subsets (feature_names gen_v4)) -> builds gen_v4 (closure gen_v4 S) = true.
Proof. exact every_subset_builds_v4. Qed.

Theorem C19_every_subset_builds_core :
  forall S, In S (all_subsets (feature_names gen_core)) -> builds gen_core (closure gen_core S) = true.
Proof. exact every_subset_builds_core. Qed.

Theorem C19_every_subset_builds_json :
  forall S, In S (all_subsets (feature_names gen_json)) -> builds gen_json (closure gen_json S) = true.
Proof. exact every_subset_builds_json. Qed.

(* no gate negates a feature and gates name declared features only; implied features are declared and `dep:`
   names optional dependencies; the closure iteration reaches a fixed point on every subset *)
Theorem C19_tables_well_formed :
  forallb (fun T => table_positive T && table_declared T && closure_closed T) gen_crates = true.
Proof. exact tables_well_formed. Qed.

(* enabling more features never removes an item *)
Theorem C19_active_monotone :
  forall T, In T gen_crates -> forall i, In i (c_items T) ->
  forall S S', incl S S' -> active S i = true -> active S' i = true.
Proof. exact active_monotone. Qed.

Theorem C19_closure_monotone :
  forall T S S', incl S S' -> incl (closure T S) (closure T S').
Proof. exact closure_monotone. Qed.

(* every cfg whose predicate names a feature decorates a module, import, item, impl, function or type alias:
   none sits on a statement, expression, field, match arm, parameter, trait-impl method or inside macro
   arguments, there is no feature-dependent cfg_attr and no cfg!(feature ..): feature-conditional compilation
   only removes whole items ...   (predicates naming no feature - cfg(test), a custom --cfg flag - have the same
   value in every feature configuration) *)
Theorem C19_cfg_only_on_items : forallb cfg_only_on_items gen_crates = true.
Proof. exact cfgs_only_on_items. Qed.

(* ... so an item present in a reduced build is present, with literally the same source, in the full build *)
Theorem C19_reduced_items_are_full_items :
  forall T, In T gen_crates -> forall S, In S (all_subsets (feature_names T)) ->
  forall i, In i (c_items T) ->
  active (closure T S) i = true -> active (closure T (feature_names T)) i = true.
Proof. exact reduced_items_are_full_items. Qed.

Print Assumptions C19_crates_and_features.
Print Assumptions C19_every_subset_builds_v1.
Print Assumptions C19_every_subset_builds_v2.
Print Assumptions C19_every_subset_builds_v3.
Print Assumptions C19_every_subset_builds_v4.
Print Assumptions C19_every_subset_builds_core.
Print Assumptions C19_every_subset_builds_json.
Print Assumptions C19_tables_well_formed.
Print Assumptions C19_active_monotone.
Print Assumptions C19_closure_monotone.
Print Assumptions C19_cfg_only_on_items.
Print Assumptions C19_reduced_items_are_full_items.
