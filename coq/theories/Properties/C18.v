(* C18 — misusing keys, purposes or versions fails to compile; secrets cannot be printed.
   The impl table (Gen/Impls.v) is regenerated from /repo's sources on every run; [check] is the model of rustc's
   type checking of the catalogue programs (TypeRules.v), validated against rustc itself on the whole catalogue by
   tools/c18_harness.py.  The domain [all_ops] is finite and bound in the statements. *)
From Coq Require Import String List Bool.
From PV Require Import TypeRules TypeRulesProofs AliasRules.
From PV.Gen Require Import Aliases.
From PV.Gen Require Import Impls.

(* every misuse program of the catalogue is rejected *)
Theorem C18_misuse_does_not_compile :
  forall o, In o all_ops -> misuse o = true -> well_typed gen_table o = false.
Proof. exact misuse_rejected. Qed.

(* the corresponding correct programs compile *)
Theorem C18_intended_compiles :
  forall o, In o all_ops -> intended o = true -> well_typed gen_table o = true.
Proof. exact intended_accepted. Qed.

(* the catalogue is the whole grammar: every operation over the six backends, five key kinds, two purposes *)
Theorem C18_catalogue_complete :
  forall o, match o with OField s f => In f (probe_fields s) | _ => True end -> In o all_ops.
Proof. exact all_ops_complete. Qed.

(* ... and these are all the versions, key kinds and purposes the sources declare *)
Theorem C18_domain_is_what_the_sources_declare : markers_complete gen_table = true.
Proof. exact markers_complete_holds. Qed.

(* secret key material only through expose_key: no trait impl, method or field of Key yields it otherwise *)
Theorem C18_secrets_only_through_expose : key_api_closed gen_table = true.
Proof. exact key_api_closed_holds. Qed.

(* no catalogue entry is both a misuse and an intended program; the model never runs out of fuel / table *)
Theorem C18_misuse_intended_disjoint :
  forall o, In o all_ops -> misuse o && intended o = false.
Proof. exact misuse_intended_disjoint. Qed.

Theorem C18_model_total_on_domain :
  forall o, In o all_ops -> model_error (check gen_table o) = false.
Proof. exact model_total. Qed.

(* the crate-level aliases programs are normally written against (paseto_v2::PieWrappedSecretKey, ...) name the
   generic type, version and kind that their name promises *)
Theorem C18_crate_aliases_name_what_they_say : forall a, In a gen_aliases -> alias_ok a = true.
Proof. exact aliases_ok_forall. Qed.

Print Assumptions C18_crate_aliases_name_what_they_say.
Print Assumptions C18_misuse_does_not_compile.
Print Assumptions C18_intended_compiles.
Print Assumptions C18_catalogue_complete.
Print Assumptions C18_domain_is_what_the_sources_declare.
Print Assumptions C18_secrets_only_through_expose.
Print Assumptions C18_misuse_intended_disjoint.
Print Assumptions C18_model_total_on_domain.
