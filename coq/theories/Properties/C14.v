(* C14 — registered claims and JSON payloads round-trip exactly through their wire form.
   Model: Claims.v (serializer [members_of], visitor [visit] over a member list in text order with
   duplicates).  [fmt_ts] / [parse_ts] are jiff's RFC 3339 text layer, JSON text <-> [jvalue] is
   serde_json's: both are premises (named in every statement that needs them) and are exercised by
   the correspondence harness (harness-c14).  Vocabulary used below (ClaimsProofs.v):
     values_of k ms      the values offered under name k, in text order, duplicates kept
     slot_get f c        field f of c      key_of f   its JSON name      enc f x   the value written for it
     slot_accepts f vs r "nulls*, then at most one well-typed value, then nothing" (the duplicate rule)
     reg_keys ms         the registered names occurring in ms, with multiplicity *)
From PV Require Import Bytes Result Validation Claims ClaimsProofs.
From Coq Require Import Permutation.
Local Open Scope Z_scope.
Local Open Scope string_scope.

(* ---------------------------------------------------------------- (a) round trip *)

(* encoding any claims value whose timestamps are in jiff's range and decoding it yields the same
   value: strings byte-for-byte, timestamps to the nanosecond, absent claims stay absent *)
Theorem C14_round_trip :
  forall (fmt_ts : Z -> bytes) (parse_ts : bytes -> option Z),
    (forall t, ts_ok t = true -> parse_ts (fmt_ts t) = Some t) ->
    forall c : claims,
      (forall t, exp c = Some t \/ nbf c = Some t \/ iat c = Some t -> ts_ok t = true) ->
      visit parse_ts (members_of fmt_ts c) = Ok c.
Proof. exact round_trip. Qed.

Theorem C14_round_trip_unbounded :
  forall (fmt_ts : Z -> bytes) (parse_ts : bytes -> option Z),
    (forall t, parse_ts (fmt_ts t) = Some t) ->
    forall c : claims, visit parse_ts (members_of fmt_ts c) = Ok c.
Proof. exact round_trip_total. Qed.

Theorem C14_round_trip_document :
  forall (fmt_ts : Z -> bytes) (parse_ts : bytes -> option Z),
    (forall t, ts_ok t = true -> parse_ts (fmt_ts t) = Some t) ->
    forall c : claims,
      (forall t, exp c = Some t \/ nbf c = Some t \/ iat c = Some t -> ts_ok t = true) ->
      decode_value parse_ts (encode_value fmt_ts c) = Ok c.
Proof. exact round_trip_value. Qed.

(* ---------------------------------------------------------------- (b) the wire form *)

(* the object written has exactly one member per present claim, under its name, holding a JSON
   string: the claim itself, or its RFC 3339 text for exp / nbf / iat *)
Theorem C14_wire_form_members :
  forall (fmt_ts : Z -> bytes) (c : claims) (k : bytes) (v : jvalue),
    In (k, v) (members_of fmt_ts c) <->
    (exists s, iss c = Some s /\ k = k_iss /\ v = JStr s) \/
    (exists s, sub c = Some s /\ k = k_sub /\ v = JStr s) \/
    (exists s, aud c = Some s /\ k = k_aud /\ v = JStr s) \/
    (exists t, exp c = Some t /\ k = k_exp /\ v = JStr (fmt_ts t)) \/
    (exists t, nbf c = Some t /\ k = k_nbf /\ v = JStr (fmt_ts t)) \/
    (exists t, iat c = Some t /\ k = k_iat /\ v = JStr (fmt_ts t)) \/
    (exists s, jti c = Some s /\ k = k_jti /\ v = JStr s).
Proof. exact members_exact_fields. Qed.

Theorem C14_wire_form_members_generic :
  forall (fmt_ts : Z -> bytes) (c : claims) (k : bytes) (v : jvalue),
    In (k, v) (members_of fmt_ts c) <->
    (exists (f : field) (x : ftype f), slot_get f c = Some x /\ k = key_of f /\ v = enc fmt_ts f x).
Proof. exact members_exact. Qed.

(* absent claims are omitted (never written as null); present ones are written *)
Theorem C14_absent_claims_are_omitted :
  forall (fmt_ts : Z -> bytes) (c : claims),
    ((exists v, In (k_iss, v) (members_of fmt_ts c)) <-> iss c <> None) /\
    ((exists v, In (k_sub, v) (members_of fmt_ts c)) <-> sub c <> None) /\
    ((exists v, In (k_aud, v) (members_of fmt_ts c)) <-> aud c <> None) /\
    ((exists v, In (k_exp, v) (members_of fmt_ts c)) <-> exp c <> None) /\
    ((exists v, In (k_nbf, v) (members_of fmt_ts c)) <-> nbf c <> None) /\
    ((exists v, In (k_iat, v) (members_of fmt_ts c)) <-> iat c <> None) /\
    ((exists v, In (k_jti, v) (members_of fmt_ts c)) <-> jti c <> None).
Proof. exact member_present_iff_fields. Qed.

Theorem C14_no_null_is_written :
  forall (fmt_ts : Z -> bytes) (c : claims) (k : bytes) (v : jvalue),
    In (k, v) (members_of fmt_ts c) -> v <> JNull.
Proof. exact members_never_null. Qed.

Theorem C14_only_registered_names_are_written :
  forall (fmt_ts : Z -> bytes) (c : claims) (k : bytes) (v : jvalue),
    In (k, v) (members_of fmt_ts c) -> field_of_key k <> None.
Proof. exact members_only_registered. Qed.

(* names appear in the fixed order iss, sub, aud, exp, nbf, iat, jti, each at most once *)
Theorem C14_wire_form_order :
  forall (fmt_ts : Z -> bytes) (c : claims),
    map fst (members_of fmt_ts c) = map key_of (filter (present c) all_fields).
Proof. exact members_keys_in_order. Qed.

Theorem C14_wire_form_no_duplicate_names :
  forall (fmt_ts : Z -> bytes) (c : claims), NoDup (map fst (members_of fmt_ts c)).
Proof. exact members_keys_nodup. Qed.

(* ---------------------------------------------------------------- (c) unknown members *)

(* a member with any other name, holding any JSON value, inserted anywhere, changes nothing
   (neither a successful result nor a failure) *)
Theorem C14_unknown_member_ignored :
  forall (parse_ts : bytes -> option Z) (ms1 : list member) (k : bytes) (v : jvalue) (ms2 : list member),
    field_of_key k = None ->
    visit parse_ts (ms1 ++ (k, v) :: ms2) = visit parse_ts (ms1 ++ ms2).
Proof. exact unknown_member_ignored. Qed.

Theorem C14_only_registered_members_matter :
  forall (parse_ts : bytes -> option Z) (ms : list member),
    visit parse_ts ms = visit parse_ts (filter is_registered ms).
Proof. exact unknown_members_ignored. Qed.

(* ---------------------------------------------------------------- (d) member order *)

(* with no registered name repeated, the outcome — value or error — is invariant under any permutation *)
Theorem C14_order_independent :
  forall (parse_ts : bytes -> option Z) (ms ms' : list member),
    NoDup (reg_keys ms) -> Permutation ms ms' -> visit parse_ts ms = visit parse_ts ms'.
Proof. exact order_independent. Qed.

Theorem C14_order_independent_ok :
  forall (parse_ts : bytes -> option Z) (ms ms' : list member) (c : claims),
    NoDup (reg_keys ms) -> Permutation ms ms' -> visit parse_ts ms = Ok c -> visit parse_ts ms' = Ok c.
Proof. exact order_independent_ok. Qed.

(* with repeated names too: only the relative order of members sharing a registered name matters *)
Theorem C14_order_independent_general :
  forall (parse_ts : bytes -> option Z) (ms ms' : list member),
    (forall f : field, values_of (key_of f) ms = values_of (key_of f) ms') ->
    visit parse_ts ms = visit parse_ts ms'.
Proof. exact order_independent_general. Qed.

(* ---------------------------------------------------------------- (e) agreement with a generic reader *)

(* whenever decoding succeeds, each registered claim is what a last-wins generic JSON reader holds for
   that member: absent / null -> None, a string -> that string (time claims: jiff's reading of it) *)
Theorem C14_agrees_with_generic_reader :
  forall (parse_ts : bytes -> option Z) (ms : list member) (c : claims),
    visit parse_ts ms = Ok c ->
    iss c = read_str (last_value k_iss ms) /\
    sub c = read_str (last_value k_sub ms) /\
    aud c = read_str (last_value k_aud ms) /\
    exp c = read_ts parse_ts (last_value k_exp ms) /\
    nbf c = read_ts parse_ts (last_value k_nbf ms) /\
    iat c = read_ts parse_ts (last_value k_iat ms) /\
    jti c = read_str (last_value k_jti ms).
Proof. exact agrees_with_generic_reader. Qed.

(* ... and for that reader every registered member is then null or a string (no wrongly typed
   member is silently read as "absent") *)
Theorem C14_success_means_well_typed :
  forall (parse_ts : bytes -> option Z) (ms : list member) (c : claims) (f : field) (v : jvalue),
    visit parse_ts ms = Ok c -> last_value (key_of f) ms = Some v ->
    v = JNull \/ (exists s, v = JStr s).
Proof. exact success_means_well_typed. Qed.

(* ---------------------------------------------------------------- (f) the duplicate rule, pinned *)

(* decoding succeeds exactly when, for every registered name, the values offered under it are
   nulls followed by at most one well-typed value and nothing after it *)
Theorem C14_acceptance_exact :
  forall (parse_ts : bytes -> option Z) (ms : list member) (c : claims),
    visit parse_ts ms = Ok c <->
    (forall f : field, slot_accepts parse_ts f (values_of (key_of f) ms) (slot_get f c)).
Proof. exact visit_accepts_iff. Qed.

(* a value, then any later member of the same name (a second value, the same value, or null): PayloadError *)
Theorem C14_duplicate_after_value_rejected :
  forall (parse_ts : bytes -> option Z) (ms1 : list member) (k : bytes) (v1 : jvalue)
         (ms2 : list member) (v2 : jvalue) (ms3 : list member),
    field_of_key k <> None -> v1 <> JNull ->
    visit parse_ts (ms1 ++ (k, v1) :: ms2 ++ (k, v2) :: ms3) = Err PayloadError.
Proof. exact duplicate_after_value_rejected. Qed.

(* null members before the first value are no-ops: `null` then a value is accepted *)
Theorem C14_null_before_value_is_noop :
  forall (parse_ts : bytes -> option Z) (ms1 : list member) (k : bytes) (ms2 : list member),
    Forall (eq JNull) (values_of k ms1) ->
    visit parse_ts (ms1 ++ (k, JNull) :: ms2) = visit parse_ts (ms1 ++ ms2).
Proof. exact null_before_value_is_noop. Qed.

(* decoding never panics and fails only with PayloadError *)
Theorem C14_visit_total :
  forall (parse_ts : bytes -> option Z) (ms : list member),
    (exists c, visit parse_ts ms = Ok c) \/ visit parse_ts ms = Err PayloadError.
Proof. exact visit_total. Qed.

(* ---------------------------------------------------------------- Json<T> payload / footer *)

Theorem C14_json_payload_transparent :
  forall (T : Type) (to_vec : T -> option bytes) (from_slice : bytes -> option T),
    (forall x b, json_payload_encode T to_vec x = Ok b <-> to_vec x = Some b) /\
    (forall b x, json_payload_decode T from_slice b = Ok x <-> from_slice b = Some x) /\
    (forall b, from_slice b = None -> json_payload_decode T from_slice b = Err PayloadError).
Proof. exact json_payload_transparent. Qed.

Theorem C14_json_footer_transparent :
  forall (T : Type) (to_vec : T -> option bytes) (from_slice : bytes -> option T),
    (forall x b, json_footer_encode T to_vec x = Ok b <-> to_vec x = Some b) /\
    json_footer_decode T from_slice [] = Err PayloadError /\
    (forall b x, json_footer_decode T from_slice b = Ok x <-> b <> [] /\ from_slice b = Some x).
Proof. exact json_footer_transparent. Qed.

Theorem C14_json_round_trip :
  forall (T : Type) (to_vec : T -> option bytes) (from_slice : bytes -> option T) (x : T) (b : bytes),
    to_vec x = Some b -> from_slice b = Some x ->
    (b' <- json_payload_encode T to_vec x ;; json_payload_decode T from_slice b') = Ok x /\
    (b <> [] -> (b' <- json_footer_encode T to_vec x ;; json_footer_decode T from_slice b') = Ok x).
Proof. exact json_round_trip. Qed.

(* ---------------------------------------------------------------- (g) non-vacuity *)

(* the round-trip premise is satisfiable: a toy text layer (sign, then |t| in unary) obeys it for all t *)
Example C14_premise_satisfiable : forall t, toy_parse (toy_fmt t) = Some t.
Proof. exact toy_law. Qed.

Definition ex_claims : claims :=
  {| iss := Some (str "issuer"); sub := None; aud := Some [x00; x22; x5c];
     exp := Some 1000; nbf := Some (-3); iat := None; jti := Some [] |}.

Example C14_round_trip_instance :
  members_of toy_fmt ex_claims =
    [(k_iss, JStr (str "issuer")); (k_aud, JStr [x00; x22; x5c]);
     (k_exp, JStr (toy_fmt 1000)); (k_nbf, JStr (str "-111")); (k_jti, JStr [])] /\
  visit toy_parse (members_of toy_fmt ex_claims) = Ok ex_claims.
Proof. split; vm_compute; reflexivity. Qed.

Definition ex_unknown : jvalue := JObj [(k_iss, JArr [JNum (str "1e999"); JBadStr; JNull])].

Example C14_decoding_instances :
  (* unknown members (nested, with a registered name inside), reordered *)
  visit toy_parse [(str "x", ex_unknown); (k_jti, JStr []); (k_nbf, JStr (str "-111")); (str "is", JBool true);
                   (k_exp, JStr (toy_fmt 1000)); (k_aud, JStr [x00; x22; x5c]); (k_sub, JNull);
                   (k_iss, JStr (str "issuer"))] = Ok ex_claims /\
  (* null then a value: accepted; a value then null / the same value / another value: rejected *)
  visit toy_parse [(k_iss, JNull); (k_iss, JStr (str "a"))] = visit toy_parse [(k_iss, JStr (str "a"))] /\
  visit toy_parse [(k_iss, JStr (str "a")); (k_iss, JNull)] = Err PayloadError /\
  visit toy_parse [(k_iss, JStr (str "a")); (str "x", JNull); (k_iss, JStr (str "a"))] = Err PayloadError /\
  visit toy_parse [(k_exp, JStr (str "+1")); (k_exp, JStr (str "+11"))] = Err PayloadError /\
  (* wrong types, text jiff does not parse, strings that are not Unicode *)
  visit toy_parse [(k_sub, JNum (str "1"))] = Err PayloadError /\
  visit toy_parse [(k_sub, JBadStr)] = Err PayloadError /\
  visit toy_parse [(k_iat, JStr (str "soon"))] = Err PayloadError /\
  visit toy_parse [(str "other", JBadStr)] = Ok empty_claims /\
  decode_value toy_parse (JArr []) = Err PayloadError /\
  (* with a repeated name the order does matter: the NoDup hypothesis of C14_order_independent is needed *)
  visit toy_parse [(k_iss, JStr (str "a")); (k_iss, JNull)] <> visit toy_parse [(k_iss, JNull); (k_iss, JStr (str "a"))] /\
  (* the generic reader's view *)
  last_value k_iss [(k_iss, JNull); (str "x", JNull); (k_iss, JStr (str "a"))] = Some (JStr (str "a")).
Proof. vm_compute. repeat split; discriminate. Qed.

Print Assumptions C14_round_trip.
Print Assumptions C14_round_trip_unbounded.
Print Assumptions C14_round_trip_document.
Print Assumptions C14_wire_form_members.
Print Assumptions C14_wire_form_members_generic.
Print Assumptions C14_absent_claims_are_omitted.
Print Assumptions C14_no_null_is_written.
Print Assumptions C14_only_registered_names_are_written.
Print Assumptions C14_wire_form_order.
Print Assumptions C14_wire_form_no_duplicate_names.
Print Assumptions C14_unknown_member_ignored.
Print Assumptions C14_only_registered_members_matter.
Print Assumptions C14_order_independent.
Print Assumptions C14_order_independent_ok.
Print Assumptions C14_order_independent_general.
Print Assumptions C14_agrees_with_generic_reader.
Print Assumptions C14_success_means_well_typed.
Print Assumptions C14_acceptance_exact.
Print Assumptions C14_duplicate_after_value_rejected.
Print Assumptions C14_null_before_value_is_noop.
Print Assumptions C14_visit_total.
Print Assumptions C14_json_payload_transparent.
Print Assumptions C14_json_footer_transparent.
Print Assumptions C14_json_round_trip.
