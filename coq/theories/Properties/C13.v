(* C13 — Key IDs are the spec's hash of the key's PASERK text, stable, domain-separated. *)
From PV Require Import Bytes Result Base64 Text TextProofs Oracle Keys KeysProofs ToyOracle.
Local Open Scope list_scope.

(* the id is, by definition of the model (mirroring KeyId::from and IdVersion::hash_key), the 33-byte digest
   of "kN" || id header || PASERK text of the key: SHA-384 truncated (k1, k3), BLAKE2b-264 (k2, k4) *)
Theorem C13_id_definition : forall O b k obj text,
  key_to_text O b k obj = Ok text -> key_id O b k obj = Ok (hash33 O b (paserk_ver b ++ id_hdr k ++ text)).
Proof. intros O b k obj text H. unfold key_id. rewrite H. reflexivity. Qed.

Theorem C13_id_is_33_bytes : forall O, laws O -> forall b k obj id, key_id O b k obj = Ok id -> length id = 33.
Proof. exact key_id_len. Qed.

(* the two backends of a version compute the same id from the same key object *)
Theorem C13_v3_backends_same_id : forall O k obj, key_encode O B3 k obj = key_encode O B3A k obj -> key_id O B3 k obj = key_id O B3A k obj.
Proof. intros O k obj H. unfold key_id, key_to_text. rewrite H. reflexivity. Qed.
Theorem C13_v4_backends_same_id : forall O k obj, key_encode O B4 k obj = key_encode O B4S k obj -> key_id O B4 k obj = key_id O B4S k obj.
Proof. intros O k obj H. unfold key_id, key_to_text. rewrite H. reflexivity. Qed.

(* ids round-trip through their text form *)
Theorem C13_id_text_roundtrip : forall O, laws O -> forall b k obj id,
  key_id O b k obj = Ok id ->
  key_id_text O b k obj = Ok (print_paserk (paserk_ver b) (id_hdr k) id) /\
  parse_keyid (paserk_ver b) (id_hdr k) (print_paserk (paserk_ver b) (id_hdr k) id) = Ok id.
Proof. exact key_id_text_roundtrip. Qed.

(* text ids must decode to exactly 33 bytes (C09's theorem, restated) *)
Theorem C13_id_text_33 : forall ver kind s id, parse_keyid ver kind s = Ok id -> length id = 33.
Proof.
  intros ver kind s id. unfold parse_keyid.
  destruct (strip_prefix ver s); cbn [ok_or bind]; [|discriminate].
  destruct (strip_prefix kind b); cbn [ok_or bind]; [|discriminate].
  destruct (decode_fixed 33 b0) as [d| |]; cbn [bind]; try discriminate.
  destruct (Nat.eqb_spec (length d) 33); [|discriminate]. intros E; inversion E; subst. assumption.
Qed.

(* stable: the id is a function of the key object, so every input that decodes to the same key (PEM or DER,
   clone, serialise and parse) has the same id *)
Theorem C13_id_stable : forall O b k bs bs' obj,
  key_decode O b k bs = Ok obj -> key_decode O b k bs' = Ok obj ->
  (obj' <- key_decode O b k bs ;; key_id O b k obj') = (obj' <- key_decode O b k bs' ;; key_id O b k obj').
Proof. exact key_id_of_decoded. Qed.

(* domain separation: lid / sid / pid hash different strings; equal ids exhibit a collision *)
Theorem C13_domain_separated : forall b k k' text text',
  id_hdr k <> id_hdr k' -> paserk_ver b ++ id_hdr k ++ text <> paserk_ver b ++ id_hdr k' ++ text'.
Proof. exact id_inputs_differ. Qed.
Theorem C13_equal_ids_are_collisions : forall O b k k' obj obj' id text text',
  id_hdr k <> id_hdr k' ->
  key_to_text O b k obj = Ok text -> key_to_text O b k' obj' = Ok text' ->
  key_id O b k obj = Ok id -> key_id O b k' obj' = Ok id ->
  hash33 O b (paserk_ver b ++ id_hdr k ++ text) = hash33 O b (paserk_ver b ++ id_hdr k' ++ text') /\
  paserk_ver b ++ id_hdr k ++ text <> paserk_ver b ++ id_hdr k' ++ text'.
Proof. exact equal_ids_are_collisions. Qed.

Print Assumptions C13_id_definition.
Print Assumptions C13_id_is_33_bytes.
Print Assumptions C13_v3_backends_same_id.
Print Assumptions C13_v4_backends_same_id.
Print Assumptions C13_id_text_roundtrip.
Print Assumptions C13_id_text_33.
Print Assumptions C13_id_stable.
Print Assumptions C13_domain_separated.
Print Assumptions C13_equal_ids_are_collisions.

(* non-vacuity: the premises of the theorems above ([laws O] and the four point-encoder facts) have a model *)
Theorem C13_premises_satisfiable : exists O, laws O /\
  (forall sd, ed_pk_weak (ed_pk O sd) = false) /\
  (forall sd, na_point_valid (ed_pk O sd) = true) /\
  (forall bs pk, p384_parse O bs = Some pk -> compressed_tag pk = true) /\
  (forall sk pk, p384_pk O sk = Some pk -> compressed_tag pk = true).
Proof. exists toy. split; [exact toy_laws | exact toy_key_premises]. Qed.
Print Assumptions C13_premises_satisfiable.
