(* C13 — Key IDs are the spec's hash of the key's PASERK text, stable, domain-separated. *)
From PV Require Import Bytes Result Base64 Text TextProofs Oracle Keys KeysProofs KeysProofs2 ToyOracle KeyIdRules.
From PV.Gen Require Import KeyIdImpls.
Local Open Scope list_scope.

(* the id is, by definition of the model (mirroring KeyId::from and IdVersion::hash_key), the 33-byte digest
   of "kN" || id header || PASERK text of the key: SHA-384 truncated (k1, k3), BLAKE2b-264 (k2, k4) *)
Theorem C13_id_definition : forall O b k obj text,
  key_to_text O b k obj = Ok text -> key_id O b k obj = Ok (hash33 O b (paserk_ver b ++ id_hdr k ++ text)).
Proof. intros O b k obj text H. unfold key_id. rewrite H. reflexivity. Qed.

Theorem C13_id_is_33_bytes : forall O, laws O -> forall b k obj id, key_id O b k obj = Ok id -> length id = 33.
Proof. exact key_id_len. Qed.

(* the two backends of a version give the same id to the same SERIALISED key, whenever both accept it (the
   key objects themselves differ: ed25519-dalek keeps the 32-byte seed, libsodium the 64 stored bytes) *)
Theorem C13_v3_backends_same_id : forall O bs k o1 o2,
  key_decode O B3 k bs = Ok o1 -> key_decode O B3A k bs = Ok o2 -> key_id O B3 k o1 = key_id O B3A k o2.
Proof. exact v3_backends_same_id. Qed.
Theorem C13_v4_backends_same_id : forall O bs k o1 o2,
  key_decode O B4 k bs = Ok o1 -> key_decode O B4S k bs = Ok o2 -> key_id O B4 k o1 = key_id O B4S k o2.
Proof. exact v4_backends_same_id. Qed.

(* ids round-trip through their text form *)
Theorem C13_id_text_roundtrip : forall O, laws O -> forall b k obj id,
  key_id O b k obj = Ok id ->
  key_id_text O b k obj = Ok (print_paserk (paserk_ver b) (id_hdr k) id) /\
  parse_keyid (paserk_ver b) (id_hdr k) (print_paserk (paserk_ver b) (id_hdr k) id) = Ok id.
Proof. exact key_id_text_roundtrip. Qed.

(* text ids must decode to exactly 33 bytes (C09's theorem, restated) *)
Theorem C13_id_text_33 : forall ver kind s id, parse_keyid ver kind s = Ok id -> length id = 33.
Proof.
  intros ver kind s id. unfold parse_keyid.
  destruct (strip_prefix ver s); cbn [ok_or bind]; [|discriminate].
  destruct (strip_prefix kind b); cbn [ok_or bind]; [|discriminate].
  destruct (decode_fixed 33 b0) as [d| |]; cbn [bind]; try discriminate.
  destruct (Nat.eqb_spec (length d) 33); [|discriminate]. intros E; inversion E; subst. assumption.
Qed.

(* stable: serialising an accepted key and parsing it back gives the same key object, hence the same id
   (v1: "the RSA parser returns canonical DER unchanged" is a fact about that parser — correspondence only) *)
Theorem C13_id_stable_across_serialisation : forall O, laws O ->
  (forall sd, ed_pk_weak (ed_pk O sd) = false) ->
  (forall bs pk, p384_parse O bs = Some pk -> compressed_tag pk = true) ->
  forall b k bs0 obj bs obj',
  b <> B1 -> key_decode O b k bs0 = Ok obj -> key_encode O b k obj = Ok bs -> key_decode O b k bs = Ok obj' ->
  obj' = obj /\ key_id O b k obj' = key_id O b k obj.
Proof. exact key_id_stable_across_serialisation. Qed.

(* domain separation: lid / sid / pid hash different strings; equal ids exhibit a collision *)
Theorem C13_domain_separated : forall b k k' text text',
  id_hdr k <> id_hdr k' -> paserk_ver b ++ id_hdr k ++ text <> paserk_ver b ++ id_hdr k' ++ text'.
Proof. exact id_inputs_differ. Qed.
Theorem C13_equal_ids_are_collisions : forall O b k k' obj obj' id text text',
  id_hdr k <> id_hdr k' ->
  key_to_text O b k obj = Ok text -> key_to_text O b k' obj' = Ok text' ->
  key_id O b k obj = Ok id -> key_id O b k' obj' = Ok id ->
  hash33 O b (paserk_ver b ++ id_hdr k ++ text) = hash33 O b (paserk_ver b ++ id_hdr k' ++ text') /\
  paserk_ver b ++ id_hdr k ++ text <> paserk_ver b ++ id_hdr k' ++ text'.
Proof. exact equal_ids_are_collisions. Qed.

(* ---- equality, ordering and hashing of key ids agree with their bytes: the hand-written impls in id.rs delegate
        to the byte array (their bodies are regenerated from the source on every run), and byte-array equality /
        lexicographic order / hashing have the laws callers rely on ---- *)
Theorem C13_keyid_impls_delegate_to_bytes :
  gen_keyid_fields = expected_keyid_fields /\ gen_keyid_impls = expected_keyid_impls.
Proof. exact keyid_impls_delegate. Qed.
Theorem C13_keyid_eq_is_byte_equality : forall a b, keyid_eq a b = true <-> a = b.
Proof. exact keyid_eq_iff. Qed.
Theorem C13_keyid_ord_consistent_with_eq : forall a b, keyid_cmp a b = Eq <-> keyid_eq a b = true.
Proof. exact keyid_ord_consistent_with_eq. Qed.
Theorem C13_keyid_cmp_antisymmetric : forall a b, keyid_cmp b a = CompOpp (keyid_cmp a b).
Proof. exact keyid_cmp_antisym. Qed.
Theorem C13_keyid_cmp_transitive : forall a b c, keyid_cmp a b = Lt -> keyid_cmp b c = Lt -> keyid_cmp a c = Lt.
Proof. exact keyid_cmp_trans. Qed.
Theorem C13_keyid_hash_respects_eq : forall (H : Type) (hasher : bytes -> H) a b, keyid_eq a b = true -> hasher a = hasher b.
Proof. exact @keyid_hash_respects_eq. Qed.

Print Assumptions C13_keyid_impls_delegate_to_bytes.
Print Assumptions C13_keyid_eq_is_byte_equality.
Print Assumptions C13_keyid_ord_consistent_with_eq.
Print Assumptions C13_keyid_cmp_antisymmetric.
Print Assumptions C13_keyid_cmp_transitive.
Print Assumptions C13_keyid_hash_respects_eq.
Print Assumptions C13_id_definition.
Print Assumptions C13_id_is_33_bytes.
Print Assumptions C13_v3_backends_same_id.
Print Assumptions C13_v4_backends_same_id.
Print Assumptions C13_id_text_roundtrip.
Print Assumptions C13_id_text_33.
Print Assumptions C13_id_stable_across_serialisation.
Print Assumptions C13_domain_separated.
Print Assumptions C13_equal_ids_are_collisions.

(* non-vacuity: the premises of the theorems above ([laws O] and the four point-encoder facts) have a model *)
Theorem C13_premises_satisfiable : exists O, laws O /\
  (forall sd, ed_pk_weak (ed_pk O sd) = false) /\
  (forall sd, na_point_valid (ed_pk O sd) = true) /\
  (forall bs pk, p384_parse O bs = Some pk -> compressed_tag pk = true) /\
  (forall sk pk, p384_pk O sk = Some pk -> compressed_tag pk = true).
Proof. exists toy. split; [exact toy_laws | exact toy_key_premises]. Qed.
Print Assumptions C13_premises_satisfiable.
