(* C04 — No input makes parsing, unsealing, unwrapping or key use panic.
   (a) the modelled glue never takes a Panic branch, for all inputs; (b) the inventory of panicking constructs
   regenerated from /repo is covered by the reviewed list.  Memory safety of the FFI code is outside any
   Gallina model (see DESIGN.md: partial clause). *)
From PV Require Import Bytes Result Base64 Base64Proofs Text TextProofs Oracle Local Public LocalProofs PublicProofs
  Paserk PaserkProofs Keys KeysProofs NoPanic PanicCover PanicCoverProofs.
From PV Require Import AuthOrder GuardRules.
From PV.Gen Require Import Guards.
From PV.Gen Require Import PanicSites.
Local Open Scope string_scope.
Local Open Scope list_scope.

(* ---- parsers ---- *)
Theorem C04_paserk_parse_no_panic : forall ver kind s, is_panic (parse_paserk ver kind s) = false.
Proof. exact paserk_parse_no_panic. Qed.
Theorem C04_keyid_parse_no_panic : forall ver kind s, is_panic (parse_keyid ver kind s) = false.
Proof. exact keyid_parse_no_panic. Qed.
Theorem C04_token_parse_no_panic : forall F (fdec : bytes -> option F) hdr sfx pur s,
  is_panic (parse_token fdec hdr sfx pur s) = false.
Proof. exact @token_parse_no_panic. Qed.

(* ---- keys: every byte string offered as a key; every accepted key can be displayed, identified, used ---- *)
Theorem C04_key_decode_no_panic : forall O b k bs, is_panic (key_decode O b k bs) = false.
Proof. exact key_decode_no_panic. Qed.
Theorem C04_key_from_str_no_panic : forall O b k s, is_panic (key_from_str O b k s) = false.
Proof. exact key_from_str_no_panic. Qed.
Theorem C04_accepted_key_encodes : forall O b k bs obj,
  key_decode O b k bs = Ok obj -> is_panic (key_encode O b k obj) = false.
Proof. exact key_encode_no_panic. Qed.
Theorem C04_accepted_key_displays_and_has_id : forall O b k bs obj,
  key_decode O b k bs = Ok obj ->
  is_panic (key_to_text O b k obj) = false /\ is_panic (key_id_text O b k obj) = false.
Proof. exact key_text_and_id_no_panic. Qed.
Theorem C04_accepted_secret_key_has_public_key : forall O b bs sk,
  key_decode O b KSecret bs = Ok sk -> is_panic (public_of O b sk) = false.
Proof. exact public_of_no_panic. Qed.

(* ---- unseal / unwrap / unseal-key on arbitrary bytes ---- *)
Theorem C04_local_unseal_no_panic : forall (P : lparams) key enc p f a, is_panic (lg_unseal P key enc p f a) = false.
Proof. exact lg_unseal_no_panic. Qed.
Theorem C04_v2_local_unseal_no_panic : forall O key enc p f a, is_panic (v2_local_unseal O key enc p f a) = false.
Proof. exact v2_unseal_no_panic. Qed.
Theorem C04_pie_unwrap_no_panic : forall (P : pie_params) header wk d, is_panic (pie_unwrap P header wk d) = false.
Proof. exact pie_unwrap_no_panic. Qed.
Theorem C04_pbkw_unwrap_no_panic : forall O P header pass d, In P (all_pw O) -> is_panic (pw_unwrap P header pass d) = false.
Proof. intros O P header pass d HP. exact (pw_unwrap_no_panic P header pass d (all_pw_prekey_no_panic O P HP)). Qed.
Theorem C04_v3_unseal_key_no_panic : forall O W bad sk data,
  p384_pk O sk <> None -> is_panic (v3_pke_unseal_gen O W bad sk data) = false.
Proof. exact v3_pke_unseal_no_panic. Qed.
Theorem C04_x25519_unseal_key_no_panic : forall O ver strict xpk_of sk data,
  is_panic (x_pke_unseal O ver strict xpk_of sk data) = false.
Proof. exact x_pke_unseal_no_panic. Qed.
Theorem C04_v1_unseal_key_no_panic : forall O sk data, is_panic (v1_pke_unseal O sk data) = false.
Proof. exact v1_pke_unseal_no_panic. Qed.
(* sealing to a parsed public key: the `decompress().unwrap()` of the v2 / v4 code is unreachable *)
Theorem C04_seal_to_parsed_key_no_panic : forall O bs pk key r,
  (forall p, ed_pk_ok O p = true -> x_of_edpk O p <> None) ->
  dalek_decode_public O bs = Ok pk -> is_panic (x_pke_seal O (str "k4") false pk key r) = false.
Proof. exact v4_pke_seal_no_panic. Qed.
(* aws-lc: the scalar of an accepted key fits the 48-byte buffer of SigningKey::encode (its asserts are unreachable) *)
Theorem C04_awslc_encode_assert_unreachable : forall sk, length sk = 48 -> lc_encode_secret sk = Ok sk.
Proof. exact lc_encode_is_identity. Qed.

(* ---- the source inventory ---- *)
Theorem C04_every_panic_site_is_reviewed :
  forall s, In s gen_panic_sites -> exists c, In c panic_cover /\ covers s c = true.
Proof. exact inventory_covered_forall. Qed.
Theorem C04_only_dangerous_seal_is_out_of_scope :
  forallb (fun p => String.eqb (snd p) "dangerous_seal_with_nonce") out_of_scope_sites = true.
Proof. exact out_of_scope_is_dangerous_only. Qed.

(* public-token unseal of all six backends *)
Theorem C04_public_unseal_no_panic : forall O (P : pparams),
  In P [v1_pparams O; v2_pparams O; v3_pparams O; lc_pparams O; v4_pparams O; na_pparams O] ->
  forall pk enc p f a, is_panic (pg_unseal P pk enc p f a) = false.
Proof. intros O P HP pk enc p f a. exact (pg_unseal_no_panic P pk enc p f a (pparams_check_no_panic O P HP)). Qed.

(* ---- the four `fn unseal` that split their input with PANICKING operations after a length guard.  Their
        mirrors contain the Panic branches (Rs.v), so these are theorems about the guards, and the guard and
        split constants are those of the Rust source: Gen/Guards.v is regenerated from it on every run ---- *)
Theorem C04_awslc_local_unseal_no_panic : forall O key enc p f a, is_panic (lc_local_unseal O key enc p f a) = false.
Proof. exact lc_local_unseal_no_panic. Qed.
Theorem C04_awslc_public_unseal_no_panic : forall O pk enc p f a, is_panic (lc_public_unseal O pk enc p f a) = false.
Proof. exact lc_public_unseal_no_panic. Qed.
Theorem C04_v4_public_unseal_no_panic : forall O pk enc p f a, is_panic (v4_public_unseal O pk enc p f a) = false.
Proof. exact v4_public_unseal_no_panic. Qed.
Theorem C04_v2_public_unseal_no_panic : forall O pk enc p f a, is_panic (v2_public_unseal O pk enc p f a) = false.
Proof. exact v2_public_unseal_no_panic. Qed.
Theorem C04_guards_are_the_sources : gen_guards = model_guards.
Proof. exact guards_tied. Qed.
Theorem C04_guards_cover_every_split : forallb (fun r => ops_safe 0 None (snd r)) gen_guards = true.
Proof. exact guards_sufficient. Qed.

Print Assumptions C04_awslc_local_unseal_no_panic.
Print Assumptions C04_awslc_public_unseal_no_panic.
Print Assumptions C04_v4_public_unseal_no_panic.
Print Assumptions C04_v2_public_unseal_no_panic.
Print Assumptions C04_guards_are_the_sources.
Print Assumptions C04_guards_cover_every_split.
Print Assumptions C04_public_unseal_no_panic.
Print Assumptions C04_paserk_parse_no_panic.
Print Assumptions C04_keyid_parse_no_panic.
Print Assumptions C04_token_parse_no_panic.
Print Assumptions C04_key_decode_no_panic.
Print Assumptions C04_key_from_str_no_panic.
Print Assumptions C04_accepted_key_encodes.
Print Assumptions C04_accepted_key_displays_and_has_id.
Print Assumptions C04_accepted_secret_key_has_public_key.
Print Assumptions C04_local_unseal_no_panic.
Print Assumptions C04_v2_local_unseal_no_panic.
Print Assumptions C04_pie_unwrap_no_panic.
Print Assumptions C04_pbkw_unwrap_no_panic.
Print Assumptions C04_v3_unseal_key_no_panic.
Print Assumptions C04_x25519_unseal_key_no_panic.
Print Assumptions C04_v1_unseal_key_no_panic.
Print Assumptions C04_seal_to_parsed_key_no_panic.
Print Assumptions C04_awslc_encode_assert_unreachable.
Print Assumptions C04_every_panic_site_is_reviewed.
Print Assumptions C04_only_dangerous_seal_is_out_of_scope.
