(* C11 — claims are released only if the validator accepts; built-in validators are exact. *)
From PV Require Import Bytes Result Text Tokens TokensProofs Validation ValidationProofs ClaimsBuilder.
Local Open Scope Z_scope.

(* unsealing returns claims only when the supplied validator accepted exactly those claims *)
Theorem C11_released_only_if_validated :
  forall (Claims Foot UKey : Type)
         (v_unseal : UKey -> bytes -> bytes -> bytes -> bytes -> result bytes)
         (m_suffix : bytes) (m_decode : bytes -> option Claims) (validate : Claims -> result unit)
         (k : UKey) (tok : token) (fv : Foot) (aad : bytes) (m : Claims) (f : Foot),
    fst (unseal v_unseal m_suffix m_decode validate k tok fv aad) = Ok (m, f) ->
    validate m = Ok tt /\ f = fv.
Proof. exact @released_only_if_validated. Qed.

(* ... and a validator error is what unsealing returns (a claims error for the built-in ones) *)
Theorem C11_validator_rejection_is_returned :
  forall (Claims Foot UKey : Type)
         (v_unseal : UKey -> bytes -> bytes -> bytes -> bytes -> result bytes)
         (m_suffix : bytes) (m_decode : bytes -> option Claims) (validate : Claims -> result unit)
         (k : UKey) (tok : token) (fv : Foot) (aad clear : bytes) (m : Claims) (e : err),
    v_unseal k m_suffix (t_payload tok) (t_footer tok) aad = Ok clear ->
    m_decode clear = Some m -> validate m = Err e ->
    fst (unseal (Foot := Foot) v_unseal m_suffix m_decode validate k tok fv aad) = Err e.
Proof. exact @validator_rejection_is_returned. Qed.

Theorem C11_time :
  forall now c,
    validate (VTime now) c = Ok tt <->
    (match exp c with Some e => now <= e | None => True end) /\
    (match nbf c with Some n => n <= now | None => True end).
Proof. exact time_exact. Qed.

Theorem C11_time_otherwise_claims_error :
  forall now c, validate (VTime now) c = Ok tt \/ validate (VTime now) c = Err ClaimsError.
Proof. exact time_rejects_with_claims_error. Qed.

Theorem C11_time_with_leeway :
  forall now leeway c,
    ts_ok (now - leeway) = true -> ts_ok (now + leeway) = true ->
    (validate (VTimeLeeway now leeway) c = Ok tt <->
     (match exp c with Some e => now - leeway <= e | None => True end) /\
     (match nbf c with Some n => n <= now + leeway | None => True end)).
Proof. exact leeway_exact. Qed.

Theorem C11_leeway_otherwise_claims_error :
  forall now leeway c,
    ts_ok (now - leeway) = true -> ts_ok (now + leeway) = true ->
    validate (VTimeLeeway now leeway) c = Ok tt \/ validate (VTimeLeeway now leeway) c = Err ClaimsError.
Proof. exact leeway_no_panic. Qed.

Theorem C11_has_expiry : forall c, validate VHasExpiry c = Ok tt <-> exists e, exp c = Some e.
Proof. exact has_expiry_exact. Qed.
Theorem C11_for_subject : forall s c, validate (VForSubject s) c = Ok tt <-> sub c = Some s.
Proof. exact for_subject_exact. Qed.
Theorem C11_from_issuer : forall s c, validate (VFromIssuer s) c = Ok tt <-> iss c = Some s.
Proof. exact from_issuer_exact. Qed.
Theorem C11_for_audience : forall s c, validate (VForAudience s) c = Ok tt <-> aud c = Some s.
Proof. exact for_audience_exact. Qed.
Theorem C11_no_validation : forall c, validate VNoValidation c = Ok tt.
Proof. exact no_validation_accepts. Qed.

Theorem C11_and_then :
  forall a b c, validate (VAndThen a b) c = Ok tt <-> validate a c = Ok tt /\ validate b c = Ok tt.
Proof. exact and_then_exact. Qed.
Theorem C11_slice :
  forall l c, validate (VSlice l) c = Ok tt <-> Forall (fun v => validate v c = Ok tt) l.
Proof. exact slice_exact. Qed.
Theorem C11_vec :
  forall l c, validate (VVec l) c = Ok tt <-> Forall (fun v => validate v c = Ok tt) l.
Proof. exact vec_exact. Qed.
Theorem C11_box_rc_arc_transparent :
  forall v c, validate (VBox v) c = validate v c /\ validate (VRc v) c = validate v c /\
              validate (VArc v) c = validate v c.
Proof. exact wrappers_transparent. Qed.
Theorem C11_map : forall k v c, validate (VMap k v) c = validate v (transform k c).
Proof. exact map_validates_projection. Qed.

(* non-vacuity: a claim set on the boundary *)
Example C11_boundary :
  let c := {| iss := None; sub := None; aud := None; exp := Some 1000; nbf := Some 990; iat := None; jti := None |} in
  validate (VTime 1000) c = Ok tt /\ validate (VTime 1001) c = Err ClaimsError /\
  validate (VTimeLeeway 1010 10) c = Ok tt /\ validate (VTimeLeeway 1011 10) c = Err ClaimsError /\
  validate (VTimeLeeway 980 10) c = Ok tt /\ validate (VTimeLeeway 979 10) c = Err ClaimsError.
Proof. vm_compute. repeat split. Qed.

(* ---- the claim builder (RegisteredClaims::new and the setters): what it builds is valid exactly in the window
        [now, now + d], has an expiry, and carries what the setters put in; `now + d` outside jiff's range panics ---- *)
Theorem C11_builder_valid_window : forall now d c t,
  claims_new now d = Ok c -> (validate (VTime t) c = Ok tt <-> (now <= t <= now + d)%Z).
Proof. exact builder_valid_window. Qed.
Theorem C11_builder_has_expiry : forall now d c, claims_new now d = Ok c -> validate VHasExpiry c = Ok tt.
Proof. exact builder_has_expiry. Qed.
Theorem C11_builder_total_in_range : forall now d, ts_ok (now + d) = true -> exists c, claims_new now d = Ok c.
Proof. exact builder_total_in_range. Qed.
Theorem C11_builder_setters_accepted : forall c s,
  validate (VFromIssuer s) (from_issuer c s) = Ok tt /\
  validate (VForAudience s) (for_audience c s) = Ok tt /\
  validate (VForSubject s) (for_subject c s) = Ok tt.
Proof. exact setters_are_accepted. Qed.
Theorem C11_builder_setters_reject_other_values : forall c s s', s <> s' ->
  validate (VFromIssuer s') (from_issuer c s) = Err ClaimsError /\
  validate (VForAudience s') (for_audience c s) = Err ClaimsError /\
  validate (VForSubject s') (for_subject c s) = Err ClaimsError.
Proof. exact setters_reject_other_values. Qed.

Print Assumptions C11_builder_valid_window.
Print Assumptions C11_builder_has_expiry.
Print Assumptions C11_builder_total_in_range.
Print Assumptions C11_builder_setters_accepted.
Print Assumptions C11_builder_setters_reject_other_values.
Print Assumptions C11_released_only_if_validated.
Print Assumptions C11_validator_rejection_is_returned.
Print Assumptions C11_time.
Print Assumptions C11_time_otherwise_claims_error.
Print Assumptions C11_time_with_leeway.
Print Assumptions C11_leeway_otherwise_claims_error.
Print Assumptions C11_has_expiry.
Print Assumptions C11_for_subject.
Print Assumptions C11_from_issuer.
Print Assumptions C11_for_audience.
Print Assumptions C11_no_validation.
Print Assumptions C11_and_then.
Print Assumptions C11_slice.
Print Assumptions C11_vec.
Print Assumptions C11_box_rc_arc_transparent.
Print Assumptions C11_map.
