(* C05 — Wrapping, password-wrapping or sealing a key and undoing it returns the same key; the serialised
   form has the fixed length the format prescribes. *)
From PV Require Import Bytes Result Oracle Local Paserk PaserkProofs BigEndian ToyOracle.
From PV.NonVacuity Require Import Toy2.
Local Open Scope list_scope.

(* PIE, all six backends, every nonce the RNG can return *)
Theorem C05_pie_roundtrip : forall O, laws O -> forall P header wk key nonce,
  In P (all_pie O) -> length nonce = 32 ->
  exists blob, pie_wrap P header wk key nonce = Ok blob /\ pie_unwrap P header wk blob = Ok key /\
               length blob = pie_tlen P + 32 + length key.
Proof. exact pie_roundtrip_all. Qed.

(* PBKW, all six backends, every password (incl. empty), every parameter set the KDF step accepts *)
Theorem C05_pbkw_roundtrip : forall O, laws O -> forall P header pass params key salt nonce pre,
  In P (all_pw O) ->
  length salt = pw_salt_len P -> length params = pw_par_len P -> length nonce = pw_nonce_len P ->
  pw_prekey P pass salt params = Ok pre ->
  exists blob, pw_wrap P header pass params key salt nonce = Ok blob /\ pw_unwrap P header pass blob = Ok key /\
               length blob = pw_prefix_len P + length key + pw_tlen P.
Proof. exact pw_roundtrip_all. Qed.

(* PBKDF2 versions: the KDF step of the RustCrypto backends has no failure branch at all (it takes every
   iteration count, 0 included — definitional); the aws-lc backend refuses exactly the count 0 *)
Theorem C05_pbkdf2_total : forall O ver W pass salt params,
  exists pre, pw_prekey (pwA O ver W false) pass salt params = Ok pre.
Proof. exact pwA_prekey_total'. Qed.
Theorem C05_pbkdf2_total_awslc : forall O ver W pass salt params,
  (be_val params <> 0)%N -> exists pre, pw_prekey (pwA O ver W true) pass salt params = Ok pre.
Proof. exact pwA_prekey_total. Qed.

(* PKE v3 / v3-aws-lc: every honestly generated recipient and ephemeral key *)
Theorem C05_v3_pke_roundtrip : forall O, laws O -> forall W bad sk pk key esk epk,
  length key = 32 -> p384_pk O sk = Some pk -> p384_pk O esk = Some epk ->
  exists blob, v3_pke_seal O W pk key esk = Ok blob /\ v3_pke_unseal_gen O W bad sk blob = Ok key /\
               length blob = 48 + 49 + 32.
Proof. exact v3_pke_roundtrip_gen. Qed.

(* PKE v2 / v4 (RustCrypto: the key object is the seed) and v4-sodium (seed || public key) *)
Theorem C05_v4_pke_roundtrip : forall O, laws O -> forall seed key r,
  length key = 32 -> length seed = 32 ->
  exists blob, v4_pke_seal O (ed_pk O seed) key r = Ok blob /\ v4_pke_unseal O seed blob = Ok key /\ length blob = 96.
Proof. exact v4_pke_roundtrip. Qed.
Theorem C05_v2_pke_roundtrip : forall O, laws O -> forall seed key r,
  length key = 32 -> length seed = 32 ->
  exists blob, v2_pke_seal O (ed_pk O seed) key r = Ok blob /\ v2_pke_unseal O seed blob = Ok key /\ length blob = 96.
Proof. exact v2_pke_roundtrip. Qed.
Theorem C05_v4_sodium_pke_roundtrip : forall O, laws O -> forall seed key r,
  length key = 32 -> length seed = 32 -> x_mul O r (x_of_seed O seed) <> zero32 ->
  exists blob, na_pke_seal O (ed_pk O seed) key r = Ok blob /\
               na_pke_unseal O (seed ++ ed_pk O seed) blob = Ok key /\ length blob = 96.
Proof. exact na_pke_roundtrip. Qed.

(* PKE v1: every 512 drawn bytes and every RSA ciphertext value, leading zero bytes included *)
Theorem C05_v1_pke_roundtrip : forall O, laws O -> forall sk key r0 cn,
  length key = 32 -> length r0 = 512 ->
  rsa_enc O (rsa_pk O sk) (be_val (v1_mask_r r0)) = Some cn ->
  exists blob, v1_pke_seal O (rsa_pk O sk) key r0 = Ok blob /\ v1_pke_unseal O sk blob = Ok key /\
               length blob = 48 + 32 + 512.
Proof. exact v1_pke_roundtrip. Qed.

(* the defect repaired by "fix: paseto-v1 seal pads the RSA-KEM ciphertext to 512 bytes" *)
Theorem C05_v1_pke_minimal_refuted : forall O, laws O -> forall sk key r0 cn,
  length key = 32 -> (cn < 256 ^ N.of_nat 511)%N ->
  rsa_enc O (rsa_pk O sk) (be_val (v1_mask_r r0)) = Some cn ->
  exists blob, v1_pke_seal_minimal O (rsa_pk O sk) key r0 = Ok blob /\ length blob < 48 + 32 + 512.
Proof. exact v1_pke_minimal_refuted. Qed.

Print Assumptions C05_pie_roundtrip.
Print Assumptions C05_pbkw_roundtrip.
Print Assumptions C05_pbkdf2_total.
Print Assumptions C05_pbkdf2_total_awslc.
Print Assumptions C05_v3_pke_roundtrip.
Print Assumptions C05_v4_pke_roundtrip.
Print Assumptions C05_v2_pke_roundtrip.
Print Assumptions C05_v4_sodium_pke_roundtrip.
Print Assumptions C05_v1_pke_roundtrip.
Print Assumptions C05_v1_pke_minimal_refuted.

(* non-vacuity: the premise [laws O] of the theorems above has a model (ToyOracle.v) *)
Theorem C05_premises_satisfiable : exists O, laws O.
Proof. exact laws_satisfiable. Qed.
Print Assumptions C05_premises_satisfiable.

(* ... including the extra premise of the libsodium seal round trip (a non-zero shared secret), which the first
   toy oracle (all-zero shared secrets) does not meet *)
Theorem C05_sodium_premises_satisfiable : exists O, laws O /\ forall r xpk, x_mul O r xpk <> zero32.
Proof. exists toy2. split; [exact toy2_laws|]. intros r xpk. vm_compute. discriminate. Qed.
Print Assumptions C05_sodium_premises_satisfiable.
