(* C12 — Nothing from an unauthenticated token is decoded, validated or reported. *)
From PV Require Import Bytes Result Text Tokens TokensProofs Oracle Local Public LocalProofs PublicProofs AuthOrder TypeRules.
From PV.Gen Require Import Impls.
Local Open Scope string_scope.
Local Open Scope list_scope.

(* ---- pipeline: if the backend's unseal fails, that error is returned and the caller's payload
        decoder and validator were never invoked (the effect trace is empty) ---- *)
Theorem C12_unauthenticated_nothing_runs :
  forall (Claims Foot UKey : Type)
         (v_unseal : UKey -> bytes -> bytes -> bytes -> bytes -> result bytes)
         (m_suffix : bytes) (m_decode : bytes -> option Claims) (validate : Claims -> result unit)
         (k : UKey) (tok : token) (fv : Foot) (aad : bytes) (e : err),
    v_unseal k m_suffix (t_payload tok) (t_footer tok) aad = Err e ->
    unseal v_unseal m_suffix m_decode validate k tok fv aad = (Err e, []).
Proof. exact @unauthenticated_nothing_runs. Qed.

(* any decoder / validator invocation is preceded by a successful authentication, and the decoder is
   handed exactly the authenticated cleartext *)
Theorem C12_trace_only_after_authentication :
  forall (Claims Foot UKey : Type)
         (v_unseal : UKey -> bytes -> bytes -> bytes -> bytes -> result bytes)
         (m_suffix : bytes) (m_decode : bytes -> option Claims) (validate : Claims -> result unit)
         (k : UKey) (tok : token) (fv : Foot) (aad : bytes),
    snd (unseal v_unseal m_suffix m_decode validate k tok fv aad) <> [] ->
    exists clear, v_unseal k m_suffix (t_payload tok) (t_footer tok) aad = Ok clear /\
                  hd_error (snd (unseal v_unseal m_suffix m_decode validate k tok fv aad)) = Some (EvDecode clear).
Proof. exact @trace_only_after_authentication. Qed.

Theorem C12_validator_sees_only_authenticated_claims :
  forall (Claims Foot UKey : Type)
         (v_unseal : UKey -> bytes -> bytes -> bytes -> bytes -> result bytes)
         (m_suffix : bytes) (m_decode : bytes -> option Claims) (validate : Claims -> result unit)
         (k : UKey) (tok : token) (fv : Foot) (aad : bytes) (c : Claims),
    In (EvValidate c) (snd (unseal v_unseal m_suffix m_decode validate k tok fv aad)) ->
    exists clear, v_unseal k m_suffix (t_payload tok) (t_footer tok) aad = Ok clear /\ m_decode clear = Some c.
Proof. exact @validator_sees_only_decoded. Qed.

(* the reported error does not depend on the payload type (what the bytes would decode to) *)
Theorem C12_error_independent_of_payload_type :
  forall (Claims Foot UKey : Type)
         (v_unseal : UKey -> bytes -> bytes -> bytes -> bytes -> result bytes)
         (m_suffix : bytes) (m_decode : bytes -> option Claims) (validate : Claims -> result unit)
         (Claims2 : Type) (m_decode2 : bytes -> option Claims2) (validate2 : Claims2 -> result unit)
         (k : UKey) (tok : token) (fv : Foot) (aad : bytes) (e : err),
    v_unseal k m_suffix (t_payload tok) (t_footer tok) aad = Err e ->
    fst (unseal v_unseal m_suffix m_decode validate k tok fv aad) = Err e /\
    fst (unseal v_unseal m_suffix m_decode2 validate2 k tok fv aad) = Err e.
Proof. exact @unauthenticated_error_independent_of_payload_type. Qed.

(* ---- backends: the error is a function of (assertion gate, length class, tag validity) only ---- *)
Theorem C12_local_error_cases : forall (P : lparams) key enc p f a e,
  lg_unseal P key enc p f a = Err e <->
  (~ aad_ok P a /\ e = ClaimsError) \/
  (aad_ok P a /\ length p < 32 + lp_tlen P /\ e = InvalidToken) \/
  (aad_ok P a /\ 32 + lp_tlen P <= length p /\ e = CryptoError /\
   let rest := take (length p - lp_tlen P) p in
   lp_tag P key enc (take 32 rest) (drop 32 rest) f a <> drop (length p - lp_tlen P) p).
Proof. exact lg_unseal_error_cases. Qed.

Theorem C12_local_error_kinds : forall (P : lparams) key enc p f a e,
  lg_unseal P key enc p f a = Err e -> e = ClaimsError \/ e = InvalidToken \/ e = CryptoError.
Proof. exact lg_unseal_error_kinds. Qed.

Theorem C12_v2_error_kinds : forall O key enc p f a e,
  v2_local_unseal O key enc p f a = Err e -> e = ClaimsError \/ e = InvalidToken \/ e = CryptoError.
Proof. exact v2_unseal_error_kinds. Qed.

Theorem C12_public_error_kinds : forall O (P : pparams),
  In P [v1_pparams O; v2_pparams O; v3_pparams O; lc_pparams O; v4_pparams O; na_pparams O] ->
  forall pk enc p f a e,
    pg_unseal P pk enc p f a = Err e -> e = ClaimsError \/ e = InvalidToken \/ e = CryptoError.
Proof. intros O P HP. exact (pg_unseal_error_kinds P (pparams_check_errors O P HP)). Qed.

(* no unseal ever panics *)
Theorem C12_local_unseal_no_panic : forall (P : lparams) key enc p f a, is_panic (lg_unseal P key enc p f a) = false.
Proof. exact lg_unseal_no_panic. Qed.
Theorem C12_v2_unseal_no_panic : forall O key enc p f a, is_panic (v2_local_unseal O key enc p f a) = false.
Proof. exact v2_unseal_no_panic. Qed.
Theorem C12_public_unseal_no_panic : forall O (P : pparams),
  In P [v1_pparams O; v2_pparams O; v3_pparams O; lc_pparams O; v4_pparams O; na_pparams O] ->
  forall pk enc p f a, is_panic (pg_unseal P pk enc p f a) = false.
Proof. intros O P HP pk enc p f a. exact (pg_unseal_no_panic P pk enc p f a (pparams_check_no_panic O P HP)). Qed.

(* ---- API: the footer of a not-yet-verified token only through the accessor named "unverified" ---- *)
Theorem C12_api_inventory :
  sealed_token_fields_private gen_table = true /\ accessors_named_unverified gen_table = true /\
  sealed_token_traits_ok gen_table = true /\
  map m_name (sealed_token_accessors gen_table) = ["unverified_footer"].
Proof. exact api_inventory_ok. Qed.

Print Assumptions C12_unauthenticated_nothing_runs.
Print Assumptions C12_trace_only_after_authentication.
Print Assumptions C12_validator_sees_only_authenticated_claims.
Print Assumptions C12_error_independent_of_payload_type.
Print Assumptions C12_local_error_cases.
Print Assumptions C12_local_error_kinds.
Print Assumptions C12_v2_error_kinds.
Print Assumptions C12_public_error_kinds.
Print Assumptions C12_local_unseal_no_panic.
Print Assumptions C12_v2_unseal_no_panic.
Print Assumptions C12_public_unseal_no_panic.
Print Assumptions C12_api_inventory.
