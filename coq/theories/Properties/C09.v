(* C09 — text encodings are strict and canonical: one string per value and vice versa.
   Statements only; proofs are in Base64Proofs.v / TextProofs.v. *)
From PV Require Import Bytes Result Base64 Base64Tables Base64Proofs Text TextProofs.

(* base64url, unpadded: every byte string encodes to a string that decodes back to it *)
Theorem C09_base64_roundtrip : forall bs : bytes, decode_vec (encode bs) = Ok bs.
Proof. exact decode_encode. Qed.

(* ... and an accepted string is exactly the encoding of its value (canonical trailing bits, no
   padding, no foreign characters): one string per value *)
Theorem C09_base64_canonical : forall (s bs : bytes), decode_vec s = Ok bs -> encode bs = s.
Proof. exact decode_canonical. Qed.

(* the alphabet is RFC 4648 §5 (URL-safe) and nothing else: '=', '+', '/', whitespace, '.',
   non-ASCII bytes are rejected wherever they occur *)
Theorem C09_base64_alphabet : forall b : byte, decode_6bits b = rfc4648_url b.
Proof. exact d6_is_rfc4648. Qed.

Theorem C09_base64_rejects_foreign_characters :
  forall (s : bytes) (c : byte) (bs : bytes),
    In c s -> rfc4648_url c = (-1)%Z -> decode_vec s <> Ok bs.
Proof. exact decode_rejects_non_alphabet. Qed.

Theorem C09_base64_rejects_impossible_length :
  forall (s bs : bytes), length s mod 4 = 1 -> decode_vec s <> Ok bs.
Proof. exact decode_rejects_len1mod4. Qed.

(* key text, wrapped keys, sealed keys: <version><kind><base64> *)
Theorem C09_paserk_parse_print :
  forall ver kind data : bytes, parse_paserk ver kind (print_paserk ver kind data) = Ok data.
Proof. exact paserk_parse_print. Qed.

Theorem C09_paserk_print_parse :
  forall ver kind s data : bytes, parse_paserk ver kind s = Ok data -> print_paserk ver kind data = s.
Proof. exact paserk_print_parse. Qed.

(* key ids: exactly 33 bytes *)
Theorem C09_keyid_parse_print :
  forall ver kind id : bytes, length id = 33 -> parse_keyid ver kind (print_paserk ver kind id) = Ok id.
Proof. exact keyid_parse_print. Qed.

Theorem C09_keyid_print_parse :
  forall ver kind s id : bytes,
    parse_keyid ver kind s = Ok id -> print_paserk ver kind id = s /\ length id = 33.
Proof. exact keyid_print_parse. Qed.

(* tokens: header, payload, optional footer *)
Theorem C09_token_parse_print :
  forall (F : Type) (fdec : bytes -> option F) (hdr sfx pur : bytes) (t : token) (fv : F),
    fdec (t_footer t) = Some fv ->
    parse_token fdec hdr sfx pur (print_token hdr sfx pur t) = Ok (t, fv).
Proof. exact @token_parse_print. Qed.

Theorem C09_token_print_parse :
  forall (F : Type) (fdec : bytes -> option F) (hdr sfx pur s : bytes) (t : token) (fv : F),
    parse_token fdec hdr sfx pur s = Ok (t, fv) ->
    print_token hdr sfx pur t = s \/ (t_footer t = [] /\ print_token hdr sfx pur t ++ [dot] = s).
Proof. exact @token_print_parse. Qed.

Theorem C09_token_only_alias_is_trailing_dot :
  forall (F : Type) (fdec : bytes -> option F) (hdr sfx pur s1 s2 : bytes) (t : token) (v1 v2 : F),
    parse_token fdec hdr sfx pur s1 = Ok (t, v1) ->
    parse_token fdec hdr sfx pur s2 = Ok (t, v2) ->
    s1 = s2 \/ s1 = s2 ++ [dot] \/ s2 = s1 ++ [dot].
Proof. exact @token_aliases_only_trailing_dot. Qed.

(* no parser panics (slice arithmetic of base64.rs) *)
Theorem C09_parsers_never_panic :
  forall (ver kind s : bytes),
    is_panic (decode_vec s) = false /\
    is_panic (parse_paserk ver kind s) = false /\
    is_panic (parse_keyid ver kind s) = false /\
    is_panic (parse_token fdec_vec ver [] kind s) = false.
Proof.
  intros ver kind s.
  exact (conj (decode_vec_no_panic s)
        (conj (paserk_parse_no_panic ver kind s)
        (conj (keyid_parse_no_panic ver kind s) (token_parse_no_panic fdec_vec ver [] kind s)))).
Qed.

(* non-vacuity: a concrete accepted token with a footer, and the trailing-dot alias *)
Local Open Scope string_scope.
Example C09_example_token :
  parse_token fdec_vec (str "v4") [] (str ".local.") (str "v4.local.AAECAw.Zm9v")
  = Ok ({| t_payload := [x00; x01; x02; x03]; t_footer := str "foo" |}, str "foo").
Proof. vm_compute. reflexivity. Qed.
Example C09_example_trailing_dot :
  parse_token fdec_vec (str "v4") [] (str ".local.") (str "v4.local.AAECAw.")
  = parse_token fdec_vec (str "v4") [] (str ".local.") (str "v4.local.AAECAw").
Proof. vm_compute. reflexivity. Qed.
Example C09_example_noncanonical_rejected :
  decode_vec (str "AAECAx") = Err Base64DecodeError /\ decode_vec (str "AAECAw==") = Err Base64DecodeError.
Proof. vm_compute. auto. Qed.

Print Assumptions C09_base64_roundtrip.
Print Assumptions C09_base64_canonical.
Print Assumptions C09_base64_alphabet.
Print Assumptions C09_base64_rejects_foreign_characters.
Print Assumptions C09_base64_rejects_impossible_length.
Print Assumptions C09_paserk_parse_print.
Print Assumptions C09_paserk_print_parse.
Print Assumptions C09_keyid_parse_print.
Print Assumptions C09_keyid_print_parse.
Print Assumptions C09_token_parse_print.
Print Assumptions C09_token_print_parse.
Print Assumptions C09_token_only_alias_is_trailing_dot.
Print Assumptions C09_parsers_never_panic.
