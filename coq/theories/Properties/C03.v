(* C03 — Tokens are bit-exact PASETO: each backend agrees with the spec and its sibling.
   SpecTokens.v is the specification (validated on every official vector at run time);
   the theorems say model = specification for ALL inputs and nonces. *)
From PV Require Import Bytes Result Pae Ctr Oracle Local Public LocalProofs SpecTokens SpecProofs CtrSites ToyOracle.
From PV.Gen Require Import Ciphers.
Local Open Scope string_scope.
Local Open Scope list_scope.

(* ---- local: the token a backend produces is exactly the specification's, for every nonce ---- *)
Theorem C03_v1_local_is_spec : forall O key b m f,
  length b = 32 -> v1_local_seal O key [] (b ++ m) f [] = Ok (spec_v1_encrypt O key b m f).
Proof. exact v1_local_is_spec. Qed.
Theorem C03_v2_local_is_spec : forall O key b m f,
  length b = 24 -> v2_local_seal O key [] (b ++ m) f [] = Ok (spec_v2_encrypt O key b m f).
Proof. exact v2_local_is_spec. Qed.
Theorem C03_v3_local_is_spec : forall O key n m f a,
  length n = 32 -> v3_local_seal O key [] (n ++ m) f a = Ok (spec_v3_encrypt O key n m f a).
Proof. exact v3_local_is_spec. Qed.
Theorem C03_v3_awslc_local_is_spec : forall O key n m f a,
  laws O -> length n = 32 -> lc_local_seal O key [] (n ++ m) f a = Ok (spec_v3_encrypt O key n m f a).
Proof. exact lc_local_is_spec. Qed.
Theorem C03_v4_local_is_spec : forall O key n m f a,
  length n = 32 -> v4_local_seal O key [] (n ++ m) f a = Ok (spec_v4_encrypt O key n m f a).
Proof. exact v4_local_is_spec. Qed.
Theorem C03_v4_sodium_local_is_spec : forall O key n m f a,
  laws O -> length n = 32 -> na_local_seal O key [] (n ++ m) f a = Ok (spec_v4_encrypt O key n m f a).
Proof. exact na_local_is_spec. Qed.

(* ---- every specification-conforming token is accepted with the same claims ---- *)
Theorem C03_v1_accepts_spec : forall O, laws O -> forall key n m f,
  length n = 32 -> v1_local_unseal O key [] (spec_v1_encrypt_with O key n m f) f [] = Ok m.
Proof. exact v1_accepts_spec. Qed.
Theorem C03_v3_accepts_spec : forall O, laws O -> forall key n m f a,
  length n = 32 -> v3_local_unseal O key [] (spec_v3_encrypt O key n m f a) f a = Ok m.
Proof. exact v3_accepts_spec. Qed.
Theorem C03_v3_awslc_accepts_spec : forall O, laws O -> forall key n m f a,
  length n = 32 -> lc_local_unseal O key [] (spec_v3_encrypt O key n m f a) f a = Ok m.
Proof. exact lc_accepts_spec. Qed.
Theorem C03_v4_accepts_spec : forall O, laws O -> forall key n m f a,
  length n = 32 -> v4_local_unseal O key [] (spec_v4_encrypt O key n m f a) f a = Ok m.
Proof. exact v4_accepts_spec. Qed.
Theorem C03_v4_sodium_accepts_spec : forall O, laws O -> forall key n m f a,
  length n = 32 -> na_local_unseal O key [] (spec_v4_encrypt O key n m f a) f a = Ok m.
Proof. exact na_accepts_spec. Qed.

(* ---- hence the sibling backends produce identical output for identical nonces ---- *)
Theorem C03_v3_siblings_agree : forall O key n m f a,
  laws O -> length n = 32 -> v3_local_seal O key [] (n ++ m) f a = lc_local_seal O key [] (n ++ m) f a.
Proof. exact v3_siblings_agree. Qed.
Theorem C03_v4_siblings_agree : forall O key n m f a,
  laws O -> length n = 32 -> v4_local_seal O key [] (n ++ m) f a = na_local_seal O key [] (n ++ m) f a.
Proof. exact v4_siblings_agree. Qed.

(* ---- signatures are over the specification's PAE; deterministic ones byte-identical ---- *)
Theorem C03_v4_sign_is_spec : forall O seed m f a, v4_public_seal O seed [] m f a = Ok (spec_v4_sign O seed m f a).
Proof. exact v4_sign_is_spec. Qed.
Theorem C03_v4_sodium_sign_is_spec : forall O seed m f a, na_public_seal O seed [] m f a = Ok (spec_v4_sign O seed m f a).
Proof. exact na_sign_is_spec. Qed.
Theorem C03_v2_sign_is_spec : forall O seed m f, v2_public_seal O seed [] m f [] = Ok (spec_v2_sign O seed m f).
Proof. exact v2_sign_is_spec. Qed.
Theorem C03_v3_signed_message_is_spec : forall pk m f a, v3_ppre pk [] m f a = spec_v3_sign_input pk m f a.
Proof. exact v3_signed_message_is_spec. Qed.
Theorem C03_v1_signed_message_is_spec : forall m f, v1_ppre [] m f = spec_v1_sign_input m f.
Proof. exact v1_signed_message_is_spec. Qed.

(* ---- the counter: full width at every site of the source (regenerated inventory) ---- *)
Theorem C03_ctr_sites_full_width :
  forall f tok, In (f, tok) gen_ctr_sites -> ctr_width_of tok = Some ctr_w_rustcrypto.
Proof. exact ctr_sites_forall. Qed.
Theorem C03_ctr_every_site_inventoried : every_file_has_a_site = true.
Proof. exact (proj2 ctr_sites_ok). Qed.

(* a narrower counter agrees with the specification exactly as long as its low word does not wrap ... *)
Theorem C03_ctr_width_agree : forall (W : N) (iv : bytes) (i : N),
  length iv = 16 -> (W <= 128)%N -> (be_val iv mod 2 ^ W + i < 2 ^ W)%N -> ctr_block W iv i = ctr_block 128 iv i.
Proof. exact ctr_block_agree. Qed.
(* ... and differs when it does: the defect repaired by "fix: use the full 128-bit big-endian counter" *)
Theorem C03_ctr64_refuted : exists iv i, length iv = 16 /\ ctr_block 64 iv i <> ctr_block 128 iv i.
Proof. exact ctr64_refuted. Qed.

Print Assumptions C03_v1_local_is_spec.
Print Assumptions C03_v2_local_is_spec.
Print Assumptions C03_v3_local_is_spec.
Print Assumptions C03_v3_awslc_local_is_spec.
Print Assumptions C03_v4_local_is_spec.
Print Assumptions C03_v4_sodium_local_is_spec.
Print Assumptions C03_v1_accepts_spec.
Print Assumptions C03_v3_accepts_spec.
Print Assumptions C03_v3_awslc_accepts_spec.
Print Assumptions C03_v4_accepts_spec.
Print Assumptions C03_v4_sodium_accepts_spec.
Print Assumptions C03_v3_siblings_agree.
Print Assumptions C03_v4_siblings_agree.
Print Assumptions C03_v4_sign_is_spec.
Print Assumptions C03_v4_sodium_sign_is_spec.
Print Assumptions C03_v2_sign_is_spec.
Print Assumptions C03_v3_signed_message_is_spec.
Print Assumptions C03_v1_signed_message_is_spec.
Print Assumptions C03_ctr_sites_full_width.
Print Assumptions C03_ctr_every_site_inventoried.
Print Assumptions C03_ctr_width_agree.
Print Assumptions C03_ctr64_refuted.

(* non-vacuity: the premise [laws O] of the theorems above has a model (ToyOracle.v) *)
Theorem C03_premises_satisfiable : exists O, laws O.
Proof. exact laws_satisfiable. Qed.
Print Assumptions C03_premises_satisfiable.
