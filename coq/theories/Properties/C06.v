(* C06 — Wrapped and sealed keys are tamper-evident and bound to header, key and password. *)
From PV Require Import Bytes Result Oracle Local Paserk PaserkProofs PkeProofs PaserkTamper Base64 Text TextProofs.
Local Open Scope string_scope.
Local Open Scope list_scope.

(* ---- PIE: exactly tag || nonce || c with tag = MAC(Ak(wk, nonce), "kN" || header || nonce || c) ---- *)
Theorem C06_pie_accept_iff : forall (P : pie_params) header wk d k,
  pie_unwrap P header wk d = Ok k <->
  exists tag n c, d = tag ++ n ++ c /\ length tag = pie_tlen P /\ length n = 32 /\
                  pie_auth P wk header n c = tag /\ k = xorl c (pie_ks P wk n (length c)).
Proof. exact pie_accept_iff. Qed.

Theorem C06_pie_short : forall (P : pie_params) header wk d,
  length d < pie_tlen P + 32 -> pie_unwrap P header wk d = Err InvalidKey.
Proof. exact pie_short. Qed.

Theorem C06_pie_tag_tamper : forall (P : pie_params) header wk tag tag' n c,
  length tag = pie_tlen P -> length tag' = pie_tlen P -> length n = 32 ->
  pie_auth P wk header n c = tag -> tag' <> tag ->
  pie_unwrap P header wk (tag' ++ n ++ c) = Err CryptoError.
Proof. exact pie_tag_tamper. Qed.

Theorem C06_pie_forgery_is_collision : forall (P : pie_params) header wk n c header' wk' n' c' k',
  length n = 32 -> length n' = 32 -> length (pie_auth P wk header n c) = pie_tlen P ->
  pie_unwrap P header' wk' (pie_auth P wk header n c ++ n' ++ c') = Ok k' ->
  (wk', header', n', c') <> (wk, header, n, c) ->
  pie_auth P wk' header' n' c' = pie_auth P wk header n c /\ (wk', header', n', c') <> (wk, header, n, c).
Proof. exact pie_forgery_is_collision. Qed.

(* the MAC input determines version, header (local / secret), nonce and ciphertext: relabelling the
   version or the kind, or moving bytes between nonce and ciphertext, changes it *)
Theorem C06_pie_mac_input_injective : forall (v v' h h' n n' c c' : bytes),
  length v = 2 -> length v' = 2 -> In h pie_headers -> In h' pie_headers -> length n = 32 -> length n' = 32 ->
  v ++ h ++ n ++ c = v' ++ h' ++ n' ++ c' -> (v, h, n, c) = (v', h', n', c').
Proof. exact pie_input_injective. Qed.

(* ---- PBKW: exactly prefix || c || tag, prefix = salt || params || nonce, KDF accepted the params ---- *)
Theorem C06_pbkw_accept_iff : forall (P : pw_params) header pass d k,
  pw_unwrap P header pass d = Ok k <->
  exists salt params nonce c tag pre,
    d = (salt ++ params ++ nonce) ++ c ++ tag /\
    length salt = pw_salt_len P /\ length params = pw_par_len P /\ length nonce = pw_nonce_len P /\
    length tag = pw_tlen P /\ pw_prekey P pass salt params = Ok pre /\
    pw_mac P (pw_ak P pre) (pw_ver P ++ header ++ (salt ++ params ++ nonce) ++ c) = tag /\
    k = xorl c (pw_ks P (pw_ek P pre) nonce (length c)).
Proof. exact pw_accept_iff. Qed.

Theorem C06_pbkw_short : forall (P : pw_params) header pass d,
  length d < pw_prefix_len P + pw_tlen P -> pw_unwrap P header pass d = Err InvalidKey.
Proof. exact pw_short. Qed.

Theorem C06_pbkw_tag_tamper : forall (P : pw_params) header pass salt params nonce c tag tag' pre,
  length salt = pw_salt_len P -> length params = pw_par_len P -> length nonce = pw_nonce_len P ->
  length tag = pw_tlen P -> length tag' = pw_tlen P ->
  pw_prekey P pass salt params = Ok pre ->
  pw_mac P (pw_ak P pre) (pw_ver P ++ header ++ (salt ++ params ++ nonce) ++ c) = tag -> tag' <> tag ->
  pw_unwrap P header pass ((salt ++ params ++ nonce) ++ c ++ tag') = Err CryptoError.
Proof. exact pw_tag_tamper. Qed.

(* no unwrap panics *)
Theorem C06_pie_unwrap_no_panic : forall (P : pie_params) header wk d, is_panic (pie_unwrap P header wk d) = false.
Proof. exact pie_unwrap_no_panic. Qed.
Theorem C06_pbkw_unwrap_no_panic : forall O P header pass d,
  In P (all_pw O) -> is_panic (pw_unwrap P header pass d) = false.
Proof. intros O P header pass d HP. exact (pw_unwrap_no_panic P header pass d (all_pw_prekey_no_panic O P HP)). Qed.

(* ---- PKE (seal): exactly tag || epk || edk (k1: tag || edk || c), key agreement succeeded, tag = MAC ---- *)
Theorem C06_v4_pke_is_generic : forall O sk d,
  v4_pke_unseal O sk d = x_pke_unseal O (str "k4") false (fun sk => Some (x_of_seed O sk)) sk d.
Proof. reflexivity. Qed.
Theorem C06_v2_pke_is_generic : forall O sk d,
  v2_pke_unseal O sk d = x_pke_unseal O (str "k2") false (fun sk => Some (x_of_seed O sk)) sk d.
Proof. reflexivity. Qed.
Theorem C06_v4_sodium_pke_is_generic : forall O sk d,
  na_pke_unseal O sk d = x_pke_unseal O (str "k4") true (fun sk => x_of_edpk O (drop 32 sk)) sk d.
Proof. reflexivity. Qed.
Theorem C06_v3_pke_is_generic : forall O sk d,
  v3_pke_unseal O sk d = v3_pke_unseal_gen O ctr_w_rustcrypto CryptoError sk d /\
  lc_pke_unseal O sk d = v3_pke_unseal_gen O ctr_w_awslc InvalidKey sk d.
Proof. split; reflexivity. Qed.

Theorem C06_pke_x25519_accept_iff : forall O ver strict xpk_of sk data k,
  x_pke_unseal O ver strict xpk_of sk data = Ok k <->
  exists tag epk edk xpk,
    data = tag ++ epk ++ edk /\ length tag = 32 /\ length epk = 32 /\ length edk = 32 /\
    xpk_of sk = Some xpk /\
    strict && beq (x_mul_seed O (take 32 sk) epk) zero32 = false /\
    x_tag O ver (x_mul_seed O (take 32 sk) epk) epk xpk edk = tag /\
    k = xorl edk (xchacha20 O (x_ek O ver (x_mul_seed O (take 32 sk) epk) epk xpk) (x_nonce O epk xpk) 32).
Proof. exact x_pke_accept_iff. Qed.
Theorem C06_pke_x25519_wrong_length : forall O ver strict xpk_of sk data,
  length data <> 96 -> x_pke_unseal O ver strict xpk_of sk data = Err InvalidKey.
Proof. exact x_pke_wrong_length. Qed.
Theorem C06_pke_x25519_tag_tamper : forall O ver strict xpk_of sk tag' epk edk xpk,
  length tag' = 32 -> length epk = 32 -> length edk = 32 -> xpk_of sk = Some xpk ->
  strict && beq (x_mul_seed O (take 32 sk) epk) zero32 = false ->
  tag' <> x_tag O ver (x_mul_seed O (take 32 sk) epk) epk xpk edk ->
  x_pke_unseal O ver strict xpk_of sk (tag' ++ epk ++ edk) = Err CryptoError.
Proof. exact x_pke_tag_tamper. Qed.
Theorem C06_pke_x25519_forgery_is_collision : forall O ver strict xpk_of sk epk edk xpk epk' edk' k',
  length epk = 32 -> length edk = 32 -> length epk' = 32 -> xpk_of sk = Some xpk ->
  length (x_tag O ver (x_mul_seed O (take 32 sk) epk) epk xpk edk) = 32 ->
  x_pke_unseal O ver strict xpk_of sk (x_tag O ver (x_mul_seed O (take 32 sk) epk) epk xpk edk ++ epk' ++ edk') = Ok k' ->
  (epk', edk') <> (epk, edk) ->
  x_tag O ver (x_mul_seed O (take 32 sk) epk') epk' xpk edk' = x_tag O ver (x_mul_seed O (take 32 sk) epk) epk xpk edk
  /\ (epk', edk') <> (epk, edk).
Proof. exact x_pke_forgery_is_collision. Qed.

Theorem C06_pke_v3_accept_iff : forall O W bad sk data k,
  v3_pke_unseal_gen O W bad sk data = Ok k <->
  exists tag epk edk pk epk' xk,
    data = tag ++ epk ++ edk /\ length tag = 48 /\ length epk = 49 /\ length edk = 32 /\
    p384_pk O sk = Some pk /\ p384_parse O epk = Some epk' /\ ecdh_p384 O sk epk' = Some xk /\
    v3_tag O xk epk pk edk = tag /\
    k = xorl edk (aes_ctr O W (v3_ek O xk epk pk) (v3_n O xk epk pk) 32).
Proof. exact v3_pke_accept_iff. Qed.
Theorem C06_pke_v3_wrong_length : forall O W bad sk data,
  length data <> 129 -> v3_pke_unseal_gen O W bad sk data = Err InvalidKey.
Proof. exact v3_pke_wrong_length. Qed.
Theorem C06_pke_v3_tag_tamper : forall O W bad sk tag' epk edk pk epk' xk,
  length tag' = 48 -> length epk = 49 -> length edk = 32 ->
  p384_pk O sk = Some pk -> p384_parse O epk = Some epk' -> ecdh_p384 O sk epk' = Some xk ->
  tag' <> v3_tag O xk epk pk edk ->
  v3_pke_unseal_gen O W bad sk (tag' ++ epk ++ edk) = Err CryptoError.
Proof. exact v3_pke_tag_tamper. Qed.

Theorem C06_pke_v1_accept_iff : forall O sk data k,
  v1_pke_unseal O sk data = Ok k <->
  exists tag edk c rn,
    data = tag ++ edk ++ c /\ length tag = 48 /\ length edk = 32 /\ length c = 512 /\
    rsa_dec O sk (be_val c) = Some rn /\
    v1_tag O c (be_minimal rn) edk = tag /\
    k = xorl edk (aes_ctr O ctr_w_rustcrypto (v1_ek O c (be_minimal rn)) (v1_n O c (be_minimal rn)) 32).
Proof. exact v1_pke_accept_iff. Qed.
Theorem C06_pke_v1_wrong_length : forall O sk data,
  length data <> 592 -> v1_pke_unseal O sk data = Err InvalidKey.
Proof. exact v1_pke_wrong_length. Qed.
Theorem C06_pke_v1_tag_tamper : forall O sk tag' edk c rn,
  length tag' = 48 -> length edk = 32 -> length c = 512 -> rsa_dec O sk (be_val c) = Some rn ->
  tag' <> v1_tag O c (be_minimal rn) edk ->
  v1_pke_unseal O sk (tag' ++ edk ++ c) = Err CryptoError.
Proof. exact v1_pke_tag_tamper. Qed.

Theorem C06_pke_mac_input_injective : forall (v v' h epk epk' edk edk' : bytes),
  length v = 2 -> length v' = 2 -> length epk = length epk' ->
  v ++ h ++ epk ++ edk = v' ++ h ++ epk' ++ edk' -> (v, epk, edk) = (v', epk', edk').
Proof. exact pke_mac_input_injective. Qed.

(* the tag of a PIE blob is the MAC of exactly "kN" || header || nonce || c, and different (version, header,
   nonce, ciphertext) never give the MAC the same input; the same for PBKW with its salt / parameter / nonce
   prefix of fixed field widths *)
Theorem C06_pie_auth_input : forall (P : pie_params) wk header nonce c,
  pie_auth P wk header nonce c = pie_mac P wk nonce (pie_ver P ++ header ++ nonce ++ c).
Proof. exact pie_auth_input. Qed.
Theorem C06_pie_auth_inputs_differ : forall (P P' : pie_params) (h h' n n' c c' : bytes),
  length (pie_ver P) = 2 -> length (pie_ver P') = 2 -> In h pie_headers -> In h' pie_headers ->
  length n = 32 -> length n' = 32 ->
  (pie_ver P, h, n, c) <> (pie_ver P', h', n', c') ->
  pie_ver P ++ h ++ n ++ c <> pie_ver P' ++ h' ++ n' ++ c'.
Proof. exact pie_auth_inputs_differ. Qed.
Theorem C06_pbkw_mac_input_injective : forall (v v' h h' p p' c c' : bytes),
  length v = 2 -> length v' = 2 -> In h pw_headers -> In h' pw_headers -> length p = length p' ->
  v ++ h ++ p ++ c = v' ++ h' ++ p' ++ c' -> (v, h, p, c) = (v', h', p', c').
Proof. exact pw_input_injective. Qed.
Theorem C06_pbkw_prefix_injective : forall (P : pw_params) (s s' q q' n n' : bytes),
  length s = pw_salt_len P -> length s' = pw_salt_len P -> length q = pw_par_len P -> length q' = pw_par_len P ->
  s ++ q ++ n = s' ++ q' ++ n' -> (s, q, n) = (s', q', n').
Proof. exact pw_prefix_injective. Qed.

(* ---- text level ("truncating or extending the blob", as a string): a wrapped / sealed key text that was changed in any
        way and still parses under the same header carries other bytes — to which the byte-level theorems apply.
        PASERK texts have no alias (unlike tokens, no optional trailing dot). ---- *)
Theorem C06_text_change_changes_blob : forall (ver kind s1 s2 d1 d2 : bytes),
  parse_paserk ver kind s1 = Ok d1 -> parse_paserk ver kind s2 = Ok d2 -> s1 <> s2 -> d1 <> d2.
Proof. exact paserk_text_change_changes_data. Qed.

Print Assumptions C06_pie_auth_input.
Print Assumptions C06_pie_auth_inputs_differ.
Print Assumptions C06_pbkw_mac_input_injective.
Print Assumptions C06_pbkw_prefix_injective.
Print Assumptions C06_pie_accept_iff.
Print Assumptions C06_pie_short.
Print Assumptions C06_pie_tag_tamper.
Print Assumptions C06_pie_forgery_is_collision.
Print Assumptions C06_pie_mac_input_injective.
Print Assumptions C06_pbkw_accept_iff.
Print Assumptions C06_pbkw_short.
Print Assumptions C06_pbkw_tag_tamper.
Print Assumptions C06_pie_unwrap_no_panic.
Print Assumptions C06_pbkw_unwrap_no_panic.
Print Assumptions C06_v4_pke_is_generic.
Print Assumptions C06_v2_pke_is_generic.
Print Assumptions C06_v4_sodium_pke_is_generic.
Print Assumptions C06_v3_pke_is_generic.
Print Assumptions C06_pke_x25519_accept_iff.
Print Assumptions C06_pke_x25519_wrong_length.
Print Assumptions C06_pke_x25519_tag_tamper.
Print Assumptions C06_pke_x25519_forgery_is_collision.
Print Assumptions C06_pke_v3_accept_iff.
Print Assumptions C06_pke_v3_wrong_length.
Print Assumptions C06_pke_v3_tag_tamper.
Print Assumptions C06_pke_v1_accept_iff.
Print Assumptions C06_pke_v1_wrong_length.
Print Assumptions C06_pke_v1_tag_tamper.
Print Assumptions C06_pke_mac_input_injective.
Print Assumptions C06_text_change_changes_blob.
