(* C06 — Wrapped and sealed keys are tamper-evident and bound to header, key and password. *)
From PV Require Import Bytes Result Oracle Local Paserk PaserkProofs.
Local Open Scope list_scope.

(* ---- PIE: exactly tag || nonce || c with tag = MAC(Ak(wk, nonce), "kN" || header || nonce || c) ---- *)
Theorem C06_pie_accept_iff : forall (P : pie_params) header wk d k,
  pie_unwrap P header wk d = Ok k <->
  exists tag n c, d = tag ++ n ++ c /\ length tag = pie_tlen P /\ length n = 32 /\
                  pie_auth P wk header n c = tag /\ k = xorl c (pie_ks P wk n (length c)).
Proof. exact pie_accept_iff. Qed.

Theorem C06_pie_short : forall (P : pie_params) header wk d,
  length d < pie_tlen P + 32 -> pie_unwrap P header wk d = Err InvalidKey.
Proof. exact pie_short. Qed.

Theorem C06_pie_tag_tamper : forall (P : pie_params) header wk tag tag' n c,
  length tag = pie_tlen P -> length tag' = pie_tlen P -> length n = 32 ->
  pie_auth P wk header n c = tag -> tag' <> tag ->
  pie_unwrap P header wk (tag' ++ n ++ c) = Err CryptoError.
Proof. exact pie_tag_tamper. Qed.

Theorem C06_pie_forgery_is_collision : forall (P : pie_params) header wk n c header' wk' n' c' k',
  length n = 32 -> length n' = 32 -> length (pie_auth P wk header n c) = pie_tlen P ->
  pie_unwrap P header' wk' (pie_auth P wk header n c ++ n' ++ c') = Ok k' ->
  (wk', header', n', c') <> (wk, header, n, c) ->
  pie_auth P wk' header' n' c' = pie_auth P wk header n c /\ (wk', header', n', c') <> (wk, header, n, c).
Proof. exact pie_forgery_is_collision. Qed.

(* the MAC input determines version, header (local / secret), nonce and ciphertext: relabelling the
   version or the kind, or moving bytes between nonce and ciphertext, changes it *)
Theorem C06_pie_mac_input_injective : forall (v v' h h' n n' c c' : bytes),
  length v = 2 -> length v' = 2 -> In h pie_headers -> In h' pie_headers -> length n = 32 -> length n' = 32 ->
  v ++ h ++ n ++ c = v' ++ h' ++ n' ++ c' -> (v, h, n, c) = (v', h', n', c').
Proof. exact pie_input_injective. Qed.

(* ---- PBKW: exactly prefix || c || tag, prefix = salt || params || nonce, KDF accepted the params ---- *)
Theorem C06_pbkw_accept_iff : forall (P : pw_params) header pass d k,
  pw_unwrap P header pass d = Ok k <->
  exists salt params nonce c tag pre,
    d = (salt ++ params ++ nonce) ++ c ++ tag /\
    length salt = pw_salt_len P /\ length params = pw_par_len P /\ length nonce = pw_nonce_len P /\
    length tag = pw_tlen P /\ pw_prekey P pass salt params = Ok pre /\
    pw_mac P (pw_ak P pre) (pw_ver P ++ header ++ (salt ++ params ++ nonce) ++ c) = tag /\
    k = xorl c (pw_ks P (pw_ek P pre) nonce (length c)).
Proof. exact pw_accept_iff. Qed.

Theorem C06_pbkw_short : forall (P : pw_params) header pass d,
  length d < pw_prefix_len P + pw_tlen P -> pw_unwrap P header pass d = Err InvalidKey.
Proof. exact pw_short. Qed.

Theorem C06_pbkw_tag_tamper : forall (P : pw_params) header pass salt params nonce c tag tag' pre,
  length salt = pw_salt_len P -> length params = pw_par_len P -> length nonce = pw_nonce_len P ->
  length tag = pw_tlen P -> length tag' = pw_tlen P ->
  pw_prekey P pass salt params = Ok pre ->
  pw_mac P (pw_ak P pre) (pw_ver P ++ header ++ (salt ++ params ++ nonce) ++ c) = tag -> tag' <> tag ->
  pw_unwrap P header pass ((salt ++ params ++ nonce) ++ c ++ tag') = Err CryptoError.
Proof. exact pw_tag_tamper. Qed.

(* no unwrap panics *)
Theorem C06_pie_unwrap_no_panic : forall (P : pie_params) header wk d, is_panic (pie_unwrap P header wk d) = false.
Proof. exact pie_unwrap_no_panic. Qed.
Theorem C06_pbkw_unwrap_no_panic : forall O P header pass d,
  In P (all_pw O) -> is_panic (pw_unwrap P header pass d) = false.
Proof. intros O P header pass d HP. exact (pw_unwrap_no_panic P header pass d (all_pw_prekey_no_panic O P HP)). Qed.

Print Assumptions C06_pie_accept_iff.
Print Assumptions C06_pie_short.
Print Assumptions C06_pie_tag_tamper.
Print Assumptions C06_pie_forgery_is_collision.
Print Assumptions C06_pie_mac_input_injective.
Print Assumptions C06_pbkw_accept_iff.
Print Assumptions C06_pbkw_short.
Print Assumptions C06_pbkw_tag_tamper.
Print Assumptions C06_pie_unwrap_no_panic.
Print Assumptions C06_pbkw_unwrap_no_panic.
