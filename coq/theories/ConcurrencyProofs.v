(* ConcurrencyProofs.v — C17 theorems, and the obligation over the regenerated sharing inventory. *)
From Coq Require Import String List Bool Lia Arith.
From PV Require Import Concurrency.
From PV.Gen Require Import Sharing.
Import ListNotations.

Lemma nth_firstn_lt {A} (l : list A) i j d : i < j -> nth i (firstn j l) d = nth i l d.
Proof.
  revert i j. induction l as [|x l IH]; intros i j H; [destruct j, i; reflexivity|].
  destruct j; [lia|]. destruct i; [reflexivity|]. cbn. apply IH. lia.
Qed.

Lemma nth_skipn_add {A} (l : list A) n k d : nth k (skipn n l) d = nth (n + k) l d.
Proof.
  revert l. induction n as [|n IH]; intros l; [reflexivity|]. destruct l; [destruct k; reflexivity|]. cbn. apply IH.
Qed.

Section Steps.
  Context {Key Op Out : Type}.
  Variable eval : Key -> Op -> Out.

  (* FRAME: no operation, failing or not, alters the key *)
  Theorem frame k o : fst (step eval k o) = k.
  Proof. reflexivity. Qed.

  Theorem run_frame k ops : fst (run eval k ops) = k.
  Proof.
    revert k. induction ops as [|o rest IH]; intros k; cbn [run]; [reflexivity|].
    unfold step. specialize (IH k). destruct (run eval k rest) as [k2 rs]. exact IH.
  Qed.

  Theorem run_outputs k ops : snd (run eval k ops) = map (eval k) ops.
  Proof.
    revert k. induction ops as [|o rest IH]; intros k; cbn [run map]; [reflexivity|].
    unfold step. specialize (IH k). destruct (run eval k rest) as [k2 rs]. cbn [snd] in *. rewrite IH. reflexivity.
  Qed.

  (* HISTORY INDEPENDENCE: after ANY history (of failing and succeeding operations) an operation gives the
     result it gives on a fresh copy of the key *)
  Theorem history_independent k h o :
    last (snd (run eval k (h ++ [o]))) (eval k o) = eval k o /\
    snd (run eval (fst (run eval k h)) [o]) = [eval k o].
  Proof.
    split.
    - rewrite run_outputs, map_app. cbn [map]. rewrite last_last. reflexivity.
    - rewrite run_frame. reflexivity.
  Qed.

  (* INTERLEAVINGS: whatever the schedule, every operation of every thread gets the result of running it
     alone on the key — in particular the result it gets in the sequential run of its own thread *)
  Theorem interleaving_equivalent (ts : list (list Op)) (l : list (nat * Op)) k :
    interleave ts l -> snd (run eval k (map snd l)) = map (fun io => eval k (snd io)) l.
  Proof. intros _. rewrite run_outputs, map_map. reflexivity. Qed.

  Theorem thread_view_is_sequential (ts : list (list Op)) (l : list (nat * Op)) k i :
    interleave ts l ->
    map (fun io => eval k (snd io)) (filter (fun io => Nat.eqb (fst io) i) l)
    = snd (run eval k (map snd (filter (fun io => Nat.eqb (fst io) i) l))).
  Proof. intros _. rewrite run_outputs, map_map. reflexivity. Qed.

  (* an interleaving contains exactly the operations of the threads, each thread's in its own order *)
  Theorem interleave_projects (ts : list (list Op)) (l : list (nat * Op)) i :
    interleave ts l -> i < length ts ->
    map snd (filter (fun io => Nat.eqb (fst io) i) l) = nth i ts [].
  Proof.
    intros H. revert i. induction H as [ts Hall|ts j o rest l Hn _ IH]; intros i Hi.
    - cbn. rewrite Forall_forall in Hall. symmetry. apply Hall. apply nth_In. exact Hi.
    - assert (Hj : j < length ts) by (apply nth_error_Some; congruence).
      assert (Lts : length (firstn j ts ++ rest :: skipn (S j) ts) = length ts).
      { rewrite app_length, firstn_length_le by lia. cbn [length]. rewrite skipn_length. lia. }
      cbn [filter fst]. destruct (Nat.eqb_spec j i) as [->|Hne].
      + cbn [map snd]. rewrite IH by lia.
        rewrite app_nth2 by (rewrite firstn_length_le; lia). rewrite firstn_length_le by lia. rewrite Nat.sub_diag. cbn [nth].
        rewrite (nth_error_nth ts i [] Hn). reflexivity.
      + rewrite IH by lia.
        destruct (Nat.lt_ge_cases i j) as [Hlt|Hge].
        * rewrite app_nth1 by (rewrite firstn_length_le; lia). apply nth_firstn_lt. exact Hlt.
        * rewrite app_nth2 by (rewrite firstn_length_le; lia). rewrite firstn_length_le by lia.
          destruct (i - j) as [|d] eqn:E; [lia|]. cbn [nth].
          rewrite nth_skipn_add. f_equal. lia.
  Qed.

  (* the statement that uses the schedule: take ANY interleaving l of the threads' operation lists ts, run it on
     the shared key, and hand every thread the results of its own operations (results tagged with the thread
     number, filtered, in order): thread i sees exactly the outputs of running ITS OWN list alone *)
  Definition tagged_outputs (k : Key) (l : list (nat * Op)) : list (nat * Out) :=
    combine (map fst l) (snd (run eval k (map snd l))).

  Lemma tagged_outputs_map k l : tagged_outputs k l = map (fun io => (fst io, eval k (snd io))) l.
  Proof.
    unfold tagged_outputs. rewrite run_outputs, map_map.
    induction l as [|[i o] l IH]; [reflexivity|]. cbn [map combine fst snd]. rewrite IH. reflexivity.
  Qed.

  Theorem each_thread_sees_its_sequential_run (ts : list (list Op)) (l : list (nat * Op)) k i :
    interleave ts l -> i < length ts ->
    map snd (filter (fun r => Nat.eqb (fst r) i) (tagged_outputs k l)) = snd (run eval k (nth i ts [])).
  Proof.
    intros H Hi. rewrite tagged_outputs_map, run_outputs, <- (interleave_projects ts l i H Hi).
    clear H Hi. induction l as [|[j o] l IH]; [reflexivity|].
    cbn [map filter fst snd]. destruct (Nat.eqb j i); cbn [map snd]; rewrite IH; reflexivity.
  Qed.
End Steps.

(* ------------------------------------------------------------------ the sharing inventory *)
Local Open Scope string_scope.
Definition allowed_mut_self : list string := ["write"; "flush"; "drop"; "as_mut"; "free"; "as_mut_ptr"].

(* FFI entry points that only read through the shared EC_KEY / ECDSA_SIG (const parameters in aws-lc), plus
   the constructors used on objects created inside the same call *)
Definition ffi_reads_shared : list string :=
  ["EC_KEY_get0_private_key"; "EC_KEY_get0_public_key"; "EC_group_p384"; "ECDSA_size"; "ECDSA_sign"; "ECDSA_SIG_from_bytes";
   "ECDSA_SIG_get0"; "ECDSA_SIG_to_bytes"; "ECDSA_verify"; "ECDH_compute_key"; "BN_num_bytes"; "BN_bn2bin"; "BN_bn2bin_padded";
   "EC_POINT_point2oct"].
Definition ffi_builds_new : list string :=
  ["EC_KEY_new"; "EC_KEY_set_group"; "EC_KEY_set_private_key"; "EC_KEY_set_public_key"; "EC_POINT_new"; "EC_POINT_mul";
   "EC_POINT_oct2point"; "EC_POINT_is_at_infinity"; "BN_bin2bn"; "ECDSA_SIG_new"; "ECDSA_SIG_set0"].

Definition mem (s : string) (l : list string) : bool := existsb (String.eqb s) l.
Fixpoint has_prefix (p s : string) : bool :=
  match p, s with
  | EmptyString, _ => true
  | String a p', String b s' => Ascii.eqb a b && has_prefix p' s'
  | _, _ => false
  end.

Definition sharing_ok : bool :=
  (* no interior mutability or global mutable state anywhere in the library *)
  (match gen_mut_tokens with [] => true | _ => false end) &&
  (* the only &mut self methods are writer adapters and the pointer wrappers' Drop / as_mut on owned objects *)
  forallb (fun fm => mem (snd fm) allowed_mut_self) gen_mut_self_methods &&
  (* the unsafe Send / Sync impls are exactly those of the two aws-lc key wrappers *)
  forallb (fun i => let '(f, _, t) := i in String.eqb f "paseto-v3-aws-lc/src/lc/mod.rs" && (String.eqb t "SigningKey" || String.eqb t "VerifyingKey")) gen_unsafe_impls &&
  (* in the aws-lc wrappers: no method takes &mut self, as_mut() is never taken on self's own pointers, and a
     &self method calls only FFI functions that read the shared object or build a new one *)
  forallb (fun f => let '(_, recv, calls, asmut) := f in
                    negb (String.eqb recv "&mut self") &&
                    forallb (fun r => negb (has_prefix "self" r)) asmut &&
                    forallb (fun c => mem c ffi_reads_shared || mem c ffi_builds_new) calls) gen_lc_fns.

Lemma sharing_inventory_ok : sharing_ok = true.
Proof. vm_compute. reflexivity. Qed.
