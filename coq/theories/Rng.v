(* Rng.v — C16: how the library consumes randomness.  The OS source is a function from (call index, requested
   length) to the bytes served or None (failure).  Every operation that draws is described by the list of
   block sizes it requests, in order (the table [op_draws], tied to the code by the scripted-RNG runs of the
   harness which record the sizes the implementation actually requests). *)
From Coq Require Import List NArith String Bool.
From PV Require Import Bytes Result Keys.
Import ListNotations.

Definition rng := nat -> nat -> option bytes.

(* getrandom::fill(&mut buf).map_err(|_| CryptoError)? for each block, in order, stopping at the first failure *)
Fixpoint draw_all (R : rng) (i : nat) (sizes : list nat) : option (list bytes) :=
  match sizes with
  | [] => Some []
  | n :: rest =>
      match R i n with
      | None => None
      | Some b => match draw_all R (S i) rest with Some bs => Some (b :: bs) | None => None end
      end
  end.

(* number of calls actually made: all of them, or up to and including the first failing one *)
Fixpoint calls_made (R : rng) (i : nat) (sizes : list nat) : nat :=
  match sizes with
  | [] => 0
  | n :: rest => match R i n with None => 1 | Some _ => S (calls_made R (S i) rest) end
  end.

(* one operation: its draws, then its (pure) body on the drawn blocks *)
Definition run_op {A} (R : rng) (i : nat) (sizes : list nat) (body : list bytes -> result A) : result A * nat :=
  match draw_all R i sizes with
  | Some bs => (body bs, i + length sizes)
  | None => (Err CryptoError, i + calls_made R i sizes)
  end.

(* a history of operations on one thread: each operation is (sizes, body) *)
Fixpoint run_history {A} (R : rng) (i : nat) (ops : list (list nat * (list bytes -> result A))) : list (result A) :=
  match ops with
  | [] => []
  | (sizes, body) :: rest =>
      let '(r, j) := run_op R i sizes body in r :: run_history R j rest
  end.

(* the blocks an operation at position k of a history was served (when all its draws succeeded) *)
Fixpoint history_draws {A} (R : rng) (i : nat) (ops : list (list nat * (list bytes -> result A))) : list (option (list bytes)) :=
  match ops with
  | [] => []
  | (sizes, body) :: rest =>
      let d := draw_all R i sizes in
      d :: history_draws R (snd (run_op R i sizes body)) rest
  end.

(* ---- the draw table of the library (getrandom-based backends; sizes in bytes) ---- *)
Inductive rop := RLocalNonce | RLocalKey | RSecretKey | RPie | RPbkw | RPke | RPublicSign.

Definition op_draws (b : backend) (o : rop) : list nat :=
  match o, b with
  | RLocalNonce, B2 => [24]
  | RLocalNonce, _ => [32]
  | RLocalKey, _ => [32]
  | RSecretKey, (B2 | B4 | B4S) => [32]
  | RSecretKey, (B3 | B3A) => [48]              (* first attempt; repeated until the scalar is valid *)
  | RSecretKey, B1 => []                          (* RSA key generation draws through the rsa crate's own OsRng *)
  | RPie, _ => [32]
  | RPbkw, (B1 | B3 | B3A) => [32; 16]            (* salt, then nonce *)
  | RPbkw, _ => [16; 24]
  | RPke, B1 => [512]
  | RPke, (B3 | B3A) => [48]
  | RPke, _ => [32]
  (* signing: Ed25519 and ECDSA (RFC 6979) are deterministic; RSA-PSS draws its salt through the rsa crate's own OsRng
     (not the intercepted source): no request reaches the source *)
  | RPublicSign, _ => []
  end.

(* a source that never serves the same non-empty block twice *)
Definition fresh (R : rng) : Prop :=
  forall i j n m x y, i <> j -> R i n = Some x -> R j m = Some y -> x <> [] -> x <> y.

(* the same, for the first [hi] calls only.  ([fresh] on all of nat is an idealisation: a source that never
   fails and serves blocks of the requested length cannot be fresh for ever — 257 one-byte blocks — so the
   theorems about histories take [fresh_below R hi] for a bound [hi] beyond the history's last call.) *)
Definition fresh_below (R : rng) (hi : nat) : Prop :=
  forall i j n m x y, i < hi -> j < hi -> i <> j -> R i n = Some x -> R j m = Some y -> x <> [] -> x <> y.

(* ---- executable shape of a history under a source that fails at one global call index ---- *)
Definition script_rng (fail_at : option nat) : rng :=
  fun i n => match fail_at with
             | Some k => if Nat.eqb i k then None else Some (repeat x00 n)
             | None => Some (repeat x00 n)
             end.

Fixpoint history_shape (R : rng) (i : nat) (ops : list (list nat)) : list (bool * nat) :=
  match ops with
  | [] => []
  | sizes :: rest =>
      let '(r, j) := run_op R i sizes (fun _ => Ok tt) in
      (is_ok r, j) :: history_shape R j rest
  end.

Definition backend_of_nat (n : nat) : backend :=
  match n with 1 => B1 | 2 => B2 | 3 => B3 | 30 => B3A | 4 => B4 | _ => B4S end.
Definition rop_of_nat (n : nat) : rop :=
  match n with 0 => RLocalNonce | 1 => RLocalKey | 2 => RSecretKey | 3 => RPie | 4 => RPbkw | 5 => RPke | _ => RPublicSign end.
