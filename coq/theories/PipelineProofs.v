(* PipelineProofs.v — C01 at the level of the public API: UnsealedToken::seal (V::nonce() then
   dangerous_seal_with_nonce), Display, FromStr, SealedToken::unseal, composed. *)
From Coq Require Import List NArith String Bool Lia Arith.
From PV Require Import Bytes Result Base64 Text TextProofs Tokens Pae Oracle Local Public LocalProofs PublicProofs.
Import ListNotations.
Set Default Timeout 60.
Local Open Scope list_scope.

Section Pipeline.
  Context {Claims Foot UKey SKey : Type}.
  Variable v_unseal : UKey -> bytes -> bytes -> bytes -> bytes -> result bytes.
  Variable v_seal : SKey -> bytes -> bytes -> bytes -> bytes -> result bytes.
  Variable m_suffix : bytes.
  Variable m_encode : Claims -> option bytes.
  Variable m_decode : bytes -> option Claims.
  Variable f_encode : Foot -> option bytes.
  Variable f_decode : bytes -> option Foot.
  Variable validate : Claims -> result unit.

  (* If the backend round-trips the encoded claims, then the whole public pipeline
     seal -> to_string -> parse -> unseal returns the original claims and footer. *)
  Theorem pipeline_roundtrip hdr pur sk uk c fv aad nonce body fb p :
    m_encode c = Some body -> m_decode body = Some c ->
    f_encode fv = Some fb -> f_decode fb = Some fv ->
    validate c = Ok tt ->
    v_seal sk m_suffix (nonce ++ body) fb aad = Ok p ->
    v_unseal uk m_suffix p fb aad = Ok body ->
    exists tok,
      seal v_seal m_suffix m_encode f_encode sk c fv aad (Ok nonce) = Ok tok /\
      parse_token f_decode hdr m_suffix pur (print_token hdr m_suffix pur tok) = Ok (tok, fv) /\
      fst (unseal v_unseal m_suffix m_decode validate uk tok fv aad) = Ok (c, fv).
  Proof.
    intros He Hd Hfe Hfd Hv Hs Hu.
    exists {| t_payload := p; t_footer := fb |}. repeat split.
    - unfold seal, seal_with_nonce. cbn [bind]. rewrite Hfe, He. cbn [ok_or bind]. rewrite Hs. reflexivity.
    - apply token_parse_print. exact Hfd.
    - unfold unseal. cbn [t_payload t_footer]. rewrite Hu, Hd, Hv. reflexivity.
  Qed.

  (* a failing V::nonce() (the OS random source failed) yields that error and no token *)
  Theorem seal_fails_closed sk c fv aad e :
    seal v_seal m_suffix m_encode f_encode sk c fv aad (Err e) = Err e.
  Proof. reflexivity. Qed.
End Pipeline.

(* V::nonce() returns exactly the bytes drawn, of the length the backend's seal splits off *)
Definition draw_exact (draw : nat -> option bytes) : Prop := forall n r, draw n = Some r -> length r = n.

Lemma local_nonce_ok n draw r : draw n = Some r -> local_nonce n draw = Ok r.
Proof. intros H. unfold local_nonce. rewrite H. reflexivity. Qed.

Lemma local_nonce_fail n draw : draw n = None -> local_nonce n draw = Err CryptoError.
Proof. intros H. unfold local_nonce. rewrite H. reflexivity. Qed.

Section Local.
  Variable O : oracle.
  Hypothesis L : laws O.

  Ltac via_generic seal_inst unseal_inst ks tag syn :=
    intros draw key enc m f a r Hd Hr;
    exists r; split; [apply local_nonce_ok; exact Hr|];
    rewrite (fun p => seal_inst O key enc p f a);
    match goal with |- context [lg_seal ?P] =>
      destruct (lg_roundtrip P (ks O L) (tag O L) syn key enc r m f a) as (p & Hs & Hu);
      [apply (Hd _ _ Hr) | | exists p; split; [exact Hs | rewrite unseal_inst; exact Hu]]
    end.

  Theorem v3_local_api_roundtrip : forall draw key enc m f a r,
    draw_exact draw -> draw 32 = Some r ->
    exists n, v3_local_nonce draw = Ok n /\
    exists p, v3_local_seal O key enc (n ++ m) f a = Ok p /\ v3_local_unseal O key enc p f a = Ok m.
  Proof. via_generic v3_seal_inst v3_unseal_inst v3_ks_len v3_tag_len (id_syn (v3_params O) eq_refl). left; reflexivity. Qed.

  Theorem lc_local_api_roundtrip : forall draw key enc m f a r,
    draw_exact draw -> draw 32 = Some r ->
    exists n, lc_local_nonce draw = Ok n /\
    exists p, lc_local_seal O key enc (n ++ m) f a = Ok p /\ lc_local_unseal O key enc p f a = Ok m.
  Proof. via_generic lc_seal_inst lc_unseal_inst lc_ks_len lc_tag_len (id_syn (lc_params O) eq_refl). left; reflexivity. Qed.

  Theorem v4_local_api_roundtrip : forall draw key enc m f a r,
    draw_exact draw -> draw 32 = Some r ->
    exists n, v4_local_nonce draw = Ok n /\
    exists p, v4_local_seal O key enc (n ++ m) f a = Ok p /\ v4_local_unseal O key enc p f a = Ok m.
  Proof. via_generic v4_seal_inst v4_unseal_inst v4_ks_len v4_tag_len (id_syn (v4_params O) eq_refl). left; reflexivity. Qed.

  Theorem na_local_api_roundtrip : forall draw key enc m f a r,
    draw_exact draw -> draw 32 = Some r ->
    exists n, na_local_nonce draw = Ok n /\
    exists p, na_local_seal O key enc (n ++ m) f a = Ok p /\ na_local_unseal O key enc p f a = Ok m.
  Proof. via_generic na_seal_inst na_unseal_inst na_ks_len na_tag_len (id_syn (na_params O) eq_refl). left; reflexivity. Qed.

  Theorem v1_local_api_roundtrip : forall draw key enc m f r,
    draw_exact draw -> draw 32 = Some r ->
    exists n, v1_local_nonce draw = Ok n /\
    exists p, v1_local_seal O key enc (n ++ m) f [] = Ok p /\ v1_local_unseal O key enc p f [] = Ok m.
  Proof.
    intros draw key enc m f r Hd Hr. exists r; split; [apply local_nonce_ok; exact Hr|].
    rewrite v1_seal_inst.
    destruct (lg_roundtrip (v1_params O) (v1_ks_len O L) (v1_tag_len O L) (v1_syn O L) key enc r m f []) as (p & Hs & Hu);
      [apply (Hd _ _ Hr)|right; reflexivity|].
    exists p; split; [exact Hs|rewrite v1_unseal_inst; exact Hu].
  Qed.

  Theorem v2_local_api_roundtrip : forall draw key enc m f r,
    draw_exact draw -> draw 24 = Some r ->
    exists n, v2_local_nonce draw = Ok n /\
    exists p, v2_local_seal O key enc (n ++ m) f [] = Ok p /\ v2_local_unseal O key enc p f [] = Ok m.
  Proof.
    intros draw key enc m f r Hd Hr. exists r; split; [apply local_nonce_ok; exact Hr|].
    apply (v2_roundtrip O L). apply (Hd _ _ Hr).
  Qed.

  (* The defect repaired by the first fix: commit, as a theorem about the model.  If V2::nonce() drew 32
     bytes (as it did) while seal consumes 24, the value returned by decrypt is the 8 surplus random bytes
     followed by the claims — never the claims. *)
  Theorem v2_nonce_32_refuted : forall key enc m f r,
    length r = 32 ->
    exists p, v2_local_seal O key enc (r ++ m) f [] = Ok p /\
              v2_local_unseal O key enc p f [] = Ok (drop 24 r ++ m) /\ drop 24 r ++ m <> m.
  Proof.
    intros key enc m f r Hr.
    assert (E : r ++ m = take 24 r ++ (drop 24 r ++ m)) by (rewrite app_assoc, take_drop; reflexivity).
    destruct (v2_roundtrip O L key enc (take 24 r) (drop 24 r ++ m) f) as (p & Hs & Hu).
    { apply take_length_le. lia. }
    exists p. rewrite E. repeat split; [exact Hs|exact Hu|].
    intros H. apply (f_equal (@length byte)) in H. rewrite app_length, drop_length in H. lia.
  Qed.
End Local.

(* ---- the composition for real backends: encode -> draw the nonce -> seal -> Display -> FromStr -> unseal ->
        decode -> validate returns the claims and footer that went in, for every codec that round-trips the
        values at hand, every key, footer, assertion and every 32 bytes the source serves ---- *)
Section EndToEnd.
  Variable O : oracle.
  Hypothesis L : laws O.
  Context {Claims Foot : Type}.
  Variable m_suffix : bytes.
  Variable m_encode : Claims -> option bytes.
  Variable m_decode : bytes -> option Claims.
  Variable f_encode : Foot -> option bytes.
  Variable f_decode : bytes -> option Foot.
  Variable validate : Claims -> result unit.

  Theorem v4_local_end_to_end draw hdr pur key c fv aad r body fb :
    draw_exact draw -> draw 32 = Some r ->
    m_encode c = Some body -> m_decode body = Some c -> f_encode fv = Some fb -> f_decode fb = Some fv ->
    validate c = Ok tt ->
    exists tok,
      seal (v4_local_seal O) m_suffix m_encode f_encode key c fv aad (v4_local_nonce draw) = Ok tok /\
      parse_token f_decode hdr m_suffix pur (print_token hdr m_suffix pur tok) = Ok (tok, fv) /\
      fst (unseal (v4_local_unseal O) m_suffix m_decode validate key tok fv aad) = Ok (c, fv).
  Proof.
    intros Hd Hr He Hde Hfe Hfd Hv.
    destruct (v4_local_api_roundtrip O L draw key m_suffix body fb aad r Hd Hr) as (n & Hn & p & Hs & Hu).
    rewrite Hn.
    exact (pipeline_roundtrip (v4_local_unseal O) (v4_local_seal O) m_suffix m_encode m_decode f_encode f_decode validate
             hdr pur key key c fv aad n body fb p He Hde Hfe Hfd Hv Hs Hu).
  Qed.

  Theorem lc_local_end_to_end draw hdr pur key c fv aad r body fb :
    draw_exact draw -> draw 32 = Some r ->
    m_encode c = Some body -> m_decode body = Some c -> f_encode fv = Some fb -> f_decode fb = Some fv ->
    validate c = Ok tt ->
    exists tok,
      seal (lc_local_seal O) m_suffix m_encode f_encode key c fv aad (lc_local_nonce draw) = Ok tok /\
      parse_token f_decode hdr m_suffix pur (print_token hdr m_suffix pur tok) = Ok (tok, fv) /\
      fst (unseal (lc_local_unseal O) m_suffix m_decode validate key tok fv aad) = Ok (c, fv).
  Proof.
    intros Hd Hr He Hde Hfe Hfd Hv.
    destruct (lc_local_api_roundtrip O L draw key m_suffix body fb aad r Hd Hr) as (n & Hn & p & Hs & Hu).
    rewrite Hn.
    exact (pipeline_roundtrip (lc_local_unseal O) (lc_local_seal O) m_suffix m_encode m_decode f_encode f_decode validate
             hdr pur key key c fv aad n body fb p He Hde Hfe Hfd Hv Hs Hu).
  Qed.
End EndToEnd.
