(* TextProofs.v — C09 for the text types: parse ∘ print = id and print ∘ parse = id
   (tokens: up to one trailing '.' denoting an empty footer). *)
From PV Require Import Bytes Result Base64 Base64Tables Base64Proofs Text.
Set Default Timeout 60.

Transparent decode_6bits.
Lemma d6_dot : decode_6bits dot = (-1)%Z.
Proof. vm_compute. reflexivity. Qed.
Opaque decode_6bits.

Lemma encode_nodot bs : ~ In dot (encode bs).
Proof.
  intros H. pose proof (encode_alphabet bs) as F. rewrite Forall_forall in F.
  specialize (F dot H). rewrite d6_dot in F. lia.
Qed.

(* ---------- split_once('.') ---------- *)

Lemma split_once_dot_none s : ~ In dot s -> split_once_dot s = None.
Proof.
  induction s as [|c r IH]; cbn [split_once_dot In]; [reflexivity|]. intros H.
  destruct (Byte.eqb c dot) eqn:E.
  - apply Byte.byte_dec_bl in E. tauto.
  - rewrite IH by tauto. reflexivity.
Qed.

Lemma split_once_dot_app a b : ~ In dot a -> split_once_dot (a ++ dot :: b) = Some (a, b).
Proof.
  induction a as [|c r IH]; cbn [split_once_dot In app]; intros H.
  - rewrite (Byte.byte_dec_lb eq_refl). reflexivity.
  - destruct (Byte.eqb c dot) eqn:E.
    + apply Byte.byte_dec_bl in E. tauto.
    + rewrite IH by tauto. reflexivity.
Qed.

Lemma split_once_dot_some s a b :
  split_once_dot s = Some (a, b) -> s = a ++ dot :: b /\ ~ In dot a.
Proof.
  revert a; induction s as [|c r IH]; cbn [split_once_dot]; intros a H; [discriminate|].
  destruct (Byte.eqb c dot) eqn:E.
  - apply Byte.byte_dec_bl in E. inversion H; subst. cbn. tauto.
  - destruct (split_once_dot r) as [[a' b']|] eqn:S; [|discriminate].
    inversion H; subst. destruct (IH a' eq_refl) as [-> N]. split; [reflexivity|].
    cbn [In]. intros [X|X]; [|tauto]. subst c. rewrite (Byte.byte_dec_lb eq_refl) in E. discriminate.
Qed.

(* ---------- PASERK text types ---------- *)

Theorem paserk_parse_print ver kind data :
  parse_paserk ver kind (print_paserk ver kind data) = Ok data.
Proof.
  unfold parse_paserk, print_paserk.
  rewrite strip_prefix_app. cbn [ok_or bind]. rewrite strip_prefix_app. cbn [ok_or bind].
  apply decode_encode.
Qed.

Theorem paserk_print_parse ver kind s data :
  parse_paserk ver kind s = Ok data -> print_paserk ver kind data = s.
Proof.
  unfold parse_paserk, print_paserk.
  destruct (strip_prefix ver s) as [s1|] eqn:E1; cbn [ok_or bind]; [|discriminate].
  destruct (strip_prefix kind s1) as [s2|] eqn:E2; cbn [ok_or bind]; [|discriminate].
  intros D. apply decode_canonical in D.
  apply strip_prefix_spec in E1, E2. subst. reflexivity.
Qed.

Theorem paserk_parse_no_panic ver kind s : is_panic (parse_paserk ver kind s) = false.
Proof.
  unfold parse_paserk.
  destruct (strip_prefix ver s) as [s1|]; cbn [ok_or bind]; [|reflexivity].
  destruct (strip_prefix kind s1) as [s2|]; cbn [ok_or bind]; [|reflexivity].
  apply decode_vec_no_panic.
Qed.

(* ---------- key ids ---------- *)

Theorem keyid_parse_print ver kind id :
  length id = 33 -> parse_keyid ver kind (print_paserk ver kind id) = Ok id.
Proof.
  intros L. unfold parse_keyid, print_paserk.
  rewrite strip_prefix_app. cbn [ok_or bind]. rewrite strip_prefix_app. cbn [ok_or bind].
  rewrite decode_fixed_encode by lia. cbn [bind]. rewrite L. reflexivity.
Qed.

Theorem keyid_print_parse ver kind s id :
  parse_keyid ver kind s = Ok id -> print_paserk ver kind id = s /\ length id = 33.
Proof.
  unfold parse_keyid, print_paserk.
  destruct (strip_prefix ver s) as [s1|] eqn:E1; cbn [ok_or bind]; [|discriminate].
  destruct (strip_prefix kind s1) as [s2|] eqn:E2; cbn [ok_or bind]; [|discriminate].
  destruct (decode_fixed 33 s2) as [d| |] eqn:D; cbn [bind]; try discriminate.
  destruct (Nat.eqb_spec (length d) 33) as [L|L]; [|discriminate].
  intros H; inversion H; subst d. apply decode_fixed_canonical in D. destruct D as [D _].
  apply strip_prefix_spec in E1, E2. subst. auto.
Qed.

Theorem keyid_parse_no_panic ver kind s : is_panic (parse_keyid ver kind s) = false.
Proof.
  unfold parse_keyid.
  destruct (strip_prefix ver s) as [s1|]; cbn [ok_or bind]; [|reflexivity].
  destruct (strip_prefix kind s1) as [s2|]; cbn [ok_or bind]; [|reflexivity].
  pose proof (decode_fixed_no_panic 33 s2) as P.
  destruct (decode_fixed 33 s2) as [d| |]; cbn [bind is_panic] in *; try congruence; try reflexivity.
  destruct (Nat.eqb (length d) 33); reflexivity.
Qed.

(* ---------- tokens ---------- *)

Theorem token_parse_print {F} (fdec : bytes -> option F) hdr sfx pur t fv :
  fdec (t_footer t) = Some fv ->
  parse_token fdec hdr sfx pur (print_token hdr sfx pur t) = Ok (t, fv).
Proof.
  intros HF. destruct t as [p f]. unfold parse_token, print_token. cbn [t_payload t_footer] in *.
  rewrite strip_prefix_app. cbn [ok_or bind]. rewrite strip_prefix_app. cbn [ok_or bind].
  rewrite strip_prefix_app. cbn [ok_or bind].
  destruct f as [|x f'].
  - rewrite app_nil_r, (split_once_dot_none _ (encode_nodot p)).
    rewrite decode_encode. cbn [bind]. rewrite HF. reflexivity.
  - rewrite (split_once_dot_app _ _ (encode_nodot p)).
    rewrite decode_encode. cbn [bind]. rewrite decode_encode. cbn [bind]. rewrite HF. reflexivity.
Qed.

Theorem token_print_parse {F} (fdec : bytes -> option F) hdr sfx pur s t fv :
  parse_token fdec hdr sfx pur s = Ok (t, fv) ->
  print_token hdr sfx pur t = s \/ (t_footer t = [] /\ print_token hdr sfx pur t ++ [dot] = s).
Proof.
  unfold parse_token, print_token.
  destruct (strip_prefix hdr s) as [s1|] eqn:E1; cbn [ok_or bind]; [|discriminate].
  destruct (strip_prefix sfx s1) as [s2|] eqn:E2; cbn [ok_or bind]; [|discriminate].
  destruct (strip_prefix pur s2) as [s3|] eqn:E3; cbn [ok_or bind]; [|discriminate].
  apply strip_prefix_spec in E1, E2, E3. subst s s1 s2.
  destruct (split_once_dot s3) as [[a b]|] eqn:S.
  - apply split_once_dot_some in S. destruct S as [-> _].
    destruct (decode_vec a) as [p| |] eqn:DP; cbn [bind]; try discriminate.
    destruct (decode_vec b) as [f| |] eqn:DF; cbn [bind]; try discriminate.
    destruct (fdec f) as [v|]; cbn [ok_or bind]; [|discriminate].
    intros H; inversion H; subst; clear H. cbn [t_payload t_footer].
    apply decode_canonical in DP, DF. subst a b.
    destruct f as [|x f'].
    + right. split; [reflexivity|]. cbn [encode encode_last firstn].
      rewrite app_nil_r, <- !app_assoc. reflexivity.
    + left. reflexivity.
  - destruct (decode_vec s3) as [p| |] eqn:DP; cbn [bind]; try discriminate.
    destruct (fdec []) as [v|]; cbn [ok_or bind]; [|discriminate].
    intros H; inversion H; subst; clear H. cbn [t_payload t_footer].
    apply decode_canonical in DP. subst s3. left. rewrite app_nil_r. reflexivity.
Qed.

Theorem token_parse_no_panic {F} (fdec : bytes -> option F) hdr sfx pur s :
  is_panic (parse_token fdec hdr sfx pur s) = false.
Proof.
  unfold parse_token.
  destruct (strip_prefix hdr s) as [s1|]; cbn [ok_or bind]; [|reflexivity].
  destruct (strip_prefix sfx s1) as [s2|]; cbn [ok_or bind]; [|reflexivity].
  destruct (strip_prefix pur s2) as [s3|]; cbn [ok_or bind]; [|reflexivity].
  destruct (split_once_dot s3) as [[a b]|].
  - pose proof (decode_vec_no_panic a) as Pa. destruct (decode_vec a); cbn [bind is_panic] in *; try congruence; try reflexivity.
    pose proof (decode_vec_no_panic b) as Pb. destruct (decode_vec b); cbn [bind is_panic] in *; try congruence; try reflexivity.
    destruct (fdec _); reflexivity.
  - pose proof (decode_vec_no_panic s3) as Pa. destruct (decode_vec s3); cbn [bind is_panic] in *; try congruence; try reflexivity.
    destruct (fdec _); reflexivity.
Qed.

(* two different accepted strings never carry the same value, except "<token>" vs "<token>." *)
Corollary token_aliases_only_trailing_dot {F} (fdec : bytes -> option F) hdr sfx pur s1 s2 t v1 v2 :
  parse_token fdec hdr sfx pur s1 = Ok (t, v1) ->
  parse_token fdec hdr sfx pur s2 = Ok (t, v2) ->
  s1 = s2 \/ s1 = s2 ++ [dot] \/ s2 = s1 ++ [dot].
Proof.
  intros H1 H2. apply token_print_parse in H1, H2.
  destruct H1 as [<-|[_ <-]], H2 as [<-|[_ <-]]; auto.
Qed.

(* text-level tampering: a token text that is extended, truncated or changed in place and still parses carries other
   bytes — except for the one alias, a dot after a footer-less token.  (The byte-level theorems then apply.) *)
Corollary token_text_extension_changes_token {F} (fdec : bytes -> option F) hdr sfx pur s x t v t' v' :
  parse_token fdec hdr sfx pur s = Ok (t, v) ->
  parse_token fdec hdr sfx pur (s ++ x) = Ok (t', v') ->
  x <> [] -> x <> [dot] -> t' <> t.
Proof.
  intros H1 H2 Hx Hd ->.
  destruct (token_aliases_only_trailing_dot fdec hdr sfx pur _ _ _ _ _ H1 H2) as [E|[E|E]].
  - apply Hx. rewrite <- (app_nil_r s) in E at 1. apply app_inv_head in E. now symmetry.
  - apply (f_equal (@length _)) in E. rewrite !app_length in E. simpl in E. lia.
  - apply app_inv_head in E. now apply Hd.
Qed.

Corollary token_text_same_length_changes_token {F} (fdec : bytes -> option F) hdr sfx pur s1 s2 t v t' v' :
  parse_token fdec hdr sfx pur s1 = Ok (t, v) ->
  parse_token fdec hdr sfx pur s2 = Ok (t', v') ->
  length s1 = length s2 -> s1 <> s2 -> t' <> t.
Proof.
  intros H1 H2 L N ->.
  destruct (token_aliases_only_trailing_dot fdec hdr sfx pur _ _ _ _ _ H1 H2) as [E|[E|E]].
  - now apply N.
  - rewrite E, app_length in L. simpl in L. lia.
  - rewrite E, app_length in L. simpl in L. lia.
Qed.

(* PASERK texts have no alias at all: two accepted strings with the same data are the same string — so a wrapped or
   sealed key text that was extended, truncated or changed in place either does not parse or carries other bytes *)
Corollary paserk_text_injective ver kind s1 s2 d :
  parse_paserk ver kind s1 = Ok d -> parse_paserk ver kind s2 = Ok d -> s1 = s2.
Proof.
  intros H1 H2. apply paserk_print_parse in H1, H2. congruence.
Qed.
Corollary paserk_text_change_changes_data ver kind s1 s2 d1 d2 :
  parse_paserk ver kind s1 = Ok d1 -> parse_paserk ver kind s2 = Ok d2 -> s1 <> s2 -> d1 <> d2.
Proof.
  intros H1 H2 N E. subst d2. apply N. eapply paserk_text_injective; eassumption.
Qed.

