(* Oracle.v — the named cryptographic primitives the PASETO / PASERK documents use, reached through ONE
   oracle function [O : name -> args -> results] over byte strings (so that the extracted model needs
   a single call-back into the primitive server), wrapped here as typed Gallina functions.

   The algebraic facts that theorems need about the primitives are the record [laws O]; it appears as
   an explicit PREMISE of theorems ("forall O, laws O -> ..."), never as an Axiom.  ToyOracle.v shows
   that the premise is satisfiable. *)
From Coq Require Import List NArith String.
From PV Require Import Bytes Result.
Import ListNotations.
Local Open Scope string_scope.

Definition oracle := String.string -> list bytes -> list bytes.

(* Numbers handed to the oracle: 4 bytes big-endian when they fit (every value the schemes ever pass), and
   [N.size n] bytes otherwise, so that the encoding is INJECTIVE on all of N.  (A fixed 4-byte field would
   make "length (hkdf .. n) = n for all n" contradictory: n and n + 2^32 would reach the oracle as the same
   argument.  ToyOracle.v proves that [laws] below has a model.) *)
Definition nenc (n : N) : bytes :=
  if (n <? 2 ^ 32)%N then be_bytes 4 n else be_bytes (N.to_nat (N.size n)) n.
Definition n4 (n : N) : bytes := nenc n.
Definition nat4 (n : nat) : bytes := nenc (N.of_nat n).
Definition flag (l : list bytes) : bool :=
  match l with [b] => beq b (hex "01") | _ => false end.
Definition opt1 (l : list bytes) : option bytes :=
  match l with [b] => Some b | _ => None end.

Section Prims.
  Variable O : oracle.
  Definition call1 (name : String.string) (args : list bytes) : bytes := hd [] (O name args).

  (* hashes, MACs, KDFs *)
  Definition sha384 (m : bytes) : bytes := call1 "sha384" [m].
  Definition hmac384 (k m : bytes) : bytes := call1 "hmac384" [k; m].
  (* salt [] = "no salt" (RFC 5869: a string of zeros, which HMAC treats like the empty key) *)
  Definition hkdf384 (salt ikm info : bytes) (len : nat) : bytes := call1 "hkdf384" [salt; ikm; info; nat4 len].
  (* key [] = unkeyed *)
  Definition blake2b (outlen : nat) (key m : bytes) : bytes := call1 "blake2b" [nat4 outlen; key; m].
  Definition pbkdf2_384 (pass salt : bytes) (iters : N) (len : nat) : bytes :=
    call1 "pbkdf2_384" [pass; salt; n4 iters; nat4 len].
  (* None: the parameter set is rejected by the Argon2 implementation *)
  Definition argon2id (pass salt : bytes) (mem_kib time para : N) (len : nat) : option bytes :=
    opt1 (O "argon2id" [pass; salt; n4 mem_kib; n4 time; n4 para; nat4 len]).

  (* ciphers *)
  Definition aes256 (key block : bytes) : bytes := call1 "aes256" [key; block].
  Definition xchacha20 (key nonce : bytes) (len : nat) : bytes := call1 "xchacha20" [key; nonce; nat4 len].
  Definition xcp_seal (key nonce aad pt : bytes) : bytes * bytes :=
    match O "xcp_seal" [key; nonce; aad; pt] with [c; t] => (c, t) | _ => ([], []) end.
  Definition xcp_open (key nonce aad ct tag : bytes) : option bytes :=
    opt1 (O "xcp_open" [key; nonce; aad; ct; tag]).

  (* Ed25519 (RFC 8032) *)
  Definition ed_pk (seed : bytes) : bytes := call1 "ed_pk" [seed].
  Definition ed_pk_ok (pk : bytes) : bool := flag (O "ed_pk_ok" [pk]).
  Definition ed_sign (seed m : bytes) : bytes := call1 "ed_sign" [seed; m].
  Definition ed_verify (pk m sig : bytes) : bool := flag (O "ed_verify" [pk; m; sig]).
  (* the strict variant (libsodium crypto_sign_verify_detached: rejects small-order R / A and
     non-canonical encodings) *)
  Definition ed_verify_strict (pk m sig : bytes) : bool := flag (O "ed_verify_strict" [pk; m; sig]).

  (* P-384: keys as 48-byte big-endian scalars / 49-byte compressed points; signatures as integers *)
  Definition p384_pk (sk : bytes) : option bytes := opt1 (O "p384_pk" [sk]).
  Definition p384_parse (sec1 : bytes) : option bytes := opt1 (O "p384_parse" [sec1]).
  (* ECDSA-P384-SHA384 with a deterministic (RFC 6979) or caller-independent nonce: returns (r, s);
     [aux] = whatever additional randomness the signer used (empty for RFC 6979) *)
  Definition ecdsa_sign (sk m aux : bytes) : N * N :=
    match O "ecdsa_sign" [sk; m; aux] with [r; s] => (be_val r, be_val s) | _ => (0%N, 0%N) end.
  Definition ecdsa_verify (pk m : bytes) (r s : N) : bool :=
    flag (O "ecdsa_verify" [pk; m; be_bytes 48 r; be_bytes 48 s]).
  Definition ecdh_p384 (sk pk : bytes) : option bytes := opt1 (O "ecdh_p384" [sk; pk]).

  (* X25519 over keys given in their Ed25519 form (PASERK v2/v4 seal).  Clamping and reduction of the
     32 random bytes are inside the primitive ("generate an ephemeral X25519 key pair"). *)
  Definition x_of_edpk (edpk : bytes) : option bytes := opt1 (O "x_of_edpk" [edpk]).   (* birational map *)
  Definition x_of_seed (seed : bytes) : bytes := call1 "x_of_seed" [seed].             (* X25519 public key of an Ed25519 seed *)
  Definition x_base (r : bytes) : bytes := call1 "x_base" [r].                          (* ephemeral public key *)
  Definition x_mul (r xpk : bytes) : bytes := call1 "x_mul" [r; xpk].                   (* ephemeral secret * peer *)
  Definition x_mul_seed (seed epk : bytes) : bytes := call1 "x_mul_seed" [seed; epk].   (* recipient secret * epk *)

  (* RSA; keys are opaque DER byte strings *)
  Definition rsa_sk_parse (bs : bytes) : option (bytes * N) :=      (* PKCS#1 DER or PEM -> canonical DER, modulus bits *)
    match O "rsa_sk_parse" [bs] with [der; bits] => Some (der, be_val bits) | _ => None end.
  Definition rsa_pk_parse (bs : bytes) : option (bytes * N) :=      (* SPKI DER or PEM -> canonical DER, modulus bits *)
    match O "rsa_pk_parse" [bs] with [der; bits] => Some (der, be_val bits) | _ => None end.
  Definition rsa_pk (sk : bytes) : bytes := call1 "rsa_pk" [sk].
  Definition rsa_pss_sign (sk m aux : bytes) : option bytes := opt1 (O "rsa_pss_sign" [sk; m; aux]).
  Definition rsa_pss_verify (pk m sig : bytes) : bool := flag (O "rsa_pss_verify" [pk; m; sig]).
  (* textbook RSA for the v1 KEM: integers in, integers out *)
  Definition rsa_enc (pk : bytes) (r : N) : option N :=
    match O "rsa_enc" [pk; be_bytes 512 r] with [c] => Some (be_val c) | _ => None end.
  Definition rsa_dec (sk : bytes) (c : N) : option N :=
    match O "rsa_dec" [sk; be_bytes 512 c] with [r] => Some (be_val r) | _ => None end.
End Prims.

Definition p384_n : N :=
  39402006196394479212279040100143613805079739270465446667946905279627659399113263569398956308152294913554433653942643%N.

(* The premises theorems may use.  Each field is a standard fact about the named primitive, stated for a
   TOTAL extension of it: outside the primitive's domain (an AES key that is not 32 bytes, a BLAKE2b output
   longer than 64, an HKDF output longer than 255*48, an RSA message not below the modulus) the extension
   answers with some value of the stated length / "no answer", which the primitive server does not compute:
   it stops the run ("left the primitive's domain") so that a model leaving the domain is never silent. *)
Record laws (O : oracle) : Prop := {
  sha384_len : forall m, length (sha384 O m) = 48;
  hmac384_len : forall k m, length (hmac384 O k m) = 48;
  hkdf384_len : forall s k i n, length (hkdf384 O s k i n) = n;
  blake2b_len : forall n k m, length (blake2b O n k m) = n;
  aes256_len : forall k b, length (aes256 O k b) = 16;
  xchacha20_len : forall k n len, length (xchacha20 O k n len) = len;
  pbkdf2_len : forall p s i n, length (pbkdf2_384 O p s i n) = n;
  argon2id_len : forall p s m t q n k, argon2id O p s m t q n = Some k -> length k = n;
  xcp_seal_len : forall k n a m, length (fst (xcp_seal O k n a m)) = length m /\ length (snd (xcp_seal O k n a m)) = 16;
  xcp_open_seal : forall k n a m, xcp_open O k n a (fst (xcp_seal O k n a m)) (snd (xcp_seal O k n a m)) = Some m;
  xcp_open_len : forall k n a c t m, xcp_open O k n a c t = Some m -> length m = length c;
  (* the tag is a function of key, nonce, associated data and ciphertext: at most one tag opens them *)
  xcp_tag_unique : forall k n a c t t' m m', xcp_open O k n a c t = Some m -> xcp_open O k n a c t' = Some m' -> t = t';
  ed_pk_len : forall sd, length (ed_pk O sd) = 32;
  ed_pk_valid : forall sd, ed_pk_ok O (ed_pk O sd) = true;
  ed_sign_len : forall sd m, length (ed_sign O sd m) = 64;
  ed_verify_sign : forall sd m, ed_verify O (ed_pk O sd) m (ed_sign O sd m) = true;
  ed_verify_strict_sign : forall sd m, ed_verify_strict O (ed_pk O sd) m (ed_sign O sd m) = true;
  p384_pk_len : forall sk pk, p384_pk O sk = Some pk -> length pk = 49;
  p384_parse_len : forall bs pk, p384_parse O bs = Some pk -> length pk = 49;
  p384_parse_canon : forall bs pk, p384_parse O bs = Some pk -> p384_parse O pk = Some pk;
  p384_pk_parses : forall sk pk, p384_pk O sk = Some pk -> p384_parse O pk = Some pk;
  ecdsa_range : forall sk m aux, (0 < fst (ecdsa_sign O sk m aux) < p384_n)%N /\ (0 < snd (ecdsa_sign O sk m aux) < p384_n)%N;
  ecdsa_verify_sign : forall sk pk m aux, p384_pk O sk = Some pk ->
      ecdsa_verify O pk m (fst (ecdsa_sign O sk m aux)) (snd (ecdsa_sign O sk m aux)) = true;
  ecdsa_verify_neg_s : forall pk m r s, (0 < s < p384_n)%N ->
      ecdsa_verify O pk m r s = true -> ecdsa_verify O pk m r (p384_n - s) = true;
  ecdh_comm : forall a b A B, p384_pk O a = Some A -> p384_pk O b = Some B ->
      ecdh_p384 O a B = ecdh_p384 O b A /\ ecdh_p384 O a B <> None;
  ecdh_len : forall a B x, ecdh_p384 O a B = Some x -> length x = 48;
  x_of_edpk_seed : forall sd, x_of_edpk O (ed_pk O sd) = Some (x_of_seed O sd);
  x_dh_comm : forall sd r, x_mul_seed O sd (x_base O r) = x_mul O r (x_of_seed O sd);
  x_base_len : forall r, length (x_base O r) = 32;
  rsa_pss_len : forall sk m aux sg, rsa_pss_sign O sk m aux = Some sg -> length sg = 256;
  rsa_pss_verify_sign : forall sk m aux sg, rsa_pss_sign O sk m aux = Some sg -> rsa_pss_verify O (rsa_pk O sk) m sg = true;
  rsa_enc_range : forall pk r c, rsa_enc O pk r = Some c -> (c < 256 ^ 512)%N;
  rsa_dec_enc : forall sk r c, (r < 2 ^ 4095)%N -> rsa_enc O (rsa_pk O sk) r = Some c -> rsa_dec O sk c = Some r;
}.
