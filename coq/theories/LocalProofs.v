(* LocalProofs.v — theorems about the local (symmetric) token schemes of Local.v.
   1. every MAC-then-XOR backend model IS the generic scheme at its parameters (pointwise equality);
   2. round trip of the generic scheme (C01) and its acceptance characterisation (C02);
   3. the same for v2 (AEAD);
   4. corollaries per backend under [laws O]. *)
From Coq Require Import List NArith String Bool Lia Arith.
From PV Require Import Bytes Result Rs Pae Ctr Oracle Local.
Import ListNotations.
Set Default Timeout 60.
Local Open Scope list_scope.

(* ---------- list arithmetic ---------- *)

Lemma app_eq_len_l (a b c d : bytes) : length a = length c -> a ++ b = c ++ d -> a = c /\ b = d.
Proof.
  revert c. induction a as [|x a IH]; intros [|y c] H E; cbn in *; try discriminate; [auto|].
  inversion E; subst. destruct (IH c) as [-> ->]; [lia|assumption|auto].
Qed.
Lemma app_eq_len_r (a b c d : bytes) : length b = length d -> a ++ b = c ++ d -> a = c /\ b = d.
Proof.
  intros H E. apply app_eq_len_l; [|exact E].
  apply (f_equal (@length _)) in E. rewrite !app_length in E. lia.
Qed.

Lemma take_app_exact (a b : bytes) n : n = length a -> take n (a ++ b) = a.
Proof.
  intros ->. unfold take. rewrite firstn_app, Nat.sub_diag, firstn_all, firstn_O, app_nil_r. reflexivity.
Qed.

Lemma drop_app_exact (a b : bytes) n : n = length a -> drop n (a ++ b) = b.
Proof.
  intros ->. unfold drop. rewrite skipn_app, Nat.sub_diag, skipn_all. reflexivity.
Qed.

Lemma take_drop (n : nat) (l : bytes) : take n l ++ drop n l = l.
Proof. apply firstn_skipn. Qed.

Lemma take_length_le n (l : bytes) : n <= length l -> length (take n l) = n.
Proof. apply firstn_length_le. Qed.

Lemma drop_length n (l : bytes) : length (drop n l) = length l - n.
Proof. apply skipn_length. Qed.

Lemma split_last_ge n (l : bytes) :
  n <= length l -> split_last n l = Some (take (length l - n) l, drop (length l - n) l).
Proof. intros H. unfold split_last. destruct (Nat.leb_spec n (length l)); [reflexivity|lia]. Qed.

Lemma split_first_ge n (l : bytes) : n <= length l -> split_first n l = Some (take n l, drop n l).
Proof. intros H. unfold split_first. destruct (Nat.leb_spec n (length l)); [reflexivity|lia]. Qed.

Lemma split_first_lt n (l : bytes) : length l < n -> split_first n l = None.
Proof. intros H. unfold split_first. destruct (Nat.leb_spec n (length l)); [lia|reflexivity]. Qed.

Lemma split_last_lt n (l : bytes) : length l < n -> split_last n l = None.
Proof. intros H. unfold split_last. destruct (Nat.leb_spec n (length l)); [lia|reflexivity]. Qed.

Lemma isnil_true (a : bytes) : isnil a = true <-> a = [].
Proof. destruct a; cbn; split; intros H; congruence. Qed.

(* ---------- the counter-mode keystream has the requested length ---------- *)

Lemma flat_map_length_const {A} (f : A -> bytes) (l : list A) k :
  (forall x, length (f x) = k) -> length (flat_map f l) = k * length l.
Proof.
  intros H. induction l as [|x l IH]; cbn [flat_map length]; [lia|].
  rewrite app_length, H, IH. lia.
Qed.

Lemma nblocks_enough len : len <= 16 * nblocks len.
Proof.
  unfold nblocks.
  pose proof (Nat.div_mod (len + 15) 16 ltac:(lia)) as E.
  pose proof (Nat.mod_upper_bound (len + 15) 16 ltac:(lia)). lia.
Qed.

Lemma ctr_keystream_length W (E : bytes -> bytes) iv len :
  (forall b, length (E b) = 16) -> length (ctr_keystream W E iv len) = len.
Proof.
  intros HE. unfold ctr_keystream. rewrite firstn_length_le; [reflexivity|].
  rewrite (flat_map_length_const _ _ 16) by (intros; apply HE).
  rewrite seq_length. apply nblocks_enough.
Qed.

Section Generic.
  Variable P : lparams.

  Definition aad_ok (a : bytes) : Prop := lp_aad P = true \/ a = [].

  Lemma aad_gate a : aad_ok a -> negb (lp_aad P) && negb (isnil a) = false.
  Proof. intros [H|H]; [rewrite H; reflexivity|subst; cbn; apply andb_false_r]. Qed.

  Lemma aad_gate_bad a : ~ aad_ok a -> negb (lp_aad P) && negb (isnil a) = true.
  Proof.
    unfold aad_ok. intros H. destruct (lp_aad P); [exfalso; auto|]. destruct a; [exfalso; auto|reflexivity].
  Qed.

  (* unsealing a well-formed triple *)
  Lemma lg_unseal_triple key enc n c t f a :
    length n = 32 -> length t = lp_tlen P -> aad_ok a ->
    lg_unseal P key enc (n ++ c ++ t) f a =
      if beq (lp_tag P key enc n c f a) t then Ok (xorl c (lp_ks P key n (length c))) else Err CryptoError.
  Proof.
    intros Hn Ht Ha. unfold lg_unseal. rewrite (aad_gate _ Ha).
    assert (L : length (n ++ c ++ t) = 32 + length c + lp_tlen P) by (rewrite !app_length; lia).
    destruct (Nat.ltb_spec (length (n ++ c ++ t)) (32 + lp_tlen P)); [lia|].
    assert (E1 : take (length (n ++ c ++ t) - lp_tlen P) (n ++ c ++ t) = n ++ c).
    { rewrite app_assoc. apply take_app_exact. rewrite app_assoc, app_length in L. rewrite app_length. lia. }
    assert (E2 : drop (length (n ++ c ++ t) - lp_tlen P) (n ++ c ++ t) = t).
    { rewrite app_assoc. apply drop_app_exact. rewrite app_assoc, app_length in L. rewrite app_length. lia. }
    rewrite E1, E2.
    rewrite (take_app_exact n c 32) by (symmetry; exact Hn).
    rewrite (drop_app_exact n c 32) by (symmetry; exact Hn).
    reflexivity.
  Qed.

  (* C02: acceptance characterisation — exactly the payloads nonce || c || tag whose tag is the MAC of
     everything else (under this key, suffix, footer, assertion) are accepted, and the result is c xor ks *)
  Theorem lg_accept_iff key enc p f a m :
    lg_unseal P key enc p f a = Ok m <->
    aad_ok a /\ exists n c t, p = n ++ c ++ t /\ length n = 32 /\ length t = lp_tlen P /\
                              lp_tag P key enc n c f a = t /\ m = xorl c (lp_ks P key n (length c)).
  Proof.
    split.
    - unfold lg_unseal.
      destruct (negb (lp_aad P) && negb (isnil a)) eqn:Ea; [discriminate|].
      assert (Ha : aad_ok a).
      { unfold aad_ok. destruct (lp_aad P); [left; reflexivity|]. cbn in Ea. destruct a; [right; reflexivity|discriminate]. }
      destruct (Nat.ltb_spec (length p) (32 + lp_tlen P)) as [|Hlen]; [discriminate|].
      set (rest := take (length p - lp_tlen P) p). set (t := drop (length p - lp_tlen P) p).
      destruct (beq (lp_tag P key enc (take 32 rest) (drop 32 rest) f a) t) eqn:Eb; [|discriminate].
      intros E; inversion E; subst m. split; [exact Ha|].
      exists (take 32 rest), (drop 32 rest), t.
      assert (Lrest : length rest = length p - lp_tlen P) by (apply take_length_le; lia).
      repeat split.
      + rewrite app_assoc, take_drop. unfold rest, t. symmetry. apply take_drop.
      + apply take_length_le. lia.
      + unfold t. rewrite drop_length. lia.
      + apply beq_eq. exact Eb.
    - intros (Ha & n & c & t & -> & Hn & Ht & Htg & ->).
      rewrite lg_unseal_triple by assumption. rewrite Htg, beq_refl. reflexivity.
  Qed.

  (* corollaries of the characterisation *)

  (* too short: always the format error *)
  Theorem lg_short key enc p f a :
    aad_ok a -> length p < 32 + lp_tlen P -> lg_unseal P key enc p f a = Err InvalidToken.
  Proof.
    intros Ha H. unfold lg_unseal. rewrite (aad_gate _ Ha).
    destruct (Nat.ltb_spec (length p) (32 + lp_tlen P)); [reflexivity|lia].
  Qed.

  (* versions without implicit assertions refuse a non-empty one, whatever the token *)
  Theorem lg_aad_refused key enc p f a :
    lp_aad P = false -> a <> [] -> lg_unseal P key enc p f a = Err ClaimsError.
  Proof.
    intros H Ha. unfold lg_unseal. rewrite H. destruct a; [congruence|reflexivity].
  Qed.

  (* same nonce and ciphertext, any other tag: rejected, unconditionally *)
  Theorem lg_tag_tamper key enc n c t t' f a :
    length n = 32 -> length t = lp_tlen P -> length t' = lp_tlen P -> aad_ok a ->
    lg_unseal P key enc (n ++ c ++ t) f a = Ok (xorl c (lp_ks P key n (length c))) ->
    t' <> t -> lg_unseal P key enc (n ++ c ++ t') f a = Err CryptoError.
  Proof.
    intros Hn Ht Ht' Ha Hok Hne.
    rewrite lg_unseal_triple in Hok by assumption.
    rewrite lg_unseal_triple by assumption.
    destruct (beq (lp_tag P key enc n c f a) t) eqn:E; [|discriminate].
    apply beq_eq in E. rewrite E.
    destruct (beq t t') eqn:E2; [apply beq_eq in E2; congruence|reflexivity].
  Qed.

  (* any accepted modification of anything but the tag exhibits a tag collision: two DIFFERENT
     authenticated tuples (key, suffix, nonce, ciphertext, footer, assertion) with the same tag.
     No idealised-MAC assumption: the conclusion hands over the colliding pair. *)
  Theorem lg_forgery_is_collision key enc n c t f a key' enc' n' c' f' a' m' :
    length n = 32 -> length n' = 32 -> length t = lp_tlen P -> aad_ok a -> aad_ok a' ->
    lp_tag P key enc n c f a = t ->
    lg_unseal P key' enc' (n' ++ c' ++ t) f' a' = Ok m' ->
    (key', enc', n', c', f', a') <> (key, enc, n, c, f, a) ->
    lp_tag P key' enc' n' c' f' a' = lp_tag P key enc n c f a /\
    (key', enc', n', c', f', a') <> (key, enc, n, c, f, a).
  Proof.
    intros Hn Hn' Ht Ha Ha' Htag0 Hok Hne. split; [|exact Hne].
    rewrite lg_unseal_triple in Hok by assumption.
    destruct (beq (lp_tag P key' enc' n' c' f' a') t) eqn:E; [|discriminate].
    apply beq_eq in E. congruence.
  Qed.

  Theorem lg_unseal_no_panic key enc p f a : is_panic (lg_unseal P key enc p f a) = false.
  Proof.
    unfold lg_unseal.
    destruct (negb (lp_aad P) && negb (isnil a)); [reflexivity|].
    destruct (Nat.ltb (length p) (32 + lp_tlen P)); [reflexivity|].
    match goal with |- context [if ?b then _ else _] => destruct b end; reflexivity.
  Qed.

  Hypothesis Hks : forall k n len, length (lp_ks P k n len) = len.
  Hypothesis Htag : forall k e n c f a, length (lp_tag P k e n c f a) = lp_tlen P.
  Hypothesis Hsyn : forall n0 m, length n0 = 32 -> length (lp_synth P n0 m) = 32.

  (* C01: sealing succeeds and unsealing the result returns the message *)
  Theorem lg_roundtrip key enc n0 m f a :
    length n0 = 32 -> aad_ok a ->
    exists p, lg_seal P key enc (n0 ++ m) f a = Ok p /\ lg_unseal P key enc p f a = Ok m.
  Proof.
    intros Hn Ha. unfold lg_seal. rewrite (aad_gate _ Ha).
    replace (split_first 32 (n0 ++ m)) with (Some (n0, m)) by (rewrite <- Hn; symmetry; apply split_first_app).
    eexists; split; [reflexivity|].
    rewrite lg_unseal_triple; [|apply Hsyn; exact Hn|apply Htag|exact Ha].
    rewrite xorl_length by (rewrite Hks; lia).
    rewrite beq_refl. rewrite xorl_involutive by (rewrite Hks; lia). reflexivity.
  Qed.

  (* the sealed payload has the fixed overhead 32 + tag length *)
  Theorem lg_seal_length key enc n0 m f a p :
    length n0 = 32 -> lg_seal P key enc (n0 ++ m) f a = Ok p -> length p = 32 + length m + lp_tlen P.
  Proof.
    intros Hn. unfold lg_seal. destruct (negb (lp_aad P) && negb (isnil a)); [discriminate|].
    replace (split_first 32 (n0 ++ m)) with (Some (n0, m)) by (rewrite <- Hn; symmetry; apply split_first_app).
    intros E; inversion E; subst. rewrite !app_length, Hsyn, Htag by exact Hn.
    rewrite xorl_length by (rewrite Hks; lia). lia.
  Qed.

End Generic.

(* ---------- every backend model is the generic scheme at its parameters ---------- *)

Section Instances.
  Variable O : oracle.

  Ltac unseal_inst :=
    intros; unfold lg_unseal, v3_params, lc_params, v1_params, v4_params, na_params; cbn [lp_aad lp_tlen lp_tag lp_ks negb andb];
    match goal with |- context [Nat.ltb (length ?p) ?n] => destruct (Nat.ltb_spec (length p) n) as [Hlt|Hge] end;
    cbn [Nat.add] in *.

  Lemma v3_unseal_inst key enc p f a : v3_local_unseal O key enc p f a = lg_unseal (v3_params O) key enc p f a.
  Proof.
    unfold v3_local_unseal. unseal_inst.
    - destruct (Nat.ltb_spec (length p) 80); [reflexivity|lia].
    - destruct (Nat.ltb_spec (length p) 80); [lia|].
      rewrite split_last_ge by lia. cbn [ok_or bind].
      rewrite split_first_ge by (rewrite take_length_le; lia). cbn [ok_or bind].
      unfold ks_of. destruct (v3_keys O key _) as [[ek n2] ak]. reflexivity.
  Qed.

  Lemma v3_seal_inst key enc p f a : v3_local_seal O key enc p f a = lg_seal (v3_params O) key enc p f a.
  Proof.
    unfold v3_local_seal, lg_seal, v3_params, lc_params, v1_params, v4_params, na_params. cbn [lp_aad lp_short lp_synth lp_tag lp_ks negb andb].
    destruct (split_first 32 p) as [[n m]|]; cbn [ok_or bind]; [|reflexivity].
    unfold ks_of. destruct (v3_keys O key n) as [[ek n2] ak]. reflexivity.
  Qed.

  Lemma lc_unseal_inst key enc p f a : lc_local_unseal O key enc p f a = lg_unseal (lc_params O) key enc p f a.
  Proof.
    unfold lc_local_unseal. unseal_inst.
    - destruct (Nat.ltb_spec (length p) 80); [reflexivity|lia].
    - destruct (Nat.ltb_spec (length p) 80); [lia|].
      (* the guard len >= 80 is what makes `len - 48`, `split_at_mut(len - 48)` and `split_at_mut(32)` safe *)
      rewrite rs_sub_ok by lia. rewrite rs_split_at_ok by lia.
      rewrite rs_split_at_ok by (rewrite take_length_le; lia).
      unfold ks_of. destruct (lc_keys O key _) as [[ek n2] ak]. reflexivity.
  Qed.

  Lemma lc_seal_inst key enc p f a : lc_local_seal O key enc p f a = lg_seal (lc_params O) key enc p f a.
  Proof.
    unfold lc_local_seal, lg_seal, v3_params, lc_params, v1_params, v4_params, na_params. cbn [lp_aad lp_short lp_synth lp_tag lp_ks negb andb].
    destruct (Nat.ltb_spec (length p) 32).
    - rewrite split_first_lt by lia. reflexivity.
    - rewrite split_first_ge by lia.
      unfold ks_of. destruct (lc_keys O key _) as [[ek n2] ak]. reflexivity.
  Qed.

  Lemma v1_unseal_inst key enc p f a : v1_local_unseal O key enc p f a = lg_unseal (v1_params O) key enc p f a.
  Proof.
    unfold v1_local_unseal, lg_unseal, v1_params. cbn [lp_aad lp_tlen lp_tag lp_ks negb andb].
    destruct (negb (isnil a)); [reflexivity|].
    destruct (Nat.ltb_spec (length p) 80); destruct (Nat.ltb_spec (length p) (32 + 48)); try lia; [reflexivity|].
    rewrite split_last_ge by lia. cbn [ok_or bind].
    rewrite split_first_ge by (rewrite take_length_le; lia). cbn [ok_or bind].
    unfold ks_of. destruct (v1_keys O key _) as [[ek n2] ak]. reflexivity.
  Qed.

  Lemma v1_seal_inst key enc p f a : v1_local_seal O key enc p f a = lg_seal (v1_params O) key enc p f a.
  Proof.
    unfold v1_local_seal, lg_seal, v3_params, lc_params, v1_params, v4_params, na_params. cbn [lp_aad lp_short lp_synth lp_tag lp_ks negb andb].
    destruct (negb (isnil a)); [reflexivity|].
    destruct (split_first 32 p) as [[n m]|]; cbn [ok_or bind]; [|reflexivity].
    unfold ks_of. destruct (v1_keys O key _) as [[ek n2] ak]. reflexivity.
  Qed.

  Lemma v4_unseal_inst key enc p f a : v4_local_unseal O key enc p f a = lg_unseal (v4_params O) key enc p f a.
  Proof.
    unfold v4_local_unseal. unseal_inst.
    - destruct (Nat.leb_spec 32 (length p)) as [H32|H32].
      + rewrite split_last_ge by lia. cbn [ok_or bind].
        rewrite split_first_lt by (rewrite take_length_le; lia). reflexivity.
      + rewrite split_last_lt by lia. reflexivity.
    - rewrite split_last_ge by lia. cbn [ok_or bind].
      rewrite split_first_ge by (rewrite take_length_le; lia). cbn [ok_or bind].
      unfold ks_of. destruct (v4_keys O key _) as [[ek n2] ak]. reflexivity.
  Qed.

  Lemma v4_seal_inst key enc p f a : v4_local_seal O key enc p f a = lg_seal (v4_params O) key enc p f a.
  Proof.
    unfold v4_local_seal, lg_seal, v3_params, lc_params, v1_params, v4_params, na_params. cbn [lp_aad lp_short lp_synth lp_tag lp_ks negb andb].
    destruct (Nat.ltb_spec (length p) 32).
    - rewrite split_first_lt by lia. reflexivity.
    - rewrite split_first_ge by lia.
      unfold ks_of. destruct (v4_keys O key _) as [[ek n2] ak]. reflexivity.
  Qed.

  Lemma na_unseal_inst key enc p f a : na_local_unseal O key enc p f a = lg_unseal (na_params O) key enc p f a.
  Proof.
    unfold na_local_unseal. unseal_inst.
    - destruct (Nat.ltb_spec (length p) 64); [reflexivity|lia].
    - destruct (Nat.ltb_spec (length p) 64); [lia|].
      rewrite split_last_ge by lia. cbn [ok_or bind].
      rewrite split_first_ge by (rewrite take_length_le; lia). cbn [ok_or bind].
      unfold ks_of. destruct (na_keys O key _) as [[ek n2] ak]. reflexivity.
  Qed.

  Lemma na_seal_inst key enc p f a : na_local_seal O key enc p f a = lg_seal (na_params O) key enc p f a.
  Proof.
    unfold na_local_seal, lg_seal, v3_params, lc_params, v1_params, v4_params, na_params. cbn [lp_aad lp_short lp_synth lp_tag lp_ks negb andb].
    destruct (split_first 32 p) as [[n m]|]; cbn [ok_or bind]; [|reflexivity].
    unfold ks_of. destruct (na_keys O key n) as [[ek n2] ak]. reflexivity.
  Qed.

  (* ---------- the generic hypotheses hold for each parameter set under [laws O] ---------- *)
  Hypothesis L : laws O.

  Lemma aes_ctr_len W ek iv len : length (aes_ctr O W ek iv len) = len.
  Proof. apply ctr_keystream_length. intros; apply (aes256_len O L). Qed.

  Ltac ks_len keys :=
    intros k n len; unfold v3_params, lc_params, v1_params, v4_params, na_params; cbn [lp_ks]; unfold ks_of; destruct (keys O k n) as [[ek n2] ak];
    first [apply aes_ctr_len | apply (xchacha20_len O L)].
  Ltac tag_len keys :=
    intros k e n c f a; unfold v3_params, lc_params, v1_params, v4_params, na_params; cbn [lp_tag lp_tlen]; destruct (keys O k n) as [[ek n2] ak];
    first [apply (hmac384_len O L) | apply (blake2b_len O L)].

  Lemma v3_ks_len : forall k n len, length (lp_ks (v3_params O) k n len) = len. Proof. ks_len v3_keys. Qed.
  Lemma v3_tag_len : forall k e n c f a, length (lp_tag (v3_params O) k e n c f a) = lp_tlen (v3_params O). Proof. tag_len v3_keys. Qed.
  Lemma lc_ks_len : forall k n len, length (lp_ks (lc_params O) k n len) = len. Proof. ks_len lc_keys. Qed.
  Lemma lc_tag_len : forall k e n c f a, length (lp_tag (lc_params O) k e n c f a) = lp_tlen (lc_params O). Proof. tag_len lc_keys. Qed.
  Lemma v1_ks_len : forall k n len, length (lp_ks (v1_params O) k n len) = len. Proof. ks_len v1_keys. Qed.
  Lemma v1_tag_len : forall k e n c f a, length (lp_tag (v1_params O) k e n c f a) = lp_tlen (v1_params O). Proof. tag_len v1_keys. Qed.
  Lemma v4_ks_len : forall k n len, length (lp_ks (v4_params O) k n len) = len. Proof. ks_len v4_keys. Qed.
  Lemma v4_tag_len : forall k e n c f a, length (lp_tag (v4_params O) k e n c f a) = lp_tlen (v4_params O). Proof. tag_len v4_keys. Qed.
  Lemma na_ks_len : forall k n len, length (lp_ks (na_params O) k n len) = len. Proof. ks_len na_keys. Qed.
  Lemma na_tag_len : forall k e n c f a, length (lp_tag (na_params O) k e n c f a) = lp_tlen (na_params O). Proof. tag_len na_keys. Qed.

  Lemma id_syn (P : lparams) : lp_synth P = (fun n _ => n) -> forall n0 (m : bytes), length n0 = 32 -> length (lp_synth P n0 m) = 32.
  Proof. intros -> n0 m H. exact H. Qed.

  Lemma v1_syn : forall n0 (m : bytes), length n0 = 32 -> length (lp_synth (v1_params O) n0 m) = 32.
  Proof. intros n0 m _. cbn [lp_synth v1_params]. apply take_length_le. rewrite (hmac384_len O L). lia. Qed.

  (* ---------- v2: AEAD ---------- *)
  Theorem v2_roundtrip key enc n0 m f :
    length n0 = 24 ->
    exists p, v2_local_seal O key enc (n0 ++ m) f [] = Ok p /\ v2_local_unseal O key enc p f [] = Ok m.
  Proof.
    intros Hn. unfold v2_local_seal. cbn [isnil negb].
    replace (split_first 24 (n0 ++ m)) with (Some (n0, m)) by (rewrite <- Hn; symmetry; apply split_first_app).
    cbn [ok_or bind].
    set (nonce := blake2b O 24 n0 m). set (aadp := v2_pre enc nonce f).
    pose proof (xcp_seal_len O L key nonce aadp m) as [Lc Lt].
    pose proof (xcp_open_seal O L key nonce aadp m) as Hopen.
    destruct (xcp_seal O key nonce aadp m) as [c t] eqn:Es. cbn [fst snd] in *.
    eexists; split; [reflexivity|].
    unfold v2_local_unseal. cbn [isnil negb].
    assert (Ln : length nonce = 24) by apply (blake2b_len O L).
    rewrite app_assoc. rewrite <- Lt at 1. rewrite split_last_app. cbn [ok_or bind].
    rewrite <- Ln at 1. rewrite split_first_app. cbn [ok_or bind].
    fold aadp. rewrite Hopen. reflexivity.
  Qed.

  Theorem v2_accept_iff key enc p f a m :
    v2_local_unseal O key enc p f a = Ok m <->
    a = [] /\ exists n c t, p = n ++ c ++ t /\ length n = 24 /\ length t = 16 /\
                            xcp_open O key n (v2_pre enc n f) c t = Some m.
  Proof.
    unfold v2_local_unseal. split.
    - destruct a; cbn [isnil negb]; [|discriminate].
      destruct (split_last 16 p) as [[rest t]|] eqn:E1; cbn [ok_or bind]; [|discriminate].
      destruct (split_first 24 rest) as [[n c]|] eqn:E2; cbn [ok_or bind]; [|discriminate].
      destruct (xcp_open O key n (v2_pre enc n f) c t) eqn:E3; [|discriminate].
      intros E; inversion E; subst. split; [reflexivity|].
      apply split_last_spec in E1 as [-> Lt]. apply split_first_spec in E2 as [-> Ln].
      exists n, c, t. rewrite <- app_assoc. auto.
    - intros (-> & n & c & t & -> & Ln & Lt & Hopen). cbn [isnil negb].
      rewrite app_assoc. rewrite <- Lt at 1. rewrite split_last_app. cbn [ok_or bind].
      rewrite <- Ln at 1. rewrite split_first_app. cbn [ok_or bind]. rewrite Hopen. reflexivity.
  Qed.

  (* any other tag on the same nonce and ciphertext: refused with the authentication error (uses only the
     AEAD fact that at most one tag opens a given key, nonce, associated data and ciphertext) *)
  Theorem v2_tag_tamper key enc n c t t' f m :
    length n = 24 -> length t = 16 -> length t' = 16 ->
    v2_local_unseal O key enc (n ++ c ++ t) f [] = Ok m -> t' <> t ->
    v2_local_unseal O key enc (n ++ c ++ t') f [] = Err CryptoError.
  Proof.
    intros Ln Lt Lt' Hacc Hne.
    assert (Hopen : xcp_open O key n (v2_pre enc n f) c t = Some m).
    { apply v2_accept_iff in Hacc as (_ & n2 & c2 & t2 & E & Ln2 & Lt2 & Ho).
      apply app_eq_len_l in E as [<- E]; [|congruence].
      apply app_eq_len_r in E as [<- <-]; [exact Ho|congruence]. }
    unfold v2_local_unseal. cbn [isnil negb].
    rewrite app_assoc. rewrite <- Lt' at 1. rewrite split_last_app. cbn [ok_or bind].
    rewrite <- Ln at 1. rewrite split_first_app. cbn [ok_or bind].
    destruct (xcp_open O key n (v2_pre enc n f) c t') as [m'|] eqn:E'; [|reflexivity].
    exfalso. apply Hne. symmetry. exact (xcp_tag_unique O L _ _ _ _ _ _ _ _ Hopen E').
  Qed.

  Theorem v2_aad_refused key enc p f a : a <> [] -> v2_local_unseal O key enc p f a = Err ClaimsError.
  Proof. intros H. unfold v2_local_unseal. destruct a; [congruence|reflexivity]. Qed.

  Theorem v2_short key enc p f : length p < 40 -> v2_local_unseal O key enc p f [] = Err InvalidToken.
  Proof.
    intros H. unfold v2_local_unseal. cbn [isnil negb].
    destruct (Nat.leb_spec 16 (length p)).
    - rewrite split_last_ge by lia. cbn [ok_or bind].
      rewrite split_first_lt by (rewrite take_length_le; lia). reflexivity.
    - rewrite split_last_lt by lia. reflexivity.
  Qed.

  Theorem v2_unseal_no_panic key enc p f a : is_panic (v2_local_unseal O key enc p f a) = false.
  Proof.
    unfold v2_local_unseal. destruct (negb (isnil a)); [reflexivity|].
    destruct (split_last 16 p) as [[rest t]|]; cbn [ok_or bind]; [|reflexivity].
    destruct (split_first 24 rest) as [[n c]|]; cbn [ok_or bind]; [|reflexivity].
    destruct (xcp_open O key n (v2_pre enc n f) c t); reflexivity.
  Qed.
End Instances.
