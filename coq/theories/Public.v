(* Public.v — models of `impl SealingVersion<Public>` / `impl UnsealingVersion<Public>` of the six
   backends (each src/core/public.rs and paseto-v3-aws-lc/src/lc/mod.rs), over the primitive oracle.

   Key objects: v2/v4 secret = 32-byte seed (the expanded key is a function of it), public = 32 bytes;
   v3 secret = 48-byte big-endian scalar, public = 49-byte compressed point; v1 keys = DER strings. *)
From Coq Require Import List NArith String Bool.
From PV Require Import Bytes Result Rs Pae Oracle Local.
Import ListNotations.
Local Open Scope string_scope.
Local Open Scope list_scope.

Definition public_hdr (ver enc : bytes) : piece := [ver; enc; str ".public."].

Section WithOracle.
  Variable O : oracle.

  (* ------------------------------------------------------------------ v4 / v2 (ed25519-dalek) *)
  Definition v4_ppre (enc m f a : bytes) : bytes := pae [public_hdr (str "v4") enc; [m]; [f]; [a]].
  Definition v2_ppre (enc m f : bytes) : bytes := pae [public_hdr (str "v2") enc; [m]; [f]].

  Definition v4_public_seal (seed enc payload f a : bytes) : result bytes :=
    Ok (payload ++ ed_sign O seed (v4_ppre enc payload f a)).

  (* `if len < 64 { return Err(InvalidToken) }`, `payload.split_at(len - 64)`, `tag.try_into().unwrap()` *)
  Definition v4_public_unseal (pk enc payload f a : bytes) : result bytes :=
    if Nat.ltb (length payload) 64 then Err InvalidToken else
    rs_sub (length payload) 64 "paseto-v4/public.rs unseal: len - 64" (fun mid =>
    rs_split_at mid payload "paseto-v4/public.rs unseal: split_at(len - 64)" (fun m tag =>
    rs_exact 64 tag "paseto-v4/public.rs unseal: tag.try_into().unwrap()" (fun sig =>
    if ed_verify O pk (v4_ppre enc m f a) sig then Ok m else Err CryptoError))).

  Definition v2_public_seal (seed enc payload f a : bytes) : result bytes :=
    if negb (isnil a) then Err ClaimsError else
    Ok (payload ++ ed_sign O seed (v2_ppre enc payload f)).

  Definition v2_public_unseal (pk enc payload f a : bytes) : result bytes :=
    if negb (isnil a) then Err ClaimsError else
    if Nat.ltb (length payload) 64 then Err InvalidToken else
    rs_sub (length payload) 64 "paseto-v2/public.rs unseal: len - 64" (fun mid =>
    rs_split_at mid payload "paseto-v2/public.rs unseal: split_at(len - 64)" (fun m tag =>
    rs_exact 64 tag "paseto-v2/public.rs unseal: tag.try_into().unwrap()" (fun sig =>
    if ed_verify O pk (v2_ppre enc m f) sig then Ok m else Err CryptoError))).

  (* ------------------------------------------------------------------ v4 (libsodium) *)
  Definition na_public_seal (seed enc payload f a : bytes) : result bytes :=
    Ok (payload ++ ed_sign O seed (v4_ppre enc payload f a)).

  Definition na_public_unseal (pk enc payload f a : bytes) : result bytes :=
    '(m, sig) <- ok_or (split_last 64 payload) InvalidToken ;;
    if ed_verify_strict O pk (v4_ppre enc m f a) sig then Ok m else Err CryptoError.

  (* ------------------------------------------------------------------ v3 (p384 / RustCrypto) *)
  Definition v3_ppre (pk enc m f a : bytes) : bytes :=
    pae [[pk]; public_hdr (str "v3") enc; [m]; [f]; [a]].

  Definition p384_half_n : N := (p384_n / 2)%N.
  (* Signature::normalize_s *)
  Definition low_s (s : N) : N := if (p384_half_n <? s)%N then (p384_n - s)%N else s.
  Definition scalar_ok (x : N) : bool := ((0 <? x) && (x <? p384_n))%N.

  Definition v3_public_seal (sk enc payload f a : bytes) : result bytes :=
    match p384_pk O sk with
    | None => Panic "paseto-v3: SigningKey holds an invalid scalar"     (* excluded by decode *)
    | Some pk =>
        let '(r, s) := ecdsa_sign O sk (v3_ppre pk enc payload f a) [] in
        Ok (payload ++ be_bytes 48 r ++ be_bytes 48 (low_s s))
    end.

  Definition v3_public_unseal (pk enc payload f a : bytes) : result bytes :=
    '(m, sig) <- ok_or (split_last 96 payload) InvalidToken ;;
    let r := be_val (take 48 sig) in
    let s := be_val (drop 48 sig) in
    if negb (scalar_ok r && scalar_ok s) then Err InvalidToken else     (* Signature::from_bytes *)
    if ecdsa_verify O pk (v3_ppre pk enc m f a) r s then Ok m else Err CryptoError.

  (* ------------------------------------------------------------------ v3 (aws-lc) *)
  (* Signature::append_to_vec: fixed-width big-endian r || s  (BN_bn2bin_padded, 48 bytes each) *)
  Definition lc_sig_bytes (r s : N) : result bytes :=
    if ((r <? 256 ^ 48) && (s <? 256 ^ 48))%N then Ok (be_bytes 48 r ++ be_bytes 48 s) else Err CryptoError.

  Definition lc_public_seal (sk enc payload f a aux : bytes) : result bytes :=
    match p384_pk O sk with
    | None => Panic "paseto-v3-aws-lc: SigningKey holds an invalid scalar"   (* excluded by decode *)
    | Some pk =>
        let '(r, s) := ecdsa_sign O sk (v3_ppre pk enc payload f a) aux in
        sig <- lc_sig_bytes r s ;;
        Ok (payload ++ sig)
    end.

  Definition lc_public_unseal (pk enc payload f a : bytes) : result bytes :=
    if Nat.ltb (length payload) 96 then Err InvalidToken else
    rs_sub (length payload) 96 "paseto-v3-aws-lc/public.rs unseal: len - 96" (fun mid =>
    rs_split_at mid payload "paseto-v3-aws-lc/public.rs unseal: split_at(len - 96)" (fun m sig =>
    let r := be_val (take 48 sig) in
    let s := be_val (drop 48 sig) in
    (* ECDSA_verify rejects r, s outside [1, n-1] itself *)
    if scalar_ok r && scalar_ok s && ecdsa_verify O pk (v3_ppre pk enc m f a) r s then Ok m else Err CryptoError)).

  (* ------------------------------------------------------------------ v1 (rsa) *)
  Definition v1_ppre (enc m f : bytes) : bytes := pae [public_hdr (str "v1") enc; [m]; [f]].

  Definition v1_public_seal (sk enc payload f a aux : bytes) : result bytes :=
    if negb (isnil a) then Err ClaimsError else
    match rsa_pss_sign O sk (v1_ppre enc payload f) aux with
    | Some sig => Ok (payload ++ sig)
    | None => Err CryptoError
    end.

  Definition v1_public_unseal (pk enc payload f a : bytes) : result bytes :=
    if negb (isnil a) then Err ClaimsError else
    '(m, sig) <- ok_or (split_last 256 payload) InvalidToken ;;
    if rsa_pss_verify O pk (v1_ppre enc m f) sig then Ok m else Err CryptoError.

  (* ------------------------------------------------------------------ generic signature scheme *)
  Record pparams : Type := {
    pp_slen : nat;                                       (* signature length *)
    pp_aad : bool;
    pp_pre : bytes -> bytes -> bytes -> bytes -> bytes -> bytes;      (* pk enc m f a -> signed message *)
    pp_check : bytes -> bytes -> bytes -> result unit;                  (* pk, message, signature *)
  }.

  Definition pg_unseal (P : pparams) (pk enc payload f a : bytes) : result bytes :=
    if negb (pp_aad P) && negb (isnil a) then Err ClaimsError else
    if Nat.ltb (length payload) (pp_slen P) then Err InvalidToken else
    let m := take (length payload - pp_slen P) payload in
    let sig := drop (length payload - pp_slen P) payload in
    _ <- pp_check P pk (pp_pre P pk enc m f a) sig ;; Ok m.

  Definition chk (b : bool) : result unit := if b then Ok tt else Err CryptoError.

  Definition v4_pparams : pparams :=
    {| pp_slen := 64; pp_aad := true; pp_pre := fun _ enc m f a => v4_ppre enc m f a;
       pp_check := fun pk msg sig => chk (ed_verify O pk msg sig) |}.
  Definition v2_pparams : pparams :=
    {| pp_slen := 64; pp_aad := false; pp_pre := fun _ enc m f _ => v2_ppre enc m f;
       pp_check := fun pk msg sig => chk (ed_verify O pk msg sig) |}.
  Definition na_pparams : pparams :=
    {| pp_slen := 64; pp_aad := true; pp_pre := fun _ enc m f a => v4_ppre enc m f a;
       pp_check := fun pk msg sig => chk (ed_verify_strict O pk msg sig) |}.
  Definition v3_pparams : pparams :=
    {| pp_slen := 96; pp_aad := true; pp_pre := v3_ppre;
       pp_check := fun pk msg sig =>
         let r := be_val (take 48 sig) in let s := be_val (drop 48 sig) in
         if negb (scalar_ok r && scalar_ok s) then Err InvalidToken else chk (ecdsa_verify O pk msg r s) |}.
  Definition lc_pparams : pparams :=
    {| pp_slen := 96; pp_aad := true; pp_pre := v3_ppre;
       pp_check := fun pk msg sig =>
         let r := be_val (take 48 sig) in let s := be_val (drop 48 sig) in
         chk (scalar_ok r && scalar_ok s && ecdsa_verify O pk msg r s) |}.
  Definition v1_pparams : pparams :=
    {| pp_slen := 256; pp_aad := false; pp_pre := fun _ enc m f _ => v1_ppre enc m f;
       pp_check := fun pk msg sig => chk (rsa_pss_verify O pk msg sig) |}.

End WithOracle.
