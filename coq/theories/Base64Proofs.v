(* Base64Proofs.v — C09 (base64 layer): decode ∘ encode = id, canonical form (one string per value),
   no panic. *)
From PV Require Import Bytes Result Base64 Base64Tables.
From Coq Require Import ZifyBool ZifyN ZifyNat.
Local Open Scope Z_scope.
Set Default Timeout 30.
Opaque decode_6bits encode_6bits.

(* ------------------------------------------------------------------ block level *)

Lemma zb_u8 z : zb (u8 z) = z mod 256.
Proof.
  unfold zb, u8. rewrite b2n_n2b.
  assert (0 <= z mod 256 < 256) by (apply Z.mod_pos_bound; lia).
  rewrite N.mod_small by lia. lia.
Qed.

Lemma zb_inj a b : zb a = zb b -> a = b.
Proof. unfold zb. intros H. apply b2n_inj. lia. Qed.

Lemma encode_3bytes_S a b c :
  encode_3bytes a b c =
  [encode_6bits (S0 a); encode_6bits (S1 a b); encode_6bits (S2 b c); encode_6bits (S3 c)].
Proof. unfold encode_3bytes, S0, S1, S2, S3. reflexivity. Qed.

Lemma S_ranges a b c :
  0 <= S0 a < 64 /\ 0 <= S1 a b < 64 /\ 0 <= S2 b c < 64 /\ 0 <= S3 c < 64.
Proof.
  rewrite S0_arith, S1_arith, S2_arith, S3_arith.
  pose proof (zb_range a). pose proof (zb_range b). pose proof (zb_range c). lia.
Qed.

Lemma decode_3bytes_O s0 s1 s2 s3 :
  decode_3bytes s0 s1 s2 s3 =
  ([u8 (O0 (decode_6bits s0) (decode_6bits s1));
    u8 (O1 (decode_6bits s1) (decode_6bits s2));
    u8 (O2 (decode_6bits s2) (decode_6bits s3))],
   errbit (decode_6bits s0) (decode_6bits s1) (decode_6bits s2) (decode_6bits s3)).
Proof. unfold decode_3bytes, O0, O1, O2, errbit. reflexivity. Qed.

Definition valid4 (s0 s1 s2 s3 : byte) : Prop :=
  0 <= decode_6bits s0 /\ 0 <= decode_6bits s1 /\ 0 <= decode_6bits s2 /\ 0 <= decode_6bits s3.

Lemma decode_3bytes_err s0 s1 s2 s3 :
  (snd (decode_3bytes s0 s1 s2 s3) = 0 /\ valid4 s0 s1 s2 s3) \/
  (snd (decode_3bytes s0 s1 s2 s3) = 1 /\ ~ valid4 s0 s1 s2 s3).
Proof.
  rewrite decode_3bytes_O. cbn [snd]. unfold valid4.
  destruct (errbit_spec _ _ _ _ (d6_range s0) (d6_range s1) (d6_range s2) (d6_range s3)) as [[E H]|[E H]].
  - left. tauto.
  - right. split; [exact E|]. lia.
Qed.

Lemma decode_3bytes_valid s0 s1 s2 s3 :
  valid4 s0 s1 s2 s3 ->
  decode_3bytes s0 s1 s2 s3 =
  ([u8 (decode_6bits s0 * 4 + decode_6bits s1 / 16);
    u8 ((decode_6bits s1 mod 16) * 16 + decode_6bits s2 / 4);
    u8 ((decode_6bits s2 mod 4) * 64 + decode_6bits s3)], 0).
Proof.
  intros [H0 [H1 [H2 H3]]].
  pose proof (d6_range s0). pose proof (d6_range s1). pose proof (d6_range s2). pose proof (d6_range s3).
  rewrite decode_3bytes_O.
  destruct (errbit_spec _ _ _ _ (d6_range s0) (d6_range s1) (d6_range s2) (d6_range s3)) as [[E _]|[_ N]];
    [|exfalso; lia].
  rewrite E. f_equal.
  f_equal; [|f_equal; [|f_equal]]; apply u8_eq_mod.
  - rewrite O0_arith by lia. symmetry. apply Z.mod_small. lia.
  - rewrite O1_arith by lia. symmetry. apply Z.mod_small. lia.
  - rewrite O2_arith by lia. symmetry. apply Z.mod_small. lia.
Qed.

(* B1: a block of three bytes survives encode/decode *)
Lemma block_roundtrip a b c :
  decode_3bytes (encode_6bits (S0 a)) (encode_6bits (S1 a b)) (encode_6bits (S2 b c)) (encode_6bits (S3 c))
  = ([a; b; c], 0).
Proof.
  destruct (S_ranges a b c) as [R0 [R1 [R2 R3]]].
  rewrite decode_3bytes_valid; unfold valid4; rewrite !d6_e6 by assumption; [|lia].
  rewrite S0_arith, S1_arith, S2_arith, S3_arith.
  pose proof (zb_range a). pose proof (zb_range b). pose proof (zb_range c).
  f_equal. f_equal; [|f_equal; [|f_equal]]; rewrite <- u8_zb; f_equal; lia.
Qed.

(* B2: a valid block of four characters is the canonical encoding of its three bytes *)
Lemma block_canonical s0 s1 s2 s3 o :
  decode_3bytes s0 s1 s2 s3 = (o, 0) ->
  exists a b c, o = [a; b; c] /\ encode_3bytes a b c = [s0; s1; s2; s3].
Proof.
  intros H.
  destruct (decode_3bytes_err s0 s1 s2 s3) as [[_ V]|[E _]]; [|rewrite H in E; cbn in E; lia].
  pose proof V as [H0 [H1 [H2 H3]]].
  rewrite (decode_3bytes_valid _ _ _ _ V) in H. inversion H; subst o; clear H.
  pose proof (d6_range s0). pose proof (d6_range s1). pose proof (d6_range s2). pose proof (d6_range s3).
  do 3 eexists. split; [reflexivity|].
  rewrite encode_3bytes_S, S0_arith, S1_arith, S2_arith, S3_arith, !zb_u8.
  set (c0 := decode_6bits s0) in *. set (c1 := decode_6bits s1) in *.
  set (c2 := decode_6bits s2) in *. set (c3 := decode_6bits s3) in *.
  replace ((c0 * 4 + c1 / 16) mod 256 / 4) with c0 by lia.
  replace ((c0 * 4 + c1 / 16) mod 256 mod 4 * 16 + (c1 mod 16 * 16 + c2 / 4) mod 256 / 16) with c1 by lia.
  replace ((c1 mod 16 * 16 + c2 / 4) mod 256 mod 16 * 4 + (c2 mod 4 * 64 + c3) mod 256 / 64) with c2 by lia.
  replace ((c2 mod 4 * 64 + c3) mod 256 mod 64) with c3 by lia.
  subst c0 c1 c2 c3. rewrite !e6_d6 by assumption. reflexivity.
Qed.

Lemma decode_3bytes_length s0 s1 s2 s3 : length (fst (decode_3bytes s0 s1 s2 s3)) = 3%nat.
Proof. reflexivity. Qed.

Lemma encode_3bytes_length a b c : length (encode_3bytes a b c) = 4%nat.
Proof. reflexivity. Qed.

Local Close Scope Z_scope.

(* ------------------------------------------------------------------ lists of whole blocks *)

Inductive blocks3 : bytes -> Prop :=
| b3_nil : blocks3 []
| b3_cons a b c r : blocks3 r -> blocks3 (a :: b :: c :: r).

Inductive blocks4 : bytes -> Prop :=
| b4_nil : blocks4 []
| b4_cons a b c d r : blocks4 r -> blocks4 (a :: b :: c :: d :: r).

Lemma list_ind3 (P : list byte -> Prop) :
  P [] -> (forall a, P [a]) -> (forall a b, P [a; b]) ->
  (forall a b c r, P r -> P (a :: b :: c :: r)) -> forall l, P l.
Proof.
  intros H0 H1 H2 H3.
  assert (H : forall l, P l /\ (forall a, P (a :: l)) /\ (forall a b, P (a :: b :: l))).
  { induction l as [|x l [IH0 [IH1 IH2]]]; [auto|].
    split; [apply IH1|]. split; [intros a; apply IH2|]. intros a b. apply H3, IH0. }
  intro l. apply H.
Qed.

Lemma list_ind4 (P : list byte -> Prop) :
  P [] -> (forall a, P [a]) -> (forall a b, P [a; b]) -> (forall a b c, P [a; b; c]) ->
  (forall a b c d r, P r -> P (a :: b :: c :: d :: r)) -> forall l, P l.
Proof.
  intros H0 H1 H2 H3 H4.
  assert (H : forall l, P l /\ (forall a, P (a :: l)) /\ (forall a b, P (a :: b :: l))
                        /\ (forall a b c, P (a :: b :: c :: l))).
  { induction l as [|x l [IH0 [IH1 [IH2 IH3]]]]; [auto|].
    split; [apply IH1|]. split; [intros a; apply IH2|]. split; [intros a b; apply IH3|].
    intros a b c. apply H4, IH0. }
  intro l. apply H.
Qed.

Lemma split_blocks3 bs : exists f t, bs = f ++ t /\ blocks3 f /\ length t < 3.
Proof.
  induction bs as [| a | a b | a b c r [f [t [E [B L]]]]] using list_ind3.
  - exists [], []. cbn. repeat split; [constructor | lia].
  - exists [], [a]. cbn. repeat split; [constructor | lia].
  - exists [], [a; b]. cbn. repeat split; [constructor | lia].
  - exists (a :: b :: c :: f), t. subst r. repeat split; [constructor; assumption | assumption].
Qed.

Lemma split_blocks4 s : exists ch rem, s = ch ++ rem /\ blocks4 ch /\ length rem < 4.
Proof.
  induction s as [| a | a b | a b c | a b c d r [f [t [E [B L]]]]] using list_ind4.
  - exists [], []. cbn. repeat split; [constructor | lia].
  - exists [], [a]. cbn. repeat split; [constructor | lia].
  - exists [], [a; b]. cbn. repeat split; [constructor | lia].
  - exists [], [a; b; c]. cbn. repeat split; [constructor | lia].
  - exists (a :: b :: c :: d :: f), t. subst r. repeat split; [constructor; assumption | assumption].
Qed.

Lemma blocks3_length f : blocks3 f -> exists k, length f = 3 * k.
Proof. induction 1 as [|a b c r _ [k E]]; [exists 0; reflexivity|]. exists (S k). cbn [length]. lia. Qed.

Lemma blocks4_length f : blocks4 f -> exists k, length f = 4 * k.
Proof. induction 1 as [|a b c d r _ [k E]]; [exists 0; reflexivity|]. exists (S k). cbn [length]. lia. Qed.

Lemma blocks3_app f g : blocks3 f -> blocks3 g -> blocks3 (f ++ g).
Proof. induction 1; cbn; [auto|]. intros. constructor. auto. Qed.

Lemma blocks4_app f g : blocks4 f -> blocks4 g -> blocks4 (f ++ g).
Proof. induction 1; cbn; [auto|]. intros. constructor. auto. Qed.

(* a non-empty block list ends in a block *)
Lemma blocks3_last f : blocks3 f -> f <> [] -> exists g a b c, f = g ++ [a; b; c] /\ blocks3 g.
Proof.
  induction 1 as [|a b c r Hr IH]; [congruence|]. intros _.
  destruct r as [|x r'].
  - exists [], a, b, c. split; [reflexivity | constructor].
  - destruct IH as [g [a' [b' [c' [E G]]]]]; [congruence|].
    exists (a :: b :: c :: g), a', b', c'. rewrite E. split; [reflexivity | constructor; assumption].
Qed.

Lemma blocks4_last f : blocks4 f -> f <> [] -> exists g a b c d, f = g ++ [a; b; c; d] /\ blocks4 g.
Proof.
  induction 1 as [|a b c d r Hr IH]; [congruence|]. intros _.
  destruct r as [|x r'].
  - exists [], a, b, c, d. split; [reflexivity | constructor].
  - destruct IH as [g [a' [b' [c' [d' [E G]]]]]]; [congruence|].
    exists (a :: b :: c :: d :: g), a', b', c', d'. rewrite E. split; [reflexivity | constructor; assumption].
Qed.

(* ------------------------------------------------------------------ encode on block lists *)

Lemma encode_app f t : blocks3 f -> encode (f ++ t) = encode f ++ encode t.
Proof.
  induction 1 as [|a b c r _ IH]; [reflexivity|].
  cbn [app encode]. rewrite IH, app_assoc. reflexivity.
Qed.

Lemma encode_blocks4 f : blocks3 f -> blocks4 (encode f).
Proof.
  induction 1 as [|a b c r _ IH]; [constructor|].
  cbn [encode]. rewrite encode_3bytes_S. cbn [app]. constructor. exact IH.
Qed.

Lemma encode_small t : length t < 3 -> encode t = encode_last t.
Proof. destruct t as [|a [|b [|c r]]]; cbn [length]; try reflexivity. lia. Qed.

Lemma encode_last_length t :
  length t < 3 ->
  length (encode_last t) = match length t with 0 => 0 | 1 => 2 | _ => 3 end.
Proof. destruct t as [|a [|b [|c r]]]; cbn [length]; try reflexivity. lia. Qed.

(* ------------------------------------------------------------------ decode_chunks on block lists *)

Lemma decode_chunks_small u : length u < 4 -> decode_chunks u = ([], 0%Z, u).
Proof. destruct u as [|a [|b [|c [|d r]]]]; cbn [length]; try reflexivity. lia. Qed.

Lemma decode_chunks_encode f u :
  blocks3 f -> length u < 4 -> decode_chunks (encode f ++ u) = (f, 0%Z, u).
Proof.
  induction 1 as [|a b c r _ IH]; intros Hu.
  - cbn [encode encode_last firstn app]. now apply decode_chunks_small.
  - cbn [encode]. rewrite encode_3bytes_S. cbn [app]. cbn [decode_chunks].
    rewrite (block_roundtrip a b c), (IH Hu). reflexivity.
Qed.

Lemma Zlor01 x y : (x = 0 \/ x = 1)%Z -> (y = 0 \/ y = 1)%Z ->
  (Z.lor x y = 0 \/ Z.lor x y = 1)%Z /\ (Z.lor x y = 0 <-> x = 0 /\ y = 0)%Z.
Proof. intros [->| ->] [->| ->]; cbn; lia. Qed.

(* the general shape of decode_chunks: blocks in, blocks out, err in {0,1},
   and err = 0 exactly when the input blocks are the canonical encoding of the output *)
Lemma decode_chunks_blocks ch rem :
  blocks4 ch -> length rem < 4 ->
  exists o e, decode_chunks (ch ++ rem) = (o, e, rem) /\ blocks3 o /\
              length o * 4 = length ch * 3 /\ (e = 0 \/ e = 1)%Z /\
              (e = 0%Z -> encode o = ch).
Proof.
  induction 1 as [|a b c d r _ IH]; intros Hr.
  - exists [], 0%Z. cbn [app]. rewrite decode_chunks_small by assumption.
    split; [reflexivity|]. split; [constructor|]. split; [reflexivity|].
    split; [left; reflexivity|]. intros _. reflexivity.
  - destruct (IH Hr) as [o [e [E [B [L [E01 C]]]]]].
    cbn [app decode_chunks]. rewrite E.
    destruct (decode_3bytes a b c d) as [o1 e1] eqn:D.
    destruct (decode_3bytes_err a b c d) as [[X V]|[X V]]; rewrite D in X; cbn [snd] in X; subst e1.
    + destruct (block_canonical _ _ _ _ _ D) as [x [y [z [-> EN]]]].
      exists ([x; y; z] ++ o), (Z.lor 0 e). cbn [app].
      destruct (Zlor01 0 e (or_introl eq_refl) E01) as [R I].
      split; [reflexivity|]. split; [constructor; assumption|].
      split; [cbn [length]; lia|]. split; [exact R|].
      intros Z0. apply I in Z0. destruct Z0 as [_ Z0].
      cbn [encode]. rewrite EN, (C Z0). reflexivity.
    + assert (length o1 = 3) by (pose proof (decode_3bytes_length a b c d) as Q; rewrite D in Q; exact Q).
      destruct o1 as [|x [|y [|z [|w o1]]]]; cbn [length] in *; try lia.
      exists ([x; y; z] ++ o), (Z.lor 1 e). cbn [app].
      destruct (Zlor01 1 e (or_intror eq_refl) E01) as [R I].
      split; [reflexivity|]. split; [constructor; assumption|].
      split; [cbn [length]; lia|]. split; [exact R|].
      intros Z0. apply I in Z0. lia.
Qed.

(* ------------------------------------------------------------------ the constant-time comparison *)

Definition ct_acc (a b : bytes) : N :=
  fold_left (fun acc ab => N.lor acc (N.lxor (b2n (fst ab)) (b2n (snd ab)))) (combine a b) 0%N.

Lemma ct_fold_zero l acc :
  fold_left (fun acc (ab : byte * byte) => N.lor acc (N.lxor (b2n (fst ab)) (b2n (snd ab)))) l acc = 0%N
  <-> acc = 0%N /\ Forall (fun ab => fst ab = snd ab) l.
Proof.
  revert acc; induction l as [|[x y] l IH]; intros acc; cbn [fold_left].
  - split; [intros ->; split; [reflexivity | constructor] | tauto].
  - rewrite IH, N.lor_eq_0_iff, N.lxor_eq_0_iff. cbn [fst snd]. split.
    + intros [[A B] F]. split; [exact A|]. constructor; [cbn; now apply b2n_inj | exact F].
    + intros [A F]. inversion F; subst. cbn [fst snd] in *. subst. tauto.
Qed.

Lemma ct_acc_eq a b : length a = length b -> (ct_acc a b = 0%N <-> a = b).
Proof.
  unfold ct_acc. rewrite ct_fold_zero. revert b; induction a as [|x a IH]; intros [|y b] L; cbn in L; try lia.
  - cbn. split; [reflexivity | intros _; split; [reflexivity | constructor]].
  - cbn [combine]. split.
    + intros [_ F]. inversion F; subst. cbn [fst snd] in *. subst. f_equal. apply IH; [lia | tauto].
    + intros E; inversion E; subst. split; [reflexivity|]. constructor; [reflexivity|].
      apply IH; [lia | reflexivity].
Qed.

(* ------------------------------------------------------------------ validate_last_block *)

Lemma skipn_app_exact {A} (g h : list A) : skipn (length g) (g ++ h) = h.
Proof. rewrite skipn_app, Nat.sub_diag, skipn_all. reflexivity. Qed.

Lemma vlb_unfold encoded decoded :
  validate_last_block encoded decoded =
  if N.eqb (ct_acc (encode_last (skipn (last_block_start (length decoded) 3) decoded))
                   (skipn (last_block_start (length encoded) 4) encoded)) 0
  then Ok tt else Err Base64DecodeError.
Proof.
  unfold validate_last_block, ct_acc.
  destruct encoded, decoded; reflexivity.
Qed.

(* last block of  g ++ h  when g is whole blocks and 1 <= |h| <= block *)
Lemma last_block_skip3 (g h : bytes) k :
  length g = 3 * k -> 1 <= length h <= 3 ->
  skipn (last_block_start (length (g ++ h)) 3) (g ++ h) = h.
Proof.
  intros G H. rewrite app_length. unfold last_block_start.
  replace ((length g + length h - 1) / 3 * 3) with (length g) by lia.
  apply skipn_app_exact.
Qed.

Lemma last_block_skip4 (g h : bytes) k :
  length g = 4 * k -> 1 <= length h <= 4 ->
  skipn (last_block_start (length (g ++ h)) 4) (g ++ h) = h.
Proof.
  intros G H. rewrite app_length. unfold last_block_start.
  replace ((length g + length h - 1) / 4 * 4) with (length g) by lia.
  apply skipn_app_exact.
Qed.

(* the comparison performed when both sides end in a partial or whole last block *)
Lemma vlb_blocks ch rem o tl :
  blocks4 ch -> blocks3 o -> 1 <= length rem <= 4 -> 1 <= length tl <= 3 ->
  validate_last_block (ch ++ rem) (o ++ tl) =
  if N.eqb (ct_acc (encode_last tl) rem) 0 then Ok tt else Err Base64DecodeError.
Proof.
  intros B4 B3 Lr Lt.
  destruct (blocks4_length _ B4) as [k4 K4]. destruct (blocks3_length _ B3) as [k3 K3].
  rewrite vlb_unfold.
  rewrite (last_block_skip3 o tl k3 K3 Lt), (last_block_skip4 ch rem k4 K4 Lr). reflexivity.
Qed.

(* ------------------------------------------------------------------ arithmetic of lengths *)

Lemma decoded_len_blocks k r : r < 4 -> decoded_len (4 * k + r) = 3 * k + (3 * r) / 4.
Proof.
  intros Hr. unfold decoded_len.
  replace ((4 * k + r) / 4) with k by lia.
  replace (4 * k + r - 4 * k) with r by lia. reflexivity.
Qed.

Lemma encode_blocks_length f : blocks3 f -> length (encode f) * 3 = length f * 4.
Proof.
  induction 1 as [|a b c r _ IH]; [reflexivity|].
  cbn [encode]. rewrite app_length, encode_3bytes_length. cbn [length]. lia.
Qed.

Lemma ct_acc_refl a : ct_acc a a = 0%N.
Proof. now apply ct_acc_eq. Qed.

Transparent decode_6bits encode_6bits.
Lemma e6_S2_00 : encode_6bits (S2 x00 x00) = x41.
Proof. vm_compute. reflexivity. Qed.
Lemma e6_S3_0 : encode_6bits (S3 x00) = x41.
Proof. vm_compute. reflexivity. Qed.
Lemma d6_A : decode_6bits x41 = 0%Z.
Proof. vm_compute. reflexivity. Qed.
Opaque decode_6bits encode_6bits.

Lemma pad_A_4 rem : length rem < 4 -> exists t0 t1 t2 t3, pad_A rem = [t0; t1; t2; t3].
Proof.
  destruct rem as [|a [|b [|c [|d r]]]]; cbn [length]; intros H; try lia; unfold pad_A; cbn; eauto.
Qed.

(* ------------------------------------------------------------------ decode (encode bs) = bs *)

Lemma vlb_encode f t :
  blocks3 f -> length t < 3 -> validate_last_block (encode f ++ encode_last t) (f ++ t) = Ok tt.
Proof.
  intros B Lt.
  destruct t as [|x t'].
  - cbn [encode_last firstn]. rewrite !app_nil_r.
    destruct f as [|y f'] eqn:Ef; [reflexivity|].
    destruct (blocks3_last _ B) as [g [a [b [c [E G]]]]]; [congruence|].
    rewrite E, (encode_app g _ G). cbn [encode encode_last firstn]. rewrite app_nil_r.
    rewrite (vlb_blocks (encode g) (encode_3bytes a b c) g [a; b; c]);
      [| now apply encode_blocks4 | assumption | rewrite encode_3bytes_length; lia | cbn; lia].
    cbn [encode_last]. rewrite encode_3bytes_S. cbn [firstn]. rewrite ct_acc_refl. reflexivity.
  - assert (Lu : 1 <= length (encode_last (x :: t')) <= 4)
      by (rewrite encode_last_length by assumption; destruct t' as [|? [|? ?]]; cbn [length] in *; lia).
    rewrite (vlb_blocks (encode f) (encode_last (x :: t')) f (x :: t'));
      [| now apply encode_blocks4 | assumption | assumption | cbn [length] in *; lia].
    rewrite ct_acc_refl. reflexivity.
Qed.

Theorem decode_encode bs : decode_vec (encode bs) = Ok bs.
Proof.
  destruct (split_blocks3 bs) as [f [t [E [B Lt]]]]. subst bs.
  rewrite (encode_app f t B), (encode_small t Lt).
  destruct (blocks3_length _ B) as [k K].
  pose proof (encode_blocks_length f B) as EL.
  assert (Lu : length (encode_last t) < 4)
    by (rewrite encode_last_length by assumption; destruct t as [|? [|? [|? ?]]]; cbn [length] in *; lia).
  unfold decode_vec.
  rewrite (decode_chunks_encode f _ B Lu).
  rewrite app_length.
  replace (length (encode f)) with (4 * k) by lia.
  rewrite (decoded_len_blocks k _ Lu), K.
  replace ((3 * k + 3 * length (encode_last t) / 4) / 3) with k by lia.
  rewrite Nat.eqb_refl. cbn [negb].
  pose proof (vlb_encode f t B Lt) as V.
  destruct t as [|a [|b [|c r]]]; cbn [length] in Lt; try lia.
  - (* no tail *)
    cbn [encode_last firstn length] in *. unfold pad_A. cbn [app firstn].
    rewrite decode_3bytes_valid by (unfold valid4; rewrite d6_A; lia).
    cbn [Nat.eqb orb Nat.leb Z.lor]. replace (3 * k + 3 * 0 / 4 - 3 * k) with 0 by lia.
    cbn [Nat.ltb Nat.leb firstn Z.eqb]. rewrite V. cbn [bind]. reflexivity.
  - (* one byte -> two characters *)
    cbn [encode_last] in *. rewrite encode_3bytes_S in *. cbn [firstn length] in *.
    unfold pad_A. cbn [app firstn].
    rewrite <- e6_S2_00 at 1. rewrite <- e6_S3_0 at 1. rewrite block_roundtrip.
    cbn [Nat.eqb orb Nat.leb Z.lor]. replace (3 * k + 3 * 2 / 4 - 3 * k) with 1 by (cbn; lia).
    cbn [Nat.ltb Nat.leb firstn Z.eqb]. rewrite V. cbn [bind]. reflexivity.
  - (* two bytes -> three characters *)
    cbn [encode_last] in *. rewrite encode_3bytes_S in *. cbn [firstn length] in *.
    unfold pad_A. cbn [app firstn].
    rewrite <- e6_S3_0 at 1. rewrite block_roundtrip.
    cbn [Nat.eqb orb Nat.leb Z.lor]. replace (3 * k + 3 * 3 / 4 - 3 * k) with 2 by (cbn; lia).
    cbn [Nat.ltb Nat.leb firstn Z.eqb]. rewrite V. cbn [bind]. reflexivity.
Qed.

(* ------------------------------------------------------------------ canonical form: one string per value *)

Lemma decode_3bytes_shape s0 s1 s2 s3 :
  exists x y z e, decode_3bytes s0 s1 s2 s3 = ([x; y; z], e) /\ (e = 0 \/ e = 1)%Z.
Proof.
  rewrite decode_3bytes_O. do 4 eexists. split; [reflexivity|].
  destruct (errbit_spec _ _ _ _ (d6_range s0) (d6_range s1) (d6_range s2) (d6_range s3)) as [[E _]|[E _]];
    rewrite E; auto.
Qed.

Lemma ok_bind_unit {A} (r : result unit) (v : A) (w : A) :
  (_ <- r ;; Ok v) = Ok w -> r = Ok tt /\ v = w.
Proof. destruct r as [[]| |]; cbn; intros H; inversion H; auto. Qed.

Lemma vlb_ok_eq ch rem o tl :
  blocks4 ch -> blocks3 o -> 1 <= length rem <= 4 -> 1 <= length tl <= 3 ->
  length (encode_last tl) = length rem ->
  validate_last_block (ch ++ rem) (o ++ tl) = Ok tt -> encode_last tl = rem.
Proof.
  intros B4 B3 Lr Lt LL. rewrite (vlb_blocks ch rem o tl B4 B3 Lr Lt).
  destruct (N.eqb_spec (ct_acc (encode_last tl) rem) 0) as [E|E]; [|discriminate].
  intros _. now apply ct_acc_eq.
Qed.

Theorem decode_canonical s bs : decode_vec s = Ok bs -> encode bs = s.
Proof.
  destruct (split_blocks4 s) as [ch [rem [E [B4 Lr]]]]. subst s.
  destruct (decode_chunks_blocks ch rem B4 Lr) as [o [e [D [B3 [L [E01 C]]]]]].
  destruct (blocks4_length _ B4) as [k K].
  unfold decode_vec. rewrite D, app_length, K, (decoded_len_blocks k _ Lr).
  assert (Lo : length o = 3 * k) by lia. rewrite Lo.
  replace ((3 * k + 3 * length rem / 4) / 3) with k by lia.
  rewrite Nat.eqb_refl. cbn [negb].
  destruct rem as [|c0 [|c1 [|c2 [|c3 r]]]]; cbn [length] in *; try lia.
  - (* no remainder *)
    unfold pad_A. cbn [app firstn].
    destruct (decode_3bytes_shape x41 x41 x41 x41) as [x [y [z [e2 [DT E2]]]]]. rewrite DT.
    cbn [Nat.eqb orb]. replace (3 * k + 3 * 0 / 4 - 3 * k) with 0 by lia.
    cbn [Nat.ltb Nat.leb firstn]. rewrite app_nil_r.
    destruct (Z.eqb_spec (Z.lor (Z.lor e 0) e2) 0) as [Z0|]; [|discriminate].
    intros H. apply ok_bind_unit in H. destruct H as [_ <-].
    rewrite app_nil_r. apply C. destruct E01 as [->| ->], E2 as [->| ->]; cbn in Z0; lia.
  - (* a single trailing character is never valid *)
    unfold pad_A. cbn [app firstn].
    destruct (decode_3bytes_shape c0 x41 x41 x41) as [x [y [z [e2 [DT E2]]]]]. rewrite DT.
    cbn [Nat.eqb orb Nat.leb]. replace (3 * k + 3 * 1 / 4 - 3 * k) with 0 by (cbn; lia).
    cbn [Nat.ltb Nat.leb firstn].
    destruct (Z.eqb_spec (Z.lor (Z.lor e 1) e2) 0) as [Z0|]; [|discriminate].
    exfalso. destruct E01 as [->| ->], E2 as [->| ->]; cbn in Z0; lia.
  - (* two trailing characters: one byte *)
    unfold pad_A. cbn [app firstn].
    destruct (decode_3bytes_shape c0 c1 x41 x41) as [x [y [z [e2 [DT E2]]]]]. rewrite DT.
    cbn [Nat.eqb orb Nat.leb]. replace (3 * k + 3 * 2 / 4 - 3 * k) with 1 by (cbn; lia).
    cbn [Nat.ltb Nat.leb firstn].
    destruct (Z.eqb_spec (Z.lor (Z.lor e 0) e2) 0) as [Z0|]; [|discriminate].
    intros H. apply ok_bind_unit in H. destruct H as [V <-].
    assert (e = 0%Z) as E0 by (destruct E01 as [->| ->], E2 as [->| ->]; cbn in Z0; lia).
    apply vlb_ok_eq in V; [| assumption | assumption | cbn; lia | cbn; lia | reflexivity].
    rewrite (encode_app o _ B3), (C E0). cbn [encode]. rewrite V. reflexivity.
  - (* three trailing characters: two bytes *)
    unfold pad_A. cbn [app firstn].
    destruct (decode_3bytes_shape c0 c1 c2 x41) as [x [y [z [e2 [DT E2]]]]]. rewrite DT.
    cbn [Nat.eqb orb Nat.leb]. replace (3 * k + 3 * 3 / 4 - 3 * k) with 2 by (cbn; lia).
    cbn [Nat.ltb Nat.leb firstn].
    destruct (Z.eqb_spec (Z.lor (Z.lor e 0) e2) 0) as [Z0|]; [|discriminate].
    intros H. apply ok_bind_unit in H. destruct H as [V <-].
    assert (e = 0%Z) as E0 by (destruct E01 as [->| ->], E2 as [->| ->]; cbn in Z0; lia).
    apply vlb_ok_eq in V; [| assumption | assumption | cbn; lia | cbn; lia | reflexivity].
    rewrite (encode_app o _ B3), (C E0). cbn [encode]. rewrite V. reflexivity.
Qed.

(* ------------------------------------------------------------------ no panic *)

Lemma vlb_no_panic a b : is_panic (validate_last_block a b) = false.
Proof. rewrite vlb_unfold. destruct (N.eqb _ 0); reflexivity. Qed.

Theorem decode_vec_no_panic s : is_panic (decode_vec s) = false.
Proof.
  destruct (split_blocks4 s) as [ch [rem [E [B4 Lr]]]]. subst s.
  destruct (decode_chunks_blocks ch rem B4 Lr) as [o [e [D [B3 [L [E01 C]]]]]].
  destruct (blocks4_length _ B4) as [k K].
  unfold decode_vec. rewrite D, app_length, K, (decoded_len_blocks k _ Lr).
  assert (Lo : length o = 3 * k) by lia. rewrite Lo.
  replace ((3 * k + 3 * length rem / 4) / 3) with k by lia.
  rewrite Nat.eqb_refl. cbn [negb].
  destruct (pad_A_4 rem Lr) as [t0 [t1 [t2 [t3 P]]]]. rewrite P.
  destruct (decode_3bytes_shape t0 t1 t2 t3) as [x [y [z [e2 [DT E2]]]]]. rewrite DT.
  destruct (Nat.ltb_spec 3 (3 * k + 3 * length rem / 4 - 3 * k)) as [Hbad|_]; [exfalso; lia|].
  destruct (Z.eqb _ 0); [|reflexivity].
  pose proof (vlb_no_panic (ch ++ rem) (o ++ firstn (3 * k + 3 * length rem / 4 - 3 * k) [x; y; z])) as V.
  destruct (validate_last_block _ _); cbn in *; congruence.
Qed.

(* ------------------------------------------------------------------ corollaries *)

Lemma encode_alphabet bs : Forall (fun c => (0 <= decode_6bits c)%Z) (encode bs).
Proof.
  induction bs as [| a | a b | a b c r IH] using list_ind3.
  - constructor.
  - cbn [encode encode_last]. rewrite encode_3bytes_S. cbn [firstn].
    destruct (S_ranges a x00 x00) as [? [? [? ?]]].
    repeat constructor; rewrite d6_e6; lia.
  - cbn [encode encode_last]. rewrite encode_3bytes_S. cbn [firstn].
    destruct (S_ranges a b x00) as [? [? [? ?]]].
    repeat constructor; rewrite d6_e6; lia.
  - cbn [encode]. rewrite encode_3bytes_S. cbn [app].
    destruct (S_ranges a b c) as [? [? [? ?]]].
    repeat (constructor; [rewrite d6_e6; lia|]). exact IH.
Qed.

(* any character outside the URL-safe alphabet ('=', '+', '/', whitespace, '.', non-ASCII ...) is rejected *)
Corollary decode_rejects_non_alphabet s c bs :
  In c s -> rfc4648_url c = (-1)%Z -> decode_vec s <> Ok bs.
Proof.
  intros Hin Hc H. apply decode_canonical in H. subst s.
  pose proof (encode_alphabet bs) as F. rewrite Forall_forall in F.
  specialize (F c Hin). rewrite d6_is_rfc4648 in F. lia.
Qed.

Lemma encode_length_mod4 bs : length (encode bs) mod 4 <> 1.
Proof.
  destruct (split_blocks3 bs) as [f [t [E [B Lt]]]]. subst bs.
  rewrite (encode_app f t B), (encode_small t Lt), app_length.
  pose proof (encode_blocks_length f B). destruct (blocks3_length _ B) as [k K].
  rewrite encode_last_length by assumption.
  destruct t as [|? [|? [|? ?]]]; cbn [length] in *; lia.
Qed.

Corollary decode_rejects_len1mod4 s bs : length s mod 4 = 1 -> decode_vec s <> Ok bs.
Proof. intros L H. apply decode_canonical in H. subst s. now apply encode_length_mod4 in L. Qed.

(* two accepted strings with the same value are the same string *)
Corollary decode_injective s1 s2 bs : decode_vec s1 = Ok bs -> decode_vec s2 = Ok bs -> s1 = s2.
Proof. intros H1 H2. apply decode_canonical in H1, H2. congruence. Qed.

Corollary encode_injective a b : encode a = encode b -> a = b.
Proof.
  intros E. pose proof (decode_encode a) as A. rewrite E, decode_encode in A. congruence.
Qed.

(* fixed-capacity decode (key ids) *)
Lemma decoded_len_encode bs : decoded_len (length (encode bs)) = length bs.
Proof.
  destruct (split_blocks3 bs) as [f [t [E [B Lt]]]]. subst bs.
  rewrite (encode_app f t B), (encode_small t Lt), !app_length.
  pose proof (encode_blocks_length f B). destruct (blocks3_length _ B) as [k K].
  assert (Lu : length (encode_last t) < 4)
    by (rewrite encode_last_length by assumption; destruct t as [|? [|? [|? ?]]]; cbn [length] in *; lia).
  replace (length (encode f)) with (4 * k) by lia.
  rewrite (decoded_len_blocks k _ Lu), encode_last_length by assumption.
  destruct t as [|? [|? [|? ?]]]; cbn [length] in *; lia.
Qed.

Lemma decode_vec_length s bs : decode_vec s = Ok bs -> length bs = decoded_len (length s).
Proof. intros H. apply decode_canonical in H. subst s. now rewrite decoded_len_encode. Qed.

Theorem decode_fixed_encode cap bs : length bs <= cap -> decode_fixed cap (encode bs) = Ok bs.
Proof.
  intros Hc. unfold decode_fixed. rewrite decoded_len_encode.
  destruct (Nat.leb_spec (length bs) cap) as [_|Hn]; [apply decode_encode | lia].
Qed.

Theorem decode_fixed_canonical cap s bs : decode_fixed cap s = Ok bs -> encode bs = s /\ length bs <= cap.
Proof.
  unfold decode_fixed. destruct (Nat.leb_spec (decoded_len (length s)) cap) as [Hc|Hc]; [|discriminate].
  intros Hd. split; [now apply decode_canonical|]. apply decode_vec_length in Hd. lia.
Qed.

Lemma decode_fixed_no_panic cap s : is_panic (decode_fixed cap s) = false.
Proof. unfold decode_fixed. destruct (Nat.leb _ cap); [apply decode_vec_no_panic | reflexivity]. Qed.
