(* Keys.v — models of `impl HasKey<K> for V` (decode / encode), `SealingVersion::unsealing_key`, `Clone`,
   `Key::from_str` / `expose_key` / `id` for the six backends.  No proofs here.

   Key objects: local = 32 bytes; v2/v4 secret = 32-byte seed (RustCrypto; the expanded key is a function of
   it) or seed || public key (libsodium, 64 bytes as stored); v2/v4 public = 32 bytes; v3 secret = 48-byte
   scalar; v3 public = 49-byte compressed point; v1 keys = canonical DER. *)
From Coq Require Import List NArith String Bool.
From PV Require Import Bytes Result Base64 Text Oracle.
Import ListNotations.
Local Open Scope string_scope.
Local Open Scope list_scope.

Inductive kind := KLocal | KPublic | KSecret | KPkePublic | KPkeSecret.
Inductive backend := B1 | B2 | B3 | B3A | B4 | B4S.

Section WithOracle.
  Variable O : oracle.

  (* ---- local keys: exactly 32 bytes, on every backend ---- *)
  Definition decode_local (bs : bytes) : result bytes :=
    if Nat.eqb (length bs) 32 then Ok bs else Err InvalidKey.

  (* ---- Ed25519: the neutral element (y = 1 or the non-canonical y = p + 1, either sign bit) is refused ---- *)
  Definition clear_top (bs : bytes) : bytes :=
    take 31 bs ++ match drop 31 bs with b :: _ => [n2b (N.land (b2n b) 127)] | [] => [] end.
  Definition ed_one : bytes := n2b 1 :: repeat x00 31.
  Definition ed_p_plus_one : bytes := n2b 238 :: repeat (n2b 255) 30 ++ [n2b 127].
  Definition ed_is_identity (bs : bytes) : bool := beq (clear_top bs) ed_one || beq (clear_top bs) ed_p_plus_one.

  (* ---- Ed25519 (v2 / v4, ed25519-dalek): length, identity check, VerifyingKey::from_bytes ---- *)
  Definition ed_pk_weak (pk : bytes) : bool := ed_is_identity pk.
  Definition dalek_decode_public (bs : bytes) : result bytes :=
    if negb (Nat.eqb (length bs) 32) then Err InvalidKey else
    if ed_pk_weak bs then Err InvalidKey else
    if negb (ed_pk_ok O bs) then Err InvalidKey else Ok bs.
  (* secret = seed || public key, with the public half checked against the seed; object = the seed *)
  Definition dalek_decode_secret (bs : bytes) : result bytes :=
    '(seed, pk) <- ok_or (split_first 32 bs) InvalidKey ;;
    pk' <- dalek_decode_public pk ;;
    if beq (ed_pk O seed) pk' then Ok seed else Err InvalidKey.
  Definition dalek_encode_secret (seed : bytes) : bytes := seed ++ ed_pk O seed.
  Definition dalek_public_of (seed : bytes) : bytes := ed_pk O seed.

  (* ---- Ed25519 (v4, libsodium): PublicKey::from_bytes checks the length only; the identity is refused.
          NB: bytes that are not a curve point are accepted (known finding) ---- *)
  Definition na_point_valid (pk : bytes) : bool := negb (ed_is_identity pk).
  Definition na_decode_public (bs : bytes) : result bytes :=
    if negb (Nat.eqb (length bs) 32) then Err InvalidKey else
    if negb (na_point_valid bs) then Err InvalidKey else Ok bs.
  (* object = the 64 bytes as given, accepted only when the public half is the seed's public key *)
  Definition na_decode_secret (bs : bytes) : result bytes :=
    if negb (Nat.eqb (length bs) 64) then Err InvalidKey else
    if beq (ed_pk O (take 32 bs)) (drop 32 bs) then Ok bs else Err InvalidKey.
  Definition na_public_of (sk : bytes) : bytes := drop 32 sk.

  (* ---- P-384 (v3, RustCrypto p384) ---- *)
  (* k3.public is the 49-byte compressed form only *)
  Definition compressed_tag (bs : bytes) : bool :=
    match bs with b :: _ => N.eqb (b2n b) 2 || N.eqb (b2n b) 3 | [] => false end.
  (* `if bytes.len() != 49 || !matches!(bytes[0], 0x02 | 0x03)`: the index panics on an empty slice; only the
     short-circuit of `||` keeps it from being evaluated then (a live Panic branch: NoPanic.key_decode_no_panic) *)
  Definition v3_decode_public (bs : bytes) : result bytes :=
    if negb (Nat.eqb (length bs) 49) then Err InvalidKey else
    match bs with
    | [] => Panic "paseto-v3/public.rs decode: bytes[0] on an empty slice"
    | _ :: _ =>
        if negb (compressed_tag bs) then Err InvalidKey else
        match p384_parse O bs with Some pk => Ok pk | None => Err InvalidKey end
    end.
  Definition v3_decode_secret (bs : bytes) : result bytes :=
    if negb (Nat.eqb (length bs) 48) then Err InvalidKey else
    match p384_pk O bs with Some _ => Ok bs | None => Err InvalidKey end.
  Definition v3_public_of (sk : bytes) : result bytes :=
    match p384_pk O sk with Some pk => Ok pk | None => Panic "paseto-v3: invalid scalar in a SecretKey" end.

  (* ---- P-384 (v3, aws-lc): EC_POINT_oct2point accepts the one-byte encoding of the point at infinity,
          which from_sec1_bytes refuses; scalars outside [1, n-1] fail in EC_KEY_set_private_key ---- *)
  (* EC_POINT_oct2point accepts, at 49 bytes, exactly the compressed forms (tags 02 / 03) of curve points *)
  Definition lc_decode_public (bs : bytes) : result bytes :=
    if negb (Nat.eqb (length bs) 49) then Err InvalidKey else
    if negb (compressed_tag bs) then Err InvalidKey else
    match p384_parse O bs with Some pk => Ok pk | None => Err InvalidKey end.
  Definition lc_decode_secret (bs : bytes) : result bytes :=
    if negb (Nat.eqb (length bs) 48) then Err InvalidKey else
    match p384_pk O bs with Some _ => Ok bs | None => Err CryptoError end.
  (* SigningKey::encode: BN_bn2bin writes the minimal form at offset 48 - len of a zeroed buffer *)
  Definition lc_encode_secret (sk : bytes) : result bytes :=
    let m := be_minimal (be_val sk) in
    let m := if beq m [x00] then [] else m in          (* BN_num_bytes(0) = 0 *)
    if Nat.ltb 48 (length m) then Panic "lc/mod.rs: assert!(key_len <= 48)" else
    Ok (repeat x00 (48 - length m) ++ m).

  (* ---- RSA (v1): DER first, then PEM; modulus size 2048 (tokens) / 4096 (PKE) ---- *)
  Definition v1_decode_secret (bits : N) (bs : bytes) : result bytes :=
    match rsa_sk_parse O bs with
    | Some (der, b) => if N.eqb b bits then Ok der else Err InvalidKey
    | None => Err InvalidKey
    end.
  Definition v1_decode_public (bits : N) (bs : bytes) : result bytes :=
    match rsa_pk_parse O bs with
    | Some (der, b) => if N.eqb b bits then Ok der else Err InvalidKey
    | None => Err InvalidKey
    end.

  (* ---- dispatch ---- *)
  Definition key_decode (b : backend) (k : kind) (bs : bytes) : result bytes :=
    match k, b with
    | KLocal, _ => decode_local bs
    | (KPublic | KPkePublic), (B2 | B4) => dalek_decode_public bs
    | (KSecret | KPkeSecret), (B2 | B4) => dalek_decode_secret bs
    | (KPublic | KPkePublic), B4S => na_decode_public bs
    | (KSecret | KPkeSecret), B4S => na_decode_secret bs
    | (KPublic | KPkePublic), B3 => v3_decode_public bs
    | (KSecret | KPkeSecret), B3 => v3_decode_secret bs
    | (KPublic | KPkePublic), B3A => lc_decode_public bs
    | (KSecret | KPkeSecret), B3A => lc_decode_secret bs
    | KPublic, B1 => v1_decode_public 2048 bs
    | KSecret, B1 => v1_decode_secret 2048 bs
    | KPkePublic, B1 => v1_decode_public 4096 bs
    | KPkeSecret, B1 => v1_decode_secret 4096 bs
    end.

  Definition key_encode (b : backend) (k : kind) (obj : bytes) : result bytes :=
    match k, b with
    | (KSecret | KPkeSecret), (B2 | B4) => Ok (dalek_encode_secret obj)
    | (KSecret | KPkeSecret), B3A => lc_encode_secret obj
    | _, _ => Ok obj
    end.

  (* SealingVersion::<Public>::unsealing_key, on key objects *)
  Definition public_of (b : backend) (sk : bytes) : result bytes :=
    match b with
    | B2 | B4 => Ok (dalek_public_of sk)
    | B4S => Ok (na_public_of sk)
    | B3 | B3A => v3_public_of sk
    | B1 => Ok (rsa_pk O sk)
    end.

  (* ---- text and ids ---- *)
  Definition paserk_ver (b : backend) : bytes :=
    match b with B1 => str "k1" | B2 => str "k2" | B3 | B3A => str "k3" | B4 | B4S => str "k4" end.
  Definition kind_hdr (k : kind) : bytes :=
    match k with KLocal => str ".local." | KPublic | KPkePublic => str ".public." | KSecret | KPkeSecret => str ".secret." end.
  Definition id_hdr (k : kind) : bytes :=
    match k with KLocal => str ".lid." | KPublic | KPkePublic => str ".pid." | KSecret | KPkeSecret => str ".sid." end.

  (* Key::from_str = KeyText::from_str, then HasKey::decode *)
  Definition key_from_str (b : backend) (k : kind) (s : bytes) : result bytes :=
    raw <- parse_paserk (paserk_ver b) (kind_hdr k) s ;; key_decode b k raw.
  (* expose_key().to_string() *)
  Definition key_to_text (b : backend) (k : kind) (obj : bytes) : result bytes :=
    raw <- key_encode b k obj ;; Ok (print_paserk (paserk_ver b) (kind_hdr k) raw).

  (* IdVersion::hash_key: SHA-384 truncated to 33 bytes (k1, k3) / BLAKE2b-264 (k2, k4) over
     "kN" || id header || PASERK text of the key *)
  Definition hash33 (b : backend) (m : bytes) : bytes :=
    match b with
    | B1 | B3 | B3A => take 33 (sha384 O m)
    | B2 | B4 | B4S => blake2b O 33 [] m
    end.
  Definition key_id (b : backend) (k : kind) (obj : bytes) : result bytes :=
    text <- key_to_text b k obj ;; Ok (hash33 b (paserk_ver b ++ id_hdr k ++ text)).
  Definition key_id_text (b : backend) (k : kind) (obj : bytes) : result bytes :=
    id <- key_id b k obj ;; Ok (print_paserk (paserk_ver b) (id_hdr k) id).
End WithOracle.
