(* KeysProofs.v — C08 (keys survive serialisation; secret keys derive the matching public key; wrong
   lengths rejected) and C13 (key ids) for the models of Keys.v. *)
From Coq Require Import List NArith String Bool Lia Arith.
From PV Require Import Bytes Result Base64 Text TextProofs Oracle LocalProofs BigEndian Keys.
Import ListNotations.
Set Default Timeout 120.
Set Default Proof Using "Type".
Local Open Scope list_scope.

Section K.
  Variable O : oracle.
  Hypothesis L : laws O.
  (* an honestly derived Ed25519 public key is not the neutral element *)
  Hypothesis Hnw : forall sd, ed_pk_weak (ed_pk O sd) = false.
  Hypothesis Hvp : forall sd, na_point_valid (ed_pk O sd) = true.
  (* the compressed form the primitive returns carries a compressed tag (premise about the point encoder) *)
  Hypothesis Htag : forall bs pk, p384_parse O bs = Some pk -> compressed_tag pk = true.
  Hypothesis Htag' : forall sk pk, p384_pk O sk = Some pk -> compressed_tag pk = true.

  (* ---------------- local ---------------- *)
  Theorem local_decode_iff bs k : decode_local bs = Ok k <-> length bs = 32 /\ k = bs.
  Proof. clear Hnw Hvp Htag Htag'; try clear L.
    unfold decode_local. destruct (Nat.eqb_spec (length bs) 32); split.
    - intros E; inversion E; subst; auto.
    - intros [_ ->]; reflexivity.
    - discriminate.
    - intros [H _]; contradiction.
  Qed.

  Theorem local_wrong_length bs : length bs <> 32 -> decode_local bs = Err InvalidKey.
  Proof. clear Hnw Hvp Htag Htag'; try clear L. intros H. unfold decode_local. destruct (Nat.eqb_spec (length bs) 32); [contradiction|reflexivity]. Qed.

  (* ---------------- Ed25519, dalek ---------------- *)
  Theorem dalek_public_decode_iff bs k :
    dalek_decode_public O bs = Ok k <-> length bs = 32 /\ ed_pk_ok O bs = true /\ ed_pk_weak bs = false /\ k = bs.
  Proof. clear Hnw Hvp Htag Htag'; try clear L.
    unfold dalek_decode_public.
    destruct (Nat.eqb_spec (length bs) 32); cbn [negb]; [|split; [discriminate|intros [H _]; contradiction]].
    destruct (ed_pk_weak bs); [split; [discriminate|intros (_ & _ & H & _); discriminate]|].
    destruct (ed_pk_ok O bs); cbn [negb]; [|split; [discriminate|intros (_ & H & _); discriminate]].
    split; [intros E; inversion E; subst; auto|intros (_ & _ & _ & ->); reflexivity].
  Qed.

  Theorem dalek_secret_roundtrip seed :
    length seed = 32 -> dalek_decode_secret O (dalek_encode_secret O seed) = Ok seed.
  Proof using L Hnw.
    intros Ls. unfold dalek_decode_secret, dalek_encode_secret.
    rewrite <- Ls at 1. rewrite split_first_app. cbn [ok_or bind].
    assert (E : dalek_decode_public O (ed_pk O seed) = Ok (ed_pk O seed)).
    { apply dalek_public_decode_iff. repeat split; [apply (ed_pk_len O L)|apply (ed_pk_valid O L)|apply Hnw]. }
    rewrite E. cbn [bind]. rewrite beq_refl. reflexivity.
  Qed.

  (* whatever decodes is canonical: exactly seed || public key of the seed, 64 bytes *)
  Theorem dalek_secret_decode_canonical bs seed :
    dalek_decode_secret O bs = Ok seed ->
    length seed = 32 /\ bs = dalek_encode_secret O seed /\ length bs = 64.
  Proof. clear Hnw Hvp Htag Htag'; try clear L.
    unfold dalek_decode_secret.
    destruct (split_first 32 bs) as [[sd pk]|] eqn:E1; cbn [ok_or bind]; [|discriminate].
    destruct (dalek_decode_public O pk) as [pk'| |] eqn:E2; cbn [bind]; try discriminate.
    destruct (beq (ed_pk O sd) pk') eqn:E3; [|discriminate].
    intros E; inversion E; subst sd. apply beq_eq in E3.
    apply split_first_spec in E1 as [-> Ls]. apply dalek_public_decode_iff in E2 as (Lp & _ & _ & ->).
    subst pk. split; [exact Ls|]. split; [reflexivity|]. rewrite app_length. lia.
  Qed.

  Corollary dalek_secret_idempotent bs seed :
    dalek_decode_secret O bs = Ok seed -> dalek_decode_secret O (dalek_encode_secret O seed) = Ok seed.
  Proof using L Hnw. intros H. apply dalek_secret_decode_canonical in H as (Ls & _ & _). apply dalek_secret_roundtrip. exact Ls. Qed.

  Theorem dalek_secret_wrong_length bs : length bs <> 64 -> exists e, dalek_decode_secret O bs = Err e.
  Proof. clear Hnw Hvp Htag Htag'; try clear L.
    intros H. destruct (dalek_decode_secret O bs) as [seed|e|s] eqn:E.
    - apply dalek_secret_decode_canonical in E as (_ & _ & Hl). contradiction.
    - eauto.
    - exfalso. unfold dalek_decode_secret in E.
      destruct (split_first 32 bs) as [[sd pk]|]; cbn [ok_or bind] in E; [|discriminate].
      unfold dalek_decode_public in E.
      destruct (negb (Nat.eqb (length pk) 32)); cbn [bind] in E; [discriminate|].
      destruct (ed_pk_weak pk); cbn [bind] in E; [discriminate|].
      destruct (negb (ed_pk_ok O pk)); cbn [bind] in E; [discriminate|].
      destruct (beq (ed_pk O sd) pk); discriminate.
  Qed.

  (* the derived public key is the public half of the serialisation and verifies what the key signs *)
  Theorem dalek_public_is_public_half seed :
    length seed = 32 -> dalek_public_of O seed = drop 32 (dalek_encode_secret O seed).
  Proof. clear Hnw Hvp Htag Htag'; try clear L. intros Ls. unfold dalek_public_of, dalek_encode_secret. rewrite drop_app_exact by (symmetry; exact Ls). reflexivity. Qed.

  Theorem dalek_public_verifies seed m : ed_verify O (dalek_public_of O seed) m (ed_sign O seed m) = true.
  Proof using L. clear Hnw Hvp Htag Htag'. apply (ed_verify_sign O L). Qed.

  (* ---------------- Ed25519, libsodium ---------------- *)
  Theorem na_secret_decode_iff bs sk :
    na_decode_secret O bs = Ok sk <-> length bs = 64 /\ drop 32 bs = ed_pk O (take 32 bs) /\ sk = bs.
  Proof. clear Hnw Hvp Htag Htag'; try clear L.
    unfold na_decode_secret.
    destruct (Nat.eqb_spec (length bs) 64); cbn [negb]; [|split; [discriminate|intros [H _]; contradiction]].
    destruct (beq (ed_pk O (take 32 bs)) (drop 32 bs)) eqn:E.
    - apply beq_eq in E. split; [intros H; inversion H; subst; auto|intros (_ & _ & ->); reflexivity].
    - apply beq_false in E. split; [discriminate|intros (_ & H & _); congruence].
  Qed.

  Theorem na_secret_roundtrip seed :
    length seed = 32 -> na_decode_secret O (seed ++ ed_pk O seed) = Ok (seed ++ ed_pk O seed).
  Proof using L. clear Hnw Hvp Htag Htag'.
    intros Ls. apply na_secret_decode_iff. repeat split.
    - rewrite app_length, Ls, (ed_pk_len O L). reflexivity.
    - rewrite drop_app_exact, take_app_exact by (symmetry; exact Ls). reflexivity.
  Qed.

  (* every accepted secret key's public_key() verifies (strictly) everything the key signs *)
  Theorem na_public_verifies bs sk m :
    na_decode_secret O bs = Ok sk ->
    ed_verify_strict O (na_public_of sk) m (ed_sign O (take 32 sk) m) = true.
  Proof using L. clear Hnw Hvp Htag Htag'.
    intros H. apply na_secret_decode_iff in H as (_ & Hpk & ->). unfold na_public_of. rewrite Hpk.
    apply (ed_verify_strict_sign O L).
  Qed.

  Theorem na_public_decode_iff bs k :
    na_decode_public bs = Ok k <-> length bs = 32 /\ na_point_valid bs = true /\ k = bs.
  Proof. clear Hnw Hvp Htag Htag'; try clear L.
    unfold na_decode_public.
    destruct (Nat.eqb_spec (length bs) 32); cbn [negb]; [|split; [discriminate|intros [H _]; contradiction]].
    destruct (na_point_valid bs); cbn [negb]; [|split; [discriminate|intros (_ & H & _); discriminate]].
    split; [intros E; inversion E; subst; auto|intros (_ & _ & ->); reflexivity].
  Qed.

  (* ---------------- P-384 ---------------- *)
  Theorem v3_secret_decode_iff bs sk :
    v3_decode_secret O bs = Ok sk <-> length bs = 48 /\ p384_pk O bs <> None /\ sk = bs.
  Proof. clear Hnw Hvp Htag Htag'; try clear L.
    unfold v3_decode_secret.
    destruct (Nat.eqb_spec (length bs) 48); cbn [negb]; [|split; [discriminate|intros [H _]; contradiction]].
    destruct (p384_pk O bs) as [pk|].
    - split; [intros E; inversion E; repeat split; congruence|intros (_ & _ & ->); reflexivity].
    - split; [discriminate|intros (_ & H & _); congruence].
  Qed.

  Theorem v3_public_decode_canonical bs pk :
    v3_decode_public O bs = Ok pk -> length bs = 49 /\ length pk = 49 /\ v3_decode_public O pk = Ok pk.
  Proof using L Htag. clear Hnw Hvp Htag'.
    unfold v3_decode_public.
    destruct (Nat.eqb_spec (length bs) 49); cbn [negb]; [|discriminate].
    destruct bs as [|b0 bs']; [discriminate|].
    destruct (compressed_tag (b0 :: bs')); cbn [negb]; [|discriminate].
    destruct (p384_parse O (b0 :: bs')) as [p|] eqn:E; [|discriminate].
    intros H; inversion H; subst p.
    pose proof (p384_parse_len O L _ _ E) as Lp. repeat split; [assumption|assumption|].
    rewrite Lp. cbn [Nat.eqb negb]. destruct pk as [|p0 pk']; [discriminate|].
    rewrite (Htag _ _ E). cbn [negb]. rewrite (p384_parse_canon O L _ _ E). reflexivity.
  Qed.

  Theorem v3_public_wrong_length bs : length bs <> 49 -> v3_decode_public O bs = Err InvalidKey.
  Proof. clear Hnw Hvp Htag Htag'; try clear L. intros H. unfold v3_decode_public. destruct (Nat.eqb_spec (length bs) 49); [contradiction|reflexivity]. Qed.
  Theorem lc_public_wrong_length bs : length bs <> 49 -> lc_decode_public O bs = Err InvalidKey.
  Proof. clear Hnw Hvp Htag Htag'; try clear L. intros H. unfold lc_decode_public. destruct (Nat.eqb_spec (length bs) 49); [contradiction|reflexivity]. Qed.

  (* the public key derived from a decoded secret key is a canonical public key *)
  Theorem v3_public_of_secret bs sk :
    v3_decode_secret O bs = Ok sk -> exists pk, v3_public_of O sk = Ok pk /\ v3_decode_public O pk = Ok pk.
  Proof using L Htag'. clear Hnw Hvp Htag.
    intros H. apply v3_secret_decode_iff in H as (_ & Hpk & ->).
    unfold v3_public_of. destruct (p384_pk O bs) as [pk|] eqn:E; [|congruence].
    exists pk. split; [reflexivity|]. unfold v3_decode_public.
    rewrite (p384_pk_len O L _ _ E). cbn [Nat.eqb negb].
    pose proof (p384_pk_len O L _ _ E) as Lpk. destruct pk as [|p0 pk']; [discriminate|].
    rewrite (Htag' _ _ E). cbn [negb]. rewrite (p384_pk_parses O L _ _ E). reflexivity.
  Qed.

  (* the two v3 backends accept exactly the same public keys *)
  Theorem lc_v3_public_agree bs : lc_decode_public O bs = v3_decode_public O bs.
  Proof. clear Hnw Hvp Htag Htag'; try clear L.
    unfold lc_decode_public, v3_decode_public.
    destruct (Nat.eqb_spec (length bs) 49) as [E|E]; cbn [negb]; [|reflexivity].
    destruct bs as [|b0 bs']; [discriminate|]. destruct (negb (compressed_tag (b0 :: bs'))); reflexivity.
  Qed.

  (* aws-lc: the two backends agree on acceptance of secret keys (error kinds differ) *)
  Theorem lc_v3_secret_agree bs sk : lc_decode_secret O bs = Ok sk <-> v3_decode_secret O bs = Ok sk.
  Proof. clear Hnw Hvp Htag Htag'; try clear L.
    unfold lc_decode_secret, v3_decode_secret.
    destruct (negb (Nat.eqb (length bs) 48)); [tauto|]. destruct (p384_pk O bs); [tauto|]. split; discriminate.
  Qed.

  (* aws-lc SigningKey::encode: minimal BN_bn2bin at offset 48 - len of a zeroed buffer = the 48 bytes *)
  Lemma strip0_pad (l : bytes) : repeat x00 (length l - length (strip0 l)) ++ strip0 l = l.
  Proof. clear Hnw Hvp Htag Htag'; try clear L.
    induction l as [|b l IH]; [reflexivity|]. cbn [strip0].
    destruct (N.eqb_spec (b2n b) 0) as [E|E].
    - assert (b = x00) by (apply b2n_inj; exact E). subst b.
      assert (Hs : length (strip0 l) <= length l).
      { clear. induction l as [|x l IH]; [cbn; lia|]. cbn [strip0]. destruct (N.eqb (b2n x) 0); cbn [length]; lia. }
      cbn [length]. replace (S (length l) - length (strip0 l)) with (S (length l - length (strip0 l))) by lia.
      cbn [repeat app]. rewrite IH. reflexivity.
    - cbn [length]. rewrite Nat.sub_diag. reflexivity.
  Qed.

  Theorem lc_encode_is_identity sk : length sk = 48 -> lc_encode_secret sk = Ok sk.
  Proof. clear Hnw Hvp Htag Htag'; try clear L.
    intros Ls. unfold lc_encode_secret, be_minimal.
    replace 520 with ((520 - 48) + length sk) by lia.
    rewrite be_bytes_widen by apply be_val_bound. rewrite be_bytes_be_val, strip0_zeros.
    pose proof (strip0_pad sk) as Hp. rewrite Ls in Hp.
    assert (Hs : length (strip0 sk) <= 48).
    { rewrite <- Ls. clear. induction sk as [|x l IH]; [cbn; lia|]. cbn [strip0]. destruct (N.eqb (b2n x) 0); cbn [length]; lia. }
    destruct (strip0 sk) as [|b m] eqn:E.
    - (* the all-zero scalar (never a valid key, but the encoder is total) *)
      change (n2b 0) with x00. rewrite beq_refl. cbn [length Nat.ltb Nat.leb].
      rewrite Nat.sub_0_r, app_nil_r. cbn [length] in Hp. rewrite Nat.sub_0_r, app_nil_r in Hp. rewrite Hp. reflexivity.
    - assert (Hne : beq (b :: m) [x00] = false \/ (b :: m) = [x00]).
      { destruct (beq (b :: m) [x00]) eqn:Eb; [right; apply beq_eq; exact Eb|left; reflexivity]. }
      assert (Hb : b2n b <> 0%N).
      { destruct sk as [|x l]; [discriminate|]. clear Hp Hs Ls Hne.
        revert E. generalize (x :: l). intros l0. induction l0 as [|y l0 IH]; [discriminate|].
        cbn [strip0]. destruct (N.eqb_spec (b2n y) 0); [exact IH|]. intros E; inversion E; subst. assumption. }
      destruct Hne as [Hne|Heq]; [|inversion Heq; subst; exfalso; apply Hb; reflexivity].
      rewrite Hne. destruct (Nat.ltb_spec 48 (length (b :: m))); [lia|]. rewrite Hp. reflexivity.
  Qed.

  (* ---------------- ids (C13) ---------------- *)
  Theorem hash33_len b m : length (hash33 O b m) = 33.
  Proof using L. clear Hnw Hvp Htag Htag'.
    destruct b; cbn [hash33]; try (apply take_length_le; rewrite (sha384_len O L); lia); apply (blake2b_len O L).
  Qed.

  Theorem key_id_len b k obj id : key_id O b k obj = Ok id -> length id = 33.
  Proof using L. clear Hnw Hvp Htag Htag'.
    unfold key_id. destruct (key_to_text O b k obj); cbn [bind]; try discriminate.
    intros E; inversion E. apply hash33_len.
  Qed.

  (* the text form of an id parses back to the id *)
  Theorem key_id_text_roundtrip b k obj id :
    key_id O b k obj = Ok id ->
    key_id_text O b k obj = Ok (print_paserk (paserk_ver b) (id_hdr k) id) /\
    parse_keyid (paserk_ver b) (id_hdr k) (print_paserk (paserk_ver b) (id_hdr k) id) = Ok id.
  Proof using L. clear Hnw Hvp Htag Htag'.
    intros H. split.
    - unfold key_id_text. rewrite H. reflexivity.
    - apply keyid_parse_print. apply (key_id_len _ _ _ _ H).
  Qed.

  (* the id depends on the key object only: differently encoded inputs of one key (PEM / DER, other SEC1
     forms) give one id, and clone / serialise / parse keep it *)
  Theorem key_id_of_decoded b k bs bs' obj :
    key_decode O b k bs = Ok obj -> key_decode O b k bs' = Ok obj ->
    (obj' <- key_decode O b k bs ;; key_id O b k obj') = (obj' <- key_decode O b k bs' ;; key_id O b k obj').
  Proof. clear Hnw Hvp Htag Htag'; try clear L. intros H1 H2. rewrite H1, H2. reflexivity. Qed.

  (* domain separation: the hashed strings of the lid / sid / pid of any keys differ, so equal ids are a
     hash collision on two DIFFERENT inputs (exhibited) *)
  Theorem id_inputs_differ b k k' text text' :
    id_hdr k <> id_hdr k' ->
    paserk_ver b ++ id_hdr k ++ text <> paserk_ver b ++ id_hdr k' ++ text'.
  Proof. clear Hnw Hvp Htag Htag'; try clear L.
    intros Hne E. apply app_inv_head in E.
    destruct k, k'; cbn [id_hdr] in *; try (apply Hne; reflexivity); cbn in E; inversion E.
  Qed.

  Theorem equal_ids_are_collisions b k k' obj obj' id text text' :
    id_hdr k <> id_hdr k' ->
    key_to_text O b k obj = Ok text -> key_to_text O b k' obj' = Ok text' ->
    key_id O b k obj = Ok id -> key_id O b k' obj' = Ok id ->
    hash33 O b (paserk_ver b ++ id_hdr k ++ text) = hash33 O b (paserk_ver b ++ id_hdr k' ++ text') /\
    paserk_ver b ++ id_hdr k ++ text <> paserk_ver b ++ id_hdr k' ++ text'.
  Proof. clear Hnw Hvp Htag Htag'; try clear L.
    intros Hne T1 T2 I1 I2. split; [|apply id_inputs_differ; exact Hne].
    unfold key_id in I1, I2. rewrite T1 in I1. rewrite T2 in I2. cbn [bind] in *. congruence.
  Qed.
End K.
