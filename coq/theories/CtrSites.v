(* CtrSites.v — obligation over the regenerated inventory Gen/Ciphers.v: every AES-CTR site of the
   RustCrypto v1 / v3 backends instantiates the full-width big-endian counter, which is what the models
   (ctr_w_rustcrypto = 128) and the specification use. *)
From Coq Require Import List String NArith.
From PV Require Import Local.
From PV.Gen Require Import Ciphers.
Import ListNotations.
Local Open Scope string_scope.

Definition ctr_width_of (tok : string) : option N :=
  if String.eqb tok "Ctr128BE" then Some 128%N
  else if String.eqb tok "Ctr64BE" then Some 64%N
  else if String.eqb tok "Ctr32BE" then Some 32%N
  else None.

Definition all_sites_full_width : bool :=
  forallb (fun '(_, tok) => match ctr_width_of tok with Some w => N.eqb w ctr_w_rustcrypto | None => false end) gen_ctr_sites.

Definition covered_files : list string :=
  ["paseto-v1/src/core/local.rs"; "paseto-v1/src/core/pie_wrap.rs"; "paseto-v1/src/core/pw_wrap.rs"; "paseto-v1/src/core/pke.rs";
   "paseto-v3/src/core/local.rs"; "paseto-v3/src/core/pie_wrap.rs"; "paseto-v3/src/core/pw_wrap.rs"; "paseto-v3/src/core/pke.rs"].

Definition every_file_has_a_site : bool :=
  forallb (fun f => existsb (fun '(g, _) => String.eqb f g) gen_ctr_sites) covered_files.

Lemma ctr_sites_ok : all_sites_full_width = true /\ every_file_has_a_site = true.
Proof. vm_compute. split; reflexivity. Qed.

Lemma ctr_sites_forall : forall f tok, In (f, tok) gen_ctr_sites -> ctr_width_of tok = Some ctr_w_rustcrypto.
Proof.
  intros f tok H. pose proof (proj1 ctr_sites_ok) as A. unfold all_sites_full_width in A.
  rewrite forallb_forall in A. specialize (A _ H). cbn in A.
  destruct (ctr_width_of tok); [|discriminate]. apply N.eqb_eq in A. subst. reflexivity.
Qed.
