(* Local.v — models of `impl SealingVersion<Local>` / `impl UnsealingVersion<Local>` of the six backends
   (each src/core/local.rs), function by function, over the primitive oracle.  No proofs here.

   Conventions: [payload] of seal is the Vec returned by V::nonce() with the encoded claims appended;
   [enc] is Payload::SUFFIX; results are Ok bytes / Err kind / Panic site as in the Rust. *)
From Coq Require Import List NArith String Bool.
From PV Require Import Bytes Result Rs Pae Ctr Oracle.
Import ListNotations.
Local Open Scope string_scope.
Local Open Scope list_scope.

Definition isnil (b : bytes) : bool := match b with [] => true | _ => false end.

(* counter width instantiated by the RustCrypto v1/v3 crates (`ctr::Ctr128BE`; tied to the source by
   Gen/Ciphers.v) and by aws-lc's AES_256 CTR (`EVP_aes_256_ctr`, 128-bit big-endian increment) *)
Definition ctr_w_rustcrypto : N := 128.
Definition ctr_w_awslc : N := 128.

Section WithOracle.
  Variable O : oracle.

  Definition aes_ctr (W : N) (ek iv : bytes) (len : nat) : bytes := ctr_keystream W (aes256 O ek) iv len.

  Definition local_hdr (ver enc : bytes) : piece := [ver; enc; str ".local."].

  (* ------------------------------------------------------------------ v3 (RustCrypto) *)
  (* LocalKey::keys *)
  Definition v3_keys (key nonce : bytes) : bytes * bytes * bytes :=
    let t := hkdf384 O [] key (str "paseto-encryption-key" ++ nonce) 48 in
    let ak := hkdf384 O [] key (str "paseto-auth-key-for-aead" ++ nonce) 48 in
    (take 32 t, drop 32 t, ak).

  Definition v3_pre (enc nonce c f a : bytes) : bytes :=
    pae [local_hdr (str "v3") enc; [nonce]; [c]; [f]; [a]].

  Definition v3_local_seal (key enc payload f a : bytes) : result bytes :=
    '(nonce, m) <- ok_or (split_first 32 payload) InvalidToken ;;
    let '(ek, n2, ak) := v3_keys key nonce in
    let c := xorl m (aes_ctr ctr_w_rustcrypto ek n2 (length m)) in
    Ok (nonce ++ c ++ hmac384 O ak (v3_pre enc nonce c f a)).

  Definition v3_local_unseal (key enc payload f a : bytes) : result bytes :=
    if Nat.ltb (length payload) 80 then Err InvalidToken else
    '(rest, tag) <- ok_or (split_last 48 payload) InvalidToken ;;
    '(nonce, c) <- ok_or (split_first 32 rest) InvalidToken ;;
    let '(ek, n2, ak) := v3_keys key nonce in
    if beq (hmac384 O ak (v3_pre enc nonce c f a)) tag
    then Ok (xorl c (aes_ctr ctr_w_rustcrypto ek n2 (length c)))
    else Err CryptoError.

  (* ------------------------------------------------------------------ v3 (aws-lc) *)
  Definition lc_keys (key nonce : bytes) : bytes * bytes * bytes :=
    let t := hkdf384 O [] key (str "paseto-encryption-key" ++ nonce) 48 in
    let ak := hkdf384 O [] key (str "paseto-auth-key-for-aead" ++ nonce) 48 in
    match split_last 16 t with
    | Some (ek, n2) => (ek, n2, ak)
    | None => ([], [], ak)            (* unreachable: the KDF output has 48 bytes *)
    end.

  Definition lc_local_seal (key enc payload f a : bytes) : result bytes :=
    if Nat.ltb (length payload) 32 then Panic "paseto-v3-aws-lc/local.rs:split_at_mut(32)" else
    let nonce := take 32 payload in
    let m := drop 32 payload in
    let '(ek, n2, ak) := lc_keys key nonce in
    let c := xorl m (aes_ctr ctr_w_awslc ek n2 (length m)) in
    Ok (nonce ++ c ++ hmac384 O ak (v3_pre enc nonce c f a)).

  (* `if len < 80 { return Err(InvalidToken) }`, then `payload.split_at_mut(len - 48)` and
     `ciphertext.split_at_mut(32)`: both splits PANIC when out of range (Rs.v); that the guard excludes it is
     proved (lc_unseal_inst, lc_local_unseal_no_panic), not assumed *)
  Definition lc_local_unseal (key enc payload f a : bytes) : result bytes :=
    if Nat.ltb (length payload) 80 then Err InvalidToken else
    rs_sub (length payload) 48 "paseto-v3-aws-lc/local.rs unseal: len - 48" (fun mid =>
    rs_split_at mid payload "paseto-v3-aws-lc/local.rs unseal: split_at_mut(len - 48)" (fun rest tag =>
    rs_split_at 32 rest "paseto-v3-aws-lc/local.rs unseal: split_at_mut(32)" (fun nonce c =>
    let '(ek, n2, ak) := lc_keys key nonce in
    if beq (hmac384 O ak (v3_pre enc nonce c f a)) tag
    then Ok (xorl c (aes_ctr ctr_w_awslc ek n2 (length c)))
    else Err CryptoError))).

  (* ------------------------------------------------------------------ v1 *)
  Definition v1_keys (key nonce : bytes) : bytes * bytes * bytes :=
    let n1 := take 16 nonce in
    let n2 := drop 16 nonce in
    (hkdf384 O n1 key (str "paseto-encryption-key") 32, n2,
     hkdf384 O n1 key (str "paseto-auth-key-for-aead") 32).

  Definition v1_pre (enc nonce c f : bytes) : bytes :=
    pae [local_hdr (str "v1") enc; [nonce]; [c]; [f]].

  Definition v1_local_seal (key enc payload f a : bytes) : result bytes :=
    if negb (isnil a) then Err ClaimsError else
    '(n0, m) <- ok_or (split_first 32 payload) InvalidToken ;;
    let nonce := take 32 (hmac384 O n0 m) in
    let '(ek, n2, ak) := v1_keys key nonce in
    let c := xorl m (aes_ctr ctr_w_rustcrypto ek n2 (length m)) in
    Ok (nonce ++ c ++ hmac384 O ak (v1_pre enc nonce c f)).

  Definition v1_local_unseal (key enc payload f a : bytes) : result bytes :=
    if negb (isnil a) then Err ClaimsError else
    if Nat.ltb (length payload) 80 then Err InvalidToken else
    '(rest, tag) <- ok_or (split_last 48 payload) InvalidToken ;;
    '(nonce, c) <- ok_or (split_first 32 rest) InvalidToken ;;
    let '(ek, n2, ak) := v1_keys key nonce in
    if beq (hmac384 O ak (v1_pre enc nonce c f)) tag
    then Ok (xorl c (aes_ctr ctr_w_rustcrypto ek n2 (length c)))
    else Err CryptoError.

  (* ------------------------------------------------------------------ v4 (RustCrypto) *)
  Definition v4_keys (key nonce : bytes) : bytes * bytes * bytes :=
    let t := blake2b O 56 key (str "paseto-encryption-key" ++ nonce) in
    let ak := blake2b O 32 key (str "paseto-auth-key-for-aead" ++ nonce) in
    (take 32 t, drop 32 t, ak).

  Definition v4_pre (enc nonce c f a : bytes) : bytes :=
    pae [local_hdr (str "v4") enc; [nonce]; [c]; [f]; [a]].

  Definition v4_local_seal (key enc payload f a : bytes) : result bytes :=
    if Nat.ltb (length payload) 32 then Panic "paseto-v4/local.rs:split_at_mut(32)" else
    let nonce := take 32 payload in
    let m := drop 32 payload in
    let '(ek, n2, ak) := v4_keys key nonce in
    let c := xorl m (xchacha20 O ek n2 (length m)) in
    Ok (nonce ++ c ++ blake2b O 32 ak (v4_pre enc nonce c f a)).

  Definition v4_local_unseal (key enc payload f a : bytes) : result bytes :=
    '(rest, tag) <- ok_or (split_last 32 payload) InvalidToken ;;
    '(nonce, c) <- ok_or (split_first 32 rest) InvalidToken ;;
    let '(ek, n2, ak) := v4_keys key nonce in
    if beq (blake2b O 32 ak (v4_pre enc nonce c f a)) tag
    then Ok (xorl c (xchacha20 O ek n2 (length c)))
    else Err CryptoError.

  (* ------------------------------------------------------------------ v4 (libsodium) *)
  Definition na_keys (key nonce : bytes) : bytes * bytes * bytes :=
    let t := blake2b O 56 key (str "paseto-encryption-key" ++ nonce) in
    let ak := blake2b O 32 key (str "paseto-auth-key-for-aead" ++ nonce) in
    match split_last 24 t with
    | Some (ek, n2) => (ek, n2, ak)
    | None => ([], [], ak)            (* `expect("kdf should output 56 bytes")`: unreachable *)
    end.

  Definition na_local_seal (key enc payload f a : bytes) : result bytes :=
    '(nonce, m) <- ok_or (split_first 32 payload) InvalidToken ;;
    let '(ek, n2, ak) := na_keys key nonce in
    let c := xorl m (xchacha20 O ek n2 (length m)) in
    Ok (nonce ++ c ++ blake2b O 32 ak (v4_pre enc nonce c f a)).

  Definition na_local_unseal (key enc payload f a : bytes) : result bytes :=
    if Nat.ltb (length payload) 64 then Err InvalidToken else
    '(rest, tag) <- ok_or (split_last 32 payload) InvalidToken ;;
    '(nonce, c) <- ok_or (split_first 32 rest) InvalidToken ;;
    let '(ek, n2, ak) := na_keys key nonce in
    if beq (blake2b O 32 ak (v4_pre enc nonce c f a)) tag
    then Ok (xorl c (xchacha20 O ek n2 (length c)))
    else Err CryptoError.

  (* ------------------------------------------------------------------ v2 *)
  Definition v2_pre (enc nonce f : bytes) : bytes :=
    pae [local_hdr (str "v2") enc; [nonce]; [f]].

  Definition v2_local_seal (key enc payload f a : bytes) : result bytes :=
    if negb (isnil a) then Err ClaimsError else
    '(n0, m) <- ok_or (split_first 24 payload) CryptoError ;;
    let nonce := blake2b O 24 n0 m in
    let '(c, tag) := xcp_seal O key nonce (v2_pre enc nonce f) m in
    Ok (nonce ++ c ++ tag).

  Definition v2_local_unseal (key enc payload f a : bytes) : result bytes :=
    if negb (isnil a) then Err ClaimsError else
    '(rest, tag) <- ok_or (split_last 16 payload) InvalidToken ;;
    '(nonce, c) <- ok_or (split_first 24 rest) InvalidToken ;;
    match xcp_open O key nonce (v2_pre enc nonce f) c tag with
    | Some m => Ok m
    | None => Err CryptoError
    end.

  (* ------------------------------------------------------------------ V::nonce() for Local
     The draw oracle: [draw n] = Some of exactly n random bytes, or None when the OS source fails. *)
  Definition local_nonce (nbytes : nat) (draw : nat -> option bytes) : result bytes :=
    match draw nbytes with
    | Some r => Ok r
    | None => Err CryptoError
    end.
  Definition v1_local_nonce := local_nonce 32.
  Definition v2_local_nonce := local_nonce 24.
  Definition v3_local_nonce := local_nonce 32.
  Definition lc_local_nonce := local_nonce 32.
  Definition v4_local_nonce := local_nonce 32.
  Definition na_local_nonce := local_nonce 32.

  (* ------------------------------------------------------------------ the generic MAC-then-XOR scheme
     of which v1, v3, v3-aws-lc, v4 and v4-sodium are instances (proved in LocalProofs.v) *)
  Record lparams : Type := {
    lp_tlen : nat;                                  (* tag length *)
    lp_aad : bool;                                  (* implicit assertions supported *)
    lp_short : result bytes;                        (* what seal does with a payload shorter than the nonce *)
    lp_synth : bytes -> bytes -> bytes;             (* nonce actually used, from (drawn nonce, message) *)
    lp_ks : bytes -> bytes -> nat -> bytes;         (* key, nonce, length -> keystream *)
    lp_tag : bytes -> bytes -> bytes -> bytes -> bytes -> bytes -> bytes;  (* key enc nonce c f a -> tag *)
  }.

  Definition lg_seal (P : lparams) (key enc payload f a : bytes) : result bytes :=
    if negb (lp_aad P) && negb (isnil a) then Err ClaimsError else
    match split_first 32 payload with
    | None => lp_short P
    | Some (n0, m) =>
        let nonce := lp_synth P n0 m in
        let c := xorl m (lp_ks P key nonce (length m)) in
        Ok (nonce ++ c ++ lp_tag P key enc nonce c f a)
    end.

  Definition lg_unseal (P : lparams) (key enc payload f a : bytes) : result bytes :=
    if negb (lp_aad P) && negb (isnil a) then Err ClaimsError else
    if Nat.ltb (length payload) (32 + lp_tlen P) then Err InvalidToken else
    let rest := take (length payload - lp_tlen P) payload in
    let tag := drop (length payload - lp_tlen P) payload in
    let nonce := take 32 rest in
    let c := drop 32 rest in
    if beq (lp_tag P key enc nonce c f a) tag
    then Ok (xorl c (lp_ks P key nonce (length c)))
    else Err CryptoError.

  Definition ks_of (keys : bytes -> bytes -> bytes * bytes * bytes) (cipher : bytes -> bytes -> nat -> bytes)
             (key nonce : bytes) (len : nat) : bytes :=
    let '(ek, n2, _) := keys key nonce in cipher ek n2 len.

  Definition v3_params : lparams :=
    {| lp_tlen := 48; lp_aad := true; lp_short := Err InvalidToken; lp_synth := fun n _ => n;
       lp_ks := ks_of v3_keys (aes_ctr ctr_w_rustcrypto);
       lp_tag := fun key enc n c f a => let '(_, _, ak) := v3_keys key n in hmac384 O ak (v3_pre enc n c f a) |}.
  Definition lc_params : lparams :=
    {| lp_tlen := 48; lp_aad := true; lp_short := Panic "paseto-v3-aws-lc/local.rs:split_at_mut(32)";
       lp_synth := fun n _ => n;
       lp_ks := ks_of lc_keys (aes_ctr ctr_w_awslc);
       lp_tag := fun key enc n c f a => let '(_, _, ak) := lc_keys key n in hmac384 O ak (v3_pre enc n c f a) |}.
  Definition v1_params : lparams :=
    {| lp_tlen := 48; lp_aad := false; lp_short := Err InvalidToken;
       lp_synth := fun n0 m => take 32 (hmac384 O n0 m);
       lp_ks := ks_of v1_keys (aes_ctr ctr_w_rustcrypto);
       lp_tag := fun key enc n c f _ => let '(_, _, ak) := v1_keys key n in hmac384 O ak (v1_pre enc n c f) |}.
  Definition v4_params : lparams :=
    {| lp_tlen := 32; lp_aad := true; lp_short := Panic "paseto-v4/local.rs:split_at_mut(32)";
       lp_synth := fun n _ => n;
       lp_ks := ks_of v4_keys (xchacha20 O);
       lp_tag := fun key enc n c f a => let '(_, _, ak) := v4_keys key n in blake2b O 32 ak (v4_pre enc n c f a) |}.
  Definition na_params : lparams :=
    {| lp_tlen := 32; lp_aad := true; lp_short := Err InvalidToken; lp_synth := fun n _ => n;
       lp_ks := ks_of na_keys (xchacha20 O);
       lp_tag := fun key enc n c f a => let '(_, _, ak) := na_keys key n in blake2b O 32 ak (v4_pre enc n c f a) |}.

End WithOracle.
