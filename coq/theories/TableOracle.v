(* TableOracle.v — an oracle given by a finite table of (name, arguments, results): used by cases.v to
   re-evaluate, inside the kernel, model runs whose primitive answers were logged by the harness. *)
From Coq Require Import List String.
From PV Require Import Bytes Oracle.
Import ListNotations.

Fixpoint args_eqb (a b : list bytes) : bool :=
  match a, b with
  | [], [] => true
  | x :: a', y :: b' => beq x y && args_eqb a' b'
  | _, _ => false
  end.

Fixpoint table_oracle (t : list (String.string * list bytes * list bytes)) : oracle :=
  fun name args =>
    match t with
    | [] => []
    | (n, a, r) :: t' => if String.eqb n name && args_eqb a args then r else table_oracle t' name args
    end.
