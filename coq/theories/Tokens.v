(* Tokens.v — model of paseto-core/src/tokens.rs: the generic seal / unseal pipeline.
   unseal = V::unseal ? ; M::decode ? ; v.validate ? ; Ok — with an effect trace recording every
   call of the caller's payload decoder and validator. *)
From PV Require Import Bytes Result Text.

Section Pipeline.
  Context {Claims Foot UKey SKey : Type}.
  (* the backend: UnsealingVersion::unseal / SealingVersion::dangerous_seal_with_nonce *)
  Variable v_unseal : UKey -> bytes -> bytes -> bytes -> bytes -> result bytes.
  Variable v_seal : SKey -> bytes -> bytes -> bytes -> bytes -> result bytes.
  (* the payload type: SUFFIX, encode, decode; the footer type: encode *)
  Variable m_suffix : bytes.
  Variable m_encode : Claims -> option bytes.
  Variable m_decode : bytes -> option Claims.
  Variable f_encode : Foot -> option bytes.
  (* the caller's validator *)
  Variable validate : Claims -> result unit.

  Inductive event : Type :=
  | EvDecode (cleartext : bytes)
  | EvValidate (c : Claims).

  (* SealedToken::unseal(self, key, aad, v) *)
  Definition unseal (k : UKey) (tok : token) (fv : Foot) (aad : bytes)
    : result (Claims * Foot) * list event :=
    match v_unseal k m_suffix (t_payload tok) (t_footer tok) aad with
    | Err e => (Err e, [])
    | Panic s => (Panic s, [])
    | Ok clear =>
        match m_decode clear with
        | None => (Err PayloadError, [EvDecode clear])
        | Some m =>
            match validate m with
            | Ok _ => (Ok (m, fv), [EvDecode clear; EvValidate m])
            | Err e => (Err e, [EvDecode clear; EvValidate m])
            | Panic s => (Panic s, [EvDecode clear; EvValidate m])
            end
        end
    end.

  (* UnsealedToken::dangerous_seal_with_nonce(self, key, aad, nonce) *)
  Definition seal_with_nonce (k : SKey) (c : Claims) (fv : Foot) (aad nonce : bytes) : result token :=
    f <- ok_or (f_encode fv) PayloadError ;;
    body <- ok_or (m_encode c) PayloadError ;;
    p <- v_seal k m_suffix (nonce ++ body) f aad ;;
    Ok {| t_payload := p; t_footer := f |}.

  (* UnsealedToken::seal(self, key, aad) = self.dangerous_seal_with_nonce(key, aad, V::nonce()?) *)
  Definition seal (k : SKey) (c : Claims) (fv : Foot) (aad : bytes) (nonce : result bytes) : result token :=
    n <- nonce ;; seal_with_nonce k c fv aad n.

End Pipeline.
Arguments EvDecode {Claims} cleartext.
Arguments EvValidate {Claims} c.
