(* Headers.v — C10: the header constants (regenerated from the source into Gen/Headers.v on every run)
   equal the PASETO/PASERK constants, all full text prefixes are pairwise prefix-incomparable, and
   therefore no string is accepted by the parsers of two different (version, kind) pairs. *)
From PV Require Import Bytes Result Base64 Base64Proofs Text TextProofs.
From PV.Gen Require Import Headers.
Local Open Scope string_scope.
Set Default Timeout 60.

(* ---------- what the specifications prescribe ---------- *)

Definition spec_versions : list (String.string * bytes * bytes) :=
  [ ("paseto-v1", str "v1", str "k1"); ("paseto-v2", str "v2", str "k2");
    ("paseto-v3", str "v3", str "k3"); ("paseto-v3-aws-lc", str "v3", str "k3");
    ("paseto-v4", str "v4", str "k4"); ("paseto-v4-sodium", str "v4", str "k4") ].

Definition spec_key_kinds : list (String.string * bytes * bytes) :=
  [ ("Secret", str ".secret.", str ".sid."); ("Public", str ".public.", str ".pid.");
    ("Local", str ".local.", str ".lid.");
    (* the key-sealing (PKE) key pair is serialised as an ordinary secret / public key *)
    ("PkeSecret", str ".secret.", str ".sid."); ("PkePublic", str ".public.", str ".pid.") ].

Definition spec_sealing_kinds : list (String.string * bytes * bytes) :=
  [ ("Secret", str ".secret-wrap.pie.", str ".secret-pw.");
    ("Local", str ".local-wrap.pie.", str ".local-pw.") ].

Definition spec_text_uses : list (String.string * list String.string * list String.string) :=
  [ ("KeyText", ["V::PASERK_HEADER"; "K::HEADER"], ["V::PASERK_HEADER"; "K::HEADER"]);
    ("KeyId", ["V::PASERK_HEADER"; "K::ID_HEADER"], ["V::PASERK_HEADER"; "K::ID_HEADER"]);
    ("PieWrappedKey", ["V::PASERK_HEADER"; "K::PIE_WRAP_HEADER"], ["V::PASERK_HEADER"; "K::PIE_WRAP_HEADER"]);
    ("PasswordWrappedKey", ["V::PASERK_HEADER"; "K::PW_WRAP_HEADER"], ["V::PASERK_HEADER"; "K::PW_WRAP_HEADER"]);
    ("SealedKey", ["V::PASERK_HEADER"; "'.seal.'"], ["V::PASERK_HEADER"; "'.seal.'"]);
    ("SealedToken", ["V::HEADER"; "M::SUFFIX"; "P::HEADER"], ["V::HEADER"; "M::SUFFIX"; "P::HEADER"]) ].

(* ---------- all full prefixes a parser of this library strips ---------- *)

Definition kind_headers : list bytes :=
  flat_map (fun '(_, h, i) => [h; i]) gen_key_kinds
  ++ flat_map (fun '(_, p, w) => [p; w]) gen_sealing_kinds
  ++ [gen_seal_header].

Definition purpose_headers : list bytes :=
  flat_map (fun '(m, h, _) => if existsb (String.eqb m) gen_purposes then [h] else []) gen_key_kinds.

Definition all_prefixes : list bytes :=
  flat_map (fun '(_, _, k) => map (fun kh => k ++ kh) kind_headers) gen_versions
  ++ flat_map (fun '(_, v, _) => map (fun ph => v ++ ph) purpose_headers) gen_versions.

Definition is_prefix (p s : bytes) : bool :=
  match strip_prefix p s with Some _ => true | None => false end.

Definition ends_with_dot (p : bytes) : bool :=
  match rev p with c :: _ => Byte.eqb c dot | [] => false end.

Definition prefix_free (T : list bytes) : bool :=
  forallb (fun p => forallb (fun q => beq p q || negb (is_prefix p q)) T) T.

Definition headers_wf : bool :=
  forallb ends_with_dot all_prefixes && prefix_free all_prefixes.

(* ---------- obligations over the regenerated table (re-checked on every run) ---------- *)

Lemma gen_versions_spec : gen_versions = spec_versions.
Proof. vm_compute. reflexivity. Qed.

Lemma gen_key_kinds_spec : gen_key_kinds = spec_key_kinds.
Proof. vm_compute. reflexivity. Qed.

Lemma gen_sealing_kinds_spec : gen_sealing_kinds = spec_sealing_kinds.
Proof. vm_compute. reflexivity. Qed.

Lemma gen_seal_header_spec : gen_seal_header = str ".seal.".
Proof. vm_compute. reflexivity. Qed.

Lemma gen_purposes_spec : gen_purposes = ["Public"; "Local"].
Proof. vm_compute. reflexivity. Qed.

Lemma gen_text_uses_spec : gen_text_uses = spec_text_uses.
Proof. vm_compute. reflexivity. Qed.

Lemma headers_wf_holds : headers_wf = true.
Proof. vm_compute. reflexivity. Qed.

(* ---------- general lemmas ---------- *)

Lemma strip_prefix_app2 a b s :
  strip_prefix (a ++ b) s = match strip_prefix a s with Some r => strip_prefix b r | None => None end.
Proof.
  revert s; induction a as [|x a IH]; intros s; cbn [app strip_prefix]; [reflexivity|].
  destruct s as [|y s]; [reflexivity|]. destruct (Byte.eqb x y); [apply IH | reflexivity].
Qed.

Lemma is_prefix_spec p s : is_prefix p s = true <-> exists r, s = p ++ r.
Proof.
  unfold is_prefix. destruct (strip_prefix p s) as [r|] eqn:E.
  - apply strip_prefix_spec in E. split; eauto.
  - split; [discriminate|]. intros [r ->]. rewrite strip_prefix_app in E. discriminate.
Qed.

(* two prefixes of one string are comparable *)
Lemma prefixes_comparable p q s :
  is_prefix p s = true -> is_prefix q s = true -> is_prefix p q = true \/ is_prefix q p = true.
Proof.
  rewrite !is_prefix_spec. revert q s; induction p as [|x p IH]; intros q s [r1 E1] [r2 E2].
  - left. exists q. reflexivity.
  - destruct q as [|y q]; [right; eexists; reflexivity|].
    subst s. cbn [app] in E2. inversion E2; subst y.
    destruct (IH q (p ++ r1)) as [[r ->]|[r ->]]; [eexists; reflexivity | eexists; eassumption | |].
    + left. eexists. reflexivity.
    + right. eexists. reflexivity.
Qed.

Lemma prefix_free_spec T p q s :
  prefix_free T = true -> In p T -> In q T ->
  is_prefix p s = true -> is_prefix q s = true -> p = q.
Proof.
  unfold prefix_free. rewrite forallb_forall. intros PF Hp Hq Sp Sq.
  pose proof (PF p Hp) as A. rewrite forallb_forall in A. specialize (A q Hq).
  pose proof (PF q Hq) as B. rewrite forallb_forall in B. specialize (B p Hp).
  apply orb_true_iff in A, B.
  destruct A as [A|A]; [now apply beq_eq in A|].
  destruct B as [B|B]; [symmetry; now apply beq_eq in B|].
  destruct (prefixes_comparable p q s Sp Sq) as [C|C]; rewrite C in *; discriminate.
Qed.

(* every parser first strips its full prefix *)
Lemma parse_paserk_prefix ver kind s d :
  parse_paserk ver kind s = Ok d -> is_prefix (ver ++ kind) s = true.
Proof.
  intros H. apply paserk_print_parse in H. unfold print_paserk in H. subst s.
  apply is_prefix_spec. exists (encode d). now rewrite app_assoc.
Qed.

Lemma parse_paserk_not_prefix ver kind s :
  is_prefix (ver ++ kind) s = false -> parse_paserk ver kind s = Err InvalidKey.
Proof.
  unfold is_prefix, parse_paserk. rewrite strip_prefix_app2.
  destruct (strip_prefix ver s) as [s1|]; cbn [ok_or bind]; [|reflexivity].
  destruct (strip_prefix kind s1); cbn [ok_or bind]; [discriminate | reflexivity].
Qed.

Lemma parse_keyid_prefix ver kind s d :
  parse_keyid ver kind s = Ok d -> is_prefix (ver ++ kind) s = true.
Proof.
  intros H. apply keyid_print_parse in H. destruct H as [H _]. unfold print_paserk in H. subst s.
  apply is_prefix_spec. exists (encode d). now rewrite app_assoc.
Qed.

Lemma parse_keyid_not_prefix ver kind s :
  is_prefix (ver ++ kind) s = false -> parse_keyid ver kind s = Err InvalidKey.
Proof.
  unfold is_prefix, parse_keyid. rewrite strip_prefix_app2.
  destruct (strip_prefix ver s) as [s1|]; cbn [ok_or bind]; [|reflexivity].
  destruct (strip_prefix kind s1); cbn [ok_or bind]; [discriminate | reflexivity].
Qed.

Lemma parse_token_prefix {F} (fdec : bytes -> option F) hdr pur s r :
  parse_token fdec hdr [] pur s = Ok r -> is_prefix (hdr ++ pur) s = true.
Proof.
  unfold parse_token, is_prefix. rewrite strip_prefix_app2.
  destruct (strip_prefix hdr s) as [s1|]; cbn [ok_or bind strip_prefix]; [|discriminate].
  destruct (strip_prefix pur s1); cbn [ok_or bind]; [reflexivity | discriminate].
Qed.

Lemma parse_token_not_prefix {F} (fdec : bytes -> option F) hdr pur s :
  is_prefix (hdr ++ pur) s = false -> parse_token fdec hdr [] pur s = Err InvalidToken.
Proof.
  unfold is_prefix, parse_token. rewrite strip_prefix_app2.
  destruct (strip_prefix hdr s) as [s1|]; cbn [ok_or bind strip_prefix]; [|reflexivity].
  destruct (strip_prefix pur s1); cbn [ok_or bind]; [discriminate | reflexivity].
Qed.

(* The text parsers of the library, uniformly: kind of parser, its full prefix. *)
Inductive parser_kind := PPaserk | PKeyId | PToken.

Definition accepts (k : parser_kind) (pre_v pre_k s : bytes) : bool :=
  match k with
  | PPaserk => is_ok (parse_paserk pre_v pre_k s)
  | PKeyId => is_ok (parse_keyid pre_v pre_k s)
  | PToken => is_ok (parse_token fdec_vec pre_v [] pre_k s)
  end.

Definition rejects_with_format_error (k : parser_kind) (pre_v pre_k s : bytes) : Prop :=
  match k with
  | PPaserk => parse_paserk pre_v pre_k s = Err InvalidKey
  | PKeyId => parse_keyid pre_v pre_k s = Err InvalidKey
  | PToken => parse_token fdec_vec pre_v [] pre_k s = Err InvalidToken
  end.

Lemma accepts_prefix k v kd s : accepts k v kd s = true -> is_prefix (v ++ kd) s = true.
Proof.
  destruct k; cbn [accepts].
  - destruct (parse_paserk v kd s) eqn:E; try discriminate. intros _. eapply parse_paserk_prefix; eauto.
  - destruct (parse_keyid v kd s) eqn:E; try discriminate. intros _. eapply parse_keyid_prefix; eauto.
  - destruct (parse_token fdec_vec v [] kd s) eqn:E; try discriminate. intros _. eapply parse_token_prefix; eauto.
Qed.

Lemma not_prefix_rejects k v kd s : is_prefix (v ++ kd) s = false -> rejects_with_format_error k v kd s.
Proof.
  destruct k; cbn [rejects_with_format_error];
    [apply parse_paserk_not_prefix | apply parse_keyid_not_prefix | apply parse_token_not_prefix].
Qed.

(* C10, text level: a string accepted under one full prefix of the table is rejected, with the
   format error, by every parser that strips a different full prefix of the table. *)
Theorem cross_kind_rejected k1 v1 kd1 k2 v2 kd2 s :
  In (v1 ++ kd1) all_prefixes -> In (v2 ++ kd2) all_prefixes -> v1 ++ kd1 <> v2 ++ kd2 ->
  accepts k1 v1 kd1 s = true -> rejects_with_format_error k2 v2 kd2 s.
Proof.
  intros I1 I2 NE A. apply not_prefix_rejects.
  destruct (is_prefix (v2 ++ kd2) s) eqn:P2; [|reflexivity]. exfalso. apply NE.
  pose proof headers_wf_holds as W. unfold headers_wf in W. apply andb_true_iff in W. destruct W as [_ PF].
  eapply prefix_free_spec; eauto using accepts_prefix.
Qed.

(* same prefix but a different parser family (key text vs key id share no prefix; this is the table
   fact that no id header equals a key header etc.) is covered by [cross_kind_rejected] since the
   kind headers are distinct strings: *)
Lemma kind_headers_distinct_families :
  let keys := map (fun '(_, h, _) => h) gen_key_kinds in
  let ids := map (fun '(_, _, i) => i) gen_key_kinds in
  let pies := map (fun '(_, p, _) => p) gen_sealing_kinds in
  let pws := map (fun '(_, _, w) => w) gen_sealing_kinds in
  forallb (fun a => forallb (fun b => negb (beq a b)) (ids ++ pies ++ pws ++ [gen_seal_header])) keys
  && forallb (fun a => forallb (fun b => negb (beq a b)) (pies ++ pws ++ [gen_seal_header])) ids
  && forallb (fun a => forallb (fun b => negb (beq a b)) (pws ++ [gen_seal_header])) pies
  && forallb (fun a => negb (beq a gen_seal_header)) pws = true.
Proof. vm_compute. reflexivity. Qed.

Example v4_local_in_table : In (str "v4" ++ str ".local.") all_prefixes.
Proof. vm_compute. tauto. Qed.
Example k3_pid_in_table : In (str "k3" ++ str ".pid.") all_prefixes.
Proof. vm_compute. tauto. Qed.
