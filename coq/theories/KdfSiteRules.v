(* KdfSiteRules.v — the domain-separation constants of the model's key derivations ARE the ones the source passes to its
   `kdf(...)` helpers.  Gen/KdfSites.v is regenerated from /repo on every check (second argument of every kdf call of
   local.rs, pie_wrap.rs, pw_wrap.rs, in source order); each derivation of the model is restated here with the regenerated
   constant in the place of its own and closed by computation. *)
From Coq Require Import List String NArith.
From PV Require Import Bytes Result Oracle Ctr Local Paserk.
From PV.Gen Require Import KdfSites.
Import ListNotations.
Local Open Scope string_scope.
Local Open Scope list_scope.

(* the i-th constant of a file ([] when the file has fewer calls: every lemma below then fails) *)
Definition kdf_label (file : String.string) (i : nat) : bytes :=
  nth i (map snd (filter (fun r => String.eqb (fst r) file) gen_kdf_sites)) [].

Section WithOracle.
  Variable O : oracle.

  (* ---- local tokens ---- *)
  Lemma v1_keys_labels : forall key nonce, v1_keys O key nonce =
    (let n1 := take 16 nonce in let n2 := drop 16 nonce in
     (hkdf384 O n1 key (kdf_label "paseto-v1/src/core/local.rs" 0) 32, n2, hkdf384 O n1 key (kdf_label "paseto-v1/src/core/local.rs" 1) 32)).
  Proof. reflexivity. Qed.
  Lemma v3_keys_labels : forall key nonce, v3_keys O key nonce =
    (let t := hkdf384 O [] key (kdf_label "paseto-v3/src/core/local.rs" 0 ++ nonce) 48 in
     let ak := hkdf384 O [] key (kdf_label "paseto-v3/src/core/local.rs" 1 ++ nonce) 48 in (take 32 t, drop 32 t, ak)).
  Proof. reflexivity. Qed.
  Lemma lc_keys_labels : forall key nonce, lc_keys O key nonce =
    (let t := hkdf384 O [] key (kdf_label "paseto-v3-aws-lc/src/core/local.rs" 0 ++ nonce) 48 in
     let ak := hkdf384 O [] key (kdf_label "paseto-v3-aws-lc/src/core/local.rs" 1 ++ nonce) 48 in
     match split_last 16 t with Some (ek, n2) => (ek, n2, ak) | None => ([], [], ak) end).
  Proof. reflexivity. Qed.
  Lemma v4_keys_labels : forall key nonce, v4_keys O key nonce =
    (let t := blake2b O 56 key (kdf_label "paseto-v4/src/core/local.rs" 0 ++ nonce) in
     let ak := blake2b O 32 key (kdf_label "paseto-v4/src/core/local.rs" 1 ++ nonce) in (take 32 t, drop 32 t, ak)).
  Proof. reflexivity. Qed.
  Lemma na_keys_labels : forall key nonce, na_keys O key nonce =
    (let t := blake2b O 56 key (kdf_label "paseto-v4-sodium/src/core/local.rs" 0 ++ nonce) in
     let ak := blake2b O 32 key (kdf_label "paseto-v4-sodium/src/core/local.rs" 1 ++ nonce) in
     match split_last 24 t with Some (ek, n2) => (ek, n2, ak) | None => ([], [], ak) end).
  Proof. reflexivity. Qed.

  (* ---- PIE: the same derivation, three files each ---- *)
  Definition pieA_with (f : String.string) (wk nonce : bytes) : bytes * bytes * bytes :=
    let t := hmac384 O wk (kdf_label f 0 ++ nonce) in
    let ak := take 32 (hmac384 O wk (kdf_label f 1 ++ nonce)) in (take 32 t, drop 32 t, ak).
  Definition pieB_with (f : String.string) (wk nonce : bytes) : bytes * bytes * bytes :=
    let t := blake2b O 56 wk (kdf_label f 0 ++ nonce) in
    let ak := blake2b O 32 wk (kdf_label f 1 ++ nonce) in (take 32 t, drop 32 t, ak).
  Lemma pieA_keys_labels : forall wk n,
    pieA_keys O wk n = pieA_with "paseto-v1/src/core/pie_wrap.rs" wk n /\
    pieA_keys O wk n = pieA_with "paseto-v3/src/core/pie_wrap.rs" wk n /\
    pieA_keys O wk n = pieA_with "paseto-v3-aws-lc/src/core/pie_wrap.rs" wk n.
  Proof. repeat split; reflexivity. Qed.
  Lemma pieB_keys_labels : forall wk n,
    pieB_keys O wk n = pieB_with "paseto-v2/src/core/pie_wrap.rs" wk n /\
    pieB_keys O wk n = pieB_with "paseto-v4/src/core/pie_wrap.rs" wk n /\
    pieB_keys O wk n = pieB_with "paseto-v4-sodium/src/core/pie_wrap.rs" wk n.
  Proof. repeat split; reflexivity. Qed.

  (* ---- PBKW sub-keys ---- *)
  Definition pwA_subkeys_with (f : String.string) (k : bytes) : bytes * bytes :=
    (take 32 (sha384 O (kdf_label f 0 ++ k)), sha384 O (kdf_label f 1 ++ k)).
  Definition pwB_subkeys_with (f : String.string) (k : bytes) : bytes * bytes :=
    (blake2b O 32 [] (kdf_label f 0 ++ k), blake2b O 32 [] (kdf_label f 1 ++ k)).
  Lemma pwA_subkeys_labels : forall k,
    (pw_ek (v1_pw O) k, pw_ak (v1_pw O) k) = pwA_subkeys_with "paseto-v1/src/core/pw_wrap.rs" k /\
    (pw_ek (v3_pw O) k, pw_ak (v3_pw O) k) = pwA_subkeys_with "paseto-v3/src/core/pw_wrap.rs" k /\
    (pw_ek (lc_pw O) k, pw_ak (lc_pw O) k) = pwA_subkeys_with "paseto-v3-aws-lc/src/core/pw_wrap.rs" k.
  Proof. repeat split; reflexivity. Qed.
  Lemma pwB_subkeys_labels : forall k,
    (pw_ek (v2_pw O) k, pw_ak (v2_pw O) k) = pwB_subkeys_with "paseto-v2/src/core/pw_wrap.rs" k /\
    (pw_ek (v4_pw O) k, pw_ak (v4_pw O) k) = pwB_subkeys_with "paseto-v4/src/core/pw_wrap.rs" k /\
    (pw_ek (na_pw O) k, pw_ak (na_pw O) k) = pwB_subkeys_with "paseto-v4-sodium/src/core/pw_wrap.rs" k.
  Proof. repeat split; reflexivity. Qed.
End WithOracle.

(* exactly two constants per file, and no further kdf call *)
Definition expected_kdf_files : list String.string :=
  flat_map (fun f => [f; f])
    [ "paseto-v1/src/core/local.rs"; "paseto-v1/src/core/pie_wrap.rs"; "paseto-v1/src/core/pw_wrap.rs";
      "paseto-v2/src/core/pie_wrap.rs"; "paseto-v2/src/core/pw_wrap.rs";
      "paseto-v3/src/core/local.rs"; "paseto-v3/src/core/pie_wrap.rs"; "paseto-v3/src/core/pw_wrap.rs";
      "paseto-v3-aws-lc/src/core/local.rs"; "paseto-v3-aws-lc/src/core/pie_wrap.rs"; "paseto-v3-aws-lc/src/core/pw_wrap.rs";
      "paseto-v4/src/core/local.rs"; "paseto-v4/src/core/pie_wrap.rs"; "paseto-v4/src/core/pw_wrap.rs";
      "paseto-v4-sodium/src/core/local.rs"; "paseto-v4-sodium/src/core/pie_wrap.rs"; "paseto-v4-sodium/src/core/pw_wrap.rs" ].
Lemma kdf_sites_complete : map fst gen_kdf_sites = expected_kdf_files.
Proof. reflexivity. Qed.
