(* Text.v — model of the FromStr / Display pairs of paseto-core:
   SealedToken (encodings.rs), KeyText (paserk/plaintext.rs), KeyId (paserk/id.rs),
   PieWrappedKey, PasswordWrappedKey, SealedKey (paserk/{pie_wrap,pw_wrap,pke}.rs).
   Rust &str inputs are their UTF-8 bytes; strip_prefix with ASCII prefixes and
   split_once('.') are byte-exact on UTF-8, so the model works on all byte strings. *)
From PV Require Import Bytes Result Base64.

Definition dot : byte := x2e.

(* ---- PASERK text types: <version header><kind header><base64(data)> ---- *)

Definition print_paserk (ver kind data : bytes) : bytes := ver ++ kind ++ encode data.

Definition parse_paserk (ver kind s : bytes) : result bytes :=
  s1 <- ok_or (strip_prefix ver s) InvalidKey ;;
  s2 <- ok_or (strip_prefix kind s1) InvalidKey ;;
  decode_vec s2.

(* KeyId: fixed 33-byte buffer, then the length check *)
Definition parse_keyid (ver kind s : bytes) : result bytes :=
  s1 <- ok_or (strip_prefix ver s) InvalidKey ;;
  s2 <- ok_or (strip_prefix kind s1) InvalidKey ;;
  d <- decode_fixed 33 s2 ;;
  if Nat.eqb (length d) 33 then Ok d else Err InvalidKey.

(* ---- tokens ---- *)

(* str::split_once('.') *)
Fixpoint split_once_dot (s : bytes) : option (bytes * bytes) :=
  match s with
  | [] => None
  | c :: r =>
      if Byte.eqb c dot then Some ([], r)
      else match split_once_dot r with
           | Some (a, b) => Some (c :: a, b)
           | None => None
           end
  end.

Record token : Type := { t_payload : bytes; t_footer : bytes }.

Definition print_token (hdr suffix purpose : bytes) (t : token) : bytes :=
  hdr ++ suffix ++ purpose ++ encode (t_payload t)
  ++ (match t_footer t with [] => [] | _ => dot :: encode (t_footer t) end).

(* [fdec] is F::decode for the footer type (Vec<u8>: always Ok; (): only the empty footer;
   Json<T>: never the empty footer); its failure is PayloadError *)
Definition parse_token {F} (fdec : bytes -> option F) (hdr suffix purpose s : bytes)
  : result (token * F) :=
  s1 <- ok_or (strip_prefix hdr s) InvalidToken ;;
  s2 <- ok_or (strip_prefix suffix s1) InvalidToken ;;
  s3 <- ok_or (strip_prefix purpose s2) InvalidToken ;;
  let '(p, f) := match split_once_dot s3 with
                 | Some (p, f) => (p, Some f)
                 | None => (s3, None)
                 end in
  payload <- decode_vec p ;;
  footer <- match f with
            | Some f => decode_vec f
            | None => Ok []
            end ;;
  fv <- ok_or (fdec footer) PayloadError ;;
  Ok ({| t_payload := payload; t_footer := footer |}, fv).

(* footer codecs of paseto-core *)
Definition fdec_vec (b : bytes) : option bytes := Some b.
Definition fdec_unit (b : bytes) : option unit := match b with [] => Some tt | _ => None end.
