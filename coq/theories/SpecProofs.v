(* SpecProofs.v — C03: every backend model produces exactly the specification's token for the nonce it
   embeds, and therefore sibling backends agree; counter-width lemmas. *)
From Coq Require Import List NArith String Bool Lia Arith.
From PV Require Import Bytes Result Pae PaeProofs Ctr Oracle Local Public LocalProofs PublicProofs SpecTokens.
Import ListNotations.
Set Default Timeout 120.
Local Open Scope string_scope.
Local Open Scope list_scope.

Lemma pae_hdr5 (ver pur : bytes) enc a b c d :
  pae [[ver; enc; pur]; [a]; [b]; [c]; [d]] = pae_spec [ver ++ enc ++ pur; a; b; c; d].
Proof. rewrite pae_fragments. cbn [map concat]. rewrite !app_nil_r. reflexivity. Qed.
Lemma pae_hdr4 (ver pur : bytes) enc a b c :
  pae [[ver; enc; pur]; [a]; [b]; [c]] = pae_spec [ver ++ enc ++ pur; a; b; c].
Proof. rewrite pae_fragments. cbn [map concat]. rewrite !app_nil_r. reflexivity. Qed.
Lemma pae_hdr3 (ver pur : bytes) enc a b :
  pae [[ver; enc; pur]; [a]; [b]] = pae_spec [ver ++ enc ++ pur; a; b].
Proof. rewrite pae_fragments. cbn [map concat]. rewrite !app_nil_r. reflexivity. Qed.
Lemma pae_pk_hdr5 (pk ver pur : bytes) enc a b c :
  pae [[pk]; [ver; enc; pur]; [a]; [b]; [c]] = pae_spec [pk; ver ++ enc ++ pur; a; b; c].
Proof. rewrite pae_fragments. cbn [map concat]. rewrite !app_nil_r. reflexivity. Qed.

Section Eq.
  Variable O : oracle.

  (* with the empty Payload::SUFFIX (every payload type in the repository) the header is "vN.purpose." *)
  Theorem v3_local_is_spec key n m f a :
    length n = 32 -> v3_local_seal O key [] (n ++ m) f a = Ok (spec_v3_encrypt O key n m f a).
  Proof.
    intros Hn. unfold v3_local_seal.
    replace (split_first 32 (n ++ m)) with (Some (n, m)) by (rewrite <- Hn; symmetry; apply split_first_app).
    cbn [ok_or bind]. unfold v3_keys, v3_pre, local_hdr, spec_v3_encrypt, aes_ctr, aes256_ctr, ctr_w_rustcrypto, take, drop.
    rewrite pae_hdr5. reflexivity.
  Qed.

  Theorem lc_local_is_spec key n m f a :
    laws O -> length n = 32 -> lc_local_seal O key [] (n ++ m) f a = Ok (spec_v3_encrypt O key n m f a).
  Proof.
    intros L Hn. unfold lc_local_seal. rewrite app_length, Hn.
    destruct (Nat.ltb_spec (32 + length m) 32); [lia|].
    rewrite (take_app_exact n m 32), (drop_app_exact n m 32) by (symmetry; exact Hn).
    unfold lc_keys. rewrite split_last_ge by (rewrite (hkdf384_len O L); lia).
    rewrite (hkdf384_len O L). cbn [Nat.sub].
    unfold v3_pre, local_hdr, spec_v3_encrypt, aes_ctr, aes256_ctr, ctr_w_awslc, take, drop.
    rewrite pae_hdr5. reflexivity.
  Qed.

  Theorem v1_local_is_spec key b m f :
    length b = 32 -> v1_local_seal O key [] (b ++ m) f [] = Ok (spec_v1_encrypt O key b m f).
  Proof.
    intros Hb. unfold v1_local_seal. cbn [isnil negb].
    replace (split_first 32 (b ++ m)) with (Some (b, m)) by (rewrite <- Hb; symmetry; apply split_first_app).
    cbn [ok_or bind]. unfold v1_keys, v1_pre, local_hdr, spec_v1_encrypt, spec_v1_encrypt_with, spec_v1_nonce,
      aes_ctr, aes256_ctr, ctr_w_rustcrypto, take, drop.
    rewrite pae_hdr4. reflexivity.
  Qed.

  Theorem v4_local_is_spec key n m f a :
    length n = 32 -> v4_local_seal O key [] (n ++ m) f a = Ok (spec_v4_encrypt O key n m f a).
  Proof.
    intros Hn. unfold v4_local_seal. rewrite app_length, Hn.
    destruct (Nat.ltb_spec (32 + length m) 32); [lia|].
    rewrite (take_app_exact n m 32), (drop_app_exact n m 32) by (symmetry; exact Hn).
    unfold v4_keys, v4_pre, local_hdr, spec_v4_encrypt, take, drop.
    rewrite pae_hdr5. reflexivity.
  Qed.

  Theorem na_local_is_spec key n m f a :
    laws O -> length n = 32 -> na_local_seal O key [] (n ++ m) f a = Ok (spec_v4_encrypt O key n m f a).
  Proof.
    intros L Hn. unfold na_local_seal.
    replace (split_first 32 (n ++ m)) with (Some (n, m)) by (rewrite <- Hn; symmetry; apply split_first_app).
    cbn [ok_or bind]. unfold na_keys. rewrite split_last_ge by (rewrite (blake2b_len O L); lia).
    rewrite (blake2b_len O L). cbn [Nat.sub].
    unfold v4_pre, local_hdr, spec_v4_encrypt, take, drop.
    rewrite pae_hdr5. reflexivity.
  Qed.

  Theorem v2_local_is_spec key b m f :
    length b = 24 -> v2_local_seal O key [] (b ++ m) f [] = Ok (spec_v2_encrypt O key b m f).
  Proof.
    intros Hb. unfold v2_local_seal. cbn [isnil negb].
    replace (split_first 24 (b ++ m)) with (Some (b, m)) by (rewrite <- Hb; symmetry; apply split_first_app).
    cbn [ok_or bind]. unfold v2_pre, local_hdr, spec_v2_encrypt.
    rewrite pae_hdr3. destruct (xcp_seal O key _ _ m). reflexivity.
  Qed.

  (* consequently the sibling backends produce identical tokens for identical nonces *)
  Corollary v3_siblings_agree key n m f a :
    laws O -> length n = 32 -> v3_local_seal O key [] (n ++ m) f a = lc_local_seal O key [] (n ++ m) f a.
  Proof. intros L Hn. rewrite v3_local_is_spec, lc_local_is_spec by assumption. reflexivity. Qed.

  Corollary v4_siblings_agree key n m f a :
    laws O -> length n = 32 -> v4_local_seal O key [] (n ++ m) f a = na_local_seal O key [] (n ++ m) f a.
  Proof. intros L Hn. rewrite v4_local_is_spec, na_local_is_spec by assumption. reflexivity. Qed.

  (* ... and each unseals the other's (and any specification-conforming) token to the same claims *)
  Hypothesis L : laws O.

  Theorem v3_accepts_spec key n m f a :
    length n = 32 -> v3_local_unseal O key [] (spec_v3_encrypt O key n m f a) f a = Ok m.
  Proof.
    intros Hn.
    destruct (lg_roundtrip (v3_params O) (v3_ks_len O L) (v3_tag_len O L) (id_syn (v3_params O) eq_refl) key [] n m f a Hn)
      as (p & Hs & Hu); [left; reflexivity|].
    rewrite <- v3_seal_inst, v3_local_is_spec in Hs by exact Hn. inversion Hs; subst p.
    rewrite v3_unseal_inst. exact Hu.
  Qed.

  Theorem lc_accepts_spec key n m f a :
    length n = 32 -> lc_local_unseal O key [] (spec_v3_encrypt O key n m f a) f a = Ok m.
  Proof.
    intros Hn.
    destruct (lg_roundtrip (lc_params O) (lc_ks_len O L) (lc_tag_len O L) (id_syn (lc_params O) eq_refl) key [] n m f a Hn)
      as (p & Hs & Hu); [left; reflexivity|].
    rewrite <- lc_seal_inst, lc_local_is_spec in Hs by assumption. inversion Hs; subst p.
    rewrite lc_unseal_inst. exact Hu.
  Qed.

  Theorem v4_accepts_spec key n m f a :
    length n = 32 -> v4_local_unseal O key [] (spec_v4_encrypt O key n m f a) f a = Ok m.
  Proof.
    intros Hn.
    destruct (lg_roundtrip (v4_params O) (v4_ks_len O L) (v4_tag_len O L) (id_syn (v4_params O) eq_refl) key [] n m f a Hn)
      as (p & Hs & Hu); [left; reflexivity|].
    rewrite <- v4_seal_inst, v4_local_is_spec in Hs by exact Hn. inversion Hs; subst p.
    rewrite v4_unseal_inst. exact Hu.
  Qed.

  Theorem na_accepts_spec key n m f a :
    length n = 32 -> na_local_unseal O key [] (spec_v4_encrypt O key n m f a) f a = Ok m.
  Proof.
    intros Hn.
    destruct (lg_roundtrip (na_params O) (na_ks_len O L) (na_tag_len O L) (id_syn (na_params O) eq_refl) key [] n m f a Hn)
      as (p & Hs & Hu); [left; reflexivity|].
    rewrite <- na_seal_inst, na_local_is_spec in Hs by assumption. inversion Hs; subst p.
    rewrite na_unseal_inst. exact Hu.
  Qed.

  (* v1: ANY 32-byte nonce in a conforming token is accepted (decryption does not re-derive it) *)
  Theorem v1_accepts_spec key n m f :
    length n = 32 -> v1_local_unseal O key [] (spec_v1_encrypt_with O key n m f) f [] = Ok m.
  Proof.
    intros Hn. rewrite v1_unseal_inst.
    unfold spec_v1_encrypt_with.
    rewrite (lg_unseal_triple (v1_params O)); [|exact Hn|apply (hmac384_len O L)|right; reflexivity].
    unfold v1_params at 1. cbn [lp_tag]. unfold v1_keys, v1_pre, local_hdr, take, drop.
    rewrite pae_hdr4. cbn [app]. rewrite beq_refl.
    unfold v1_params. cbn [lp_ks]. unfold ks_of, v1_keys, aes_ctr, aes256_ctr, ctr_w_rustcrypto, take, drop.
    rewrite xorl_length by (rewrite ctr_keystream_length by (intros; apply (aes256_len O L)); lia).
    rewrite xorl_involutive by (rewrite ctr_keystream_length by (intros; apply (aes256_len O L)); lia).
    reflexivity.
  Qed.

  (* signatures: the signed message is the specification's PAE, so deterministic signatures are
     byte-identical and randomised ones are over the same message *)
  Theorem v4_sign_is_spec seed m f a : v4_public_seal O seed [] m f a = Ok (spec_v4_sign O seed m f a).
  Proof. unfold v4_public_seal, v4_ppre, public_hdr, spec_v4_sign, spec_v4_sign_input. rewrite pae_hdr4. reflexivity. Qed.
  Theorem na_sign_is_spec seed m f a : na_public_seal O seed [] m f a = Ok (spec_v4_sign O seed m f a).
  Proof. unfold na_public_seal, v4_ppre, public_hdr, spec_v4_sign, spec_v4_sign_input. rewrite pae_hdr4. reflexivity. Qed.
  Theorem v2_sign_is_spec seed m f : v2_public_seal O seed [] m f [] = Ok (spec_v2_sign O seed m f).
  Proof. unfold v2_public_seal, v2_ppre, public_hdr, spec_v2_sign, spec_v2_sign_input. cbn [isnil negb]. rewrite pae_hdr3. reflexivity. Qed.
  Theorem v3_signed_message_is_spec pk m f a : v3_ppre pk [] m f a = spec_v3_sign_input pk m f a.
  Proof. unfold v3_ppre, public_hdr, spec_v3_sign_input. rewrite pae_pk_hdr5. reflexivity. Qed.
  Theorem v1_signed_message_is_spec m f : v1_ppre [] m f = spec_v1_sign_input m f.
  Proof. unfold v1_ppre, public_hdr, spec_v1_sign_input. rewrite pae_hdr3. reflexivity. Qed.
End Eq.

(* ---------- counter width ---------- *)

Lemma pow256_16 : (256 ^ N.of_nat 16 = 2 ^ 128)%N.
Proof. vm_compute. reflexivity. Qed.

(* A W-bit big-endian counter and the specification's 128-bit counter produce the same block as long as
   the low W bits do not wrap. *)
Lemma ctr_block_agree (W : N) (iv : bytes) (i : N) :
  length iv = 16 -> (W <= 128)%N -> (be_val iv mod 2 ^ W + i < 2 ^ W)%N ->
  ctr_block W iv i = ctr_block 128 iv i.
Proof.
  intros Hlen HW Hno. unfold ctr_block. f_equal.
  assert (Hv : (be_val iv < 2 ^ 128)%N).
  { unfold be_val. pose proof (le_val_bound (rev iv)) as Hb. rewrite rev_length, Hlen, pow256_16 in Hb. exact Hb. }
  set (v := be_val iv) in *. set (B := (2 ^ 128)%N) in *. set (m := (2 ^ W)%N) in *.
  assert (Hm : m <> 0%N) by (apply N.pow_nonzero; discriminate).
  assert (PB : B = (m * 2 ^ (128 - W))%N).
  { unfold B, m. rewrite <- N.pow_add_r. f_equal. lia. }
  pose proof (N.div_mod v m Hm) as E. pose proof (N.mod_upper_bound v m Hm) as Hr.
  set (q := (v / m)%N) in *. set (r := (v mod m)%N) in *.
  rewrite (N.mod_small (r + i) m) by exact Hno.
  rewrite (N.div_small v B) by exact Hv. rewrite (N.mod_small v B) by exact Hv.
  assert (Hq : (q < 2 ^ (128 - W))%N).
  { apply N.div_lt_upper_bound; [exact Hm|]. rewrite <- PB. exact Hv. }
  assert (Hle : (m * (q + 1) <= B)%N).
  { rewrite PB. apply N.mul_le_mono_l. lia. }
  rewrite N.mul_add_distr_l, N.mul_1_r in Hle.
  assert (Hs : (v + i < B)%N) by lia.
  rewrite (N.mod_small (v + i) B) by exact Hs.
  rewrite (N.mul_comm q m). lia.
Qed.

(* the defect repaired by "fix: use the full 128-bit counter": a 64-bit counter disagrees with the
   specification as soon as the low word wraps — second block of IV ff..ff *)
Lemma ctr64_refuted :
  exists iv i, length iv = 16 /\ ctr_block 64 iv i <> ctr_block 128 iv i.
Proof.
  exists (hex "ffffffffffffffffffffffffffffffff"), 1%N. split; [reflexivity|].
  vm_compute. discriminate.
Qed.
