(* TypeRulesProofs.v — C18: the obligations over the impl table regenerated from /repo (Gen/Impls.v).
   The operation domain is finite and enumerated by [all_ops]; each statement is decided by the kernel
   (vm_compute of a forallb) and lifted to the quantified form with forallb_forall.  They are re-checked on
   every run because Gen/Impls.v is regenerated on every run. *)
From Coq Require Import String List Bool.
From PV Require Import TypeRules.
From PV.Gen Require Import Impls.
Import ListNotations.
Set Default Timeout 300.

(* ---------- decided on the whole domain by computation ---------- *)

Lemma misuse_rejected_b :
  forallb (fun o => negb (misuse o) || negb (well_typed gen_table o)) all_ops = true.
Proof. vm_compute. reflexivity. Qed.

Lemma intended_accepted_b :
  forallb (fun o => negb (intended o) || well_typed gen_table o) all_ops = true.
Proof. vm_compute. reflexivity. Qed.

Lemma model_total_b :
  forallb (fun o => negb (model_error (check gen_table o))) all_ops = true.
Proof. vm_compute. reflexivity. Qed.

Lemma misuse_intended_disjoint_b :
  forallb (fun o => negb (misuse o && intended o)) all_ops = true.
Proof. vm_compute. reflexivity. Qed.

Lemma key_api_closed_holds : key_api_closed gen_table = true.
Proof. vm_compute. reflexivity. Qed.

Lemma markers_complete_holds : markers_complete gen_table = true.
Proof. vm_compute. reflexivity. Qed.

(* ---------- lifted ---------- *)

Theorem misuse_rejected :
  forall o, In o all_ops -> misuse o = true -> well_typed gen_table o = false.
Proof.
  intros o Hin Hm. pose proof misuse_rejected_b as H. rewrite forallb_forall in H.
  specialize (H o Hin). rewrite Hm in H. cbn [negb orb] in H. now apply negb_true_iff in H.
Qed.

Theorem intended_accepted :
  forall o, In o all_ops -> intended o = true -> well_typed gen_table o = true.
Proof.
  intros o Hin Hi. pose proof intended_accepted_b as H. rewrite forallb_forall in H.
  specialize (H o Hin). rewrite Hi in H. exact H.
Qed.

Theorem model_total :
  forall o, In o all_ops -> model_error (check gen_table o) = false.
Proof.
  intros o Hin. pose proof model_total_b as H. rewrite forallb_forall in H.
  specialize (H o Hin). now apply negb_true_iff in H.
Qed.

Theorem misuse_intended_disjoint :
  forall o, In o all_ops -> misuse o && intended o = false.
Proof.
  intros o Hin. pose proof misuse_intended_disjoint_b as H. rewrite forallb_forall in H.
  specialize (H o Hin). now apply negb_true_iff in H.
Qed.

(* ---------- the enumeration covers every operation that can be written ---------- *)

Lemma all_vers_complete v : In v all_vers.
Proof. destruct v; cbn; tauto. Qed.
Lemma all_kinds_complete k : In k all_kinds.
Proof. destruct k; cbn; tauto. Qed.
Lemma all_purposes_complete p : In p all_purposes.
Proof. destruct p; cbn; tauto. Qed.
Lemma all_seal_m_complete m : In m all_seal_m.
Proof. destruct m; cbn; tauto. Qed.
Lemma all_unseal_m_complete m : In m all_unseal_m.
Proof. destruct m; cbn; tauto. Qed.
Lemma all_trait_probes_complete t : In t all_trait_probes.
Proof. destruct t; cbn; tauto. Qed.

Lemma vk_pairs_complete {A} (f : ver -> kind -> A) v k : In (f v k) (vk_pairs f).
Proof.
  unfold vk_pairs. apply in_flat_map. exists v. split; [apply all_vers_complete|].
  apply in_map, all_kinds_complete.
Qed.
Lemma vp_pairs_complete {A} (f : ver -> purpose -> A) v p : In (f v p) (vp_pairs f).
Proof.
  unfold vp_pairs. apply in_flat_map. exists v. split; [apply all_vers_complete|].
  apply in_map, all_purposes_complete.
Qed.

Lemma all_subjects_complete s : In s all_subjects.
Proof.
  unfold all_subjects. rewrite !in_app_iff. destruct s.
  - left. apply vk_pairs_complete.
  - right; left. apply vk_pairs_complete.
  - right; right; left. apply vk_pairs_complete.
  - right; right; right; left. apply vp_pairs_complete.
  - right; right; right; right; left. apply vp_pairs_complete.
  - right; right; right; right; right; left. apply vk_pairs_complete.
  - right; right; right; right; right; right; left. apply vk_pairs_complete.
  - right; right; right; right; right; right; right. apply in_map, all_vers_complete.
Qed.

Ltac fm x H := apply in_flat_map; exists x; split; [apply H|].

(* every operation of the catalogue's grammar is enumerated; for field probes: every field in the probe list of
   its struct (the list is fixed in TypeRules.probe_fields) *)
Theorem all_ops_complete :
  forall o, match o with OField s f => In f (probe_fields s) | _ => True end -> In o all_ops.
Proof.
  intros o H. unfold all_ops. rewrite !in_app_iff. destruct o.
  - left. fm m all_seal_m_complete. fm vt all_vers_complete. fm p all_purposes_complete.
    fm vk all_vers_complete. apply in_map, all_kinds_complete.
  - right; left. fm m all_unseal_m_complete. fm vt all_vers_complete. fm p all_purposes_complete.
    fm vk all_vers_complete. apply in_map, all_kinds_complete.
  - right; right; left. fm vk all_vers_complete. fm k all_kinds_complete. fm vw all_vers_complete.
    apply in_map, all_kinds_complete.
  - right; right; right; left. fm vk all_vers_complete. fm k all_kinds_complete. fm vw all_vers_complete.
    apply in_map, all_kinds_complete.
  - right; right; right; right; left. apply vk_pairs_complete.
  - right; right; right; right; right; left. apply vk_pairs_complete.
  - right; right; right; right; right; right; left. fm vk all_vers_complete. fm k all_kinds_complete.
    fm vw all_vers_complete. apply in_map, all_kinds_complete.
  - right; right; right; right; right; right; right; left. fm v all_vers_complete. fm vw all_vers_complete.
    apply in_map, all_kinds_complete.
  - right; right; right; right; right; right; right; right; left. apply vk_pairs_complete.
  - right; right; right; right; right; right; right; right; right; left. apply vk_pairs_complete.
  - right; right; right; right; right; right; right; right; right; right; left. apply vk_pairs_complete.
  - right; right; right; right; right; right; right; right; right; right; right; left.
    fm tr all_trait_probes_complete. apply in_map, all_subjects_complete.
  - right; right; right; right; right; right; right; right; right; right; right; right; left.
    fm s all_subjects_complete. apply in_map, H.
  - right; right; right; right; right; right; right; right; right; right; right; right; right.
    fm v all_vers_complete. fm k1 all_kinds_complete. apply in_map, all_kinds_complete.
Qed.

(* ---------- examples (readable instances of the theorems) ---------- *)

Example sign_with_pke_secret_rejected :
  check gen_table (OSeal MSign V4 PPublic V4 PkeSecret) = Reject E0308.
Proof. vm_compute. reflexivity. Qed.
Example verify_on_encrypted_rejected :
  check gen_table (OUnseal MVerify V3 PLocal V3 Local) = Reject E0599.
Proof. vm_compute. reflexivity. Qed.
Example display_secret_key_rejected :
  check gen_table (OTrait TDisplay (SKey V2 Secret)) = Reject E0277.
Proof. vm_compute. reflexivity. Qed.
Example display_public_key_accepted :
  check gen_table (OTrait TDisplay (SKey V2 Public)) = Accept.
Proof. vm_compute. reflexivity. Qed.
Example key_field_private :
  check gen_table (OField (SKey V1 Local) "0") = Reject E0616.
Proof. vm_compute. reflexivity. Qed.
