(* Bytes.v — byte strings, byte <-> N, fixed-width integers, xor, list splitting.
   Model-level definitions and their basic lemmas (no property theorems here). *)
From Coq Require Export List NArith ZArith Lia Bool.
From Coq Require Export Strings.Byte.
From Coq Require Import ZifyBool ZifyN ZifyNat.
Export ListNotations.
From Coq Require Strings.String.
Export String.StringSyntax.
Ltac Zify.zify_post_hook ::= Z.div_mod_to_equations.

Arguments N.add : simpl never.
Arguments N.sub : simpl never.
Arguments N.mul : simpl never.
Arguments N.div : simpl never.
Arguments N.modulo : simpl never.
Arguments N.eqb : simpl never.
Arguments N.ltb : simpl never.
Arguments N.leb : simpl never.
Arguments N.pow : simpl never.

Definition bytes := list byte.

Definition b2n (b : byte) : N := Byte.to_N b.

Definition n2b (n : N) : byte :=
  match Byte.of_N (n mod 256) with Some b => b | None => x00 end.

Lemma b2n_lt b : (b2n b < 256)%N.
Proof. unfold b2n. pose proof (Byte.to_N_bounded b). lia. Qed.

Lemma n2b_b2n b : n2b (b2n b) = b.
Proof.
  unfold n2b, b2n. pose proof (Byte.to_N_bounded b) as H.
  rewrite N.mod_small by lia. now rewrite Byte.of_to_N.
Qed.

Lemma b2n_n2b n : b2n (n2b n) = (n mod 256)%N.
Proof.
  unfold n2b, b2n.
  destruct (Byte.of_N (n mod 256)) as [b|] eqn:E.
  - now apply Byte.to_of_N.
  - apply Byte.of_N_None_iff in E.
    pose proof (N.mod_upper_bound n 256). lia.
Qed.

Lemma b2n_inj a b : b2n a = b2n b -> a = b.
Proof. intro H. rewrite <- (n2b_b2n a), <- (n2b_b2n b). now rewrite H. Qed.

Lemma n2b_small_inj m n : (m < 256)%N -> (n < 256)%N -> n2b m = n2b n -> m = n.
Proof.
  intros Hm Hn H. apply (f_equal b2n) in H. rewrite !b2n_n2b in H.
  rewrite !N.mod_small in H by assumption. exact H.
Qed.

(* every byte, as a list: finite sweeps over bytes are [forallb] over this. *)
Definition all_bytes : list byte := map n2b (map N.of_nat (seq 0 256)).

Lemma all_bytes_complete b : In b all_bytes.
Proof.
  unfold all_bytes. rewrite <- (n2b_b2n b). apply in_map.
  replace (b2n b) with (N.of_nat (N.to_nat (b2n b))) by apply N2Nat.id.
  apply in_map. apply in_seq. pose proof (b2n_lt b). lia.
Qed.

Lemma forall_bytes (P : byte -> bool) :
  forallb P all_bytes = true -> forall b, P b = true.
Proof. intros H b. rewrite forallb_forall in H. apply H, all_bytes_complete. Qed.

(* ---------- byte equality on lists ---------- *)

Fixpoint beq (a b : bytes) : bool :=
  match a, b with
  | [], [] => true
  | x :: a', y :: b' => Byte.eqb x y && beq a' b'
  | _, _ => false
  end.

Lemma beq_eq a b : beq a b = true <-> a = b.
Proof.
  revert b; induction a as [|x a IH]; intros [|y b]; cbn [beq].
  - split; reflexivity.
  - split; discriminate.
  - split; discriminate.
  - rewrite andb_true_iff, IH. split.
    + intros [H1 H2]. apply Byte.byte_dec_bl in H1. congruence.
    + intros H. inversion H; subst. split; [apply Byte.byte_dec_lb|]; reflexivity.
Qed.

Lemma beq_refl a : beq a a = true.
Proof. now apply beq_eq. Qed.

Lemma beq_false a b : beq a b = false <-> a <> b.
Proof.
  split.
  - intros H E. apply beq_eq in E. congruence.
  - intros H. destruct (beq a b) eqn:E; [apply beq_eq in E; contradiction | reflexivity].
Qed.

Definition bytes_eq_dec (a b : bytes) : {a = b} + {a <> b} := list_eq_dec Byte.byte_eq_dec a b.

(* ---------- fixed-width integers ---------- *)

(* little-endian, exactly [w] bytes, of [n mod 256^w] *)
Fixpoint le_bytes (w : nat) (n : N) : bytes :=
  match w with
  | O => []
  | S w' => n2b n :: le_bytes w' (n / 256)
  end.

Fixpoint le_val (bs : bytes) : N :=
  match bs with
  | [] => 0
  | b :: r => b2n b + 256 * le_val r
  end.

Definition le64 (n : N) : bytes := le_bytes 8 n.

Lemma le_bytes_length w n : length (le_bytes w n) = w.
Proof. revert n; induction w as [|w IH]; intros n; cbn; [reflexivity | now rewrite IH]. Qed.

Lemma le_val_le_bytes w n : le_val (le_bytes w n) = (n mod 256 ^ N.of_nat w)%N.
Proof.
  revert n; induction w as [|w IH]; intros n.
  - cbn. now rewrite N.mod_1_r.
  - cbn [le_bytes le_val]. rewrite IH, b2n_n2b.
    replace (N.of_nat (S w)) with (N.succ (N.of_nat w)) by lia.
    rewrite N.pow_succ_r'.
    assert (Hp : (256 ^ N.of_nat w <> 0)%N) by (apply N.pow_nonzero; lia).
    rewrite N.mod_mul_r by lia. reflexivity.
Qed.

Lemma le_bytes_inj w m n :
  (m < 256 ^ N.of_nat w)%N -> (n < 256 ^ N.of_nat w)%N ->
  le_bytes w m = le_bytes w n -> m = n.
Proof.
  intros Hm Hn H. apply (f_equal le_val) in H. rewrite !le_val_le_bytes in H.
  rewrite !N.mod_small in H by assumption. exact H.
Qed.

(* big-endian *)
Definition be_bytes (w : nat) (n : N) : bytes := rev (le_bytes w n).
Definition be_val (bs : bytes) : N := le_val (rev bs).

Lemma be_bytes_length w n : length (be_bytes w n) = w.
Proof. unfold be_bytes. now rewrite rev_length, le_bytes_length. Qed.

Lemma be_val_be_bytes w n : be_val (be_bytes w n) = (n mod 256 ^ N.of_nat w)%N.
Proof. unfold be_val, be_bytes. now rewrite rev_involutive, le_val_le_bytes. Qed.

Lemma le_val_bound bs : (le_val bs < 256 ^ N.of_nat (length bs))%N.
Proof.
  induction bs as [|b r IH]; cbn [le_val length].
  - cbn. lia.
  - replace (N.of_nat (S (length r))) with (N.succ (N.of_nat (length r))) by lia.
    rewrite N.pow_succ_r'. pose proof (b2n_lt b). lia.
Qed.

Lemma le_bytes_le_val bs : le_bytes (length bs) (le_val bs) = bs.
Proof.
  induction bs as [|b r IH]; cbn [le_val length le_bytes]; [reflexivity|].
  pose proof (b2n_lt b) as Hb.
  f_equal.
  - rewrite <- (n2b_b2n b) at 2. unfold n2b at 1 2.
    replace ((b2n b + 256 * le_val r) mod 256)%N with (b2n b mod 256)%N by lia.
    reflexivity.
  - replace ((b2n b + 256 * le_val r) / 256)%N with (le_val r) by lia. exact IH.
Qed.

Lemma be_bytes_be_val bs : be_bytes (length bs) (be_val bs) = bs.
Proof.
  unfold be_bytes, be_val. rewrite <- (rev_length bs), le_bytes_le_val. apply rev_involutive.
Qed.

(* ---------- xor ---------- *)

Definition bxor (a b : byte) : byte := n2b (N.lxor (b2n a) (b2n b)).

Lemma lxor_lt_256 x y : (x < 256 -> y < 256 -> N.lxor x y < 256)%N.
Proof.
  intros Hx Hy.
  destruct (N.eq_dec (N.lxor x y) 0) as [->|Hz]; [lia|].
  apply N.log2_lt_pow2 with (b := 8%N); [lia|].
  eapply N.le_lt_trans; [apply N.log2_lxor|].
  apply N.max_lub_lt.
  - destruct (N.eq_dec x 0) as [->|]; [cbn; lia | apply N.log2_lt_pow2; lia].
  - destruct (N.eq_dec y 0) as [->|]; [cbn; lia | apply N.log2_lt_pow2; lia].
Qed.

Lemma b2n_bxor a b : b2n (bxor a b) = N.lxor (b2n a) (b2n b).
Proof.
  unfold bxor. rewrite b2n_n2b. apply N.mod_small.
  apply lxor_lt_256; apply b2n_lt.
Qed.

Lemma bxor_involutive a k : bxor (bxor a k) k = a.
Proof.
  apply b2n_inj. rewrite !b2n_bxor.
  rewrite N.lxor_assoc, N.lxor_nilpotent, N.lxor_0_r. reflexivity.
Qed.

Lemma bxor_comm a b : bxor a b = bxor b a.
Proof. apply b2n_inj. rewrite !b2n_bxor. apply N.lxor_comm. Qed.

(* xor a message with (a prefix of) a keystream; the keystream must be at least as long *)
Fixpoint xorl (m ks : bytes) : bytes :=
  match m, ks with
  | x :: m', k :: ks' => bxor x k :: xorl m' ks'
  | _, _ => []
  end.

Lemma xorl_length m ks : length m <= length ks -> length (xorl m ks) = length m.
Proof.
  revert ks; induction m as [|x m IH]; intros [|k ks] H; cbn in *; try lia.
  rewrite IH; lia.
Qed.

Lemma xorl_involutive m ks : length m <= length ks -> xorl (xorl m ks) ks = m.
Proof.
  revert ks; induction m as [|x m IH]; intros [|k ks] H; cbn in *; try lia; try reflexivity.
  rewrite bxor_involutive, IH by lia. reflexivity.
Qed.

(* ---------- splitting ---------- *)

Definition take (n : nat) (l : bytes) : bytes := firstn n l.
Definition drop (n : nat) (l : bytes) : bytes := skipn n l.

(* Rust: split_first_chunk::<n>() *)
Definition split_first (n : nat) (l : bytes) : option (bytes * bytes) :=
  if Nat.leb n (length l) then Some (firstn n l, skipn n l) else None.

(* Rust: split_last_chunk::<n>() *)
Definition split_last (n : nat) (l : bytes) : option (bytes * bytes) :=
  if Nat.leb n (length l)
  then Some (firstn (length l - n) l, skipn (length l - n) l) else None.

Lemma split_first_app a b : split_first (length a) (a ++ b) = Some (a, b).
Proof.
  unfold split_first. rewrite app_length.
  destruct (Nat.leb_spec (length a) (length a + length b)); [|lia].
  rewrite firstn_app, Nat.sub_diag, firstn_all, firstn_O, app_nil_r.
  rewrite skipn_app, Nat.sub_diag, skipn_all. reflexivity.
Qed.

Lemma split_last_app a b : split_last (length b) (a ++ b) = Some (a, b).
Proof.
  unfold split_last. rewrite app_length.
  destruct (Nat.leb_spec (length b) (length a + length b)); [|lia].
  replace (length a + length b - length b) with (length a) by lia.
  rewrite firstn_app, Nat.sub_diag, firstn_all, firstn_O, app_nil_r.
  rewrite skipn_app, Nat.sub_diag, skipn_all. reflexivity.
Qed.

Lemma split_first_spec n l a b :
  split_first n l = Some (a, b) -> l = a ++ b /\ length a = n.
Proof.
  unfold split_first. destruct (Nat.leb_spec n (length l)); [|discriminate].
  intros E; inversion E; subst. split; [symmetry; apply firstn_skipn|].
  apply firstn_length_le; assumption.
Qed.

Lemma split_last_spec n l a b :
  split_last n l = Some (a, b) -> l = a ++ b /\ length b = n.
Proof.
  unfold split_last. destruct (Nat.leb_spec n (length l)); [|discriminate].
  intros E; inversion E; subst. split; [symmetry; apply firstn_skipn|].
  rewrite skipn_length. lia.
Qed.

Lemma split_first_None n l : split_first n l = None <-> length l < n.
Proof. unfold split_first. destruct (Nat.leb_spec n (length l)); split; intros; try discriminate; try reflexivity; try lia; exfalso; lia. Qed.

Lemma split_last_None n l : split_last n l = None <-> length l < n.
Proof. unfold split_last. destruct (Nat.leb_spec n (length l)); split; intros; try discriminate; try reflexivity; try lia; exfalso; lia. Qed.

(* ASCII string literal -> bytes *)
Definition str (s : String.string) : bytes := String.list_byte_of_string s.

(* hex literal -> bytes (used by cases.v, the in-kernel re-evaluation of harness cases) *)
Definition hexval (b : byte) : N :=
  let n := b2n b in
  if ((48 <=? n) && (n <=? 57))%N then (n - 48)%N
  else if ((97 <=? n) && (n <=? 102))%N then (n - 87)%N else 0%N.

Fixpoint hex_bytes (l : bytes) : bytes :=
  match l with
  | a :: b :: r => n2b (16 * hexval a + hexval b) :: hex_bytes r
  | _ => []
  end.

Definition hex (s : String.string) : bytes := hex_bytes (str s).

(* is [p] a prefix of [l]?  returns the remainder (Rust: strip_prefix) *)
Fixpoint strip_prefix (p l : bytes) : option bytes :=
  match p, l with
  | [], _ => Some l
  | x :: p', y :: l' => if Byte.eqb x y then strip_prefix p' l' else None
  | _ :: _, [] => None
  end.

Lemma strip_prefix_app p l : strip_prefix p (p ++ l) = Some l.
Proof.
  induction p as [|x p IH]; cbn; [reflexivity|].
  rewrite (Byte.byte_dec_lb eq_refl). exact IH.
Qed.

Lemma strip_prefix_spec p l r : strip_prefix p l = Some r <-> l = p ++ r.
Proof.
  revert l; induction p as [|x p IH]; intros l; cbn.
  - split; congruence.
  - destruct l as [|y l]; [split; discriminate|].
    destruct (Byte.eqb x y) eqn:E.
    + apply Byte.byte_dec_bl in E; subst y. rewrite IH. split; congruence.
    + split; [discriminate|]. intros H; inversion H; subst.
      rewrite (Byte.byte_dec_lb eq_refl) in E. discriminate.
Qed.

(* ---------- minimal big-endian serialisation (BigUint::to_bytes_be, BN_bn2bin) ---------- *)
Fixpoint strip0 (l : bytes) : bytes :=
  match l with
  | b :: r => if N.eqb (b2n b) 0 then strip0 r else l
  | [] => []
  end.

(* BigUint::to_bytes_be: no leading zero bytes; zero is the single byte 00.
   Every integer this library serialises that way is below 2^4160 (RSA-4096 values), so stripping the
   520-byte fixed-width form is the minimal form. *)
Definition be_minimal (n : N) : bytes :=
  match strip0 (be_bytes 520 n) with
  | [] => [n2b 0]
  | l => l
  end.
