(* KeysProofs2.v — serialise-then-parse stability of keys, the PASERK text round trip, and the id statements
   of C13 in a form whose hypotheses are about SERIALISED bytes (what two backends can actually share), not
   about key objects (which differ between backends: ed25519-dalek keeps the seed, libsodium the 64 bytes).

   Replaces three statements an audit showed to be hollow: "same id if key_encode agrees" (unsatisfiable for
   v4 secret keys), "same id for inputs decoding to the same object" (true of any function), and the v3
   variant whose hypothesis carried all the content. *)
From Coq Require Import List NArith String Bool Lia Arith.
From PV Require Import Bytes Result Base64 Text TextProofs Oracle Keys KeysProofs.
Import ListNotations.
Local Open Scope list_scope.
Set Default Timeout 120.

Section K2.
  Variable O : oracle.
  Hypothesis L : laws O.
  Hypothesis Hnw : forall sd, ed_pk_weak (ed_pk O sd) = false.
  Hypothesis Htag : forall bs pk, p384_parse O bs = Some pk -> compressed_tag pk = true.

  (* every key object a decoder returns re-encodes, and the re-encoding decodes to the SAME object
     (serialise -> parse is the identity on accepted keys; hence so is clone -> serialise -> parse).
     v1 is excluded: there the object is whatever canonical DER the RSA parser returns, and "parsing canonical
     DER returns it unchanged" is a fact about that parser (checked by the correspondence, C08 / C13). *)
  Theorem key_reparse b k bs0 obj :
    b <> B1 -> key_decode O b k bs0 = Ok obj ->
    exists bs, key_encode O b k obj = Ok bs /\ key_decode O b k bs = Ok obj.
  Proof using L Hnw Htag.
    intros Hb H.
    destruct k, b; try (exfalso; apply Hb; reflexivity); cbn [key_decode key_encode] in *;
      try (exists obj; split; [reflexivity|];
           first [ apply local_decode_iff in H as [Hl ->]; apply local_decode_iff; auto
                 | apply dalek_public_decode_iff in H as (H1 & H2 & H3 & ->); apply dalek_public_decode_iff; auto
                 | apply na_public_decode_iff in H as (H1 & H2 & ->); apply na_public_decode_iff; auto
                 | apply na_secret_decode_iff in H as (H1 & H2 & ->); apply na_secret_decode_iff; auto
                 | apply (v3_public_decode_canonical O L Htag) in H as (_ & _ & H); exact H
                 | rewrite lc_v3_public_agree in *; apply (v3_public_decode_canonical O L Htag) in H as (_ & _ & H); exact H
                 | apply v3_secret_decode_iff in H as (H1 & H2 & ->); apply v3_secret_decode_iff; auto ]).
    (* dalek secret keys (k2, k4; secret and PKE secret), aws-lc scalars *)
    all: try (exists (dalek_encode_secret O obj); split; [reflexivity|]; eapply (dalek_secret_idempotent O L Hnw); exact H).
    all: apply lc_v3_secret_agree in H; pose proof H as H';
         apply v3_secret_decode_iff in H as (H1 & H2 & ->);
         exists bs0; split; [apply lc_encode_is_identity; exact H1|apply lc_v3_secret_agree; exact H'].
  Qed.

  (* ... so ids are stable across serialise / parse: the re-parsed key has the same id *)
  Theorem key_id_stable_across_serialisation b k bs0 obj bs obj' :
    b <> B1 -> key_decode O b k bs0 = Ok obj -> key_encode O b k obj = Ok bs -> key_decode O b k bs = Ok obj' ->
    obj' = obj /\ key_id O b k obj' = key_id O b k obj.
  Proof using L Hnw Htag.
    intros Hb H0 He Hd. destruct (key_reparse b k bs0 obj Hb H0) as (bs1 & He1 & Hd1).
    rewrite He in He1. inversion He1; subst bs1. rewrite Hd in Hd1. inversion Hd1; subst. split; reflexivity.
  Qed.

  (* the PASERK text of an accepted key parses back to the same key object *)
  Theorem key_text_roundtrip b k bs0 obj :
    b <> B1 -> key_decode O b k bs0 = Ok obj ->
    exists text, key_to_text O b k obj = Ok text /\ key_from_str O b k text = Ok obj.
  Proof using L Hnw Htag.
    intros Hb H0. destruct (key_reparse b k bs0 obj Hb H0) as (bs & He & Hd).
    exists (print_paserk (paserk_ver b) (kind_hdr k) bs). unfold key_to_text, key_from_str. rewrite He. cbn [bind].
    split; [reflexivity|]. rewrite paserk_parse_print. cbn [bind]. exact Hd.
  Qed.

  (* ---- the two backends of a version give one id to one serialised key ---- *)
  Lemma key_id_of_encoding b b' k o o' bs :
    paserk_ver b = paserk_ver b' -> hash33 O b = hash33 O b' ->
    key_encode O b k o = Ok bs -> key_encode O b' k o' = Ok bs -> key_id O b k o = key_id O b' k o'.
  Proof using. clear L Hnw Htag.
    intros Hv Hh E1 E2. unfold key_id, key_to_text. rewrite E1, E2, Hv, Hh. reflexivity.
  Qed.

  Theorem v4_backends_same_id bs k o1 o2 :
    key_decode O B4 k bs = Ok o1 -> key_decode O B4S k bs = Ok o2 -> key_id O B4 k o1 = key_id O B4S k o2.
  Proof using. clear L Hnw Htag.
    intros H1 H2. apply (key_id_of_encoding B4 B4S k o1 o2 bs); try reflexivity;
    destruct k; cbn [key_decode key_encode] in *;
      try (apply local_decode_iff in H1 as [_ ->]; reflexivity);
      try (apply local_decode_iff in H2 as [_ ->]; reflexivity);
      try (apply dalek_public_decode_iff in H1 as (_ & _ & _ & ->); reflexivity);
      try (apply na_public_decode_iff in H2 as (_ & _ & ->); reflexivity);
      try (apply dalek_secret_decode_canonical in H1 as (_ & -> & _); reflexivity);
      try (apply na_secret_decode_iff in H2 as (_ & _ & ->); reflexivity).
  Qed.

  Theorem v3_backends_same_id bs k o1 o2 :
    key_decode O B3 k bs = Ok o1 -> key_decode O B3A k bs = Ok o2 -> key_id O B3 k o1 = key_id O B3A k o2.
  Proof using. clear L Hnw Htag.
    intros H1 H2.
    assert (E : o2 = o1 /\ key_encode O B3 k o1 = Ok o1 /\ key_encode O B3A k o1 = Ok o1).
    { destruct k; cbn [key_decode key_encode] in *.
      - rewrite H1 in H2. inversion H2. auto.
      - rewrite lc_v3_public_agree in H2. rewrite H1 in H2. inversion H2. auto.
      - apply lc_v3_secret_agree in H2. rewrite H1 in H2. inversion H2; subst o2.
        apply v3_secret_decode_iff in H1 as (Hl & _ & ->). repeat split. apply lc_encode_is_identity. exact Hl.
      - rewrite lc_v3_public_agree in H2. rewrite H1 in H2. inversion H2. auto.
      - apply lc_v3_secret_agree in H2. rewrite H1 in H2. inversion H2; subst o2.
        apply v3_secret_decode_iff in H1 as (Hl & _ & ->). repeat split. apply lc_encode_is_identity. exact Hl. }
    destruct E as (-> & E1 & E2). apply (key_id_of_encoding B3 B3A k o1 o1 o1); try reflexivity; assumption.
  Qed.
End K2.

(* ---- exact lengths: whatever a decoder accepts has exactly the length of the requested kind (v1 keys are
        DER of variable length and excluded) ---- *)
Definition klen (b : backend) (k : kind) : nat :=
  match k, b with
  | KLocal, _ => 32
  | (KPublic | KPkePublic), (B2 | B4 | B4S) => 32
  | (KSecret | KPkeSecret), (B2 | B4 | B4S) => 64
  | (KPublic | KPkePublic), (B3 | B3A) => 49
  | (KSecret | KPkeSecret), (B3 | B3A) => 48
  | _, B1 => 0
  end.

Theorem key_exact_length O b k bs obj :
  b <> B1 \/ k = KLocal -> key_decode O b k bs = Ok obj -> length bs = klen b k.
Proof.
  intros Hb H.
  assert (HL : forall bs obj, decode_local bs = Ok obj -> length bs = 32).
  { intros bs0 obj0 H0. apply (local_decode_iff bs0 obj0) in H0. tauto. }
  assert (HDP : forall bs obj, dalek_decode_public O bs = Ok obj -> length bs = 32).
  { intros bs0 obj0 H0. apply (dalek_public_decode_iff O bs0 obj0) in H0. tauto. }
  assert (HDS : forall bs obj, dalek_decode_secret O bs = Ok obj -> length bs = 64).
  { intros bs0 obj0 H0. apply (dalek_secret_decode_canonical O bs0 obj0) in H0. tauto. }
  assert (HNP : forall bs obj, na_decode_public bs = Ok obj -> length bs = 32).
  { intros bs0 obj0 H0. apply (na_public_decode_iff bs0 obj0) in H0. tauto. }
  assert (HNS : forall bs obj, na_decode_secret O bs = Ok obj -> length bs = 64).
  { intros bs0 obj0 H0. apply (na_secret_decode_iff O bs0 obj0) in H0. tauto. }
  assert (H3S : forall bs obj, v3_decode_secret O bs = Ok obj -> length bs = 48).
  { intros bs0 obj0 H0. apply (v3_secret_decode_iff O bs0 obj0) in H0. tauto. }
  assert (H3P : forall bs obj, v3_decode_public O bs = Ok obj -> length bs = 49).
  { intros bs0 obj0 H0. destruct (Nat.eq_dec (length bs0) 49) as [E|E]; [exact E|].
    rewrite (v3_public_wrong_length O bs0 E) in H0. discriminate. }
  assert (HLS : forall bs obj, lc_decode_secret O bs = Ok obj -> length bs = 48).
  { intros bs0 obj0 H0. apply (lc_v3_secret_agree O bs0 obj0) in H0. eauto. }
  assert (HLP : forall bs obj, lc_decode_public O bs = Ok obj -> length bs = 49).
  { intros bs0 obj0 H0. rewrite (lc_v3_public_agree O bs0) in H0. eauto. }
  destruct k, b; cbn [key_decode klen] in *; eauto;
    destruct Hb as [Hb|Hb]; try congruence; try discriminate.
Qed.

