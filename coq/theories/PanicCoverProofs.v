(* PanicCoverProofs.v — obligation over the regenerated inventory Gen/PanicSites.v: every panicking construct
   in the library sources is in the reviewed cover (same file, function and kind, no more occurrences than
   reviewed). *)
From Coq Require Import List String NArith Bool.
From PV Require Import PanicCover.
From PV.Gen Require Import PanicSites.
Import ListNotations.
Local Open Scope string_scope.

Definition covers (site : string * string * string * N) (c : string * string * string * N * reason * string) : bool :=
  let '(f, fn, k, n) := site in
  let '(f', fn', k', n', _, _) := c in
  String.eqb f f' && String.eqb fn fn' && String.eqb k k' && N.leb n n'.

Definition all_covered : bool := forallb (fun s => existsb (covers s) panic_cover) gen_panic_sites.

Definition out_of_scope_sites : list (string * string) :=
  map (fun c => let '(f, fn, _, _, _, _) := c in (f, fn))
      (filter (fun c => let '(_, _, _, _, r, _) := c in match r with OutOfScope => true | _ => false end) panic_cover).

Lemma inventory_covered : all_covered = true.
Proof. vm_compute. reflexivity. Qed.

Lemma inventory_covered_forall : forall s, In s gen_panic_sites -> exists c, In c panic_cover /\ covers s c = true.
Proof.
  intros s H. pose proof inventory_covered as A. unfold all_covered in A. rewrite forallb_forall in A.
  specialize (A s H). apply existsb_exists in A. exact A.
Qed.

(* the only constructs left reachable are the two documented ones behind dangerous_seal_with_nonce *)
Lemma out_of_scope_is_dangerous_only :
  forallb (fun p => String.eqb (snd p) "dangerous_seal_with_nonce") out_of_scope_sites = true.
Proof. vm_compute. reflexivity. Qed.
