(* what out/cases_C19.v (kernel cross-check of the harness' model verdicts) needs in scope *)
From Coq Require Export String List Bool.
From PV Require Export FeatureRules.
From PV.Gen Require Export Features.
Export ListNotations.
Global Open Scope string_scope.
Global Open Scope list_scope.
