(* Pae.v — model of paseto-core/src/pae.rs and the specification's PAE.

   Rust:
     pub fn pre_auth_encode<const N: usize>(pieces: [&[&[u8]]; N], mut out: impl WriteBytes) {
         let len = N as u64;
         out.write(&len.to_le_bytes());
         for piece in pieces {
             let len: u64 = piece.iter().map(|x| x.len() as u64).sum();
             out.write(&len.to_le_bytes());
             for x in piece { out.write(x); }
         }
     }
   A piece is a list of fragments; the writer receives a sequence of [write] calls. *)
From PV Require Import Bytes.

Definition piece := list bytes.            (* fragments of one piece *)

Definition frag_total (p : piece) : N :=
  fold_right (fun x acc => (N.of_nat (length x) + acc)%N) 0%N p.

(* the sequence of write calls issued by the Rust loop *)
Definition pae_piece_writes (p : piece) : list bytes := le64 (frag_total p) :: p.

Definition pae_writes (pieces : list piece) : list bytes :=
  le64 (N.of_nat (length pieces)) :: flat_map pae_piece_writes pieces.

(* what a buffer (Vec<u8>) or a streaming digest sees *)
Definition pae (pieces : list piece) : bytes := concat (pae_writes pieces).

(* ---- the specification's PAE over whole pieces (PASETO Common.md) ---- *)
Definition pae_spec_piece (p : bytes) : bytes := le64 (N.of_nat (length p)) ++ p.

Definition pae_spec (ps : list bytes) : bytes :=
  le64 (N.of_nat (length ps)) ++ flat_map pae_spec_piece ps.

(* ---- a total decoder, used to state injectivity and prefix-freeness ---- *)
Fixpoint unpae_pieces (n : nat) (s : bytes) : option (list bytes * bytes) :=
  match n with
  | O => Some ([], s)
  | S n' =>
      match split_first 8 s with
      | None => None
      | Some (lenb, rest) =>
          match split_first (N.to_nat (le_val lenb)) rest with
          | None => None
          | Some (p, rest') =>
              match unpae_pieces n' rest' with
              | None => None
              | Some (ps, r) => Some (p :: ps, r)
              end
          end
      end
  end.

Definition unpae (s : bytes) : option (list bytes * bytes) :=
  match split_first 8 s with
  | None => None
  | Some (cnt, rest) => unpae_pieces (N.to_nat (le_val cnt)) rest
  end.
