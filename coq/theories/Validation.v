(* Validation.v — model of paseto-core/src/validation.rs (combinators) and of the built-in claim
   validators of paseto-json/src/lib.rs.  Timestamps are nanoseconds since the epoch (Z);
   [now ± leeway] is jiff's checked arithmetic: outside [ts_min, ts_max] the operator panics. *)
From PV Require Import Bytes Result.
Local Open Scope Z_scope.

Record claims : Type := {
  iss : option bytes; sub : option bytes; aud : option bytes;
  exp : option Z; nbf : option Z; iat : option Z;
  jti : option bytes
}.

(* jiff::Timestamp::MIN / MAX in nanoseconds (pinned against the library by the harness on every run) *)
Definition ts_min : Z := -377705023201 * 1000000000.
Definition ts_max : Z := 253402207200 * 1000000000 + 999999999.
Definition ts_ok (t : Z) : bool := (ts_min <=? t) && (t <=? ts_max).

(* the projections used with Validate::map in the correspondence (pure functions of the claims) *)
Definition transform (k : nat) (c : claims) : claims :=
  match k with
  | O => c
  | S O => {| iss := iss c; sub := sub c; aud := aud c; exp := None; nbf := nbf c; iat := iat c; jti := jti c |}
  | _ => {| iss := sub c; sub := iss c; aud := aud c; exp := exp c; nbf := nbf c; iat := iat c; jti := jti c |}
  end.

Inductive validator : Type :=
| VTime (now : Z)
| VTimeLeeway (now leeway : Z)
| VHasExpiry
| VForSubject (s : bytes)
| VFromIssuer (s : bytes)
| VForAudience (s : bytes)
| VNoValidation
| VAndThen (a b : validator)
| VSlice (l : list validator)
| VVec (l : list validator)
| VBox (v : validator)
| VRc (v : validator)
| VArc (v : validator)
| VMap (k : nat) (v : validator).

Definition opt_bytes_is (o : option bytes) (s : bytes) : bool :=
  match o with Some b => beq b s | None => false end.

Definition check (b : bool) : result unit := if b then Ok tt else Err ClaimsError.

Fixpoint validate (v : validator) (c : claims) : result unit :=
  match v with
  | VTime now =>
      _ <- match exp c with Some e => check (negb (e <? now)) | None => Ok tt end ;;
      match nbf c with Some n => check (negb (now <? n)) | None => Ok tt end
  | VTimeLeeway now leeway =>
      _ <- match exp c with
           | Some e => if ts_ok (now - leeway) then check (negb (e <? now - leeway))
                       else Panic "jiff: Timestamp - Duration overflowed"
           | None => Ok tt
           end ;;
      match nbf c with
      | Some n => if ts_ok (now + leeway) then check (negb (now + leeway <? n))
                  else Panic "jiff: Timestamp + Duration overflowed"
      | None => Ok tt
      end
  | VHasExpiry => check (match exp c with Some _ => true | None => false end)
  | VForSubject s => check (opt_bytes_is (sub c) s)
  | VFromIssuer s => check (opt_bytes_is (iss c) s)
  | VForAudience s => check (opt_bytes_is (aud c) s)
  | VNoValidation => Ok tt
  | VAndThen a b => _ <- validate a c ;; validate b c
  | VSlice l | VVec l =>
      (fix go (l : list validator) : result unit :=
         match l with
         | [] => Ok tt
         | x :: r => _ <- validate x c ;; go r
         end) l
  | VBox v | VRc v | VArc v => validate v c
  | VMap k v => validate v (transform k c)
  end.

Definition validate_all (l : list validator) (c : claims) : result unit :=
  (fix go (l : list validator) : result unit :=
     match l with
     | [] => Ok tt
     | x :: r => _ <- validate x c ;; go r
     end) l.
