(* ClaimsProofs.v — C14: the hand-written RegisteredClaims serializer / visitor round-trip exactly,
   ignore unknown members and member order, agree with a last-wins generic reader whenever they
   succeed, and reject duplicates exactly as written (a value, then anything under the same name).

   Proof architecture: the visitor is decomposed into seven independent "slot machines".  For a
   field f, [values_of (key_of f) ms] is the sequence of values the member list offers under f's name
   (text order, duplicates kept) and [slot_run f None vs] runs f's slot over it.  The central lemma
   [visit_ok] says   visit ms = Ok c  <->  every slot run succeeds with c's field.
   Because every decoding error is the same PayloadError, [visit] is a function of those seven
   projections ([visit_congr]); unknown members, reordering and the duplicate rule all follow. *)
From PV Require Import Bytes Result Validation Claims.
From Coq Require Import Permutation.
Local Open Scope Z_scope.
Set Default Timeout 60.

(* ------------------------------------------------------------------ keys *)

Lemma key_of_inj f g : key_of f = key_of g -> f = g.
Proof. destruct f, g; intros H; try reflexivity; vm_compute in H; discriminate. Qed.

Lemma field_of_key_key f : field_of_key (key_of f) = Some f.
Proof. destruct f; vm_compute; reflexivity. Qed.

Lemma field_of_key_spec k :
  match field_of_key k with Some f => k = key_of f | None => forall f, k <> key_of f end.
Proof.
  unfold field_of_key.
  destruct (beq k k_iss) eqn:E1; [apply beq_eq in E1; exact E1|].
  destruct (beq k k_sub) eqn:E2; [apply beq_eq in E2; exact E2|].
  destruct (beq k k_aud) eqn:E3; [apply beq_eq in E3; exact E3|].
  destruct (beq k k_exp) eqn:E4; [apply beq_eq in E4; exact E4|].
  destruct (beq k k_nbf) eqn:E5; [apply beq_eq in E5; exact E5|].
  destruct (beq k k_iat) eqn:E6; [apply beq_eq in E6; exact E6|].
  destruct (beq k k_jti) eqn:E7; [apply beq_eq in E7; exact E7|].
  intros f; destruct f; cbn [key_of]; apply beq_false; assumption.
Qed.

Lemma field_of_key_some k f : field_of_key k = Some f -> k = key_of f.
Proof. intros H. pose proof (field_of_key_spec k) as S. rewrite H in S. exact S. Qed.

Lemma field_of_key_none k : field_of_key k = None -> forall f, k <> key_of f.
Proof. intros H. pose proof (field_of_key_spec k) as S. rewrite H in S. exact S. Qed.

Definition field_eq_dec (f g : field) : {f = g} + {f <> g}.
Proof. decide equality. Defined.

(* ------------------------------------------------------------------ typed slots *)

Definition ftype (f : field) : Type :=
  match f with FIss | FSub | FAud | FJti => bytes | FExp | FNbf | FIat => Z end.

Definition slot_get (f : field) : claims -> option (ftype f) :=
  match f return claims -> option (ftype f) with
  | FIss => iss | FSub => sub | FAud => aud
  | FExp => exp | FNbf => nbf | FIat => iat | FJti => jti
  end.

Definition slot_set (f : field) : option (ftype f) -> claims -> claims :=
  match f return option (ftype f) -> claims -> claims with
  | FIss => fun x a => {| iss := x; sub := sub a; aud := aud a; exp := exp a; nbf := nbf a; iat := iat a; jti := jti a |}
  | FSub => fun x a => {| iss := iss a; sub := x; aud := aud a; exp := exp a; nbf := nbf a; iat := iat a; jti := jti a |}
  | FAud => fun x a => {| iss := iss a; sub := sub a; aud := x; exp := exp a; nbf := nbf a; iat := iat a; jti := jti a |}
  | FExp => fun x a => {| iss := iss a; sub := sub a; aud := aud a; exp := x; nbf := nbf a; iat := iat a; jti := jti a |}
  | FNbf => fun x a => {| iss := iss a; sub := sub a; aud := aud a; exp := exp a; nbf := x; iat := iat a; jti := jti a |}
  | FIat => fun x a => {| iss := iss a; sub := sub a; aud := aud a; exp := exp a; nbf := nbf a; iat := x; jti := jti a |}
  | FJti => fun x a => {| iss := iss a; sub := sub a; aud := aud a; exp := exp a; nbf := nbf a; iat := iat a; jti := x |}
  end.

Lemma get_set_same f x a : slot_get f (slot_set f x a) = x.
Proof. destruct f; reflexivity. Qed.

Lemma get_set_other f g x a : f <> g -> slot_get g (slot_set f x a) = slot_get g a.
Proof. destruct f, g; intros H; try congruence; reflexivity. Qed.

Lemma get_empty f : slot_get f empty_claims = None.
Proof. destruct f; reflexivity. Qed.

Lemma claims_ext c c' : (forall f, slot_get f c = slot_get f c') -> c = c'.
Proof.
  intros H.
  pose proof (H FIss) as H1. pose proof (H FSub) as H2. pose proof (H FAud) as H3.
  pose proof (H FExp) as H4. pose proof (H FNbf) as H5. pose proof (H FIat) as H6.
  pose proof (H FJti) as H7.
  destruct c, c'. cbn in *. congruence.
Qed.

(* the values a member list offers under one name: text order, duplicates kept *)
Definition values_of (k : bytes) (ms : list member) : list jvalue :=
  map snd (filter (fun kv : member => beq (fst kv) k) ms).

Lemma values_of_cons_same k v r : values_of k ((k, v) :: r) = v :: values_of k r.
Proof. unfold values_of. cbn [filter fst]. rewrite beq_refl. reflexivity. Qed.

Lemma values_of_cons_other k k' v r : k' <> k -> values_of k ((k', v) :: r) = values_of k r.
Proof.
  intros H. unfold values_of. cbn [filter fst].
  apply beq_false in H. rewrite H. reflexivity.
Qed.

Lemma values_of_app k a b : values_of k (a ++ b) = values_of k a ++ values_of k b.
Proof. unfold values_of. rewrite filter_app, map_app. reflexivity. Qed.

(* last element *)
Fixpoint last_opt {A} (l : list A) : option A :=
  match l with
  | [] => None
  | x :: r => match last_opt r with Some y => Some y | None => Some x end
  end.

Lemma last_value_fold k ms acc :
  fold_left (fun a (kv : member) => if beq (fst kv) k then Some (snd kv) else a) ms acc =
  match last_opt (values_of k ms) with Some y => Some y | None => acc end.
Proof.
  revert acc; induction ms as [|[k' v] r IH]; intros acc; [reflexivity|].
  cbn [fold_left fst snd]. rewrite IH.
  destruct (beq k' k) eqn:E.
  - apply beq_eq in E; subst k'. rewrite values_of_cons_same. cbn [last_opt].
    destruct (last_opt (values_of k r)); reflexivity.
  - apply beq_false in E. rewrite values_of_cons_other by exact E. reflexivity.
Qed.

(* the generic reader's value for a name is the last value offered under it *)
Lemma last_value_values k ms : last_value k ms = last_opt (values_of k ms).
Proof.
  unfold last_value. rewrite last_value_fold.
  destruct (last_opt (values_of k ms)); reflexivity.
Qed.

Section Proofs.
  Variable fmt_ts : Z -> bytes.
  Variable parse_ts : bytes -> option Z.

  Notation step := (step parse_ts).
  Notation visit_from := (visit_from parse_ts).
  Notation visit := (visit parse_ts).
  Notation members_of := (members_of fmt_ts).
  Notation next_ts := (next_ts parse_ts).

  (* next_value::<Option<T>> of field f *)
  Definition rd (f : field) : jvalue -> result (option (ftype f)) :=
    match f return jvalue -> result (option (ftype f)) with
    | FIss => next_str | FSub => next_str | FAud => next_str
    | FExp => next_ts | FNbf => next_ts | FIat => next_ts
    | FJti => next_str
    end.

  (* the JSON value written for a present field *)
  Definition enc (f : field) : ftype f -> jvalue :=
    match f return ftype f -> jvalue with
    | FIss => JStr | FSub => JStr | FAud => JStr
    | FExp => ts_value fmt_ts | FNbf => ts_value fmt_ts | FIat => ts_value fmt_ts
    | FJti => JStr
    end.

  Lemma rd_cases f v : (exists x, rd f v = Ok x) \/ rd f v = Err PayloadError.
  Proof.
    destruct f, v; cbn; eauto; destruct (parse_ts s); eauto.
  Qed.

  Lemma rd_null f : rd f JNull = Ok None.
  Proof. destruct f; reflexivity. Qed.

  Lemma rd_none_is_null f v : rd f v = Ok None -> v = JNull.
  Proof.
    destruct f, v; cbn; intros H; try discriminate; try reflexivity;
      destruct (parse_ts s); discriminate.
  Qed.

  (* a value accepted into a slot is a string (for time fields: one jiff parses) *)
  Lemma rd_some_is_str f v a : rd f v = Ok (Some a) -> exists s, v = JStr s.
  Proof. destruct f, v; cbn; intros H; try discriminate; eauto. Qed.

  (* one slot, run over the values offered under its name.  None = the visitor fails. *)
  Fixpoint slot_run (f : field) (cur : option (ftype f)) (vs : list jvalue) : option (option (ftype f)) :=
    match vs with
    | [] => Some cur
    | v :: r =>
        match cur with
        | Some _ => None                               (* duplicate_field *)
        | None => match rd f v with Ok x => slot_run f x r | _ => None end
        end
    end.

  Lemma step_field a k v f :
    field_of_key k = Some f ->
    step a (k, v) =
    match slot_get f a with
    | Some _ => Err PayloadError
    | None => x <- rd f v ;; Ok (slot_set f x a)
    end.
  Proof. intros H. unfold Claims.step. cbn [fst snd]. rewrite H. destruct f; reflexivity. Qed.

  Lemma step_ignored a k v : field_of_key k = None -> step a (k, v) = Ok a.
  Proof. intros H. unfold Claims.step. cbn [fst snd]. rewrite H. reflexivity. Qed.

  (* the visitor never panics and fails only with PayloadError *)
  Lemma visit_from_total a ms :
    (exists c, visit_from a ms = Ok c) \/ visit_from a ms = Err PayloadError.
  Proof.
    revert a; induction ms as [|[k v] r IH]; intros a; cbn [Claims.visit_from]; [eauto|].
    destruct (field_of_key k) as [f|] eqn:Hk.
    - rewrite (step_field a k v f Hk).
      destruct (slot_get f a); [right; reflexivity|].
      destruct (rd_cases f v) as [[x ->] | ->]; cbn [bind]; auto.
    - rewrite (step_ignored a k v Hk). cbn [bind]. apply IH.
  Qed.

  Lemma visit_total ms : (exists c, visit ms = Ok c) \/ visit ms = Err PayloadError.
  Proof. apply visit_from_total. Qed.

  (* ---------------- the decomposition ---------------- *)
  Lemma visit_from_ok a ms c :
    visit_from a ms = Ok c <->
    forall f, slot_run f (slot_get f a) (values_of (key_of f) ms) = Some (slot_get f c).
  Proof.
    revert a; induction ms as [|[k v] r IH]; intros a.
    - cbn [Claims.visit_from]. split.
      + intros H f. inversion H; subst. reflexivity.
      + intros H. f_equal. apply claims_ext. intros f. specialize (H f).
        cbn in H. congruence.
    - cbn [Claims.visit_from].
      destruct (field_of_key k) as [f0|] eqn:Hk.
      + pose proof (field_of_key_some k f0 Hk) as Ek. subst k.
        rewrite (step_field a _ v f0 Hk).
        split.
        * intros H. destruct (slot_get f0 a) eqn:Hg; [discriminate|].
          destruct (rd f0 v) as [x| |] eqn:Hr; cbn [bind] in H; try discriminate.
          pose proof (proj1 (IH _) H) as H'. clear H. rename H' into H. intros f. destruct (field_eq_dec f f0) as [->|Hne].
          -- rewrite values_of_cons_same. cbn [slot_run]. rewrite Hg, Hr.
             specialize (H f0). rewrite get_set_same in H. exact H.
          -- rewrite values_of_cons_other
               by (intros E; apply key_of_inj in E; congruence).
             specialize (H f). rewrite get_set_other in H by congruence. exact H.
        * intros H. pose proof (H f0) as H0. rewrite values_of_cons_same in H0.
          cbn [slot_run] in H0.
          destruct (slot_get f0 a) eqn:Hg; [discriminate|].
          destruct (rd f0 v) as [x| |] eqn:Hr; try discriminate.
          cbn [bind]. apply (proj2 (IH _)). intros f. destruct (field_eq_dec f f0) as [->|Hne].
          -- rewrite get_set_same. exact H0.
          -- rewrite get_set_other by congruence. specialize (H f).
             rewrite values_of_cons_other in H
               by (intros E; apply key_of_inj in E; congruence).
             exact H.
      + rewrite (step_ignored a k v Hk). cbn [bind]. rewrite IH.
        pose proof (field_of_key_none k Hk) as Hs.
        split; intros H f; specialize (H f).
        * rewrite values_of_cons_other by apply Hs. exact H.
        * rewrite values_of_cons_other in H by apply Hs. exact H.
  Qed.

  Theorem visit_ok ms c :
    visit ms = Ok c <->
    forall f, slot_run f None (values_of (key_of f) ms) = Some (slot_get f c).
  Proof.
    unfold Claims.visit. rewrite visit_from_ok.
    split; intros H f; specialize (H f); rewrite get_empty in *; exact H.
  Qed.

  (* visit is a function of the seven per-name value sequences *)
  Theorem visit_congr ms ms' :
    (forall f, slot_run f None (values_of (key_of f) ms) = slot_run f None (values_of (key_of f) ms')) ->
    visit ms = visit ms'.
  Proof.
    intros H.
    destruct (visit_total ms) as [[c Hc] | He].
    - rewrite Hc. symmetry. apply visit_ok. intros f. rewrite <- H.
      apply visit_ok. exact Hc.
    - destruct (visit_total ms') as [[c' Hc'] | He'].
      + assert (visit ms = Ok c') as E.
        { apply visit_ok. intros f. rewrite H. apply visit_ok. exact Hc'. }
        congruence.
      + congruence.
  Qed.

  Corollary visit_congr_values ms ms' :
    (forall f, values_of (key_of f) ms = values_of (key_of f) ms') -> visit ms = visit ms'.
  Proof. intros H. apply visit_congr. intros f. rewrite H. reflexivity. Qed.

  (* ---------------- slot machine facts ---------------- *)
  Lemma slot_run_app f cur a b :
    slot_run f cur (a ++ b) =
    match slot_run f cur a with Some x => slot_run f x b | None => None end.
  Proof.
    revert cur; induction a as [|v a IH]; intros cur; cbn [app slot_run]; [reflexivity|].
    destruct cur; [reflexivity|]. destruct (rd f v); try reflexivity. apply IH.
  Qed.

  Lemma slot_run_full f y l z : slot_run f (Some y) l = Some z -> l = [].
  Proof. destruct l; cbn; [reflexivity | discriminate]. Qed.

  Lemma slot_run_nulls f vs : Forall (eq JNull) vs -> slot_run f None vs = Some None.
  Proof.
    induction 1 as [|v r Hv _ IH]; cbn [slot_run]; [reflexivity|].
    subst v. rewrite rd_null. exact IH.
  Qed.

  (* exactly which value sequences a slot accepts, and with what result:
     any number of nulls, then at most one well-typed value, then nothing *)
  Inductive slot_accepts (f : field) : list jvalue -> option (ftype f) -> Prop :=
  | acc_absent vs : Forall (eq JNull) vs -> slot_accepts f vs None
  | acc_value pre v a :
      Forall (eq JNull) pre -> rd f v = Ok (Some a) -> slot_accepts f (pre ++ [v]) (Some a).

  Lemma slot_accepts_cons_null f vs x : slot_accepts f vs x -> slot_accepts f (JNull :: vs) x.
  Proof.
    intros H. destruct H as [vs H | pre v a H Hr].
    - apply acc_absent. constructor; [reflexivity | exact H].
    - change (JNull :: pre ++ [v]) with ((JNull :: pre) ++ [v]).
      apply acc_value; [constructor; [reflexivity | exact H] | exact Hr].
  Qed.

  Lemma slot_run_accepts f vs x : slot_run f None vs = Some x <-> slot_accepts f vs x.
  Proof.
    split.
    - revert x; induction vs as [|v r IH]; intros x H; cbn [slot_run] in H.
      + inversion H; subst. apply acc_absent. constructor.
      + destruct (rd f v) as [[y|]| |] eqn:Hr; try discriminate.
        * pose proof (slot_run_full f y r x H) as ->. cbn [slot_run] in H.
          inversion H; subst. apply (acc_value f [] v y); [constructor | exact Hr].
        * apply rd_none_is_null in Hr. subst v. apply slot_accepts_cons_null.
          apply IH. exact H.
    - intros H. destruct H as [vs H | pre v a H Hr].
      + apply slot_run_nulls. exact H.
      + rewrite slot_run_app, (slot_run_nulls f pre H). cbn [slot_run]. rewrite Hr. reflexivity.
  Qed.

  (* ================================================================ (a) round trip *)

  Lemma values_of_members_of f c :
    values_of (key_of f) (members_of c) =
    match slot_get f c with Some x => [enc f x] | None => [] end.
  Proof.
    destruct c as [[i|] [s|] [a|] [e|] [n|] [t|] [j|]]; destruct f; reflexivity.
  Qed.

  (* timestamps inside jiff's range, the only ones a RegisteredClaims value can hold *)
  Definition ts_fields_ok (c : claims) : Prop :=
    forall t, exp c = Some t \/ nbf c = Some t \/ iat c = Some t -> ts_ok t = true.

  Theorem round_trip :
    (forall t, ts_ok t = true -> parse_ts (fmt_ts t) = Some t) ->
    forall c, ts_fields_ok c -> visit (members_of c) = Ok c.
  Proof.
    intros Hlaw c Hc. apply visit_ok. intros f. rewrite values_of_members_of.
    destruct f; cbn [slot_get]; match goal with |- context [match ?o with _ => _ end] => destruct o eqn:E end;
      try reflexivity; cbn; try reflexivity;
      rewrite Hlaw by (apply Hc; auto); reflexivity.
  Qed.

  Corollary round_trip_total :
    (forall t, parse_ts (fmt_ts t) = Some t) -> forall c, visit (members_of c) = Ok c.
  Proof.
    intros Hlaw c. apply visit_ok. intros f. rewrite values_of_members_of.
    destruct f; cbn [slot_get]; match goal with |- context [match ?o with _ => _ end] => destruct o eqn:E end;
      try reflexivity; cbn; try reflexivity; rewrite Hlaw; reflexivity.
  Qed.

  Corollary round_trip_value :
    (forall t, ts_ok t = true -> parse_ts (fmt_ts t) = Some t) ->
    forall c, ts_fields_ok c -> decode_value parse_ts (encode_value fmt_ts c) = Ok c.
  Proof. intros H c Hc. exact (round_trip H c Hc). Qed.

  (* ================================================================ (b) the wire form *)

  Lemma in_opt_member {A} k (mk : A -> jvalue) o kv :
    In kv (opt_member k mk o) <-> exists x, o = Some x /\ kv = (k, mk x).
  Proof.
    destruct o as [x|]; cbn.
    - split.
      + intros [H|[]]. exists x. split; [reflexivity | symmetry; exact H].
      + intros (y & Hy & ->). inversion Hy; subst. left. reflexivity.
    - split; [intros [] | intros (y & Hy & _); discriminate].
  Qed.

  (* the members written are exactly: one per present field, under its name, holding its value *)
  Theorem members_exact c k v :
    In (k, v) (members_of c) <->
    exists f x, slot_get f c = Some x /\ k = key_of f /\ v = enc f x.
  Proof.
    unfold Claims.members_of. rewrite !in_app_iff, !in_opt_member. split.
    - intros [H|[H|[H|[H|[H|[H|H]]]]]]; destruct H as (x & Hx & E); inversion E; subst.
      + exists FIss, x. auto.
      + exists FSub, x. auto.
      + exists FAud, x. auto.
      + exists FExp, x. auto.
      + exists FNbf, x. auto.
      + exists FIat, x. auto.
      + exists FJti, x. auto.
    - intros (f & x & Hg & -> & ->). destruct f; cbn [slot_get key_of enc] in *.
      + left. eauto.
      + right; left. eauto.
      + do 2 right; left. eauto.
      + do 3 right; left. eauto.
      + do 4 right; left. eauto.
      + do 5 right; left. eauto.
      + do 6 right. eauto.
  Qed.

  (* every value written is a JSON string; in particular no `null` is ever written *)
  Theorem members_are_strings c k v : In (k, v) (members_of c) -> exists s, v = JStr s.
  Proof.
    intros H. apply members_exact in H. destruct H as (f & x & _ & _ & ->).
    destruct f; cbn [enc]; unfold ts_value; eauto.
  Qed.

  Corollary members_never_null c k v : In (k, v) (members_of c) -> v <> JNull.
  Proof. intros H E. apply members_are_strings in H. destruct H as (s & ->). discriminate. Qed.

  (* a registered name is present in the wire form iff the claim is present; nothing else is written *)
  Theorem member_present_iff c f :
    (exists v, In (key_of f, v) (members_of c)) <-> slot_get f c <> None.
  Proof.
    split.
    - intros (v & H). apply members_exact in H. destruct H as (g & x & Hg & Ek & _).
      apply key_of_inj in Ek. subst g. congruence.
    - intros H. destruct (slot_get f c) as [x|] eqn:Hg; [|congruence].
      exists (enc f x). apply members_exact. exists f, x. auto.
  Qed.

  (* the same two facts with the record fields spelled out *)
  Lemma pair_member_iff {A} (o : option A) (k k0 : bytes) (v : jvalue) (mk : A -> jvalue) :
    (exists x, o = Some x /\ (k, v) = (k0, mk x)) <-> (exists x, o = Some x /\ k = k0 /\ v = mk x).
  Proof.
    split; intros (x & Hx & H); exists x; (split; [exact Hx|]).
    - inversion H; subst. auto.
    - destruct H as [-> ->]. reflexivity.
  Qed.

  Theorem members_exact_fields c k v :
    In (k, v) (members_of c) <->
    (exists s, iss c = Some s /\ k = k_iss /\ v = JStr s) \/
    (exists s, sub c = Some s /\ k = k_sub /\ v = JStr s) \/
    (exists s, aud c = Some s /\ k = k_aud /\ v = JStr s) \/
    (exists t, exp c = Some t /\ k = k_exp /\ v = JStr (fmt_ts t)) \/
    (exists t, nbf c = Some t /\ k = k_nbf /\ v = JStr (fmt_ts t)) \/
    (exists t, iat c = Some t /\ k = k_iat /\ v = JStr (fmt_ts t)) \/
    (exists s, jti c = Some s /\ k = k_jti /\ v = JStr s).
  Proof.
    clear parse_ts.
    unfold Claims.members_of. rewrite !in_app_iff, !in_opt_member, !pair_member_iff.
    unfold ts_value. tauto.
  Qed.

  Theorem member_present_iff_fields c :
    ((exists v, In (k_iss, v) (members_of c)) <-> iss c <> None) /\
    ((exists v, In (k_sub, v) (members_of c)) <-> sub c <> None) /\
    ((exists v, In (k_aud, v) (members_of c)) <-> aud c <> None) /\
    ((exists v, In (k_exp, v) (members_of c)) <-> exp c <> None) /\
    ((exists v, In (k_nbf, v) (members_of c)) <-> nbf c <> None) /\
    ((exists v, In (k_iat, v) (members_of c)) <-> iat c <> None) /\
    ((exists v, In (k_jti, v) (members_of c)) <-> jti c <> None).
  Proof.
    exact (conj (member_present_iff c FIss) (conj (member_present_iff c FSub)
          (conj (member_present_iff c FAud) (conj (member_present_iff c FExp)
          (conj (member_present_iff c FNbf) (conj (member_present_iff c FIat)
                (member_present_iff c FJti))))))).
  Qed.

  Theorem members_only_registered c k v : In (k, v) (members_of c) -> field_of_key k <> None.
  Proof.
    intros H. apply members_exact in H. destruct H as (f & x & _ & -> & _).
    rewrite field_of_key_key. discriminate.
  Qed.

  Definition present (c : claims) (f : field) : bool :=
    match slot_get f c with Some _ => true | None => false end.

  (* the names appear in the fixed order iss, sub, aud, exp, nbf, iat, jti, each at most once *)
  Theorem members_keys_in_order c :
    map fst (members_of c) = map key_of (filter (present c) all_fields).
  Proof. destruct c as [[i|] [s|] [a|] [e|] [n|] [t|] [j|]]; reflexivity. Qed.

  Lemma all_fields_nodup : NoDup all_fields.
  Proof.
    unfold all_fields.
    repeat (constructor; [cbn; intros H; repeat (destruct H as [H|H]; [discriminate|]); exact H|]).
    constructor.
  Qed.

  Theorem members_keys_nodup c : NoDup (map fst (members_of c)).
  Proof.
    rewrite members_keys_in_order.
    apply FinFun.Injective_map_NoDup.
    - intros f g. apply key_of_inj.
    - apply NoDup_filter. apply all_fields_nodup.
  Qed.

  (* ================================================================ (c) unknown members *)

  Lemma visit_from_insert_unknown a ms1 k v ms2 :
    field_of_key k = None ->
    visit_from a (ms1 ++ (k, v) :: ms2) = visit_from a (ms1 ++ ms2).
  Proof.
    intros Hk. revert a; induction ms1 as [|kv r IH]; intros a; cbn [app Claims.visit_from].
    - rewrite (step_ignored a k v Hk). reflexivity.
    - destruct (step a kv); cbn [bind]; [apply IH | reflexivity | reflexivity].
  Qed.

  (* a member with any other name, holding any value at all, at any position, changes nothing *)
  Theorem unknown_member_ignored ms1 k v ms2 :
    field_of_key k = None -> visit (ms1 ++ (k, v) :: ms2) = visit (ms1 ++ ms2).
  Proof. apply visit_from_insert_unknown. Qed.

  Definition is_registered (kv : member) : bool :=
    match field_of_key (fst kv) with Some _ => true | None => false end.

  Lemma visit_from_filter a ms : visit_from a ms = visit_from a (filter is_registered ms).
  Proof.
    revert a; induction ms as [|[k v] r IH]; intros a; [reflexivity|].
    cbn [filter]. unfold is_registered at 1. cbn [fst].
    destruct (field_of_key k) eqn:Hk.
    - cbn [Claims.visit_from]. destruct (step a (k, v)); cbn [bind]; [apply IH | reflexivity | reflexivity].
    - cbn [Claims.visit_from]. rewrite (step_ignored a k v Hk). cbn [bind]. apply IH.
  Qed.

  (* decoding depends only on the registered members *)
  Theorem unknown_members_ignored ms : visit ms = visit (filter is_registered ms).
  Proof. apply visit_from_filter. Qed.

  (* ================================================================ (d) member order *)

  Lemma perm_filter {A} (p : A -> bool) l l' :
    Permutation l l' -> Permutation (filter p l) (filter p l').
  Proof.
    induction 1 as [|x l l' _ IH|x y l|l l' l'' _ IH1 _ IH2]; cbn [filter].
    - constructor.
    - destruct (p x); [constructor|]; exact IH.
    - destruct (p y), (p x); try apply perm_swap; apply Permutation_refl.
    - eapply perm_trans; eassumption.
  Qed.

  Lemma perm_values_of k ms ms' :
    Permutation ms ms' -> Permutation (values_of k ms) (values_of k ms').
  Proof. intros H. unfold values_of. apply Permutation_map, perm_filter, H. Qed.

  Lemma perm_short {A} (l l' : list A) : Permutation l l' -> (length l <= 1)%nat -> l = l'.
  Proof.
    intros P H. destruct l as [|x [|y l]]; cbn in H.
    - symmetry. apply Permutation_nil. exact P.
    - symmetry. apply Permutation_length_1_inv. exact P.
    - lia.
  Qed.

  (* the registered names occurring in a member list, with multiplicity *)
  Definition is_reg_key (k : bytes) : bool :=
    match field_of_key k with Some _ => true | None => false end.
  Definition reg_keys (ms : list member) : list bytes := filter is_reg_key (map fst ms).

  Lemma reg_keys_cons k v r :
    reg_keys ((k, v) :: r) = if is_reg_key k then k :: reg_keys r else reg_keys r.
  Proof. reflexivity. Qed.

  Lemma values_of_absent f ms : ~ In (key_of f) (reg_keys ms) -> values_of (key_of f) ms = [].
  Proof.
    induction ms as [|[k v] r IH]; intros H; [reflexivity|].
    rewrite reg_keys_cons in H.
    destruct (bytes_eq_dec k (key_of f)) as [->|Hne].
    - exfalso. apply H. unfold is_reg_key. rewrite field_of_key_key. left. reflexivity.
    - rewrite values_of_cons_other by exact Hne. apply IH. intros Hin. apply H.
      destruct (is_reg_key k); [right|]; exact Hin.
  Qed.

  Lemma values_of_nodup f ms : NoDup (reg_keys ms) -> (length (values_of (key_of f) ms) <= 1)%nat.
  Proof.
    induction ms as [|[k v] r IH]; intros H; [cbn; lia|].
    rewrite reg_keys_cons in H.
    destruct (bytes_eq_dec k (key_of f)) as [->|Hne].
    - rewrite values_of_cons_same. unfold is_reg_key in H. rewrite field_of_key_key in H.
      inversion H; subst. rewrite values_of_absent by assumption. cbn. lia.
    - rewrite values_of_cons_other by exact Hne. apply IH.
      destruct (is_reg_key k); [inversion H; assumption | exact H].
  Qed.

  (* with no registered name repeated, the result (value or error) does not depend on member order *)
  Theorem order_independent ms ms' :
    NoDup (reg_keys ms) -> Permutation ms ms' -> visit ms = visit ms'.
  Proof.
    intros N P. apply visit_congr_values. intros f.
    apply perm_short; [apply perm_values_of, P | apply values_of_nodup, N].
  Qed.

  Corollary order_independent_ok ms ms' c :
    NoDup (reg_keys ms) -> Permutation ms ms' -> visit ms = Ok c -> visit ms' = Ok c.
  Proof. intros N P H. rewrite <- (order_independent ms ms' N P). exact H. Qed.

  (* more generally: any rearrangement that keeps, for each registered name, the relative order of
     the members carrying that name (this includes every reordering of distinct names, with duplicates) *)
  Theorem order_independent_general ms ms' :
    (forall f, values_of (key_of f) ms = values_of (key_of f) ms') -> visit ms = visit ms'.
  Proof. apply visit_congr_values. Qed.

  (* ================================================================ (e) agreement with a generic reader *)

  Definition readf (f : field) (o : option jvalue) : option (ftype f) :=
    match o with
    | Some v => match rd f v with Ok y => y | _ => None end
    | None => None
    end.

  Lemma slot_run_last f vs x : slot_run f None vs = Some x -> x = readf f (last_opt vs).
  Proof.
    revert x; induction vs as [|v r IH]; intros x H; cbn [slot_run] in H.
    - inversion H. reflexivity.
    - destruct (rd f v) as [[y|]| |] eqn:Hr; try discriminate.
      + pose proof (slot_run_full f y r x H) as ->. cbn [slot_run] in H. inversion H; subst.
        cbn [last_opt readf]. rewrite Hr. reflexivity.
      + apply IH in H. subst x. cbn [last_opt].
        destruct (last_opt r); [reflexivity|]. cbn [readf]. rewrite Hr. reflexivity.
  Qed.

  Lemma readf_iss o : readf FIss o = read_str o. Proof. destruct o as [[]|]; reflexivity. Qed.
  Lemma readf_sub o : readf FSub o = read_str o. Proof. destruct o as [[]|]; reflexivity. Qed.
  Lemma readf_aud o : readf FAud o = read_str o. Proof. destruct o as [[]|]; reflexivity. Qed.
  Lemma readf_jti o : readf FJti o = read_str o. Proof. destruct o as [[]|]; reflexivity. Qed.
  Lemma readf_exp o : readf FExp o = read_ts parse_ts o.
  Proof. destruct o as [[]|]; try reflexivity. cbn. destruct (parse_ts s); reflexivity. Qed.
  Lemma readf_nbf o : readf FNbf o = read_ts parse_ts o.
  Proof. destruct o as [[]|]; try reflexivity. cbn. destruct (parse_ts s); reflexivity. Qed.
  Lemma readf_iat o : readf FIat o = read_ts parse_ts o.
  Proof. destruct o as [[]|]; try reflexivity. cbn. destruct (parse_ts s); reflexivity. Qed.

  Lemma visit_field ms c f :
    visit ms = Ok c -> slot_get f c = readf f (last_value (key_of f) ms).
  Proof.
    intros H. rewrite last_value_values. apply slot_run_last.
    apply visit_ok. exact H.
  Qed.

  (* whenever decoding succeeds, every registered claim is what a last-wins generic reader holds for
     that name: absent or null -> None, a string -> that string (time fields: jiff's reading of it) *)
  Theorem agrees_with_generic_reader ms c :
    visit ms = Ok c ->
    iss c = read_str (last_value k_iss ms) /\
    sub c = read_str (last_value k_sub ms) /\
    aud c = read_str (last_value k_aud ms) /\
    exp c = read_ts parse_ts (last_value k_exp ms) /\
    nbf c = read_ts parse_ts (last_value k_nbf ms) /\
    iat c = read_ts parse_ts (last_value k_iat ms) /\
    jti c = read_str (last_value k_jti ms).
  Proof.
    intros H.
    pose proof (visit_field ms c FIss H) as H1. rewrite readf_iss in H1.
    pose proof (visit_field ms c FSub H) as H2. rewrite readf_sub in H2.
    pose proof (visit_field ms c FAud H) as H3. rewrite readf_aud in H3.
    pose proof (visit_field ms c FExp H) as H4. rewrite readf_exp in H4.
    pose proof (visit_field ms c FNbf H) as H5. rewrite readf_nbf in H5.
    pose proof (visit_field ms c FIat H) as H6. rewrite readf_iat in H6.
    pose proof (visit_field ms c FJti H) as H7. rewrite readf_jti in H7.
    repeat split; assumption.
  Qed.

  (* ... and that reader's value is then absent, null or a string: success never hides a wrongly typed member *)
  Theorem success_means_well_typed ms c f v :
    visit ms = Ok c -> last_value (key_of f) ms = Some v -> v = JNull \/ exists s, v = JStr s.
  Proof.
    intros H L. rewrite last_value_values in L.
    pose proof (proj1 (visit_ok ms c) H f) as R. apply slot_run_accepts in R.
    destruct R as [vs F | pre v' a F Hr].
    - left. revert L. induction F as [|w r Hw _ IH]; cbn [last_opt]; [discriminate|].
      destruct (last_opt r); [exact IH | intros E; inversion E; subst; auto].
    - right. assert (last_opt (pre ++ [v']) = Some v') as E.
      { clear. induction pre as [|w r IH]; [reflexivity|]. cbn [app last_opt]. rewrite IH. reflexivity. }
      rewrite E in L. inversion L; subst. eapply rd_some_is_str. exact Hr.
  Qed.

  (* ================================================================ (f) the duplicate rule *)

  (* the exact acceptance condition, name by name *)
  Theorem visit_accepts_iff ms c :
    visit ms = Ok c <-> forall f, slot_accepts f (values_of (key_of f) ms) (slot_get f c).
  Proof.
    rewrite visit_ok. split; intros H f; apply slot_run_accepts, H.
  Qed.

  (* a non-null value, then any later member with the same name (even null, even the same value): rejected *)
  Theorem duplicate_after_value_rejected ms1 k v1 ms2 v2 ms3 :
    field_of_key k <> None -> v1 <> JNull ->
    visit (ms1 ++ (k, v1) :: ms2 ++ (k, v2) :: ms3) = Err PayloadError.
  Proof.
    intros Hk Hv.
    destruct (field_of_key k) as [f|] eqn:Ef; [|congruence].
    apply field_of_key_some in Ef. subst k.
    destruct (visit_total (ms1 ++ (key_of f, v1) :: ms2 ++ (key_of f, v2) :: ms3)) as [[c Hc] | He];
      [exfalso | exact He].
    pose proof (proj1 (visit_ok _ c) Hc f) as R.
    rewrite values_of_app, values_of_cons_same, values_of_app, values_of_cons_same in R.
    rewrite slot_run_app in R.
    destruct (slot_run f None (values_of (key_of f) ms1)) as [x|]; [|discriminate].
    cbn [slot_run] in R. destruct x; [discriminate|].
    destruct (rd f v1) as [[y|]| |] eqn:Hr; try discriminate.
    - apply slot_run_full in R. destruct (values_of (key_of f) ms2); discriminate.
    - apply Hv. eapply rd_none_is_null. exact Hr.
  Qed.

  (* null members before the first value are no-ops: `null` then a value is accepted *)
  Theorem null_before_value_is_noop ms1 k ms2 :
    Forall (eq JNull) (values_of k ms1) ->
    visit (ms1 ++ (k, JNull) :: ms2) = visit (ms1 ++ ms2).
  Proof.
    intros F. destruct (field_of_key k) as [f|] eqn:Ef.
    - apply field_of_key_some in Ef. subst k.
      apply visit_congr. intros g. rewrite !values_of_app.
      destruct (field_eq_dec g f) as [->|Hne].
      + rewrite values_of_cons_same, !slot_run_app, (slot_run_nulls f _ F).
        cbn [slot_run]. rewrite rd_null. reflexivity.
      + rewrite values_of_cons_other by (intros E; apply key_of_inj in E; congruence).
        reflexivity.
    - apply unknown_member_ignored. exact Ef.
  Qed.

End Proofs.

(* ================================================================ Json<T> wrappers *)
Section JsonWrapperProofs.
  Variable T : Type.
  Variable to_vec : T -> option bytes.
  Variable from_slice : bytes -> option T.

  Lemma ok_or_ok {A} (o : option A) e x : ok_or o e = Ok x <-> o = Some x.
  Proof. destruct o; cbn; split; congruence. Qed.

  Theorem json_payload_transparent :
    (forall x b, json_payload_encode T to_vec x = Ok b <-> to_vec x = Some b) /\
    (forall b x, json_payload_decode T from_slice b = Ok x <-> from_slice b = Some x) /\
    (forall b, from_slice b = None -> json_payload_decode T from_slice b = Err PayloadError).
  Proof.
    split; [intros x b; apply ok_or_ok|]. split; [intros b x; apply ok_or_ok|].
    intros b H. unfold json_payload_decode. rewrite H. reflexivity.
  Qed.

  Theorem json_footer_transparent :
    (forall x b, json_footer_encode T to_vec x = Ok b <-> to_vec x = Some b) /\
    json_footer_decode T from_slice [] = Err PayloadError /\
    (forall b x, json_footer_decode T from_slice b = Ok x <-> b <> [] /\ from_slice b = Some x).
  Proof.
    split; [intros x b; apply ok_or_ok|]. split; [reflexivity|].
    intros b x. destruct b as [|b0 r]; cbn [json_footer_decode].
    - split; [discriminate | intros [H _]; congruence].
    - rewrite ok_or_ok. split; [intros H; split; [discriminate | exact H] | intros [_ H]; exact H].
  Qed.

  Theorem json_round_trip x b :
    to_vec x = Some b -> from_slice b = Some x ->
    (b' <- json_payload_encode T to_vec x ;; json_payload_decode T from_slice b') = Ok x /\
    (b <> [] -> (b' <- json_footer_encode T to_vec x ;; json_footer_decode T from_slice b') = Ok x).
  Proof.
    intros He Hd. unfold json_payload_encode, json_footer_encode. rewrite He. cbn [ok_or bind].
    split.
    - unfold json_payload_decode. rewrite Hd. reflexivity.
    - intros Hne. apply json_footer_transparent. auto.
  Qed.
End JsonWrapperProofs.

(* ================================================================ (g) a toy text layer: the premises are satisfiable *)

Definition toy_fmt (t : Z) : bytes :=
  (if t <? 0 then x2d else x2b) :: repeat x31 (Z.abs_nat t).

Definition toy_parse (s : bytes) : option Z :=
  match s with
  | sg :: d =>
      if forallb (Byte.eqb x31) d then
        if Byte.eqb sg x2d then Some (- Z.of_nat (length d))
        else if Byte.eqb sg x2b then Some (Z.of_nat (length d)) else None
      else None
  | [] => None
  end.

Lemma forallb_repeat {A} (p : A -> bool) x n : p x = true -> forallb p (repeat x n) = true.
Proof. intros H. induction n; cbn; [reflexivity | now rewrite H, IHn]. Qed.

Lemma toy_law t : toy_parse (toy_fmt t) = Some t.
Proof.
  unfold toy_parse, toy_fmt.
  rewrite forallb_repeat by reflexivity. rewrite repeat_length.
  destruct (Z.ltb_spec t 0).
  - replace (Byte.eqb x2d x2d) with true by reflexivity. f_equal. lia.
  - replace (Byte.eqb x2b x2d) with false by reflexivity.
    replace (Byte.eqb x2b x2b) with true by reflexivity. f_equal. lia.
Qed.
