(* NonVacuity/C07.v — C07 theorems instantiated at concrete values. *)
From Coq Require Import List NArith String Lia.
From PV Require Import Bytes Result Ctr Oracle Local Paserk PaserkProofs SpecPaserk SpecPaserkProofs SpecProofs CtrSites ToyOracle.
From PV.Gen Require Import Ciphers.
From PV.Properties Require Import C07.
From PV.NonVacuity Require Import C01 C02 C03 C05 Toy2.
Import ListNotations.
Local Open Scope string_scope.
Local Open Scope list_scope.

Definition oget (o : option bytes) : bytes := match o with Some b => b | None => [] end.

Example C07_pie_v1_v3_is_spec_nonvacuous :
  pie_wrap (v3_pie toy) hdr_l key32 secret64 n32 = Ok (spec_pieA toy (str "k3" ++ hdr_l) key32 secret64 n32) /\
  length (spec_pieA toy (str "k3" ++ hdr_l) key32 secret64 n32) = 144.
Proof. split; [apply C07_pie_v1_v3_is_spec|vm_compute; reflexivity]. Qed.
(* for any oracle — here one that makes the counter sequence observable, with a nonce-derived IV *)
Example C07_pie_v1_v3_is_spec_counter_sensitive :
  pie_wrap (pieA ctrO (str "k1") 128) hdr_l key32 secret64 n32 = Ok (spec_pieA ctrO (str "k1" ++ hdr_l) key32 secret64 n32).
Proof. apply C07_pie_v1_v3_is_spec. Qed.

Example C07_pie_v2_v4_is_spec_nonvacuous :
  pie_wrap (v4_pie toy) hdr_l key32 secret64 n32 = Ok (spec_pieB toy (str "k4" ++ hdr_l) key32 secret64 n32) /\
  length (spec_pieB toy (str "k4" ++ hdr_l) key32 secret64 n32) = 128.
Proof. split; [apply C07_pie_v2_v4_is_spec|vm_compute; reflexivity]. Qed.

Example C07_pbkw_v1_v3_is_spec_nonvacuous :
  pw_wrap (lc_pw toy) hdr_pw (str "pw") (be_bytes 4 100000) key32' (z 32) (repeat xff 16) =
    Ok (spec_pwA toy (str "k3" ++ hdr_pw) (str "pw") key32' (z 32) 100000 (repeat xff 16)).
Proof. apply (C07_pbkw_v1_v3_is_spec toy (str "k3") true); [vm_compute; reflexivity|right; discriminate]. Qed.
Example C07_pbkw_v1_v3_is_spec_zero_iterations :   (* z = false, i = 0: the RustCrypto backends *)
  pw_wrap (v3_pw toy) hdr_pw (str "pw") (be_bytes 4 0) key32' (z 32) (repeat xff 16) =
    Ok (spec_pwA toy (str "k3" ++ hdr_pw) (str "pw") key32' (z 32) 0 (repeat xff 16)).
Proof. apply (C07_pbkw_v1_v3_is_spec toy (str "k3") false); [vm_compute; reflexivity|left; reflexivity]. Qed.
(* the side condition is sharp: aws-lc refuses what the specification transcription defines *)
Example C07_pbkw_awslc_zero_iterations_differs :
  pw_wrap (lc_pw toy) hdr_pw (str "pw") (be_bytes 4 0) key32' (z 32) (repeat xff 16) = Err InvalidKey.
Proof. vm_compute. reflexivity. Qed.

Definition blob_pwB : bytes := Eval vm_compute in
  oget (spec_pwB toy (str "k4" ++ hdr_pw) (str "pw") key32' (z 16) 65536 2 1 (repeat xff 24)).
Example C07_pbkw_v2_v4_is_spec_nonvacuous :
  length blob_pwB = 120 /\
  pw_wrap (v4_pw toy) hdr_pw (str "pw") (be_bytes 8 65536 ++ be_bytes 4 2 ++ be_bytes 4 1) key32' (z 16) (repeat xff 24) = Ok blob_pwB.
Proof.
  split; [reflexivity|].
  apply (C07_pbkw_v2_v4_is_spec toy (str "k4") hdr_pw (str "pw") key32' (z 16) 65536 2 1 (repeat xff 24) blob_pwB);
    vm_compute; reflexivity.
Qed.
Example C07_pbkw_v4_sodium_is_spec_nonvacuous :
  pw_wrap (na_pw toy) hdr_pw (str "pw") (be_bytes 8 65536 ++ be_bytes 4 2 ++ be_bytes 4 1) key32' (z 16) (repeat xff 24) = Ok blob_pwB.
Proof.
  apply (C07_pbkw_v4_sodium_is_spec toy hdr_pw (str "pw") key32' (z 16) 65536 2 (repeat xff 24) blob_pwB);
    vm_compute; reflexivity.
Qed.

Example C07_pbkw_v4_sodium_parallelism_refuted_nonvacuous :
  pw_unwrap (na_pw toy) hdr_pw (str "pw")
    ((z 16 ++ (be_bytes 8 65536 ++ be_bytes 4 2 ++ be_bytes 4 4) ++ repeat xff 24) ++ key32' ++ z 32) = Err InvalidKey /\
  (* whereas paseto-v4 accepts the same blob *)
  pw_unwrap (v4_pw toy) hdr_pw (str "pw")
    ((z 16 ++ (be_bytes 8 65536 ++ be_bytes 4 2 ++ be_bytes 4 4) ++ repeat xff 24) ++ key32' ++ z 32) = Ok key32'.
Proof.
  split; [|vm_compute; reflexivity].
  apply C07_pbkw_v4_sodium_parallelism_refuted; try reflexivity; try (vm_compute; reflexivity). discriminate.
Qed.

Definition blob_seal3 : bytes := Eval vm_compute in oget (spec_seal_v3 toy toy_p384 key32 esk48).
Example C07_seal_v3_is_spec_nonvacuous :
  length blob_seal3 = 129 /\ v3_pke_seal toy 128 toy_p384 key32 esk48 = Ok blob_seal3.
Proof. split; [reflexivity|]. apply C07_seal_v3_is_spec. vm_compute. reflexivity. Qed.

Example C07_seal_v2_v4_is_spec_nonvacuous :
  x_pke_seal toy (str "k4") false toy_edpk key32 n32 = Ok (spec_seal_x toy (str "k4") (z 32) key32 n32) /\
  length (spec_seal_x toy (str "k4") (z 32) key32 n32) = 96.
Proof.
  split; [|vm_compute; reflexivity].
  apply C07_seal_v2_v4_is_spec; [vm_compute; reflexivity|discriminate].
Qed.
(* strict (libsodium): needs a non-zero shared secret, which [toy] never gives; [toy2] does *)
Example C07_seal_v2_v4_is_spec_strict_nonvacuous :
  x_pke_seal toy2 (str "k4") true toy_edpk key32 n32 = Ok (spec_seal_x toy2 (str "k4") (z 32) key32 n32).
Proof. apply C07_seal_v2_v4_is_spec; [vm_compute; reflexivity|intros _; vm_compute; discriminate]. Qed.
Example C07_seal_strict_differs_on_zero_secret :
  x_pke_seal toy (str "k4") true toy_edpk key32 n32 = Err CryptoError.
Proof. vm_compute. reflexivity. Qed.

Definition blob_seal1 : bytes := Eval vm_compute in oget (spec_seal_v1 toy2 (z 1) key32' (v1_mask_r r512z)).
Example C07_seal_v1_is_spec_nonvacuous :
  length blob_seal1 = 592 /\ v1_pke_seal toy2 (z 1) key32' r512z = Ok blob_seal1.
Proof. split; [reflexivity|]. apply C07_seal_v1_is_spec. vm_compute. reflexivity. Qed.

(* definitional: both sides are the same term *)
Example C07_v3_backends_same_pie_nonvacuous : v3_pie toy = lc_pie toy /\ v3_pie toy = pieA toy (str "k3") 128.
Proof. split; [apply C07_v3_backends_same_pie|reflexivity]. Qed.
Example C07_v4_backends_same_pie_nonvacuous : v4_pie toy = na_pie toy /\ v4_pie toy = pieB toy (str "k4").
Proof. split; [apply C07_v4_backends_same_pie|reflexivity]. Qed.

Example C07_v3_backends_same_pke_unseal_nonvacuous :
  v3_pke_unseal toy sk48 blob_seal3 = Ok key32 /\ lc_pke_unseal toy sk48 blob_seal3 = Ok key32.
Proof.
  assert (H : v3_pke_unseal toy sk48 blob_seal3 = Ok key32) by (vm_compute; reflexivity).
  split; [exact H|apply C07_v3_backends_same_pke_unseal; exact H].
Qed.
(* the converse direction is not stated in C07 but holds as well; error kinds differ (by design) *)
Definition noParse : oracle := fun name args => if String.eqb name "p384_parse" then [] else toy name args.
Example C07_v3_backends_error_kinds_differ :
  v3_pke_unseal noParse sk48 blob_seal3 = Err CryptoError /\ lc_pke_unseal noParse sk48 blob_seal3 = Err InvalidKey.
Proof. split; vm_compute; reflexivity. Qed.

Example C07_ctr_sites_full_width_nonvacuous : ctr_width_of "Ctr128BE" = Some 128%N.
Proof. apply (C07_ctr_sites_full_width "paseto-v1/src/core/pw_wrap.rs" "Ctr128BE"). vm_compute. tauto. Qed.

(* ================= receiving direction (added after the first audit) ================= *)
(* the blob is the SPECIFICATION's output (not the backend's wrap), of the expected size, and the backend model
   returns the wrapped key; both backends of a version *)
Example C07_spec_pie_blob_unwraps_v1_v3_nonvacuous :
  length (spec_pieA toy (str "k3" ++ hdr_l) key32 secret64 n32) = 48 + 32 + 64 /\
  pie_unwrap (v3_pie toy) hdr_l key32 (spec_pieA toy (str "k3" ++ hdr_l) key32 secret64 n32) = Ok secret64 /\
  pie_unwrap (lc_pie toy) hdr_l key32 (spec_pieA toy (str "k3" ++ hdr_l) key32 secret64 n32) = Ok secret64 /\
  pie_unwrap (pieA toy2 (str "k1") 128) (str ".secret-wrap.pie.") key32' (spec_pieA toy2 (str "k1" ++ str ".secret-wrap.pie.") key32' msg n32) = Ok msg.
Proof.
  split; [vm_compute; reflexivity|].
  split; [exact (C07_spec_pie_blob_unwraps_v1_v3 toy toy_laws (str "k3") hdr_l key32 secret64 n32 eq_refl)|].
  split; [exact (C07_spec_pie_blob_unwraps_v1_v3 toy toy_laws (str "k3") hdr_l key32 secret64 n32 eq_refl)|].
  exact (C07_spec_pie_blob_unwraps_v1_v3 toy2 toy2_laws (str "k1") (str ".secret-wrap.pie.") key32' msg n32 eq_refl).
Qed.
(* the nonce-length hypothesis is used: a 31-byte "nonce" shifts the split and another key comes out *)
Example C07_spec_pie_blob_unwraps_v1_v3_nonvacuous_hyp_used :
  pie_unwrap (v3_pie toy) hdr_l key32 (spec_pieA toy (str "k3" ++ hdr_l) key32 secret64 (z 31)) <> Ok secret64.
Proof. vm_compute. discriminate. Qed.

Example C07_spec_pie_blob_unwraps_v2_v4_nonvacuous :
  length (spec_pieB toy (str "k4" ++ hdr_l) key32 secret64 n32) = 32 + 32 + 64 /\
  pie_unwrap (v4_pie toy) hdr_l key32 (spec_pieB toy (str "k4" ++ hdr_l) key32 secret64 n32) = Ok secret64 /\
  pie_unwrap (na_pie toy) hdr_l key32 (spec_pieB toy (str "k4" ++ hdr_l) key32 secret64 n32) = Ok secret64 /\
  pie_unwrap (pieB toy (str "k2")) hdr_l key32' (spec_pieB toy (str "k2" ++ hdr_l) key32' key32 (repeat xff 32)) = Ok key32.
Proof.
  split; [vm_compute; reflexivity|].
  split; [exact (C07_spec_pie_blob_unwraps_v2_v4 toy toy_laws (str "k4") hdr_l key32 secret64 n32 eq_refl)|].
  split; [exact (C07_spec_pie_blob_unwraps_v2_v4 toy toy_laws (str "k4") hdr_l key32 secret64 n32 eq_refl)|].
  exact (C07_spec_pie_blob_unwraps_v2_v4 toy toy_laws (str "k2") hdr_l key32' key32 (repeat xff 32) eq_refl).
Qed.
Example C07_spec_pie_blob_unwraps_v2_v4_nonvacuous_hyp_used :
  pie_unwrap (v4_pie toy) hdr_l key32 (spec_pieB toy (str "k4" ++ hdr_l) key32 secret64 (z 33)) <> Ok secret64.
Proof. vm_compute. discriminate. Qed.

Example C07_spec_pbkw_blob_unwraps_v1_v3_nonvacuous :
  length (spec_pwA toy (str "k3" ++ hdr_pw) (str "pw") key32' (z 32) 100000 (repeat xff 16)) = 32 + 4 + 16 + 32 + 48 /\
  pw_unwrap (lc_pw toy) hdr_pw (str "pw") (spec_pwA toy (str "k3" ++ hdr_pw) (str "pw") key32' (z 32) 100000 (repeat xff 16)) = Ok key32' /\
  pw_unwrap (v3_pw toy) hdr_pw (str "pw") (spec_pwA toy (str "k3" ++ hdr_pw) (str "pw") key32' (z 32) 0 (repeat xff 16)) = Ok key32'.
Proof.
  split; [vm_compute; reflexivity|]. split.
  - apply (C07_spec_pbkw_blob_unwraps_v1_v3 toy toy_laws (str "k3") true); [vm_compute; reflexivity|right; discriminate|reflexivity|reflexivity].
  - apply (C07_spec_pbkw_blob_unwraps_v1_v3 toy toy_laws (str "k3") false); [vm_compute; reflexivity|left; reflexivity|reflexivity|reflexivity].
Qed.
(* the side conditions are sharp: aws-lc refuses a conforming blob with iteration count 0, and an iteration count
   of 2^32 does not fit the 4-byte field (the blob then announces 0 iterations) *)
Example C07_spec_pbkw_blob_unwraps_v1_v3_nonvacuous_hyps_used :
  pw_unwrap (lc_pw toy) hdr_pw (str "pw") (spec_pwA toy (str "k3" ++ hdr_pw) (str "pw") key32' (z 32) 0 (repeat xff 16)) = Err InvalidKey /\
  pw_unwrap (lc_pw toy) hdr_pw (str "pw") (spec_pwA toy (str "k3" ++ hdr_pw) (str "pw") key32' (z 32) (2 ^ 32) (repeat xff 16)) = Err InvalidKey.
Proof. split; vm_compute; reflexivity. Qed.

(* ---- receiving direction for the Argon2 PBKW family and for seal ---- *)
Example C07_spec_pbkw_blob_unwraps_v2_v4_nonvacuous :
  pw_unwrap (v4_pw toy) hdr_pw (str "pw") blob_pwB = Ok key32'.
Proof.
  apply (C07_spec_pbkw_blob_unwraps_v2_v4 toy toy_laws (str "k4") hdr_pw (str "pw") key32' (z 16) 65536 2 1 (repeat xff 24) blob_pwB);
    vm_compute; reflexivity.
Qed.
Example C07_spec_pbkw_blob_unwraps_v4_sodium_nonvacuous :
  pw_unwrap (na_pw toy) hdr_pw (str "pw") blob_pwB = Ok key32'.
Proof.
  apply (C07_spec_pbkw_blob_unwraps_v4_sodium toy toy_laws hdr_pw (str "pw") key32' (z 16) 65536 2 (repeat xff 24) blob_pwB);
    vm_compute; reflexivity.
Qed.
Example C07_spec_seal_blob_unseals_v3_nonvacuous :
  v3_pke_unseal toy sk48 blob_seal3 = Ok key32 /\ lc_pke_unseal toy sk48 blob_seal3 = Ok key32.
Proof.
  split.
  - apply (C07_spec_seal_blob_unseals_v3 toy toy_laws CryptoError sk48 toy_p384 key32 esk48 toy_p384); vm_compute; reflexivity.
  - apply (C07_spec_seal_blob_unseals_v3 toy toy_laws InvalidKey sk48 toy_p384 key32 esk48 toy_p384); vm_compute; reflexivity.
Qed.
Example C07_spec_seal_blob_unseals_v2_v4_nonvacuous :
  v4_pke_unseal toy key32 (spec_seal_x toy (str "k4") (x_of_seed toy key32) key32' n32) = Ok key32' /\
  na_pke_unseal toy2 (key32 ++ toy_edpk) (spec_seal_x toy2 (str "k4") (x_of_seed toy2 key32) key32' n32) = Ok key32'.
Proof.
  split.
  - apply (C07_spec_seal_blob_unseals_v2_v4 toy toy_laws (str "k4") false (fun sk => Some (x_of_seed toy sk)) key32 key32 key32' n32);
      try reflexivity; try (vm_compute; reflexivity). discriminate.
  - apply (C07_spec_seal_blob_unseals_v2_v4 toy2 toy2_laws (str "k4") true (fun sk => x_of_edpk toy2 (drop 32 sk)) (key32 ++ toy_edpk) key32 key32' n32);
      try reflexivity; try (vm_compute; reflexivity). intros _. vm_compute. discriminate.
Qed.
Example C07_spec_seal_blob_unseals_v1_nonvacuous :
  v1_pke_unseal toy2 (z 1) blob_seal1 = Ok key32'.
Proof.
  apply (C07_spec_seal_blob_unseals_v1 toy2 toy2_laws (z 1) key32' r512z
           (be_val (flip (be_bytes 512 (be_val (v1_mask_r r512z))))) blob_seal1);
    [vm_compute; reflexivity | vm_compute; reflexivity | vm_compute; reflexivity | vm_compute; reflexivity].
Qed.
