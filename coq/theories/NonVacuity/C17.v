(* NonVacuity/C17.v — audit: C17 theorems on concrete instances; which hypotheses are used; the sharing checker
   as a function of its tables, with mutated tables it rejects (and one it does not). *)
From Coq Require Import String List Bool Lia Arith.
From PV Require Import Concurrency ConcurrencyProofs.
From PV.Gen Require Import Sharing.
From PV.Properties Require Import C17.
Import ListNotations.
Local Open Scope nat_scope.

(* a concrete key / operation / result: the key is a number, an operation "spends" an amount and FAILS (None)
   when the amount exceeds the key *)
Definition ev (k o : nat) : option nat := if o <=? k then Some (k - o) else None.

Example C17_frame_nonvacuous : fst (step ev 10 99) = 10 /\ snd (step ev 10 99) = None /\ snd (step ev 10 3) = Some 7.
Proof. split; [apply (C17_frame nat nat (option nat) ev)|]. split; reflexivity. Qed.

Example C17_history_frame_nonvacuous :
  fst (run ev 10 [99; 3; 11; 0]) = 10 /\ snd (run ev 10 [99; 3; 11; 0]) = [None; Some 7; None; Some 10].
Proof. split; [apply (C17_history_frame nat nat (option nat) ev) | reflexivity]. Qed.

Example C17_history_independent_nonvacuous :
  last (snd (run ev 10 ([99; 11; 50] ++ [3]))) (ev 10 3) = Some 7 /\
  snd (run ev (fst (run ev 10 [99; 11; 50])) [3]) = [Some 7].
Proof. exact (C17_history_independent nat nat (option nat) ev 10 [99; 11; 50] 3). Qed.

(* three threads, one of them idle; a schedule that alternates *)
Definition ts3 : list (list nat) := [[1; 99]; []; [3]].
Definition sched : list (nat * nat) := [(0, 1); (2, 3); (0, 99)].

Lemma sched_ok : interleave ts3 sched.
Proof.
  unfold ts3, sched.
  apply (il_step ts3 0 1 [99]); [reflexivity|]. cbn.
  apply (il_step [[99]; []; [3]] 2 3 []); [reflexivity|]. cbn.
  apply (il_step [[99]; []; []] 0 99 []); [reflexivity|]. cbn.
  apply il_done. repeat constructor.
Qed.

(* [interleave] is a real restriction: not every tagged list is a schedule of ts3 *)
Lemma not_sched : ~ interleave ts3 [(0, 99); (0, 1); (2, 3)].
Proof. intros H. inversion H; subst. cbn in *. congruence. Qed.

Example C17_interleaving_equivalent_nonvacuous :
  snd (run ev 10 (map snd sched)) = [Some 9; Some 7; None].
Proof. rewrite (C17_interleaving_equivalent nat nat (option nat) ev ts3 sched 10 sched_ok). reflexivity. Qed.

Example C17_thread_view_is_sequential_nonvacuous :
  map (fun io => ev 10 (snd io)) (filter (fun io => Nat.eqb (fst io) 0) sched) = snd (run ev 10 [1; 99]).
Proof. rewrite (C17_thread_view_is_sequential nat nat (option nat) ev ts3 sched 10 0 sched_ok). reflexivity. Qed.

Example C17_interleaving_projects_to_threads_nonvacuous :
  map snd (filter (fun io => Nat.eqb (fst io) 0) sched) = [1; 99] /\
  map snd (filter (fun io => Nat.eqb (fst io) 1) sched) = [] /\
  map snd (filter (fun io => Nat.eqb (fst io) 2) sched) = [3].
Proof.
  split; [|split].
  - exact (C17_interleaving_projects_to_threads nat ts3 sched 0 sched_ok ltac:(cbn; lia)).
  - exact (C17_interleaving_projects_to_threads nat ts3 sched 1 sched_ok ltac:(cbn; lia)).
  - exact (C17_interleaving_projects_to_threads nat ts3 sched 2 sched_ok ltac:(cbn; lia)).
Qed.

(* ------------------------------------------------------------------ WRONG-REASON findings *)

(* (1) The hypothesis [interleave ts l] of C17_interleaving_equivalent and C17_thread_view_is_sequential is NOT
   USED: the conclusions hold for every tagged list, schedule or not, and do not mention [ts]. *)
Lemma C17_interleaving_equivalent_hypothesis_unused :
  forall (Key Op Out : Type) (eval : Key -> Op -> Out) (l : list (nat * Op)) k,
    snd (run eval k (map snd l)) = map (fun io => eval k (snd io)) l.
Proof. intros. rewrite run_outputs, map_map. reflexivity. Qed.

Lemma C17_thread_view_hypothesis_unused :
  forall (Key Op Out : Type) (eval : Key -> Op -> Out) (l : list (nat * Op)) k i,
    map (fun io => eval k (snd io)) (filter (fun io => Nat.eqb (fst io) i) l)
    = snd (run eval k (map snd (filter (fun io => Nat.eqb (fst io) i) l))).
Proof. intros. rewrite run_outputs, map_map. reflexivity. Qed.

Example C17_interleaving_equivalent_holds_for_a_non_schedule :
  ~ interleave ts3 [(0, 99); (0, 1); (2, 3)] /\
  snd (run ev 10 (map snd [(0, 99); (0, 1); (2, 3)])) = map (fun io => ev 10 (snd io)) [(0, 99); (0, 1); (2, 3)].
Proof. split; [exact not_sched | apply C17_interleaving_equivalent_hypothesis_unused]. Qed.

(* (2) The frame / history theorems are true by the DEFINITION of [step] (it returns its key argument), for every
   [eval] whatsoever: [eval] cannot even express an operation that alters the key, so "failed operations never
   alter a key" is assumed by the shape of the model, not proved about the library.  All of C17's semantic
   theorems reduce to [run eval k ops = (k, map (eval k) ops)]: *)
Lemma C17_model_is_map :
  forall (Key Op Out : Type) (eval : Key -> Op -> Out) k ops, run eval k ops = (k, map (eval k) ops).
Proof.
  intros. rewrite (surjective_pairing (run eval k ops)). rewrite run_frame, run_outputs. reflexivity.
Qed.

(* (3) first conjunct of C17_history_independent: the DEFAULT handed to [last] is the expected answer, so the
   equation would also hold of a [run] that produced no outputs at all *)
Example C17_history_independent_default_masks :
  forall (Out : Type) (expected : Out), last (@nil Out) expected = expected.
Proof. reflexivity. Qed.

(* ------------------------------------------------------------------ the sharing checker *)
Local Open Scope string_scope.

Definition sharing_check
  (mut_tokens : list (string * string)) (mut_self : list (string * string))
  (unsafe_impls : list (string * string * string)) (lc_fns : list (string * string * list string * list string)) : bool :=
  (match mut_tokens with [] => true | _ => false end) &&
  forallb (fun fm => mem (snd fm) allowed_mut_self) mut_self &&
  forallb (fun i => let '(f, _, t) := i in String.eqb f "paseto-v3-aws-lc/src/lc/mod.rs" && (String.eqb t "SigningKey" || String.eqb t "VerifyingKey")) unsafe_impls &&
  forallb (fun f => let '(_, recv, calls, asmut) := f in
                    negb (String.eqb recv "&mut self") &&
                    forallb (fun r => negb (has_prefix "self" r)) asmut &&
                    forallb (fun c => mem c ffi_reads_shared || mem c ffi_builds_new) calls) lc_fns.

(* it IS the checker of the theorem *)
Lemma sharing_check_is_sharing_ok :
  sharing_check gen_mut_tokens gen_mut_self_methods gen_unsafe_impls gen_lc_fns = sharing_ok.
Proof. reflexivity. Qed.

Example C17_no_shared_mutable_state_nonvacuous :
  sharing_check gen_mut_tokens gen_mut_self_methods gen_unsafe_impls gen_lc_fns = true /\
  (* lower bounds, not exact sizes: the tables are regenerated from the source and may grow harmlessly *)
  Nat.leb 10 (length gen_mut_self_methods) = true /\ Nat.leb 2 (length gen_unsafe_impls) = true /\ Nat.leb 8 (length gen_lc_fns) = true /\
  Nat.leb 5 (length (filter (fun f => let '(_, recv, _, _) := f in String.eqb recv "&self") gen_lc_fns)) = true /\
  Nat.leb 20 (length (flat_map (fun f => let '(_, _, calls, _) := f in calls) gen_lc_fns)) = true.
Proof. rewrite sharing_check_is_sharing_ok. split; [exact C17_no_shared_mutable_state|]. split; [|split; [|split; [|split]]]; vm_compute; reflexivity. Qed.

(* the first conjunct ranges over an EMPTY table: it is informative only in so far as the extractor would have
   put something there (note: /repo's paseto-v1 and paseto-v3 DO contain `static .. AtomicBool / AtomicU64` in
   src/verif_hooks.rs, behind `--cfg paseto_rs_verif`; the extractor evidently skips them) *)
Example C17_mut_tokens_table_is_empty : gen_mut_tokens = [].
Proof. reflexivity. Qed.

(* mutated tables that the checker REJECTS *)
Example C17_sharing_rejects_interior_mutability :
  sharing_check [("paseto-core/src/key.rs", "RefCell")] gen_mut_self_methods gen_unsafe_impls gen_lc_fns = false.
Proof. vm_compute. reflexivity. Qed.
Example C17_sharing_rejects_mut_self_method :
  sharing_check gen_mut_tokens (("paseto-core/src/key.rs", "rotate") :: gen_mut_self_methods) gen_unsafe_impls gen_lc_fns = false.
Proof. vm_compute. reflexivity. Qed.
Example C17_sharing_rejects_other_unsafe_impl :
  sharing_check gen_mut_tokens gen_mut_self_methods (("paseto-v4-sodium/src/core/mod.rs", "Sync", "State") :: gen_unsafe_impls) gen_lc_fns = false
  /\ sharing_check gen_mut_tokens gen_mut_self_methods (("paseto-v3-aws-lc/src/lc/mod.rs", "Sync", "EcKeyPtr") :: gen_unsafe_impls) gen_lc_fns = false.
Proof. split; vm_compute; reflexivity. Qed.
Example C17_sharing_rejects_lc_mut_receiver :
  sharing_check gen_mut_tokens gen_mut_self_methods gen_unsafe_impls (("set", "&mut self", [], []) :: gen_lc_fns) = false.
Proof. vm_compute. reflexivity. Qed.
Example C17_sharing_rejects_as_mut_on_self :
  sharing_check gen_mut_tokens gen_mut_self_methods gen_unsafe_impls (("sign", "&self", ["ECDSA_sign"], ["self.0"]) :: gen_lc_fns) = false.
Proof. vm_compute. reflexivity. Qed.
Example C17_sharing_rejects_unknown_ffi :
  sharing_check gen_mut_tokens gen_mut_self_methods gen_unsafe_impls (("regen", "&self", ["EC_KEY_generate_key"], []) :: gen_lc_fns) = false.
Proof. vm_compute. reflexivity. Qed.

(* LIMITS of the checker (accepted although they should not be):
   (a) "the unsafe Send / Sync impls are EXACTLY those of the two wrappers" is only an inclusion: an empty table passes;
   (b) a `&self` method may call any "builds a new object" FFI function — the rule does not see WHICH object the call
       is applied to, so EC_KEY_set_private_key on the shared key through `as_const() as *mut` would be accepted;
   (c) [has_prefix "self"] is purely textual: `let k = &self.0; k.as_mut()` is accepted. *)
Example C17_sharing_accepts_empty_unsafe_table :
  sharing_check gen_mut_tokens gen_mut_self_methods [] gen_lc_fns = true.
Proof. vm_compute. reflexivity. Qed.
Example C17_sharing_accepts_setter_in_shared_method :
  sharing_check gen_mut_tokens gen_mut_self_methods gen_unsafe_impls
    (("evil", "&self", ["EC_KEY_set_private_key"], ["k"]) :: gen_lc_fns) = true.
Proof. vm_compute. reflexivity. Qed.

(* ================= C17_each_thread_sees_its_sequential_run (added after the first audit) ================= *)
Local Open Scope nat_scope.
(* three threads (one idle, one with a FAILING operation), the alternating schedule: every thread gets the outputs
   of its own sequential run *)
Example C17_each_thread_sees_its_sequential_run_nonvacuous :
  tagged_outputs ev 10 sched = [(0, Some 9); (2, Some 7); (0, None)] /\
  map snd (filter (fun r => Nat.eqb (fst r) 0) (tagged_outputs ev 10 sched)) = snd (run ev 10 [1; 99]) /\
  snd (run ev 10 [1; 99]) = [Some 9; None] /\
  map snd (filter (fun r => Nat.eqb (fst r) 1) (tagged_outputs ev 10 sched)) = [] /\
  map snd (filter (fun r => Nat.eqb (fst r) 2) (tagged_outputs ev 10 sched)) = [Some 7].
Proof.
  split; [reflexivity|]. split; [|split; [reflexivity|split]].
  - exact (C17_each_thread_sees_its_sequential_run nat nat (option nat) ev ts3 sched 10 0 sched_ok ltac:(cbn; lia)).
  - exact (C17_each_thread_sees_its_sequential_run nat nat (option nat) ev ts3 sched 10 1 sched_ok ltac:(cbn; lia)).
  - exact (C17_each_thread_sees_its_sequential_run nat nat (option nat) ev ts3 sched 10 2 sched_ok ltac:(cbn; lia)).
Qed.
(* a second schedule of the same threads (thread 2 first, thread 0 back to back) gives thread 0 the same view *)
Definition sched' : list (nat * nat) := [(2, 3); (0, 1); (0, 99)].
Lemma sched'_ok : interleave ts3 sched'.
Proof.
  unfold ts3, sched'.
  apply (il_step ts3 2 3 []); [reflexivity|]. cbn.
  apply (il_step [[1; 99]; []; []] 0 1 [99]); [reflexivity|]. cbn.
  apply (il_step [[99]; []; []] 0 99 []); [reflexivity|]. cbn.
  apply il_done. repeat constructor.
Qed.
Example C17_each_thread_sees_its_sequential_run_nonvacuous_other_schedule :
  map snd (filter (fun r => Nat.eqb (fst r) 0) (tagged_outputs ev 10 sched')) =
  map snd (filter (fun r => Nat.eqb (fst r) 0) (tagged_outputs ev 10 sched)).
Proof.
  rewrite (C17_each_thread_sees_its_sequential_run nat nat (option nat) ev ts3 sched' 10 0 sched'_ok ltac:(cbn; lia)).
  rewrite (C17_each_thread_sees_its_sequential_run nat nat (option nat) ev ts3 sched 10 0 sched_ok ltac:(cbn; lia)).
  reflexivity.
Qed.
(* unlike C17_interleaving_equivalent, here BOTH hypotheses are used: for a tagged list that is not a schedule of
   ts3 the conclusion is false, and so it is for a thread number out of range when the list mentions it *)
Example C17_each_thread_sees_its_sequential_run_nonvacuous_hyps_used :
  map snd (filter (fun r => Nat.eqb (fst r) 0) (tagged_outputs ev 10 [(0, 99); (0, 1); (2, 3)])) <> snd (run ev 10 (nth 0 ts3 [])) /\
  map snd (filter (fun r => Nat.eqb (fst r) 7) (tagged_outputs ev 10 [(7, 1)])) <> snd (run ev 10 (nth 7 ts3 [])).
Proof. split; vm_compute; discriminate. Qed.
(* it remains a consequence of C17_model_is_map above (the model has no state an interleaving could disturb):
   the outputs are [eval k] mapped over the schedule, whatever the schedule *)
Lemma C17_each_thread_outputs_are_a_map :
  forall (Key Op Out : Type) (eval : Key -> Op -> Out) k (l : list (nat * Op)),
    tagged_outputs eval k l = map (fun io => (fst io, eval k (snd io))) l.
Proof. intros. apply tagged_outputs_map. Qed.
