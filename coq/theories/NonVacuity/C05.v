(* NonVacuity/C05.v — C05 theorems instantiated at concrete values (toy, and toy2 where toy is too degenerate). *)
From Coq Require Import List NArith String Lia.
From PV Require Import Bytes Result Oracle Local Paserk PaserkProofs BigEndian ToyOracle.
From PV.Properties Require Import C05.
From PV.NonVacuity Require Import C01 C02 Toy2.
Import ListNotations.
Local Open Scope string_scope.
Local Open Scope list_scope.

Definition hdr_l : bytes := str ".local-wrap.pie.".
Definition hdr_pw : bytes := str ".local-pw.".
Definition secret64 : bytes := repeat x33 64.    (* a 64-byte secret key being wrapped *)

(* ---- PIE: a family-A and a family-B backend ---- *)
Example C05_pie_roundtrip_nonvacuous_v3 :
  exists blob, pie_wrap (v3_pie toy) hdr_l key32 secret64 n32 = Ok blob /\
               pie_unwrap (v3_pie toy) hdr_l key32 blob = Ok secret64 /\ length blob = 48 + 32 + 64.
Proof. apply (C05_pie_roundtrip toy toy_laws (v3_pie toy) hdr_l key32 secret64 n32); [cbn; tauto|reflexivity]. Qed.
Example C05_pie_roundtrip_nonvacuous_na :
  exists blob, pie_wrap (na_pie toy) hdr_l key32 key32' n32 = Ok blob /\
               pie_unwrap (na_pie toy) hdr_l key32 blob = Ok key32' /\ length blob = 32 + 32 + 32.
Proof. apply (C05_pie_roundtrip toy toy_laws (na_pie toy) hdr_l key32 key32' n32); [cbn; tauto|reflexivity]. Qed.

(* ---- PBKW ---- *)
Definition argon_params : bytes := be_bytes 8 65536 ++ be_bytes 4 2 ++ be_bytes 4 1.
Example C05_pbkw_roundtrip_nonvacuous_v4 :
  exists blob, pw_wrap (v4_pw toy) hdr_pw (str "correct horse") argon_params key32' (z 16) (repeat x07 24) = Ok blob /\
               pw_unwrap (v4_pw toy) hdr_pw (str "correct horse") blob = Ok key32' /\ length blob = 56 + 32 + 32.
Proof.
  apply (C05_pbkw_roundtrip toy toy_laws (v4_pw toy) hdr_pw (str "correct horse") argon_params key32' (z 16) (repeat x07 24) (z 32));
    [cbn; tauto|reflexivity|reflexivity|reflexivity|vm_compute; reflexivity].
Qed.
(* empty password, aws-lc, 1000 iterations *)
Example C05_pbkw_roundtrip_nonvacuous_lc :
  exists blob, pw_wrap (lc_pw toy) hdr_pw [] (be_bytes 4 1000) secret64 (z 32) (z 16) = Ok blob /\
               pw_unwrap (lc_pw toy) hdr_pw [] blob = Ok secret64 /\ length blob = 52 + 64 + 48.
Proof.
  apply (C05_pbkw_roundtrip toy toy_laws (lc_pw toy) hdr_pw [] (be_bytes 4 1000) secret64 (z 32) (z 16) (z 32));
    [cbn; tauto|reflexivity|reflexivity|reflexivity|vm_compute; reflexivity].
Qed.
(* the pre-key hypothesis can fail (so it is a real restriction): libsodium with parallelism 2 *)
Example C05_pbkw_prekey_can_fail :
  pw_prekey (na_pw toy) (str "pw") (z 16) (be_bytes 8 65536 ++ be_bytes 4 2 ++ be_bytes 4 2) = Err InvalidKey.
Proof. vm_compute. reflexivity. Qed.

Example C05_pbkdf2_total_nonvacuous :
  exists pre, pw_prekey (pwA toy (str "k3") 128 false) (str "pw") (z 32) (be_bytes 4 0) = Ok pre.
Proof. apply C05_pbkdf2_total. Qed.
Example C05_pbkdf2_total_awslc_nonvacuous :
  exists pre, pw_prekey (pwA toy (str "k3") 128 true) (str "pw") (z 32) (be_bytes 4 1000) = Ok pre.
Proof. apply C05_pbkdf2_total_awslc. vm_compute. discriminate. Qed.

(* ---- PKE v3 ---- *)
Definition sk48 : bytes := z 47 ++ [x05].
Definition esk48 : bytes := z 47 ++ [x09].
Example C05_v3_pke_roundtrip_nonvacuous :
  exists blob, v3_pke_seal toy 128 toy_p384 key32 esk48 = Ok blob /\
               v3_pke_unseal_gen toy 128 InvalidKey sk48 blob = Ok key32 /\ length blob = 48 + 49 + 32.
Proof. apply (C05_v3_pke_roundtrip toy toy_laws 128%N InvalidKey sk48 toy_p384 key32 esk48 toy_p384); reflexivity. Qed.

(* ---- PKE v2 / v4 ---- *)
Example C05_v4_pke_roundtrip_nonvacuous :
  exists blob, v4_pke_seal toy (ed_pk toy key32') key32 n32 = Ok blob /\ v4_pke_unseal toy key32' blob = Ok key32 /\ length blob = 96.
Proof. apply (C05_v4_pke_roundtrip toy toy_laws); reflexivity. Qed.
Example C05_v2_pke_roundtrip_nonvacuous :
  exists blob, v2_pke_seal toy (ed_pk toy key32') key32 n32 = Ok blob /\ v2_pke_unseal toy key32' blob = Ok key32 /\ length blob = 96.
Proof. apply (C05_v2_pke_roundtrip toy toy_laws); reflexivity. Qed.

(* v4-sodium: with [toy] the third hypothesis is FALSE (its X25519 shared secret is zero32) ... *)
Example C05_v4_sodium_hypothesis_false_for_toy : x_mul toy n32 (x_of_seed toy key32') = zero32.
Proof. vm_compute. reflexivity. Qed.
(* ... so non-vacuity is witnessed by the second model of [laws] *)
Example C05_v4_sodium_pke_roundtrip_nonvacuous :
  exists blob, na_pke_seal toy2 (ed_pk toy2 key32') key32 n32 = Ok blob /\
               na_pke_unseal toy2 (key32' ++ ed_pk toy2 key32') blob = Ok key32 /\ length blob = 96.
Proof.
  apply (C05_v4_sodium_pke_roundtrip toy2 toy2_laws); [reflexivity|reflexivity|].
  vm_compute. discriminate.
Qed.

(* ---- PKE v1 ---- *)
Definition r512 : bytes := xc1 :: repeat x09 511.           (* 512 drawn bytes, top bit set before masking *)
Definition cn_toy : N := Eval vm_compute in
  match rsa_enc toy (rsa_pk toy key32) (be_val (v1_mask_r r512)) with Some c => c | None => 0%N end.
Example C05_v1_pke_roundtrip_nonvacuous :
  exists blob, v1_pke_seal toy (rsa_pk toy key32) key32' r512 = Ok blob /\ v1_pke_unseal toy key32 blob = Ok key32' /\
               length blob = 48 + 32 + 512.
Proof.
  apply (C05_v1_pke_roundtrip toy toy_laws key32 key32' r512 cn_toy); [reflexivity|reflexivity|].
  vm_compute. reflexivity.
Qed.

(* the case the property is about: an RSA ciphertext with a leading zero byte.  With [toy] (RSA = identity) a
   masked 512-byte r never gives one; with [toy2] the r below encrypts to a value below 256^511. *)
Definition r512z : bytes := x40 :: repeat x09 511.
Definition cn_z : N := Eval vm_compute in
  match rsa_enc toy2 (rsa_pk toy2 key32) (be_val (v1_mask_r r512z)) with Some c => c | None => 0%N end.
Example cn_z_has_leading_zero : (0 < cn_z < 256 ^ N.of_nat 511)%N.
Proof. split; vm_compute; reflexivity. Qed.
Example C05_v1_pke_roundtrip_leading_zero_nonvacuous :
  exists blob, v1_pke_seal toy2 (rsa_pk toy2 key32) key32' r512z = Ok blob /\ v1_pke_unseal toy2 key32 blob = Ok key32' /\
               length blob = 48 + 32 + 512.
Proof.
  apply (C05_v1_pke_roundtrip toy2 toy2_laws key32 key32' r512z cn_z); [reflexivity|reflexivity|].
  vm_compute. reflexivity.
Qed.
Example C05_v1_pke_minimal_refuted_nonvacuous :
  exists blob, v1_pke_seal_minimal toy2 (rsa_pk toy2 key32) key32' r512z = Ok blob /\ length blob < 48 + 32 + 512.
Proof.
  apply (C05_v1_pke_minimal_refuted toy2 toy2_laws key32 key32' r512z cn_z); [reflexivity|exact (proj2 cn_z_has_leading_zero)|].
  vm_compute. reflexivity.
Qed.

(* ---- the two satisfiability theorems: destructed, and the witness really has the non-degenerate property ---- *)
Example C05_premises_satisfiable_nonvacuous : exists O, laws O.
Proof. destruct C05_premises_satisfiable as (O & L). exists O. exact L. Qed.
Example C05_sodium_premises_satisfiable_nonvacuous :
  exists O, laws O /\ x_mul O n32 (x_of_seed O key32') <> zero32.
Proof. destruct C05_sodium_premises_satisfiable as (O & L & H). exists O. split; [exact L|apply H]. Qed.
(* the extra premise is a genuine restriction: the first toy oracle does not meet it *)
Example C05_sodium_premises_satisfiable_nonvacuous_toy_fails : ~ (forall r xpk, x_mul toy r xpk <> zero32).
Proof. intros H. apply (H [] []). vm_compute. reflexivity. Qed.
