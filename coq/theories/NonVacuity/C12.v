(* NonVacuity/C12.v — audit of Properties/C12.v *)
From Coq Require Import List NArith ZArith String Bool Lia Arith.
From PV Require Import Bytes Result Text Tokens TokensProofs Validation Oracle Local Public LocalProofs PublicProofs
  AuthOrder TypeRules ToyOracle.
From PV.Gen Require Import Impls.
From PV.Properties Require Import C12.
Import ListNotations.
Local Open Scope list_scope.
Ltac splits := repeat match goal with |- _ /\ _ => split end.

(* the same concrete pipeline as in NonVacuity/C11.v: v4.local over the toy oracle *)
Definition key32 : bytes := map (fun i => n2b (N.of_nat i)) (seq 1 32).
Definition nonce32 : bytes := map (fun i => n2b (N.of_nat i)) (seq 101 32).
Definition mk (e : Z) : claims :=
  {| iss := Some (str "issuer"); sub := Some (str "alice"); aud := None; exp := Some e; nbf := Some 990%Z; iat := None; jti := None |}.
Definition dec (b : bytes) : option claims :=
  match b with [] => None | _ => Some (mk (Z.of_N (be_val b))) end.
Definition tok_good : token := {| t_payload := nonce32 ++ be_bytes 2 2000 ++ repeat x00 32; t_footer := str "f" |}.
Definition tok_expired : token := {| t_payload := nonce32 ++ be_bytes 2 500 ++ repeat x00 32; t_footer := str "f" |}.
Definition tok_undecodable : token := {| t_payload := nonce32 ++ repeat x00 32; t_footer := str "f" |}.
Definition tok_forged : token := {| t_payload := nonce32 ++ be_bytes 2 2000 ++ repeat x01 32; t_footer := str "f" |}.
Definition tok_short : token := {| t_payload := nonce32; t_footer := str "f" |}.

Definition run (t : token) :=
  unseal (Foot := bytes) (v4_local_unseal toy) [] dec (validate (VTime 1000)) key32 t (str "f") [].

Example C12_pipeline_values :
  run tok_good = (Ok (mk 2000, str "f"), [EvDecode (be_bytes 2 2000); EvValidate (mk 2000)]) /\
  run tok_expired = (Err ClaimsError, [EvDecode (be_bytes 2 500); EvValidate (mk 500)]) /\
  run tok_undecodable = (Err PayloadError, [EvDecode []]) /\
  run tok_forged = (Err CryptoError, []) /\ run tok_short = (Err InvalidToken, []).
Proof. vm_compute. splits; reflexivity. Qed.

Example C12_unauthenticated_nothing_runs_nonvacuous :
  run tok_forged = (Err CryptoError, []) /\ run tok_short = (Err InvalidToken, []).
Proof. split; apply C12_unauthenticated_nothing_runs; vm_compute; reflexivity. Qed.

Example C12_trace_only_after_authentication_nonvacuous :
  exists clear, v4_local_unseal toy key32 [] (t_payload tok_expired) (t_footer tok_expired) [] = Ok clear /\
                hd_error (snd (run tok_expired)) = Some (EvDecode clear).
Proof. apply C12_trace_only_after_authentication. vm_compute. discriminate. Qed.

Example C12_validator_sees_only_authenticated_claims_nonvacuous :
  exists clear, v4_local_unseal toy key32 [] (t_payload tok_expired) (t_footer tok_expired) [] = Ok clear /\ dec clear = Some (mk 500).
Proof. apply (C12_validator_sees_only_authenticated_claims _ _ _ _ _ _ (validate (VTime 1000)) _ _ (str "f")). vm_compute. tauto. Qed.
(* contrapositive: on the forged token no EvValidate event exists *)
Example C12_validator_never_sees_forged : forall c, ~ In (EvValidate c) (snd (run tok_forged)).
Proof.
  intros c H. apply C12_validator_sees_only_authenticated_claims in H. destruct H as [clear [H _]].
  vm_compute in H. discriminate.
Qed.

Example C12_error_independent_of_payload_type_nonvacuous :
  fst (run tok_forged) = Err CryptoError /\
  fst (unseal (Foot := bytes) (v4_local_unseal toy) [] (fun b => Some (length b)) (fun n : nat => if Nat.eqb n 0 then Err ClaimsError else Ok tt)
         key32 tok_forged (str "f") []) = Err CryptoError.
Proof. apply C12_error_independent_of_payload_type. vm_compute. reflexivity. Qed.

(* ---- backends ---- *)
(* the generic theorem specialised to a real backend through the instance lemma of LocalProofs.v *)
Example C12_local_error_cases_nonvacuous_crypto :
  v4_local_unseal toy key32 [] (t_payload tok_forged) (str "f") [] = Err CryptoError.
Proof.
  rewrite v4_unseal_inst. apply (proj2 (C12_local_error_cases (v4_params toy) _ _ _ _ _ _)).
  right; right. splits; try (left; reflexivity); try reflexivity.
  - vm_compute. lia.
  - vm_compute. discriminate.
Qed.
Example C12_local_error_cases_nonvacuous_short :
  v4_local_unseal toy key32 [] (take 63 (t_payload tok_good)) (str "f") [] = Err InvalidToken.
Proof.
  rewrite v4_unseal_inst. apply (proj2 (C12_local_error_cases (v4_params toy) _ _ _ _ _ _)).
  right; left. splits; [left; reflexivity | vm_compute; lia | reflexivity].
Qed.
Example C12_local_error_cases_nonvacuous_assertion :
  v1_local_unseal toy key32 [] (t_payload tok_good) (str "f") (str "assertion") = Err ClaimsError.
Proof.
  rewrite v1_unseal_inst. apply (proj2 (C12_local_error_cases (v1_params toy) _ _ _ _ _ _)).
  left. split; [|reflexivity]. intros [H|H]; [vm_compute in H|]; discriminate.
Qed.
(* forward direction: from an observed error, the theorem yields the class *)
Example C12_local_error_cases_forward :
  forall e, lg_unseal (v4_params toy) key32 [] (t_payload tok_forged) (str "f") [] = Err e -> e = CryptoError.
Proof.
  intros e H. apply (proj1 (C12_local_error_cases _ _ _ _ _ _ _)) in H.
  destruct H as [[H _]|[(_ & H & _)|(_ & _ & H & _)]]; [|vm_compute in H; lia|exact H].
  exfalso. apply H. left. reflexivity.
Qed.
(* the statement is an iff with a satisfiable right side also on the accepting input: no error there *)
Example C12_local_error_cases_accepting : forall e, lg_unseal (v4_params toy) key32 [] (t_payload tok_good) (str "f") [] <> Err e.
Proof. intros e H. vm_compute in H. discriminate. Qed.

Example C12_local_error_kinds_nonvacuous :
  CryptoError = ClaimsError \/ CryptoError = InvalidToken \/ CryptoError = CryptoError.
Proof. apply (C12_local_error_kinds (v4_params toy) key32 [] (t_payload tok_forged) (str "f") []). vm_compute. reflexivity. Qed.

(* v2: the toy AEAD never refuses, so take the oracle that answers nothing (no [laws] premise in this theorem) *)
Definition silent : oracle := fun _ _ => [].
Example C12_v2_error_kinds_nonvacuous :
  v2_local_unseal silent key32 [] (repeat x07 60) (str "f") [] = Err CryptoError /\
  v2_local_unseal toy key32 [] (repeat x07 39) (str "f") [] = Err InvalidToken /\
  v2_local_unseal toy key32 [] (repeat x07 60) (str "f") (str "a") = Err ClaimsError /\
  (CryptoError = ClaimsError \/ CryptoError = InvalidToken \/ CryptoError = CryptoError).
Proof.
  splits; try (vm_compute; reflexivity).
  apply (C12_v2_error_kinds silent key32 [] (repeat x07 60) (str "f") []). vm_compute. reflexivity.
Qed.

Example C12_public_error_kinds_nonvacuous :
  pg_unseal (v4_pparams silent) key32 [] (repeat x07 70) (str "f") [] = Err CryptoError /\
  pg_unseal (v3_pparams toy) key32 [] (repeat x00 100) (str "f") [] = Err InvalidToken /\
  pg_unseal (v1_pparams toy) key32 [] (repeat x00 300) (str "f") (str "a") = Err ClaimsError /\
  (InvalidToken = ClaimsError \/ InvalidToken = InvalidToken \/ InvalidToken = CryptoError).
Proof.
  splits; try (vm_compute; reflexivity).
  assert (HP : In (v3_pparams toy) [v1_pparams toy; v2_pparams toy; v3_pparams toy; lc_pparams toy; v4_pparams toy; na_pparams toy])
    by (cbn; tauto).
  apply (C12_public_error_kinds toy (v3_pparams toy) HP key32 [] (repeat x00 100) (str "f") []).
  vm_compute. reflexivity.
Qed.

Example C12_local_unseal_no_panic_nonvacuous :
  is_panic (lg_unseal (v4_params toy) key32 [] [] [] []) = false /\
  is_panic (lg_unseal (lc_params toy) key32 [] (repeat x07 79) [] []) = false.
Proof. split; apply C12_local_unseal_no_panic. Qed.
Example C12_v2_unseal_no_panic_nonvacuous : is_panic (v2_local_unseal silent key32 [] [x00] [] []) = false.
Proof. apply C12_v2_unseal_no_panic. Qed.
Example C12_public_unseal_no_panic_nonvacuous :
  is_panic (pg_unseal (lc_pparams silent) key32 [] (repeat x07 95) [] []) = false /\
  is_panic (pg_unseal (na_pparams silent) key32 [] [] [] []) = false.
Proof. split; apply (C12_public_unseal_no_panic silent); cbn; tauto. Qed.
(* [result] does have a Panic constructor that sibling functions reach (so "no panic" is not true of every
   model function): the seal side of the same backend *)
Example C12_panic_is_reachable_elsewhere : is_panic (v4_local_seal toy key32 [] [] [] []) = true.
Proof. vm_compute. reflexivity. Qed.

(* ---- API inventory: the closed computation ranges over a non-empty table ---- *)
Example C12_api_inventory_nonvacuous :
  length (sealed_token_structs gen_table) = 1 /\
  length (flat_map s_fields (sealed_token_structs gen_table)) >= 3 /\
  length (sealed_token_accessors gen_table) = 1 /\
  sealed_token_traits gen_table <> [] /\
  length (filter (fun m => is_sealed_token (m_self m)) (t_methods gen_table)) >= 2.
Proof. vm_compute. splits; try lia; try reflexivity. discriminate. Qed.
