(* NonVacuity/C18.v — audit: the C18 theorems are about non-empty domains, both directions fire, and the checkers
   reject mutated impl tables (a too generous impl, a public field, a leaking method, an extra marker impl). *)
From Coq Require Import String List Bool.
From PV Require Import TypeRules TypeRulesProofs AliasRules.
From PV.Gen Require Import Aliases Impls.
From PV.Properties Require Import C18.
Import ListNotations.
Local Open Scope string_scope.
Local Open Scope list_scope.

(* ------------------------------------------------------------------ sizes: nothing ranges over an empty list *)
Example C18_tables_nonempty :
  (* lower bounds, not exact sizes: the tables are regenerated from the source and may grow harmlessly *)
  Nat.leb 250 (length (t_impls gen_table)) = true /\ Nat.leb 40 (length (t_methods gen_table)) = true /\
  Nat.leb 40 (length (t_structs gen_table)) = true /\ length (t_versions gen_table) = 6 /\ Nat.leb 30 (length gen_aliases) = true.
Proof. repeat split. Qed.

Example C18_catalogue_sizes :
  length all_ops = 6822 /\ length (filter misuse all_ops) = 5052 /\ length (filter intended all_ops) = 708 /\
  length (filter (fun o => negb (misuse o) && negb (intended o)) all_ops) = 1062.
Proof. vm_compute. repeat split. Qed.

(* the misuse programs are rejected for DIFFERENT reasons (not all by one blanket rule such as an ill-formed type):
   E0277 / E0308 / E0599 / E0616, and never by a model error *)
Definition code_eqb (a b : code) : bool :=
  match a, b with
  | E0277, E0277 | E0308, E0308 | E0599, E0599 | E0609, E0609 | E0616, E0616 | E0624, E0624 | E0034, E0034
  | EFuel, EFuel | ETable, ETable => true
  | _, _ => false
  end.
Definition cnt (T : table) (c : code) (l : list op) : nat :=
  length (filter (fun o => match check T o with Reject d => code_eqb c d | _ => false end) l).

Example C18_misuse_rejection_codes :
  let m := filter misuse all_ops in
  (Nat.leb 100 (cnt gen_table E0277 m) && Nat.leb 100 (cnt gen_table E0308 m) && Nat.leb 100 (cnt gen_table E0599 m) &&
   Nat.leb 1 (cnt gen_table E0616 m), cnt gen_table EFuel m, cnt gen_table ETable m) = (true, 0, 0).
Proof. vm_compute. reflexivity. Qed.

(* ------------------------------------------------------------------ the theorems applied to concrete programs *)
Example C18_misuse_does_not_compile_nonvacuous :
  (* sign with the PKE secret key; verify an encrypted token; seal a v4 token with a v3 key; wrap a public key;
     Debug of a local key; the tuple field of a secret key *)
  well_typed gen_table (OSeal MSign V4 PPublic V4 PkeSecret) = false /\
  well_typed gen_table (OUnseal MVerify V3 PLocal V3 Local) = false /\
  well_typed gen_table (OSeal MEncrypt V4 PLocal V3 Local) = false /\
  well_typed gen_table (OWrapPie V2 Public V2 Local) = false /\
  well_typed gen_table (OTrait TDebug (SKey V1 Local)) = false /\
  well_typed gen_table (OField (SKey V4S Secret) "0") = false.
Proof.
  repeat split; apply C18_misuse_does_not_compile; try reflexivity;
    (apply C18_catalogue_complete; cbn; auto).
Qed.

Example C18_intended_compiles_nonvacuous :
  well_typed gen_table (OSeal MSign V4 PPublic V4 Secret) = true /\
  well_typed gen_table (OUnseal MVerify V3 PPublic V3 Public) = true /\
  well_typed gen_table (OWrapPie V2 Secret V2 Local) = true /\
  well_typed gen_table (OSealKey V1 Local V1 PkePublic) = true /\
  well_typed gen_table (OTrait TDisplay (SKey V1 Public)) = true /\
  well_typed gen_table (OExpose V3A Local) = true /\
  well_typed gen_table (OField (SUnsealed V4 PLocal) "claims") = true.
Proof.
  repeat split; apply C18_intended_compiles; try reflexivity;
    (apply C18_catalogue_complete; cbn; auto).
Qed.

Example C18_catalogue_complete_nonvacuous :
  In (OUnsealKey V4S V2 PkeSecret) all_ops /\ In (OField (SSealed V1 PPublic) "_message") all_ops /\
  (* the side condition on field probes is a real restriction: a field outside the fixed probe list is not enumerated *)
  ~ In "key" (probe_fields (SKey V1 Local)).
Proof.
  split; [apply C18_catalogue_complete; exact I|]. split; [apply C18_catalogue_complete; cbn; auto 10|].
  cbn. intros [H|[]]. discriminate.
Qed.

Example C18_misuse_intended_disjoint_nonvacuous :
  misuse (OSeal MSign V4 PPublic V4 PkeSecret) && intended (OSeal MSign V4 PPublic V4 PkeSecret) = false /\
  misuse (OSeal MSign V4 PPublic V4 PkeSecret) = true /\ intended (OSeal MSign V4 PPublic V4 Secret) = true.
Proof. split; [apply C18_misuse_intended_disjoint; apply C18_catalogue_complete; exact I | split; reflexivity]. Qed.

(* ------------------------------------------------------------------ mutated tables *)
Definition with_impl (i : impl) : table :=
  mkTable (t_versions gen_table) (t_structs gen_table) (i :: t_impls gen_table) (t_methods gen_table).
Definition with_method (m : method) : table :=
  mkTable (t_versions gen_table) (t_structs gen_table) (t_impls gen_table) (m :: t_methods gen_table).

Definition misuse_rejected_on (T : table) : bool :=
  forallb (fun o => negb (misuse o) || negb (well_typed T o)) all_ops.
Definition intended_accepted_on (T : table) : bool :=
  forallb (fun o => negb (intended o) || well_typed T o) all_ops.
Definition model_total_on (T : table) : bool :=
  forallb (fun o => negb (model_error (check T o))) all_ops.

(* these ARE the checkers behind the theorems *)
Example checkers_are_the_theorems' :
  misuse_rejected_on gen_table = true /\ intended_accepted_on gen_table = true /\ model_total_on gen_table = true.
Proof. exact (conj misuse_rejected_b (conj intended_accepted_b model_total_b)). Qed.

Definition key_bounds : list bound := [mkBound (Var "V") "HasKey" [Var "K"]; mkBound (Var "K") "KeyType" []].
Definition key_VK : ty := App "Key" [Var "V"; Var "K"].

(* M1: `impl<V, K> Display for Key<V, K>` (the example of the property text) *)
Definition T_display_all := with_impl (mkImpl "mut" ["V"; "K"] "Display" [] key_VK key_bounds []).
Example C18_rejects_display_for_all_keys :
  well_typed T_display_all (OTrait TDisplay (SKey V4 Secret)) = true /\ misuse (OTrait TDisplay (SKey V4 Secret)) = true /\
  misuse_rejected_on T_display_all = false.
Proof. split; [vm_compute; reflexivity|]. split; [reflexivity | vm_compute; reflexivity]. Qed.
(* ... which the closed-world rule alone would NOT notice (Display is on its white list; it relies on [check]) *)
Example C18_key_api_closed_does_not_see_display : key_api_closed T_display_all = true.
Proof. vm_compute. reflexivity. Qed.

(* M2: `impl<V, K> Debug for Key<V, K>` *)
Definition T_debug := with_impl (mkImpl "mut" ["V"; "K"] "Debug" [] key_VK key_bounds []).
Example C18_rejects_debug_for_keys :
  well_typed T_debug (OTrait TDebug (SKey V1 Local)) = true /\ key_api_closed T_debug = false.
Proof. split; vm_compute; reflexivity. Qed.

(* M3: `impl Purpose for Secret` (the other example of the property text) *)
Definition T_purpose_secret := with_impl (mkImpl "mut" [] "Purpose" [] (App "Secret" []) [] [("SealingKey", App "Secret" [])]).
Example C18_rejects_purpose_for_secret : markers_complete T_purpose_secret = false.
Proof. vm_compute. reflexivity. Qed.

(* M4: the field of Key made public *)
Definition pub_key_struct (s : struct) : struct :=
  if String.eqb (s_name s) "Key" then mkStruct (s_src s) (s_name s) (s_params s) (s_where s) [("0", "pub")] else s.
Definition T_pub_field :=
  mkTable (t_versions gen_table) (map pub_key_struct (t_structs gen_table)) (t_impls gen_table) (t_methods gen_table).
Example C18_rejects_public_key_field :
  well_typed T_pub_field (OField (SKey V4 Secret) "0") = true /\ key_api_closed T_pub_field = false.
Proof. split; vm_compute; reflexivity. Qed.

(* M5: a method on Key that returns the raw bytes; a free-standing type with a method that takes a key and returns bytes *)
Definition T_as_bytes := with_method
  (mkMethod "mut" ["V"; "K"] key_VK key_bounds "as_bytes" "pub" "&self" [] (App "&" [App "[]" [App "u8" []]])).
Definition T_leak_elsewhere := with_method
  (mkMethod "mut" ["V"] (App "SealedKey" [Var "V"]) [] "peek" "pub" "&self" [App "&" [App "Key" [Var "V"; App "Local" []]]]
     (App "Vec" [App "u8" []])).
Example C18_rejects_leaking_methods : key_api_closed T_as_bytes = false /\ key_api_closed T_leak_elsewhere = false.
Proof. split; vm_compute; reflexivity. Qed.

(* M6: a blanket impl, and an impl that takes a Key as trait argument *)
Definition T_blanket := with_impl (mkImpl "mut" ["T"] "Debug" [] (Var "T") [] []).
Definition T_from_key := with_impl (mkImpl "mut" ["V"; "K"] "From" [key_VK] (App "Vec" [App "u8" []]) key_bounds []).
Example C18_rejects_blanket_and_from_key : key_api_closed T_blanket = false /\ key_api_closed T_from_key = false.
Proof. split; vm_compute; reflexivity. Qed.

(* M7: `verify` offered on every SealedToken<V, P, ..> instead of the Public alias only *)
Definition T_verify_any := with_method
  (mkMethod "mut" ["V"; "P"; "M"; "F"] (App "SealedToken" [Var "V"; Var "P"; Var "M"; Var "F"])
     [mkBound (Var "V") "UnsealingVersion" [Var "P"]; mkBound (Var "P") "Purpose" []]
     "verify" "pub" "self" [App "&" [App "Key" [Var "V"; Var "P"]]] (App "()" [])).
Example C18_rejects_verify_on_encrypted :
  well_typed T_verify_any (OUnseal MVerify V3 PLocal V3 Local) = true /\ misuse (OUnseal MVerify V3 PLocal V3 Local) = true.
Proof. split; [vm_compute; reflexivity | reflexivity]. Qed.

(* M8: Serialize for UnsealedToken *)
Definition T_ser_unsealed := with_impl
  (mkImpl "mut" ["V"; "P"; "M"; "F"] "Serialize" [] (App "UnsealedToken" [Var "V"; Var "P"; Var "M"; Var "F"]) [] []).
Example C18_rejects_serialize_unsealed :
  well_typed T_ser_unsealed (OTrait TSerialize (SUnsealed V4 PLocal)) = true /\ misuse (OTrait TSerialize (SUnsealed V4 PLocal)) = true.
Proof. split; [vm_compute; reflexivity | reflexivity]. Qed.

(* M9: an EMPTY impl table: every misuse is "rejected" (for the wrong reason), but the intended programs no longer
   compile — C18_intended_compiles is what makes C18_misuse_does_not_compile informative *)
Definition T_no_impls := mkTable (t_versions gen_table) (t_structs gen_table) [] (t_methods gen_table).
Example C18_empty_table_fails_intended :
  misuse_rejected_on T_no_impls = true /\ intended_accepted_on T_no_impls = false /\ markers_complete T_no_impls = false.
Proof. split; [|split]; vm_compute; reflexivity. Qed.

(* M10: a table that lacks a version: the model reports its own error, and C18_model_total_on_domain fails *)
Definition T_no_versions := mkTable [] (t_structs gen_table) (t_impls gen_table) (t_methods gen_table).
Example C18_model_total_on_domain_nonvacuous :
  model_error (check T_no_versions (OExpose V1 Local)) = true /\ model_total_on T_no_versions = false /\
  model_error (check gen_table (OExpose V1 Local)) = false.
Proof.
  split; [vm_compute; reflexivity|]. split; [vm_compute; reflexivity|].
  apply C18_model_total_on_domain. apply C18_catalogue_complete. exact I.
Qed.

Example C18_domain_is_what_the_sources_declare_nonvacuous :
  markers_complete gen_table = true /\
  length (impl_selfs gen_table "KeyType") = 5 /\ length (impl_selfs gen_table "Purpose") = 2 /\
  Nat.leb 1 (length (impl_selfs gen_table "SealingKey")) = true /\ length (impl_selfs gen_table "Version") = 6.
Proof. split; [exact C18_domain_is_what_the_sources_declare|]. repeat split. Qed.

Example C18_secrets_only_through_expose_nonvacuous :
  key_api_closed gen_table = true /\
  (* the white-list clauses range over non-empty sets: 5 impls and 9 methods have a Key receiver, 13 other methods take a Key *)
  Nat.leb 3 (length (filter (fun i => head_is "Key" (i_self i)) (t_impls gen_table))) = true /\
  existsb (String.eqb "expose_key") (map m_name (filter (fun m => head_is "Key" (m_self m)) (t_methods gen_table))) = true /\
  Nat.leb 5 (length (filter (fun m => negb (head_is "Key" (m_self m)) && existsb (mentions "Key") (m_args m)) (t_methods gen_table))) = true.
Proof. split; [exact C18_secrets_only_through_expose|]. repeat split. Qed.

(* ------------------------------------------------------------------ aliases *)
Example C18_crate_aliases_name_what_they_say_nonvacuous :
  alias_ok ("paseto-v4", "PieWrappedSecretKey", "PieWrappedKey", "V4", ["Secret"]) = true /\
  (* mutated rows are rejected: wrong kind, wrong version, wrong generic, unknown alias *)
  alias_ok ("paseto-v4", "PieWrappedSecretKey", "PieWrappedKey", "V4", ["Local"]) = false /\
  alias_ok ("paseto-v3-aws-lc", "LocalKey", "LocalKey", "V4", []) = false /\
  alias_ok ("paseto-v2", "SecretKey", "PublicKey", "V2", []) = false /\
  alias_ok ("paseto-v2", "RawKey", "LocalKey", "V2", []) = false /\
  forallb alias_ok (("paseto-v2", "SecretKey", "PublicKey", "V2", []) :: gen_aliases) = false.
Proof.
  split; [apply C18_crate_aliases_name_what_they_say; vm_compute; auto 50|].
  repeat split.
Qed.
