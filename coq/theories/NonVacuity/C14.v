(* NonVacuity/C14.v — audit: every C14 theorem applied to a concrete, non-trivial instance. *)
From PV Require Import Bytes Result Validation Claims ClaimsProofs.
From PV.Properties Require Import C14.
From Coq Require Import Permutation.
Local Open Scope Z_scope.
Local Open Scope string_scope.

(* all seven claims present, strings with NUL / quote / backslash, negative and positive timestamps *)
Definition full : claims :=
  {| iss := Some (str "issuer"); sub := Some [x00; x22; x5c]; aud := Some [];
     exp := Some 7; nbf := Some (-3); iat := Some 0; jti := Some (str "id") |}.

Lemma full_ts_ok : forall t, exp full = Some t \/ nbf full = Some t \/ iat full = Some t -> ts_ok t = true.
Proof. intros t [H|[H|H]]; inversion H; vm_compute; reflexivity. Qed.

(* the premise of C14_round_trip (bounded form) is met by the toy text layer *)
Lemma toy_law_bounded : forall t, ts_ok t = true -> toy_parse (toy_fmt t) = Some t.
Proof. intros t _. apply toy_law. Qed.

(* ... and ALSO by a text layer that fails outside jiff's range: the bounded premise is strictly weaker than
   the unbounded one, i.e. [ts_ok] in the hypothesis is doing something *)
Definition bounded_parse (s : bytes) : option Z :=
  match toy_parse s with Some t => if ts_ok t then Some t else None | None => None end.
Lemma bounded_law : forall t, ts_ok t = true -> bounded_parse (toy_fmt t) = Some t.
Proof. intros t H. unfold bounded_parse. rewrite toy_law, H. reflexivity. Qed.
Lemma bounded_none t : ts_ok t = false -> bounded_parse (toy_fmt t) = None.
Proof. intros H. unfold bounded_parse. rewrite toy_law, H. reflexivity. Qed.
Lemma bounded_not_total : ~ (forall t, bounded_parse (toy_fmt t) = Some t).
Proof.
  intros H. pose proof (bounded_none (ts_max + 1) eq_refl) as N.
  remember (ts_max + 1) as big. rewrite H in N. discriminate.
Qed.

Example C14_round_trip_nonvacuous :
  visit toy_parse (members_of toy_fmt full) = Ok full /\ length (members_of toy_fmt full) = 7%nat.
Proof. split; [exact (C14_round_trip toy_fmt toy_parse toy_law_bounded full full_ts_ok) | reflexivity]. Qed.

Example C14_round_trip_nonvacuous_bounded_layer :
  visit bounded_parse (members_of toy_fmt full) = Ok full.
Proof. exact (C14_round_trip toy_fmt bounded_parse bounded_law full full_ts_ok). Qed.

Example C14_round_trip_unbounded_nonvacuous :
  visit toy_parse (members_of toy_fmt full) = Ok full.
Proof. exact (C14_round_trip_unbounded toy_fmt toy_parse toy_law full). Qed.

Example C14_round_trip_document_nonvacuous :
  decode_value toy_parse (encode_value toy_fmt full) = Ok full /\ encode_value toy_fmt full <> JObj [].
Proof. split; [exact (C14_round_trip_document toy_fmt toy_parse toy_law_bounded full full_ts_ok) | discriminate]. Qed.

(* the round trip is NOT true for an arbitrary text layer: the premise is needed *)
Example C14_round_trip_premise_needed :
  visit (fun _ => None) (members_of toy_fmt full) = Err PayloadError.
Proof. vm_compute. reflexivity. Qed.

(* (b) wire form: use the iff in both directions on a concrete claim *)
Example C14_wire_form_members_nonvacuous :
  In (k_nbf, JStr (toy_fmt (-3))) (members_of toy_fmt full) /\ ~ In (k_nbf, JNull) (members_of toy_fmt full).
Proof.
  split.
  - apply (C14_wire_form_members toy_fmt full). do 4 right. left. exists (-3). repeat split.
  - intros H. apply (C14_wire_form_members toy_fmt full) in H.
    destruct H as [[s [_ [_ E]]]|[[s [_ [_ E]]]|[[s [_ [_ E]]]|[[s [_ [_ E]]]|[[s [_ [_ E]]]|[[s [_ [_ E]]]|[s [_ [_ E]]]]]]]]];
      discriminate.
Qed.

Example C14_wire_form_members_generic_nonvacuous :
  In (k_sub, JStr [x00; x22; x5c]) (members_of toy_fmt full).
Proof. apply (C14_wire_form_members_generic toy_fmt full). exists FSub, [x00; x22; x5c]. repeat split. Qed.

Definition sparse : claims :=
  {| iss := None; sub := Some (str "s"); aud := None; exp := None; nbf := Some 2; iat := None; jti := None |}.

Example C14_absent_claims_are_omitted_nonvacuous :
  (exists v, In (k_sub, v) (members_of toy_fmt sparse)) /\ ~ (exists v, In (k_iss, v) (members_of toy_fmt sparse)).
Proof.
  pose proof (C14_absent_claims_are_omitted toy_fmt sparse) as [Hiss [Hsub _]]. split.
  - apply Hsub. discriminate.
  - intros H. apply Hiss in H. apply H. reflexivity.
Qed.

Example C14_no_null_is_written_nonvacuous :
  Forall (fun kv => snd kv <> JNull) (members_of toy_fmt full) /\ members_of toy_fmt full <> [].
Proof.
  split; [|discriminate]. apply Forall_forall. intros [k v] H. exact (C14_no_null_is_written toy_fmt full k v H).
Qed.

Example C14_only_registered_names_are_written_nonvacuous :
  Forall (fun kv => field_of_key (fst kv) <> None) (members_of toy_fmt full) /\ field_of_key (str "isss") = None.
Proof.
  split; [|reflexivity]. apply Forall_forall. intros [k v] H.
  exact (C14_only_registered_names_are_written toy_fmt full k v H).
Qed.

Example C14_wire_form_order_nonvacuous :
  map fst (members_of toy_fmt sparse) = [k_sub; k_nbf] /\
  map fst (members_of toy_fmt full) = [k_iss; k_sub; k_aud; k_exp; k_nbf; k_iat; k_jti].
Proof. rewrite !C14_wire_form_order. split; reflexivity. Qed.

Example C14_wire_form_no_duplicate_names_nonvacuous :
  NoDup (map fst (members_of toy_fmt full)) /\ length (map fst (members_of toy_fmt full)) = 7%nat.
Proof. split; [apply C14_wire_form_no_duplicate_names | reflexivity]. Qed.

(* (c) unknown members: hypothesis [field_of_key k = None] is met by names close to registered ones, and the
   equation relates two SUCCESSFUL, non-empty decodings as well as two failing ones *)
Definition junk : jvalue := JObj [(k_iss, JArr [JNum (str "1e999"); JBadStr; JNull])].

Example C14_unknown_member_ignored_nonvacuous :
  visit toy_parse ([(k_iss, JStr (str "a"))] ++ (str "ISS", junk) :: [(k_exp, JStr (toy_fmt 5))])
  = Ok {| iss := Some (str "a"); sub := None; aud := None; exp := Some 5; nbf := None; iat := None; jti := None |}
  /\ visit toy_parse ([(k_iss, JBadStr)] ++ (str "iss ", junk) :: []) = Err PayloadError.
Proof.
  split.
  - rewrite (C14_unknown_member_ignored toy_parse _ (str "ISS") junk _ eq_refl). vm_compute. reflexivity.
  - rewrite (C14_unknown_member_ignored toy_parse _ (str "iss ") junk _ eq_refl). vm_compute. reflexivity.
Qed.

Example C14_only_registered_members_matter_nonvacuous :
  filter is_registered [(str "x", junk); (k_jti, JStr []); (str "", JBadStr)] = [(k_jti, JStr [])] /\
  visit toy_parse [(str "x", junk); (k_jti, JStr []); (str "", JBadStr)] = visit toy_parse [(k_jti, JStr [])].
Proof. split; [reflexivity | apply C14_only_registered_members_matter]. Qed.

(* (d) order: a real permutation (not the identity), with an Ok outcome and with an Err outcome *)
Definition ms_a : list member := [(k_iss, JStr (str "a")); (str "x", JNull); (k_exp, JStr (toy_fmt 5)); (k_sub, JNull)].
Definition ms_b : list member := [(k_sub, JNull); (k_exp, JStr (toy_fmt 5)); (k_iss, JStr (str "a")); (str "x", JNull)].

Lemma perm_ab : Permutation ms_a ms_b.
Proof.
  unfold ms_a, ms_b.
  apply (Permutation_cons_app [(k_sub, JNull); (k_exp, JStr (toy_fmt 5))] [(str "x", JNull)]).
  apply (Permutation_cons_app [(k_sub, JNull); (k_exp, JStr (toy_fmt 5))] []).
  cbn [app]. apply perm_swap.
Qed.

Lemma nodup_a : NoDup (reg_keys ms_a).
Proof.
  vm_compute. repeat constructor; cbn; intros H; repeat (destruct H as [H|H]; [discriminate|]); exact H.
Qed.

Example C14_order_independent_nonvacuous :
  visit toy_parse ms_a = visit toy_parse ms_b /\ ms_a <> ms_b /\
  visit toy_parse ms_a = Ok {| iss := Some (str "a"); sub := None; aud := None; exp := Some 5; nbf := None; iat := None; jti := None |}.
Proof.
  split; [exact (C14_order_independent toy_parse ms_a ms_b nodup_a perm_ab)|].
  split; [discriminate | vm_compute; reflexivity].
Qed.

Example C14_order_independent_ok_nonvacuous :
  visit toy_parse ms_b = Ok {| iss := Some (str "a"); sub := None; aud := None; exp := Some 5; nbf := None; iat := None; jti := None |}.
Proof.
  apply (C14_order_independent_ok toy_parse ms_a ms_b _ nodup_a perm_ab). vm_compute. reflexivity.
Qed.

(* the NoDup hypothesis is not decoration: without it the statement is false *)
Example C14_order_independent_hypothesis_needed :
  Permutation [(k_iss, JStr (str "a")); (k_iss, JNull)] [(k_iss, JNull); (k_iss, JStr (str "a"))] /\
  visit toy_parse [(k_iss, JStr (str "a")); (k_iss, JNull)] <> visit toy_parse [(k_iss, JNull); (k_iss, JStr (str "a"))].
Proof. split; [apply perm_swap | vm_compute; discriminate]. Qed.

(* general form: different lists (a repeated name, interleaved differently with other names) with equal per-name
   value sequences *)
Definition ms_c : list member := [(k_iss, JNull); (k_sub, JStr (str "s")); (k_iss, JStr (str "a")); (str "u", JBadStr)].
Definition ms_d : list member := [(k_sub, JStr (str "s")); (k_iss, JNull); (str "w", JNull); (k_iss, JStr (str "a"))].

Example C14_order_independent_general_nonvacuous :
  visit toy_parse ms_c = visit toy_parse ms_d /\ ms_c <> ms_d /\ (exists c, visit toy_parse ms_c = Ok c /\ iss c = Some (str "a")).
Proof.
  split; [apply C14_order_independent_general; intros f; destruct f; reflexivity|].
  split; [discriminate|]. eexists. split; [vm_compute; reflexivity | reflexivity].
Qed.

(* (e) generic reader *)
Example C14_agrees_with_generic_reader_nonvacuous :
  exists c, visit toy_parse ms_c = Ok c /\
            iss c = read_str (last_value k_iss ms_c) /\ iss c = Some (str "a") /\
            sub c = read_str (last_value k_sub ms_c) /\ sub c = Some (str "s") /\
            exp c = read_ts toy_parse (last_value k_exp ms_c) /\ exp c = None.
Proof.
  destruct (visit toy_parse ms_c) as [c| |] eqn:E; try (vm_compute in E; discriminate).
  exists c. pose proof (C14_agrees_with_generic_reader toy_parse ms_c c E) as [H1 [H2 [_ [H4 _]]]].
  vm_compute in E. inversion E; subst c. repeat split; assumption || reflexivity.
Qed.

(* the conclusion is informative: a last-wins reader DISAGREES with first-value semantics, and the theorem only
   survives because decoding FAILS on such inputs *)
Example C14_agrees_with_generic_reader_not_trivial :
  visit toy_parse [(k_iss, JStr (str "a")); (k_iss, JStr (str "b"))] = Err PayloadError /\
  read_str (last_value k_iss [(k_iss, JStr (str "a")); (k_iss, JStr (str "b"))]) = Some (str "b").
Proof. split; vm_compute; reflexivity. Qed.

Example C14_success_means_well_typed_nonvacuous :
  last_value (key_of FIss) ms_c = Some (JStr (str "a")) /\
  (JStr (str "a") = JNull \/ exists s, JStr (str "a") = JStr s).
Proof.
  split; [reflexivity|].
  destruct (visit toy_parse ms_c) as [c| |] eqn:E; try (vm_compute in E; discriminate).
  exact (C14_success_means_well_typed toy_parse ms_c c FIss _ E eq_refl).
Qed.

(* (f) acceptance: both directions used *)
Example C14_acceptance_exact_nonvacuous :
  (forall f : field, exists c, slot_accepts toy_parse f (values_of (key_of f) ms_c) (slot_get f c)) /\
  ~ (exists c, forall f : field,
        slot_accepts toy_parse f (values_of (key_of f) [(k_iss, JStr (str "a")); (k_iss, JNull)]) (slot_get f c)).
Proof.
  split.
  - destruct (visit toy_parse ms_c) as [c| |] eqn:E; try (vm_compute in E; discriminate).
    intros f. exists c. exact (proj1 (C14_acceptance_exact toy_parse ms_c c) E f).
  - intros [c H]. apply (C14_acceptance_exact toy_parse) in H. vm_compute in H. discriminate.
Qed.

Example C14_duplicate_after_value_rejected_nonvacuous :
  visit toy_parse ([(k_sub, JStr (str "s"))] ++ (k_exp, JStr (toy_fmt 1)) :: [(str "x", JNull)] ++ (k_exp, JNull) :: [(k_jti, JNull)])
  = Err PayloadError /\
  (* without the second occurrence the same input is accepted *)
  (exists c, visit toy_parse ([(k_sub, JStr (str "s"))] ++ (k_exp, JStr (toy_fmt 1)) :: [(str "x", JNull)] ++ [(k_jti, JNull)]) = Ok c).
Proof.
  split.
  - apply C14_duplicate_after_value_rejected; discriminate.
  - eexists. vm_compute. reflexivity.
Qed.

Example C14_null_before_value_is_noop_nonvacuous :
  visit toy_parse ([(k_iss, JNull); (k_sub, JStr (str "s"))] ++ (k_iss, JNull) :: [(k_iss, JStr (str "a"))])
  = visit toy_parse ([(k_iss, JNull); (k_sub, JStr (str "s"))] ++ [(k_iss, JStr (str "a"))]) /\
  (exists c, visit toy_parse ([(k_iss, JNull); (k_sub, JStr (str "s"))] ++ [(k_iss, JStr (str "a"))]) = Ok c /\ iss c = Some (str "a")).
Proof.
  split.
  - apply C14_null_before_value_is_noop. vm_compute. repeat constructor.
  - eexists. split; [vm_compute; reflexivity | reflexivity].
Qed.

(* both disjuncts of totality are inhabited *)
Example C14_visit_total_nonvacuous :
  (exists c, visit toy_parse ms_c = Ok c) /\ visit toy_parse [(k_iat, JStr (str "soon"))] = Err PayloadError /\
  ((exists c, visit toy_parse [(k_iat, JBool true)] = Ok c) \/ visit toy_parse [(k_iat, JBool true)] = Err PayloadError).
Proof.
  split; [eexists; vm_compute; reflexivity|]. split; [vm_compute; reflexivity | apply C14_visit_total].
Qed.

(* Json<T>: a concrete serializer / parser pair (T = bytes, "serialize" = wrap in brackets, fails on empty) *)
Definition tv (x : bytes) : option bytes := match x with [] => None | _ => Some (x5b :: x ++ [x5d]) end.
Definition fs (b : bytes) : option bytes :=
  match b with
  | h :: r => if Byte.eqb h x5b then match rev r with l :: m => if Byte.eqb l x5d then Some (rev m) else None | [] => None end else None
  | [] => None
  end.

Example C14_json_payload_transparent_nonvacuous :
  json_payload_encode bytes tv (str "ab") = Ok (str "[ab]") /\
  json_payload_encode bytes tv [] = Err PayloadError /\
  json_payload_decode bytes fs (str "[ab]") = Ok (str "ab") /\
  json_payload_decode bytes fs (str "ab") = Err PayloadError.
Proof.
  pose proof (C14_json_payload_transparent bytes tv fs) as [He [Hd Hn]].
  split; [apply He; reflexivity|]. split; [reflexivity|]. split; [apply Hd; reflexivity | apply Hn; reflexivity].
Qed.

Example C14_json_footer_transparent_nonvacuous :
  json_footer_decode bytes fs [] = Err PayloadError /\ json_footer_decode bytes fs (str "[ab]") = Ok (str "ab").
Proof.
  pose proof (C14_json_footer_transparent bytes tv fs) as [_ [H0 Hd]].
  split; [exact H0 | apply Hd; split; [discriminate | reflexivity]].
Qed.

Example C14_json_round_trip_nonvacuous :
  (b' <- json_payload_encode bytes tv (str "ab") ;; json_payload_decode bytes fs b') = Ok (str "ab") /\
  (b' <- json_footer_encode bytes tv (str "ab") ;; json_footer_decode bytes fs b') = Ok (str "ab").
Proof.
  destruct (C14_json_round_trip bytes tv fs (str "ab") (str "[ab]") eq_refl eq_refl) as [H1 H2].
  split; [exact H1 | apply H2; discriminate].
Qed.

(* WRONG-REASON witness for C14_json_round_trip: its conclusion is its two hypotheses glued by [ok_or]; it holds
   for ANY to_vec / from_slice, including ones that have nothing to do with JSON, and says nothing about
   serde_json.  (Here: "serialize" = constant, "parse" = constant.) *)
Example C14_json_round_trip_is_hypothesis_restated :
  forall (T : Type) (x : T),
    (b' <- json_payload_encode T (fun _ => Some [x00]) x ;; json_payload_decode T (fun _ => Some x) b') = Ok x.
Proof. intros T x. exact (proj1 (C14_json_round_trip T (fun _ => Some [x00]) (fun _ => Some x) x [x00] eq_refl eq_refl)). Qed.
