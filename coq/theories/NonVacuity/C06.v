(* NonVacuity/C06.v — C06 theorems instantiated at concrete values with the toy oracle. *)
From Coq Require Import List NArith String Lia.
From PV Require Import Bytes Result Oracle Local Paserk PaserkProofs ToyOracle.
From PV.Properties Require Import C06.
From PV.NonVacuity Require Import C01 C02 C05.
Import ListNotations.
Local Open Scope string_scope.
Local Open Scope list_scope.

Ltac msplit := repeat match goal with |- _ /\ _ => split end.
Definition hdr_s : bytes := str ".secret-wrap.pie.".
Definition blob_pie : bytes := Eval vm_compute in unwrap (pie_wrap (v3_pie toy) hdr_l key32 secret64 n32).
Definition blob_pw : bytes := Eval vm_compute in
  unwrap (pw_wrap (v4_pw toy) hdr_pw (str "correct horse") argon_params key32' (z 16) (repeat x07 24)).
Example blobs_nontrivial : length blob_pie = 144 /\ length blob_pw = 120.
Proof. split; reflexivity. Qed.

Example C06_pie_accept_iff_nonvacuous_fwd :
  exists tag n c, blob_pie = tag ++ n ++ c /\ length tag = 48 /\ length n = 32 /\
                  pie_auth (v3_pie toy) key32 hdr_l n c = tag /\ secret64 = xorl c (pie_ks (v3_pie toy) key32 n (length c)).
Proof. apply (proj1 (C06_pie_accept_iff (v3_pie toy) hdr_l key32 blob_pie secret64)). vm_compute. reflexivity. Qed.
Example C06_pie_accept_iff_nonvacuous_bwd :
  pie_unwrap (v3_pie toy) hdr_l key32 (z 48 ++ n32 ++ secret64) = Ok secret64.
Proof.
  apply (proj2 (C06_pie_accept_iff (v3_pie toy) hdr_l key32 _ secret64)).
  exists (z 48), n32, secret64. msplit; vm_compute; reflexivity.
Qed.

Example C06_pie_short_nonvacuous : pie_unwrap (v3_pie toy) hdr_l key32 (repeat x55 79) = Err InvalidKey.
Proof. apply C06_pie_short. cbn. lia. Qed.

Example C06_pie_tag_tamper_nonvacuous :
  pie_unwrap (v3_pie toy) hdr_l key32 ((z 47 ++ [x80]) ++ n32 ++ secret64) = Err CryptoError.
Proof.
  apply (C06_pie_tag_tamper (v3_pie toy) hdr_l key32 (z 48) (z 47 ++ [x80]) n32 secret64);
    [reflexivity|reflexivity|reflexivity|vm_compute; reflexivity|vm_compute; discriminate].
Qed.

(* header relabel local -> secret accepted under the (constant) toy MAC: exhibited as a collision *)
Example C06_pie_forgery_is_collision_nonvacuous :
  pie_auth (v3_pie toy) key32 hdr_s n32 secret64 = pie_auth (v3_pie toy) key32 hdr_l n32 secret64 /\
  (key32, hdr_s, n32, secret64) <> (key32, hdr_l, n32, secret64).
Proof.
  apply (C06_pie_forgery_is_collision (v3_pie toy) hdr_l key32 n32 secret64 hdr_s key32 n32 secret64 secret64);
    [reflexivity|reflexivity|vm_compute; reflexivity|vm_compute; reflexivity|].
  intros H. vm_compute in H. discriminate H.
Qed.

(* MAC-input injectivity, used in contrapositive: version relabel and local<->secret relabel change the input *)
Example C06_pie_mac_input_injective_nonvacuous_version :
  str "k3" ++ hdr_l ++ n32 ++ secret64 <> str "k1" ++ hdr_l ++ n32 ++ secret64.
Proof.
  intros E. apply C06_pie_mac_input_injective in E; try reflexivity; try (cbn; tauto).
  vm_compute in E. discriminate E.
Qed.
Example C06_pie_mac_input_injective_nonvacuous_kind :
  forall c c', str "k3" ++ hdr_l ++ n32 ++ c <> str "k3" ++ hdr_s ++ n32 ++ c'.
Proof.
  intros c c' E. apply C06_pie_mac_input_injective in E; try reflexivity; try (cbn; tauto).
  inversion E.
Qed.
Example C06_pie_mac_input_injective_positive :
  (str "k3", hdr_l, n32, secret64) = (str "k3", hdr_l, n32, secret64).
Proof. apply C06_pie_mac_input_injective; try reflexivity; cbn; tauto. Qed.

(* ---- PBKW ---- *)
Example C06_pbkw_accept_iff_nonvacuous_fwd :
  exists salt params nonce c tag pre,
    blob_pw = (salt ++ params ++ nonce) ++ c ++ tag /\
    length salt = 16 /\ length params = 16 /\ length nonce = 24 /\ length tag = 32 /\
    pw_prekey (v4_pw toy) (str "correct horse") salt params = Ok pre /\
    pw_mac (v4_pw toy) (pw_ak (v4_pw toy) pre) (pw_ver (v4_pw toy) ++ hdr_pw ++ (salt ++ params ++ nonce) ++ c) = tag /\
    key32' = xorl c (pw_ks (v4_pw toy) (pw_ek (v4_pw toy) pre) nonce (length c)).
Proof. apply (proj1 (C06_pbkw_accept_iff (v4_pw toy) hdr_pw (str "correct horse") blob_pw key32')). vm_compute. reflexivity. Qed.
Example C06_pbkw_accept_iff_nonvacuous_bwd :
  pw_unwrap (v4_pw toy) hdr_pw (str "pw") ((z 16 ++ argon_params ++ z 24) ++ key32' ++ z 32) = Ok key32'.
Proof.
  apply (proj2 (C06_pbkw_accept_iff (v4_pw toy) hdr_pw (str "pw") _ key32')).
  exists (z 16), argon_params, (z 24), key32', (z 32), (z 32). msplit; vm_compute; reflexivity.
Qed.

Example C06_pbkw_short_nonvacuous : pw_unwrap (v4_pw toy) hdr_pw (str "pw") (repeat x55 87) = Err InvalidKey.
Proof. apply C06_pbkw_short. cbn. lia. Qed.

Example C06_pbkw_tag_tamper_nonvacuous :
  pw_unwrap (v4_pw toy) hdr_pw (str "pw") ((z 16 ++ argon_params ++ z 24) ++ key32' ++ (x01 :: z 31)) = Err CryptoError.
Proof.
  apply (C06_pbkw_tag_tamper (v4_pw toy) hdr_pw (str "pw") (z 16) argon_params (z 24) key32' (z 32) (x01 :: z 31) (z 32));
    [reflexivity|reflexivity|reflexivity|reflexivity|reflexivity|vm_compute; reflexivity|vm_compute; reflexivity|vm_compute; discriminate].
Qed.

Example C06_pie_unwrap_no_panic_nonvacuous : is_panic (pie_unwrap (v3_pie toy) hdr_l key32 blob_pie) = false.
Proof. apply C06_pie_unwrap_no_panic. Qed.
Example C06_pbkw_unwrap_no_panic_nonvacuous : is_panic (pw_unwrap (na_pw toy) hdr_pw (str "pw") blob_pw) = false.
Proof. apply (C06_pbkw_unwrap_no_panic toy). cbn. tauto. Qed.

(* Scope observation (see REPORT): with a MAC that ignores its input every tampering of nonce / ciphertext /
   header is ACCEPTED by the model; the C06 theorems are consistent with that, i.e. they never claim rejection
   of anything but a changed tag. *)
Example C06_everything_but_the_tag_is_unprotected_by_these_theorems :
  pie_unwrap (v3_pie toy) hdr_s key32' (z 48 ++ repeat xaa 32 ++ key32) = Ok key32.
Proof. vm_compute. reflexivity. Qed.
