(* NonVacuity/C06.v — C06 theorems instantiated at concrete values with the toy oracle. *)
From Coq Require Import List NArith String Lia.
From PV Require Import Bytes Result Oracle Local Paserk PaserkProofs ToyOracle.
From PV.Properties Require Import C06.
From PV.NonVacuity Require Import C01 C02 C05.
Import ListNotations.
Local Open Scope string_scope.
Local Open Scope list_scope.

Ltac msplit := repeat match goal with |- _ /\ _ => split end.
Definition hdr_s : bytes := str ".secret-wrap.pie.".
Definition blob_pie : bytes := Eval vm_compute in unwrap (pie_wrap (v3_pie toy) hdr_l key32 secret64 n32).
Definition blob_pw : bytes := Eval vm_compute in
  unwrap (pw_wrap (v4_pw toy) hdr_pw (str "correct horse") argon_params key32' (z 16) (repeat x07 24)).
Example blobs_nontrivial : length blob_pie = 144 /\ length blob_pw = 120.
Proof. split; reflexivity. Qed.

Example C06_pie_accept_iff_nonvacuous_fwd :
  exists tag n c, blob_pie = tag ++ n ++ c /\ length tag = 48 /\ length n = 32 /\
                  pie_auth (v3_pie toy) key32 hdr_l n c = tag /\ secret64 = xorl c (pie_ks (v3_pie toy) key32 n (length c)).
Proof. apply (proj1 (C06_pie_accept_iff (v3_pie toy) hdr_l key32 blob_pie secret64)). vm_compute. reflexivity. Qed.
Example C06_pie_accept_iff_nonvacuous_bwd :
  pie_unwrap (v3_pie toy) hdr_l key32 (z 48 ++ n32 ++ secret64) = Ok secret64.
Proof.
  apply (proj2 (C06_pie_accept_iff (v3_pie toy) hdr_l key32 _ secret64)).
  exists (z 48), n32, secret64. msplit; vm_compute; reflexivity.
Qed.

Example C06_pie_short_nonvacuous : pie_unwrap (v3_pie toy) hdr_l key32 (repeat x55 79) = Err InvalidKey.
Proof. apply C06_pie_short. cbn. lia. Qed.

Example C06_pie_tag_tamper_nonvacuous :
  pie_unwrap (v3_pie toy) hdr_l key32 ((z 47 ++ [x80]) ++ n32 ++ secret64) = Err CryptoError.
Proof.
  apply (C06_pie_tag_tamper (v3_pie toy) hdr_l key32 (z 48) (z 47 ++ [x80]) n32 secret64);
    [reflexivity|reflexivity|reflexivity|vm_compute; reflexivity|vm_compute; discriminate].
Qed.

(* header relabel local -> secret accepted under the (constant) toy MAC: exhibited as a collision *)
Example C06_pie_forgery_is_collision_nonvacuous :
  pie_auth (v3_pie toy) key32 hdr_s n32 secret64 = pie_auth (v3_pie toy) key32 hdr_l n32 secret64 /\
  (key32, hdr_s, n32, secret64) <> (key32, hdr_l, n32, secret64).
Proof.
  apply (C06_pie_forgery_is_collision (v3_pie toy) hdr_l key32 n32 secret64 hdr_s key32 n32 secret64 secret64);
    [reflexivity|reflexivity|vm_compute; reflexivity|vm_compute; reflexivity|].
  intros H. vm_compute in H. discriminate H.
Qed.

(* MAC-input injectivity, used in contrapositive: version relabel and local<->secret relabel change the input *)
Example C06_pie_mac_input_injective_nonvacuous_version :
  str "k3" ++ hdr_l ++ n32 ++ secret64 <> str "k1" ++ hdr_l ++ n32 ++ secret64.
Proof.
  intros E. apply C06_pie_mac_input_injective in E; try reflexivity; try (cbn; tauto).
  vm_compute in E. discriminate E.
Qed.
Example C06_pie_mac_input_injective_nonvacuous_kind :
  forall c c', str "k3" ++ hdr_l ++ n32 ++ c <> str "k3" ++ hdr_s ++ n32 ++ c'.
Proof.
  intros c c' E. apply C06_pie_mac_input_injective in E; try reflexivity; try (cbn; tauto).
  inversion E.
Qed.
Example C06_pie_mac_input_injective_positive :
  (str "k3", hdr_l, n32, secret64) = (str "k3", hdr_l, n32, secret64).
Proof. apply C06_pie_mac_input_injective; try reflexivity; cbn; tauto. Qed.

(* ---- PBKW ---- *)
Example C06_pbkw_accept_iff_nonvacuous_fwd :
  exists salt params nonce c tag pre,
    blob_pw = (salt ++ params ++ nonce) ++ c ++ tag /\
    length salt = 16 /\ length params = 16 /\ length nonce = 24 /\ length tag = 32 /\
    pw_prekey (v4_pw toy) (str "correct horse") salt params = Ok pre /\
    pw_mac (v4_pw toy) (pw_ak (v4_pw toy) pre) (pw_ver (v4_pw toy) ++ hdr_pw ++ (salt ++ params ++ nonce) ++ c) = tag /\
    key32' = xorl c (pw_ks (v4_pw toy) (pw_ek (v4_pw toy) pre) nonce (length c)).
Proof. apply (proj1 (C06_pbkw_accept_iff (v4_pw toy) hdr_pw (str "correct horse") blob_pw key32')). vm_compute. reflexivity. Qed.
Example C06_pbkw_accept_iff_nonvacuous_bwd :
  pw_unwrap (v4_pw toy) hdr_pw (str "pw") ((z 16 ++ argon_params ++ z 24) ++ key32' ++ z 32) = Ok key32'.
Proof.
  apply (proj2 (C06_pbkw_accept_iff (v4_pw toy) hdr_pw (str "pw") _ key32')).
  exists (z 16), argon_params, (z 24), key32', (z 32), (z 32). msplit; vm_compute; reflexivity.
Qed.

Example C06_pbkw_short_nonvacuous : pw_unwrap (v4_pw toy) hdr_pw (str "pw") (repeat x55 87) = Err InvalidKey.
Proof. apply C06_pbkw_short. cbn. lia. Qed.

Example C06_pbkw_tag_tamper_nonvacuous :
  pw_unwrap (v4_pw toy) hdr_pw (str "pw") ((z 16 ++ argon_params ++ z 24) ++ key32' ++ (x01 :: z 31)) = Err CryptoError.
Proof.
  apply (C06_pbkw_tag_tamper (v4_pw toy) hdr_pw (str "pw") (z 16) argon_params (z 24) key32' (z 32) (x01 :: z 31) (z 32));
    [reflexivity|reflexivity|reflexivity|reflexivity|reflexivity|vm_compute; reflexivity|vm_compute; reflexivity|vm_compute; discriminate].
Qed.

Example C06_pie_unwrap_no_panic_nonvacuous : is_panic (pie_unwrap (v3_pie toy) hdr_l key32 blob_pie) = false.
Proof. apply C06_pie_unwrap_no_panic. Qed.
Example C06_pbkw_unwrap_no_panic_nonvacuous : is_panic (pw_unwrap (na_pw toy) hdr_pw (str "pw") blob_pw) = false.
Proof. apply (C06_pbkw_unwrap_no_panic toy). cbn. tauto. Qed.

(* Scope observation (see REPORT): with a MAC that ignores its input every tampering of nonce / ciphertext /
   header is ACCEPTED by the model; the C06 theorems are consistent with that, i.e. they never claim rejection
   of anything but a changed tag. *)
Example C06_everything_but_the_tag_is_unprotected_by_these_theorems :
  pie_unwrap (v3_pie toy) hdr_s key32' (z 48 ++ repeat xaa 32 ++ key32) = Ok key32.
Proof. vm_compute. reflexivity. Qed.

(* ================= PKE (seal) theorems and MAC-input theorems added after the first audit ================= *)
From PV Require Import PkeProofs PaserkTamper.
From PV.NonVacuity Require Import Toy2.

Definition epk5 : bytes := repeat x05 32.
Definition tagbad32 : bytes := z 31 ++ [x01].
Definition xof4 (O : oracle) : bytes -> option bytes := fun sk => Some (x_of_seed O sk).
Definition xofna (O : oracle) : bytes -> option bytes := fun sk => x_of_edpk O (drop 32 sk).
Definition sk64 (O : oracle) : bytes := key32' ++ ed_pk O key32'.

(* blobs produced by the model's seal functions *)
Definition blob_x4 : bytes := Eval vm_compute in unwrap (v4_pke_seal toy (ed_pk toy key32') key32 n32).
Definition blob_x2 : bytes := Eval vm_compute in unwrap (v2_pke_seal toy (ed_pk toy key32') key32 n32).
Definition blob_na : bytes := Eval vm_compute in unwrap (na_pke_seal toy2 (ed_pk toy2 key32') key32 n32).
Definition blob_p3 : bytes := Eval vm_compute in unwrap (v3_pke_seal toy 128 toy_p384 key32 esk48).
Definition blob_r1 : bytes := Eval vm_compute in unwrap (v1_pke_seal toy (rsa_pk toy key32) key32' r512).
Example pke_blobs_nontrivial :
  length blob_x4 = 96 /\ length blob_x2 = 96 /\ length blob_na = 96 /\ length blob_p3 = 129 /\ length blob_r1 = 592 /\
  drop 64 blob_x4 = key32 /\ drop 97 blob_p3 = key32 /\ take 32 (drop 48 blob_r1) = key32'.
Proof. msplit; reflexivity. Qed.

(* ---- *_is_generic: definitional bridges (closed by reflexivity: the backend functions ARE instances of the
        generic one); both sides are the same SUCCESSFUL result on the sealed blob ---- *)
Example C06_v4_pke_is_generic_nonvacuous :
  v4_pke_unseal toy key32' blob_x4 = x_pke_unseal toy (str "k4") false (xof4 toy) key32' blob_x4 /\
  x_pke_unseal toy (str "k4") false (xof4 toy) key32' blob_x4 = Ok key32.
Proof. split; [exact (C06_v4_pke_is_generic toy key32' blob_x4)|vm_compute; reflexivity]. Qed.
Example C06_v2_pke_is_generic_nonvacuous :
  v2_pke_unseal toy key32' blob_x2 = x_pke_unseal toy (str "k2") false (xof4 toy) key32' blob_x2 /\
  x_pke_unseal toy (str "k2") false (xof4 toy) key32' blob_x2 = Ok key32.
Proof. split; [exact (C06_v2_pke_is_generic toy key32' blob_x2)|vm_compute; reflexivity]. Qed.
Example C06_v4_sodium_pke_is_generic_nonvacuous :
  na_pke_unseal toy2 (sk64 toy2) blob_na = x_pke_unseal toy2 (str "k4") true (xofna toy2) (sk64 toy2) blob_na /\
  x_pke_unseal toy2 (str "k4") true (xofna toy2) (sk64 toy2) blob_na = Ok key32 /\
  (* with the all-zero shared secret of [toy] the strict backend refuses the same blob *)
  x_pke_unseal toy (str "k4") true (xofna toy) (sk64 toy) blob_na = Err CryptoError.
Proof. msplit; [exact (C06_v4_sodium_pke_is_generic toy2 (sk64 toy2) blob_na)|vm_compute; reflexivity|vm_compute; reflexivity]. Qed.
Example C06_v3_pke_is_generic_nonvacuous :
  v3_pke_unseal toy sk48 blob_p3 = v3_pke_unseal_gen toy ctr_w_rustcrypto CryptoError sk48 blob_p3 /\
  lc_pke_unseal toy sk48 blob_p3 = v3_pke_unseal_gen toy ctr_w_awslc InvalidKey sk48 blob_p3 /\
  v3_pke_unseal_gen toy ctr_w_rustcrypto CryptoError sk48 blob_p3 = Ok key32 /\
  v3_pke_unseal_gen toy ctr_w_awslc InvalidKey sk48 blob_p3 = Ok key32.
Proof.
  destruct (C06_v3_pke_is_generic toy sk48 blob_p3) as (A & B).
  msplit; [exact A|exact B|vm_compute; reflexivity|vm_compute; reflexivity].
Qed.
(* the two instances differ where the parameter says so: an unparsable ephemeral key *)
Definition noParse : oracle := fun name args => if String.eqb name "p384_parse" then [] else toy name args.
Example C06_v3_pke_is_generic_nonvacuous_instances_differ :
  v3_pke_unseal noParse sk48 blob_p3 = Err CryptoError /\ lc_pke_unseal noParse sk48 blob_p3 = Err InvalidKey.
Proof. split; vm_compute; reflexivity. Qed.

(* ---- X25519 accept-iff, both directions ---- *)
Example C06_pke_x25519_accept_iff_nonvacuous_fwd :
  exists tag epk edk xpk,
    blob_x4 = tag ++ epk ++ edk /\ length tag = 32 /\ length epk = 32 /\ length edk = 32 /\
    xof4 toy key32' = Some xpk /\
    false && beq (x_mul_seed toy (take 32 key32') epk) zero32 = false /\
    x_tag toy (str "k4") (x_mul_seed toy (take 32 key32') epk) epk xpk edk = tag /\
    key32 = xorl edk (xchacha20 toy (x_ek toy (str "k4") (x_mul_seed toy (take 32 key32') epk) epk xpk) (x_nonce toy epk xpk) 32).
Proof.
  apply (proj1 (C06_pke_x25519_accept_iff toy (str "k4") false (xof4 toy) key32' blob_x4 key32)). vm_compute. reflexivity.
Qed.
(* a blob assembled by hand (ephemeral key 05..05, not one the toy seal would produce) with the right tag *)
Example C06_pke_x25519_accept_iff_nonvacuous_bwd :
  x_pke_unseal toy (str "k4") false (xof4 toy) key32' (z 32 ++ epk5 ++ repeat x33 32) = Ok (repeat x33 32).
Proof.
  apply (proj2 (C06_pke_x25519_accept_iff toy (str "k4") false (xof4 toy) key32' _ (repeat x33 32))).
  exists (z 32), epk5, (repeat x33 32), (z 32). msplit; vm_compute; reflexivity.
Qed.
(* strict backend, second model (shared secret 01..01): accepted; and the strictness conjunct is a real
   restriction: with [toy] it is false and the blob is refused *)
Example C06_pke_x25519_accept_iff_nonvacuous_strict :
  x_pke_unseal toy2 (str "k4") true (xofna toy2) (sk64 toy2) (z 32 ++ epk5 ++ repeat x33 32) = Ok (repeat x33 32) /\
  true && beq (x_mul_seed toy (take 32 (sk64 toy)) epk5) zero32 = true /\
  x_pke_unseal toy (str "k4") true (xofna toy) (sk64 toy) (z 32 ++ epk5 ++ repeat x33 32) <> Ok (repeat x33 32).
Proof.
  msplit.
  - apply (proj2 (C06_pke_x25519_accept_iff toy2 (str "k4") true (xofna toy2) (sk64 toy2) _ (repeat x33 32))).
    exists (z 32), epk5, (repeat x33 32), (z 32). msplit; vm_compute; reflexivity.
  - vm_compute. reflexivity.
  - intros H. apply (proj1 (C06_pke_x25519_accept_iff toy (str "k4") true (xofna toy) (sk64 toy) _ _)) in H.
    destruct H as (tag & epk & edk & xpk & E & Lt & Le & Ld & _ & Hs & _).
    assert (epk = epk5).
    { change (z 32 ++ epk5 ++ repeat x33 32) with (z 32 ++ (epk5 ++ repeat x33 32)) in E.
      apply app_eq_len in E as [_ E]; [|rewrite Lt; reflexivity].
      apply app_eq_len in E as [E _]; [|rewrite Le; reflexivity]. symmetry. exact E. }
    subst epk. vm_compute in Hs. discriminate Hs.
Qed.

Example C06_pke_x25519_wrong_length_nonvacuous :
  x_pke_unseal toy (str "k4") false (xof4 toy) key32' (take 95 blob_x4) = Err InvalidKey /\
  x_pke_unseal toy (str "k4") false (xof4 toy) key32' (blob_x4 ++ [x00]) = Err InvalidKey /\
  x_pke_unseal toy2 (str "k4") true (xofna toy2) (sk64 toy2) [] = Err InvalidKey.
Proof. msplit; apply C06_pke_x25519_wrong_length; vm_compute; discriminate. Qed.

Example C06_pke_x25519_tag_tamper_nonvacuous :
  x_pke_unseal toy (str "k4") false (xof4 toy) key32' (z 32 ++ z 32 ++ key32) = Ok key32 /\
  blob_x4 = z 32 ++ z 32 ++ key32 /\
  x_pke_unseal toy (str "k4") false (xof4 toy) key32' (tagbad32 ++ z 32 ++ key32) = Err CryptoError /\
  x_pke_unseal toy2 (str "k4") true (xofna toy2) (sk64 toy2) (tagbad32 ++ z 32 ++ key32) = Err CryptoError.
Proof.
  msplit; [vm_compute; reflexivity|vm_compute; reflexivity| |].
  - apply (C06_pke_x25519_tag_tamper toy (str "k4") false (xof4 toy) key32' tagbad32 (z 32) key32 (z 32));
      [reflexivity|reflexivity|reflexivity|reflexivity|reflexivity|vm_compute; discriminate].
  - apply (C06_pke_x25519_tag_tamper toy2 (str "k4") true (xofna toy2) (sk64 toy2) tagbad32 (z 32) key32 (z 32));
      [reflexivity|reflexivity|reflexivity|vm_compute; reflexivity|vm_compute; reflexivity|vm_compute; discriminate].
Qed.

(* a forgery (other ephemeral key, other ciphertext) accepted under the genuine tag exists exactly where the MAC
   collides; the toy MAC is constant, so the hypotheses are satisfiable and the theorem hands out the collision *)
Example C06_pke_x25519_forgery_is_collision_nonvacuous :
  x_tag toy (str "k4") (x_mul_seed toy (take 32 key32') epk5) epk5 (z 32) key32' =
  x_tag toy (str "k4") (x_mul_seed toy (take 32 key32') (z 32)) (z 32) (z 32) key32 /\
  (epk5, key32') <> (z 32, key32).
Proof.
  apply (C06_pke_x25519_forgery_is_collision toy (str "k4") false (xof4 toy) key32' (z 32) key32 (z 32) epk5 key32' key32');
    [reflexivity|reflexivity|reflexivity|reflexivity|vm_compute; reflexivity|vm_compute; reflexivity|].
  intros H. vm_compute in H. discriminate H.
Qed.

(* ---- v3 (P-384) ---- *)
Definition tagbad48 : bytes := z 47 ++ [x01].
Example C06_pke_v3_accept_iff_nonvacuous_fwd :
  exists tag epk edk pk epk' xk,
    blob_p3 = tag ++ epk ++ edk /\ length tag = 48 /\ length epk = 49 /\ length edk = 32 /\
    p384_pk toy sk48 = Some pk /\ p384_parse toy epk = Some epk' /\ ecdh_p384 toy sk48 epk' = Some xk /\
    v3_tag toy xk epk pk edk = tag /\
    key32 = xorl edk (aes_ctr toy 128 (v3_ek toy xk epk pk) (v3_n toy xk epk pk) 32).
Proof. apply (proj1 (C06_pke_v3_accept_iff toy 128%N InvalidKey sk48 blob_p3 key32)). vm_compute. reflexivity. Qed.
(* by hand: an ephemeral key that is not in canonical form (03 || 11..11) and parses to the toy point *)
Definition epk49 : bytes := x03 :: repeat x11 48.
Example C06_pke_v3_accept_iff_nonvacuous_bwd :
  v3_pke_unseal_gen toy 32 CryptoError sk48 (z 48 ++ epk49 ++ key32') = Ok key32'.
Proof.
  apply (proj2 (C06_pke_v3_accept_iff toy 32%N CryptoError sk48 _ key32')).
  exists (z 48), epk49, key32', toy_p384, toy_p384, (z 48). msplit; vm_compute; reflexivity.
Qed.
Example C06_pke_v3_wrong_length_nonvacuous :
  v3_pke_unseal_gen toy 128 InvalidKey sk48 (take 128 blob_p3) = Err InvalidKey /\
  v3_pke_unseal_gen toy 128 InvalidKey sk48 (blob_p3 ++ [x00]) = Err InvalidKey /\
  v3_pke_unseal_gen toy 32 CryptoError sk48 (z 96) = Err InvalidKey.
Proof. msplit; apply C06_pke_v3_wrong_length; vm_compute; discriminate. Qed.
Example C06_pke_v3_tag_tamper_nonvacuous :
  blob_p3 = z 48 ++ toy_p384 ++ key32 /\
  v3_pke_unseal_gen toy 128 InvalidKey sk48 (z 48 ++ toy_p384 ++ key32) = Ok key32 /\
  v3_pke_unseal_gen toy 128 InvalidKey sk48 (tagbad48 ++ toy_p384 ++ key32) = Err CryptoError.
Proof.
  msplit; [vm_compute; reflexivity|vm_compute; reflexivity|].
  apply (C06_pke_v3_tag_tamper toy 128%N InvalidKey sk48 tagbad48 toy_p384 key32 toy_p384 toy_p384 (z 48));
    [reflexivity|reflexivity|reflexivity|reflexivity|reflexivity|reflexivity|vm_compute; discriminate].
Qed.

(* ---- v1 (RSA-KEM) ---- *)
Definition c512 : bytes := Eval vm_compute in drop 80 blob_r1.
Definition rn_toy : N := Eval vm_compute in match rsa_dec toy key32 (be_val c512) with Some r => r | None => 0%N end.
Example C06_pke_v1_accept_iff_nonvacuous_fwd :
  exists tag edk c rn,
    blob_r1 = tag ++ edk ++ c /\ length tag = 48 /\ length edk = 32 /\ length c = 512 /\
    rsa_dec toy key32 (be_val c) = Some rn /\
    v1_tag toy c (be_minimal rn) edk = tag /\
    key32' = xorl edk (aes_ctr toy ctr_w_rustcrypto (v1_ek toy c (be_minimal rn)) (v1_n toy c (be_minimal rn)) 32).
Proof. apply (proj1 (C06_pke_v1_accept_iff toy key32 blob_r1 key32')). vm_compute. reflexivity. Qed.
Example C06_pke_v1_accept_iff_nonvacuous_bwd :
  v1_pke_unseal toy2 key32 (z 48 ++ key32 ++ c512) = Ok key32.
Proof.
  apply (proj2 (C06_pke_v1_accept_iff toy2 key32 _ key32)).
  exists (z 48), key32, c512. eexists. msplit; try (vm_compute; reflexivity).
Qed.
Example C06_pke_v1_wrong_length_nonvacuous :
  v1_pke_unseal toy key32 (take 591 blob_r1) = Err InvalidKey /\
  v1_pke_unseal toy key32 (blob_r1 ++ [x00]) = Err InvalidKey /\
  v1_pke_unseal toy key32 (z 96) = Err InvalidKey.
Proof. msplit; apply C06_pke_v1_wrong_length; vm_compute; discriminate. Qed.
Example C06_pke_v1_tag_tamper_nonvacuous :
  v1_pke_unseal toy key32 (z 48 ++ key32' ++ c512) = Ok key32' /\ blob_r1 = z 48 ++ key32' ++ c512 /\
  v1_pke_unseal toy key32 (tagbad48 ++ key32' ++ c512) = Err CryptoError.
Proof.
  msplit; [vm_compute; reflexivity|vm_compute; reflexivity|].
  apply (C06_pke_v1_tag_tamper toy key32 tagbad48 key32' c512 rn_toy);
    [reflexivity|reflexivity|reflexivity|vm_compute; reflexivity|vm_compute; discriminate].
Qed.

(* ---- MAC inputs ---- *)
(* version relabel k4 -> k2 of a sealed key changes the MAC input; so does moving a byte from epk to edk being
   impossible at equal epk length: used in contrapositive *)
Example C06_pke_mac_input_injective_nonvacuous :
  str "k4" ++ str ".seal." ++ epk5 ++ key32 <> str "k2" ++ str ".seal." ++ epk5 ++ key32 /\
  (forall edk edk', str "k4" ++ str ".seal." ++ epk5 ++ edk <> str "k4" ++ str ".seal." ++ z 32 ++ edk') /\
  (str "k4", epk5, key32) = (str "k4", epk5, key32).
Proof.
  msplit.
  - intros E. apply C06_pke_mac_input_injective in E; try reflexivity. vm_compute in E. discriminate E.
  - intros edk edk' E. apply C06_pke_mac_input_injective in E; try reflexivity. vm_compute in E. discriminate E.
  - apply (C06_pke_mac_input_injective _ _ (str ".seal.")); reflexivity.
Qed.
(* the equal-length hypothesis is needed: without it a byte can move between epk and edk *)
Example C06_pke_mac_input_injective_nonvacuous_hyp_needed :
  str "k4" ++ str ".seal." ++ [x01] ++ [x02; x03] = str "k4" ++ str ".seal." ++ [x01; x02] ++ [x03] /\
  (str "k4", [x01], [x02; x03]) <> (str "k4", [x01; x02], [x03]).
Proof. split; [reflexivity|discriminate]. Qed.

Example C06_pie_auth_input_nonvacuous :
  pie_auth (v3_pie toy) key32 hdr_l n32 secret64 = pie_mac (v3_pie toy) key32 n32 (str "k3" ++ hdr_l ++ n32 ++ secret64) /\
  pie_auth (v4_pie toy) key32 hdr_s n32 secret64 = pie_mac (v4_pie toy) key32 n32 (str "k4" ++ hdr_s ++ n32 ++ secret64) /\
  length (str "k3" ++ hdr_l ++ n32 ++ secret64) = 2 + 16 + 32 + 64.
Proof.
  msplit; [exact (C06_pie_auth_input (v3_pie toy) key32 hdr_l n32 secret64)
          |exact (C06_pie_auth_input (v4_pie toy) key32 hdr_s n32 secret64)|reflexivity].
Qed.
(* the MAC input depends on every component: a MAC that is the identity on its message (junk record otherwise)
   turns [pie_auth] into the input itself *)
Definition idmac_pie : pie_params :=
  {| pie_ver := str "k9"; pie_tlen := 0; pie_ks := fun _ _ _ => []; pie_mac := fun _ _ m => m |}.
Example C06_pie_auth_input_nonvacuous_depends :
  pie_auth idmac_pie key32 hdr_l n32 [x01] = str "k9" ++ hdr_l ++ n32 ++ [x01] /\
  pie_auth idmac_pie key32 hdr_l n32 [x01] <> pie_auth idmac_pie key32 hdr_s n32 [x01].
Proof. split; [exact (C06_pie_auth_input idmac_pie key32 hdr_l n32 [x01])|vm_compute; discriminate]. Qed.

Example C06_pie_auth_inputs_differ_nonvacuous :
  (* version relabel k3 -> k4, kind relabel local -> secret, nonce/ciphertext change *)
  pie_ver (v3_pie toy) ++ hdr_l ++ n32 ++ secret64 <> pie_ver (v4_pie toy) ++ hdr_l ++ n32 ++ secret64 /\
  pie_ver (v3_pie toy) ++ hdr_l ++ n32 ++ secret64 <> pie_ver (v3_pie toy) ++ hdr_s ++ n32 ++ secret64 /\
  pie_ver (v3_pie toy) ++ hdr_l ++ n32 ++ secret64 <> pie_ver (v3_pie toy) ++ hdr_l ++ z 32 ++ secret64 /\
  pie_ver (v3_pie toy) ++ hdr_l ++ n32 ++ secret64 <> pie_ver (v3_pie toy) ++ hdr_l ++ n32 ++ (secret64 ++ [x00]).
Proof.
  msplit; apply C06_pie_auth_inputs_differ; try reflexivity; try (cbn; tauto); vm_compute; discriminate.
Qed.

Example C06_pbkw_mac_input_injective_nonvacuous :
  str "k4" ++ hdr_pw ++ (z 16 ++ argon_params ++ z 24) ++ key32 <> str "k2" ++ hdr_pw ++ (z 16 ++ argon_params ++ z 24) ++ key32 /\
  (forall c c', str "k4" ++ hdr_pw ++ (z 16 ++ argon_params ++ z 24) ++ c <>
                str "k4" ++ str ".secret-pw." ++ (z 16 ++ argon_params ++ z 24) ++ c') /\
  (str "k4", hdr_pw, z 56, key32) = (str "k4", hdr_pw, z 56, key32).
Proof.
  msplit.
  - intros E. apply C06_pbkw_mac_input_injective in E; try reflexivity; try (cbn; tauto). vm_compute in E. discriminate E.
  - intros c c' E. apply C06_pbkw_mac_input_injective in E; try reflexivity; try (cbn; tauto). vm_compute in E. discriminate E.
  - apply C06_pbkw_mac_input_injective; try reflexivity; cbn; tauto.
Qed.

Example C06_pbkw_prefix_injective_nonvacuous :
  (* moving the boundary between salt and parameters, or between parameters and nonce, is impossible *)
  (forall n n', z 16 ++ argon_params ++ n <> (z 15 ++ [x01]) ++ argon_params ++ n') /\
  (forall n', z 16 ++ argon_params ++ z 24 = z 16 ++ argon_params ++ n' -> n' = z 24) /\
  (z 32, be_bytes 4 1000, z 16) = (z 32, be_bytes 4 1000, z 16).
Proof.
  msplit.
  - intros n n' E. apply (C06_pbkw_prefix_injective (v4_pw toy)) in E; try reflexivity. vm_compute in E. discriminate E.
  - intros n' E. apply (C06_pbkw_prefix_injective (v4_pw toy)) in E; try reflexivity. inversion E. reflexivity.
  - apply (C06_pbkw_prefix_injective (lc_pw toy)); reflexivity.
Qed.

(* Scope observation for the PKE theorems (WEAKER than the property sentence, same kind as the PIE remark above):
   "using any other recipient key returns an error" is not claimed by any C06 theorem — the x25519 collision theorem
   fixes [sk] and varies (epk, edk) only, and v3 / v1 have no collision theorem at all.  Consistently, under the toy
   MAC another recipient's secret key and a tampered ephemeral key are ACCEPTED by the model: *)
Example C06_pke_other_recipient_is_unprotected_by_these_theorems :
  x_pke_unseal toy (str "k4") false (xof4 toy) key32 blob_x4 = Ok key32 /\            (* key32 is not the recipient *)
  x_pke_unseal toy (str "k4") false (xof4 toy) key32' (z 32 ++ epk5 ++ key32) = Ok key32 /\   (* other epk *)
  v3_pke_unseal_gen toy 128 InvalidKey (z 47 ++ [x07]) blob_p3 = Ok key32.
Proof. msplit; vm_compute; reflexivity. Qed.

(* ---- text level ---- *)
From PV Require Import Base64 Text TextProofs.
Example C06_text_change_changes_blob_nonvacuous :
  forall d1 d2,
    parse_paserk (str "k4") (str ".local-wrap.pie.") (str "k4.local-wrap.pie.AAAA") = Ok d1 ->
    parse_paserk (str "k4") (str ".local-wrap.pie.") (str "k4.local-wrap.pie.AAAAAAAA") = Ok d2 -> d1 <> d2.
Proof.
  intros d1 d2 H1 H2. apply (C06_text_change_changes_blob _ _ _ _ _ _ H1 H2). vm_compute. discriminate.
Qed.
Example C06_text_change_hyps_hold :
  parse_paserk (str "k4") (str ".local-wrap.pie.") (str "k4.local-wrap.pie.AAAA") = Ok (repeat x00 3) /\
  parse_paserk (str "k4") (str ".local-wrap.pie.") (str "k4.local-wrap.pie.AAAAAAAA") = Ok (repeat x00 6) /\
  (* one dangling character, a trailing dot, padding: not accepted at all *)
  parse_paserk (str "k4") (str ".local-wrap.pie.") (str "k4.local-wrap.pie.AAAAA") = Err Base64DecodeError /\
  parse_paserk (str "k4") (str ".local-wrap.pie.") (str "k4.local-wrap.pie.AAAA.") = Err Base64DecodeError /\
  parse_paserk (str "k4") (str ".local-wrap.pie.") (str "k4.local-wrap.pie.AAA=") = Err Base64DecodeError.
Proof. vm_compute. repeat split. Qed.

