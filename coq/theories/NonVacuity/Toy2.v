(* NonVacuity/Toy2.v — a second model of [laws], differing from [toy] where [toy] is too degenerate to meet
   the extra hypotheses of some theorems:
     - X25519 shared secrets are 01..01 (toy: 00..00 = zero32, which falsifies the premise of the strict
       libsodium round trip C05_v4_sodium_pke_roundtrip);
     - RSA "encryption" flips bit 6 of the first of the 512 bytes (toy: identity, so a masked 512-byte r
       never encrypts to a value with a leading zero byte, the case C05_v1_pke_minimal_refuted is about). *)
From Coq Require Import List NArith String Bool Lia Arith.
From PV Require Import Bytes Result Oracle BigEndian Keys ToyOracle.
Import ListNotations.
Local Open Scope string_scope.
Local Open Scope list_scope.
Set Default Timeout 15.

Definition flip (bs : bytes) : bytes :=
  match bs with b :: r => bxor b x40 :: r | [] => [] end.

Lemma flip_flip bs : flip (flip bs) = bs.
Proof. destruct bs; cbn [flip]; [reflexivity|]. rewrite bxor_involutive. reflexivity. Qed.
Lemma flip_length bs : length (flip bs) = length bs.
Proof. destruct bs; reflexivity. Qed.

Definition ones32 : bytes := repeat x01 32.

Definition toy2 : oracle := fun name args =>
  if String.eqb name "x_mul" then [ones32]
  else if String.eqb name "x_mul_seed" then [ones32]
  else if String.eqb name "rsa_enc" then match args with [_; r] => [flip r] | _ => [] end
  else if String.eqb name "rsa_dec" then match args with [_; c] => [flip c] | _ => [] end
  else toy name args.

Lemma pow2_4095_lt : (2 ^ 4095 < 256 ^ N.of_nat 512)%N.
Proof.
  assert (E : (256 = 2 ^ 8)%N) by reflexivity.
  assert (E2 : N.of_nat 512 = 512%N) by reflexivity.
  rewrite E, E2, <- N.pow_mul_r. apply N.pow_lt_mono_r; lia.
Qed.

Definition special (name : string) : bool :=
  existsb (String.eqb name) ["x_mul"; "x_mul_seed"; "rsa_enc"; "rsa_dec"].

Lemma toy2_other name args : special name = false -> toy2 name args = toy name args.
Proof.
  unfold special. cbn [existsb]. intros H. unfold toy2.
  destruct (String.eqb name "x_mul"); [discriminate H|].
  destruct (String.eqb name "x_mul_seed"); [discriminate H|].
  destruct (String.eqb name "rsa_enc"); [discriminate H|].
  destruct (String.eqb name "rsa_dec"); [discriminate H|]. reflexivity.
Qed.

Ltac unfold_prims :=
  unfold sha384, hmac384, hkdf384, blake2b, pbkdf2_384, argon2id, aes256, xchacha20, xcp_seal, xcp_open,
    ed_pk, ed_pk_ok, ed_sign, ed_verify, ed_verify_strict, p384_pk, p384_parse, ecdsa_sign, ecdsa_verify,
    ecdh_p384, x_of_edpk, x_of_seed, x_base, rsa_pk, rsa_pss_sign, rsa_pss_verify, call1 in *.
Ltac norm :=
  repeat match goal with
         | H : context [toy2 ?n ?a] |- _ => rewrite (toy2_other n a eq_refl) in H
         | |- context [toy2 ?n ?a] => rewrite (toy2_other n a eq_refl)
         end.
Ltac via lem := intros; unfold_prims; norm; first [apply (lem toy toy_laws); assumption | eapply (lem toy toy_laws); eassumption].

Theorem toy2_laws : laws toy2.
Proof.
  constructor.
  - via sha384_len.
  - via hmac384_len.
  - via hkdf384_len.
  - via blake2b_len.
  - via aes256_len.
  - via xchacha20_len.
  - via pbkdf2_len.
  - via argon2id_len.
  - via xcp_seal_len.
  - via xcp_open_seal.
  - via xcp_open_len.
  - via xcp_tag_unique.
  - via ed_pk_len.
  - via ed_pk_valid.
  - via ed_sign_len.
  - via ed_verify_sign.
  - via ed_verify_strict_sign.
  - via p384_pk_len.
  - via p384_parse_len.
  - via p384_parse_canon.
  - via p384_pk_parses.
  - via ecdsa_range.
  - via ecdsa_verify_sign.
  - via ecdsa_verify_neg_s.
  - via ecdh_comm.
  - via ecdh_len.
  - via x_of_edpk_seed.
  - intros sd r. reflexivity.
  - via x_base_len.
  - via rsa_pss_len.
  - via rsa_pss_verify_sign.
  - intros pk r c E.
    assert (E' : Some (be_val (flip (be_bytes 512 r))) = Some c) by exact E.
    apply Some_inj in E'. subst c. pose proof (be_val_bound (flip (be_bytes 512 r))) as Hb.
    rewrite flip_length, be_bytes_length in Hb. exact Hb.
  - intros sk r c Hr E.
    assert (E' : Some (be_val (flip (be_bytes 512 r))) = Some c) by exact E.
    apply Some_inj in E'. subst c.
    change (rsa_dec toy2 sk (be_val (flip (be_bytes 512 r)))) with
           (Some (be_val (flip (be_bytes 512 (be_val (flip (be_bytes 512 r))))))).
    f_equal.
    assert (L512 : length (flip (be_bytes 512 r)) = 512) by (rewrite flip_length; apply be_bytes_length).
    rewrite <- L512 at 1. rewrite be_bytes_be_val, flip_flip, be_val_be_bytes.
    apply N.mod_small. pose proof pow2_4095_lt. lia.
  (* arguments the toy primitives ignore were left undetermined by unification: any value will do *)
  Unshelve. all: first [exact [] | exact 0%N | exact 0].
Qed.

Theorem toy2_key_premises :
  (forall sd, ed_pk_weak (ed_pk toy2 sd) = false) /\
  (forall sd, na_point_valid (ed_pk toy2 sd) = true) /\
  (forall bs pk, p384_parse toy2 bs = Some pk -> compressed_tag pk = true) /\
  (forall sk pk, p384_pk toy2 sk = Some pk -> compressed_tag pk = true).
Proof.
  destruct toy_key_premises as (A & B & C & D).
  repeat split; intros; unfold_prims; norm; first [apply A|apply B|eapply C; eassumption|eapply D; eassumption].
  Unshelve. all: exact [].
Qed.
