(* NonVacuity/C08.v — audit of Properties/C08.v: every theorem is applied to a concrete, non-trivial instance
   (the toy oracle, a real 32-byte seed, a 48-byte scalar with leading zeros, ...). *)
From Coq Require Import List NArith String Bool Lia Arith.
From PV Require Import Bytes Result Oracle Keys KeysProofs ToyOracle.
From PV.Properties Require Import C08.
Import ListNotations.
Local Open Scope list_scope.

(* 01 02 ... 20 : a 32-byte seed / local key that is not all-zero *)
Definition seed32 : bytes := map (fun i => n2b (N.of_nat i)) (seq 1 32).
(* 48-byte scalar with 46 leading zero bytes: 00 .. 00 01 02 *)
Definition small48 : bytes := repeat x00 46 ++ [n2b 1; n2b 2].
Definition zero48 : bytes := repeat x00 48.

Lemma toy_nw : forall sd, ed_pk_weak (ed_pk toy sd) = false.
Proof. exact (proj1 toy_key_premises). Qed.
Lemma toy_tag : forall bs pk, p384_parse toy bs = Some pk -> compressed_tag pk = true.
Proof. exact (proj1 (proj2 (proj2 toy_key_premises))). Qed.
Lemma toy_tag' : forall sk pk, p384_pk toy sk = Some pk -> compressed_tag pk = true.
Proof. exact (proj2 (proj2 (proj2 toy_key_premises))). Qed.

(* ---------------- local ---------------- *)
Example C08_local_exact_nonvacuous : decode_local seed32 = Ok seed32.
Proof. apply (proj2 (C08_local_exact seed32 seed32)). split; reflexivity. Qed.
Example C08_local_exact_nonvacuous_rev : forall k, decode_local seed32 = Ok k -> k = seed32.
Proof. intros k H. exact (proj2 (proj1 (C08_local_exact seed32 k) H)). Qed.
Example C08_local_wrong_length_nonvacuous :
  decode_local (take 31 seed32) = Err InvalidKey /\ decode_local (seed32 ++ seed32) = Err InvalidKey /\
  decode_local [] = Err InvalidKey.
Proof. repeat split; apply C08_local_wrong_length; vm_compute; discriminate. Qed.

(* ---------------- Ed25519, dalek ---------------- *)
Example C08_ed_public_exact_nonvacuous : dalek_decode_public toy toy_edpk = Ok toy_edpk.
Proof. apply (proj2 (C08_ed_public_exact toy toy_edpk toy_edpk)). repeat split. Qed.
(* the negative directions are reachable too: identity (both encodings, either sign) and an oracle that says
   "not a curve point" *)
Definition toy_offcurve : oracle := fun name args => if String.eqb name "ed_pk_ok" then [hex "00"] else toy name args.
Example C08_ed_public_exact_rejects :
  dalek_decode_public toy ed_one = Err InvalidKey /\
  dalek_decode_public toy ed_p_plus_one = Err InvalidKey /\
  dalek_decode_public toy (n2b 1 :: repeat x00 30 ++ [n2b 128]) = Err InvalidKey /\
  dalek_decode_public toy_offcurve toy_edpk = Err InvalidKey /\
  forall k, dalek_decode_public toy_offcurve toy_edpk <> Ok k.
Proof.
  repeat split; try (vm_compute; reflexivity).
  intros k H. apply (proj1 (C08_ed_public_exact _ _ _)) in H. destruct H as (_ & H & _). vm_compute in H. discriminate.
Qed.

Example C08_ed_secret_roundtrip_nonvacuous :
  dalek_decode_secret toy (dalek_encode_secret toy seed32) = Ok seed32.
Proof. apply (C08_ed_secret_roundtrip toy toy_laws toy_nw seed32). reflexivity. Qed.
(* same thing by computation: the theorem's conclusion is the value the model computes *)
Example C08_ed_secret_roundtrip_computed :
  dalek_decode_secret toy (seed32 ++ toy_edpk) = Ok seed32.
Proof. vm_compute. reflexivity. Qed.

Example C08_ed_secret_canonical_nonvacuous :
  length seed32 = 32 /\ seed32 ++ toy_edpk = dalek_encode_secret toy seed32 /\ length (seed32 ++ toy_edpk) = 64.
Proof. apply (C08_ed_secret_canonical toy (seed32 ++ toy_edpk) seed32). vm_compute. reflexivity. Qed.
(* a 64-byte string whose public half is NOT the seed's key is refused (F6-style input) *)
Example C08_ed_secret_canonical_rejects_mismatch :
  dalek_decode_secret toy (seed32 ++ seed32) = Err InvalidKey.
Proof. vm_compute. reflexivity. Qed.

Example C08_ed_secret_wrong_length_nonvacuous :
  (exists e, dalek_decode_secret toy seed32 = Err e) /\
  (exists e, dalek_decode_secret toy (seed32 ++ toy_edpk ++ [x00]) = Err e).
Proof. split; apply C08_ed_secret_wrong_length; vm_compute; discriminate. Qed.
(* the witness is the expected error, not junk *)
Example C08_ed_secret_wrong_length_witness :
  dalek_decode_secret toy seed32 = Err InvalidKey /\ dalek_decode_secret toy (seed32 ++ toy_edpk ++ [x00]) = Err InvalidKey.
Proof. vm_compute. split; reflexivity. Qed.

Example C08_ed_public_is_public_half_nonvacuous :
  dalek_public_of toy seed32 = drop 32 (dalek_encode_secret toy seed32) /\ dalek_public_of toy seed32 = toy_edpk.
Proof. split; [apply C08_ed_public_is_public_half; reflexivity | reflexivity]. Qed.
(* NOTE (hypothesis needed): without [length seed = 32] the statement is false *)
Example C08_ed_public_is_public_half_needs_length :
  dalek_public_of toy [] <> drop 32 (dalek_encode_secret toy []).
Proof. vm_compute. discriminate. Qed.

Example C08_ed_public_verifies_nonvacuous :
  ed_verify toy (dalek_public_of toy seed32) (str "msg") (ed_sign toy seed32 (str "msg")) = true.
Proof. apply (C08_ed_public_verifies toy toy_laws). Qed.

(* ---------------- Ed25519, libsodium ---------------- *)
Example C08_sodium_secret_exact_nonvacuous :
  na_decode_secret toy (seed32 ++ toy_edpk) = Ok (seed32 ++ toy_edpk) /\
  (forall sk, na_decode_secret toy (seed32 ++ seed32) <> Ok sk).
Proof.
  split.
  - apply (proj2 (C08_sodium_secret_exact toy _ _)). repeat split.
  - intros sk H. apply (proj1 (C08_sodium_secret_exact toy _ _)) in H. destruct H as (_ & H & _).
    vm_compute in H. discriminate.
Qed.
Example C08_sodium_secret_roundtrip_nonvacuous :
  na_decode_secret toy (seed32 ++ ed_pk toy seed32) = Ok (seed32 ++ ed_pk toy seed32).
Proof. apply (C08_sodium_secret_roundtrip toy toy_laws). reflexivity. Qed.
Example C08_sodium_public_verifies_nonvacuous :
  ed_verify_strict toy (na_public_of (seed32 ++ toy_edpk)) (str "msg") (ed_sign toy (take 32 (seed32 ++ toy_edpk)) (str "msg")) = true.
Proof.
  apply (C08_sodium_public_verifies toy toy_laws (seed32 ++ toy_edpk)). vm_compute. reflexivity.
Qed.
Example C08_sodium_public_exact_nonvacuous :
  na_decode_public toy_edpk = Ok toy_edpk /\ na_decode_public ed_one = Err InvalidKey /\
  na_decode_public (take 31 toy_edpk) = Err InvalidKey.
Proof.
  split; [|split; vm_compute; reflexivity].
  apply (proj2 (C08_sodium_public_exact _ _)). repeat split.
Qed.
(* K5 (known finding) is visible in the model: ANY non-identity 32 bytes is a libsodium public key, there is
   no curve-membership test, so "off-curve points are rejected" is not claimed for this backend *)
Example C08_sodium_public_accepts_any_nonidentity :
  forall O : oracle, na_decode_public seed32 = Ok seed32.
Proof. intros _. vm_compute. reflexivity. Qed.

(* ---------------- P-384 ---------------- *)
Example C08_v3_secret_exact_nonvacuous :
  v3_decode_secret toy small48 = Ok small48 /\ v3_decode_secret toy (take 47 small48) = Err InvalidKey.
Proof.
  split; [|vm_compute; reflexivity].
  apply (proj2 (C08_v3_secret_exact toy _ _)). repeat split. vm_compute. discriminate.
Qed.
(* an oracle that refuses the zero scalar: the [p384_pk O bs <> None] conjunct is what rejects it *)
Definition toy_range : oracle := fun name args =>
  if String.eqb name "p384_pk" then match args with [sk] => if N.eqb (be_val sk) 0 then [] else [toy_p384] | _ => [] end
  else toy name args.
Example C08_v3_secret_exact_rejects_zero :
  v3_decode_secret toy_range zero48 = Err InvalidKey /\ v3_decode_secret toy_range small48 = Ok small48 /\
  lc_decode_secret toy_range zero48 = Err CryptoError.
Proof. vm_compute. repeat split. Qed.
(* WEAKER-THAN-PROPERTY witness: [laws] does not force range checking; the toy oracle accepts scalar 0 *)
Example C08_v3_secret_zero_accepted_by_a_lawful_oracle :
  laws toy /\ v3_decode_secret toy zero48 = Ok zero48.
Proof. split; [exact toy_laws | vm_compute; reflexivity]. Qed.

Example C08_v3_public_canonical_nonvacuous :
  length toy_p384 = 49 /\ length toy_p384 = 49 /\ v3_decode_public toy toy_p384 = Ok toy_p384.
Proof. apply (C08_v3_public_canonical toy toy_laws toy_tag toy_p384 toy_p384). vm_compute. reflexivity. Qed.
(* with a DIFFERENT input that decodes to toy_p384 (tag 03, junk body): idempotence is a real statement *)
Definition other49 : bytes := n2b 3 :: map (fun i => n2b (N.of_nat i)) (seq 1 48).
Example C08_v3_public_canonical_nonvacuous2 :
  length other49 = 49 /\ length toy_p384 = 49 /\ v3_decode_public toy toy_p384 = Ok toy_p384.
Proof. apply (C08_v3_public_canonical toy toy_laws toy_tag other49 toy_p384). vm_compute. reflexivity. Qed.

Example C08_v3_public_wrong_length_nonvacuous :
  v3_decode_public toy (take 48 toy_p384) = Err InvalidKey /\ v3_decode_public toy (toy_p384 ++ [x00]) = Err InvalidKey.
Proof. split; apply C08_v3_public_wrong_length; vm_compute; discriminate. Qed.
Example C08_v3_awslc_public_wrong_length_nonvacuous :
  lc_decode_public toy [x00] = Err InvalidKey /\ lc_decode_public toy (n2b 4 :: repeat x00 96) = Err InvalidKey.
Proof. split; apply C08_v3_awslc_public_wrong_length; vm_compute; discriminate. Qed.

Example C08_v3_public_of_secret_nonvacuous :
  exists pk, v3_public_of toy small48 = Ok pk /\ v3_decode_public toy pk = Ok pk.
Proof. apply (C08_v3_public_of_secret toy toy_laws toy_tag' small48 small48). vm_compute. reflexivity. Qed.
Example C08_v3_public_of_secret_witness : v3_public_of toy small48 = Ok toy_p384.
Proof. vm_compute. reflexivity. Qed.

Example C08_v3_backends_agree_on_public_keys_nonvacuous :
  lc_decode_public toy other49 = v3_decode_public toy other49 /\ v3_decode_public toy other49 = Ok toy_p384 /\
  lc_decode_public toy (n2b 4 :: repeat x00 48) = Err InvalidKey.
Proof. split; [apply C08_v3_backends_agree_on_public_keys|]. vm_compute. split; reflexivity. Qed.
Example C08_v3_backends_agree_on_secret_keys_nonvacuous :
  lc_decode_secret toy small48 = Ok small48.
Proof. apply (proj2 (C08_v3_backends_agree_on_secret_keys toy small48 small48)). vm_compute. reflexivity. Qed.

Example C08_v3_awslc_scalar_encoding_nonvacuous :
  lc_encode_secret small48 = Ok small48 /\ lc_encode_secret zero48 = Ok zero48.
Proof. split; apply C08_v3_awslc_scalar_encoding; reflexivity. Qed.
(* the hypothesis matters: a 49-byte "scalar" hits the modelled assert!, a short one is left-padded *)
Example C08_v3_awslc_scalar_encoding_outside :
  is_panic (lc_encode_secret (n2b 1 :: zero48)) = true /\ lc_encode_secret [n2b 7] = Ok (repeat x00 47 ++ [n2b 7]).
Proof. vm_compute. split; reflexivity. Qed.

(* ---------------- what is NOT in C08.v but is in the property sentence ---------------- *)
(* "serialising it (PASERK text ...) and parsing it back yields a key with identical bytes": holds in the model,
   but no C08 theorem states it.  Shown here for the two key shapes where encode <> id. *)
Example C08_extra_text_roundtrip_v4_secret :
  exists text, key_to_text toy B4 KSecret seed32 = Ok text /\ key_from_str toy B4 KSecret text = Ok seed32.
Proof. eexists. split; [vm_compute; reflexivity|]. vm_compute. reflexivity. Qed.
Example C08_extra_text_roundtrip_v3a_secret :
  exists text, key_to_text toy B3A KSecret small48 = Ok text /\ key_from_str toy B3A KSecret text = Ok small48.
Proof. eexists. split; [vm_compute; reflexivity|]. vm_compute. reflexivity. Qed.

(* ================= C08_reparse / C08_text_roundtrip / premises (added after the first audit) ================= *)
From PV Require Import KeysProofs2 Text.
(* the three key shapes where something happens: encode <> id (dalek secret: seed -> seed || pk), decode <> id
   (P-384 public: a non-canonical input decodes to the canonical point), aws-lc's padded scalar encoder *)
Example C08_reparse_nonvacuous_v4_secret :
  exists bs, key_encode toy B4 KSecret seed32 = Ok bs /\ key_decode toy B4 KSecret bs = Ok seed32.
Proof.
  apply (C08_reparse toy toy_laws toy_nw toy_tag B4 KSecret (seed32 ++ toy_edpk) seed32); [discriminate|].
  vm_compute. reflexivity.
Qed.
Example C08_reparse_nonvacuous_v4_secret_witness : key_encode toy B4 KSecret seed32 = Ok (seed32 ++ toy_edpk) /\ length (seed32 ++ toy_edpk) = 64.
Proof. split; vm_compute; reflexivity. Qed.
Example C08_reparse_nonvacuous_v3_public :
  key_decode toy B3 KPublic other49 = Ok toy_p384 /\ other49 <> toy_p384 /\
  exists bs, key_encode toy B3 KPublic toy_p384 = Ok bs /\ key_decode toy B3 KPublic bs = Ok toy_p384.
Proof.
  assert (H : key_decode toy B3 KPublic other49 = Ok toy_p384) by (vm_compute; reflexivity).
  split; [exact H|]. split; [vm_compute; discriminate|].
  apply (C08_reparse toy toy_laws toy_nw toy_tag B3 KPublic other49 toy_p384); [discriminate|exact H].
Qed.
Example C08_reparse_nonvacuous_awslc_secret_sodium_secret_local :
  (exists bs, key_encode toy B3A KPkeSecret small48 = Ok bs /\ key_decode toy B3A KPkeSecret bs = Ok small48) /\
  (exists bs, key_encode toy B4S KSecret (seed32 ++ toy_edpk) = Ok bs /\ key_decode toy B4S KSecret bs = Ok (seed32 ++ toy_edpk)) /\
  (exists bs, key_encode toy B2 KLocal seed32 = Ok bs /\ key_decode toy B2 KLocal bs = Ok seed32).
Proof.
  split; [|split].
  - apply (C08_reparse toy toy_laws toy_nw toy_tag B3A KPkeSecret small48 small48); [discriminate|vm_compute; reflexivity].
  - apply (C08_reparse toy toy_laws toy_nw toy_tag B4S KSecret (seed32 ++ toy_edpk)); [discriminate|vm_compute; reflexivity].
  - apply (C08_reparse toy toy_laws toy_nw toy_tag B2 KLocal seed32); [discriminate|vm_compute; reflexivity].
Qed.
(* the acceptance hypothesis is used: an object no decoder returns need not re-encode (49-byte aws-lc "scalar") *)
Example C08_reparse_nonvacuous_hyp_used :
  ~ exists bs, key_encode toy B3A KSecret (n2b 1 :: zero48) = Ok bs /\ key_decode toy B3A KSecret bs = Ok (n2b 1 :: zero48).
Proof. intros (bs & H & _). vm_compute in H. discriminate H. Qed.
(* WEAKER (scope, already visible in the statement): b <> B1 — the RSA keys of paseto-v1 (DER / PEM parsing, the
   2048 / 4096 bit check) are outside both theorems; with [toy] no v1 key is accepted at all. *)
Lemma C08_reparse_says_nothing_about_v1 : forall k bs, key_decode toy B1 k bs <> Ok bs \/ k = KLocal.
Proof. intros k bs. destruct k; [right; reflexivity|left..]; vm_compute; discriminate. Qed.

Example C08_text_roundtrip_nonvacuous :
  (exists text, key_to_text toy B4 KSecret seed32 = Ok text /\ key_from_str toy B4 KSecret text = Ok seed32) /\
  (exists text, key_to_text toy B3 KPublic toy_p384 = Ok text /\ key_from_str toy B3 KPublic text = Ok toy_p384) /\
  (exists text, key_to_text toy B3A KSecret small48 = Ok text /\ key_from_str toy B3A KSecret text = Ok small48) /\
  (exists text, key_to_text toy B4S KPublic toy_edpk = Ok text /\ key_from_str toy B4S KPublic text = Ok toy_edpk).
Proof.
  split; [|split; [|split]].
  - apply (C08_text_roundtrip toy toy_laws toy_nw toy_tag B4 KSecret (seed32 ++ toy_edpk)); [discriminate|vm_compute; reflexivity].
  - apply (C08_text_roundtrip toy toy_laws toy_nw toy_tag B3 KPublic other49); [discriminate|vm_compute; reflexivity].
  - apply (C08_text_roundtrip toy toy_laws toy_nw toy_tag B3A KSecret small48); [discriminate|vm_compute; reflexivity].
  - apply (C08_text_roundtrip toy toy_laws toy_nw toy_tag B4S KPublic toy_edpk); [discriminate|vm_compute; reflexivity].
Qed.
(* the text is a real PASERK string: header, then 86 base64url characters for the 64 encoded bytes *)
Example C08_text_roundtrip_nonvacuous_text :
  exists text, key_to_text toy B4 KSecret seed32 = Ok text /\ take 10 text = str "k4.secret." /\ length text = 10 + 86 /\
               key_from_str toy B4 KSecret text = Ok seed32 /\
               (* and a different header or a truncated text is refused *)
               key_from_str toy B2 KSecret text = Err InvalidKey /\
               is_ok (key_from_str toy B4 KSecret (take 95 text)) = false.
Proof. eexists. split; [vm_compute; reflexivity|]. repeat split; vm_compute; reflexivity. Qed.

Example C08_premises_satisfiable_nonvacuous :
  exists O, laws O /\ ed_pk_weak (ed_pk O seed32) = false /\ na_point_valid (ed_pk O seed32) = true /\
            (forall pk, p384_pk O small48 = Some pk -> compressed_tag pk = true).
Proof.
  destruct C08_premises_satisfiable as (O & L & A & B & C & D).
  exists O. split; [exact L|]. split; [apply A|]. split; [apply B|]. intros pk. apply D.
Qed.
