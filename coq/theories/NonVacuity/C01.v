(* NonVacuity/C01.v — every C01 theorem instantiated at concrete, non-trivial values with the toy oracle. *)
From Coq Require Import List NArith String Lia.
From PV Require Import Bytes Result Base64 Text Tokens Oracle Local Public LocalProofs PublicProofs PipelineProofs ToyOracle.
From PV.Properties Require Import C01.
Import ListNotations.
Local Open Scope string_scope.
Local Open Scope list_scope.

Definition key32 : bytes := repeat x2a 32.
Definition msg : bytes := str "{""sub"":""alice"",""n"":17}".
Definition foot : bytes := str "kid-1".
Definition aad : bytes := str "ctx".
Definition sfx : bytes := str ".json".
Definition draw7 : nat -> option bytes := fun n => Some (repeat x07 n).

Lemma draw7_exact : draw_exact draw7.
Proof. intros n r H. inversion H. apply repeat_length. Qed.

(* sanity: the concrete data are what they claim to be *)
Example data_nontrivial : length key32 = 32 /\ length msg = 22 /\ msg <> [] /\ foot <> [] /\ aad <> [].
Proof. repeat split; solve [reflexivity | vm_compute; discriminate]. Qed.

(* ---- local: apply the theorem, obtain its conclusion at the instance ---- *)
Example C01_v1_local_nonvacuous :
  exists n, v1_local_nonce draw7 = Ok n /\
  exists p, v1_local_seal toy key32 sfx (n ++ msg) foot [] = Ok p /\ v1_local_unseal toy key32 sfx p foot [] = Ok msg.
Proof. exact (C01_v1_local toy toy_laws draw7 key32 sfx msg foot (repeat x07 32) draw7_exact eq_refl). Qed.

Example C01_v2_local_nonvacuous :
  exists n, v2_local_nonce draw7 = Ok n /\
  exists p, v2_local_seal toy key32 sfx (n ++ msg) foot [] = Ok p /\ v2_local_unseal toy key32 sfx p foot [] = Ok msg.
Proof. exact (C01_v2_local toy toy_laws draw7 key32 sfx msg foot (repeat x07 24) draw7_exact eq_refl). Qed.

Example C01_v3_local_nonvacuous :
  exists n, v3_local_nonce draw7 = Ok n /\
  exists p, v3_local_seal toy key32 sfx (n ++ msg) foot aad = Ok p /\ v3_local_unseal toy key32 sfx p foot aad = Ok msg.
Proof. exact (C01_v3_local toy toy_laws draw7 key32 sfx msg foot aad (repeat x07 32) draw7_exact eq_refl). Qed.

Example C01_v3_awslc_local_nonvacuous :
  exists n, lc_local_nonce draw7 = Ok n /\
  exists p, lc_local_seal toy key32 sfx (n ++ msg) foot aad = Ok p /\ lc_local_unseal toy key32 sfx p foot aad = Ok msg.
Proof. exact (C01_v3_awslc_local toy toy_laws draw7 key32 sfx msg foot aad (repeat x07 32) draw7_exact eq_refl). Qed.

Example C01_v4_local_nonvacuous :
  exists n, v4_local_nonce draw7 = Ok n /\
  exists p, v4_local_seal toy key32 sfx (n ++ msg) foot aad = Ok p /\ v4_local_unseal toy key32 sfx p foot aad = Ok msg.
Proof. exact (C01_v4_local toy toy_laws draw7 key32 sfx msg foot aad (repeat x07 32) draw7_exact eq_refl). Qed.

Example C01_v4_sodium_local_nonvacuous :
  exists n, na_local_nonce draw7 = Ok n /\
  exists p, na_local_seal toy key32 sfx (n ++ msg) foot aad = Ok p /\ na_local_unseal toy key32 sfx p foot aad = Ok msg.
Proof. exact (C01_v4_sodium_local toy toy_laws draw7 key32 sfx msg foot aad (repeat x07 32) draw7_exact eq_refl). Qed.

(* the model really computes: the sealed v4 payload, by evaluation, and its unsealing *)
Example C01_v4_local_computes :
  exists p, v4_local_seal toy key32 sfx (repeat x07 32 ++ msg) foot aad = Ok p /\ length p = 86 /\
            v4_local_unseal toy key32 sfx p foot aad = Ok msg /\
            v4_local_unseal toy key32 sfx p foot [] = Ok msg.   (* !! toy MAC ignores its input: see REPORT *)
Proof. eexists. split; [vm_compute; reflexivity|]. repeat split; vm_compute; reflexivity. Qed.

(* ---- public ---- *)
Example C01_v1_public_nonvacuous :
  exists p, v1_public_seal toy key32 sfx msg foot [] [] = Ok p /\ v1_public_unseal toy (rsa_pk toy key32) sfx p foot [] = Ok msg.
Proof. exact (C01_v1_public toy toy_laws key32 sfx msg foot [] (z 256) eq_refl). Qed.

Example C01_v2_public_nonvacuous :
  exists p, v2_public_seal toy key32 sfx msg foot [] = Ok p /\ v2_public_unseal toy (ed_pk toy key32) sfx p foot [] = Ok msg.
Proof. exact (C01_v2_public toy toy_laws key32 sfx msg foot). Qed.

Example C01_v3_public_nonvacuous :
  exists p, v3_public_seal toy key32 sfx msg foot aad = Ok p /\ v3_public_unseal toy toy_p384 sfx p foot aad = Ok msg.
Proof. exact (C01_v3_public toy toy_laws key32 toy_p384 sfx msg foot aad eq_refl). Qed.

Example C01_v3_awslc_public_nonvacuous :
  exists p, lc_public_seal toy key32 sfx msg foot aad (str "rnd") = Ok p /\ lc_public_unseal toy toy_p384 sfx p foot aad = Ok msg.
Proof. exact (C01_v3_awslc_public toy toy_laws key32 toy_p384 sfx msg foot aad (str "rnd") eq_refl). Qed.

Example C01_v4_public_nonvacuous :
  exists p, v4_public_seal toy key32 sfx msg foot aad = Ok p /\ v4_public_unseal toy (ed_pk toy key32) sfx p foot aad = Ok msg.
Proof. exact (C01_v4_public toy toy_laws key32 sfx msg foot aad). Qed.

Example C01_v4_sodium_public_nonvacuous :
  exists p, na_public_seal toy key32 sfx msg foot aad = Ok p /\ na_public_unseal toy (ed_pk toy key32) sfx p foot aad = Ok msg.
Proof. exact (C01_v4_sodium_public toy toy_laws key32 sfx msg foot aad). Qed.

(* ---- pipeline: Claims = Foot = bytes with identity codecs, backend = v4 local with toy ---- *)
Example C01_pipeline_nonvacuous :
  exists tok,
    seal (v4_local_seal toy) sfx (@Some bytes) (@Some bytes) key32 msg foot aad (v4_local_nonce draw7) = Ok tok /\
    parse_token fdec_vec (str "v4") sfx (str ".local.") (print_token (str "v4") sfx (str ".local.") tok) = Ok (tok, foot) /\
    fst (unseal (v4_local_unseal toy) sfx (@Some bytes) (fun _ => Ok tt) key32 tok foot aad) = Ok (msg, foot).
Proof.
  destruct C01_v4_local_nonvacuous as (n & Hn & p & Hs & Hu).
  assert (En : n = repeat x07 32) by (vm_compute in Hn; inversion Hn; reflexivity).
  replace (v4_local_nonce draw7) with (@Ok bytes n) by (symmetry; exact Hn).
  exact (C01_pipeline bytes bytes bytes bytes (v4_local_unseal toy) (v4_local_seal toy) sfx (@Some bytes) (@Some bytes)
           (@Some bytes) fdec_vec (fun _ => Ok tt) (str "v4") (str ".local.") key32 key32 msg foot aad n msg foot p
           eq_refl eq_refl eq_refl eq_refl eq_refl Hs Hu).
Qed.

(* the printed token is a real PASETO-shaped string *)
Example C01_pipeline_prints :
  exists p, v4_local_seal toy key32 sfx (repeat x07 32 ++ msg) foot aad = Ok p /\
  take 14 (print_token (str "v4") sfx (str ".local.") {| t_payload := p; t_footer := foot |}) = str "v4.json.local.".
Proof. eexists. split; [vm_compute; reflexivity|]. vm_compute. reflexivity. Qed.

(* ---- overhead: the three record hypotheses hold for each real backend, for EVERY lawful oracle ---- *)
Lemma overhead_hyps_v4 O (L : laws O) :
  (forall k n len, length (lp_ks (v4_params O) k n len) = len) /\
  (forall k e n c f a, length (lp_tag (v4_params O) k e n c f a) = lp_tlen (v4_params O)) /\
  (forall n0 m, length n0 = 32 -> length (lp_synth (v4_params O) n0 m) = 32).
Proof. repeat split; [apply (v4_ks_len O L)|apply (v4_tag_len O L)|apply (id_syn (v4_params O) eq_refl)]. Qed.

Lemma overhead_hyps_v1 O (L : laws O) :
  (forall k n len, length (lp_ks (v1_params O) k n len) = len) /\
  (forall k e n c f a, length (lp_tag (v1_params O) k e n c f a) = lp_tlen (v1_params O)) /\
  (forall n0 m, length n0 = 32 -> length (lp_synth (v1_params O) n0 m) = 32).
Proof. repeat split; [apply (v1_ks_len O L)|apply (v1_tag_len O L)|apply (v1_syn O L)]. Qed.

Example C01_local_overhead_nonvacuous :
  exists p, lg_seal (v4_params toy) key32 sfx (repeat x07 32 ++ msg) foot aad = Ok p /\ length p = 32 + 22 + 32.
Proof.
  eexists. split; [vm_compute; reflexivity|].
  destruct (overhead_hyps_v4 toy toy_laws) as (H1 & H2 & H3).
  refine (C01_local_overhead (v4_params toy) H1 H2 H3 key32 sfx (repeat x07 32) msg foot aad _ (repeat_length _ _) _).
  vm_compute. reflexivity.
Qed.

Example C01_local_overhead_v1_nonvacuous :
  exists p, lg_seal (v1_params toy) key32 sfx (repeat x07 32 ++ msg) foot [] = Ok p /\ length p = 32 + 22 + 48.
Proof.
  eexists. split; [vm_compute; reflexivity|].
  destruct (overhead_hyps_v1 toy toy_laws) as (H1 & H2 & H3).
  refine (C01_local_overhead (v1_params toy) H1 H2 H3 key32 sfx (repeat x07 32) msg foot [] _ (repeat_length _ _) _).
  vm_compute. reflexivity.
Qed.

(* ---- the v2 32-byte-nonce refutation ---- *)
Definition r32 : bytes := map n2b (map N.of_nat (seq 1 32)).
Example C01_v2_nonce32_refuted_nonvacuous :
  exists p, v2_local_seal toy key32 sfx (r32 ++ msg) foot [] = Ok p /\
            v2_local_unseal toy key32 sfx p foot [] = Ok (drop 24 r32 ++ msg) /\ drop 24 r32 ++ msg <> msg.
Proof. exact (C01_v2_nonce32_refuted toy toy_laws key32 sfx msg foot r32 eq_refl). Qed.

(* ---- whole-API end-to-end theorems (added after the first audit): Claims = Foot = bytes, identity codecs ---- *)
Example C01_v4_local_end_to_end_nonvacuous :
  exists tok,
    seal (v4_local_seal toy) sfx (@Some bytes) (@Some bytes) key32 msg foot aad (v4_local_nonce draw7) = Ok tok /\
    parse_token fdec_vec (str "v4") sfx (str ".local.") (print_token (str "v4") sfx (str ".local.") tok) = Ok (tok, foot) /\
    fst (unseal (v4_local_unseal toy) sfx (@Some bytes) (fun _ => Ok tt) key32 tok foot aad) = Ok (msg, foot).
Proof.
  exact (C01_v4_local_end_to_end toy toy_laws bytes bytes sfx (@Some bytes) (@Some bytes) (@Some bytes) fdec_vec
           (fun _ => Ok tt) draw7 (str "v4") (str ".local.") key32 msg foot aad (repeat x07 32) msg foot
           draw7_exact eq_refl eq_refl eq_refl eq_refl eq_refl eq_refl).
Qed.

(* ... and the token it speaks of is a concrete one whose payload is not the claims in clear at offset 0 *)
Example C01_v4_local_end_to_end_nonvacuous_computes :
  exists tok, seal (v4_local_seal toy) sfx (@Some bytes) (@Some bytes) key32 msg foot aad (v4_local_nonce draw7) = Ok tok /\
              length (t_payload tok) = 86 /\ t_footer tok = foot.
Proof. eexists. split; [vm_compute; reflexivity|]. split; vm_compute; reflexivity. Qed.

Example C01_v3_awslc_local_end_to_end_nonvacuous :
  exists tok,
    seal (lc_local_seal toy) sfx (@Some bytes) (@Some bytes) key32 msg foot aad (lc_local_nonce draw7) = Ok tok /\
    parse_token fdec_vec (str "v3") sfx (str ".local.") (print_token (str "v3") sfx (str ".local.") tok) = Ok (tok, foot) /\
    fst (unseal (lc_local_unseal toy) sfx (@Some bytes) (fun _ => Ok tt) key32 tok foot aad) = Ok (msg, foot).
Proof.
  exact (C01_v3_awslc_local_end_to_end toy toy_laws bytes bytes sfx (@Some bytes) (@Some bytes) (@Some bytes) fdec_vec
           (fun _ => Ok tt) draw7 (str "v3") (str ".local.") key32 msg foot aad (repeat x07 32) msg foot
           draw7_exact eq_refl eq_refl eq_refl eq_refl eq_refl eq_refl).
Qed.

(* a failing validator makes the hypothesis false, and the conclusion too: the hypothesis is used *)
Example C01_v4_local_end_to_end_nonvacuous_validate_matters :
  forall tok, seal (v4_local_seal toy) sfx (@Some bytes) (@Some bytes) key32 msg foot aad (v4_local_nonce draw7) = Ok tok ->
  fst (unseal (v4_local_unseal toy) sfx (@Some bytes) (fun _ => Err ClaimsError) key32 tok foot aad) <> Ok (msg, foot).
Proof. intros tok H. vm_compute in H. inversion H. subst tok. vm_compute. discriminate. Qed.

Example C01_premises_satisfiable_nonvacuous : exists O, laws O /\ sha384 O [] = z 48.
Proof. destruct C01_premises_satisfiable as (O & L). exists toy. split; [exact toy_laws|reflexivity]. Qed.
