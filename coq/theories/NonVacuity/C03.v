(* NonVacuity/C03.v — C03 theorems instantiated at concrete values. *)
From Coq Require Import List NArith String Lia.
From PV Require Import Bytes Result Pae Ctr Oracle Local Public LocalProofs SpecTokens SpecProofs CtrSites ToyOracle.
From PV.Gen Require Import Ciphers.
From PV.Properties Require Import C03.
From PV.NonVacuity Require Import C01 C02.
Import ListNotations.
Local Open Scope string_scope.
Local Open Scope list_scope.

Definition n24 : bytes := repeat x07 24.

(* ---- model = specification, at a concrete input; the common value is a real 102/86/62-byte payload ---- *)
Example C03_v1_local_is_spec_nonvacuous :
  v1_local_seal toy key32 [] (n32 ++ msg) foot [] = Ok (spec_v1_encrypt toy key32 n32 msg foot) /\
  length (spec_v1_encrypt toy key32 n32 msg foot) = 102.
Proof. split; [apply C03_v1_local_is_spec; reflexivity|vm_compute; reflexivity]. Qed.
Example C03_v2_local_is_spec_nonvacuous :
  v2_local_seal toy key32 [] (n24 ++ msg) foot [] = Ok (spec_v2_encrypt toy key32 n24 msg foot) /\
  length (spec_v2_encrypt toy key32 n24 msg foot) = 62.
Proof. split; [apply C03_v2_local_is_spec; reflexivity|vm_compute; reflexivity]. Qed.
Example C03_v3_local_is_spec_nonvacuous :
  v3_local_seal toy key32 [] (n32 ++ msg) foot aad = Ok (spec_v3_encrypt toy key32 n32 msg foot aad) /\
  length (spec_v3_encrypt toy key32 n32 msg foot aad) = 102.
Proof. split; [apply C03_v3_local_is_spec; reflexivity|vm_compute; reflexivity]. Qed.
Example C03_v3_awslc_local_is_spec_nonvacuous :
  lc_local_seal toy key32 [] (n32 ++ msg) foot aad = Ok (spec_v3_encrypt toy key32 n32 msg foot aad).
Proof. apply C03_v3_awslc_local_is_spec; [exact toy_laws|reflexivity]. Qed.
Example C03_v4_local_is_spec_nonvacuous :
  v4_local_seal toy key32 [] (n32 ++ msg) foot aad = Ok (spec_v4_encrypt toy key32 n32 msg foot aad) /\
  length (spec_v4_encrypt toy key32 n32 msg foot aad) = 86.
Proof. split; [apply C03_v4_local_is_spec; reflexivity|vm_compute; reflexivity]. Qed.
Example C03_v4_sodium_local_is_spec_nonvacuous :
  na_local_seal toy key32 [] (n32 ++ msg) foot aad = Ok (spec_v4_encrypt toy key32 n32 msg foot aad).
Proof. apply C03_v4_sodium_local_is_spec; [exact toy_laws|reflexivity]. Qed.

(* the theorems without a [laws] premise hold for ANY oracle; here one whose AES is the identity on the
   counter block, so the keystream IS the counter sequence and the counter width is observable *)
Definition ctrO : oracle := fun name args =>
  if String.eqb name "aes256" then match args with [_; b] => [b] | _ => [] end else toy name args.
Definition ivff : bytes := hex "ffffffffffffffffffffffffffffffff".
Example C03_model_counter_is_observable :
  aes_ctr ctrO 128 key32 ivff 32 = ivff ++ z 16 /\
  aes_ctr ctrO 64 key32 ivff 32 = ivff ++ (repeat xff 8 ++ z 8) /\
  aes_ctr ctrO 64 key32 ivff 32 <> aes_ctr ctrO 128 key32 ivff 32.
Proof. repeat split; try (vm_compute; reflexivity). vm_compute. discriminate. Qed.
Example C03_v3_local_is_spec_counter_sensitive :
  v3_local_seal ctrO key32 [] (n32 ++ msg) foot aad = Ok (spec_v3_encrypt ctrO key32 n32 msg foot aad).
Proof. apply C03_v3_local_is_spec. reflexivity. Qed.

(* ---- conforming tokens are accepted ---- *)
Example C03_v1_accepts_spec_nonvacuous :
  v1_local_unseal toy key32 [] (spec_v1_encrypt_with toy key32 n32 msg foot) foot [] = Ok msg.
Proof. apply C03_v1_accepts_spec; [exact toy_laws|reflexivity]. Qed.
Example C03_v3_accepts_spec_nonvacuous :
  v3_local_unseal toy key32 [] (spec_v3_encrypt toy key32 n32 msg foot aad) foot aad = Ok msg.
Proof. apply C03_v3_accepts_spec; [exact toy_laws|reflexivity]. Qed.
Example C03_v3_awslc_accepts_spec_nonvacuous :
  lc_local_unseal toy key32 [] (spec_v3_encrypt toy key32 n32 msg foot aad) foot aad = Ok msg.
Proof. apply C03_v3_awslc_accepts_spec; [exact toy_laws|reflexivity]. Qed.
Example C03_v4_accepts_spec_nonvacuous :
  v4_local_unseal toy key32 [] (spec_v4_encrypt toy key32 n32 msg foot aad) foot aad = Ok msg.
Proof. apply C03_v4_accepts_spec; [exact toy_laws|reflexivity]. Qed.
Example C03_v4_sodium_accepts_spec_nonvacuous :
  na_local_unseal toy key32 [] (spec_v4_encrypt toy key32 n32 msg foot aad) foot aad = Ok msg.
Proof. apply C03_v4_sodium_accepts_spec; [exact toy_laws|reflexivity]. Qed.

(* ---- siblings ---- *)
Example C03_v3_siblings_agree_nonvacuous :
  v3_local_seal toy key32 [] (n32 ++ msg) foot aad = lc_local_seal toy key32 [] (n32 ++ msg) foot aad /\
  is_ok (v3_local_seal toy key32 [] (n32 ++ msg) foot aad) = true.
Proof. split; [apply C03_v3_siblings_agree; [exact toy_laws|reflexivity]|vm_compute; reflexivity]. Qed.
Example C03_v4_siblings_agree_nonvacuous :
  v4_local_seal toy key32 [] (n32 ++ msg) foot aad = na_local_seal toy key32 [] (n32 ++ msg) foot aad /\
  is_ok (v4_local_seal toy key32 [] (n32 ++ msg) foot aad) = true.
Proof. split; [apply C03_v4_siblings_agree; [exact toy_laws|reflexivity]|vm_compute; reflexivity]. Qed.
(* NB the siblings differ OUTSIDE the theorem's hypothesis (payload shorter than the nonce): *)
Example C03_v4_siblings_differ_on_short_payload :
  v4_local_seal toy key32 [] (z 5) foot aad <> na_local_seal toy key32 [] (z 5) foot aad.
Proof. vm_compute. discriminate. Qed.

(* ---- signatures ---- *)
Example C03_v4_sign_is_spec_nonvacuous :
  v4_public_seal toy key32 [] msg foot aad = Ok (spec_v4_sign toy key32 msg foot aad) /\
  length (spec_v4_sign toy key32 msg foot aad) = 22 + 64.
Proof. split; [apply C03_v4_sign_is_spec|vm_compute; reflexivity]. Qed.
Example C03_v4_sodium_sign_is_spec_nonvacuous :
  na_public_seal toy key32 [] msg foot aad = Ok (spec_v4_sign toy key32 msg foot aad).
Proof. apply C03_v4_sodium_sign_is_spec. Qed.
Example C03_v2_sign_is_spec_nonvacuous :
  v2_public_seal toy key32 [] msg foot [] = Ok (spec_v2_sign toy key32 msg foot).
Proof. apply C03_v2_sign_is_spec. Qed.
Example C03_v3_signed_message_is_spec_nonvacuous :
  v3_ppre toy_p384 [] msg foot aad = spec_v3_sign_input toy_p384 msg foot aad /\
  take 8 (spec_v3_sign_input toy_p384 msg foot aad) = le64 5.
Proof. split; [apply C03_v3_signed_message_is_spec|vm_compute; reflexivity]. Qed.
Example C03_v1_signed_message_is_spec_nonvacuous :
  v1_ppre [] msg foot = spec_v1_sign_input msg foot /\ take 8 (spec_v1_sign_input msg foot) = le64 3.
Proof. split; [apply C03_v1_signed_message_is_spec|vm_compute; reflexivity]. Qed.

(* ---- counter sites ---- *)
Example C03_ctr_sites_full_width_nonvacuous :
  length gen_ctr_sites = 16 /\ ctr_width_of "Ctr128BE" = Some 128%N.
Proof.
  split; [reflexivity|].
  apply (C03_ctr_sites_full_width "paseto-v3/src/core/pke.rs" "Ctr128BE"). vm_compute. tauto.
Qed.
(* the check is live: an inventory containing a 64-bit site fails it *)
Example C03_ctr_sites_check_is_live :
  forallb (fun '(_, tok) => match ctr_width_of tok with Some w => N.eqb w ctr_w_rustcrypto | None => false end)
          (("x.rs", "Ctr64BE") :: gen_ctr_sites) = false.
Proof. vm_compute. reflexivity. Qed.
Example C03_ctr_every_site_inventoried_nonvacuous : length covered_files = 8 /\ every_file_has_a_site = true.
Proof. split; [reflexivity|exact C03_ctr_every_site_inventoried]. Qed.

Definition iv_fe : bytes := z 8 ++ repeat xff 7 ++ [xfe].
Example C03_ctr_width_agree_nonvacuous :
  ctr_block 64 iv_fe 1 = ctr_block 128 iv_fe 1 /\ ctr_block 64 iv_fe 1 = z 8 ++ repeat xff 8.
Proof.
  split; [|vm_compute; reflexivity].
  apply C03_ctr_width_agree; [reflexivity|lia|vm_compute; reflexivity].
Qed.
(* the hypothesis is sharp: one step further the low word wraps and the blocks differ *)
Example C03_ctr_width_agree_sharp : ctr_block 64 iv_fe 2 <> ctr_block 128 iv_fe 2.
Proof. vm_compute. discriminate. Qed.
Example C03_ctr64_refuted_nonvacuous : ctr_block 64 ivff 1 = repeat xff 8 ++ z 8 /\ ctr_block 128 ivff 1 = z 16.
Proof. split; vm_compute; reflexivity. Qed.

Example C03_premises_satisfiable_nonvacuous : exists O, laws O.
Proof. destruct C03_premises_satisfiable as (O & L). exists O. exact L. Qed.
