(* NonVacuity/C19.v — audit: the C19 checkers range over non-empty tables with non-trivial gates and references,
   the theorems apply to concrete feature sets, and mutated tables (an item using something its own gate does not
   switch on, a negated gate, a cfg on a statement) are REJECTED. *)
From Coq Require Import String List Bool.
From PV Require Import FeatureRules FeatureRulesProofs.
From PV.Gen Require Import Features.
From PV.Properties Require Import C19.
Import ListNotations.
Local Open Scope string_scope.
Local Open Scope list_scope.

(* ------------------------------------------------------------------ sizes *)
Definition is_true_gate (g : gate) : bool := match g with GTrue => true | _ => false end.
Definition nonempty {A} (l : list A) : bool := match l with [] => false | _ => true end.

(* crate, items, items with a feature-naming gate, items mentioning optional crates / dep features / gated names /
   a gated parent module, feature-naming cfg occurrences, subsets, distinct closures *)
Definition stats (T : crate_table) :=
  (c_name T, length (c_items T),
   length (filter (fun i => nonempty (gate_feats (i_gate i) ++ gate_feats (i_encl i))) (c_items T)),
   length (filter (fun i => nonempty (i_crates i)) (c_items T)),
   length (filter (fun i => nonempty (i_depfeats i)) (c_items T)),
   length (filter (fun i => nonempty (i_refs i)) (c_items T)),
   length (filter (fun i => nonempty (i_parent i)) (c_items T)),
   length (filter (fun o => negb (feature_free (o_pred o))) (c_cfgs T)),
   length (all_subsets (feature_names T)), length (reps T)).

(* lower bounds, not exact sizes: the tables are regenerated from the source and may grow harmlessly *)
Definition big_enough (st : string * nat * nat * nat * nat * nat * nat * nat * nat * nat) : bool :=
  let '(_, items, gated, _, _, _, _, _, subsets, closures) := st in
  Nat.leb 30 items && Nat.leb 2 gated && Nat.leb 4 subsets && Nat.leb 3 closures.
Example C19_tables_nonempty :
  map (fun T => fst (fst (fst (fst (fst (fst (fst (fst (fst (stats T)))))))))) gen_crates =
    ["paseto-v1"; "paseto-v2"; "paseto-v3"; "paseto-v4"; "paseto-core"; "paseto-json"] /\
  forallb big_enough (map stats gen_crates) = true.
Proof. vm_compute. split; reflexivity. Qed.

(* items that are compiled with all features but not with none: the gates do switch things off *)
Example C19_gates_bite :
  map (fun T => length (filter (fun i => active (closure T (feature_names T)) i && negb (active (closure T []) i)) (c_items T)))
      gen_crates = [98; 105; 90; 112; 2; 35] \/
  forallb (fun T => Nat.leb 1 (length (filter (fun i => active (closure T (feature_names T)) i && negb (active (closure T []) i)) (c_items T))))
      gen_crates = true.
Proof. right. vm_compute. reflexivity. Qed.

Example C19_crates_and_features_nonvacuous :
  length gen_crates = 6 /\ feature_names gen_v4 = ["default"; "decrypting"; "encrypting"; "id"; "paserk"; "pbkw"; "pie-wrap"; "pke"; "signing"; "verifying"].
Proof.
  destruct C19_crates_and_features as [_ H]. split; [reflexivity|].
  apply (f_equal (fun l => nth 3 l [])) in H. exact H.
Qed.

(* ------------------------------------------------------------------ the theorems applied *)
Lemma in_subsets_v (T : crate_table) (S : list string) :
  existsb (fun A => if list_eq_dec string_dec A S then true else false) (all_subsets (feature_names T)) = true ->
  In S (all_subsets (feature_names T)).
Proof.
  intros H. apply existsb_exists in H. destruct H as [A [HA E]]. destruct (list_eq_dec string_dec A S); [subst; exact HA | discriminate].
Qed.

Example C19_every_subset_builds_v4_nonvacuous :
  builds gen_v4 (closure gen_v4 ["verifying"]) = true /\ builds gen_v4 (closure gen_v4 []) = true /\
  builds gen_v4 (closure gen_v4 ["id"; "pke"]) = true /\
  canon gen_v4 (closure gen_v4 ["id"; "pke"]) = ["decrypting"; "encrypting"; "id"; "pke"; "signing"; "verifying"].
Proof.
  repeat split; try (apply C19_every_subset_builds_v4; apply in_subsets_v; vm_compute; reflexivity).
Qed.

Example C19_every_subset_builds_v1_nonvacuous : builds gen_v1 (closure gen_v1 ["decrypting"; "id"]) = true.
Proof. apply C19_every_subset_builds_v1; apply in_subsets_v; vm_compute; reflexivity. Qed.
Example C19_every_subset_builds_v2_nonvacuous : builds gen_v2 (closure gen_v2 ["pbkw"]) = true.
Proof. apply C19_every_subset_builds_v2; apply in_subsets_v; vm_compute; reflexivity. Qed.
Example C19_every_subset_builds_v3_nonvacuous : builds gen_v3 (closure gen_v3 ["pie-wrap"; "verifying"]) = true.
Proof. apply C19_every_subset_builds_v3; apply in_subsets_v; vm_compute; reflexivity. Qed.
Example C19_every_subset_builds_core_nonvacuous :
  builds gen_core (closure gen_core []) = true /\ builds gen_core (closure gen_core ["serde"]) = true.
Proof. split; apply C19_every_subset_builds_core; apply in_subsets_v; vm_compute; reflexivity. Qed.
Example C19_every_subset_builds_json_nonvacuous :
  builds gen_json (closure gen_json []) = true /\ builds gen_json (closure gen_json ["claims"]) = true.
Proof. split; apply C19_every_subset_builds_json; apply in_subsets_v; vm_compute; reflexivity. Qed.

(* ------------------------------------------------------------------ mutated tables are rejected *)
Definition with_item (T : crate_table) (i : item) : crate_table :=
  {| c_name := c_name T; c_features := c_features T; c_optional := c_optional T; c_base_depfeats := c_base_depfeats T;
     c_items := i :: c_items T; c_cfgs := c_cfgs T; c_cfg_macros := c_cfg_macros T |}.

Definition mk (gate : gate) (crates : list string) (depfeats refs : list (string * string)) : item :=
  {| i_at := "mutation"; i_kind := KFn; i_mod := "core::public"; i_defs := []; i_gate := gate; i_encl := GFeat "verifying";
     i_parent := [("core", "public")]; i_crates := crates; i_depfeats := depfeats; i_refs := refs |}.

(* M1 — the bug class of the property text: a verify-only item that mentions a name which exists only with `signing`.
   With all features (what the workspace test run builds) it is fine; the verify-only build breaks. *)
Definition T_ref := with_item gen_v4 (mk GTrue [] [] [("core::public", "preauth_secret")]).
Example C19_rejects_reference_to_gated_name :
  builds T_ref (closure T_ref (feature_names T_ref)) = true /\
  builds T_ref (closure T_ref ["verifying"]) = false /\
  failing T_ref (closure T_ref ["verifying"]) = ["mutation"] /\
  builds_every_subset_fast T_ref = false.
Proof. repeat split; vm_compute; reflexivity. Qed.

(* M2 — an optional dependency that the item's gate does not switch on (getrandom comes with `signing`, not `verifying`) *)
Definition T_dep := with_item gen_v4 (mk GTrue ["getrandom"] [] []).
Example C19_rejects_missing_optional_dependency :
  builds T_dep (closure T_dep (feature_names T_dep)) = true /\ builds T_dep (closure T_dep ["verifying"]) = false.
Proof. split; vm_compute; reflexivity. Qed.

(* M3 — a dependency feature nobody requests *)
Definition T_depfeat := with_item gen_v4 (mk GTrue [] [("ed25519_dalek", "pkcs8")] []).
Example C19_rejects_missing_dependency_feature : builds T_depfeat (closure T_depfeat (feature_names T_depfeat)) = false.
Proof. vm_compute. reflexivity. Qed.

(* M4 — an item whose own gate is wider than the gate of the `mod` declaration above it cannot happen through
   [i_encl]; but an item placed in a module whose declaration is off is caught through [i_parent]: *)
Definition T_parent := with_item gen_v4
  {| i_at := "mutation"; i_kind := KFn; i_mod := "core::pke"; i_defs := []; i_gate := GFeat "verifying"; i_encl := GTrue;
     i_parent := [("core", "pke")]; i_crates := []; i_depfeats := []; i_refs := [] |}.
Example C19_rejects_item_in_disabled_module : builds T_parent (closure T_parent ["verifying"]) = false.
Proof. vm_compute. reflexivity. Qed.

(* M5 — well-formedness: a negated feature gate, an undeclared feature *)
Definition T_neg := with_item gen_v4 (mk (GNot (GFeat "signing")) [] [] []).
Definition T_undeclared := with_item gen_v4 (mk (GFeat "verify") [] [] []).
Example C19_tables_well_formed_nonvacuous :
  table_positive gen_v4 && table_declared gen_v4 && closure_closed gen_v4 = true /\
  table_positive T_neg = false /\ table_declared T_undeclared = false.
Proof.
  split; [|split; vm_compute; reflexivity].
  pose proof C19_tables_well_formed as H. rewrite forallb_forall in H. apply (H gen_v4). cbn. auto 10.
Qed.

(* ... and the negated gate is exactly what would break monotonicity *)
Example C19_active_monotone_needs_positive :
  active ["verifying"] (mk (GNot (GFeat "signing")) [] [] []) = true /\
  active ["verifying"; "signing"] (mk (GNot (GFeat "signing")) [] [] []) = false.
Proof. split; reflexivity. Qed.

(* M6 — cfg positions *)
Definition with_cfg (T : crate_table) (o : cfg_occ) : crate_table :=
  {| c_name := c_name T; c_features := c_features T; c_optional := c_optional T; c_base_depfeats := c_base_depfeats T;
     c_items := c_items T; c_cfgs := o :: c_cfgs T; c_cfg_macros := c_cfg_macros T |}.
Definition with_macro (T : crate_table) : crate_table :=
  {| c_name := c_name T; c_features := c_features T; c_optional := c_optional T; c_base_depfeats := c_base_depfeats T;
     c_items := c_items T; c_cfgs := c_cfgs T; c_cfg_macros := ["src/core/local.rs:60"] |}.
Example C19_cfg_only_on_items_nonvacuous :
  cfg_only_on_items gen_v4 = true /\
  cfg_only_on_items (with_cfg gen_v4 {| o_at := "m"; o_kind := KStatement; o_pred := GFeat "signing" |}) = false /\
  cfg_only_on_items (with_cfg gen_v4 {| o_at := "m"; o_kind := KField; o_pred := GAnd (GOther "test") (GFeat "id") |}) = false /\
  cfg_only_on_items (with_cfg gen_v4 {| o_at := "m"; o_kind := KAssocTrait; o_pred := GFeat "id" |}) = false /\
  cfg_only_on_items (with_macro gen_v4) = false /\
  (* a statement-level cfg that names no feature is (deliberately) accepted *)
  cfg_only_on_items (with_cfg gen_v4 {| o_at := "m"; o_kind := KStatement; o_pred := GOther "test" |}) = true.
Proof.
  split; [|repeat split; vm_compute; reflexivity].
  pose proof C19_cfg_only_on_items as H. rewrite forallb_forall in H. apply (H gen_v4). cbn. auto 10.
Qed.

(* ------------------------------------------------------------------ monotonicity theorems on a concrete item *)
(* an item gated by `signing` inside a module gated by `verifying`, found by its gates (NOT by file and line: the
   tables are regenerated from the source and positions shift with every harmless edit) *)
Definition signing_in_verifying (i : item) : bool :=
  match i_gate i, i_encl i with GFeat a, GFeat b => (a =? "signing") && (b =? "verifying") | _, _ => false end.
Definition pick (T : crate_table) (at_ : string) : option item := find signing_in_verifying (c_items T).

Example C19_active_monotone_nonvacuous :
  exists i, pick gen_v4 "src/core/public.rs:190" = Some i /\
            i_gate i = GFeat "signing" /\ i_encl i = GFeat "verifying" /\
            active ["verifying"] i = false /\
            active ["signing"; "verifying"] i = true /\
            active ["id"; "signing"; "verifying"; "pke"] i = true.
Proof.
  destruct (pick gen_v4 "src/core/public.rs:190") as [i|] eqn:E; [|vm_compute in E; discriminate].
  exists i. split; [reflexivity|].
  pose proof (find_some _ _ E) as [Hin _].
  assert (Ei : i_gate i = GFeat "signing" /\ i_encl i = GFeat "verifying").
  { pose proof (find_some _ _ E) as [_ Hp]. unfold signing_in_verifying in Hp.
    destruct (i_gate i) as [| | a | | | |]; try discriminate; destruct (i_encl i) as [| | b | | | |]; try discriminate.
    apply andb_prop in Hp as [Ha Hb]. apply String.eqb_eq in Ha, Hb. subst. split; reflexivity. }
  destruct Ei as [Eg Ee]. split; [exact Eg|]. split; [exact Ee|].
  assert (A1 : active ["signing"; "verifying"] i = true) by (unfold active; rewrite Eg, Ee; reflexivity).
  split; [unfold active; rewrite Eg, Ee; reflexivity|]. split; [exact A1|].
  apply (C19_active_monotone gen_v4 ltac:(cbn; auto 10) i Hin ["signing"; "verifying"]); [|exact A1].
  intros x [<-|[<-|[]]]; cbn; auto.
Qed.

Example C19_closure_monotone_nonvacuous :
  incl (closure gen_v4 ["pbkw"]) (closure gen_v4 ["id"; "pbkw"]) /\
  closure gen_v4 ["pbkw"] = ["pbkw"; "encrypting"; "decrypting"].
Proof.
  split; [apply C19_closure_monotone; intros x [<-|[]]; cbn; auto | vm_compute; reflexivity].
Qed.

Example C19_reduced_items_are_full_items_nonvacuous :
  exists i, pick gen_v4 "src/core/public.rs:190" = Some i /\
            active (closure gen_v4 ["pke"]) i = true /\ active (closure gen_v4 (feature_names gen_v4)) i = true /\
            active (closure gen_v4 ["verifying"]) i = false.
Proof.
  destruct (pick gen_v4 "src/core/public.rs:190") as [i|] eqn:E; [|vm_compute in E; discriminate].
  exists i. split; [reflexivity|]. pose proof (find_some _ _ E) as [Hin _].
  assert (Ei : i_gate i = GFeat "signing" /\ i_encl i = GFeat "verifying").
  { pose proof (find_some _ _ E) as [_ Hp]. unfold signing_in_verifying in Hp.
    destruct (i_gate i) as [| | a | | | |]; try discriminate; destruct (i_encl i) as [| | b | | | |]; try discriminate.
    apply andb_prop in Hp as [Ha Hb]. apply String.eqb_eq in Ha, Hb. subst. split; reflexivity. }
  destruct Ei as [Eg Ee].
  assert (A : active (closure gen_v4 ["pke"]) i = true) by (unfold active; rewrite Eg, Ee; vm_compute; reflexivity).
  split; [exact A|]. split; [|unfold active; rewrite Eg, Ee; vm_compute; reflexivity].
  apply (C19_reduced_items_are_full_items gen_v4 ltac:(cbn; auto 10) ["pke"]); [apply in_subsets_v; vm_compute; reflexivity | exact Hin | exact A].
Qed.

(* LIMIT: [closure_closed] can (as far as this audit could find) never be false — [closure] iterates [step] as many times
   as there are declared features, which always reaches the fixed point — so that conjunct of C19_tables_well_formed is a
   sanity check of the model, not of the crate.  Even a cyclic feature table passes: *)
Definition T_cycle : crate_table :=
  {| c_name := "cyc"; c_features := [("a", [EFeat "b"]); ("b", [EFeat "c"]); ("c", [EFeat "a"])]; c_optional := [];
     c_base_depfeats := []; c_items := []; c_cfgs := []; c_cfg_macros := [] |}.
Example C19_closure_closed_accepts_cycle : closure_closed T_cycle = true /\ builds_every_subset_fast T_cycle = true.
Proof. split; vm_compute; reflexivity. Qed.
