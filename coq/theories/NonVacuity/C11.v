(* NonVacuity/C11.v — audit of Properties/C11.v *)
From Coq Require Import List NArith ZArith String Bool Lia Arith.
From PV Require Import Bytes Result Text Tokens TokensProofs Validation ValidationProofs Oracle Local ToyOracle.
From PV.Properties Require Import C11.
Import ListNotations.
Local Open Scope list_scope.
Local Open Scope Z_scope.
Ltac splits := repeat match goal with |- _ /\ _ => split end.

(* ---- a concrete pipeline: the v4.local backend over the toy oracle, a claims decoder that reads [exp] from
        the cleartext, and the built-in time validator ---- *)
Definition key32 : bytes := map (fun i => n2b (N.of_nat i)) (seq 1 32).
Definition nonce32 : bytes := map (fun i => n2b (N.of_nat i)) (seq 101 32).
Definition mk (e : Z) : claims :=
  {| iss := Some (str "issuer"); sub := Some (str "alice"); aud := None; exp := Some e; nbf := Some 990; iat := None; jti := None |}.
Definition dec (b : bytes) : option claims :=
  match b with [] => None | _ => Some (mk (Z.of_N (be_val b))) end.
(* under the toy oracle the v4 tag is 32 zero bytes and the keystream is zero *)
Definition tok_of (body : bytes) : token := {| t_payload := nonce32 ++ body ++ repeat x00 32; t_footer := str "f" |}.
Definition tok_good : token := tok_of (be_bytes 2 2000).     (* exp = 2000 *)
Definition tok_expired : token := tok_of (be_bytes 2 500).   (* exp = 500 *)
Definition tok_forged : token := {| t_payload := nonce32 ++ be_bytes 2 2000 ++ repeat x01 32; t_footer := str "f" |}.

Definition run (v : validator) (t : token) :=
  unseal (Foot := bytes) (v4_local_unseal toy) [] dec (validate v) key32 t (str "f") [].

Example C11_pipeline_values :
  fst (run (VTime 1000) tok_good) = Ok (mk 2000, str "f") /\
  fst (run (VTime 1000) tok_expired) = Err ClaimsError /\
  fst (run (VTime 1000) tok_forged) = Err CryptoError.
Proof. vm_compute. repeat split. Qed.

Example C11_released_only_if_validated_nonvacuous :
  validate (VTime 1000) (mk 2000) = Ok tt /\ str "f" = str "f".
Proof.
  apply (C11_released_only_if_validated claims bytes bytes (v4_local_unseal toy) [] dec (validate (VTime 1000))
           key32 tok_good (str "f") [] (mk 2000) (str "f")).
  vm_compute. reflexivity.
Qed.
(* contrapositive use: whatever the expired token releases, it is not (mk 500) *)
Example C11_released_only_if_validated_contrapositive :
  forall f, fst (run (VTime 1000) tok_expired) <> Ok (mk 500, f).
Proof.
  intros f H. apply C11_released_only_if_validated in H. destruct H as [H _]. vm_compute in H. discriminate.
Qed.

Example C11_validator_rejection_is_returned_nonvacuous :
  fst (run (VTime 1000) tok_expired) = Err ClaimsError.
Proof.
  apply (C11_validator_rejection_is_returned claims bytes bytes (v4_local_unseal toy) [] dec (validate (VTime 1000))
           key32 tok_expired (str "f") [] (be_bytes 2 500) (mk 500) ClaimsError); vm_compute; reflexivity.
Qed.

(* ---- built-in validators: both directions of each iff on concrete claims ---- *)
Example C11_time_nonvacuous :
  validate (VTime 1000) (mk 1000) = Ok tt /\ validate (VTime 1001) (mk 1000) <> Ok tt /\
  validate (VTime 989) (mk 1000) <> Ok tt /\ validate (VTime 990) (mk 1000) = Ok tt.
Proof.
  splits.
  - apply (proj2 (C11_time 1000 (mk 1000))). cbn. lia.
  - intros H. apply (proj1 (C11_time _ _)) in H. cbn in H. lia.
  - intros H. apply (proj1 (C11_time _ _)) in H. cbn in H. lia.
  - apply (proj2 (C11_time 990 (mk 1000))). cbn. lia.
Qed.
Example C11_time_otherwise_claims_error_nonvacuous : validate (VTime 1001) (mk 1000) = Err ClaimsError.
Proof.
  destruct (C11_time_otherwise_claims_error 1001 (mk 1000)) as [H|H]; [|exact H].
  apply (proj1 (C11_time _ _)) in H. cbn in H. lia.
Qed.

Example C11_time_with_leeway_nonvacuous :
  validate (VTimeLeeway 1010 10) (mk 1000) = Ok tt /\ validate (VTimeLeeway 1011 10) (mk 1000) <> Ok tt /\
  validate (VTimeLeeway 980 10) (mk 1000) = Ok tt /\ validate (VTimeLeeway 979 10) (mk 1000) <> Ok tt.
Proof.
  splits.
  - apply (proj2 (C11_time_with_leeway 1010 10 (mk 1000) eq_refl eq_refl)). cbn. lia.
  - intros H. apply (proj1 (C11_time_with_leeway 1011 10 (mk 1000) eq_refl eq_refl)) in H. cbn in H. lia.
  - apply (proj2 (C11_time_with_leeway 980 10 (mk 1000) eq_refl eq_refl)). cbn. lia.
  - intros H. apply (proj1 (C11_time_with_leeway 979 10 (mk 1000) eq_refl eq_refl)) in H. cbn in H. lia.
Qed.
(* the representability hypotheses are necessary in the model (the Rust operator panics), and only bite when
   the corresponding claim is present *)
Example C11_time_with_leeway_hyp_needed :
  ts_ok (ts_max - 5 + 10) = false /\ is_panic (validate (VTimeLeeway (ts_max - 5) 10)
    {| iss := None; sub := None; aud := None; exp := None; nbf := Some 990; iat := None; jti := None |}) = true /\
  validate (VTimeLeeway (ts_max - 5) 10)
    {| iss := None; sub := None; aud := None; exp := None; nbf := None; iat := None; jti := None |} = Ok tt.
Proof. vm_compute. repeat split. Qed.
Example C11_leeway_otherwise_claims_error_nonvacuous : validate (VTimeLeeway 1011 10) (mk 1000) = Err ClaimsError.
Proof.
  destruct (C11_leeway_otherwise_claims_error 1011 10 (mk 1000) eq_refl eq_refl) as [H|H]; [|exact H].
  apply (proj1 (C11_time_with_leeway 1011 10 (mk 1000) eq_refl eq_refl)) in H. cbn in H. lia.
Qed.

Definition noexp : claims := {| iss := None; sub := Some (str "bob"); aud := Some (str "svc"); exp := None; nbf := None; iat := None; jti := None |}.

Example C11_has_expiry_nonvacuous : validate VHasExpiry (mk 7) = Ok tt /\ validate VHasExpiry noexp <> Ok tt.
Proof.
  split.
  - apply (proj2 (C11_has_expiry _)). eexists. reflexivity.
  - intros H. apply (proj1 (C11_has_expiry _)) in H. destruct H as [e H]. discriminate.
Qed.
Example C11_for_subject_nonvacuous :
  validate (VForSubject (str "alice")) (mk 7) = Ok tt /\ validate (VForSubject (str "alice")) noexp <> Ok tt /\
  validate (VForSubject (str "alic")) (mk 7) <> Ok tt.
Proof.
  splits.
  - apply (proj2 (C11_for_subject _ _)). reflexivity.
  - intros H. apply (proj1 (C11_for_subject _ _)) in H. discriminate.
  - intros H. apply (proj1 (C11_for_subject _ _)) in H. discriminate.
Qed.
Example C11_from_issuer_nonvacuous :
  validate (VFromIssuer (str "issuer")) (mk 7) = Ok tt /\ validate (VFromIssuer (str "issuer")) noexp <> Ok tt.
Proof.
  split.
  - apply (proj2 (C11_from_issuer _ _)). reflexivity.
  - intros H. apply (proj1 (C11_from_issuer _ _)) in H. discriminate.
Qed.
Example C11_for_audience_nonvacuous :
  validate (VForAudience (str "svc")) noexp = Ok tt /\ validate (VForAudience (str "svc")) (mk 7) <> Ok tt.
Proof.
  split.
  - apply (proj2 (C11_for_audience _ _)). reflexivity.
  - intros H. apply (proj1 (C11_for_audience _ _)) in H. discriminate.
Qed.
Example C11_no_validation_nonvacuous : validate VNoValidation (mk (-5)) = Ok tt.
Proof. apply C11_no_validation. Qed.

(* ---- combinators ---- *)
Example C11_and_then_nonvacuous :
  validate (VAndThen (VTime 1000) VHasExpiry) (mk 1000) = Ok tt /\
  validate (VAndThen (VTime 1000) (VForSubject (str "bob"))) (mk 1000) <> Ok tt /\
  validate (VAndThen (VForSubject (str "bob")) (VTime 1000)) (mk 1000) <> Ok tt.
Proof.
  splits.
  - apply (proj2 (C11_and_then _ _ _)). split; vm_compute; reflexivity.
  - intros H. apply (proj1 (C11_and_then _ _ _)) in H. destruct H as [_ H]. vm_compute in H. discriminate.
  - intros H. apply (proj1 (C11_and_then _ _ _)) in H. destruct H as [H _]. vm_compute in H. discriminate.
Qed.
Example C11_slice_nonvacuous :
  validate (VSlice [VTime 1000; VHasExpiry; VForSubject (str "alice")]) (mk 1000) = Ok tt /\
  validate (VSlice [VTime 1000; VForSubject (str "bob"); VHasExpiry]) (mk 1000) <> Ok tt /\
  validate (VSlice []) noexp = Ok tt.
Proof.
  splits.
  - apply (proj2 (C11_slice _ _)). repeat constructor.
  - intros H. apply (proj1 (C11_slice _ _)) in H. inversion H as [|? ? _ H2]; subst. inversion H2 as [|? ? H3 _]; subst.
    vm_compute in H3. discriminate.
  - apply (proj2 (C11_slice _ _)). constructor.
Qed.
Example C11_vec_nonvacuous :
  validate (VVec [VTime 1000; VHasExpiry]) (mk 1000) = Ok tt /\ validate (VVec [VHasExpiry; VTime 1001]) (mk 1000) <> Ok tt.
Proof.
  split.
  - apply (proj2 (C11_vec _ _)). repeat constructor.
  - intros H. apply (proj1 (C11_vec _ _)) in H. inversion H as [|? ? _ H2]; subst. inversion H2 as [|? ? H3 _]; subst.
    vm_compute in H3. discriminate.
Qed.
Example C11_box_rc_arc_transparent_nonvacuous :
  validate (VBox (VTime 1001)) (mk 1000) = Err ClaimsError /\ validate (VRc (VArc (VTime 1000))) (mk 1000) = Ok tt.
Proof.
  destruct (C11_box_rc_arc_transparent (VTime 1001) (mk 1000)) as (B & _ & _).
  destruct (C11_box_rc_arc_transparent (VArc (VTime 1000)) (mk 1000)) as (_ & R & _).
  destruct (C11_box_rc_arc_transparent (VTime 1000) (mk 1000)) as (_ & _ & A).
  rewrite B, R, A. vm_compute. split; reflexivity.
Qed.
Example C11_map_nonvacuous :
  validate (VMap 1 VHasExpiry) (mk 1000) = Err ClaimsError /\ validate (VMap 2 (VForSubject (str "issuer"))) (mk 1000) = Ok tt.
Proof. rewrite !C11_map. vm_compute. split; reflexivity. Qed.

(* ---- "true by definition" check: which C11 statements are closed by [reflexivity] alone ---- *)
Example C11_definitional_no_validation : forall c, validate VNoValidation c = Ok tt. Proof. reflexivity. Qed.
Example C11_definitional_map : forall k v c, validate (VMap k v) c = validate v (transform k c). Proof. reflexivity. Qed.
Example C11_definitional_wrappers : forall v c, validate (VBox v) c = validate v c /\ validate (VRc v) c = validate v c /\ validate (VArc v) c = validate v c.
Proof. repeat split. Qed.

(* ================= the claim builder (added after the first audit) ================= *)
From PV Require Import ClaimsBuilder.

(* a realistic instant: 2026-10-02T00:00:00Z in nanoseconds, one hour of validity *)
Definition now_ns : Z := 1790899200 * 1000000000.
Definition hour_ns : Z := 3600 * 1000000000.
Definition built : claims :=
  {| iss := None; sub := None; aud := None; exp := Some (now_ns + hour_ns); nbf := Some now_ns; iat := Some now_ns; jti := None |}.
Example builder_instance : claims_new now_ns hour_ns = Ok built.
Proof. vm_compute. reflexivity. Qed.

(* both directions of the iff, on both boundaries and just outside them *)
Example C11_builder_valid_window_nonvacuous :
  validate (VTime now_ns) built = Ok tt /\ validate (VTime (now_ns + hour_ns)) built = Ok tt /\
  validate (VTime (now_ns + 1800 * 1000000000)) built = Ok tt /\
  validate (VTime (now_ns - 1)) built <> Ok tt /\ validate (VTime (now_ns + hour_ns + 1)) built <> Ok tt.
Proof.
  pose proof (fun t => C11_builder_valid_window now_ns hour_ns built t builder_instance) as W.
  splits.
  - apply (proj2 (W _)). unfold now_ns, hour_ns. lia.
  - apply (proj2 (W _)). unfold now_ns, hour_ns. lia.
  - apply (proj2 (W _)). unfold now_ns, hour_ns. lia.
  - intros H. apply (proj1 (W _)) in H. lia.
  - intros H. apply (proj1 (W _)) in H. lia.
Qed.
(* the rejections are ClaimsError (not a panic), by evaluation *)
Example C11_builder_valid_window_nonvacuous_computes :
  validate (VTime (now_ns - 1)) built = Err ClaimsError /\ validate (VTime (now_ns + hour_ns + 1)) built = Err ClaimsError.
Proof. split; vm_compute; reflexivity. Qed.
(* a negative "duration" (representable in the model's Z, not in Rust's unsigned std Duration) gives an empty
   window: the theorem then says the built claims are valid at NO instant *)
Example C11_builder_valid_window_nonvacuous_negative : forall c t,
  claims_new now_ns (-1) = Ok c -> validate (VTime t) c <> Ok tt.
Proof. intros c t H E. apply (proj1 (C11_builder_valid_window now_ns (-1) c t H)) in E. lia. Qed.

Example C11_builder_has_expiry_nonvacuous :
  validate VHasExpiry built = Ok tt /\
  (* whereas a claims value without exp is refused by the same validator *)
  validate VHasExpiry {| iss := None; sub := None; aud := None; exp := None; nbf := Some now_ns; iat := None; jti := None |} = Err ClaimsError.
Proof. split; [exact (C11_builder_has_expiry now_ns hour_ns built builder_instance)|reflexivity]. Qed.

Example C11_builder_total_in_range_nonvacuous :
  (exists c, claims_new now_ns hour_ns = Ok c) /\
  (exists c, claims_new ts_max 0 = Ok c) /\ (exists c, claims_new 0 ts_min = Ok c) /\
  (* the hypothesis is sharp: one nanosecond past jiff's maximum the builder panics *)
  is_panic (claims_new ts_max 1) = true /\ ts_ok (ts_max + 1) = false.
Proof.
  splits; try (apply C11_builder_total_in_range; vm_compute; reflexivity); vm_compute; reflexivity.
Qed.

Definition with_all : claims := for_subject (for_audience (from_issuer built (str "issuer.example")) (str "api.example")) (str "alice").
Example C11_builder_setters_accepted_nonvacuous :
  validate (VFromIssuer (str "issuer.example")) (from_issuer built (str "issuer.example")) = Ok tt /\
  validate (VForAudience (str "api.example")) (for_audience built (str "api.example")) = Ok tt /\
  validate (VForSubject (str "alice")) (for_subject built (str "alice")) = Ok tt /\
  (* chained as in builder code, the earlier setters survive the later ones and the time window is kept *)
  validate (VAndThen (VFromIssuer (str "issuer.example")) (VAndThen (VForAudience (str "api.example"))
             (VAndThen (VForSubject (str "alice")) (VTime (now_ns + 1))))) with_all = Ok tt /\
  (* before a setter is called the validator refuses: the field is really absent in the built value *)
  validate (VFromIssuer (str "issuer.example")) built = Err ClaimsError.
Proof.
  destruct (C11_builder_setters_accepted built (str "issuer.example")) as (A & _ & _).
  destruct (C11_builder_setters_accepted built (str "api.example")) as (_ & B & _).
  destruct (C11_builder_setters_accepted built (str "alice")) as (_ & _ & C).
  splits; [exact A|exact B|exact C|vm_compute; reflexivity|vm_compute; reflexivity].
Qed.

Example C11_builder_setters_reject_other_values_nonvacuous :
  validate (VFromIssuer (str "issuer.exampl")) (from_issuer built (str "issuer.example")) = Err ClaimsError /\
  validate (VForAudience (str "api.example ")) (for_audience built (str "api.example")) = Err ClaimsError /\
  validate (VForSubject (str "Alice")) (for_subject built (str "alice")) = Err ClaimsError /\
  validate (VForSubject []) (for_subject built (str "alice")) = Err ClaimsError.
Proof.
  assert (N1 : str "issuer.example" <> str "issuer.exampl") by (vm_compute; discriminate).
  assert (N2 : str "api.example" <> str "api.example ") by (vm_compute; discriminate).
  assert (N3 : str "alice" <> str "Alice") by (vm_compute; discriminate).
  assert (N4 : str "alice" <> []) by (vm_compute; discriminate).
  destruct (C11_builder_setters_reject_other_values built _ _ N1) as (A & _ & _).
  destruct (C11_builder_setters_reject_other_values built _ _ N2) as (_ & B & _).
  destruct (C11_builder_setters_reject_other_values built _ _ N3) as (_ & _ & C).
  destruct (C11_builder_setters_reject_other_values built _ _ N4) as (_ & _ & D).
  splits; assumption.
Qed.
(* observation: with_token_id has no theorem in C11 (there is no jti validator in the library either) *)
