(* NonVacuity/C06_sites.v — examples for Properties/C06_sites.v: the regenerated functions are live (they depend on every
   argument and on the order), and the theorems are usable to rewrite a model term into one over the source's fragments *)
From Coq Require Import List NArith String Lia.
From PV Require Import Bytes Result Oracle Ctr Paserk MacSiteRules KdfSiteRules ToyOracle.
From PV.Gen Require Import MacSites KdfSites.
From PV.Properties Require Import C06_sites.
Import ListNotations.
Local Open Scope string_scope.
Local Open Scope list_scope.

Example C06_site_pie_concrete :
  catl (mac_paseto_v4_pie_wrap_0 (str ".local-wrap.pie.") (str "N") (str "C")) = str "k4.local-wrap.pie.NC".
Proof. vm_compute. reflexivity. Qed.
Example C06_site_order_matters :
  catl (mac_paseto_v4_pie_wrap_0 (str "h") (str "N") (str "C")) <> catl (mac_paseto_v4_pie_wrap_0 (str "h") (str "C") (str "N")).
Proof. vm_compute. discriminate. Qed.
Example C06_site_pke_literals :
  catl (mac_paseto_v3_pke_0 (str "P") (str "E") (str "X")) = hex "01" ++ str "k3.seal.XEP" /\
  catl (mac_paseto_v1_pke_1 (str "R")) = hex "02" ++ str "k1.seal.R" /\
  catl (mac_paseto_v2_pke_1 (str "P") (str "E")) = str "EP".
Proof. vm_compute. repeat split. Qed.

(* the theorems instantiated with the toy oracle: both sides evaluate, and to the same bytes *)
Example C06_pie_auth_input_is_the_sources_used :
  pie_auth (v3_pie toy) (repeat x07 32) (str ".local-wrap.pie.") (repeat x2b 32) (str "ciphertext") =
  pie_mac (v3_pie toy) (repeat x07 32) (repeat x2b 32) (catl (mac_paseto_v3_pie_wrap_1 (str ".local-wrap.pie.") (repeat x2b 32) (str "ciphertext"))).
Proof. apply C06_pie_auth_input_is_the_sources. Qed.
Example C06_pie_kdf_input_is_the_sources_used :
  fst (fst (pieA_keys toy (repeat x07 32) (repeat x2b 32))) = take 32 (hmac384 toy (repeat x07 32) (catl (mac_paseto_v1_pie_wrap_0 (hex "80") (repeat x2b 32)))).
Proof. destruct (C06_pie_kdf_input_is_the_sources toy) as [H _]. rewrite H. reflexivity. Qed.
Example C06_pbkw_subkey_inputs_are_the_sources_used :
  pw_ak (v4_pw toy) (str "prekey") = blake2b toy 32 [] (catl (mac_paseto_v4_pw_wrap_0 (str "prekey") (hex "fe"))).
Proof. destruct (C06_pbkw_subkey_inputs_are_the_sources toy) as (_ & _ & _ & _ & H & _). apply H. Qed.
Example C06_pbkw_auth_input_is_the_sources_used :
  exists blob, pw_wrap (v1_pw toy) (str ".local-pw.") (str "pw") (hex "00000002") (repeat x07 32) (repeat x2b 32) (repeat x07 16) = Ok blob /\
               length blob = 32 + 4 + 16 + 32 + 48.
Proof.
  destruct (C06_pbkw_auth_input_is_the_sources toy) as (H & _). rewrite H. eexists. split; [vm_compute; reflexivity|]. vm_compute. reflexivity.
Qed.
Example C06_pke_key_inputs_are_the_sources_used :
  snd (x_seal_keys toy (str "k4") (str "X") (str "E") (str "P")) = blake2b toy 32 [] (catl (mac_paseto_v4_pke_2 (str "P") (str "E") (str "X"))).
Proof. destruct (C06_pke_key_inputs_are_the_sources toy) as (_ & _ & _ & _ & _ & H & _). rewrite H. reflexivity. Qed.
Example C06_pke_tag_input_is_the_sources_used :
  str "k1.seal." ++ str "C" ++ str "D" = catl (mac_paseto_v1_pke_2 (str "C") (str "D")).
Proof. destruct (C06_pke_tag_input_is_the_sources toy) as (H & _). apply H. Qed.
Example C06_no_other_mac_site_nonvacuous : Nat.leb 60 (length gen_mac_sites) = true.
Proof. vm_compute. reflexivity. Qed.

(* ---- separator constants ---- *)
Example C06_pie_kdf_separators_are_the_sources_used :
  pieB_keys toy (repeat x07 32) (repeat x2b 32) = pieB_with toy "paseto-v4/src/core/pie_wrap.rs" (repeat x07 32) (repeat x2b 32) /\
  kdf_label "paseto-v4/src/core/pie_wrap.rs" 0 <> kdf_label "paseto-v4/src/core/pw_wrap.rs" 0.
Proof. split; [apply C06_pie_kdf_separators_are_the_sources | vm_compute; discriminate]. Qed.
Example C06_pbkw_subkey_separators_are_the_sources_used :
  (pw_ek (v3_pw toy) (str "prekey"), pw_ak (v3_pw toy) (str "prekey")) = pwA_subkeys_with toy "paseto-v3/src/core/pw_wrap.rs" (str "prekey").
Proof. apply C06_pbkw_subkey_separators_are_the_sources. Qed.
Example C06_separators_are_the_specs_used : kdf_label "paseto-v2/src/core/pie_wrap.rs" 1 = hex "81" /\ kdf_label "paseto-v4-sodium/src/core/pw_wrap.rs" 0 = hex "ff".
Proof. split; [apply (proj1 C06_separators_are_the_specs) | apply (proj2 C06_separators_are_the_specs)]; simpl; auto 10. Qed.
