(* NonVacuity/C13.v — audit of Properties/C13.v *)
From Coq Require Import List NArith String Bool Lia Arith.
From PV Require Import Bytes Result Base64 Text TextProofs Oracle Keys KeysProofs ToyOracle.
From PV.Properties Require Import C13.
Import ListNotations.
Local Open Scope list_scope.
Ltac splits := repeat match goal with |- _ /\ _ => split end.

Definition key32 : bytes := map (fun i => n2b (N.of_nat i)) (seq 1 32).
Definition small48 : bytes := repeat x00 46 ++ [n2b 1; n2b 2].
Definition other49 : bytes := n2b 3 :: map (fun i => n2b (N.of_nat i)) (seq 1 48).
Definition silent : oracle := fun _ _ => [].

(* ---------------------------------------------------------------- the three statements the audit replaced
   (history: the first versions assumed  key_encode O B4 k obj = key_encode O B4S k obj  — unsatisfiable for
   secret keys under [laws], shown below —, resp. were congruence on their own hypothesis).  The present
   statements are about ONE serialised key offered to BOTH backends. *)
Lemma old_v4_hypothesis_was_unsatisfiable_for_secret_keys :
  forall O, laws O -> forall k obj, k = KSecret \/ k = KPkeSecret ->
    key_encode O B4 k obj <> key_encode O B4S k obj.
Proof.
  intros O L k obj [->| ->]; cbn [key_encode]; unfold dalek_encode_secret; intros H; inversion H as [E];
    apply (f_equal (@length byte)) in E; rewrite app_length, (ed_pk_len O L) in E; lia.
Qed.

(* a serialised k4 secret key both backends accept (toy oracle): seed || toy public key, 64 bytes *)
Definition sk64 : bytes := key32 ++ toy_edpk.
Example C13_v4_backends_same_id_nonvacuous :
  key_decode toy B4 KSecret sk64 = Ok key32 /\ key_decode toy B4S KSecret sk64 = Ok sk64 /\
  key32 <> sk64 /\ key_id toy B4 KSecret key32 = key_id toy B4S KSecret sk64.
Proof.
  assert (H1 : key_decode toy B4 KSecret sk64 = Ok key32) by (vm_compute; reflexivity).
  assert (H2 : key_decode toy B4S KSecret sk64 = Ok sk64) by (vm_compute; reflexivity).
  splits; [exact H1|exact H2|vm_compute; discriminate|exact (C13_v4_backends_same_id toy sk64 KSecret key32 sk64 H1 H2)].
Qed.
Example C13_v4_backends_same_id_nonvacuous_public :
  key_id toy B4 KPublic toy_edpk = key_id toy B4S KPublic toy_edpk.
Proof. apply (C13_v4_backends_same_id toy toy_edpk); vm_compute; reflexivity. Qed.

Example C13_v3_backends_same_id_nonvacuous :
  key_id toy B3 KSecret small48 = key_id toy B3A KSecret small48 /\ key_id toy B3 KPublic toy_p384 = key_id toy B3A KPublic toy_p384.
Proof.
  split; [apply (C13_v3_backends_same_id toy small48)|apply (C13_v3_backends_same_id toy other49)]; vm_compute; reflexivity.
Qed.
(* off the accepted domain the two encoders do differ (a 1-byte "scalar"): the decode hypotheses matter *)
Example C13_v3_encoders_differ_off_domain :
  key_to_text toy B3 KSecret [n2b 7] <> key_to_text toy B3A KSecret [n2b 7].
Proof. vm_compute. discriminate. Qed.

(* serialise -> parse: a k3 public key given in a NON-canonical accepted form (the toy parser maps every
   49-byte compressed string to one point) re-encodes to the canonical form, which parses to the same object *)
Example C13_id_stable_across_serialisation_nonvacuous :
  other49 <> toy_p384 /\
  forall obj', key_decode toy B3 KPublic toy_p384 = Ok obj' ->
     obj' = toy_p384 /\ key_id toy B3 KPublic obj' = key_id toy B3 KPublic toy_p384.
Proof.
  split; [vm_compute; discriminate|]. intros obj' H.
  destruct toy_key_premises as (Hnw & _ & Htag & _).
  apply (C13_id_stable_across_serialisation toy toy_laws Hnw Htag B3 KPublic other49 toy_p384 toy_p384 obj');
    try discriminate; try exact H; vm_compute; reflexivity.
Qed.
(* ... and for a dalek secret key, where object (seed) and serialisation (seed || pk) differ *)
Example C13_id_stable_across_serialisation_nonvacuous_dalek :
  forall obj', key_decode toy B4 KSecret sk64 = Ok obj' -> obj' = key32 /\ key_id toy B4 KSecret obj' = key_id toy B4 KSecret key32.
Proof.
  intros obj' H. destruct toy_key_premises as (Hnw & _ & Htag & _).
  apply (C13_id_stable_across_serialisation toy toy_laws Hnw Htag B4 KSecret sk64 key32 sk64 obj');
    try discriminate; try exact H; vm_compute; reflexivity.
Qed.

(* ---------------------------------------------------------------- the remaining theorems, instantiated *)
Example C13_id_definition_nonvacuous :
  key_id toy B4 KLocal key32
  = Ok (hash33 toy B4 (str "k4" ++ str ".lid." ++ str "k4.local.AQIDBAUGBwgJCgsMDQ4PEBESExQVFhcYGRobHB0eHyA")).
Proof. apply (C13_id_definition toy B4 KLocal key32). vm_compute. reflexivity. Qed.
(* definitional: [key_id] IS [key_to_text] followed by [hash33]; the theorem is closed by unfolding *)
Example C13_id_definition_is_unfolding :
  forall O b k obj, key_id O b k obj = (text <- key_to_text O b k obj ;; Ok (hash33 O b (paserk_ver b ++ id_hdr k ++ text))).
Proof. reflexivity. Qed.

Example C13_id_is_33_bytes_nonvacuous : forall id, key_id toy B3A KSecret small48 = Ok id -> length id = 33.
Proof. intros id. apply (C13_id_is_33_bytes toy toy_laws). Qed.
Example C13_id_is_33_bytes_value : key_id toy B3A KSecret small48 = Ok (repeat x00 33).
Proof. vm_compute. reflexivity. Qed.
(* [laws O] is needed: the silent oracle gives a 0-byte "id" *)
Example C13_id_is_33_bytes_needs_laws : key_id silent B4 KLocal key32 = Ok [].
Proof. vm_compute. reflexivity. Qed.
(* the hypothesis [key_id .. = Ok id] can fail (aws-lc encoder's assert) *)
Example C13_key_id_can_fail : is_panic (key_id toy B3A KSecret (n2b 1 :: repeat x00 48)) = true.
Proof. vm_compute. reflexivity. Qed.

Example C13_id_text_roundtrip_nonvacuous :
  key_id_text toy B4 KLocal key32 = Ok (print_paserk (str "k4") (str ".lid.") (repeat x00 33)) /\
  parse_keyid (str "k4") (str ".lid.") (print_paserk (str "k4") (str ".lid.") (repeat x00 33)) = Ok (repeat x00 33).
Proof. apply (C13_id_text_roundtrip toy toy_laws B4 KLocal key32 (repeat x00 33)). vm_compute. reflexivity. Qed.
Example C13_id_text_roundtrip_string :
  print_paserk (str "k4") (str ".lid.") (repeat x00 33) = str "k4.lid.AAAAAAAAAAAAAAAAAAAAAAAAAAAAAAAAAAAAAAAAAAAA".
Proof. vm_compute. reflexivity. Qed.

Example C13_id_text_33_nonvacuous :
  forall id, parse_keyid (str "k4") (str ".lid.") (str "k4.lid.AAAAAAAAAAAAAAAAAAAAAAAAAAAAAAAAAAAAAAAAAAAA") = Ok id -> length id = 33.
Proof. intros id. apply C13_id_text_33. Qed.
Example C13_id_text_33_hyp_holds :
  parse_keyid (str "k4") (str ".lid.") (str "k4.lid.AAAAAAAAAAAAAAAAAAAAAAAAAAAAAAAAAAAAAAAAAAAA") = Ok (repeat x00 33) /\
  parse_keyid (str "k4") (str ".lid.") (str "k4.lid.AAAAAAAAAAAAAAAAAAAAAAAAAAAAAAAAAAAAAAAAAAA") = Err InvalidKey.
Proof. vm_compute. split; reflexivity. Qed.

Example C13_domain_separated_nonvacuous :
  str "k4" ++ str ".lid." ++ str "k4.local.AAAA" <> str "k4" ++ str ".sid." ++ str "k4.local.AAAA" /\
  str "k4" ++ str ".pid." ++ str "x" <> str "k4" ++ str ".sid." ++ str "y".
Proof.
  split.
  - apply (C13_domain_separated B4 KLocal KSecret). vm_compute. discriminate.
  - apply (C13_domain_separated B4 KPublic KSecret). vm_compute. discriminate.
Qed.

(* the collision theorem's hypotheses are jointly satisfiable (the toy hash is constant, so every two ids collide) *)
Example C13_equal_ids_are_collisions_nonvacuous :
  exists text text',
    hash33 toy B4 (paserk_ver B4 ++ id_hdr KLocal ++ text) = hash33 toy B4 (paserk_ver B4 ++ id_hdr KPublic ++ text') /\
    paserk_ver B4 ++ id_hdr KLocal ++ text <> paserk_ver B4 ++ id_hdr KPublic ++ text'.
Proof.
  eexists. eexists.
  apply (C13_equal_ids_are_collisions toy B4 KLocal KPublic key32 toy_edpk (repeat x00 33)).
  - vm_compute. discriminate.
  - vm_compute. reflexivity.
  - vm_compute. reflexivity.
  - vm_compute. reflexivity.
  - vm_compute. reflexivity.
Qed.
(* the excluded case: public and PKE-public ids share the header (id_hdr equal), so nothing is claimed there *)
Example C13_domain_separation_not_claimed_for_pke : id_hdr KPublic = id_hdr KPkePublic /\ id_hdr KSecret = id_hdr KPkeSecret.
Proof. split; reflexivity. Qed.

(* ================= KeyId equality / order / hash (added after the first audit) ================= *)
From PV Require Import KeyIdRules.
From PV.Gen Require Import KeyIdImpls.
Local Open Scope string_scope.
Local Open Scope list_scope.

(* three 33-byte ids: a < b (last byte), b < c (first byte) *)
Definition id_a : bytes := repeat x11 33.
Definition id_b : bytes := repeat x11 32 ++ [x12].
Definition id_c : bytes := x12 :: repeat x00 32.
(* a real id, computed by the model from a key: the toy k4 lid of key32 *)
Definition id_k : bytes := Eval vm_compute in match key_id toy B4 KLocal key32 with Ok i => i | _ => [] end.
Example ids_are_ids : length id_a = 33 /\ length id_b = 33 /\ length id_c = 33 /\ length id_k = 33.
Proof. splits; reflexivity. Qed.

(* lower bounds only: the table is regenerated from id.rs *)
Example C13_keyid_impls_delegate_to_bytes_nonvacuous :
  Nat.leb 1 (length gen_keyid_fields) = true /\ Nat.leb 5 (length gen_keyid_impls) = true /\
  In ("PartialEq", "eq", "self.id==other.id") gen_keyid_impls /\
  In ("Ord", "cmp", "self.id.cmp(&other.id)") gen_keyid_impls /\
  In ("core::hash::Hash", "hash", "self.id.hash(state);") gen_keyid_impls /\
  In ("PartialOrd", "partial_cmp", "Some(self.cmp(other))") gen_keyid_impls.
Proof.
  destruct C13_keyid_impls_delegate_to_bytes as (F & I). rewrite F, I.
  splits; try reflexivity; cbn; tauto.
Qed.
(* the tie is live: an impl comparing something else (say the phantom marker only) is not the expected table *)
Example C13_keyid_impls_delegate_to_bytes_nonvacuous_live :
  map (fun r => if String.eqb (snd (fst r)) "eq" then (fst r, "true") else r) gen_keyid_impls <> expected_keyid_impls /\
  ("pub(crate)id:[u8;33],pub extra:u8,_key:PhantomData<(V,K)>," :: nil) <> expected_keyid_fields.
Proof. split; vm_compute; discriminate. Qed.

Example C13_keyid_eq_is_byte_equality_nonvacuous :
  keyid_eq id_a id_a = true /\ keyid_eq id_a id_b = false /\ keyid_eq id_a (take 32 id_a) = false /\
  (keyid_eq id_k id_k = true) /\ (forall x, keyid_eq id_k x = true -> x = id_k).
Proof.
  splits.
  - apply (proj2 (C13_keyid_eq_is_byte_equality id_a id_a)). reflexivity.
  - destruct (keyid_eq id_a id_b) eqn:E; [|reflexivity].
    apply (proj1 (C13_keyid_eq_is_byte_equality _ _)) in E. vm_compute in E. discriminate E.
  - vm_compute. reflexivity.
  - apply (proj2 (C13_keyid_eq_is_byte_equality id_k id_k)). reflexivity.
  - intros x H. symmetry. apply (proj1 (C13_keyid_eq_is_byte_equality _ _)). exact H.
Qed.

Example C13_keyid_ord_consistent_with_eq_nonvacuous :
  keyid_cmp id_a id_a = Eq /\ keyid_cmp id_a id_b <> Eq /\ keyid_cmp id_a id_b = Lt /\ keyid_eq id_a id_b = false.
Proof.
  splits.
  - apply (proj2 (C13_keyid_ord_consistent_with_eq id_a id_a)). vm_compute. reflexivity.
  - intros H. apply (proj1 (C13_keyid_ord_consistent_with_eq _ _)) in H. vm_compute in H. discriminate H.
  - vm_compute. reflexivity.
  - vm_compute. reflexivity.
Qed.

Example C13_keyid_cmp_antisymmetric_nonvacuous :
  keyid_cmp id_a id_b = Lt /\ keyid_cmp id_b id_a = Gt /\ keyid_cmp id_c id_k = CompOpp (keyid_cmp id_k id_c).
Proof.
  assert (H : keyid_cmp id_a id_b = Lt) by (vm_compute; reflexivity).
  splits; [exact H| |apply C13_keyid_cmp_antisymmetric].
  rewrite (C13_keyid_cmp_antisymmetric id_a id_b), H. reflexivity.
Qed.

Example C13_keyid_cmp_transitive_nonvacuous :
  keyid_cmp id_a id_b = Lt /\ keyid_cmp id_b id_c = Lt /\ keyid_cmp id_a id_c = Lt /\
  (* the order is lexicographic on bytes, not numeric on some hash: first byte decides *)
  keyid_cmp id_c (x13 :: repeat x00 32) = Lt.
Proof.
  assert (H1 : keyid_cmp id_a id_b = Lt) by (vm_compute; reflexivity).
  assert (H2 : keyid_cmp id_b id_c = Lt) by (vm_compute; reflexivity).
  splits; [exact H1|exact H2|exact (C13_keyid_cmp_transitive id_a id_b id_c H1 H2)|vm_compute; reflexivity].
Qed.

(* a concrete hasher: FNV-style fold over the bytes into N *)
Definition fnv (bs : bytes) : N := fold_left (fun h b => N.modulo (N.lxor h (b2n b) * 16777619) (2 ^ 32))%N bs 2166136261%N.
Example C13_keyid_hash_respects_eq_nonvacuous :
  fnv id_k = fnv (take 33 (id_k ++ id_a)) /\ fnv id_a <> fnv id_b.
Proof.
  split; [|vm_compute; discriminate].
  apply (C13_keyid_hash_respects_eq N fnv). vm_compute. reflexivity.
Qed.
(* FINDING (WRONG-REASON, mild): the statement is congruence of Leibniz equality (keyid_eq a b = true gives a = b,
   then ANY function agrees on a and b); it holds of every type with a reflected equality and says nothing of the
   Hash impl in id.rs.  The only content about the source is the row ("core::hash::Hash","hash","self.id.hash(state);")
   of C13_keyid_impls_delegate_to_bytes.  Same remark for C13_keyid_eq_is_byte_equality: [keyid_eq] is [beq] by
   definition, so the theorem is Bytes.beq_eq. *)
Lemma C13_keyid_hash_respects_eq_is_congruence :
  forall (A H : Type) (eqb : A -> A -> bool), (forall x y, eqb x y = true -> x = y) ->
  forall (hasher : A -> H) a b, eqb a b = true -> hasher a = hasher b.
Proof. intros A H eqb R hasher a b E. apply R in E. subst. reflexivity. Qed.
Lemma C13_keyid_eq_is_beq : keyid_eq = beq.
Proof. reflexivity. Qed.

Example C13_premises_satisfiable_nonvacuous :
  exists O, laws O /\ ed_pk_weak (ed_pk O key32) = false /\ na_point_valid (ed_pk O key32) = true.
Proof.
  destruct C13_premises_satisfiable as (O & L & A & B & _). exists O. splits; [exact L|apply A|apply B].
Qed.
