(* NonVacuity/C13.v — audit of Properties/C13.v *)
From Coq Require Import List NArith String Bool Lia Arith.
From PV Require Import Bytes Result Base64 Text TextProofs Oracle Keys KeysProofs ToyOracle.
From PV.Properties Require Import C13.
Import ListNotations.
Local Open Scope list_scope.
Ltac splits := repeat match goal with |- _ /\ _ => split end.

Definition key32 : bytes := map (fun i => n2b (N.of_nat i)) (seq 1 32).
Definition small48 : bytes := repeat x00 46 ++ [n2b 1; n2b 2].
Definition other49 : bytes := n2b 3 :: map (fun i => n2b (N.of_nat i)) (seq 1 48).
Definition silent : oracle := fun _ _ => [].

(* ---------------------------------------------------------------- the three statements the audit replaced
   (history: the first versions assumed  key_encode O B4 k obj = key_encode O B4S k obj  — unsatisfiable for
   secret keys under [laws], shown below —, resp. were congruence on their own hypothesis).  The present
   statements are about ONE serialised key offered to BOTH backends. *)
Lemma old_v4_hypothesis_was_unsatisfiable_for_secret_keys :
  forall O, laws O -> forall k obj, k = KSecret \/ k = KPkeSecret ->
    key_encode O B4 k obj <> key_encode O B4S k obj.
Proof.
  intros O L k obj [->| ->]; cbn [key_encode]; unfold dalek_encode_secret; intros H; inversion H as [E];
    apply (f_equal (@length byte)) in E; rewrite app_length, (ed_pk_len O L) in E; lia.
Qed.

(* a serialised k4 secret key both backends accept (toy oracle): seed || toy public key, 64 bytes *)
Definition sk64 : bytes := key32 ++ toy_edpk.
Example C13_v4_backends_same_id_nonvacuous :
  key_decode toy B4 KSecret sk64 = Ok key32 /\ key_decode toy B4S KSecret sk64 = Ok sk64 /\
  key32 <> sk64 /\ key_id toy B4 KSecret key32 = key_id toy B4S KSecret sk64.
Proof.
  assert (H1 : key_decode toy B4 KSecret sk64 = Ok key32) by (vm_compute; reflexivity).
  assert (H2 : key_decode toy B4S KSecret sk64 = Ok sk64) by (vm_compute; reflexivity).
  splits; [exact H1|exact H2|vm_compute; discriminate|exact (C13_v4_backends_same_id toy sk64 KSecret key32 sk64 H1 H2)].
Qed.
Example C13_v4_backends_same_id_nonvacuous_public :
  key_id toy B4 KPublic toy_edpk = key_id toy B4S KPublic toy_edpk.
Proof. apply (C13_v4_backends_same_id toy toy_edpk); vm_compute; reflexivity. Qed.

Example C13_v3_backends_same_id_nonvacuous :
  key_id toy B3 KSecret small48 = key_id toy B3A KSecret small48 /\ key_id toy B3 KPublic toy_p384 = key_id toy B3A KPublic toy_p384.
Proof.
  split; [apply (C13_v3_backends_same_id toy small48)|apply (C13_v3_backends_same_id toy other49)]; vm_compute; reflexivity.
Qed.
(* off the accepted domain the two encoders do differ (a 1-byte "scalar"): the decode hypotheses matter *)
Example C13_v3_encoders_differ_off_domain :
  key_to_text toy B3 KSecret [n2b 7] <> key_to_text toy B3A KSecret [n2b 7].
Proof. vm_compute. discriminate. Qed.

(* serialise -> parse: a k3 public key given in a NON-canonical accepted form (the toy parser maps every
   49-byte compressed string to one point) re-encodes to the canonical form, which parses to the same object *)
Example C13_id_stable_across_serialisation_nonvacuous :
  other49 <> toy_p384 /\
  forall obj', key_decode toy B3 KPublic toy_p384 = Ok obj' ->
     obj' = toy_p384 /\ key_id toy B3 KPublic obj' = key_id toy B3 KPublic toy_p384.
Proof.
  split; [vm_compute; discriminate|]. intros obj' H.
  destruct toy_key_premises as (Hnw & _ & Htag & _).
  apply (C13_id_stable_across_serialisation toy toy_laws Hnw Htag B3 KPublic other49 toy_p384 toy_p384 obj');
    try discriminate; try exact H; vm_compute; reflexivity.
Qed.
(* ... and for a dalek secret key, where object (seed) and serialisation (seed || pk) differ *)
Example C13_id_stable_across_serialisation_nonvacuous_dalek :
  forall obj', key_decode toy B4 KSecret sk64 = Ok obj' -> obj' = key32 /\ key_id toy B4 KSecret obj' = key_id toy B4 KSecret key32.
Proof.
  intros obj' H. destruct toy_key_premises as (Hnw & _ & Htag & _).
  apply (C13_id_stable_across_serialisation toy toy_laws Hnw Htag B4 KSecret sk64 key32 sk64 obj');
    try discriminate; try exact H; vm_compute; reflexivity.
Qed.

(* ---------------------------------------------------------------- the remaining theorems, instantiated *)
Example C13_id_definition_nonvacuous :
  key_id toy B4 KLocal key32
  = Ok (hash33 toy B4 (str "k4" ++ str ".lid." ++ str "k4.local.AQIDBAUGBwgJCgsMDQ4PEBESExQVFhcYGRobHB0eHyA")).
Proof. apply (C13_id_definition toy B4 KLocal key32). vm_compute. reflexivity. Qed.
(* definitional: [key_id] IS [key_to_text] followed by [hash33]; the theorem is closed by unfolding *)
Example C13_id_definition_is_unfolding :
  forall O b k obj, key_id O b k obj = (text <- key_to_text O b k obj ;; Ok (hash33 O b (paserk_ver b ++ id_hdr k ++ text))).
Proof. reflexivity. Qed.

Example C13_id_is_33_bytes_nonvacuous : forall id, key_id toy B3A KSecret small48 = Ok id -> length id = 33.
Proof. intros id. apply (C13_id_is_33_bytes toy toy_laws). Qed.
Example C13_id_is_33_bytes_value : key_id toy B3A KSecret small48 = Ok (repeat x00 33).
Proof. vm_compute. reflexivity. Qed.
(* [laws O] is needed: the silent oracle gives a 0-byte "id" *)
Example C13_id_is_33_bytes_needs_laws : key_id silent B4 KLocal key32 = Ok [].
Proof. vm_compute. reflexivity. Qed.
(* the hypothesis [key_id .. = Ok id] can fail (aws-lc encoder's assert) *)
Example C13_key_id_can_fail : is_panic (key_id toy B3A KSecret (n2b 1 :: repeat x00 48)) = true.
Proof. vm_compute. reflexivity. Qed.

Example C13_id_text_roundtrip_nonvacuous :
  key_id_text toy B4 KLocal key32 = Ok (print_paserk (str "k4") (str ".lid.") (repeat x00 33)) /\
  parse_keyid (str "k4") (str ".lid.") (print_paserk (str "k4") (str ".lid.") (repeat x00 33)) = Ok (repeat x00 33).
Proof. apply (C13_id_text_roundtrip toy toy_laws B4 KLocal key32 (repeat x00 33)). vm_compute. reflexivity. Qed.
Example C13_id_text_roundtrip_string :
  print_paserk (str "k4") (str ".lid.") (repeat x00 33) = str "k4.lid.AAAAAAAAAAAAAAAAAAAAAAAAAAAAAAAAAAAAAAAAAAAA".
Proof. vm_compute. reflexivity. Qed.

Example C13_id_text_33_nonvacuous :
  forall id, parse_keyid (str "k4") (str ".lid.") (str "k4.lid.AAAAAAAAAAAAAAAAAAAAAAAAAAAAAAAAAAAAAAAAAAAA") = Ok id -> length id = 33.
Proof. intros id. apply C13_id_text_33. Qed.
Example C13_id_text_33_hyp_holds :
  parse_keyid (str "k4") (str ".lid.") (str "k4.lid.AAAAAAAAAAAAAAAAAAAAAAAAAAAAAAAAAAAAAAAAAAAA") = Ok (repeat x00 33) /\
  parse_keyid (str "k4") (str ".lid.") (str "k4.lid.AAAAAAAAAAAAAAAAAAAAAAAAAAAAAAAAAAAAAAAAAAA") = Err InvalidKey.
Proof. vm_compute. split; reflexivity. Qed.

Example C13_domain_separated_nonvacuous :
  str "k4" ++ str ".lid." ++ str "k4.local.AAAA" <> str "k4" ++ str ".sid." ++ str "k4.local.AAAA" /\
  str "k4" ++ str ".pid." ++ str "x" <> str "k4" ++ str ".sid." ++ str "y".
Proof.
  split.
  - apply (C13_domain_separated B4 KLocal KSecret). vm_compute. discriminate.
  - apply (C13_domain_separated B4 KPublic KSecret). vm_compute. discriminate.
Qed.

(* the collision theorem's hypotheses are jointly satisfiable (the toy hash is constant, so every two ids collide) *)
Example C13_equal_ids_are_collisions_nonvacuous :
  exists text text',
    hash33 toy B4 (paserk_ver B4 ++ id_hdr KLocal ++ text) = hash33 toy B4 (paserk_ver B4 ++ id_hdr KPublic ++ text') /\
    paserk_ver B4 ++ id_hdr KLocal ++ text <> paserk_ver B4 ++ id_hdr KPublic ++ text'.
Proof.
  eexists. eexists.
  apply (C13_equal_ids_are_collisions toy B4 KLocal KPublic key32 toy_edpk (repeat x00 33)).
  - vm_compute. discriminate.
  - vm_compute. reflexivity.
  - vm_compute. reflexivity.
  - vm_compute. reflexivity.
  - vm_compute. reflexivity.
Qed.
(* the excluded case: public and PKE-public ids share the header (id_hdr equal), so nothing is claimed there *)
Example C13_domain_separation_not_claimed_for_pke : id_hdr KPublic = id_hdr KPkePublic /\ id_hdr KSecret = id_hdr KPkeSecret.
Proof. split; reflexivity. Qed.
