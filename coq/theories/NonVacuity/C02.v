(* NonVacuity/C02.v — C02 theorems instantiated at concrete values with the toy oracle. *)
From Coq Require Import List NArith String Lia.
From PV Require Import Bytes Result Pae PaeProofs Oracle Local Public LocalProofs PublicProofs TamperProofs ToyOracle.
From PV.Properties Require Import C02.
From PV.NonVacuity Require Import C01.
Import ListNotations.
Local Open Scope string_scope.
Local Open Scope list_scope.

Definition n32 : bytes := repeat x07 32.
Definition key32' : bytes := repeat x2b 32.
Definition unwrap (r : result bytes) : bytes := match r with Ok p => p | _ => [] end.

(* sealed payloads, computed once *)
Definition p_v1 : bytes := Eval vm_compute in unwrap (v1_local_seal toy key32 sfx (n32 ++ msg) foot []).
Definition p_v2 : bytes := Eval vm_compute in unwrap (v2_local_seal toy key32 sfx (repeat x07 24 ++ msg) foot []).
Definition p_v3 : bytes := Eval vm_compute in unwrap (v3_local_seal toy key32 sfx (n32 ++ msg) foot aad).
Definition p_lc : bytes := Eval vm_compute in unwrap (lc_local_seal toy key32 sfx (n32 ++ msg) foot aad).
Definition p_v4 : bytes := Eval vm_compute in unwrap (v4_local_seal toy key32 sfx (n32 ++ msg) foot aad).
Definition p_na : bytes := Eval vm_compute in unwrap (na_local_seal toy key32 sfx (n32 ++ msg) foot aad).
Example payloads_nontrivial : length p_v1 = 102 /\ length p_v2 = 62 /\ length p_v3 = 102 /\ length p_v4 = 86.
Proof. repeat split; reflexivity. Qed.

(* ---- *_is_generic: both sides are the SAME successful result, not merely two errors ---- *)
Example C02_v1_is_generic_nonvacuous :
  v1_local_unseal toy key32 sfx p_v1 foot [] = lg_unseal (v1_params toy) key32 sfx p_v1 foot [] /\
  lg_unseal (v1_params toy) key32 sfx p_v1 foot [] = Ok msg.
Proof. split; [exact (C02_v1_is_generic toy key32 sfx p_v1 foot [])|vm_compute; reflexivity]. Qed.
Example C02_v3_is_generic_nonvacuous :
  v3_local_unseal toy key32 sfx p_v3 foot aad = lg_unseal (v3_params toy) key32 sfx p_v3 foot aad /\
  lg_unseal (v3_params toy) key32 sfx p_v3 foot aad = Ok msg.
Proof. split; [exact (C02_v3_is_generic toy key32 sfx p_v3 foot aad)|vm_compute; reflexivity]. Qed.
Example C02_v3_awslc_is_generic_nonvacuous :
  lc_local_unseal toy key32 sfx p_lc foot aad = lg_unseal (lc_params toy) key32 sfx p_lc foot aad /\
  lg_unseal (lc_params toy) key32 sfx p_lc foot aad = Ok msg.
Proof. split; [exact (C02_v3_awslc_is_generic toy key32 sfx p_lc foot aad)|vm_compute; reflexivity]. Qed.
Example C02_v4_is_generic_nonvacuous :
  v4_local_unseal toy key32 sfx p_v4 foot aad = lg_unseal (v4_params toy) key32 sfx p_v4 foot aad /\
  lg_unseal (v4_params toy) key32 sfx p_v4 foot aad = Ok msg.
Proof. split; [exact (C02_v4_is_generic toy key32 sfx p_v4 foot aad)|vm_compute; reflexivity]. Qed.
Example C02_v4_sodium_is_generic_nonvacuous :
  na_local_unseal toy key32 sfx p_na foot aad = lg_unseal (na_params toy) key32 sfx p_na foot aad /\
  lg_unseal (na_params toy) key32 sfx p_na foot aad = Ok msg.
Proof. split; [exact (C02_v4_sodium_is_generic toy key32 sfx p_na foot aad)|vm_compute; reflexivity]. Qed.

(* ---- acceptance characterisation, both directions ---- *)
Example C02_local_accept_iff_nonvacuous_fwd :
  aad_ok (v4_params toy) aad /\ exists n c t, p_v4 = n ++ c ++ t /\ length n = 32 /\ length t = 32 /\
     lp_tag (v4_params toy) key32 sfx n c foot aad = t /\ msg = xorl c (lp_ks (v4_params toy) key32 n (length c)).
Proof.
  apply (proj1 (C02_local_accept_iff (v4_params toy) key32 sfx p_v4 foot aad msg)). vm_compute. reflexivity.
Qed.
Example C02_local_accept_iff_nonvacuous_bwd :
  lg_unseal (v4_params toy) key32 sfx (n32 ++ msg ++ z 32) foot aad = Ok msg.
Proof.
  apply (proj2 (C02_local_accept_iff (v4_params toy) key32 sfx (n32 ++ msg ++ z 32) foot aad msg)).
  split; [left; reflexivity|]. exists n32, msg, (z 32). repeat split; vm_compute; reflexivity.
Qed.

Example C02_v2_accept_iff_nonvacuous_fwd :
  @nil byte = [] /\ exists n c t, p_v2 = n ++ c ++ t /\ length n = 24 /\ length t = 16 /\
                           xcp_open toy key32 n (v2_pre sfx n foot) c t = Some msg.
Proof. apply (proj1 (C02_v2_accept_iff toy key32 sfx p_v2 foot [] msg)). vm_compute. reflexivity. Qed.
Example C02_v2_accept_iff_nonvacuous_bwd :
  v2_local_unseal toy key32 sfx (z 24 ++ msg ++ z 16) foot [] = Ok msg.
Proof.
  apply (proj2 (C02_v2_accept_iff toy key32 sfx (z 24 ++ msg ++ z 16) foot [] msg)).
  split; [reflexivity|]. exists (z 24), msg, (z 16). repeat split; vm_compute; reflexivity.
Qed.

(* ---- tag tamper: a genuine token with ANY other 32-byte tag is rejected ---- *)
Example C02_tag_tamper_nonvacuous :
  lg_unseal (v4_params toy) key32 sfx (n32 ++ msg ++ repeat x01 32) foot aad = Err CryptoError.
Proof.
  apply (C02_tag_tamper (v4_params toy) key32 sfx n32 msg (z 32) (repeat x01 32) foot aad);
    [reflexivity|reflexivity|reflexivity|left; reflexivity|vm_compute; reflexivity|vm_compute; discriminate].
Qed.
(* flipping the LAST bit of the tag only (a prefix-only comparison would miss it) *)
Example C02_tag_tamper_last_bit :
  lg_unseal (v3_params toy) key32 sfx (n32 ++ msg ++ (z 47 ++ [x01])) foot aad = Err CryptoError.
Proof.
  apply (C02_tag_tamper (v3_params toy) key32 sfx n32 msg (z 48) (z 47 ++ [x01]) foot aad);
    [reflexivity|reflexivity|vm_compute; reflexivity|left; reflexivity|vm_compute; reflexivity|vm_compute; discriminate].
Qed.

(* ---- short ---- *)
Example C02_local_short_nonvacuous :
  lg_unseal (v4_params toy) key32 sfx (repeat x55 63) foot aad = Err InvalidToken.
Proof. apply C02_local_short; [left; reflexivity|cbn; lia]. Qed.
Example C02_v2_short_nonvacuous : v2_local_unseal toy key32 sfx (repeat x55 39) foot [] = Err InvalidToken.
Proof. apply C02_v2_short. cbn; lia. Qed.

(* ---- assertion refused ---- *)
Example C02_local_assertion_refused_nonvacuous :
  lg_unseal (v1_params toy) key32 sfx p_v1 foot aad = Err ClaimsError.
Proof. apply C02_local_assertion_refused; [reflexivity|discriminate]. Qed.
Example C02_v2_assertion_refused_nonvacuous : v2_local_unseal toy key32 sfx p_v2 foot aad = Err ClaimsError.
Proof. apply C02_v2_assertion_refused. discriminate. Qed.
Definition s_v2 : bytes := Eval vm_compute in unwrap (v2_public_seal toy key32 sfx msg foot []).
Definition s_v4 : bytes := Eval vm_compute in unwrap (v4_public_seal toy key32 sfx msg foot aad).
Definition s_v3 : bytes := Eval vm_compute in unwrap (v3_public_seal toy key32 sfx msg foot aad).
Definition s_lc : bytes := Eval vm_compute in unwrap (lc_public_seal toy key32 sfx msg foot aad []).
Definition s_v1 : bytes := Eval vm_compute in unwrap (v1_public_seal toy key32 sfx msg foot [] []).
Definition s_na : bytes := Eval vm_compute in unwrap (na_public_seal toy key32 sfx msg foot aad).
Example C02_public_assertion_refused_nonvacuous :
  pg_unseal (v2_pparams toy) toy_edpk sfx s_v2 foot aad = Err ClaimsError /\
  pg_unseal (v2_pparams toy) toy_edpk sfx s_v2 foot [] = Ok msg.
Proof. split; [apply C02_public_assertion_refused; [reflexivity|discriminate]|vm_compute; reflexivity]. Qed.

(* ---- forgery is a collision: hypotheses are satisfiable exactly where the MAC collides (toy MAC is constant) ---- *)
Example C02_forgery_is_collision_nonvacuous :
  lp_tag (v4_params toy) key32' sfx n32 msg foot aad = lp_tag (v4_params toy) key32 sfx n32 msg foot aad /\
  (key32', sfx, n32, msg, foot, aad) <> (key32, sfx, n32, msg, foot, aad).
Proof.
  apply (C02_forgery_is_collision (v4_params toy) key32 sfx n32 msg (z 32) foot aad key32' sfx n32 msg foot aad msg);
    [reflexivity|reflexivity|reflexivity|left; reflexivity|left; reflexivity|vm_compute; reflexivity|vm_compute; reflexivity|].
  intros H. vm_compute in H. discriminate H.
Qed.

(* ---- MAC-input injectivity: instance, and its use in contrapositive form (boundary shift footer/assertion) ---- *)
Ltac sm := unfold small, len_ok; vm_compute; reflexivity.

Example C02_v3_mac_input_injective_nonvacuous :
  v3_pre sfx n32 msg foot aad <> v3_pre sfx n32 msg (foot ++ aad) [].
Proof.
  intros E. apply C02_v3_mac_input_injective in E; try sm. vm_compute in E. discriminate E.
Qed.
Example C02_v4_mac_input_injective_nonvacuous :
  v4_pre sfx n32 (msg ++ [x6b]) (str "id-1") aad <> v4_pre sfx n32 msg (str "kid-1") aad.
Proof.
  intros E. apply C02_v4_mac_input_injective in E; try sm. vm_compute in E. discriminate E.
Qed.
Example C02_v1_mac_input_injective_nonvacuous :
  v1_pre sfx n32 msg foot <> v1_pre [] n32 msg foot.
Proof.
  intros E. apply C02_v1_mac_input_injective in E; try sm. vm_compute in E. discriminate E.
Qed.
Example C02_v2_aead_aad_injective_nonvacuous :
  v2_pre sfx (repeat x07 24) foot <> v2_pre sfx (repeat x07 23 ++ [x06]) foot.
Proof.
  intros E. apply C02_v2_aead_aad_injective in E; try sm. vm_compute in E. discriminate E.
Qed.
(* positive instance: all ten hypotheses hold simultaneously *)
Example C02_v3_mac_input_injective_positive :
  (sfx, n32, msg, foot, aad) = (sfx, n32, msg, foot, aad).
Proof. apply C02_v3_mac_input_injective; sm. Qed.

Example C02_version_separated_nonvacuous :
  str "v3" ++ sfx ++ str ".local." <> str "v4" ++ sfx ++ str ".local.".
Proof. apply C02_version_separated; [reflexivity|reflexivity|discriminate]. Qed.

(* ---- public ---- *)
Example C02_v1_public_is_generic_nonvacuous :
  v1_public_unseal toy (z 1) sfx s_v1 foot [] = pg_unseal (v1_pparams toy) (z 1) sfx s_v1 foot [] /\
  pg_unseal (v1_pparams toy) (z 1) sfx s_v1 foot [] = Ok msg.
Proof. split; [apply C02_v1_public_is_generic|vm_compute; reflexivity]. Qed.
Example C02_v2_public_is_generic_nonvacuous :
  v2_public_unseal toy toy_edpk sfx s_v2 foot [] = pg_unseal (v2_pparams toy) toy_edpk sfx s_v2 foot [] /\
  pg_unseal (v2_pparams toy) toy_edpk sfx s_v2 foot [] = Ok msg.
Proof. split; [apply C02_v2_public_is_generic|vm_compute; reflexivity]. Qed.
Example C02_v3_public_is_generic_nonvacuous :
  v3_public_unseal toy toy_p384 sfx s_v3 foot aad = pg_unseal (v3_pparams toy) toy_p384 sfx s_v3 foot aad /\
  pg_unseal (v3_pparams toy) toy_p384 sfx s_v3 foot aad = Ok msg.
Proof. split; [apply C02_v3_public_is_generic|vm_compute; reflexivity]. Qed.
Example C02_v3_awslc_public_is_generic_nonvacuous :
  lc_public_unseal toy toy_p384 sfx s_lc foot aad = pg_unseal (lc_pparams toy) toy_p384 sfx s_lc foot aad /\
  pg_unseal (lc_pparams toy) toy_p384 sfx s_lc foot aad = Ok msg.
Proof. split; [apply C02_v3_awslc_public_is_generic|vm_compute; reflexivity]. Qed.
Example C02_v4_public_is_generic_nonvacuous :
  v4_public_unseal toy toy_edpk sfx s_v4 foot aad = pg_unseal (v4_pparams toy) toy_edpk sfx s_v4 foot aad /\
  pg_unseal (v4_pparams toy) toy_edpk sfx s_v4 foot aad = Ok msg.
Proof. split; [apply C02_v4_public_is_generic|vm_compute; reflexivity]. Qed.
Example C02_v4_sodium_public_is_generic_nonvacuous :
  na_public_unseal toy toy_edpk sfx s_na foot aad = pg_unseal (na_pparams toy) toy_edpk sfx s_na foot aad /\
  pg_unseal (na_pparams toy) toy_edpk sfx s_na foot aad = Ok msg.
Proof. split; [apply C02_v4_sodium_public_is_generic|vm_compute; reflexivity]. Qed.

Example C02_public_accept_iff_nonvacuous_fwd :
  paad_ok (v3_pparams toy) aad /\ exists sig, s_v3 = msg ++ sig /\ length sig = 96 /\
     pp_check (v3_pparams toy) toy_p384 (pp_pre (v3_pparams toy) toy_p384 sfx msg foot aad) sig = Ok tt.
Proof. apply (proj1 (C02_public_accept_iff (v3_pparams toy) toy_p384 sfx s_v3 foot aad msg)). vm_compute. reflexivity. Qed.
Example C02_public_accept_iff_nonvacuous_bwd :
  pg_unseal (v3_pparams toy) toy_p384 sfx (msg ++ be_bytes 48 5 ++ be_bytes 48 9) foot aad = Ok msg.
Proof.
  apply (proj2 (C02_public_accept_iff (v3_pparams toy) toy_p384 sfx _ foot aad msg)).
  split; [left; reflexivity|]. exists (be_bytes 48 5 ++ be_bytes 48 9). repeat split; vm_compute; reflexivity.
Qed.
(* the v3 range check is live: s = 0 is refused with the format error even by the always-true toy verifier *)
Example C02_public_v3_zero_s_refused :
  pg_unseal (v3_pparams toy) toy_p384 sfx (msg ++ be_bytes 48 5 ++ be_bytes 48 0) foot aad = Err InvalidToken.
Proof. vm_compute. reflexivity. Qed.

Example C02_public_short_nonvacuous :
  pg_unseal (v1_pparams toy) (z 1) sfx (repeat x55 255) foot [] = Err InvalidToken.
Proof. apply C02_public_short; [right; reflexivity|cbn; lia]. Qed.

Example C02_public_forgery_event_nonvacuous :
  exists sig', s_v4 = msg ++ sig' /\
     pp_check (v4_pparams toy) toy_edpk (pp_pre (v4_pparams toy) toy_edpk sfx msg foot []) sig' = Ok tt /\
     (toy_edpk, sfx, msg, foot, @nil byte, sig') <> (toy_edpk, sfx, msg, foot, aad, z 64).
Proof.
  apply (C02_public_forgery_event (v4_pparams toy) toy_edpk sfx msg (z 64) foot aad toy_edpk sfx s_v4 foot [] msg);
    [reflexivity|vm_compute; reflexivity|].
  intros H. vm_compute in H. discriminate H.
Qed.

(* WRONG-REASON evidence: the "signed tuple" (pk, enc, m, sig, f, a) of C02_public_forgery_event is never
   required to be a signature, nor even to have signature length: the statement is pg_accept_iff plus a
   rearrangement of its own third hypothesis. *)
Lemma C02_public_forgery_event_original_is_junk :
  forall (P : pparams) pk enc m sig f a pk' enc' p' f' a' m',
  pg_unseal P pk' enc' p' f' a' = Ok m' ->
  (pk', enc', p', f', a') <> (pk, enc, m ++ sig, f, a) ->
  exists sig', p' = m' ++ sig' /\ pp_check P pk' (pp_pre P pk' enc' m' f' a') sig' = Ok tt /\
               (pk', enc', m', f', a', sig') <> (pk, enc, m, f, a, sig).
Proof.
  intros P pk enc m sig f a pk' enc' p' f' a' m' Hok Hne.
  apply C02_public_accept_iff in Hok as (_ & sig' & -> & _ & Hc).
  exists sig'. repeat split; [exact Hc|]. intros E. inversion E; subst. apply Hne. reflexivity.
Qed.

Example C02_v4_signed_input_injective_nonvacuous :
  v4_ppre sfx msg foot aad <> v4_ppre sfx msg (foot ++ aad) [].
Proof. intros E. apply C02_v4_signed_input_injective in E; try sm. vm_compute in E. discriminate E. Qed.
Example C02_v3_signed_input_injective_nonvacuous :
  v3_ppre toy_p384 sfx msg foot aad <> v3_ppre (hex "03" ++ z 48) sfx msg foot aad.
Proof. intros E. apply C02_v3_signed_input_injective in E; try sm. vm_compute in E. discriminate E. Qed.
Example C02_v2_signed_input_injective_nonvacuous :
  v2_ppre sfx msg foot <> v2_ppre sfx (msg ++ foot) [].
Proof. intros E. apply C02_v2_signed_input_injective in E; try sm. vm_compute in E. discriminate E. Qed.
Example C02_v1_signed_input_injective_nonvacuous :
  v1_ppre sfx msg foot <> v1_ppre sfx msg [].
Proof. intros E. apply C02_v1_signed_input_injective in E; try sm. vm_compute in E. discriminate E. Qed.

(* ---- v2 tag tamper (AEAD uniqueness of the tag): the genuine token p_v2 = z 24 ++ msg ++ z 16 with any other
        16-byte tag, here differing in the last bit only ---- *)
Example C02_v2_tag_tamper_nonvacuous :
  v2_local_unseal toy key32 sfx (z 24 ++ msg ++ z 16) foot [] = Ok msg /\
  v2_local_unseal toy key32 sfx (z 24 ++ msg ++ (z 15 ++ [x01])) foot [] = Err CryptoError.
Proof.
  assert (H : v2_local_unseal toy key32 sfx (z 24 ++ msg ++ z 16) foot [] = Ok msg) by (vm_compute; reflexivity).
  split; [exact H|].
  apply (C02_v2_tag_tamper toy toy_laws key32 sfx (z 24) msg (z 16) (z 15 ++ [x01]) foot msg);
    [reflexivity|reflexivity|reflexivity|exact H|vm_compute; discriminate].
Qed.
(* the genuine token used above IS what the library's seal produces *)
Example C02_v2_tag_tamper_nonvacuous_is_sealed : p_v2 = z 24 ++ msg ++ z 16.
Proof. vm_compute. reflexivity. Qed.

(* ---- text level ---- *)
From PV Require Import Base64 Text TextProofs.
Definition fdec_any (b : bytes) : option bytes := Some b.
Definition txt0 : bytes := str "v4.local.aGVsbG8sIHdvcmxk".          (* 12 payload bytes, whole blocks, no footer *)
(* extension by whole characters that still parses: other bytes *)
Example C02_text_extension_changes_token_nonvacuous :
  forall t t' v v',
    parse_token fdec_any (str "v4") [] (str ".local.") txt0 = Ok (t, v) ->
    parse_token fdec_any (str "v4") [] (str ".local.") (txt0 ++ str "IQ") = Ok (t', v') -> t' <> t.
Proof.
  intros t t' v v' H1 H2.
  apply (C02_text_extension_changes_token _ fdec_any (str "v4") [] (str ".local.") txt0 (str "IQ") t t' v v' H1 H2); discriminate.
Qed.
Example C02_text_extension_hyps_hold :
  exists t t', parse_token fdec_any (str "v4") [] (str ".local.") txt0 = Ok (t, []) /\
               parse_token fdec_any (str "v4") [] (str ".local.") (txt0 ++ str "IQ") = Ok (t', []) /\
               length (t_payload t) = 12 /\ length (t_payload t') = 13.
Proof. eexists; eexists. vm_compute. repeat split. Qed.
(* the dangling-character extension (one character after whole blocks): whatever the character other than the dot,
   the text does not parse to the 12-byte, footer-less token *)
Example C02_text_dangling_character_rejected :
  forallb (fun c => match parse_token fdec_any (str "v4") [] (str ".local.") (txt0 ++ [c]) with
                    | Ok (t, _) => negb (Nat.eqb (length (t_payload t)) 12) || negb (Nat.eqb (length (t_footer t)) 0)
                    | _ => true end) (filter (fun c => negb (N.eqb (b2n c) 46)) (map (fun i => n2b (N.of_nat i)) (seq 0 256))) = true.
Proof. vm_compute. reflexivity. Qed.
(* the exception is real: the dot *)
Example C02_text_extension_dot_is_the_alias :
  exists t, parse_token fdec_any (str "v4") [] (str ".local.") txt0 = Ok (t, []) /\
            parse_token fdec_any (str "v4") [] (str ".local.") (txt0 ++ [dot]) = Ok (t, []).
Proof. eexists. vm_compute. split; reflexivity. Qed.
Example C02_text_truncation_changes_token_nonvacuous :
  forall t t' v v',
    parse_token fdec_any (str "v4") [] (str ".local.") (txt0 ++ str "IQ") = Ok (t, v) ->
    parse_token fdec_any (str "v4") [] (str ".local.") txt0 = Ok (t', v') -> t' <> t.
Proof.
  intros t t' v v' H1 H2.
  apply (C02_text_truncation_changes_token _ fdec_any (str "v4") [] (str ".local.") txt0 (str "IQ") t t' v v' H1 H2); discriminate.
Qed.
Example C02_text_substitution_changes_token_nonvacuous :
  forall t t' v v',
    parse_token fdec_any (str "v4") [] (str ".local.") txt0 = Ok (t, v) ->
    parse_token fdec_any (str "v4") [] (str ".local.") (str "v4.local.aGVsbG8sIHdvcmxl") = Ok (t', v') -> t' <> t.
Proof.
  intros t t' v v' H1 H2.
  apply (C02_text_substitution_changes_token _ fdec_any (str "v4") [] (str ".local.") _ _ t t' v v' H1 H2).
  - vm_compute. reflexivity.
  - vm_compute. discriminate.
Qed.
Example C02_text_substitution_hyps_hold :
  exists t', parse_token fdec_any (str "v4") [] (str ".local.") (str "v4.local.aGVsbG8sIHdvcmxl") = Ok (t', []).
Proof. eexists. vm_compute. reflexivity. Qed.
