(* NonVacuity/C15_sites.v — examples for Properties/C15_sites.v *)
From Coq Require Import List String Bool NArith.
From PV Require Import Bytes Pae WriterRules.
From PV.Gen Require Import Writers.
From PV.Properties Require Import C15_sites.
Import ListNotations.
Local Open Scope string_scope.
Local Open Scope list_scope.

(* the table is not empty, and contains both sinks of paseto-core and backend adapters *)
Example C15_writers_present :
  Nat.leb 13 (length gen_writers) = true /\
  existsb (fun r => String.eqb (snd r) "extend") gen_writers = true /\
  existsb (fun r => String.eqb (snd r) "update") gen_writers = true.
Proof. vm_compute. repeat split. Qed.
(* the theorem applied to the first writer of the table and a concrete piece list *)
Example C15_every_writer_receives_the_encoding_used :
  forall r, hd_error gen_writers = Some r ->
    run_writer (snd r) [] (pae_writes [[str "v4"; str ".local."]; [str "N"]; []]) = Some (pae [[str "v4"; str ".local."]; [str "N"]; []]).
Proof.
  intros r H. apply C15_every_writer_receives_the_encoding. destruct gen_writers as [|x l]; [discriminate|]. inversion H. now left.
Qed.
Example C15_run_writer_concrete :
  run_writer "update" [] (pae_writes [[str "ab"]; []]) = Some (le64 2 ++ le64 2 ++ str "ab" ++ le64 0).
Proof. vm_compute. reflexivity. Qed.
(* a buffering adapter (seed C01-e's shape) is refused by the model, as the third theorem says *)
Example C15_other_writer_shape_is_refused_used :
  run_writer "ifslice.len()>=256{self.0.update(slice)}else{self.buf.extend(slice)}" [] (pae_writes [[str "ab"]]) = None.
Proof. apply C15_other_writer_shape_is_refused. vm_compute. reflexivity. Qed.
