(* NonVacuity/C09.v — audit of Properties/C09.v *)
From Coq Require Import List NArith ZArith String Bool Lia Arith.
From PV Require Import Bytes Result Base64 Base64Tables Base64Proofs Text TextProofs.
From PV.Properties Require Import C09.
Import ListNotations.
Local Open Scope string_scope.
Local Open Scope list_scope.

Definition msg : bytes := str "hello, world".          (* 12 bytes: full blocks *)
Definition msg1 : bytes := str "hello, world!".        (* 13 bytes: 1-byte tail *)
Definition msg2 : bytes := [n2b 255; n2b 254].          (* 2-byte tail, uses '_' and '-' *)
Definition id33 : bytes := map (fun i => n2b (N.of_nat i)) (seq 200 33).

(* ---- base64 ---- *)
Example C09_base64_roundtrip_nonvacuous :
  decode_vec (encode msg1) = Ok msg1 /\ encode msg1 = str "aGVsbG8sIHdvcmxkIQ" /\
  decode_vec (encode msg2) = Ok msg2 /\ encode msg2 = str "__4" /\ decode_vec (encode []) = Ok [].
Proof.
  repeat split; try apply C09_base64_roundtrip; vm_compute; reflexivity.
Qed.

Example C09_base64_canonical_nonvacuous : encode msg1 = str "aGVsbG8sIHdvcmxkIQ".
Proof. apply (C09_base64_canonical (str "aGVsbG8sIHdvcmxkIQ") msg1). vm_compute. reflexivity. Qed.
(* contrapositive use: the non-canonical sibling (last sextet R instead of Q: trailing bits set) is refused *)
Example C09_base64_canonical_rejects : forall bs, decode_vec (str "aGVsbG8sIHdvcmxkIR") <> Ok bs.
Proof.
  intros bs H. vm_compute in H. discriminate.
Qed.
(* and by the theorem: two accepted strings with one value are equal, so at most one of Q / R could be accepted *)
Example C09_base64_canonical_unique : forall s bs,
  decode_vec s = Ok bs -> decode_vec (str "aGVsbG8sIHdvcmxkIQ") = Ok bs -> s = str "aGVsbG8sIHdvcmxkIQ".
Proof. intros s bs H1 H2. rewrite <- (C09_base64_canonical _ _ H1). apply (C09_base64_canonical _ _ H2). Qed.

Example C09_base64_alphabet_nonvacuous :
  decode_6bits "A"%byte = 0%Z /\ decode_6bits "z"%byte = 51%Z /\ decode_6bits "-"%byte = 62%Z /\
  decode_6bits "_"%byte = 63%Z /\ decode_6bits "+"%byte = (-1)%Z /\ decode_6bits "/"%byte = (-1)%Z /\
  decode_6bits "="%byte = (-1)%Z /\ decode_6bits " "%byte = (-1)%Z /\ decode_6bits (n2b 200) = (-1)%Z.
Proof. rewrite !C09_base64_alphabet. vm_compute. repeat split. Qed.
(* the table the theorem compares with is not degenerate: exactly 64 accepted characters, all values hit *)
Example C09_base64_alphabet_table_is_a_bijection :
  length (filter (fun b => (0 <=? rfc4648_url b)%Z) all_bytes) = 64 /\
  forallb (fun v => existsb (fun b => (rfc4648_url b =? Z.of_nat v)%Z) all_bytes) (seq 0 64) = true.
Proof. vm_compute. split; reflexivity. Qed.

Example C09_base64_rejects_foreign_characters_nonvacuous :
  (forall bs, decode_vec (str "aGVs+G8s") <> Ok bs) /\ (forall bs, decode_vec (str "aGVsbG8=") <> Ok bs) /\
  (forall bs, decode_vec (str "aGVs bG8") <> Ok bs) /\ (forall bs, decode_vec (str "aGVs.bG8s") <> Ok bs).
Proof.
  repeat split; intros bs.
  - apply (C09_base64_rejects_foreign_characters _ "+"%byte); [vm_compute; tauto | vm_compute; reflexivity].
  - apply (C09_base64_rejects_foreign_characters _ "="%byte); [vm_compute; tauto | vm_compute; reflexivity].
  - apply (C09_base64_rejects_foreign_characters _ " "%byte); [vm_compute; tauto | vm_compute; reflexivity].
  - apply (C09_base64_rejects_foreign_characters _ "."%byte); [vm_compute; tauto | vm_compute; reflexivity].
Qed.
(* ... and the rejection is an error, not a panic *)
Example C09_base64_rejects_foreign_characters_value :
  decode_vec (str "aGVs+G8s") = Err Base64DecodeError /\ decode_vec (str "aGVsbG8=") = Err Base64DecodeError.
Proof. vm_compute. split; reflexivity. Qed.

Example C09_base64_rejects_impossible_length_nonvacuous :
  (forall bs, decode_vec (str "aGVsb") <> Ok bs) /\ (forall bs, decode_vec (str "A") <> Ok bs) /\
  decode_vec (str "aGVsb") = Err Base64DecodeError.
Proof.
  split; [|split]; [intros bs; apply C09_base64_rejects_impossible_length; reflexivity ..|vm_compute; reflexivity].
Qed.

(* ---- PASERK text ---- *)
Example C09_paserk_parse_print_nonvacuous :
  parse_paserk (str "k4") (str ".local.") (print_paserk (str "k4") (str ".local.") id33) = Ok id33 /\
  print_paserk (str "k4") (str ".local.") (str "hello") = str "k4.local.aGVsbG8".
Proof. split; [apply C09_paserk_parse_print | vm_compute; reflexivity]. Qed.
Example C09_paserk_print_parse_nonvacuous :
  print_paserk (str "k4") (str ".local.") (str "hello") = str "k4.local.aGVsbG8".
Proof. apply C09_paserk_print_parse. vm_compute. reflexivity. Qed.
(* a wrong header is rejected (so the hypothesis of print_parse is not always true) *)
Example C09_paserk_parse_rejects :
  parse_paserk (str "k4") (str ".local.") (str "k3.local.aGVsbG8") = Err InvalidKey /\
  parse_paserk (str "k4") (str ".local.") (str "k4.local.aGVsbG9") = Err Base64DecodeError.
Proof. vm_compute. split; reflexivity. Qed.

(* ---- key ids ---- *)
Example C09_keyid_parse_print_nonvacuous :
  parse_keyid (str "k4") (str ".lid.") (print_paserk (str "k4") (str ".lid.") id33) = Ok id33.
Proof. apply C09_keyid_parse_print. reflexivity. Qed.
Example C09_keyid_print_parse_nonvacuous :
  print_paserk (str "k4") (str ".lid.") id33 = print_paserk (str "k4") (str ".lid.") id33 /\ length id33 = 33.
Proof.
  apply (C09_keyid_print_parse (str "k4") (str ".lid.") (print_paserk (str "k4") (str ".lid.") id33) id33).
  vm_compute. reflexivity.
Qed.
(* 32 and 34 bytes of id are refused (the length hypothesis of parse_print is necessary) *)
Example C09_keyid_rejects_other_lengths :
  parse_keyid (str "k4") (str ".lid.") (print_paserk (str "k4") (str ".lid.") (take 32 id33)) = Err InvalidKey /\
  parse_keyid (str "k4") (str ".lid.") (print_paserk (str "k4") (str ".lid.") (id33 ++ [x00])) = Err Base64DecodeError.
Proof. vm_compute. split; reflexivity. Qed.

(* ---- tokens ---- *)
Definition tokA : token := {| t_payload := msg1; t_footer := str "kid:1" |}.
Definition tokB : token := {| t_payload := msg1; t_footer := [] |}.

Example C09_token_parse_print_nonvacuous :
  parse_token fdec_vec (str "v4") [] (str ".local.") (print_token (str "v4") [] (str ".local.") tokA) = Ok (tokA, str "kid:1") /\
  parse_token fdec_unit (str "v4") [] (str ".public.") (print_token (str "v4") [] (str ".public.") tokB) = Ok (tokB, tt) /\
  print_token (str "v4") [] (str ".local.") tokA = str "v4.local.aGVsbG8sIHdvcmxkIQ.a2lkOjE".
Proof.
  split; [|split].
  - apply C09_token_parse_print. reflexivity.
  - apply C09_token_parse_print. reflexivity.
  - vm_compute. reflexivity.
Qed.
(* the footer-codec hypothesis can fail: unit footer with a non-empty footer *)
Example C09_token_parse_print_hyp_can_fail :
  fdec_unit (t_footer tokA) = None /\
  parse_token fdec_unit (str "v4") [] (str ".local.") (print_token (str "v4") [] (str ".local.") tokA) = Err PayloadError.
Proof. vm_compute. split; reflexivity. Qed.

Example C09_token_print_parse_nonvacuous_left :
  print_token (str "v4") [] (str ".local.") tokA = str "v4.local.aGVsbG8sIHdvcmxkIQ.a2lkOjE" \/
  (t_footer tokA = [] /\ print_token (str "v4") [] (str ".local.") tokA ++ [dot] = str "v4.local.aGVsbG8sIHdvcmxkIQ.a2lkOjE").
Proof. apply (C09_token_print_parse _ fdec_vec _ _ _ _ _ (str "kid:1")). vm_compute. reflexivity. Qed.
(* the right disjunct is inhabited: the trailing-dot alias really parses, to the footer-less token *)
Example C09_token_print_parse_nonvacuous_right :
  parse_token fdec_vec (str "v4") [] (str ".local.") (str "v4.local.aGVsbG8sIHdvcmxkIQ.") = Ok (tokB, []) /\
  print_token (str "v4") [] (str ".local.") tokB <> str "v4.local.aGVsbG8sIHdvcmxkIQ." /\
  print_token (str "v4") [] (str ".local.") tokB ++ [dot] = str "v4.local.aGVsbG8sIHdvcmxkIQ.".
Proof. vm_compute. repeat split. discriminate. Qed.

Example C09_token_only_alias_is_trailing_dot_nonvacuous :
  let s1 := str "v4.local.aGVsbG8sIHdvcmxkIQ." in let s2 := str "v4.local.aGVsbG8sIHdvcmxkIQ" in
  s1 = s2 \/ s1 = s2 ++ [dot] \/ s2 = s1 ++ [dot].
Proof.
  cbv zeta. apply (C09_token_only_alias_is_trailing_dot _ fdec_vec (str "v4") [] (str ".local.") _ _ tokB [] []);
    vm_compute; reflexivity.
Qed.
(* two dots / extra segment: rejected *)
Example C09_token_extra_segment_rejected :
  parse_token fdec_vec (str "v4") [] (str ".local.") (str "v4.local.aGVsbG8sIHdvcmxkIQ.a2lkOjE.a2lkOjE") = Err Base64DecodeError /\
  parse_token fdec_vec (str "v4") [] (str ".local.") (str "v4.local.aGVsbG8sIHdvcmxkIQ..") = Err Base64DecodeError.
Proof. vm_compute. split; reflexivity. Qed.

Example C09_parsers_never_panic_nonvacuous :
  is_panic (decode_vec (str "A")) = false /\
  is_panic (parse_paserk (str "k4") (str ".local.") (str "k4.local.A")) = false /\
  is_panic (parse_keyid (str "k4") (str ".local.") (str "k4.local.A")) = false /\
  is_panic (parse_token fdec_vec (str "k4") [] (str ".local.") (str "k4.local.A")) = false.
Proof. exact (C09_parsers_never_panic (str "k4") (str ".local.") (str "k4.local.A")). Qed.
(* the Panic branches of the model are syntactically there; the theorem is a real statement about them: the
   three guards in [decode_vec] are arithmetic facts, e.g. at every length 0..40 the chunk-count guard passes *)
Example C09_no_panic_guard_is_checked :
  forallb (fun n => negb (is_panic (decode_vec (repeat "A"%byte n)))) (seq 0 41) = true.
Proof. vm_compute. reflexivity. Qed.
