(* NonVacuity/C16.v — audit: every C16 theorem applied to a concrete, non-trivial instance; limits of [fresh]. *)
From Coq Require Import List NArith String Bool Lia Arith.
From PV Require Import Bytes Result Oracle ToyOracle Local Paserk Keys Rng RngProofs.
From PV.Properties Require Import C16.
Import ListNotations.
Local Open Scope list_scope.
Local Open Scope nat_scope.

(* a source that fails at global call index 3 and otherwise serves a block that depends on the index *)
Definition R3 : rng := fun i _ => if Nat.eqb i 3 then None else Some (repeat x01 (S i)).

Lemma R3_fresh : fresh R3.
Proof.
  unfold fresh, R3. intros i j n m x y Hij Hx Hy _ E.
  destruct (Nat.eqb i 3) in Hx; [discriminate Hx|]. destruct (Nat.eqb j 3) in Hy; [discriminate Hy|].
  assert (Ex : x = repeat x01 (S i)) by congruence. assert (Ey : y = repeat x01 (S j)) by congruence.
  rewrite Ex, Ey in E. apply (f_equal (@List.length _)) in E. rewrite !repeat_length in E. lia.
Qed.

Definition body (bs : list bytes) : result bytes := Ok (concat bs).

(* PBKW on v4 draws [16; 24]: started at index 2 its SECOND draw (k = 1) hits the failure *)
Example C16_fail_closed_nonvacuous :
  op_draws B4 RPbkw = [16; 24] /\
  fst (run_op R3 2 (op_draws B4 RPbkw) body) = Err CryptoError /\
  (* the first draw of that operation succeeded: this is a PARTIALLY served operation *)
  R3 2 16 = Some (repeat x01 3) /\
  (* and the same operation on a healthy stretch of the source returns a token built from its draws *)
  fst (run_op R3 4 (op_draws B4 RPbkw) body) = Ok (repeat x01 5 ++ repeat x01 6).
Proof.
  split; [reflexivity|]. split; [|split; reflexivity].
  apply (C16_fail_closed bytes R3 2 (op_draws B4 RPbkw) body 1); [cbn; lia | reflexivity].
Qed.

Example C16_uses_exactly_its_draws_nonvacuous :
  run_op counter_rng 5 [16; 24] body = (Ok (repeat x01 6 ++ repeat x01 7), 7) /\
  counter_rng (5 + 1) 24 = Some (repeat x01 7).
Proof.
  destruct (C16_uses_exactly_its_draws bytes counter_rng 5 [16; 24] body [repeat x01 6; repeat x01 7] eq_refl) as [H1 H2].
  split; [exact H1 | exact (H2 1 ltac:(cbn; lia))].
Qed.

(* index range: all three positions of the bound are reached (no draw consumed is impossible for a non-empty op;
   failing at the first draw consumes 1 of 2; success consumes 2 of 2) *)
Example C16_index_range_nonvacuous :
  snd (run_op R3 3 [16; 24] body) = 4 /\ snd (run_op R3 2 [16; 24] body) = 4 /\ snd (run_op R3 4 [16; 24] body) = 6 /\
  3 <= snd (run_op R3 3 [16; 24] body) <= 3 + 2.
Proof. repeat split; try reflexivity; apply (C16_index_range bytes R3 3 [16; 24] body). Qed.

(* a history with a FAILING operation in the middle: local seal / pbkw (fails at index 3) / pie wrap / local seal *)
Definition hist : list (list nat * (list bytes -> result bytes)) :=
  [ ([32], body); ([16; 24], body); ([32], body); ([32], body) ].

Example hist_runs :
  run_history R3 1 hist = [Ok (repeat x01 2); Err CryptoError; Ok (repeat x01 5); Ok (repeat x01 6)].
Proof. reflexivity. Qed.

Example C16_fresh_across_history_nonvacuous :
  start_of R3 1 hist 0 = 1 /\ start_of R3 1 hist 2 = 4 /\ start_of R3 1 hist 3 = 5 /\
  nth 0 [repeat x01 2] [] <> nth 0 [repeat x01 6] [].
Proof.
  split; [reflexivity|]. split; [reflexivity|]. split; [reflexivity|].
  assert (HF : fresh_below R3 100) by (intros i j n m x y _ _; apply R3_fresh).
  apply (C16_fresh_across_history bytes R3 100 1 hist 0 3 [32] body [32] body [repeat x01 2] [repeat x01 6] 0 0 HF);
    try reflexivity; try (cbn; lia). cbn. discriminate.
Qed.

Example C16_disjoint_indices_across_history_nonvacuous :
  start_of R3 1 hist 0 + 0 < start_of R3 1 hist 2 + 0.
Proof.
  apply (C16_disjoint_indices_across_history bytes R3 1 hist 0 2 [32] body [32] body [repeat x01 2] 0 0);
    try reflexivity; cbn; lia.
Qed.

(* ------------------------------------------------------------------ what [fresh] does and does not admit *)

(* the checker side: a constant source (what a broken RNG, or "default randomness", looks like) is NOT fresh *)
Example C16_fresh_rejects_constant_source : ~ fresh (script_rng None).
Proof.
  intros H. apply (H 0 1 1 1 [x00] [x00]); try reflexivity; [lia | discriminate].
Qed.

(* a source that HONOURS the requested length and is fresh: block i of length n is i in n little-endian bytes,
   and the source fails once the n-byte space is exhausted.  So [fresh] together with "blocks have the length
   requested" is satisfiable — but only by sources that eventually fail: *)
Definition enc_rng : rng := fun i n => if (N.of_nat i <? 256 ^ N.of_nat n)%N then Some (le_bytes n (N.of_nat i)) else None.

Lemma enc_rng_len i n x : enc_rng i n = Some x -> length x = n.
Proof. unfold enc_rng. destruct (N.of_nat i <? 256 ^ N.of_nat n)%N; [|discriminate]. intros E; inversion E. apply le_bytes_length. Qed.

Lemma enc_rng_fresh : fresh enc_rng.
Proof.
  unfold fresh, enc_rng. intros i j n m x y Hij Hx Hy _ E.
  destruct (N.ltb_spec (N.of_nat i) (256 ^ N.of_nat n)) as [Li|]; [|discriminate Hx].
  destruct (N.ltb_spec (N.of_nat j) (256 ^ N.of_nat m)) as [Lj|]; [|discriminate Hy].
  assert (Ex : x = le_bytes n (N.of_nat i)) by congruence. assert (Ey : y = le_bytes m (N.of_nat j)) by congruence.
  rewrite Ex, Ey in E. clear Hx Hy Ex Ey.
  assert (n = m) by (apply (f_equal (@List.length _)) in E; rewrite !le_bytes_length in E; exact E). subst m.
  apply (f_equal le_val) in E. rewrite !le_val_le_bytes in E. rewrite !N.mod_small in E by assumption. lia.
Qed.

Example C16_fresh_satisfiable_nonvacuous :
  (exists R, fresh R /\ forall i n x, R i n = Some x -> length x = n) /\
  enc_rng 258 2 = Some [x02; x01] /\ enc_rng 300 1 = None.
Proof.
  split; [exists enc_rng; split; [exact enc_rng_fresh | exact enc_rng_len]|]. split; vm_compute; reflexivity.
Qed.

(* LIMIT (acknowledged in a comment of RngProofs.v, proved here): no source that never fails and serves blocks of
   the requested length is [fresh].  The premise of C16_fresh_across_history therefore excludes every faithful
   model of getrandom; the theorem is about an idealised source.  (256 one-byte blocks, pigeonhole.) *)
Definition byte_of_nat (k : nat) : byte := match Byte.of_N (N.of_nat k) with Some b => b | None => x00 end.
Definition all_bytes : list byte := map byte_of_nat (seq 0 256).

Lemma all_bytes_complete b : In b all_bytes.
Proof.
  unfold all_bytes. apply in_map_iff. exists (N.to_nat (Byte.to_N b)). split.
  - unfold byte_of_nat. rewrite N2Nat.id, Byte.of_to_N. reflexivity.
  - apply in_seq. pose proof (Byte.to_N_bounded b). lia.
Qed.

Lemma serve_prefix (R : rng) :
  (forall i, exists b, R i 1 = Some [b]) ->
  forall n, exists l, length l = n /\ forall k, k < n -> R k 1 = Some [nth k l x00].
Proof.
  intros T. induction n as [|n [l [Hl Hk]]].
  - exists []. split; [reflexivity | intros k H; lia].
  - destruct (T n) as [b Hb]. exists (l ++ [b]). split; [rewrite app_length; cbn; lia|].
    intros k Hlt. destruct (Nat.eq_dec k n) as [->|Hne].
    + rewrite app_nth2 by lia. rewrite Hl, Nat.sub_diag. exact Hb.
    + rewrite app_nth1 by lia. apply Hk. lia.
Qed.

Lemma C16_fresh_excludes_total_length_honouring_sources :
  forall R : rng, fresh R -> (forall i, exists b, R i 1 = Some [b]) -> False.
Proof.
  intros R HF T. destruct (serve_prefix R T 257) as [l [Hl Hk]].
  assert (ND : NoDup l).
  { apply (NoDup_nth l x00). intros i j Hi Hj E. destruct (Nat.eq_dec i j) as [|Hne]; [assumption|exfalso].
    rewrite Hl in Hi, Hj.
    apply (HF i j 1 1 [nth i l x00] [nth j l x00] Hne (Hk i Hi) (Hk j Hj)); [discriminate | rewrite E; reflexivity]. }
  assert (Hle : length l <= length all_bytes).
  { apply NoDup_incl_length; [exact ND | intros b _; apply all_bytes_complete]. }
  rewrite Hl in Hle. unfold all_bytes in Hle. rewrite map_length, seq_length in Hle. lia.
Qed.

(* ------------------------------------------------------------------ the outputs embed the draws *)
Definition n0 : bytes := repeat x07 32.
Definition key32 : bytes := repeat x0b 32.

Example C16_local_nonce_is_draw_nonvacuous :
  exists p, lg_seal (v4_params toy) key32 [] (n0 ++ [x61; x62; x63]) [] [] = Ok p /\ length p = 67 /\ take 32 p = n0.
Proof.
  destruct (lg_seal (v4_params toy) key32 [] (n0 ++ [x61; x62; x63]) [] []) as [p| |] eqn:E;
    try (vm_compute in E; discriminate).
  exists p. split; [reflexivity|]. split.
  - vm_compute in E. inversion E. reflexivity.
  - exact (C16_local_nonce_is_draw (v4_params toy) key32 [] n0 [x61; x62; x63] [] [] p eq_refl eq_refl E).
Qed.

(* WEAKER-THAN-PROPERTY: the hypothesis [lp_synth P = fun n _ => n] leaves out v1 (and v2 is not an [lparams]
   instance at all): there the nonce field is a hash of (draw, message), and the conclusion is FALSE *)
Example C16_local_nonce_is_draw_excludes_v1 :
  lp_synth (v1_params toy) <> (fun n _ => n) /\
  exists p, lg_seal (v1_params toy) key32 [] (n0 ++ [x61; x62; x63]) [] [] = Ok p /\ take 32 p <> n0.
Proof.
  split.
  - intros E. apply (f_equal (fun f => f n0 [])) in E. vm_compute in E. discriminate.
  - destruct (lg_seal (v1_params toy) key32 [] (n0 ++ [x61; x62; x63]) [] []) as [p| |] eqn:E;
      try (vm_compute in E; discriminate).
    exists p. split; [reflexivity|]. vm_compute in E. inversion E. vm_compute. discriminate.
Qed.

Lemma v4_pie_mac_len : forall wk n msg, length (pie_mac (v4_pie toy) wk n msg) = pie_tlen (v4_pie toy).
Proof.
  intros wk n msg. unfold v4_pie, pieB. cbn [pie_mac pie_tlen]. unfold pieB_keys.
  apply (blake2b_len toy toy_laws).
Qed.

Example C16_pie_nonce_is_draw_nonvacuous :
  exists blob, pie_wrap (v4_pie toy) [x68] key32 [x6b; x6b] n0 = Ok blob /\ length blob = 66 /\
               take 32 (drop (pie_tlen (v4_pie toy)) blob) = n0.
Proof.
  destruct (pie_wrap (v4_pie toy) [x68] key32 [x6b; x6b] n0) as [blob| |] eqn:E; try (vm_compute in E; discriminate).
  exists blob. split; [reflexivity|]. split.
  - vm_compute in E. inversion E. reflexivity.
  - exact (C16_pie_nonce_is_draw (v4_pie toy) [x68] key32 [x6b; x6b] n0 blob eq_refl v4_pie_mac_len E).
Qed.

Definition salt16 : bytes := repeat x05 16.
Definition nonce24 : bytes := repeat x09 24.
(* mem = 1024 bytes, time = 1, parallelism = 1 *)
Definition params16 : bytes := [x00;x00;x00;x00;x00;x00;x04;x00; x00;x00;x00;x01; x00;x00;x00;x01].

Example C16_pbkw_salt_nonce_are_draws_nonvacuous :
  exists blob, pw_wrap (v4_pw toy) [x68] [x70; x77] params16 [x6b; x6b] salt16 nonce24 = Ok blob /\
               length blob = 16 + 16 + 24 + 2 + 32 /\
               take 16 blob = salt16 /\ take 24 (drop 32 blob) = nonce24.
Proof.
  destruct (pw_wrap (v4_pw toy) [x68] [x70; x77] params16 [x6b; x6b] salt16 nonce24) as [blob| |] eqn:E;
    try (vm_compute in E; discriminate).
  exists blob. split; [reflexivity|]. split.
  - vm_compute in E. inversion E. reflexivity.
  - exact (C16_pbkw_salt_nonce_are_draws (v4_pw toy) [x68] [x70; x77] params16 [x6b; x6b] salt16 nonce24 blob
             eq_refl eq_refl eq_refl E).
Qed.

(* WRONG-REASON witness for C16_fail_closed: it holds for an operation whose body IGNORES its draws and returns
   a constant token, i.e. it says nothing about the library's operations — "fail closed" is built into the
   definition of [run_op] (draw everything first, then run a pure body).  No C16 theorem mentions [op_draws]
   or any seal / wrap function of Local.v / Paserk.v together with [run_op]. *)
Example C16_fail_closed_is_definitional :
  forall A (tok : result A), fst (run_op R3 3 [32] (fun _ => tok)) = Err CryptoError.
Proof. intros A tok. apply (C16_fail_closed A R3 3 [32] (fun _ => tok) 0); [cbn; lia | reflexivity]. Qed.

(* ---- key generation by rejection: an oracle for which the all-zero scalar is invalid, a source that serves it
        first and a valid scalar second: the loop skips one draw and returns the second ---- *)
Definition picky : oracle := fun name args =>
  if String.eqb name "p384_pk" then match args with [b] => if beq b (repeat x00 48) then [] else toy name args | _ => [] end
  else toy name args.
Definition two_step : rng := fun i n => Some (repeat (if Nat.eqb i 0 then x00 else x01) n).
Example C16_v3_generation_nonvacuous :
  v3_random picky two_step 0 5 = (GenKey (repeat x01 48), 2) /\
  v3_random picky (script_rng None) 0 3 = (GenOutOfFuel, 3) /\
  v3_random picky (script_rng (Some 1)) 0 5 = (GenRngFailed, 2).
Proof. repeat split; vm_compute; reflexivity. Qed.
Example C16_v3_generated_key_is_accepted_nonvacuous :
  v3_decode_secret picky (repeat x01 48) = Ok (repeat x01 48) /\ lc_decode_secret picky (repeat x01 48) = Ok (repeat x01 48).
Proof.
  apply (C16_v3_generated_key_is_accepted picky two_step 0 5 (repeat x01 48) 2).
  - intros n x H. unfold two_step in H. assert (E : x = repeat (if Nat.eqb n 0 then x00 else x01) 48) by congruence.
    rewrite E. apply repeat_length.
  - vm_compute. reflexivity.
Qed.
Example C16_v3_generation_skips_only_invalid_scalars_nonvacuous : p384_pk picky (repeat x00 48) = None.
Proof.
  apply (C16_v3_generation_skips_only_invalid_scalars picky two_step 0 5 (GenKey (repeat x01 48)) 2 0 (repeat x00 48));
    [vm_compute; reflexivity|lia|lia|reflexivity].
Qed.

(* ================= operations composed with their draws (added after the first audit) ================= *)
Definition msg3 : bytes := [x61; x62; x63].
Lemma v4_synth_id : lp_synth (v4_params toy) = (fun n _ => n).
Proof. reflexivity. Qed.

(* ---- local seal: the source fails exactly at the call of this operation (index 3); the operation before it on
        the same source succeeds, so the error is caused by the failure and by nothing else ---- *)
Example C16_local_seal_op_fail_closed_nonvacuous :
  local_seal_op (v4_params toy) (script_rng (Some 3)) 3 key32 [] msg3 [] [] = (Err CryptoError, 4) /\
  (exists p, local_seal_op (v4_params toy) (script_rng (Some 3)) 2 key32 [] msg3 [] [] = (Ok p, 3) /\ length p = 67) /\
  local_seal_op (v3_params toy) R3 3 key32 [] msg3 [] [] = (Err CryptoError, 4).
Proof.
  split; [exact (C16_local_seal_op_fail_closed (v4_params toy) (script_rng (Some 3)) 3 key32 [] msg3 [] [] eq_refl)|].
  split; [eexists; split; [vm_compute; reflexivity|reflexivity]|].
  exact (C16_local_seal_op_fail_closed (v3_params toy) R3 3 key32 [] msg3 [] [] eq_refl).
Qed.
(* NOTE (definitional, as recorded for C16_fail_closed above): the statement does not depend on [P] — the
   operation is DEFINED as "draw, then seal", so it holds of a nonsensical parameter record too.  The tie to the
   code is the scripted-RNG harness, not this theorem. *)
Definition junk_lparams : lparams :=
  {| lp_tlen := 4000; lp_aad := false; lp_short := Panic "x"; lp_synth := fun _ _ => [];
     lp_ks := fun _ _ _ => []; lp_tag := fun _ _ _ _ _ _ => [] |}.
Lemma C16_local_seal_op_fail_closed_independent_of_backend :
  local_seal_op junk_lparams (script_rng (Some 0)) 0 [] [] [] [] [] = (Err CryptoError, 1).
Proof. apply C16_local_seal_op_fail_closed. reflexivity. Qed.

(* ---- embeds: a source whose blocks depend on the call index; the nonce field of the token sealed at call 7 is
        block 7, and exactly one call was consumed ---- *)
Example C16_local_seal_op_embeds_nonvacuous :
  exists p, local_seal_op (v4_params toy) le_counter_rng 7 key32 [] msg3 [] [] = (Ok p, 8) /\
            take 32 p = le_bytes 32 7 /\ le_bytes 32 7 = x07 :: repeat x00 31 /\ length p = 67.
Proof.
  destruct (local_seal_op (v4_params toy) le_counter_rng 7 key32 [] msg3 [] []) as [[p| |] j] eqn:E;
    try (vm_compute in E; discriminate).
  destruct (C16_local_seal_op_embeds (v4_params toy) le_counter_rng 7 key32 [] msg3 [] [] (le_bytes 32 7) p j
              eq_refl (le_bytes_length _ _) v4_synth_id E) as (A & B).
  subst j. exists p. split; [reflexivity|]. split; [exact A|]. split; [vm_compute; reflexivity|].
  vm_compute in E. inversion E. reflexivity.
Qed.
(* the synth hypothesis is used: v1 hashes the draw with the message, and the conclusion is false there *)
Example C16_local_seal_op_embeds_nonvacuous_excludes_v1 :
  exists p, local_seal_op (v1_params toy) le_counter_rng 7 key32 [] msg3 [] [] = (Ok p, 8) /\ take 32 p <> le_bytes 32 7.
Proof. eexists. split; [vm_compute; reflexivity|]. vm_compute. discriminate. Qed.

(* ---- the headline: the SAME message under the SAME key sealed twice in a row ---- *)
Example C16_consecutive_seals_have_different_nonces_nonvacuous :
  exists p1 p2, local_seal_op (v4_params toy) le_counter_rng 5 key32 [] msg3 [] [] = (Ok p1, 6) /\
                local_seal_op (v4_params toy) le_counter_rng 6 key32 [] msg3 [] [] = (Ok p2, 7) /\
                take 32 p1 <> take 32 p2 /\ drop 32 p1 = drop 32 p2.   (* toy: everything else IS equal *)
Proof.
  destruct (local_seal_op (v4_params toy) le_counter_rng 5 key32 [] msg3 [] []) as [[p1| |] j] eqn:E1;
    try (vm_compute in E1; discriminate).
  assert (j = 6) by (vm_compute in E1; inversion E1; reflexivity). subst j.
  destruct (local_seal_op (v4_params toy) le_counter_rng 6 key32 [] msg3 [] []) as [[p2| |] k] eqn:E2;
    try (vm_compute in E2; discriminate).
  assert (k = 7) by (vm_compute in E2; inversion E2; reflexivity). subst k.
  exists p1, p2. split; [reflexivity|]. split; [reflexivity|]. split.
  - apply (C16_consecutive_seals_have_different_nonces (v4_params toy) le_counter_rng 256 5
             key32 [] msg3 [] [] key32 [] msg3 [] [] p1 p2 6 7 le_counter_rng_fresh_below);
      [lia|exact v4_synth_id|apply le_counter_rng_len|apply le_counter_rng_len|exact E1|exact E2].
  - vm_compute in E1, E2. inversion E1. inversion E2. reflexivity.
Qed.
(* the freshness premise is used: under the constant source the two tokens are IDENTICAL *)
Example C16_consecutive_seals_have_different_nonces_nonvacuous_hyp_used :
  fst (local_seal_op (v4_params toy) (script_rng None) 5 key32 [] msg3 [] []) =
  fst (local_seal_op (v4_params toy) (script_rng None) 6 key32 [] msg3 [] []) /\
  ~ fresh_below (script_rng None) 7.
Proof.
  split; [vm_compute; reflexivity|].
  intros H. apply (H 0 1 1 1 [x00] [x00]); try reflexivity; try lia. discriminate.
Qed.

(* ---- PIE ---- *)
Example C16_pie_wrap_op_fail_closed_nonvacuous :
  pie_wrap_op (v4_pie toy) (script_rng (Some 3)) 3 [x68] key32 [x6b; x6b] = (Err CryptoError, 4) /\
  (exists blob, pie_wrap_op (v4_pie toy) (script_rng (Some 3)) 4 [x68] key32 [x6b; x6b] = (Ok blob, 5) /\ length blob = 66) /\
  pie_wrap_op (v3_pie toy) R3 3 [x68] key32 [x6b; x6b] = (Err CryptoError, 4).
Proof.
  split; [exact (C16_pie_wrap_op_fail_closed (v4_pie toy) (script_rng (Some 3)) 3 [x68] key32 [x6b; x6b] eq_refl)|].
  split; [eexists; split; [vm_compute; reflexivity|reflexivity]|].
  exact (C16_pie_wrap_op_fail_closed (v3_pie toy) R3 3 [x68] key32 [x6b; x6b] eq_refl).
Qed.

(* ---- PBKW: both disjuncts (failure at the salt draw; salt served, failure at the nonce draw) ---- *)
Example C16_pbkw_wrap_op_fail_closed_nonvacuous :
  fst (pw_wrap_op (v4_pw toy) (script_rng (Some 4)) 4 [x68] [x70; x77] params16 [x6b; x6b]) = Err CryptoError /\
  fst (pw_wrap_op (v4_pw toy) (script_rng (Some 5)) 4 [x68] [x70; x77] params16 [x6b; x6b]) = Err CryptoError /\
  snd (pw_wrap_op (v4_pw toy) (script_rng (Some 4)) 4 [x68] [x70; x77] params16 [x6b; x6b]) = 5 /\
  snd (pw_wrap_op (v4_pw toy) (script_rng (Some 5)) 4 [x68] [x70; x77] params16 [x6b; x6b]) = 6 /\
  (* the same call on the healthy part of the source yields a blob *)
  is_ok (fst (pw_wrap_op (v4_pw toy) (script_rng (Some 4)) 5 [x68] [x70; x77] params16 [x6b; x6b])) = true /\
  (* PBKDF2 family: sizes 32 / 16 *)
  fst (pw_wrap_op (lc_pw toy) (script_rng (Some 1)) 0 [x68] [x70; x77] [x00;x00;x03;xe8] [x6b; x6b]) = Err CryptoError.
Proof.
  split; [apply C16_pbkw_wrap_op_fail_closed; left; reflexivity|].
  split; [apply C16_pbkw_wrap_op_fail_closed; right; exists (repeat x00 16); split; reflexivity|].
  split; [reflexivity|]. split; [reflexivity|]. split; [vm_compute; reflexivity|].
  apply C16_pbkw_wrap_op_fail_closed. right. exists (repeat x00 32). split; reflexivity.
Qed.

Example C16_pbkw_wrap_op_embeds_nonvacuous :
  exists blob, pw_wrap_op (v4_pw toy) le_counter_rng 7 [x68] [x70; x77] params16 [x6b; x6b] = (Ok blob, 9) /\
               take 16 blob = x07 :: repeat x00 15 /\ take 24 (drop 32 blob) = x08 :: repeat x00 23 /\
               length blob = 16 + 16 + 24 + 2 + 32.
Proof.
  destruct (pw_wrap_op (v4_pw toy) le_counter_rng 7 [x68] [x70; x77] params16 [x6b; x6b]) as [[blob| |] j] eqn:E;
    try (vm_compute in E; discriminate).
  destruct (C16_pbkw_wrap_op_embeds (v4_pw toy) le_counter_rng 7 [x68] [x70; x77] params16 [x6b; x6b]
              (le_bytes 16 7) (le_bytes 24 8) blob j eq_refl eq_refl (le_bytes_length _ _) (le_bytes_length _ _) eq_refl E)
    as (A & B & C).
  subst j. exists blob. split; [reflexivity|]. split; [exact A|]. split; [exact B|].
  vm_compute in E. inversion E. reflexivity.
Qed.

(* ---- v3 key generation ---- *)
Example C16_v3_generated_key_is_a_draw_nonvacuous :
  v3_random picky two_step 0 5 = (GenKey (repeat x01 48), 2) /\
  0 < 2 /\ two_step (2 - 1) 48 = Some (repeat x01 48) /\ p384_pk picky (repeat x01 48) <> None /\
  (* the block served first was NOT returned, and it was an invalid scalar *)
  two_step 0 48 = Some (repeat x00 48) /\ p384_pk picky (repeat x00 48) = None.
Proof.
  assert (H : v3_random picky two_step 0 5 = (GenKey (repeat x01 48), 2)) by (vm_compute; reflexivity).
  destruct (C16_v3_generated_key_is_a_draw picky two_step 0 5 _ _ H) as (A & B & C).
  split; [exact H|]. split; [exact A|]. split; [exact B|]. split; [exact C|]. split; reflexivity.
Qed.

(* the source serves an invalid scalar at call 0 and fails at call 1 *)
Example C16_v3_generation_fails_closed_nonvacuous :
  v3_random picky (script_rng (Some 1)) 0 5 = (GenRngFailed, 2) /\ 0 < 2 /\ script_rng (Some 1) (2 - 1) 48 = None /\
  v3_random toy (script_rng (Some 0)) 0 5 = (GenRngFailed, 1).
Proof.
  assert (H : v3_random picky (script_rng (Some 1)) 0 5 = (GenRngFailed, 2)) by (vm_compute; reflexivity).
  destruct (C16_v3_generation_fails_closed picky (script_rng (Some 1)) 0 5 2 H) as (A & B).
  split; [exact H|]. split; [exact A|]. split; [exact B|]. vm_compute. reflexivity.
Qed.

(* FINDING (WEAKER): C16_v3_generation_fails_closed is the CONVERSE of "fails closed".  It says: IF the outcome is
   GenRngFailed THEN the last call failed.  The property ("fails closed when the RNG fails") is the other
   direction: IF a call of the loop fails THEN the outcome is the failure and there is no key.  That direction
   holds of the model (first lemma), but it does not follow from the four C16 generation theorems: a generator that
   swallows an RNG failure and simply tries again satisfies all four statements (second group of lemmas). *)
Lemma C16_v3_generation_really_fails_closed : forall O R i fuel,
  R i 48 = None -> v3_random O R i (S fuel) = (GenRngFailed, S i).
Proof. intros O R i fuel H. cbn [v3_random]. rewrite H. reflexivity. Qed.
Lemma C16_v3_generation_failure_after_skips_gives_no_key : forall O R fuel i n,
  (forall m x, i <= m < n -> R m 48 = Some x -> p384_pk O x = None) -> (forall m, i <= m < n -> R m 48 <> None) ->
  i <= n -> R n 48 = None -> n - i < fuel -> v3_random O R i fuel = (GenRngFailed, S n).
Proof.
  intros O R fuel. induction fuel as [|f IH]; intros i n Hinv Hsome Hle Hn Hf; [lia|].
  cbn [v3_random]. destruct (Nat.eq_dec i n) as [->|Hne]; [rewrite Hn; reflexivity|].
  destruct (R i 48) as [b|] eqn:E; [|exfalso; apply (Hsome i); [lia|exact E]].
  rewrite (Hinv i b ltac:(lia) E). apply IH; try lia; try assumption.
  - intros m x Hm. apply Hinv. lia.
  - intros m Hm. apply Hsome. lia.
Qed.

Section RetryGenerator.
  Variable O : oracle.
  (* NOT the library: on a failed draw it carries on with the next call *)
  Fixpoint retry_random (R : rng) (i : nat) (fuel : nat) : gen_out * nat :=
    match fuel with
    | 0 => (GenOutOfFuel, i)
    | S f =>
        match R i 48 with
        | None => retry_random R (S i) f
        | Some b => match p384_pk O b with Some _ => (GenKey b, S i) | None => retry_random R (S i) f end
        end
    end.
  Lemma retry_key_is_a_draw R i fuel k j :
    retry_random R i fuel = (GenKey k, j) -> i < j /\ R (j - 1) 48 = Some k /\ p384_pk O k <> None.
  Proof.
    revert i. induction fuel as [|f IH]; intros i; cbn [retry_random]; [discriminate|].
    destruct (R i 48) as [b|] eqn:E.
    - destruct (p384_pk O b) eqn:Ep.
      + intros H; inversion H; subst. replace (S i - 1) with i by lia. repeat split; [lia|exact E|congruence].
      + intros H. destruct (IH (S i) H) as (A & B & C). repeat split; [lia|exact B|exact C].
    - intros H. destruct (IH (S i) H) as (A & B & C). repeat split; [lia|exact B|exact C].
  Qed.
  Lemma retry_key_is_accepted R i fuel k j :
    (forall n x, R n 48 = Some x -> length x = 48) ->
    retry_random R i fuel = (GenKey k, j) ->
    v3_decode_secret O k = Ok k /\ lc_decode_secret O k = Ok k.
  Proof.
    intros HL H. destruct (retry_key_is_a_draw R i fuel k j H) as (_ & Hd & Hv).
    pose proof (HL _ _ Hd) as Lk.
    unfold v3_decode_secret, lc_decode_secret. rewrite Lk. cbn [Nat.eqb negb].
    destruct (p384_pk O k); [split; reflexivity|congruence].
  Qed.
  Lemma retry_never_reports_failure R i fuel j : retry_random R i fuel <> (GenRngFailed, j).
  Proof.
    revert i. induction fuel as [|f IH]; intros i; cbn [retry_random]; [discriminate|].
    destruct (R i 48) as [b|]; [destruct (p384_pk O b); [discriminate|apply IH]|apply IH].
  Qed.
  (* hence the "fails closed" statement holds of it vacuously ... *)
  Lemma retry_fails_closed_statement R i fuel j :
    retry_random R i fuel = (GenRngFailed, j) -> i < j /\ R (j - 1) 48 = None.
  Proof. intros H. exfalso. exact (retry_never_reports_failure R i fuel j H). Qed.
  Lemma retry_skips_only_invalid R i fuel out j n x :
    retry_random R i fuel = (out, j) -> i <= n -> S n < j -> R n 48 = Some x -> p384_pk O x = None.
  Proof.
    revert i. induction fuel as [|f IH]; intros i; cbn [retry_random].
    - intros H; inversion H; subst. lia.
    - destruct (R i 48) as [b|] eqn:E.
      + destruct (p384_pk O b) eqn:Ep.
        * intros H; inversion H; subst. lia.
        * intros H Hi Hj Hx. destruct (Nat.eq_dec n i) as [->|Hne].
          -- rewrite E in Hx. inversion Hx; subst. exact Ep.
          -- apply (IH (S i) H); [lia|exact Hj|exact Hx].
      + intros H Hi Hj Hx. destruct (Nat.eq_dec n i) as [->|Hne]; [congruence|].
        apply (IH (S i) H); [lia|exact Hj|exact Hx].
  Qed.
End RetryGenerator.
(* ... while it hands out a key although the source failed during the operation *)
Lemma C16_v3_generation_statements_admit_ignoring_a_failure :
  retry_random toy (script_rng (Some 0)) 0 5 = (GenKey (repeat x00 48), 2) /\ script_rng (Some 0) 0 48 = None /\
  v3_random toy (script_rng (Some 0)) 0 5 = (GenRngFailed, 1).
Proof. repeat split; vm_compute; reflexivity. Qed.

(* the block sizes the *_op definitions request are those of the library's draw table [op_draws] (which the
   scripted-RNG harness ties to the code); v2's 24-byte local nonce is NOT an instance of local_seal_op, and the
   PKE seals, the randomised signatures and plain key generation have no *_op theorem (scope, not a defect) *)
Example C16_op_sizes_are_the_draw_table :
  op_draws B4 RLocalNonce = [32] /\ op_draws B3 RPie = [32] /\
  [pw_salt_len (v4_pw toy); pw_nonce_len (v4_pw toy)] = op_draws B4 RPbkw /\
  [pw_salt_len (lc_pw toy); pw_nonce_len (lc_pw toy)] = op_draws B3A RPbkw /\
  op_draws B2 RLocalNonce = [24].
Proof. repeat split. Qed.

Example C16_v3_generation_failure_gives_no_key_nonvacuous :
  v3_random picky (fun i n => if Nat.eqb i 0 then Some (repeat x00 n) else None) 0 5 = (GenRngFailed, 2).
Proof.
  apply (C16_v3_generation_failure_gives_no_key picky _ 5 0 1); try lia.
  - intros m x Hm H. assert (m = 0) by lia. subst m. cbn in H. inversion H. reflexivity.
  - intros m Hm. assert (m = 0) by lia. subst m. discriminate.
  - reflexivity.
Qed.
