(* NonVacuity/C02_sites.v — examples for Properties/C02_sites.v *)
From Coq Require Import List NArith String Lia.
From PV Require Import Bytes Result Pae Local Public BigEndian.
From PV.Properties Require Import C02_sites.
Import ListNotations.
Local Open Scope string_scope.
Local Open Scope list_scope.

(* ---- the regenerated pre_auth_encode call sites ---- *)
From PV Require Import PaeSiteRules.
From PV.Gen Require Import Headers PaeSites.
(* the site functions are not constant and depend on every argument: a concrete evaluation, and a differing one *)
Example C02_site_v4_local_concrete :
  pae (site_paseto_v4_local_0 [] (str "N") (str "C") (str "F") (str "A")) =
    le64 5 ++ le64 9 ++ str "v4.local." ++ le64 1 ++ str "N" ++ le64 1 ++ str "C" ++ le64 1 ++ str "F" ++ le64 1 ++ str "A".
Proof. vm_compute. reflexivity. Qed.
Example C02_site_distinguishes_footer_from_assertion :
  pae (site_paseto_v4_local_0 [] (str "N") (str "C") (str "F") []) <> pae (site_paseto_v4_local_0 [] (str "N") (str "C") [] (str "F")).
Proof. vm_compute. discriminate. Qed.
Example C02_local_authenticated_input_is_the_sources_used :
  v3_pre (str ".json") (str "N") (str "C") (str "F") (str "A") = pae (site_paseto_v3_aws_lc_local_0 (str ".json") (str "N") (str "C") (str "F") (str "A")).
Proof. symmetry. apply C02_local_authenticated_input_is_the_sources. Qed.
Example C02_public_signed_input_is_the_sources_used :
  v3_ppre (str "K") [] (str "M") (str "F") (str "A") = pae (site_paseto_v3_public_0 (str "K") [] (str "M") (str "F") (str "A")) /\
  hd [] (site_paseto_v3_public_0 (str "K") [] (str "M") (str "F") (str "A")) = [str "K"].
Proof. split; [symmetry; apply C02_public_signed_input_is_the_sources | reflexivity]. Qed.
(* the header lookup is live: the table has the kinds the sites name, and an unknown kind would give the empty header
   (and a different encoding) *)
Example C02_key_hdr_lookup : key_hdr "Local" = str ".local." /\ key_hdr "Public" = str ".public." /\ key_hdr "Nope" = [].
Proof. vm_compute. repeat split. Qed.
Example C02_no_other_pae_site_nonvacuous : Nat.leb 14 (length gen_pae_sites) = true /\ Nat.leb 1 (length gen_pae_rebinds) = true.
Proof. vm_compute. split; reflexivity. Qed.
