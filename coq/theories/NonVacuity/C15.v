(* NonVacuity/C15.v — audit: every C15 theorem applied to a concrete, non-trivial instance. *)
From PV Require Import Bytes Pae PaeProofs.
From PV.Properties Require Import C15.
Local Open Scope string_scope.
Local Open Scope list_scope.
Local Open Scope nat_scope.

(* the header as the library passes it (three fragments, one empty), a two-fragment message, an empty footer
   piece with NO fragment, and a piece made of one empty fragment *)
Definition frag : list piece :=
  [ [str "v4"; str ""; str ".local."]; [str "ab"; str "c"]; []; [ [] ] ].
Definition whole : list bytes := [ str "v4.local."; str "abc"; []; [] ].

Lemma ok_whole : pieces_ok whole.
Proof. split; [vm_compute; reflexivity|]. repeat constructor; vm_compute; reflexivity. Qed.

Example C15_closed_form_nonvacuous :
  pae frag = le64 4 ++ (le64 9 ++ str "v4.local.") ++ (le64 3 ++ str "abc") ++ le64 0 ++ le64 0 /\
  length (pae frag) = 52.
Proof. rewrite C15_closed_form. split; vm_compute; reflexivity. Qed.

(* injectivity used contrapositively on two lists with the SAME concatenation of all bytes *)
Example C15_injective_nonvacuous :
  pae_spec [str "ab"; str "c"] <> pae_spec [str "a"; str "bc"] /\
  concat [str "ab"; str "c"] = concat [str "a"; str "bc"].
Proof.
  split; [|reflexivity]. intros E.
  assert (H : [str "ab"; str "c"] = [str "a"; str "bc"]).
  { apply C15_injective; [| |exact E]; (split; [vm_compute; reflexivity | repeat constructor; vm_compute; reflexivity]). }
  discriminate.
Qed.

(* without the size hypothesis the statement is FALSE for the model ([le64] wraps at 2^64): the hypothesis
   [pieces_ok] is needed, it is not vacuous, and it is what `as u64` silently assumes *)
Example C15_injective_hypothesis_needed : le64 two64 = le64 0.
Proof. exact le64_wraps. Qed.

Example C15_injective_fragmented_nonvacuous :
  map (@concat byte) frag = whole /\
  pae frag = pae [ [str "v4.local."]; [str "a"; str "b"; str "c"]; [ []; [] ]; [] ].
Proof.
  split; [reflexivity|]. vm_compute. reflexivity.
Qed.
Example C15_injective_fragmented_nonvacuous_applied :
  map (@concat byte) frag = map (@concat byte) [ [str "v4.local."]; [str "a"; str "b"; str "c"]; [ []; [] ]; [] ].
Proof.
  apply C15_injective_fragmented; [exact ok_whole | exact ok_whole | vm_compute; reflexivity].
Qed.

Example C15_prefix_free_nonvacuous :
  forall r, pae_spec whole ++ str "tail" = pae_spec [str "v4.local."; str "abc"; []; []] ++ r -> r = str "tail".
Proof.
  intros r E. destruct (C15_prefix_free whole _ _ _ ok_whole ok_whole E) as [_ H]. symmetry. exact H.
Qed.
(* ... and used to REFUTE that one encoding is a prefix of a different one *)
Example C15_prefix_free_nonvacuous_neg :
  forall r, pae_spec [str "ab"] ++ r <> pae_spec [str "ab"; str "c"].
Proof.
  intros r E.
  assert (H : [str "ab"] = [str "ab"; str "c"] /\ r = []).
  { apply C15_prefix_free; [| |rewrite app_nil_r; exact E];
      (split; [vm_compute; reflexivity | repeat constructor; vm_compute; reflexivity]). }
  destruct H as [H _]. discriminate.
Qed.

(* header | message | footer | assertion: moving one byte from the message to the footer *)
Example C15_no_boundary_shift_nonvacuous :
  pae_spec ([str "v4.local."] ++ str "abc" :: str "def" :: [str "ia"]) <>
  pae_spec ([str "v4.local."] ++ str "ab" :: str "cdef" :: [str "ia"]) /\
  str "abc" ++ str "def" = str "ab" ++ str "cdef".
Proof.
  split; [|reflexivity].
  apply C15_no_boundary_shift; try discriminate;
    (split; [vm_compute; reflexivity | repeat constructor; vm_compute; reflexivity]).
Qed.

(* streaming: a non-empty initial state and a multi-fragment input: 1 + (1+3) + (1+2) + (1+0) + (1+1) = 11 writes *)
Example C15_streaming_nonvacuous :
  length (pae_writes frag) = 11 /\
  fold_left (fun acc w => acc ++ w) (pae_writes frag) (str "st") = str "st" ++ pae frag.
Proof. split; [reflexivity | apply C15_streaming]. Qed.
