(* NonVacuity/C03_sites.v — examples for Properties/C03_sites.v *)
From Coq Require Import List NArith String Lia.
From PV Require Import Bytes Result Oracle Ctr Local KdfSiteRules ToyOracle.
From PV.Gen Require Import KdfSites.
From PV.Properties Require Import C03_sites.
Import ListNotations.
Local Open Scope string_scope.
Local Open Scope list_scope.

(* the lookup is live: a file's first and second constant differ, an unknown file or a third call gives [] *)
Example C03_kdf_label_lookup :
  kdf_label "paseto-v4/src/core/local.rs" 0 = str "paseto-encryption-key" /\
  kdf_label "paseto-v4/src/core/local.rs" 1 = str "paseto-auth-key-for-aead" /\
  kdf_label "paseto-v4/src/core/local.rs" 2 = [] /\ kdf_label "paseto-v9/src/core/local.rs" 0 = [] /\
  kdf_label "paseto-v2/src/core/pie_wrap.rs" 0 = hex "80".
Proof. vm_compute. repeat split. Qed.
Example C03_local_key_derivation_labels_are_the_sources_used :
  v4_keys toy (repeat x07 32) (repeat x2b 32) =
  (let t := blake2b toy 56 (repeat x07 32) (kdf_label "paseto-v4/src/core/local.rs" 0 ++ repeat x2b 32) in
   let ak := blake2b toy 32 (repeat x07 32) (kdf_label "paseto-v4/src/core/local.rs" 1 ++ repeat x2b 32) in (take 32 t, drop 32 t, ak)).
Proof. destruct (C03_local_key_derivation_labels_are_the_sources toy) as (_ & _ & _ & H & _). apply H. Qed.
Example C03_local_key_derivation_labels_are_the_specs_used :
  kdf_label "paseto-v3-aws-lc/src/core/local.rs" 1 = str "paseto-auth-key-for-aead".
Proof. apply C03_local_key_derivation_labels_are_the_specs. simpl. auto. Qed.
Example C03_no_other_kdf_call_nonvacuous : Nat.leb 34 (length gen_kdf_sites) = true.
Proof. vm_compute. reflexivity. Qed.
