(* NonVacuity/C10.v — audit of Properties/C10.v *)
From Coq Require Import List NArith String Bool Lia Arith.
From PV Require Import Bytes Result Base64 Text Headers Oracle Keys KeysProofs KeysProofs2.
From PV.Gen Require Import Headers.
From PV.Properties Require Import C10.
Import ListNotations.
Local Open Scope string_scope.
Local Open Scope list_scope.

(* ---- the tables the closed theorems talk about are not empty / degenerate ---- *)
Example C10_constants_are_the_specs_nonvacuous :
  length gen_versions = 6 /\ length gen_key_kinds = 5 /\ length gen_sealing_kinds = 2 /\
  length gen_text_uses = 6 /\ gen_seal_header <> [].
Proof. vm_compute. repeat split. discriminate. Qed.

Example C10_prefix_table_well_formed_nonvacuous :
  length all_prefixes = 102 /\ length (nodup bytes_eq_dec all_prefixes) = 52 /\
  In (str "v1.public.") all_prefixes /\ In (str "k2.secret-wrap.pie.") all_prefixes /\ In (str "k4.seal.") all_prefixes /\
  In (str "k3.sid.") all_prefixes /\ In (str "k1.local-pw.") all_prefixes.
Proof. vm_compute. repeat split; tauto. Qed.
(* the check has teeth: a table with one header that is a proper prefix of another fails it, and so does a
   header that does not end in '.' *)
Example C10_prefix_free_can_fail :
  prefix_free [str "k3.secret."; str "k3.secret.pie."] = false /\
  prefix_free (str "k3.se" :: all_prefixes) = false /\
  forallb ends_with_dot [str "k3.local"] = false.
Proof. vm_compute. repeat split. Qed.

(* ---- cross-kind rejection, all three parser families, applied through the theorem ---- *)
Definition tokstr : bytes := str "v4.local.aGVsbG8sIHdvcmxkIQ.a2lkOjE".
Definition keystr : bytes := str "k4.local.AAECAwQFBgcICQoLDA0ODxAREhMUFRYXGBkaGxwdHh8".   (* 32 bytes 00..1f *)
Definition idstr : bytes := print_paserk (str "k4") (str ".lid.") (repeat x07 33).

Example C10_cross_kind_rejected_nonvacuous_token :
  accepts PToken (str "v4") (str ".local.") tokstr = true /\
  parse_token fdec_vec (str "v3") [] (str ".local.") tokstr = Err InvalidToken /\
  parse_token fdec_vec (str "v4") [] (str ".public.") tokstr = Err InvalidToken /\
  parse_paserk (str "k4") (str ".local.") tokstr = Err InvalidKey.
Proof.
  assert (A : accepts PToken (str "v4") (str ".local.") tokstr = true) by (vm_compute; reflexivity).
  split; [exact A|]. split; [|split].
  - apply (C10_cross_kind_rejected PToken (str "v4") (str ".local.") PToken (str "v3") (str ".local.") tokstr);
      [vm_compute; tauto | vm_compute; tauto | vm_compute; discriminate | exact A].
  - apply (C10_cross_kind_rejected PToken (str "v4") (str ".local.") PToken (str "v4") (str ".public.") tokstr);
      [vm_compute; tauto | vm_compute; tauto | vm_compute; discriminate | exact A].
  - apply (C10_cross_kind_rejected PToken (str "v4") (str ".local.") PPaserk (str "k4") (str ".local.") tokstr);
      [vm_compute; tauto | vm_compute; tauto | vm_compute; discriminate | exact A].
Qed.

Example C10_cross_kind_rejected_nonvacuous_paserk :
  parse_paserk (str "k4") (str ".local.") keystr = Ok (map (fun i => n2b (N.of_nat i)) (seq 0 32)) /\
  parse_paserk (str "k3") (str ".local.") keystr = Err InvalidKey /\
  parse_paserk (str "k4") (str ".secret.") keystr = Err InvalidKey /\
  parse_paserk (str "k4") (str ".local-wrap.pie.") keystr = Err InvalidKey /\
  parse_keyid (str "k4") (str ".lid.") keystr = Err InvalidKey.
Proof.
  assert (A : accepts PPaserk (str "k4") (str ".local.") keystr = true) by (vm_compute; reflexivity).
  split; [vm_compute; reflexivity|]. split; [|split; [|split]].
  - apply (C10_cross_kind_rejected PPaserk (str "k4") (str ".local.") PPaserk (str "k3") (str ".local.") keystr);
      [vm_compute; tauto | vm_compute; tauto | vm_compute; discriminate | exact A].
  - apply (C10_cross_kind_rejected PPaserk (str "k4") (str ".local.") PPaserk (str "k4") (str ".secret.") keystr);
      [vm_compute; tauto | vm_compute; tauto | vm_compute; discriminate | exact A].
  - apply (C10_cross_kind_rejected PPaserk (str "k4") (str ".local.") PPaserk (str "k4") (str ".local-wrap.pie.") keystr);
      [vm_compute; tauto | vm_compute; tauto | vm_compute; discriminate | exact A].
  - apply (C10_cross_kind_rejected PPaserk (str "k4") (str ".local.") PKeyId (str "k4") (str ".lid.") keystr);
      [vm_compute; tauto | vm_compute; tauto | vm_compute; discriminate | exact A].
Qed.

Example C10_cross_kind_rejected_nonvacuous_keyid :
  accepts PKeyId (str "k4") (str ".lid.") idstr = true /\
  parse_keyid (str "k4") (str ".sid.") idstr = Err InvalidKey /\
  parse_keyid (str "k2") (str ".lid.") idstr = Err InvalidKey.
Proof.
  assert (A : accepts PKeyId (str "k4") (str ".lid.") idstr = true) by (vm_compute; reflexivity).
  split; [exact A|]. split.
  - apply (C10_cross_kind_rejected PKeyId (str "k4") (str ".lid.") PKeyId (str "k4") (str ".sid.") idstr);
      [vm_compute; tauto | vm_compute; tauto | vm_compute; discriminate | exact A].
  - apply (C10_cross_kind_rejected PKeyId (str "k4") (str ".lid.") PKeyId (str "k2") (str ".lid.") idstr);
      [vm_compute; tauto | vm_compute; tauto | vm_compute; discriminate | exact A].
Qed.

(* ---- limits of the statement (not defects of the proof; recorded in the report) ---- *)
(* (1) the theorem is silent when the full prefixes coincide.  Two parser FAMILIES with the same full prefix
   would both accept; that this does not occur in the table is the separate closed fact
   C10_kind_families_use_distinct_headers.  Secret / PkeSecret (and Public / PkePublic) DO share prefix and
   family: one string is accepted as both kinds (this is the PASERK specification). *)
Example C10_same_prefix_not_covered :
  parse_paserk (str "k4") (str ".lid.") idstr = Ok (repeat x07 33) /\ parse_keyid (str "k4") (str ".lid.") idstr = Ok (repeat x07 33).
Proof. vm_compute. split; reflexivity. Qed.
(* (2) the token parser is only covered at the empty Payload::SUFFIX (all payload types in /repo have SUFFIX = "") *)

Example C10_kind_families_use_distinct_headers_nonvacuous :
  map (fun '(_, h, _) => h) gen_key_kinds = [str ".secret."; str ".public."; str ".local."; str ".secret."; str ".public."] /\
  map (fun '(_, _, i) => i) gen_key_kinds = [str ".sid."; str ".pid."; str ".lid."; str ".sid."; str ".pid."] /\
  map (fun '(_, p, _) => p) gen_sealing_kinds = [str ".secret-wrap.pie."; str ".local-wrap.pie."] /\
  map (fun '(_, _, w) => w) gen_sealing_kinds = [str ".secret-pw."; str ".local-pw."].
Proof. vm_compute. repeat split. Qed.

(* ---- the part of the property sentence that C10.v does not state: "key bytes whose length is not exactly
        that of the requested kind are rejected".  It does hold in the model (from the C08 lemmas): ---- *)
Lemma C10_extra_exact_key_lengths O b k bs obj :
  b <> B1 \/ k = KLocal -> key_decode O b k bs = Ok obj -> length bs = klen b k.
Proof. apply key_exact_length. Qed.

(* instance: a 64-byte v4 secret key and a 33-byte id never pass for a 32-byte local / public key *)
Example C10_extra_lengths_instance O :
  (forall obj, key_decode O B4 KLocal (repeat x07 64) <> Ok obj) /\
  (forall obj, key_decode O B4 KPublic (repeat x07 33) <> Ok obj) /\
  (forall obj, key_decode O B4S KPublic (repeat x07 64) <> Ok obj) /\
  (forall obj, key_decode O B3 KSecret (repeat x07 49) <> Ok obj).
Proof.
  repeat split; intros obj H; apply C10_extra_exact_key_lengths in H; try (left; discriminate); vm_compute in H; discriminate.
Qed.

(* ================= theorems added after the first audit ================= *)
From PV Require Import Paserk PaserkProofs PaserkTamper PkeProofs ToyOracle.

Definition seed32 : bytes := map (fun i => n2b (N.of_nat i)) (seq 1 32).
Definition small48 : bytes := repeat x00 46 ++ [n2b 1; n2b 2].
Definition n32 : bytes := repeat x07 32.
Definition secret64 : bytes := repeat x33 64.
Definition hdr_l : bytes := str ".local-wrap.pie.".
Definition hdr_s : bytes := str ".secret-wrap.pie.".

(* apply the theorem to ACCEPTED keys and read off the length the kind demands *)
Example C10_key_lengths_exact_nonvacuous :
  length (seed32 ++ toy_edpk) = klen B4 KSecret /\ klen B4 KSecret = 64 /\
  length small48 = klen B3A KPkeSecret /\ klen B3A KPkeSecret = 48 /\
  length toy_p384 = klen B3 KPublic /\ klen B3 KPublic = 49 /\
  length seed32 = klen B1 KLocal /\ klen B1 KLocal = 32.
Proof.
  split; [apply (C10_key_lengths_exact toy B4 KSecret (seed32 ++ toy_edpk) seed32); [left; discriminate|vm_compute; reflexivity]|].
  split; [reflexivity|].
  split; [apply (C10_key_lengths_exact toy B3A KPkeSecret small48 small48); [left; discriminate|vm_compute; reflexivity]|].
  split; [reflexivity|].
  split; [apply (C10_key_lengths_exact toy B3 KPublic toy_p384 toy_p384); [left; discriminate|vm_compute; reflexivity]|].
  split; [reflexivity|].
  split; [apply (C10_key_lengths_exact toy B1 KLocal seed32 seed32); [right; reflexivity|vm_compute; reflexivity]|reflexivity].
Qed.
(* used as a rejection rule: the 64 bytes of a v4 secret key are never a v4 public / local / v3 secret key, for
   any oracle at all *)
Example C10_key_lengths_exact_nonvacuous_rejects : forall O obj,
  key_decode O B4 KPublic (seed32 ++ toy_edpk) <> Ok obj /\ key_decode O B4 KLocal (seed32 ++ toy_edpk) <> Ok obj /\
  key_decode O B3 KSecret (seed32 ++ toy_edpk) <> Ok obj.
Proof.
  intros O obj. repeat split; intros H; apply C10_key_lengths_exact in H; try (left; discriminate);
    vm_compute in H; discriminate H.
Qed.
(* WEAKER (visible in the statement): equal-length kinds are not separated by this theorem — a 32-byte v4 public
   key IS accepted as a local key (and as a v2 public key); that confusion is only excluded at the TEXT level
   (C10_cross_kind_rejected), not for raw bytes handed to from_bytes. *)
Lemma C10_key_lengths_exact_same_length_kinds_pass :
  key_decode toy B4 KPublic toy_edpk = Ok toy_edpk /\ key_decode toy B4 KLocal toy_edpk = Ok toy_edpk /\
  key_decode toy B2 KPublic toy_edpk = Ok toy_edpk.
Proof. repeat split; vm_compute; reflexivity. Qed.

(* the three relabel theorems are the C06 MAC-input statements again (same proofs terms) *)
Example C10_pie_relabel_changes_mac_input_nonvacuous :
  pie_ver (v3_pie toy) ++ hdr_l ++ n32 ++ secret64 <> pie_ver (pieA toy (str "k1") 128) ++ hdr_l ++ n32 ++ secret64 /\
  pie_ver (v4_pie toy) ++ hdr_l ++ n32 ++ secret64 <> pie_ver (v4_pie toy) ++ hdr_s ++ n32 ++ secret64 /\
  pie_ver (v4_pie toy) ++ hdr_l ++ n32 ++ secret64 <> pie_ver (pieB toy (str "k2")) ++ hdr_s ++ n32 ++ secret64.
Proof.
  repeat split; apply C10_pie_relabel_changes_mac_input; try reflexivity; try (cbn; tauto); vm_compute; discriminate.
Qed.
(* the fixed-width hypotheses are needed: with a 3-byte "version" the boundary version | header can move *)
Example C10_pie_relabel_changes_mac_input_nonvacuous_hyp_needed :
  (str "k3." ++ str "local-wrap.pie." ++ n32 ++ secret64 = str "k3" ++ hdr_l ++ n32 ++ secret64) /\
  (str "k3.", str "local-wrap.pie.", n32, secret64) <> (str "k3", hdr_l, n32, secret64).
Proof. split; [reflexivity|vm_compute; discriminate]. Qed.

Example C10_pbkw_relabel_changes_mac_input_nonvacuous :
  str "k3" ++ str ".local-pw." ++ z 52 ++ seed32 <> str "k1" ++ str ".local-pw." ++ z 52 ++ seed32 /\
  str "k3" ++ str ".local-pw." ++ z 52 ++ seed32 <> str "k3" ++ str ".secret-pw." ++ z 52 ++ seed32 /\
  (str "k3", str ".local-pw.", z 52, seed32) = (str "k3", str ".local-pw.", z 52, seed32).
Proof.
  split; [|split].
  - intros E. apply C10_pbkw_relabel_changes_mac_input in E; try reflexivity; try (cbn; tauto). vm_compute in E. discriminate E.
  - intros E. apply C10_pbkw_relabel_changes_mac_input in E; try reflexivity; try (cbn; tauto). vm_compute in E. discriminate E.
  - apply C10_pbkw_relabel_changes_mac_input; try reflexivity; cbn; tauto.
Qed.

Example C10_seal_relabel_changes_mac_input_nonvacuous :
  str "k4" ++ str ".seal." ++ n32 ++ seed32 <> str "k2" ++ str ".seal." ++ n32 ++ seed32 /\
  (str "k4", n32, seed32) = (str "k4", n32, seed32).
Proof.
  split.
  - intros E. apply C10_seal_relabel_changes_mac_input in E; try reflexivity. vm_compute in E. discriminate E.
  - apply (C10_seal_relabel_changes_mac_input _ _ (str ".seal.")); reflexivity.
Qed.
(* WEAKER (scope): the header [h] is the same variable on both sides, so the statement does not speak about a seal
   blob presented under a different HEADER; and k3 vs k4 seal blobs have different epk lengths (49 / 32), which
   the equal-length hypothesis excludes — the cross-version case k3 <-> k4 is therefore not an instance: *)
Lemma C10_seal_relabel_not_an_instance_across_families :
  length (toy_p384) <> length n32.
Proof. vm_compute. discriminate. Qed.
