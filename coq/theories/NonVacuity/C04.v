(* NonVacuity/C04.v — C04 theorems instantiated at concrete values. *)
From Coq Require Import List NArith String Lia.
From PV Require Import Bytes Result Base64 Base64Proofs Text TextProofs Oracle Local Public LocalProofs PublicProofs
  Paserk PaserkProofs Keys KeysProofs NoPanic PanicCover PanicCoverProofs ToyOracle.
From PV.Gen Require Import PanicSites.
From PV.Properties Require Import C04.
From PV.NonVacuity Require Import C01 C02.
Import ListNotations.
Local Open Scope string_scope.
Local Open Scope list_scope.

Ltac msplit := repeat match goal with |- _ /\ _ => split end.

Definition k4local : bytes := Eval vm_compute in print_paserk (str "k4") (str ".local.") key32.
Definition sk48 : bytes := z 47 ++ [x05].

(* ---- parsers: the function analysed takes all three kinds of branch (Ok / Err), never Panic ---- *)
Example C04_paserk_parse_no_panic_nonvacuous :
  parse_paserk (str "k4") (str ".local.") k4local = Ok key32 /\
  parse_paserk (str "k4") (str ".local.") (k4local ++ str "=") = Err Base64DecodeError /\
  parse_paserk (str "k4") (str ".local.") (str "k3.local.AAAA") = Err InvalidKey /\
  is_panic (parse_paserk (str "k4") (str ".local.") (k4local ++ str "A")) = false.
Proof. msplit; first [apply C04_paserk_parse_no_panic | vm_compute; reflexivity]. Qed.

Definition lid : bytes := Eval vm_compute in print_paserk (str "k4") (str ".lid.") (repeat x11 33).
Example C04_keyid_parse_no_panic_nonvacuous :
  parse_keyid (str "k4") (str ".lid.") lid = Ok (repeat x11 33) /\
  is_ok (parse_keyid (str "k4") (str ".lid.") (lid ++ str "AAAA")) = false /\
  is_panic (parse_keyid (str "k4") (str ".lid.") (lid ++ str "AAAA")) = false.
Proof. msplit; first [apply C04_keyid_parse_no_panic | vm_compute; reflexivity]. Qed.

Definition tok_v4 : bytes :=
  Eval vm_compute in print_token (str "v4") [] (str ".local.") {| t_payload := p_v4; t_footer := foot |}.
Example C04_token_parse_no_panic_nonvacuous :
  parse_token fdec_vec (str "v4") [] (str ".local.") tok_v4 = Ok ({| t_payload := p_v4; t_footer := foot |}, foot) /\
  parse_token fdec_unit (str "v4") [] (str ".local.") tok_v4 = Err PayloadError /\
  is_panic (parse_token fdec_vec (str "v4") [] (str ".local.") (tok_v4 ++ str "..")) = false.
Proof. msplit; first [apply C04_token_parse_no_panic | vm_compute; reflexivity]. Qed.

(* ---- keys ---- *)
Example C04_key_decode_no_panic_nonvacuous :
  key_decode toy B3A KSecret sk48 = Ok sk48 /\ key_decode toy B3A KSecret (z 47) = Err InvalidKey /\
  is_panic (key_decode toy B3A KSecret (z 49)) = false.
Proof. msplit; first [apply C04_key_decode_no_panic | vm_compute; reflexivity]. Qed.

Example C04_key_from_str_no_panic_nonvacuous :
  key_from_str toy B4 KLocal k4local = Ok key32 /\ is_panic (key_from_str toy B4 KLocal (str "k4.local.!")) = false.
Proof. split; [vm_compute; reflexivity|apply C04_key_from_str_no_panic]. Qed.

Example C04_accepted_key_encodes_nonvacuous :
  is_panic (key_encode toy B3A KSecret sk48) = false /\ key_encode toy B3A KSecret sk48 = Ok sk48.
Proof.
  split; [|vm_compute; reflexivity].
  apply (C04_accepted_key_encodes toy B3A KSecret sk48 sk48). vm_compute. reflexivity.
Qed.
(* the guarded Panic branch is real: an object no decoder returns (49 bytes) does panic in the model *)
Example C04_encode_panic_branch_is_live : is_panic (lc_encode_secret (x01 :: z 48)) = true.
Proof. vm_compute. reflexivity. Qed.

Example C04_accepted_key_displays_and_has_id_nonvacuous :
  is_panic (key_to_text toy B3A KSecret sk48) = false /\ is_panic (key_id_text toy B3A KSecret sk48) = false.
Proof. apply (C04_accepted_key_displays_and_has_id toy B3A KSecret sk48 sk48). vm_compute. reflexivity. Qed.
Example C04_key_text_computes :
  exists t, key_to_text toy B3A KSecret sk48 = Ok t /\ take 10 t = str "k3.secret." /\ length t = 10 + 64.
Proof. eexists. split; [vm_compute; reflexivity|split; vm_compute; reflexivity]. Qed.

Example C04_accepted_secret_key_has_public_key_nonvacuous :
  is_panic (public_of toy B3 sk48) = false /\ public_of toy B3 sk48 = Ok toy_p384.
Proof.
  split; [|vm_compute; reflexivity].
  apply (C04_accepted_secret_key_has_public_key toy B3 sk48 sk48). vm_compute. reflexivity.
Qed.

(* ---- unseal / unwrap ---- *)
Example C04_local_unseal_no_panic_nonvacuous :
  is_panic (lg_unseal (lc_params toy) key32 sfx (z 79) foot aad) = false /\
  is_panic (lg_unseal (lc_params toy) key32 sfx p_lc foot aad) = false.
Proof. split; apply C04_local_unseal_no_panic. Qed.
(* WRONG-REASON evidence: the statement holds of ANY parameter record, including a nonsensical one, because
   lg_unseal contains no Panic constructor at all (Rust's split_at / indexing are modelled by total take/drop) *)
Definition junk_params : lparams :=
  {| lp_tlen := 4000; lp_aad := false; lp_short := Panic "x"; lp_synth := fun _ _ => [];
     lp_ks := fun _ _ _ => []; lp_tag := fun _ _ _ _ _ _ => [] |}.
Example C04_local_unseal_no_panic_junk : forall key enc p f a, is_panic (lg_unseal junk_params key enc p f a) = false.
Proof. apply C04_local_unseal_no_panic. Qed.

Example C04_v2_local_unseal_no_panic_nonvacuous :
  is_panic (v2_local_unseal toy key32 sfx (z 39) foot []) = false /\ v2_local_unseal toy key32 sfx p_v2 foot [] = Ok msg.
Proof. split; [apply C04_v2_local_unseal_no_panic|vm_compute; reflexivity]. Qed.

Example C04_pie_unwrap_no_panic_nonvacuous :
  is_panic (pie_unwrap (v4_pie toy) (str ".local-wrap.pie.") key32 (z 63)) = false /\
  pie_unwrap (v4_pie toy) (str ".local-wrap.pie.") key32 (z 63) = Err InvalidKey.
Proof. split; [apply C04_pie_unwrap_no_panic|vm_compute; reflexivity]. Qed.

Example C04_pbkw_unwrap_no_panic_nonvacuous :
  is_panic (pw_unwrap (lc_pw toy) (str ".local-pw.") (str "pass") (z 100)) = false /\
  pw_unwrap (lc_pw toy) (str ".local-pw.") (str "pass") (z 100) = Err InvalidKey.   (* iteration count 0 *)
Proof.
  split; [|vm_compute; reflexivity].
  apply (C04_pbkw_unwrap_no_panic toy). cbn. tauto.
Qed.

Example C04_v3_unseal_key_no_panic_nonvacuous :
  is_panic (v3_pke_unseal_gen toy 128 InvalidKey sk48 (z 129)) = false.
Proof. apply C04_v3_unseal_key_no_panic. vm_compute. discriminate. Qed.
(* the hypothesis is needed: the Panic branch of the model is reachable without it *)
Definition noP384 : oracle := fun name args => if String.eqb name "p384_pk" then [] else toy name args.
Example C04_v3_unseal_key_panic_branch_is_live : is_panic (v3_pke_unseal_gen noP384 128 InvalidKey sk48 (z 129)) = true.
Proof. vm_compute. reflexivity. Qed.

Example C04_x25519_unseal_key_no_panic_nonvacuous :
  is_panic (x_pke_unseal toy (str "k4") true (fun sk => x_of_edpk toy (drop 32 sk)) (key32 ++ toy_edpk) (z 96)) = false.
Proof. apply C04_x25519_unseal_key_no_panic. Qed.

Example C04_v1_unseal_key_no_panic_nonvacuous : is_panic (v1_pke_unseal toy key32 (z 592)) = false.
Proof. apply C04_v1_unseal_key_no_panic. Qed.

Definition pk5 : bytes := repeat x05 32.
Example C04_seal_to_parsed_key_no_panic_nonvacuous :
  dalek_decode_public toy pk5 = Ok pk5 /\ is_panic (x_pke_seal toy (str "k4") false pk5 key32 n32) = false.
Proof.
  split; [vm_compute; reflexivity|].
  apply (C04_seal_to_parsed_key_no_panic toy pk5 pk5 key32 n32); [|vm_compute; reflexivity].
  intros p _. vm_compute. discriminate.
Qed.
Definition noX : oracle := fun name args => if String.eqb name "x_of_edpk" then [] else toy name args.
Example C04_seal_panic_branch_is_live : is_panic (x_pke_seal noX (str "k4") false pk5 key32 n32) = true.
Proof. vm_compute. reflexivity. Qed.

Example C04_awslc_encode_assert_unreachable_nonvacuous :
  lc_encode_secret sk48 = Ok sk48 /\ lc_encode_secret (z 48) = Ok (z 48) /\ lc_encode_secret (repeat xff 48) = Ok (repeat xff 48).
Proof. msplit; apply C04_awslc_encode_assert_unreachable; reflexivity. Qed.

(* ---- inventory ---- *)
Example C04_every_panic_site_is_reviewed_nonvacuous :
  Nat.leb 90 (length gen_panic_sites) = true /\
  exists c, In c panic_cover /\ covers ("paseto-v3-aws-lc/src/lc/mod.rs", "encode", "assert", 2%N) c = true.
Proof.
  split; [reflexivity|]. apply C04_every_panic_site_is_reviewed. vm_compute. tauto.
Qed.
(* the check is live: an unreviewed site is not covered *)
Example C04_cover_check_is_live :
  existsb (covers ("paseto-core/src/tokens.rs", "unseal", "unwrap", 1%N)) panic_cover = false /\
  existsb (covers ("paseto-v3-aws-lc/src/lc/mod.rs", "encode", "assert", 3%N)) panic_cover = false.
Proof. split; vm_compute; reflexivity. Qed.
Example C04_only_dangerous_seal_is_out_of_scope_nonvacuous : length out_of_scope_sites = 2.
Proof. reflexivity. Qed.

(* ---- the no-panic theorems of the four Rust-shaped mirrors are about the GUARDS: the same body under a guard
        of 70 instead of 80 panics on a 75-byte payload (len - 48 = 27 < 32), and with no guard at all on the
        empty payload (0 - 48) ---- *)
Definition lc_local_unseal_guard (G : nat) (O : oracle) (key enc payload f a : bytes) : result bytes :=
  if Nat.ltb (length payload) G then Err InvalidToken else
  PV.Rs.rs_sub (length payload) 48 "paseto-v3-aws-lc/local.rs unseal: len - 48" (fun mid =>
  PV.Rs.rs_split_at mid payload "paseto-v3-aws-lc/local.rs unseal: split_at_mut(len - 48)" (fun rest tag =>
  PV.Rs.rs_split_at 32 rest "paseto-v3-aws-lc/local.rs unseal: split_at_mut(32)" (fun nonce c =>
  let '(ek, n2, ak) := lc_keys O key nonce in
  if beq (hmac384 O ak (v3_pre enc nonce c f a)) tag
  then Ok (xorl c (aes_ctr O ctr_w_awslc ek n2 (length c)))
  else Err CryptoError))).
Example C04_awslc_guard_80_is_the_model : forall O key enc p f a,
  lc_local_unseal_guard 80 O key enc p f a = lc_local_unseal O key enc p f a.
Proof. reflexivity. Qed.
Example C04_awslc_guard_70_panics :
  is_panic (lc_local_unseal_guard 70 toy (repeat x00 32) [] (repeat x00 75) [] []) = true.
Proof. vm_compute. reflexivity. Qed.
Example C04_awslc_no_guard_panics :
  is_panic (lc_local_unseal_guard 0 toy (repeat x00 32) [] [] [] []) = true.
Proof. vm_compute. reflexivity. Qed.
Example C04_awslc_local_unseal_no_panic_nonvacuous :
  lc_local_unseal toy (repeat x00 32) [] (repeat x00 79) [] [] = Err InvalidToken /\
  is_panic (lc_local_unseal toy (repeat x00 32) [] (repeat x00 80) [] []) = false.
Proof. split; [vm_compute; reflexivity|apply C04_awslc_local_unseal_no_panic]. Qed.

(* ================= theorems added after the first audit ================= *)
From PV Require Import GuardRules.
From PV.Gen Require Import Guards.

(* ---- C04_public_unseal_no_panic: the membership hypothesis at each of the six backends; the function takes its
        Ok, Err InvalidToken, Err CryptoError (toy3 below) and Err ClaimsError branches on concrete inputs ---- *)
Example C04_public_unseal_no_panic_nonvacuous :
  is_panic (pg_unseal (v4_pparams toy) toy_edpk sfx s_v4 foot aad) = false /\
  pg_unseal (v4_pparams toy) toy_edpk sfx s_v4 foot aad = Ok msg /\
  pg_unseal (v4_pparams toy) toy_edpk sfx (z 63) foot aad = Err InvalidToken /\
  is_panic (pg_unseal (v1_pparams toy) (z 1) sfx (z 255) foot []) = false /\
  pg_unseal (v1_pparams toy) (z 1) sfx s_v1 foot aad = Err ClaimsError /\
  is_panic (pg_unseal (lc_pparams toy) toy_p384 sfx (z 96) foot aad) = false /\
  pg_unseal (lc_pparams toy) toy_p384 sfx (z 96) foot aad = Err CryptoError.     (* r = s = 0 is out of range *)
Proof.
  msplit; first [apply (C04_public_unseal_no_panic toy); cbn; tauto | vm_compute; reflexivity].
Qed.
(* the membership hypothesis is used: a parameter record whose check panics makes pg_unseal panic *)
Definition panicky_pparams : pparams :=
  {| pp_slen := 1; pp_aad := true; pp_pre := fun _ _ m _ _ => m; pp_check := fun _ _ _ => Panic "check" |}.
Example C04_public_unseal_no_panic_nonvacuous_hyp_used :
  is_panic (pg_unseal panicky_pparams [] [] [x00] [] []) = true.
Proof. reflexivity. Qed.
(* FINDING (WRONG-REASON, same as C04_local_unseal_no_panic_junk above): pg_unseal has no Panic constructor of
   its own (its split is total take / drop), so the statement holds of ANY record whose check returns Ok / Err,
   e.g. one with a nonsensical signature length; nothing about the guards of the Rust source is expressed by it.
   The content is in the four mirror theorems below (which contain the Panic branches of Rs.v). *)
Definition junk_pparams : pparams :=
  {| pp_slen := 4000; pp_aad := false; pp_pre := fun _ _ _ _ _ => []; pp_check := fun _ _ _ => Err CryptoError |}.
Lemma C04_public_unseal_no_panic_wrong_reason : forall pk enc p f a,
  is_panic (pg_unseal junk_pparams pk enc p f a) = false.
Proof. intros. apply PublicProofs.pg_unseal_no_panic. reflexivity. Qed.

(* ---- the three Rust-shaped public mirrors: boundary lengths on both sides of the guard, an accepted token,
        and the same body under a weakened guard DOES panic ---- *)
Definition v4_public_unseal_guard (G : nat) (O : oracle) (pk enc payload f a : bytes) : result bytes :=
  if Nat.ltb (length payload) G then Err InvalidToken else
  PV.Rs.rs_sub (length payload) 64 "paseto-v4/public.rs unseal: len - 64" (fun mid =>
  PV.Rs.rs_split_at mid payload "paseto-v4/public.rs unseal: split_at(len - 64)" (fun m tag =>
  PV.Rs.rs_exact 64 tag "paseto-v4/public.rs unseal: tag.try_into().unwrap()" (fun sig =>
  if ed_verify O pk (v4_ppre enc m f a) sig then Ok m else Err CryptoError))).
Example C04_v4_public_guard_64_is_the_model : forall O pk enc p f a,
  v4_public_unseal_guard 64 O pk enc p f a = v4_public_unseal O pk enc p f a.
Proof. reflexivity. Qed.
Example C04_v4_public_guard_63_panics : is_panic (v4_public_unseal_guard 63 toy toy_edpk [] (z 63) [] []) = true.
Proof. vm_compute. reflexivity. Qed.
Example C04_v4_public_unseal_no_panic_nonvacuous :
  v4_public_unseal toy toy_edpk sfx (z 63) foot aad = Err InvalidToken /\
  v4_public_unseal toy toy_edpk sfx (z 64) foot aad = Ok [] /\
  v4_public_unseal toy toy_edpk sfx s_v4 foot aad = Ok msg /\
  is_panic (v4_public_unseal toy toy_edpk sfx (z 63) foot aad) = false /\
  is_panic (v4_public_unseal toy toy_edpk sfx s_v4 foot aad) = false.
Proof. msplit; first [apply C04_v4_public_unseal_no_panic | vm_compute; reflexivity]. Qed.

Example C04_v2_public_unseal_no_panic_nonvacuous :
  v2_public_unseal toy toy_edpk sfx (z 63) foot [] = Err InvalidToken /\
  v2_public_unseal toy toy_edpk sfx s_v2 foot [] = Ok msg /\
  v2_public_unseal toy toy_edpk sfx s_v2 foot aad = Err ClaimsError /\
  is_panic (v2_public_unseal toy toy_edpk sfx [] foot []) = false /\
  is_panic (v2_public_unseal toy toy_edpk sfx s_v2 foot []) = false.
Proof. msplit; first [apply C04_v2_public_unseal_no_panic | vm_compute; reflexivity]. Qed.

Definition lc_public_unseal_guard (G : nat) (O : oracle) (pk enc payload f a : bytes) : result bytes :=
  if Nat.ltb (length payload) G then Err InvalidToken else
  PV.Rs.rs_sub (length payload) 96 "paseto-v3-aws-lc/public.rs unseal: len - 96" (fun mid =>
  PV.Rs.rs_split_at mid payload "paseto-v3-aws-lc/public.rs unseal: split_at(len - 96)" (fun m sig =>
  let r := be_val (take 48 sig) in
  let s := be_val (drop 48 sig) in
  if scalar_ok r && scalar_ok s && ecdsa_verify O pk (v3_ppre pk enc m f a) r s then Ok m else Err CryptoError)).
Example C04_awslc_public_guard_96_is_the_model : forall O pk enc p f a,
  lc_public_unseal_guard 96 O pk enc p f a = lc_public_unseal O pk enc p f a.
Proof. reflexivity. Qed.
Example C04_awslc_public_guard_64_panics : is_panic (lc_public_unseal_guard 64 toy toy_p384 [] (z 70) [] []) = true.
Proof. vm_compute. reflexivity. Qed.
Example C04_awslc_public_unseal_no_panic_nonvacuous :
  lc_public_unseal toy toy_p384 sfx (z 95) foot aad = Err InvalidToken /\
  lc_public_unseal toy toy_p384 sfx (z 96) foot aad = Err CryptoError /\
  lc_public_unseal toy toy_p384 sfx s_lc foot aad = Ok msg /\
  is_panic (lc_public_unseal toy toy_p384 sfx (z 95) foot aad) = false /\
  is_panic (lc_public_unseal toy toy_p384 sfx s_lc foot aad) = false.
Proof. msplit; first [apply C04_awslc_public_unseal_no_panic | vm_compute; reflexivity]. Qed.

(* ---- the guard tables: lower bounds only (the table is regenerated from the source) ---- *)
Example C04_guards_are_the_sources_nonvacuous :
  Nat.leb 12 (length gen_guards) = true /\ Nat.leb 12 (length model_guards) = true /\
  In ("paseto-v3-aws-lc/src/core/local.rs", [("guard", 80%N); ("split_sub", 48%N); ("split", 32%N)]) model_guards /\
  Nat.leb 4 (length (filter (fun r => existsb (fun o => String.eqb (fst o) "split_sub") (snd r)) gen_guards)) = true.
Proof.
  rewrite C04_guards_are_the_sources. msplit; try reflexivity. vm_compute. tauto.
Qed.
(* the tie is live: a table whose aws-lc guard is lowered is not the model's *)
Example C04_guards_are_the_sources_nonvacuous_live :
  map (fun r => if String.eqb (fst r) "paseto-v3-aws-lc/src/core/local.rs"
                then (fst r, [("guard", 70%N); ("split_sub", 48%N); ("split", 32%N)]) else r) gen_guards <> model_guards.
Proof. vm_compute. discriminate. Qed.

Example C04_guards_cover_every_split_nonvacuous :
  Nat.leb 12 (length gen_guards) = true /\
  (forall r, In r gen_guards -> ops_safe 0 None (snd r) = true) /\
  (* a weakened row of the table is refused: guard 80 -> 79 in front of split_sub 48 ; split 32 *)
  ops_safe 0 None [("guard", 79%N); ("split_sub", 48%N); ("split", 32%N)] = false /\
  ops_safe 0 None [("guard", 63%N); ("split_sub", 64%N); ("to_array", 0%N)] = false /\
  ops_safe 0 None [("split", 32%N); ("to_array", 0%N)] = false /\
  ops_safe 0 None [("guard", 64%N); ("unknown_op", 1%N)] = false /\
  (* every row with a panicking op is refused once its guards are deleted *)
  forallb (fun r => negb (existsb (fun o => String.eqb (fst o) "split_sub") (snd r)) ||
                    negb (ops_safe 0 None (filter (fun o => negb (String.eqb (fst o) "guard")) (snd r)))) gen_guards = true.
Proof.
  msplit; try reflexivity.
  apply (proj1 (forallb_forall _ _)). exact C04_guards_cover_every_split.
Qed.
(* FINDING (WEAKER, minor): the checker does not compare the size of the array a `try_into().unwrap()` converts to
   with the size of the tail that was split off (the generated constant of "to_array" is 0, and ops_safe only
   asks that SOME tail was just split).  A row splitting off 63 bytes and converting them to [u8; 64] passes.
   In the MODEL the conversion is rs_exact 64 and the no-panic theorems do check it; but the tie
   gen_guards = model_guards says nothing about the array type of the Rust source. *)
Lemma C04_guards_checker_ignores_array_size :
  ops_safe 0 None [("guard", 64%N); ("split_sub", 63%N); ("to_array", 0%N)] = true /\
  ops_safe 0 None [("guard", 64%N); ("split_sub", 1%N); ("to_array", 4000%N)] = true.
Proof. split; reflexivity. Qed.

(* NOTE on C04_guards_are_the_sources: only the four rows of the Rust-shaped mirrors are written with constants the
   mirror functions are stated with (lc_local_G, ed_public_S, ... and the *_shape lemmas).  The other eight rows of
   [model_guards] are numerals typed into GuardRules.v; nothing connects them to the parameter records the model
   of those backends actually uses.  They do agree with them today (this lemma is that missing tie, for the tag /
   signature lengths), and those eight rows have no panicking operation, so no-panic does not depend on them. *)
Lemma C04_model_guards_literal_rows_agree_with_params : forall O,
  lp_tlen (v1_params O) = 48 /\ lp_tlen (v3_params O) = 48 /\ lp_tlen (v4_params O) = 32 /\ lp_tlen (na_params O) = 32 /\
  pp_slen (v1_pparams O) = 256 /\ pp_slen (v3_pparams O) = 96 /\ pp_slen (na_pparams O) = 64 /\
  forallb (fun r => negb (existsb (fun o => String.eqb (fst o) "split_sub" || String.eqb (fst o) "split" || String.eqb (fst o) "to_array") (snd r))
                    || existsb (String.eqb (fst r)) ["paseto-v2/src/core/public.rs"; "paseto-v4/src/core/public.rs";
                                                      "paseto-v3-aws-lc/src/core/local.rs"; "paseto-v3-aws-lc/src/core/public.rs"])
          model_guards = true.
Proof. intros O. repeat split. Qed.
(* the checker accepts a row with no operations at all: a `fn unseal` whose splits the extractor does not recognise
   would pass silently (trust in tools/extract_facts.py, not a defect of the proof) *)
Example C04_guards_checker_accepts_empty_row : ops_safe 0 None [] = true.
Proof. reflexivity. Qed.
