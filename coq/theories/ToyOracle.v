(* ToyOracle.v — the premises of the development are SATISFIABLE.

   Every theorem about the schemes has the shape "forall O, laws O -> ..." (plus, for keys, four facts about
   the point encoders).  If no oracle met those premises the theorems would say nothing.  Here is one that
   does: a small total oracle with the right output lengths whose "signatures" always verify, whose AEAD is
   the identity with a zero tag, whose Diffie-Hellman shared secret is constant and whose RSA is the
   identity on 512-byte integers.  It is of course not cryptography; it is a MODEL of [laws], which is all
   that consistency needs.  (The first version of Oracle.v passed lengths to the oracle in a fixed 4-byte
   field, which made [laws] contradictory — n and n + 2^32 looked alike; writing this file found it.) *)
From Coq Require Import List NArith String Bool Lia Arith.
From PV Require Import Bytes Result Oracle Keys.
Import ListNotations.
Local Open Scope string_scope.
Local Open Scope list_scope.
Set Default Timeout 120.

Definition z (n : nat) : bytes := repeat Byte.x00 n.
Definition num (b : bytes) : nat := N.to_nat (be_val b).
Definition tt1 : list bytes := [hex "01"].

(* a fixed "public key" that is neither the Ed25519 neutral element nor p + 1 *)
Definition toy_edpk : bytes := hex "02" ++ z 31.
(* 02 || 48 zero bytes *)
Definition toy_p384 : bytes := hex "02" ++ z 48.

Definition toy : oracle := fun name args =>
  if String.eqb name "sha384" then [z 48]
  else if String.eqb name "hmac384" then [z 48]
  else if String.eqb name "hkdf384" then match args with [_; _; _; n] => [z (num n)] | _ => [] end
  else if String.eqb name "blake2b" then match args with [n; _; _] => [z (num n)] | _ => [] end
  else if String.eqb name "pbkdf2_384" then match args with [_; _; _; n] => [z (num n)] | _ => [] end
  else if String.eqb name "argon2id" then match args with [_; _; _; _; _; n] => [z (num n)] | _ => [] end
  else if String.eqb name "aes256" then [z 16]
  else if String.eqb name "xchacha20" then match args with [_; _; n] => [z (num n)] | _ => [] end
  else if String.eqb name "xcp_seal" then match args with [_; _; _; m] => [m; z 16] | _ => [] end
  else if String.eqb name "xcp_open" then match args with [_; _; _; c; t] => if beq t (z 16) then [c] else [] | _ => [] end
  else if String.eqb name "ed_pk" then [toy_edpk]
  else if String.eqb name "ed_pk_ok" then tt1
  else if String.eqb name "ed_sign" then [z 64]
  else if String.eqb name "ed_verify" then tt1
  else if String.eqb name "ed_verify_strict" then tt1
  else if String.eqb name "p384_pk" then [toy_p384]
  else if String.eqb name "p384_parse" then [toy_p384]
  else if String.eqb name "ecdsa_sign" then [be_bytes 48 1; be_bytes 48 1]
  else if String.eqb name "ecdsa_verify" then tt1
  else if String.eqb name "ecdh_p384" then [z 48]
  else if String.eqb name "x_of_edpk" then [z 32]
  else if String.eqb name "x_of_seed" then [z 32]
  else if String.eqb name "x_base" then [z 32]
  else if String.eqb name "x_mul" then [z 32]
  else if String.eqb name "x_mul_seed" then [z 32]
  else if String.eqb name "rsa_pk" then [z 1]
  else if String.eqb name "rsa_pss_sign" then [z 256]
  else if String.eqb name "rsa_pss_verify" then tt1
  else if String.eqb name "rsa_enc" then match args with [_; r] => [r] | _ => [] end
  else if String.eqb name "rsa_dec" then match args with [_; c] => [c] | _ => [] end
  else [].

Lemma z_length n : length (z n) = n.
Proof. apply repeat_length. Qed.

(* the number encoding is injective: the oracle can read back every length it is asked for *)
Lemma pow2_le_pow256 s : (2 ^ s <= 256 ^ s)%N.
Proof. apply N.pow_le_mono_l. lia. Qed.

Lemma be_val_nenc n : be_val (nenc n) = n.
Proof.
  unfold nenc. destruct (N.ltb_spec n (2 ^ 32)) as [H|H]; rewrite be_val_be_bytes.
  - apply N.mod_small. change (256 ^ N.of_nat 4)%N with (2 ^ 32)%N. exact H.
  - apply N.mod_small. rewrite N2Nat.id.
    pose proof (N.size_gt n) as Hs. pose proof (pow2_le_pow256 (N.size n)). lia.
Qed.

Lemma num_nat4 n : num (nat4 n) = n.
Proof. unfold num, nat4. rewrite be_val_nenc. apply Nat2N.id. Qed.

Lemma nenc_injective a b : nenc a = nenc b -> a = b.
Proof. intros H. rewrite <- (be_val_nenc a), <- (be_val_nenc b), H. reflexivity. Qed.

Lemma be48_small r : (r < p384_n)%N -> be_val (be_bytes 48 r) = r.
Proof.
  intros H. rewrite be_val_be_bytes. apply N.mod_small.
  assert (p384_n < 256 ^ N.of_nat 48)%N by (vm_compute; reflexivity). lia.
Qed.

Lemma Some_inj {A} (a b : A) : Some a = Some b -> a = b.
Proof. intros H. injection H. exact (fun e => e). Qed.

Ltac toy_red := unfold toy; cbn [String.eqb Ascii.eqb Bool.eqb hd fst snd].

Theorem toy_laws : laws toy.
Proof.
  constructor.
  - intros m. reflexivity.
  - intros k m. reflexivity.
  - intros s k i n. unfold hkdf384, call1. toy_red. rewrite z_length. apply num_nat4.
  - intros n k m. unfold blake2b, call1. toy_red. rewrite z_length. apply num_nat4.
  - intros k b. reflexivity.
  - intros k n len. unfold xchacha20, call1. toy_red. rewrite z_length. apply num_nat4.
  - intros p s i n. unfold pbkdf2_384, call1. toy_red. rewrite z_length. apply num_nat4.
  - intros p s m t q n k. unfold argon2id. toy_red. cbn [opt1]. intros E; inversion E. rewrite z_length. apply num_nat4.
  - intros k n a m. unfold xcp_seal. toy_red. split; reflexivity.
  - intros k n a m. unfold xcp_open, xcp_seal. toy_red. rewrite beq_refl. reflexivity.
  - intros k n a c t m. unfold xcp_open. toy_red. destruct (beq t (z 16)); cbn [opt1]; [|discriminate].
    intros E; inversion E; reflexivity.
  - intros k n a c t t' m m'. unfold xcp_open. toy_red.
    destruct (beq t (z 16)) eqn:E1; cbn [opt1]; [|discriminate].
    destruct (beq t' (z 16)) eqn:E2; cbn [opt1]; [|discriminate].
    intros _ _. apply beq_eq in E1, E2. congruence.
  - intros sd. reflexivity.
  - intros sd. reflexivity.
  - intros sd m. reflexivity.
  - intros sd m. reflexivity.
  - intros sd m. reflexivity.
  - intros sk pk. unfold p384_pk. toy_red. cbn [opt1]. intros E; inversion E; reflexivity.
  - intros bs pk. unfold p384_parse. toy_red. cbn [opt1]. intros E; inversion E; reflexivity.
  - intros bs pk. unfold p384_parse. toy_red. cbn [opt1]. intros E; exact E.
  - intros sk pk. unfold p384_pk, p384_parse. toy_red. cbn [opt1]. intros E; exact E.
  - intros sk m aux. unfold ecdsa_sign. toy_red.
    assert (H1 : (1 < p384_n)%N) by (vm_compute; reflexivity).
    rewrite (be48_small 1 H1). cbn [fst snd]. split; split; solve [reflexivity | exact H1].
  - intros sk pk m aux _. reflexivity.
  - intros pk m r s _ _. reflexivity.
  - intros a b A B _ _. split; [reflexivity|discriminate].
  - intros a B x. unfold ecdh_p384. toy_red. cbn [opt1]. intros E; inversion E; reflexivity.
  - intros sd. reflexivity.
  - intros sd r. reflexivity.
  - intros r. reflexivity.
  - intros sk m aux sg. unfold rsa_pss_sign. toy_red. cbn [opt1]. intros E; inversion E; reflexivity.
  - intros sk m aux sg _. reflexivity.
  - intros pk r c. unfold rsa_enc. toy_red. intros E. apply Some_inj in E. subst c. rewrite be_val_be_bytes.
    apply N.mod_lt. apply N.pow_nonzero. discriminate.
  - intros sk r c Hr. unfold rsa_enc, rsa_dec, rsa_pk, call1. toy_red. intros E. apply Some_inj in E. subst c.
    f_equal.
    assert (Hs : (r < 256 ^ N.of_nat 512)%N).
    { eapply N.lt_le_trans; [exact Hr|]. change (256 ^ N.of_nat 512)%N with ((2 ^ 8) ^ 512)%N.
      rewrite <- N.pow_mul_r. apply N.pow_le_mono_r; lia. }
    rewrite !be_val_be_bytes. rewrite (N.mod_small r _ Hs). rewrite (N.mod_small r _ Hs). reflexivity.
Qed.

Theorem laws_satisfiable : exists O, laws O.
Proof. exists toy. exact toy_laws. Qed.

(* the four extra premises of the key theorems (KeysProofs.v) hold of the same oracle *)
Theorem toy_key_premises :
  (forall sd, ed_pk_weak (ed_pk toy sd) = false) /\
  (forall sd, na_point_valid (ed_pk toy sd) = true) /\
  (forall bs pk, p384_parse toy bs = Some pk -> compressed_tag pk = true) /\
  (forall sk pk, p384_pk toy sk = Some pk -> compressed_tag pk = true).
Proof.
  repeat split.
  - intros bs pk. unfold p384_parse. toy_red. cbn [opt1]. intros E; inversion E. reflexivity.
  - intros sk pk. unfold p384_pk. toy_red. cbn [opt1]. intros E; inversion E. reflexivity.
Qed.
