(* SpecTokens.v — the PASETO v1–v4 token algorithms, transcribed from the specification documents in
   their own step order (docs/01-Protocol-Versions/Version{1,2,3,4}.md of paseto-standard/paseto-spec),
   over the same primitive oracle, with the specification's PAE on whole pieces and AES-256-CTR as NIST
   SP 800-38A defines it (the whole 128-bit block is the big-endian counter).
   This file is independent of Local.v / Public.v; SpecProofs.v proves the models equal to it, and the
   harness executes it on every official test vector shipped in paseto-test/tests/vectors. *)
From Coq Require Import List NArith String Bool.
From PV Require Import Bytes Pae Ctr Oracle.
Import ListNotations.
Local Open Scope string_scope.
Local Open Scope list_scope.

Section Spec.
  Variable O : oracle.

  Definition aes256_ctr (ek iv : bytes) (len : nat) : bytes := ctr_keystream 128 (aes256 O ek) iv len.

  (* ---- Version 3, Encrypt (steps 1-8), nonce n given ---- *)
  Definition spec_v3_encrypt (k n m f i : bytes) : bytes :=
    let h := str "v3.local." in
    let tmp := hkdf384 O [] k (str "paseto-encryption-key" ++ n) 48 in
    let Ek := firstn 32 tmp in
    let n2 := skipn 32 tmp in
    let Ak := hkdf384 O [] k (str "paseto-auth-key-for-aead" ++ n) 48 in
    let c := xorl m (aes256_ctr Ek n2 (length m)) in
    let preAuth := pae_spec [h; n; c; f; i] in
    let t := hmac384 O Ak preAuth in
    n ++ c ++ t.

  (* ---- Version 1, Encrypt: nonce = HMAC-SHA384(key = random b, m)[0:32] ---- *)
  Definition spec_v1_nonce (b m : bytes) : bytes := firstn 32 (hmac384 O b m).
  Definition spec_v1_encrypt_with (k n m f : bytes) : bytes :=
    let h := str "v1.local." in
    let Ek := hkdf384 O (firstn 16 n) k (str "paseto-encryption-key") 32 in
    let Ak := hkdf384 O (firstn 16 n) k (str "paseto-auth-key-for-aead") 32 in
    let c := xorl m (aes256_ctr Ek (skipn 16 n) (length m)) in
    let preAuth := pae_spec [h; n; c; f] in
    let t := hmac384 O Ak preAuth in
    n ++ c ++ t.
  Definition spec_v1_encrypt (k b m f : bytes) : bytes := spec_v1_encrypt_with k (spec_v1_nonce b m) m f.

  (* ---- Version 4, Encrypt ---- *)
  Definition spec_v4_encrypt (k n m f i : bytes) : bytes :=
    let h := str "v4.local." in
    let tmp := blake2b O 56 k (str "paseto-encryption-key" ++ n) in
    let Ek := firstn 32 tmp in
    let n2 := skipn 32 tmp in
    let Ak := blake2b O 32 k (str "paseto-auth-key-for-aead" ++ n) in
    let c := xorl m (xchacha20 O Ek n2 (length m)) in
    let preAuth := pae_spec [h; n; c; f; i] in
    let t := blake2b O 32 Ak preAuth in
    n ++ c ++ t.

  (* ---- Version 2, Encrypt: nonce = BLAKE2b-24(key = random b, m); XChaCha20-Poly1305 ---- *)
  Definition spec_v2_encrypt (k b m f : bytes) : bytes :=
    let h := str "v2.local." in
    let n := blake2b O 24 b m in
    let preAuth := pae_spec [h; n; f] in
    let '(c, t) := xcp_seal O k n preAuth m in
    n ++ c ++ t.

  (* ---- Sign: message || signature over PAE ---- *)
  Definition spec_v4_sign_input (m f i : bytes) : bytes := pae_spec [str "v4.public."; m; f; i].
  Definition spec_v2_sign_input (m f : bytes) : bytes := pae_spec [str "v2.public."; m; f].
  Definition spec_v1_sign_input (m f : bytes) : bytes := pae_spec [str "v1.public."; m; f].
  (* Version 3: the compressed public key is the first piece *)
  Definition spec_v3_sign_input (pk m f i : bytes) : bytes := pae_spec [pk; str "v3.public."; m; f; i].

  Definition spec_v4_sign (seed m f i : bytes) : bytes := m ++ ed_sign O seed (spec_v4_sign_input m f i).
  Definition spec_v2_sign (seed m f : bytes) : bytes := m ++ ed_sign O seed (spec_v2_sign_input m f).
  (* ECDSA signatures are r || s, each 48 bytes big-endian *)
  Definition spec_v3_sig (r s : N) : bytes := be_bytes 48 r ++ be_bytes 48 s.
End Spec.
