(* TokensProofs.v — C11 (claims are released only if the validator accepts) and
   C12 (nothing from an unauthenticated token is decoded or validated), at the pipeline level. *)
From PV Require Import Bytes Result Text Tokens.
Set Default Timeout 60.

Section Pipeline.
  Context {Claims Foot UKey : Type}.
  Variable v_unseal : UKey -> bytes -> bytes -> bytes -> bytes -> result bytes.
  Variable m_suffix : bytes.
  Variable m_decode : bytes -> option Claims.
  Variable validate : Claims -> result unit.
  Notation unseal := (unseal (Foot := Foot) v_unseal m_suffix m_decode validate).

  Theorem released_only_if_validated k tok fv aad m f :
    fst (unseal k tok fv aad) = Ok (m, f) -> validate m = Ok tt /\ f = fv.
  Proof.
    unfold Tokens.unseal.
    destruct (v_unseal k m_suffix (t_payload tok) (t_footer tok) aad) as [clear|e|s]; cbn; try discriminate.
    destruct (m_decode clear) as [m'|]; cbn; try discriminate.
    destruct (validate m') as [[]|e|s] eqn:V; cbn; try discriminate.
    intros H; inversion H; subst. auto.
  Qed.

  Theorem released_claims_are_the_decoded_cleartext k tok fv aad m f :
    fst (unseal k tok fv aad) = Ok (m, f) ->
    exists clear, v_unseal k m_suffix (t_payload tok) (t_footer tok) aad = Ok clear /\ m_decode clear = Some m.
  Proof.
    unfold Tokens.unseal.
    destruct (v_unseal k m_suffix (t_payload tok) (t_footer tok) aad) as [clear|e|s]; cbn; try discriminate.
    destruct (m_decode clear) as [m'|] eqn:D; cbn; try discriminate.
    destruct (validate m') as [[]|e|s]; cbn; try discriminate.
    intros H; inversion H; subst. eauto.
  Qed.

  Theorem validator_rejection_is_returned k tok fv aad clear m e :
    v_unseal k m_suffix (t_payload tok) (t_footer tok) aad = Ok clear ->
    m_decode clear = Some m -> validate m = Err e ->
    fst (unseal k tok fv aad) = Err e.
  Proof. intros A B C. unfold Tokens.unseal. rewrite A, B, C. reflexivity. Qed.

  Theorem accepted_iff k tok fv aad :
    (exists r, fst (unseal k tok fv aad) = Ok r) <->
    exists clear m, v_unseal k m_suffix (t_payload tok) (t_footer tok) aad = Ok clear /\
                    m_decode clear = Some m /\ validate m = Ok tt.
  Proof.
    unfold Tokens.unseal. split.
    - intros [r H].
      destruct (v_unseal k m_suffix (t_payload tok) (t_footer tok) aad) as [clear|e|s]; cbn in H; try discriminate.
      destruct (m_decode clear) as [m'|] eqn:D; cbn in H; try discriminate.
      destruct (validate m') as [[]|e|s] eqn:V; cbn in H; try discriminate. eauto.
    - intros [clear [m [A [B C]]]]. rewrite A, B, C. cbn. eauto.
  Qed.

  (* C12: an authentication failure is returned as is and nothing was decoded or validated *)
  Theorem unauthenticated_nothing_runs k tok fv aad e :
    v_unseal k m_suffix (t_payload tok) (t_footer tok) aad = Err e ->
    unseal k tok fv aad = (Err e, []).
  Proof. intros A. unfold Tokens.unseal. rewrite A. reflexivity. Qed.

  Theorem trace_only_after_authentication k tok fv aad :
    snd (unseal k tok fv aad) <> [] ->
    exists clear, v_unseal k m_suffix (t_payload tok) (t_footer tok) aad = Ok clear /\
                  hd_error (snd (unseal k tok fv aad)) = Some (EvDecode clear).
  Proof.
    unfold Tokens.unseal.
    destruct (v_unseal k m_suffix (t_payload tok) (t_footer tok) aad) as [clear|e|s]; cbn; try congruence.
    intros _. exists clear. split; [reflexivity|].
    destruct (m_decode clear) as [m'|]; cbn; [|reflexivity].
    destruct (validate m'); reflexivity.
  Qed.

  (* the validator only ever sees what the decoder produced from authenticated cleartext *)
  Theorem validator_sees_only_decoded k tok fv aad c :
    In (EvValidate c) (snd (unseal k tok fv aad)) ->
    exists clear, v_unseal k m_suffix (t_payload tok) (t_footer tok) aad = Ok clear /\ m_decode clear = Some c.
  Proof.
    unfold Tokens.unseal.
    destruct (v_unseal k m_suffix (t_payload tok) (t_footer tok) aad) as [clear|e|s]; cbn; try tauto.
    destruct (m_decode clear) as [m'|] eqn:D; cbn.
    - destruct (validate m'); cbn; intros [H|[H|[]]]; try discriminate; inversion H; subst; eauto.
    - intros [H|[]]. discriminate.
  Qed.

  (* the error reported for an unauthenticated token does not depend on the decoder or validator *)
  Theorem unauthenticated_error_independent_of_payload_type
          {Claims2 : Type} (m_decode2 : bytes -> option Claims2) (validate2 : Claims2 -> result unit)
          k tok fv aad e :
    v_unseal k m_suffix (t_payload tok) (t_footer tok) aad = Err e ->
    fst (unseal k tok fv aad) = Err e /\
    fst (Tokens.unseal (Foot := Foot) v_unseal m_suffix m_decode2 validate2 k tok fv aad) = Err e.
  Proof. intros A. unfold Tokens.unseal. rewrite A. auto. Qed.
End Pipeline.
