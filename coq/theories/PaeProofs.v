(* PaeProofs.v — C15: PAE closed form, fragment transparency, injectivity, prefix-freeness. *)
From PV Require Import Bytes Pae.
Local Open Scope string_scope.
Local Open Scope list_scope.

Definition two64 : N := 18446744073709551616%N.

Lemma pow_256_8 : (256 ^ N.of_nat 8 = two64)%N.
Proof. reflexivity. Qed.

Lemma le64_length n : length (le64 n) = 8.
Proof. apply le_bytes_length. Qed.

Lemma le_val_le64 n : (n < two64)%N -> le_val (le64 n) = n.
Proof.
  intro H. unfold le64. rewrite le_val_le_bytes, pow_256_8. now apply N.mod_small.
Qed.

(* ---- fragmenting is invisible ---- *)

Lemma frag_total_concat (p : piece) : frag_total p = N.of_nat (length (concat p)).
Proof.
  induction p as [|x p IH]; cbn [frag_total fold_right concat]; [reflexivity|].
  fold (frag_total p). rewrite IH, app_length. lia.
Qed.

Lemma concat_pae_piece_writes p :
  concat (pae_piece_writes p) = pae_spec_piece (concat p).
Proof.
  unfold pae_piece_writes, pae_spec_piece. cbn [concat].
  now rewrite frag_total_concat.
Qed.

Lemma concat_flat_map_writes ps :
  concat (flat_map pae_piece_writes ps) = flat_map pae_spec_piece (map (@concat byte) ps).
Proof.
  induction ps as [|p ps IH]; cbn [flat_map map]; [reflexivity|].
  rewrite concat_app, IH, concat_pae_piece_writes. reflexivity.
Qed.

Lemma pae_fragments ps : pae ps = pae_spec (map (@concat byte) ps).
Proof.
  unfold pae, pae_writes, pae_spec. cbn [concat].
  rewrite concat_flat_map_writes, map_length. reflexivity.
Qed.

Lemma pae_closed_form (ps : list piece) :
  pae ps = le64 (N.of_nat (length ps))
           ++ flat_map (fun p => le64 (N.of_nat (length p)) ++ p) (map (@concat byte) ps).
Proof. rewrite pae_fragments. unfold pae_spec. rewrite map_length. reflexivity. Qed.

(* a streaming writer that appends every write to its state ends in the same state as a buffer *)
Lemma pae_streaming ps (st : bytes) :
  fold_left (fun acc w => acc ++ w) (pae_writes ps) st = st ++ pae ps.
Proof.
  unfold pae. generalize (pae_writes ps) as ws. intro ws. revert st.
  induction ws as [|w ws IH]; intros st; cbn [fold_left concat].
  - now rewrite app_nil_r.
  - rewrite IH, app_assoc. reflexivity.
Qed.

(* ---- decoder correctness => injective and prefix-free ---- *)

Definition len_ok (p : bytes) : Prop := (N.of_nat (length p) < two64)%N.

Lemma unpae_pieces_spec ps rest :
  Forall len_ok ps ->
  unpae_pieces (length ps) (flat_map pae_spec_piece ps ++ rest) = Some (ps, rest).
Proof.
  induction ps as [|p ps IH]; intros Hok; cbn [length unpae_pieces flat_map]; [reflexivity|].
  inversion Hok as [|? ? Hp Hps]; subst.
  unfold pae_spec_piece at 1. rewrite <- !app_assoc.
  rewrite <- (le64_length (N.of_nat (length p))) at 1.
  rewrite split_first_app.
  rewrite le_val_le64 by exact Hp. rewrite Nat2N.id.
  rewrite split_first_app. rewrite IH by exact Hps. reflexivity.
Qed.

Lemma unpae_pae_spec ps rest :
  (N.of_nat (length ps) < two64)%N -> Forall len_ok ps ->
  unpae (pae_spec ps ++ rest) = Some (ps, rest).
Proof.
  intros Hc Hok. unfold unpae, pae_spec. rewrite <- app_assoc.
  rewrite <- (le64_length (N.of_nat (length ps))) at 1.
  rewrite split_first_app, le_val_le64 by exact Hc. rewrite Nat2N.id.
  now apply unpae_pieces_spec.
Qed.

Definition pieces_ok (ps : list bytes) : Prop :=
  (N.of_nat (length ps) < two64)%N /\ Forall len_ok ps.

Theorem pae_spec_injective ps qs :
  pieces_ok ps -> pieces_ok qs -> pae_spec ps = pae_spec qs -> ps = qs.
Proof.
  intros [Hc1 H1] [Hc2 H2] E.
  pose proof (unpae_pae_spec ps [] Hc1 H1) as A.
  pose proof (unpae_pae_spec qs [] Hc2 H2) as B.
  rewrite E in A. rewrite A in B. congruence.
Qed.

(* prefix-freeness: no encoding is a proper prefix of another *)
Theorem pae_spec_prefix_free ps qs r1 r2 :
  pieces_ok ps -> pieces_ok qs ->
  pae_spec ps ++ r1 = pae_spec qs ++ r2 -> ps = qs /\ r1 = r2.
Proof.
  intros [Hc1 H1] [Hc2 H2] E.
  pose proof (unpae_pae_spec ps r1 Hc1 H1) as A.
  pose proof (unpae_pae_spec qs r2 Hc2 H2) as B.
  rewrite E in A. rewrite A in B. split; congruence.
Qed.

(* the fragmented encoder is injective on the concatenated pieces *)
Theorem pae_injective (ps qs : list piece) :
  pieces_ok (map (@concat byte) ps) -> pieces_ok (map (@concat byte) qs) ->
  pae ps = pae qs -> map (@concat byte) ps = map (@concat byte) qs.
Proof. intros H1 H2 E. rewrite !pae_fragments in E. now apply pae_spec_injective. Qed.

(* bytes can never be moved across a piece boundary without changing the encoding *)
Corollary pae_shift pre a b a' b' post :
  pieces_ok (pre ++ a :: b :: post) -> pieces_ok (pre ++ a' :: b' :: post) ->
  a <> a' ->
  pae_spec (pre ++ a :: b :: post) <> pae_spec (pre ++ a' :: b' :: post).
Proof.
  intros H1 H2 Hne E. apply pae_spec_injective in E; try assumption.
  apply app_inv_head in E. congruence.
Qed.

(* the length words are 64-bit: the hypothesis of injectivity is exactly the [as u64] in the source *)
Lemma le64_wraps : le64 two64 = le64 0.
Proof. vm_compute. reflexivity. Qed.

(* non-vacuity / sanity: the three cases of paseto-core's own unit test, and one fragmented case *)
Example pae_empty : pae [] = [x00;x00;x00;x00;x00;x00;x00;x00].
Proof. vm_compute. reflexivity. Qed.

Example pae_one_empty :
  pae [[ [] ]] = [x01;x00;x00;x00;x00;x00;x00;x00; x00;x00;x00;x00;x00;x00;x00;x00].
Proof. vm_compute. reflexivity. Qed.

Example pae_test :
  pae [[ str "test" ]] =
  [x01;x00;x00;x00;x00;x00;x00;x00; x04;x00;x00;x00;x00;x00;x00;x00] ++ str "test".
Proof. vm_compute. reflexivity. Qed.

Example pae_fragmented :
  pae [[ str "v4"; str ""; str ".local." ]; [ str "ab" ]] = pae_spec [ str "v4.local."; str "ab" ].
Proof. vm_compute. reflexivity. Qed.

Example pieces_ok_example : pieces_ok [ str "v4.local."; str "ab" ].
Proof. split; [vm_compute; reflexivity|]. repeat constructor; vm_compute; reflexivity. Qed.
