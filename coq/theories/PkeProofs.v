(* PkeProofs.v — C06 for PASERK seal (PKE): what unseal accepts, exactly.

   For each of the three families (X25519: k2 / k4 / k4-libsodium, ECDH P-384: k3 on both backends, RSA-KEM:
   k1) unseal returns a key IFF the blob has the three fields of the fixed widths, the key agreement
   succeeds and the tag field equals the MAC — keyed by a hash of (shared secret, ephemeral key, recipient
   key) — of header || ephemeral key || encrypted key.  Corollaries: every other tag is refused with the
   authentication error; every other length is refused with the format error; whatever is accepted in
   place of a sealed blob exhibits a MAC collision on different inputs.  No premise about the oracle. *)
From Coq Require Import List NArith String Bool Lia Arith.
From PV Require Import Bytes Result Oracle Ctr Local LocalProofs Paserk PaserkProofs.
Import ListNotations.
Local Open Scope string_scope.
Local Open Scope list_scope.
Set Default Timeout 120.

Lemma split_first_iff n l a b : split_first n l = Some (a, b) <-> l = a ++ b /\ length a = n.
Proof.
  split; [apply split_first_spec|]. intros [-> <-]. apply split_first_app.
Qed.

Lemma split_last_iff n l a b : split_last n l = Some (a, b) <-> l = a ++ b /\ length b = n.
Proof.
  split; [apply split_last_spec|]. intros [-> <-]. apply split_last_app.
Qed.

Section Pke.
  Variable O : oracle.

  (* ------------------------------------------------------------------ X25519 family *)
  Definition x_ek ver xk epk xpk := blake2b O 32 [] (hex "01" ++ ver ++ str ".seal." ++ xk ++ epk ++ xpk).
  Definition x_nonce (epk xpk : bytes) := blake2b O 24 [] (epk ++ xpk).
  Definition x_ak ver xk epk xpk := blake2b O 32 [] (hex "02" ++ ver ++ str ".seal." ++ xk ++ epk ++ xpk).
  Definition x_tag ver xk epk xpk edk := blake2b O 32 (x_ak ver xk epk xpk) (ver ++ str ".seal." ++ epk ++ edk).

  Theorem x_pke_accept_iff ver strict xpk_of sk data k :
    x_pke_unseal O ver strict xpk_of sk data = Ok k <->
    exists tag epk edk xpk,
      data = tag ++ epk ++ edk /\ length tag = 32 /\ length epk = 32 /\ length edk = 32 /\
      xpk_of sk = Some xpk /\
      strict && beq (x_mul_seed O (take 32 sk) epk) zero32 = false /\
      x_tag ver (x_mul_seed O (take 32 sk) epk) epk xpk edk = tag /\
      k = xorl edk (xchacha20 O (x_ek ver (x_mul_seed O (take 32 sk) epk) epk xpk) (x_nonce epk xpk) 32).
  Proof.
    unfold x_pke_unseal, x_tag, x_ek, x_nonce, x_ak, x_seal_keys. split.
    - destruct (split_first 32 data) as [[tag rest]|] eqn:E1; cbn [ok_or bind]; [|discriminate].
      destruct (split_first 32 rest) as [[epk edk]|] eqn:E2; cbn [ok_or bind]; [|discriminate].
      destruct (Nat.eqb_spec (length edk) 32) as [Le|Le]; cbn [negb]; [|discriminate].
      destruct (xpk_of sk) as [xpk|] eqn:Ex; [|discriminate].
      destruct (strict && beq (x_mul_seed O (take 32 sk) epk) zero32) eqn:Ez; [discriminate|].
      match goal with |- (if beq ?a ?b then _ else _) = _ -> _ => destruct (beq a b) eqn:Eb end; [|discriminate].
      intros E. apply beq_eq in Eb. apply split_first_spec in E1 as [-> L1]. apply split_first_spec in E2 as [-> L2].
      exists tag, epk, edk, xpk. repeat split; try assumption. inversion E; reflexivity.
    - intros (tag & epk & edk & xpk & -> & L1 & L2 & L3 & Ex & Ez & Et & ->).
      rewrite <- L1 at 1. rewrite split_first_app. cbn [ok_or bind].
      rewrite <- L2 at 1. rewrite split_first_app. cbn [ok_or bind].
      rewrite L3. cbn [Nat.eqb negb]. rewrite Ex, Ez. rewrite Et. rewrite beq_refl. reflexivity.
  Qed.

  (* the length is exactly 96, otherwise the format error *)
  Theorem x_pke_wrong_length ver strict xpk_of sk data :
    length data <> 96 -> x_pke_unseal O ver strict xpk_of sk data = Err InvalidKey.
  Proof.
    intros Hl. unfold x_pke_unseal.
    destruct (split_first 32 data) as [[tag rest]|] eqn:E1; cbn [ok_or bind]; [|reflexivity].
    destruct (split_first 32 rest) as [[epk edk]|] eqn:E2; cbn [ok_or bind]; [|reflexivity].
    destruct (Nat.eqb_spec (length edk) 32) as [Le|Le]; cbn [negb]; [|reflexivity].
    apply split_first_spec in E1 as [-> L1]. apply split_first_spec in E2 as [-> L2].
    rewrite !app_length in Hl. lia.
  Qed.

  (* any other tag over the same ephemeral key and encrypted key: refused with the authentication error *)
  Theorem x_pke_tag_tamper ver strict xpk_of sk tag' epk edk xpk :
    length tag' = 32 -> length epk = 32 -> length edk = 32 -> xpk_of sk = Some xpk ->
    strict && beq (x_mul_seed O (take 32 sk) epk) zero32 = false ->
    tag' <> x_tag ver (x_mul_seed O (take 32 sk) epk) epk xpk edk ->
    x_pke_unseal O ver strict xpk_of sk (tag' ++ epk ++ edk) = Err CryptoError.
  Proof.
    intros L1 L2 L3 Ex Ez Hne. unfold x_pke_unseal.
    rewrite <- L1 at 1. rewrite split_first_app. cbn [ok_or bind].
    rewrite <- L2 at 1. rewrite split_first_app. cbn [ok_or bind].
    rewrite L3. cbn [Nat.eqb negb]. rewrite Ex, Ez. unfold x_seal_keys.
    match goal with |- (if beq ?a ?b then _ else _) = _ => destruct (beq a b) eqn:Eb end; [|reflexivity].
    apply beq_eq in Eb. exfalso. apply Hne. symmetry. exact Eb.
  Qed.

  (* whatever else is accepted under the tag of a sealed blob is a MAC collision on different inputs *)
  Theorem x_pke_forgery_is_collision ver strict xpk_of sk epk edk xpk epk' edk' k' :
    length epk = 32 -> length edk = 32 -> length epk' = 32 -> xpk_of sk = Some xpk ->
    length (x_tag ver (x_mul_seed O (take 32 sk) epk) epk xpk edk) = 32 ->
    x_pke_unseal O ver strict xpk_of sk (x_tag ver (x_mul_seed O (take 32 sk) epk) epk xpk edk ++ epk' ++ edk') = Ok k' ->
    (epk', edk') <> (epk, edk) ->
    x_tag ver (x_mul_seed O (take 32 sk) epk') epk' xpk edk' = x_tag ver (x_mul_seed O (take 32 sk) epk) epk xpk edk
    /\ (epk', edk') <> (epk, edk).
  Proof.
    intros L2 L3 L2' Ex Lt Hacc Hne. split; [|exact Hne].
    apply x_pke_accept_iff in Hacc as (tag & e2 & d2 & xpk2 & Hd & M1 & M2 & M3 & Ex2 & _ & Et & _).
    rewrite Ex in Ex2. inversion Ex2; subst xpk2.
    apply app_eq_len in Hd as [Ht Hr]; [|congruence].
    apply app_eq_len in Hr as [He Hk]; [|congruence]. subst e2 d2. rewrite Et. symmetry. exact Ht.
  Qed.

  (* ------------------------------------------------------------------ P-384 family *)
  Definition v3_ek xk epk pk := take 32 (sha384 O (hex "01" ++ str "k3.seal." ++ xk ++ epk ++ pk)).
  Definition v3_n xk epk pk := drop 32 (sha384 O (hex "01" ++ str "k3.seal." ++ xk ++ epk ++ pk)).
  Definition v3_ak xk epk pk := sha384 O (hex "02" ++ str "k3.seal." ++ xk ++ epk ++ pk).
  Definition v3_tag xk epk pk edk := hmac384 O (v3_ak xk epk pk) (str "k3.seal." ++ epk ++ edk).

  Theorem v3_pke_accept_iff W bad sk data k :
    v3_pke_unseal_gen O W bad sk data = Ok k <->
    exists tag epk edk pk epk' xk,
      data = tag ++ epk ++ edk /\ length tag = 48 /\ length epk = 49 /\ length edk = 32 /\
      p384_pk O sk = Some pk /\ p384_parse O epk = Some epk' /\ ecdh_p384 O sk epk' = Some xk /\
      v3_tag xk epk pk edk = tag /\
      k = xorl edk (aes_ctr O W (v3_ek xk epk pk) (v3_n xk epk pk) 32).
  Proof.
    unfold v3_pke_unseal_gen, v3_tag, v3_ek, v3_n, v3_ak, v3_seal_keys. split.
    - destruct (split_first 48 data) as [[tag rest]|] eqn:E1; cbn [ok_or bind]; [|discriminate].
      destruct (split_first 49 rest) as [[epk edk]|] eqn:E2; cbn [ok_or bind]; [|discriminate].
      destruct (Nat.eqb_spec (length edk) 32) as [Le|Le]; cbn [negb]; [|discriminate].
      destruct (p384_pk O sk) as [pk|] eqn:Ep; [|discriminate].
      destruct (p384_parse O epk) as [epk'|] eqn:Ee; [|discriminate].
      destruct (ecdh_p384 O sk epk') as [xk|] eqn:Ed; [|discriminate].
      match goal with |- (if beq ?a ?b then _ else _) = _ -> _ => destruct (beq a b) eqn:Eb end; [|discriminate].
      intros E. apply beq_eq in Eb. apply split_first_spec in E1 as [-> L1]. apply split_first_spec in E2 as [-> L2].
      exists tag, epk, edk, pk, epk', xk. repeat split; try assumption. inversion E; reflexivity.
    - intros (tag & epk & edk & pk & epk' & xk & -> & L1 & L2 & L3 & Ep & Ee & Ed & Et & ->).
      rewrite <- L1 at 1. rewrite split_first_app. cbn [ok_or bind].
      rewrite <- L2 at 1. rewrite split_first_app. cbn [ok_or bind].
      rewrite L3. cbn [Nat.eqb negb]. rewrite Ep, Ee, Ed. rewrite Et. rewrite beq_refl. reflexivity.
  Qed.

  Theorem v3_pke_wrong_length W bad sk data :
    length data <> 129 -> v3_pke_unseal_gen O W bad sk data = Err InvalidKey.
  Proof.
    intros Hl. unfold v3_pke_unseal_gen.
    destruct (split_first 48 data) as [[tag rest]|] eqn:E1; cbn [ok_or bind]; [|reflexivity].
    destruct (split_first 49 rest) as [[epk edk]|] eqn:E2; cbn [ok_or bind]; [|reflexivity].
    destruct (Nat.eqb_spec (length edk) 32) as [Le|Le]; cbn [negb]; [|reflexivity].
    apply split_first_spec in E1 as [-> L1]. apply split_first_spec in E2 as [-> L2].
    rewrite !app_length in Hl. lia.
  Qed.

  Theorem v3_pke_tag_tamper W bad sk tag' epk edk pk epk' xk :
    length tag' = 48 -> length epk = 49 -> length edk = 32 ->
    p384_pk O sk = Some pk -> p384_parse O epk = Some epk' -> ecdh_p384 O sk epk' = Some xk ->
    tag' <> v3_tag xk epk pk edk ->
    v3_pke_unseal_gen O W bad sk (tag' ++ epk ++ edk) = Err CryptoError.
  Proof.
    intros L1 L2 L3 Ep Ee Ed Hne. unfold v3_pke_unseal_gen.
    rewrite <- L1 at 1. rewrite split_first_app. cbn [ok_or bind].
    rewrite <- L2 at 1. rewrite split_first_app. cbn [ok_or bind].
    rewrite L3. cbn [Nat.eqb negb]. rewrite Ep, Ee, Ed. unfold v3_seal_keys.
    match goal with |- (if beq ?a ?b then _ else _) = _ => destruct (beq a b) eqn:Eb end; [|reflexivity].
    apply beq_eq in Eb. exfalso. apply Hne. symmetry. exact Eb.
  Qed.

  (* ------------------------------------------------------------------ RSA-KEM (k1) *)
  Definition v1_k (c : bytes) := sha384 O c.
  Definition v1_ek c r := take 32 (hmac384 O (v1_k c) (hex "01" ++ str "k1.seal." ++ r)).
  Definition v1_n c r := drop 32 (hmac384 O (v1_k c) (hex "01" ++ str "k1.seal." ++ r)).
  Definition v1_ak c r := hmac384 O (v1_k c) (hex "02" ++ str "k1.seal." ++ r).
  Definition v1_tag c r edk := hmac384 O (v1_ak c r) (str "k1.seal." ++ c ++ edk).

  Theorem v1_pke_accept_iff sk data k :
    v1_pke_unseal O sk data = Ok k <->
    exists tag edk c rn,
      data = tag ++ edk ++ c /\ length tag = 48 /\ length edk = 32 /\ length c = 512 /\
      rsa_dec O sk (be_val c) = Some rn /\
      v1_tag c (be_minimal rn) edk = tag /\
      k = xorl edk (aes_ctr O ctr_w_rustcrypto (v1_ek c (be_minimal rn)) (v1_n c (be_minimal rn)) 32).
  Proof.
    unfold v1_pke_unseal, v1_tag, v1_ek, v1_n, v1_ak, v1_k, v1_seal_keys. split.
    - destruct (split_first 48 data) as [[tag rest]|] eqn:E1; cbn [ok_or bind]; [|discriminate].
      destruct (split_last 512 rest) as [[edk c]|] eqn:E2; cbn [ok_or bind]; [|discriminate].
      destruct (Nat.eqb_spec (length edk) 32) as [Le|Le]; cbn [negb]; [|discriminate].
      destruct (rsa_dec O sk (be_val c)) as [rn|] eqn:Er; [|discriminate].
      match goal with |- (if beq ?a ?b then _ else _) = _ -> _ => destruct (beq a b) eqn:Eb end; [|discriminate].
      intros E. apply beq_eq in Eb. apply split_first_spec in E1 as [-> L1]. apply split_last_spec in E2 as [-> L2].
      exists tag, edk, c, rn. repeat split; try assumption. inversion E; reflexivity.
    - intros (tag & edk & c & rn & -> & L1 & L2 & L3 & Er & Et & ->).
      rewrite <- L1 at 1. rewrite split_first_app. cbn [ok_or bind].
      rewrite <- L3 at 1. rewrite split_last_app. cbn [ok_or bind].
      rewrite L2. cbn [Nat.eqb negb]. rewrite Er. rewrite Et. rewrite beq_refl. reflexivity.
  Qed.

  Theorem v1_pke_wrong_length sk data :
    length data <> 592 -> v1_pke_unseal O sk data = Err InvalidKey.
  Proof.
    intros Hl. unfold v1_pke_unseal.
    destruct (split_first 48 data) as [[tag rest]|] eqn:E1; cbn [ok_or bind]; [|reflexivity].
    destruct (split_last 512 rest) as [[edk c]|] eqn:E2; cbn [ok_or bind]; [|reflexivity].
    destruct (Nat.eqb_spec (length edk) 32) as [Le|Le]; cbn [negb]; [|reflexivity].
    apply split_first_spec in E1 as [-> L1]. apply split_last_spec in E2 as [-> L2].
    rewrite !app_length in Hl. lia.
  Qed.

  Theorem v1_pke_tag_tamper sk tag' edk c rn :
    length tag' = 48 -> length edk = 32 -> length c = 512 -> rsa_dec O sk (be_val c) = Some rn ->
    tag' <> v1_tag c (be_minimal rn) edk ->
    v1_pke_unseal O sk (tag' ++ edk ++ c) = Err CryptoError.
  Proof.
    intros L1 L2 L3 Er Hne. unfold v1_pke_unseal.
    rewrite <- L1 at 1. rewrite split_first_app. cbn [ok_or bind].
    rewrite <- L3 at 1. rewrite split_last_app. cbn [ok_or bind].
    rewrite L2. cbn [Nat.eqb negb]. rewrite Er. unfold v1_seal_keys.
    match goal with |- (if beq ?a ?b then _ else _) = _ => destruct (beq a b) eqn:Eb end; [|reflexivity].
    apply beq_eq in Eb. exfalso. apply Hne. symmetry. exact Eb.
  Qed.
End Pke.

(* the MAC input determines version, ephemeral key and encrypted key (no bytes can move between fields,
   and a k2 blob is not a k4 blob) *)
Lemma pke_mac_input_injective (v v' h epk epk' edk edk' : bytes) :
  length v = 2 -> length v' = 2 -> length epk = length epk' ->
  v ++ h ++ epk ++ edk = v' ++ h ++ epk' ++ edk' -> (v, epk, edk) = (v', epk', edk').
Proof.
  intros Lv Lv' Le E.
  apply app_eq_len in E as [-> E]; [|congruence].
  apply app_inv_head in E. apply app_eq_len in E as [-> ->]; [reflexivity|exact Le].
Qed.
