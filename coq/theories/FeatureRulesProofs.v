(* FeatureRulesProofs.v — C19: lemmas about the feature/cfg model (FeatureRules.v) and the obligations over the
   tables regenerated from /repo (Gen/Features.v), decided by vm_compute over all 2^n feature subsets. *)
From Coq Require Import String List Bool.
From PV Require Import FeatureRules.
From PV.Gen Require Import Features.
Import ListNotations.
Local Open Scope string_scope.
Set Default Timeout 600.

(* ---------- general lemmas ---------- *)

Lemma mem_In x l : mem x l = true <-> In x l.
Proof.
  unfold mem. rewrite existsb_exists. split.
  - intros [y [Hy E]]. apply String.eqb_eq in E. now subst.
  - intros H. exists x. split; [assumption | apply String.eqb_refl].
Qed.

Definition mem_le (A B : list string) : Prop := forall f, mem f A = true -> mem f B = true.

Lemma incl_mem_le A B : incl A B -> mem_le A B.
Proof. intros H f. rewrite !mem_In. apply H. Qed.

(* a predicate naming no feature does not see the feature set *)
Lemma eval_feature_free A B g : feature_free g = true -> eval A g = eval B g.
Proof.
  unfold feature_free. induction g; cbn [eval gate_feats]; intros H; try reflexivity.
  - discriminate.
  - destruct (gate_feats g1) eqn:E1; [|discriminate]. destruct (gate_feats g2) eqn:E2; [|discriminate].
    now rewrite IHg1, IHg2.
  - destruct (gate_feats g1) eqn:E1; [|discriminate]. destruct (gate_feats g2) eqn:E2; [|discriminate].
    now rewrite IHg1, IHg2.
  - now rewrite IHg.
Qed.

(* positive gates are monotone in the feature set *)
Lemma eval_mono A B g : gate_positive g = true -> mem_le A B -> eval A g = true -> eval B g = true.
Proof.
  intros P L. induction g; cbn [eval gate_positive] in *; try congruence.
  - apply L.
  - apply andb_true_iff in P. destruct P as [Pa Pb]. rewrite !andb_true_iff. intros [Ha Hb]. auto.
  - apply andb_true_iff in P. destruct P as [Pa Pb]. rewrite !orb_true_iff. intros [Ha | Hb]; auto.
  - now rewrite (eval_feature_free A B g P).
Qed.

Lemma active_mono A B i :
  gate_positive (i_gate i) = true -> gate_positive (i_encl i) = true ->
  mem_le A B -> active A i = true -> active B i = true.
Proof.
  unfold active. intros Pg Pe L. rewrite !andb_true_iff. intros [He Hg].
  split; eapply eval_mono; eauto.
Qed.

Lemma table_positive_item T i :
  table_positive T = true -> In i (c_items T) ->
  gate_positive (i_gate i) = true /\ gate_positive (i_encl i) = true.
Proof.
  unfold table_positive. rewrite forallb_forall. intros H Hi. apply H in Hi.
  now apply andb_true_iff in Hi.
Qed.

(* ---------- the closure ---------- *)

Lemma add_new_In xs : forall acc y, In y (add_new xs acc) <-> In y xs \/ In y acc.
Proof.
  induction xs as [|x r IH]; intros acc y; cbn [add_new].
  - cbn. tauto.
  - destruct (mem x acc) eqn:E.
    + rewrite IH. apply mem_In in E. cbn. split; [tauto|]. intros [[->|H]|H]; tauto.
    + rewrite IH, in_app_iff. cbn. tauto.
Qed.

Lemma step_In T A y :
  In y (step T A) <-> In y A \/ exists f, In f A /\ In y (feat_targets (edges_of T f)).
Proof.
  unfold step. rewrite add_new_In, in_flat_map. tauto.
Qed.

Lemma step_incl T A B : incl A B -> incl (step T A) (step T B).
Proof.
  intros H y. rewrite !step_In. intros [Hy | [f [Hf Hy]]]; [left; auto | right; exists f; auto].
Qed.

Lemma step_extensive T A : incl A (step T A).
Proof. intros y Hy. apply step_In. now left. Qed.

Lemma iter_step_incl T n : forall A B, incl A B -> incl (iter n (step T) A) (iter n (step T) B).
Proof.
  induction n as [|n IH]; intros A B H; cbn [iter]; [assumption|]. apply IH. now apply step_incl.
Qed.

Lemma iter_step_extensive T n : forall A, incl A (iter n (step T) A).
Proof.
  induction n as [|n IH]; intros A; cbn [iter]; [apply incl_refl|].
  eapply incl_tran; [apply step_extensive | apply IH].
Qed.

Lemma closure_mono T A B : incl A B -> incl (closure T A) (closure T B).
Proof. apply iter_step_incl. Qed.

Lemma closure_extensive T A : incl A (closure T A).
Proof. apply iter_step_extensive. Qed.

Lemma all_subsets_incl l : forall A, In A (all_subsets l) -> incl A l.
Proof.
  induction l as [|x r IH]; intros A; cbn [all_subsets].
  - intros [<-|[]]. apply incl_refl.
  - rewrite in_app_iff, in_map_iff. intros [H | [A' [<- H]]].
    + apply incl_tl. now apply IH.
    + apply incl_cons; [now left | apply incl_tl; now apply IH].
Qed.

Lemma all_subsets_full l : In l (all_subsets l).
Proof.
  induction l as [|x r IH]; cbn [all_subsets]; [now left|].
  apply in_app_iff. right. now apply in_map.
Qed.

(* ---------- [builds] looks at a feature set only through [mem] ---------- *)

Definition mem_eq (A B : list string) : Prop := forall f, mem f A = mem f B.

Lemma eval_ext A B g : mem_eq A B -> eval A g = eval B g.
Proof.
  intros E. induction g; cbn [eval]; try reflexivity; try (now rewrite IHg1, IHg2); [apply E | now rewrite IHg].
Qed.

Lemma active_ext A B i : mem_eq A B -> active A i = active B i.
Proof. intros E. unfold active. now rewrite !(eval_ext A B). Qed.

Lemma existsb_ext' {X} (f g : X -> bool) l : (forall x, f x = g x) -> existsb f l = existsb g l.
Proof. intros H. induction l as [|x r IH]; cbn; [reflexivity | now rewrite H, IH]. Qed.

Lemma forallb_ext' {X} (f g : X -> bool) l : (forall x, f x = g x) -> forallb f l = forallb g l.
Proof. intros H. induction l as [|x r IH]; cbn; [reflexivity | now rewrite H, IH]. Qed.

Lemma dep_on_ext T A B d : mem_eq A B -> dep_on T A d = dep_on T B d.
Proof.
  intros E. unfold dep_on. f_equal. apply existsb_ext'. intros fe. now rewrite E.
Qed.

Lemma depfeat_on_ext T A B df : mem_eq A B -> depfeat_on T A df = depfeat_on T B df.
Proof.
  intros E. unfold depfeat_on. f_equal. apply existsb_ext'. intros fe. now rewrite E.
Qed.

Lemma name_on_ext T A B mn : mem_eq A B -> name_on T A mn = name_on T B mn.
Proof.
  intros E. unfold name_on. apply existsb_ext'. intros j. now rewrite (active_ext A B).
Qed.

Lemma item_ok_ext T A B i : mem_eq A B -> item_ok T A i = item_ok T B i.
Proof.
  intros E. unfold item_ok. rewrite (active_ext A B i E).
  rewrite (forallb_ext' (dep_on T A) (dep_on T B)) by (intros; now apply dep_on_ext).
  rewrite (forallb_ext' (depfeat_on T A) (depfeat_on T B)) by (intros; now apply depfeat_on_ext).
  rewrite !(forallb_ext' (name_on T A) (name_on T B)) by (intros; now apply name_on_ext).
  reflexivity.
Qed.

Lemma builds_ext T A B : mem_eq A B -> builds T A = builds T B.
Proof. intros E. unfold builds. apply forallb_ext'. intros i. now apply item_ok_ext. Qed.

Lemma subset_b_incl A B : subset_b A B = true -> incl A B.
Proof.
  unfold subset_b. rewrite forallb_forall. intros H x Hx. apply mem_In. now apply H.
Qed.

Lemma same_set_mem_eq A B : same_set A B = true -> mem_eq A B.
Proof.
  unfold same_set. rewrite andb_true_iff. intros [H1 H2] f.
  apply subset_b_incl in H1. apply subset_b_incl in H2.
  destruct (mem f A) eqn:EA, (mem f B) eqn:EB; try reflexivity.
  - apply mem_In in EA. apply H1, mem_In in EA. congruence.
  - apply mem_In in EB. apply H2, mem_In in EB. congruence.
Qed.

(* the fast decision procedure decides the direct statement *)
Lemma builds_fast_sound T :
  builds_every_subset_fast T = true ->
  forall A, In A (all_subsets (feature_names T)) -> builds T (closure T A) = true.
Proof.
  unfold builds_every_subset_fast. rewrite andb_true_iff, !forallb_forall. intros [HR HS] A HA.
  specialize (HS A HA). cbv zeta in HS. apply existsb_exists in HS. destruct HS as [kd [Hkd Hs]].
  destruct (bools_eqb (key T (closure T A)) (fst kd)); [|discriminate].
  rewrite (builds_ext T _ _ (same_set_mem_eq _ _ Hs)). now apply HR.
Qed.

(* ---------- obligations over the regenerated tables (re-checked on every run) ----------
   [vm_cast_no_check] only avoids evaluating twice: the kernel evaluates the term with its VM at Qed. *)

Lemma fast_v1 : builds_every_subset_fast gen_v1 = true. Proof. vm_cast_no_check (eq_refl true). Qed.
Lemma fast_v2 : builds_every_subset_fast gen_v2 = true. Proof. vm_cast_no_check (eq_refl true). Qed.
Lemma fast_v3 : builds_every_subset_fast gen_v3 = true. Proof. vm_cast_no_check (eq_refl true). Qed.
Lemma fast_v4 : builds_every_subset_fast gen_v4 = true. Proof. vm_cast_no_check (eq_refl true). Qed.
Lemma fast_core : builds_every_subset_fast gen_core = true. Proof. vm_cast_no_check (eq_refl true). Qed.
Lemma fast_json : builds_every_subset_fast gen_json = true. Proof. vm_cast_no_check (eq_refl true). Qed.

Lemma every_subset_builds_v1 :
  forall A, In A (all_subsets (feature_names gen_v1)) -> builds gen_v1 (closure gen_v1 A) = true.
Proof. exact (builds_fast_sound gen_v1 fast_v1). Qed.
Lemma every_subset_builds_v2 :
  forall A, In A (all_subsets (feature_names gen_v2)) -> builds gen_v2 (closure gen_v2 A) = true.
Proof. exact (builds_fast_sound gen_v2 fast_v2). Qed.
Lemma every_subset_builds_v3 :
  forall A, In A (all_subsets (feature_names gen_v3)) -> builds gen_v3 (closure gen_v3 A) = true.
Proof. exact (builds_fast_sound gen_v3 fast_v3). Qed.
Lemma every_subset_builds_v4 :
  forall A, In A (all_subsets (feature_names gen_v4)) -> builds gen_v4 (closure gen_v4 A) = true.
Proof. exact (builds_fast_sound gen_v4 fast_v4). Qed.
Lemma every_subset_builds_core :
  forall A, In A (all_subsets (feature_names gen_core)) -> builds gen_core (closure gen_core A) = true.
Proof. exact (builds_fast_sound gen_core fast_core). Qed.
Lemma every_subset_builds_json :
  forall A, In A (all_subsets (feature_names gen_json)) -> builds gen_json (closure gen_json A) = true.
Proof. exact (builds_fast_sound gen_json fast_json). Qed.

(* the six crates and nothing else *)
Lemma gen_crates_are :
  map c_name gen_crates = ["paseto-v1"; "paseto-v2"; "paseto-v3"; "paseto-v4"; "paseto-core"; "paseto-json"].
Proof. vm_compute. reflexivity. Qed.

(* the documented feature flags are the declared ones *)
Lemma gen_feature_names :
  map feature_names gen_crates =
  let nine := ["default"; "decrypting"; "encrypting"; "id"; "paserk"; "pbkw"; "pie-wrap"; "pke"; "signing"; "verifying"] in
  [nine; nine; nine; nine; ["default"; "serde"]; ["default"; "claims"]].
Proof. vm_compute. reflexivity. Qed.

Lemma tables_well_formed :
  forallb (fun T => table_positive T && table_declared T && closure_closed T) gen_crates = true.
Proof. vm_cast_no_check (eq_refl true). Qed.

Lemma cfgs_only_on_items : forallb cfg_only_on_items gen_crates = true.
Proof. vm_compute. reflexivity. Qed.

Lemma crate_positive T : In T gen_crates -> table_positive T = true.
Proof.
  intros H. pose proof tables_well_formed as W. rewrite forallb_forall in W. specialize (W T H).
  apply andb_true_iff in W. destruct W as [W _]. apply andb_true_iff in W. tauto.
Qed.

(* monotonicity: enabling more features never removes an item *)
Theorem active_monotone :
  forall T, In T gen_crates -> forall i, In i (c_items T) ->
  forall A B, incl A B -> active A i = true -> active B i = true.
Proof.
  intros T HT i Hi A B L. destruct (table_positive_item T i (crate_positive T HT) Hi) as [Pg Pe].
  apply active_mono; auto using incl_mem_le.
Qed.

(* every item compiled in a reduced build is compiled - from the same source text - in the full build *)
Theorem reduced_items_are_full_items :
  forall T, In T gen_crates -> forall A, In A (all_subsets (feature_names T)) ->
  forall i, In i (c_items T) ->
  active (closure T A) i = true -> active (closure T (feature_names T)) i = true.
Proof.
  intros T HT A HA i Hi. apply (active_monotone T HT i Hi).
  apply closure_mono. now apply all_subsets_incl.
Qed.

Theorem closure_monotone :
  forall T A B, incl A B -> incl (closure T A) (closure T B).
Proof. exact closure_mono. Qed.

(* examples *)
Example v4_verify_only_has_no_signing :
  canon gen_v4 (closure gen_v4 ["verifying"]) = ["verifying"].
Proof. vm_compute. reflexivity. Qed.

Example v4_pke_closure :
  canon gen_v4 (closure gen_v4 ["pke"]) = ["decrypting"; "encrypting"; "pke"; "signing"; "verifying"].
Proof. vm_compute. reflexivity. Qed.
