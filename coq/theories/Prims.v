(* Prims.v — the named cryptographic primitives the PASETO / PASERK documents use, as a record of
   functions, and the algebraic laws about them that theorems take as an explicit premise
   ([laws P]); never an Axiom.  ToyPrims.v shows the laws are satisfiable. *)
From PV Require Import Bytes Result.

Record prims : Type := {
  (* hashes, MACs, KDFs *)
  sha384 : bytes -> bytes;
  hmac384 : bytes -> bytes -> bytes;                   (* key, message -> 48 bytes *)
  hkdf384 : bytes -> bytes -> bytes -> nat -> bytes;   (* salt ([] = none), ikm, info, length *)
  blake2b : nat -> bytes -> bytes -> bytes;            (* output length, key ([] = unkeyed), message *)
  pbkdf2_384 : bytes -> bytes -> N -> nat -> bytes;    (* password, salt, iterations, length *)
  argon2id : bytes -> bytes -> N -> N -> N -> nat -> option bytes; (* pass, salt, mem KiB, time, para, len *)
  (* ciphers *)
  aes256 : bytes -> bytes -> bytes;                    (* key, 16-byte block -> 16-byte block *)
  xchacha20 : bytes -> bytes -> nat -> bytes;          (* key, 24-byte nonce, length -> keystream *)
  xcp_seal : bytes -> bytes -> bytes -> bytes -> bytes * bytes;      (* key nonce aad pt -> ct, tag *)
  xcp_open : bytes -> bytes -> bytes -> bytes -> bytes -> option bytes; (* key nonce aad ct tag *)
  (* Ed25519 *)
  ed_pk : bytes -> bytes;                              (* 32-byte seed -> 32-byte public key *)
  ed_pk_ok : bytes -> bool;                            (* 32 bytes decompress to a curve point *)
  ed_sign : bytes -> bytes -> bytes;                   (* seed, message -> 64-byte signature *)
  ed_verify : bytes -> bytes -> bytes -> bool;         (* public key, message, signature *)
  (* ECDSA P-384 with SHA-384; signatures as the integer pair (r, s) *)
  p384_sk_ok : bytes -> bool;                          (* 48-byte big-endian scalar in [1, n-1] *)
  p384_pk : bytes -> bytes;                            (* scalar -> 49-byte compressed point *)
  p384_pk_parse : bytes -> option bytes;               (* SEC1 bytes -> compressed form, if a valid point *)
  ecdsa_sign : bytes -> bytes -> bytes -> N * N;       (* scalar, message, auxiliary randomness *)
  ecdsa_verify : bytes -> bytes -> N -> N -> bool;     (* compressed pk, message, r, s *)
  (* RSASSA-PSS-SHA384, MGF1-SHA384; keys as opaque DER byte strings *)
  rsa_pk : bytes -> bytes;                             (* private key -> public key *)
  rsa_sign : bytes -> bytes -> bytes -> N;             (* private key, message, randomness -> integer *)
  rsa_verify : bytes -> bytes -> bytes -> bool;        (* public key, message, 256-byte signature *)
  rsa_modulus_len : bytes -> nat;                      (* byte length of the modulus of a private key *)
}.

Definition p384_n : N :=
  39402006196394479212279040100143613805079739270465446667946905279627659399113263569398956308152294913554433653942643%N.
Definition p384_half_n : N := (p384_n / 2)%N.

Record laws (P : prims) : Prop := {
  hmac384_len : forall k m, length (hmac384 P k m) = 48;
  sha384_len : forall m, length (sha384 P m) = 48;
  hkdf384_len : forall s k i n, length (hkdf384 P s k i n) = n;
  blake2b_len : forall n k m, length (blake2b P n k m) = n;
  aes256_len : forall k b, length (aes256 P k b) = 16;
  xchacha20_len : forall k n len, length (xchacha20 P k n len) = len;
  xcp_open_seal : forall k n a m, xcp_open P k n a (fst (xcp_seal P k n a m)) (snd (xcp_seal P k n a m)) = Some m;
  xcp_seal_len : forall k n a m, length (fst (xcp_seal P k n a m)) = length m /\ length (snd (xcp_seal P k n a m)) = 16;
  ed_sign_len : forall sk m, length (ed_sign P sk m) = 64;
  ed_pk_len : forall sk, length (ed_pk P sk) = 32;
  ed_verify_sign : forall sk m, length sk = 32 -> ed_verify P (ed_pk P sk) m (ed_sign P sk m) = true;
  ecdsa_range : forall sk m aux, let '(r, s) := ecdsa_sign P sk m aux in
                                 (0 < r < p384_n)%N /\ (0 < s < p384_n)%N;
  ecdsa_verify_sign : forall sk m aux, p384_sk_ok P sk = true ->
                                 let '(r, s) := ecdsa_sign P sk m aux in
                                 ecdsa_verify P (p384_pk P sk) m r s = true;
  (* low-S normalisation yields another valid signature *)
  ecdsa_verify_neg_s : forall pk m r s, (0 < s < p384_n)%N ->
                                 ecdsa_verify P pk m r s = true -> ecdsa_verify P pk m r (p384_n - s) = true;
  p384_pk_len : forall sk, length (p384_pk P sk) = 49;
  rsa_sign_range : forall sk m aux, (rsa_sign P sk m aux < 256 ^ N.of_nat (rsa_modulus_len P sk))%N;
  rsa_verify_sign : forall sk m aux,
      rsa_verify P (rsa_pk P sk) m (be_bytes (rsa_modulus_len P sk) (rsa_sign P sk m aux)) = true;
}.
