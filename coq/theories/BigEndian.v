(* BigEndian.v — facts about fixed-width and minimal big-endian serialisation (RSA-KEM, ECDSA r/s). *)
From Coq Require Import List NArith Lia Arith Bool.
From PV Require Import Bytes.
Import ListNotations.
Set Default Timeout 120.
Local Open Scope list_scope.

Lemma n2b_zero_of_small : n2b 0 = n2b 0. Proof. reflexivity. Qed.

Lemma le_bytes_zero w : le_bytes w 0 = repeat (n2b 0) w.
Proof. induction w as [|w IH]; cbn [le_bytes repeat]; [reflexivity|]. rewrite N.div_0_l by discriminate. rewrite IH. reflexivity. Qed.

(* widening a little-endian serialisation appends zero bytes *)
Lemma le_bytes_widen w k n : (n < 256 ^ N.of_nat w)%N -> le_bytes (w + k) n = le_bytes w n ++ repeat (n2b 0) k.
Proof.
  revert n. induction w as [|w IH]; intros n H.
  - cbn [Nat.add le_bytes app]. assert (n = 0%N) by (cbn in H; lia). subst. apply le_bytes_zero.
  - cbn [Nat.add le_bytes app]. f_equal. apply IH.
    rewrite Nat2N.inj_succ, N.pow_succ_r' in H. apply N.div_lt_upper_bound; [discriminate|]. exact H.
Qed.

Lemma rev_repeat_byte (x : byte) k : rev (repeat x k) = repeat x k.
Proof.
  induction k as [|k IH]; [reflexivity|]. cbn [repeat rev]. rewrite IH.
  clear IH. induction k as [|k IH]; [reflexivity|]. cbn [repeat app]. rewrite IH. reflexivity.
Qed.

Lemma be_bytes_widen w k n : (n < 256 ^ N.of_nat w)%N -> be_bytes (k + w) n = repeat (n2b 0) k ++ be_bytes w n.
Proof.
  intros H. unfold be_bytes. rewrite Nat.add_comm, le_bytes_widen by exact H.
  rewrite rev_app_distr. f_equal. apply rev_repeat_byte.
Qed.

Lemma strip0_zeros k (l : bytes) : strip0 (repeat (n2b 0) k ++ l) = strip0 l.
Proof. induction k as [|k IH]; [reflexivity|]. cbn [repeat app strip0]. rewrite b2n_n2b. cbn. exact IH. Qed.

Lemma strip0_head b (l : bytes) : b2n b <> 0%N -> strip0 (b :: l) = b :: l.
Proof. intros H. cbn [strip0]. destruct (N.eqb_spec (b2n b) 0); [contradiction|reflexivity]. Qed.

Lemma be_val_bound (l : bytes) : (be_val l < 256 ^ N.of_nat (length l))%N.
Proof. unfold be_val. rewrite <- rev_length. apply le_val_bound. Qed.

(* the minimal serialisation of the value of a string with a non-zero first byte is that string *)
Lemma be_minimal_be_val b (l : bytes) :
  b2n b <> 0%N -> length (b :: l) <= 520 -> be_minimal (be_val (b :: l)) = b :: l.
Proof.
  intros Hb Hlen. unfold be_minimal.
  replace 520 with ((520 - length (b :: l)) + length (b :: l)) by lia.
  rewrite be_bytes_widen by apply be_val_bound.
  rewrite be_bytes_be_val, strip0_zeros, strip0_head by exact Hb. reflexivity.
Qed.

Lemma le_val_app (a b : bytes) : le_val (a ++ b) = (le_val a + 256 ^ N.of_nat (length a) * le_val b)%N.
Proof.
  induction a as [|x a IH]; cbn [app le_val length].
  - cbn. lia.
  - rewrite IH, Nat2N.inj_succ, N.pow_succ_r'. lia.
Qed.

Lemma be_val_cons b (l : bytes) : be_val (b :: l) = (b2n b * 256 ^ N.of_nat (length l) + be_val l)%N.
Proof.
  unfold be_val. cbn [rev]. rewrite le_val_app, rev_length. cbn [le_val]. lia.
Qed.

(* r[0] &= 0x7f; r[0] |= 0x40 puts the first byte in [64, 127]: all 256 byte values checked *)
Definition mask_byte (b : byte) : byte := n2b (N.lor (N.land (b2n b) 127) 64).

Lemma mask_byte_range b : (64 <= b2n (mask_byte b) < 128)%N.
Proof.
  assert (H : forallb (fun b => (64 <=? b2n (mask_byte b))%N && (b2n (mask_byte b) <? 128)%N) all_bytes = true)
    by (vm_compute; reflexivity).
  pose proof (forall_bytes _ H b) as Hb. cbv beta in Hb.
  apply andb_true_iff in Hb as [H1 H2]. apply N.leb_le in H1. apply N.ltb_lt in H2. lia.
Qed.

Lemma pow_256_511 : (128 * 256 ^ N.of_nat 511 = 2 ^ 4095)%N.
Proof.
  change 128%N with (2 ^ 7)%N. change 256%N with (2 ^ 8)%N.
  rewrite <- N.pow_mul_r, <- N.pow_add_r. f_equal.
Qed.

(* a 512-byte string whose first byte is below 128 is an integer below 2^4095 *)
Lemma be_val_512_bound b (l : bytes) : length l = 511 -> (b2n b < 128)%N -> (be_val (b :: l) < 2 ^ 4095)%N.
Proof.
  intros Hl Hb. rewrite be_val_cons, Hl. pose proof (be_val_bound l) as B. rewrite Hl in B.
  rewrite <- pow_256_511.
  assert (b2n b * 256 ^ N.of_nat 511 <= 127 * 256 ^ N.of_nat 511)%N by (apply N.mul_le_mono_r; lia).
  lia.
Qed.
