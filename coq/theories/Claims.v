(* Claims.v — model of paseto-json/src/lib.rs: the hand-written serde impls of RegisteredClaims
   (manual Serialize, field-identifier visitor, visit_map) and the Json<T> payload / footer wrappers.
   No proofs here (ClaimsProofs.v).

   What is modelled, and where the line is drawn:
   * A JSON document is a [jvalue]; a JSON object is its member list IN TEXT ORDER WITH DUPLICATES
     ([list (bytes * jvalue)]), which is exactly what serde's MapAccess hands to visit_map.
     JSON text <-> jvalue (string escaping, number grammar, whitespace) is serde_json's text layer:
     a premise, exercised by the correspondence harness only.
   * [JStr s]   : a string literal denoting a Unicode string; [s] is its UTF-8.
     [JBadStr]  : a string literal that denotes no Unicode string (unpaired \uD800-\uDFFF escape, or
                  raw non-UTF-8 bytes).  serde_json refuses to build a String / &str from it but
                  IgnoredAny skips it, so it is accepted inside unknown members and refused everywhere else.
     [JNum t]   : a number literal, [t] its text (opaque: the visitor never looks inside).
   * RFC 3339 text <-> nanoseconds is jiff's text layer: the Section variables [fmt_ts] / [parse_ts].
   * All errors raised while decoding a payload surface as PasetoError::PayloadError
     (paseto-core tokens.rs: M::decode(..).map_err(PasetoError::PayloadError)). *)
From PV Require Import Bytes Result Validation.
Local Open Scope Z_scope.
Local Open Scope string_scope.

Inductive jvalue : Type :=
| JNull
| JBool (b : bool)
| JNum (text : bytes)
| JStr (s : bytes)
| JBadStr
| JArr (items : list jvalue)
| JObj (members : list (bytes * jvalue)).

Definition member : Type := (bytes * jvalue)%type.

(* the seven registered names, as the byte strings matched by visit_bytes *)
Definition k_iss : bytes := str "iss".
Definition k_sub : bytes := str "sub".
Definition k_aud : bytes := str "aud".
Definition k_exp : bytes := str "exp".
Definition k_nbf : bytes := str "nbf".
Definition k_iat : bytes := str "iat".
Definition k_jti : bytes := str "jti".

(* enum RegisteredClaimField; [None] below plays RegisteredClaimField::Ignored *)
Inductive field : Type := FIss | FSub | FAud | FExp | FNbf | FIat | FJti.

Definition key_of (f : field) : bytes :=
  match f with
  | FIss => k_iss | FSub => k_sub | FAud => k_aud
  | FExp => k_exp | FNbf => k_nbf | FIat => k_iat | FJti => k_jti
  end.

Definition all_fields : list field := [FIss; FSub; FAud; FExp; FNbf; FIat; FJti].

(* RegisteredClaimFieldVisitor::visit_bytes: first matching arm, `_ => Ignored` *)
Definition field_of_key (k : bytes) : option field :=
  if beq k k_iss then Some FIss
  else if beq k k_sub then Some FSub
  else if beq k k_aud then Some FAud
  else if beq k k_exp then Some FExp
  else if beq k k_nbf then Some FNbf
  else if beq k k_iat then Some FIat
  else if beq k k_jti then Some FJti
  else None.

Definition empty_claims : claims :=
  {| iss := None; sub := None; aud := None; exp := None; nbf := None; iat := None; jti := None |}.

(* what a generic, last-wins JSON reader (serde_json::Value, any map) holds for member [k] *)
Definition last_value (k : bytes) (ms : list member) : option jvalue :=
  fold_left (fun acc (kv : member) => if beq (fst kv) k then Some (snd kv) else acc) ms None.

(* ... and how such a reader's value is read as an optional string: null / absent are "no value" *)
Definition read_str (o : option jvalue) : option bytes :=
  match o with Some (JStr s) => Some s | _ => None end.

Section Claims.
  Variable fmt_ts : Z -> bytes.            (* jiff: Display for Timestamp (RFC 3339, UTC "Z") *)
  Variable parse_ts : bytes -> option Z.   (* jiff: DEFAULT_DATETIME_PARSER.parse_timestamp *)

  Definition read_ts (o : option jvalue) : option Z :=
    match o with Some (JStr s) => parse_ts s | _ => None end.

  (* ---------------- impl Serialize for RegisteredClaims ---------------- *)

  (* `if let Some(x) = &self.f { state.serialize_field(name, &x)?; }` *)
  Definition opt_member {A} (k : bytes) (enc : A -> jvalue) (o : option A) : list member :=
    match o with Some x => [(k, enc x)] | None => [] end.

  Definition ts_value (t : Z) : jvalue := JStr (fmt_ts t).   (* Timestamp: serializer.collect_str(self) *)

  Definition members_of (c : claims) : list member :=
    opt_member k_iss JStr (iss c) ++
    opt_member k_sub JStr (sub c) ++
    opt_member k_aud JStr (aud c) ++
    opt_member k_exp ts_value (exp c) ++
    opt_member k_nbf ts_value (nbf c) ++
    opt_member k_iat ts_value (iat c) ++
    opt_member k_jti JStr (jti c).

  Definition encode_value (c : claims) : jvalue := JObj (members_of c).

  (* ---------------- RegisteredClaimsVisitor::visit_map ---------------- *)

  (* map.next_value::<Option<String>>() on serde_json: `null` => None, string => Some, else invalid type *)
  Definition next_str (v : jvalue) : result (option bytes) :=
    match v with
    | JNull => Ok None
    | JStr s => Ok (Some s)
    | _ => Err PayloadError
    end.

  (* map.next_value::<Option<jiff::Timestamp>>(): `null` => None, string => jiff parse, else invalid type *)
  Definition next_ts (v : jvalue) : result (option Z) :=
    match v with
    | JNull => Ok None
    | JStr s => match parse_ts s with Some t => Ok (Some t) | None => Err PayloadError end
    | _ => Err PayloadError
    end.

  (* one iteration of `while let Some(key) = map.next_key()?`: the accumulator holds the seven slots *)
  Definition step (a : claims) (kv : member) : result claims :=
    let v := snd kv in
    match field_of_key (fst kv) with
    | Some FIss =>
        match iss a with
        | Some _ => Err PayloadError                                  (* duplicate_field("iss") *)
        | None => x <- next_str v ;;
                  Ok {| iss := x; sub := sub a; aud := aud a; exp := exp a; nbf := nbf a; iat := iat a; jti := jti a |}
        end
    | Some FSub =>
        match sub a with
        | Some _ => Err PayloadError
        | None => x <- next_str v ;;
                  Ok {| iss := iss a; sub := x; aud := aud a; exp := exp a; nbf := nbf a; iat := iat a; jti := jti a |}
        end
    | Some FAud =>
        match aud a with
        | Some _ => Err PayloadError
        | None => x <- next_str v ;;
                  Ok {| iss := iss a; sub := sub a; aud := x; exp := exp a; nbf := nbf a; iat := iat a; jti := jti a |}
        end
    | Some FExp =>
        match exp a with
        | Some _ => Err PayloadError
        | None => x <- next_ts v ;;
                  Ok {| iss := iss a; sub := sub a; aud := aud a; exp := x; nbf := nbf a; iat := iat a; jti := jti a |}
        end
    | Some FNbf =>
        match nbf a with
        | Some _ => Err PayloadError
        | None => x <- next_ts v ;;
                  Ok {| iss := iss a; sub := sub a; aud := aud a; exp := exp a; nbf := x; iat := iat a; jti := jti a |}
        end
    | Some FIat =>
        match iat a with
        | Some _ => Err PayloadError
        | None => x <- next_ts v ;;
                  Ok {| iss := iss a; sub := sub a; aud := aud a; exp := exp a; nbf := nbf a; iat := x; jti := jti a |}
        end
    | Some FJti =>
        match jti a with
        | Some _ => Err PayloadError
        | None => x <- next_str v ;;
                  Ok {| iss := iss a; sub := sub a; aud := aud a; exp := exp a; nbf := nbf a; iat := iat a; jti := x |}
        end
    | None => Ok a                       (* map.next_value::<IgnoredAny>()? : any value is skipped *)
    end.

  Fixpoint visit_from (a : claims) (ms : list member) : result claims :=
    match ms with
    | [] => Ok a
    | kv :: r => a' <- step a kv ;; visit_from a' r
    end.

  Definition visit (ms : list member) : result claims := visit_from empty_claims ms.

  (* Deserialize for RegisteredClaims = deserialize_struct with a visitor that only has visit_map:
     on serde_json every root other than an object is "invalid type" *)
  Definition decode_value (v : jvalue) : result claims :=
    match v with
    | JObj ms => visit ms
    | _ => Err PayloadError
    end.
End Claims.

(* ---------------- Json<T>: Payload and Footer over serde_json ---------------- *)
Section JsonWrapper.
  Variable T : Type.
  Variable to_vec : T -> option bytes.        (* serde_json::to_writer into a Vec (None = Serialize failed) *)
  Variable from_slice : bytes -> option T.    (* serde_json::from_slice *)

  Definition json_payload_encode (x : T) : result bytes := ok_or (to_vec x) PayloadError.
  Definition json_payload_decode (b : bytes) : result T := ok_or (from_slice b) PayloadError.
  Definition json_footer_encode (x : T) : result bytes := ok_or (to_vec x) PayloadError.
  Definition json_footer_decode (b : bytes) : result T :=
    match b with
    | [] => Err PayloadError                   (* "missing footer" *)
    | _ => ok_or (from_slice b) PayloadError
    end.
End JsonWrapper.
