(* SpecPaserkProofs.v — C07: the PASERK models of Paserk.v equal the specification transcription
   SpecPaserk.v for every input, nonce, salt and ephemeral value. *)
From Coq Require Import List NArith String Bool Lia Arith.
From PV Require Import Bytes Result Ctr Oracle Local LocalProofs SpecTokens Paserk PaserkProofs SpecPaserk BigEndian.
Import ListNotations.
Set Default Timeout 120.
Local Open Scope string_scope.
Local Open Scope list_scope.

Section Eq.
  Variable O : oracle.

  Theorem pieA_is_spec ver header wk ptk n :
    pie_wrap (pieA O ver 128) header wk ptk n = Ok (spec_pieA O (ver ++ header) wk ptk n).
  Proof.
    unfold pie_wrap, pie_auth, spec_pieA. cbn [pieA pie_ks pie_mac pie_ver].
    unfold pieA_keys, aes_ctr, aes256_ctr, take, drop. rewrite <- !app_assoc. reflexivity.
  Qed.

  Theorem pieB_is_spec ver header wk ptk n :
    pie_wrap (pieB O ver) header wk ptk n = Ok (spec_pieB O (ver ++ header) wk ptk n).
  Proof.
    unfold pie_wrap, pie_auth, spec_pieB. cbn [pieB pie_ks pie_mac pie_ver].
    unfold pieB_keys, take, drop. rewrite <- !app_assoc. reflexivity.
  Qed.

  Theorem pwA_is_spec ver z header pw ptk s i n :
    (i < 2 ^ 32)%N -> (z = false \/ i <> 0%N) ->
    pw_wrap (pwA O ver 128 z) header pw (be_bytes 4 i) ptk s n = Ok (spec_pwA O (ver ++ header) pw ptk s i n).
  Proof.
    intros Hi Hz. unfold pw_wrap, spec_pwA. cbn [pwA pw_prekey pw_ek pw_ak pw_ks pw_mac pw_ver]. cbv zeta.
    assert (Ev : be_val (be_bytes 4 i) = i).
    { rewrite be_val_be_bytes. apply N.mod_small. change (256 ^ N.of_nat 4)%N with (2 ^ 32)%N. exact Hi. }
    rewrite Ev.
    assert (Eg : z && N.eqb i 0 = false).
    { destruct Hz as [->|Hz]; [reflexivity|]. destruct (N.eqb_spec i 0); [contradiction|apply andb_false_r]. }
    rewrite Eg. cbn [bind]. unfold aes_ctr, aes256_ctr, take. rewrite <- !app_assoc. reflexivity.
  Qed.

  Lemma pwB_fields_enc mem time para :
    (mem < 2 ^ 64)%N -> (time < 2 ^ 32)%N -> (para < 2 ^ 32)%N ->
    pwB_fields (be_bytes 8 mem ++ be_bytes 4 time ++ be_bytes 4 para) = (mem, time, para).
  Proof.
    intros Hm Ht Hp. unfold pwB_fields.
    rewrite (take_app_exact (be_bytes 8 mem)) by (rewrite be_bytes_length; reflexivity).
    rewrite (drop_app_exact (be_bytes 8 mem)) by (rewrite be_bytes_length; reflexivity).
    rewrite (take_app_exact (be_bytes 4 time)) by (rewrite be_bytes_length; reflexivity).
    replace (drop 12 (be_bytes 8 mem ++ be_bytes 4 time ++ be_bytes 4 para)) with (be_bytes 4 para).
    - rewrite !be_val_be_bytes.
      change (256 ^ N.of_nat 8)%N with (2 ^ 64)%N. change (256 ^ N.of_nat 4)%N with (2 ^ 32)%N.
      rewrite !N.mod_small by assumption. reflexivity.
    - rewrite app_assoc. symmetry. apply drop_app_exact. rewrite app_length, !be_bytes_length. reflexivity.
  Qed.

  (* RustCrypto v2 / v4: for the parameter sets it accepts (memory a multiple of 1024 bytes, below 2^32 KiB) *)
  Theorem v4_pw_is_spec ver header pw ptk s mem time para n blob :
    (mem < 2 ^ 64)%N -> (time < 2 ^ 32)%N -> (para < 2 ^ 32)%N ->
    (mem mod 1024 = 0)%N -> (mem / 1024 < 2 ^ 32)%N ->
    spec_pwB O (ver ++ header) pw ptk s mem time para n = Some blob ->
    pw_wrap (pwB O ver (v4_prekey O)) header pw (be_bytes 8 mem ++ be_bytes 4 time ++ be_bytes 4 para) ptk s n = Ok blob.
  Proof.
    intros Hm Ht Hp Hmod Hkib. unfold spec_pwB, pw_wrap. cbn [pwB pw_prekey pw_ek pw_ak pw_ks pw_mac pw_ver].
    unfold v4_prekey. rewrite pwB_fields_enc by assumption.
    remember (be_bytes 8 mem ++ be_bytes 4 time ++ be_bytes 4 para) as params.
    rewrite Hmod. apply N.ltb_lt in Hkib. rewrite Hkib.
    change (negb (0 =? 0)%N) with false. change (negb true) with false. cbv iota.
    destruct (argon2id O pw s (mem / 1024) time para 32) as [k|]; [|discriminate].
    intros E. injection E as <-. unfold bind. rewrite <- !app_assoc. reflexivity.
  Qed.

  (* libsodium v4: parallelism 1 only *)
  Theorem na_pw_is_spec header pw ptk s mem time n blob :
    (mem < 2 ^ 64)%N -> (time < 2 ^ 32)%N ->
    spec_pwB O (str "k4" ++ header) pw ptk s mem time 1 n = Some blob ->
    pw_wrap (na_pw O) header pw (be_bytes 8 mem ++ be_bytes 4 time ++ be_bytes 4 1) ptk s n = Ok blob.
  Proof.
    intros Hm Ht. unfold spec_pwB, pw_wrap, na_pw. cbn [pwB pw_prekey pw_ek pw_ak pw_ks pw_mac pw_ver].
    unfold na_prekey. rewrite pwB_fields_enc by (try assumption; vm_compute; reflexivity).
    remember (be_bytes 8 mem ++ be_bytes 4 time ++ be_bytes 4 1) as params.
    change (negb (1 =? 1)%N) with false. cbv iota.
    destruct (argon2id O pw s (mem / 1024) time 1 32) as [k|]; [|discriminate].
    intros E. injection E as <-. unfold bind. rewrite <- !app_assoc. reflexivity.
  Qed.

  (* the known limitation of the libsodium backend: any other parallelism is refused, although the
     specification (and paseto-v4) define the result *)
  Theorem na_pw_rejects_other_parallelism header pw s mem time para n c tag :
    (mem < 2 ^ 64)%N -> (time < 2 ^ 32)%N -> (para < 2 ^ 32)%N -> para <> 1%N ->
    length s = 16 -> length n = 24 -> length tag = 32 ->
    pw_unwrap (na_pw O) header pw ((s ++ (be_bytes 8 mem ++ be_bytes 4 time ++ be_bytes 4 para) ++ n) ++ c ++ tag) = Err InvalidKey.
  Proof.
    intros Hm Ht Hp Hne Ls Ln Lt.
    assert (Lp : length (be_bytes 8 mem ++ be_bytes 4 time ++ be_bytes 4 para) = pw_par_len (na_pw O)).
    { rewrite !app_length, !be_bytes_length. reflexivity. }
    rewrite (pw_unwrap_parts (na_pw O) header pw s _ n c tag Ls Lp Ln Lt).
    unfold na_pw at 1. cbn [pwB pw_prekey]. unfold na_prekey. rewrite pwB_fields_enc by assumption.
    destruct (N.eqb_spec para 1); [contradiction|]. reflexivity.
  Qed.

  Theorem v3_seal_is_spec pk pdk esk blob :
    spec_seal_v3 O pk pdk esk = Some blob -> v3_pke_seal O 128 pk pdk esk = Ok blob.
  Proof.
    unfold spec_seal_v3, v3_pke_seal.
    destruct (p384_pk O esk) as [epk|]; [|discriminate].
    destruct (ecdh_p384 O esk pk) as [xk|]; [|discriminate].
    intros E. injection E as <-.
    unfold v3_seal_keys, aes_ctr, aes256_ctr, take, drop. rewrite <- ?app_assoc. reflexivity.
  Qed.

  Theorem x_seal_is_spec ver strict edpk xpk pdk r :
    x_of_edpk O edpk = Some xpk -> (strict = true -> x_mul O r xpk <> zero32) ->
    x_pke_seal O ver strict edpk pdk r = Ok (spec_seal_x O ver xpk pdk r).
  Proof.
    intros Hx Hz. unfold x_pke_seal, spec_seal_x. rewrite Hx.
    assert (Ez : strict && beq (x_mul O r xpk) zero32 = false).
    { destruct strict; [|reflexivity]. cbn [andb]. apply beq_false. apply Hz. reflexivity. }
    rewrite Ez. unfold x_seal_keys. rewrite <- ?app_assoc. reflexivity.
  Qed.

  Theorem v1_seal_is_spec pk pdk r0 blob :
    spec_seal_v1 O pk pdk (v1_mask_r r0) = Some blob -> v1_pke_seal O pk pdk r0 = Ok blob.
  Proof.
    unfold spec_seal_v1, v1_pke_seal.
    destruct (rsa_enc O pk (be_val (v1_mask_r r0))) as [cn|]; [|discriminate].
    remember (be_bytes 512 cn) as c eqn:Ec. clear Ec.
    intros E. injection E as <-.
    unfold v1_seal_keys, aes_ctr, aes256_ctr, ctr_w_rustcrypto, take, drop. rewrite <- ?app_assoc. reflexivity.
  Qed.
End Eq.

(* ---- every blob the SPECIFICATION produces unwraps to the wrapped key on the backends of its version (the
        round-trip theorems composed with model = specification): interoperability in the direction
        "someone else's conforming implementation wrapped it" ---- *)
Section SpecBlobsUnwrap.
  Variable O : oracle.
  Hypothesis L : laws O.

  Theorem spec_pieA_blob_unwraps ver header wk ptk n :
    length n = 32 -> pie_unwrap (pieA O ver 128) header wk (spec_pieA O (ver ++ header) wk ptk n) = Ok ptk.
  Proof.
    intros Hn.
    destruct (pie_roundtrip (pieA O ver 128) (pieA_ks_len O L ver 128) (pieA_mac_len O L ver 128) header wk ptk n Hn)
      as (blob & Hw & Hu & _).
    rewrite pieA_is_spec in Hw. injection Hw as <-. exact Hu.
  Qed.

  Theorem spec_pieB_blob_unwraps ver header wk ptk n :
    length n = 32 -> pie_unwrap (pieB O ver) header wk (spec_pieB O (ver ++ header) wk ptk n) = Ok ptk.
  Proof.
    intros Hn.
    destruct (pie_roundtrip (pieB O ver) (pieB_ks_len O L ver) (pieB_mac_len O L ver) header wk ptk n Hn)
      as (blob & Hw & Hu & _).
    rewrite pieB_is_spec in Hw. injection Hw as <-. exact Hu.
  Qed.

  (* PBKDF2 family (k1, k3; z = true is aws-lc, which refuses the iteration count 0) *)
  Theorem spec_pwA_blob_unwraps ver z header pw ptk s i n :
    (i < 2 ^ 32)%N -> (z = false \/ i <> 0%N) -> length s = 32 -> length n = 16 ->
    pw_unwrap (pwA O ver 128 z) header pw (spec_pwA O (ver ++ header) pw ptk s i n) = Ok ptk.
  Proof.
    intros Hi Hz Ls Ln.
    assert (Hpre : exists pre, pw_prekey (pwA O ver 128 z) pw s (be_bytes 4 i) = Ok pre).
    { destruct z; [|apply pwA_prekey_total'].
      destruct Hz as [Hz|Hz]; [discriminate|].
      apply pwA_prekey_total. rewrite be_val_be_bytes. change (256 ^ N.of_nat 4)%N with (2 ^ 32)%N.
      rewrite N.mod_small by exact Hi. exact Hz. }
    destruct Hpre as (pre & Hpre).
    destruct (pw_roundtrip (pwA O ver 128 z) (pwA_ks_len O L ver 128 z) (pwA_mac_len O L ver 128 z)
                header pw (be_bytes 4 i) ptk s n pre Ls (be_bytes_length 4 i) Ln Hpre) as (blob & Hw & Hu & _).
    rewrite (pwA_is_spec O ver z header pw ptk s i n Hi Hz) in Hw. injection Hw as <-. exact Hu.
  Qed.

  (* Argon2id family (k2, k4 on the RustCrypto backends; k4 on libsodium with one lane): whenever the specification
     produces a blob at all (i.e. Argon2id accepts the parameters), the backend unwraps it to the wrapped key *)
  Theorem spec_pwB_blob_unwraps ver header pw ptk s mem time para n blob :
    (mem < 2 ^ 64)%N -> (time < 2 ^ 32)%N -> (para < 2 ^ 32)%N ->
    (mem mod 1024 = 0)%N -> (mem / 1024 < 2 ^ 32)%N -> length s = 16 -> length n = 24 ->
    spec_pwB O (ver ++ header) pw ptk s mem time para n = Some blob ->
    pw_unwrap (pwB O ver (v4_prekey O)) header pw blob = Ok ptk.
  Proof.
    intros Hm Ht Hp Hmod Hkib Ls Ln Hspec.
    pose proof (v4_pw_is_spec O ver header pw ptk s mem time para n blob Hm Ht Hp Hmod Hkib Hspec) as Hw.
    assert (Lp : length (be_bytes 8 mem ++ be_bytes 4 time ++ be_bytes 4 para) = 16)
      by (rewrite !app_length, !be_bytes_length; reflexivity).
    assert (Hpre : exists pre, pw_prekey (pwB O ver (v4_prekey O)) pw s (be_bytes 8 mem ++ be_bytes 4 time ++ be_bytes 4 para) = Ok pre).
    { unfold pw_wrap in Hw. destruct (pw_prekey (pwB O ver (v4_prekey O)) pw s (be_bytes 8 mem ++ be_bytes 4 time ++ be_bytes 4 para)) as [pre| |];
        cbn [bind] in Hw; try discriminate. exists pre; reflexivity. }
    destruct Hpre as (pre & Hpre).
    destruct (pw_roundtrip (pwB O ver (v4_prekey O)) (pwB_ks_len O L ver (v4_prekey O)) (pwB_mac_len O L ver (v4_prekey O))
                header pw (be_bytes 8 mem ++ be_bytes 4 time ++ be_bytes 4 para) ptk s n pre Ls Lp Ln Hpre) as (blob' & Hw' & Hu & _).
    rewrite Hw in Hw'. injection Hw' as <-. exact Hu.
  Qed.

  Theorem spec_pwB_blob_unwraps_sodium header pw ptk s mem time n blob :
    (mem < 2 ^ 64)%N -> (time < 2 ^ 32)%N -> length s = 16 -> length n = 24 ->
    spec_pwB O (str "k4" ++ header) pw ptk s mem time 1 n = Some blob ->
    pw_unwrap (na_pw O) header pw blob = Ok ptk.
  Proof.
    intros Hm Ht Ls Ln Hspec.
    pose proof (na_pw_is_spec O header pw ptk s mem time n blob Hm Ht Hspec) as Hw.
    assert (Lp : length (be_bytes 8 mem ++ be_bytes 4 time ++ be_bytes 4 1) = 16)
      by (rewrite !app_length, !be_bytes_length; reflexivity).
    assert (Hpre : exists pre, pw_prekey (na_pw O) pw s (be_bytes 8 mem ++ be_bytes 4 time ++ be_bytes 4 1) = Ok pre).
    { unfold pw_wrap in Hw. destruct (pw_prekey (na_pw O) pw s (be_bytes 8 mem ++ be_bytes 4 time ++ be_bytes 4 1)) as [pre| |];
        cbn [bind] in Hw; try discriminate. exists pre; reflexivity. }
    destruct Hpre as (pre & Hpre).
    destruct (pw_roundtrip (na_pw O) (pwB_ks_len O L (str "k4") (na_prekey O)) (pwB_mac_len O L (str "k4") (na_prekey O))
                header pw (be_bytes 8 mem ++ be_bytes 4 time ++ be_bytes 4 1) ptk s n pre Ls Lp Ln Hpre) as (blob' & Hw' & Hu & _).
    rewrite Hw in Hw'. injection Hw' as <-. exact Hu.
  Qed.

  (* seal (PKE), P-384: every sealed key the specification produces for an honest recipient key unseals on both v3
     backends (W = counter width, bad = the backend's error kind for an invalid ephemeral key) *)
  Theorem spec_seal_v3_blob_unseals bad sk pk key esk epk blob :
    length key = 32 -> p384_pk O sk = Some pk -> p384_pk O esk = Some epk ->
    spec_seal_v3 O pk key esk = Some blob -> v3_pke_unseal_gen O 128 bad sk blob = Ok key.
  Proof.
    intros Lk Hpk Hepk Hspec.
    destruct (v3_pke_roundtrip_gen O L 128 bad sk pk key esk epk Lk Hpk Hepk) as (blob' & Hs & Hu & _).
    rewrite (v3_seal_is_spec O pk key esk blob Hspec) in Hs. injection Hs as <-. exact Hu.
  Qed.

  (* seal, X25519 family: the specification's sealed key for the public key of a seed unseals with that seed's secret key
     (RustCrypto key object = seed; libsodium = seed || public key, passed as [sk] with its own [xpk_of]) *)
  Theorem spec_seal_x_blob_unseals ver strict xpk_of sk seed key r :
    length key = 32 -> take 32 sk = seed -> xpk_of sk = Some (x_of_seed O seed) ->
    (strict = true -> x_mul O r (x_of_seed O seed) <> zero32) ->
    x_pke_unseal O ver strict xpk_of sk (spec_seal_x O ver (x_of_seed O seed) key r) = Ok key.
  Proof.
    intros Lk Hsk Hx Hz.
    destruct (x_pke_roundtrip O L ver strict xpk_of sk seed key r Lk Hsk Hx Hz) as (blob & Hs & Hu & _).
    rewrite (x_seal_is_spec O ver strict (ed_pk O seed) (x_of_seed O seed) key r (x_of_edpk_seed O L seed) Hz) in Hs.
    injection Hs as <-. exact Hu.
  Qed.

  (* seal, RSA-KEM (k1) *)
  Theorem spec_seal_v1_blob_unseals sk key r0 cn blob :
    length key = 32 -> length r0 = 512 ->
    rsa_enc O (rsa_pk O sk) (be_val (v1_mask_r r0)) = Some cn ->
    spec_seal_v1 O (rsa_pk O sk) key (v1_mask_r r0) = Some blob ->
    v1_pke_unseal O sk blob = Ok key.
  Proof.
    intros Lk Lr Henc Hspec.
    destruct (v1_pke_roundtrip O L sk key r0 cn Lk Lr Henc) as (blob' & Hs & Hu & _).
    rewrite (v1_seal_is_spec O (rsa_pk O sk) key r0 blob Hspec) in Hs. injection Hs as <-. exact Hu.
  Qed.
End SpecBlobsUnwrap.
