(* SpecPaserk.v — the PASERK operations (wrap/pie, local-pw / secret-pw, seal) transcribed from the PASERK
   specification (paseto-standard/paserk: operations/Wrap/pie.md, operations/PBKW.md, operations/PKE.md) in
   their own step order, over the primitive oracle; AES-256-CTR with the full 128-bit big-endian counter.
   Independent of Paserk.v; SpecPaserkProofs.v proves the backend models equal to it, and the harness runs
   it on every official vector in paseto-test/tests/vectors/k*.json. [h] is the full header "kN.type." *)
From Coq Require Import List NArith String Bool.
From PV Require Import Bytes Ctr Oracle SpecTokens.
Import ListNotations.
Local Open Scope string_scope.
Local Open Scope list_scope.

Section Spec.
  Variable O : oracle.

  (* ---- wrap/pie, versions 1 and 3 ---- *)
  Definition spec_pieA (h wk ptk n : bytes) : bytes :=
    let x := hmac384 O wk (hex "80" ++ n) in
    let Ek := firstn 32 x in
    let n2 := skipn 32 x in
    let Ak := firstn 32 (hmac384 O wk (hex "81" ++ n)) in
    let c := xorl ptk (aes256_ctr O Ek n2 (length ptk)) in
    let t := hmac384 O Ak (h ++ n ++ c) in
    t ++ n ++ c.

  (* ---- wrap/pie, versions 2 and 4 ---- *)
  Definition spec_pieB (h wk ptk n : bytes) : bytes :=
    let x := blake2b O 56 wk (hex "80" ++ n) in
    let Ek := firstn 32 x in
    let n2 := skipn 32 x in
    let Ak := blake2b O 32 wk (hex "81" ++ n) in
    let c := xorl ptk (xchacha20 O Ek n2 (length ptk)) in
    let t := blake2b O 32 Ak (h ++ n ++ c) in
    t ++ n ++ c.

  (* ---- PBKW, versions 1 and 3: s = 32-byte salt, i = iterations, n = 16-byte nonce ---- *)
  Definition spec_pwA (h pw ptk s : bytes) (i : N) (n : bytes) : bytes :=
    let k := pbkdf2_384 O pw s i 32 in
    let Ek := firstn 32 (sha384 O (hex "ff" ++ k)) in
    let Ak := sha384 O (hex "fe" ++ k) in
    let edk := xorl ptk (aes256_ctr O Ek n (length ptk)) in
    let t := hmac384 O Ak (h ++ s ++ be_bytes 4 i ++ n ++ edk) in
    s ++ be_bytes 4 i ++ n ++ edk ++ t.

  (* ---- PBKW, versions 2 and 4: s = 16-byte salt, mem in bytes, n = 24-byte nonce ---- *)
  Definition spec_pwB (h pw ptk s : bytes) (mem time para : N) (n : bytes) : option bytes :=
    match argon2id O pw s (mem / 1024) time para 32 with
    | None => None
    | Some k =>
        let Ek := blake2b O 32 [] (hex "ff" ++ k) in
        let Ak := blake2b O 32 [] (hex "fe" ++ k) in
        let edk := xorl ptk (xchacha20 O Ek n (length ptk)) in
        let params := be_bytes 8 mem ++ be_bytes 4 time ++ be_bytes 4 para in
        let t := blake2b O 32 Ak (h ++ s ++ params ++ n ++ edk) in
        Some (s ++ params ++ n ++ edk ++ t)
    end.

  (* ---- seal, version 3: ephemeral key pair (esk, epk), xk = ECDH(esk, pk) ---- *)
  Definition spec_seal_v3 (pk pdk esk : bytes) : option bytes :=
    match p384_pk O esk, ecdh_p384 O esk pk with
    | Some epk, Some xk =>
        let h := str "k3.seal." in
        let x := sha384 O (hex "01" ++ h ++ xk ++ epk ++ pk) in
        let Ek := firstn 32 x in
        let n := skipn 32 x in
        let Ak := sha384 O (hex "02" ++ h ++ xk ++ epk ++ pk) in
        let edk := xorl pdk (aes256_ctr O Ek n 32) in
        let t := hmac384 O Ak (h ++ epk ++ edk) in
        Some (t ++ epk ++ edk)
    | _, _ => None
    end.

  (* ---- seal, versions 2 and 4 (ver = "k2" / "k4"): X25519 on the birationally equivalent keys ---- *)
  Definition spec_seal_x (ver xpk pdk r : bytes) : bytes :=
    let h := ver ++ str ".seal." in
    let epk := x_base O r in
    let xk := x_mul O r xpk in
    let Ek := blake2b O 32 [] (hex "01" ++ h ++ xk ++ epk ++ xpk) in
    let Ak := blake2b O 32 [] (hex "02" ++ h ++ xk ++ epk ++ xpk) in
    let n := blake2b O 24 [] (epk ++ xpk) in
    let edk := xorl pdk (xchacha20 O Ek n 32) in
    let t := blake2b O 32 Ak (h ++ epk ++ edk) in
    t ++ epk ++ edk.

  (* ---- seal, version 1: RSA-KEM, r = 512 random bytes with the top bits forced to 01 ---- *)
  Definition spec_seal_v1 (pk pdk r : bytes) : option bytes :=
    match rsa_enc O pk (be_val r) with
    | None => None
    | Some cn =>
        let h := str "k1.seal." in
        let c := be_bytes 512 cn in
        let k := sha384 O c in
        let x := hmac384 O k (hex "01" ++ h ++ r) in
        let Ek := firstn 32 x in
        let n := skipn 32 x in
        let Ak := hmac384 O k (hex "02" ++ h ++ r) in
        let edk := xorl pdk (aes256_ctr O Ek n 32) in
        let t := hmac384 O Ak (h ++ c ++ edk) in
        Some (t ++ edk ++ c)
    end.
End Spec.
