(* AliasRules.v — C18, crate-level aliases: every `pub type` alias of a backend crate names the generic type,
   the version and the purpose / kind that its NAME promises (obligation over Gen/Aliases.v, regenerated). *)
From Coq Require Import List String Bool.
From PV.Gen Require Import Aliases.
Import ListNotations.
Local Open Scope string_scope.

Definition crate_version (crate : string) : string :=
  if String.eqb crate "paseto-v1" then "V1" else if String.eqb crate "paseto-v2" then "V2"
  else if String.eqb crate "paseto-v3" then "V3" else if String.eqb crate "paseto-v3-aws-lc" then "V3"
  else if String.eqb crate "paseto-v4" then "V4" else if String.eqb crate "paseto-v4-sodium" then "V4" else "?".

(* alias name -> (generic, remaining arguments) *)
Definition alias_rule (name : string) : option (string * list string) :=
  if String.eqb name "SignedToken" then Some ("SignedToken", ["M"; "F"])
  else if String.eqb name "EncryptedToken" then Some ("EncryptedToken", ["M"; "F"])
  else if String.eqb name "UnsignedToken" then Some ("UnsignedToken", ["M"; "F"])
  else if String.eqb name "UnencryptedToken" then Some ("UnencryptedToken", ["M"; "F"])
  else if String.eqb name "LocalKey" then Some ("LocalKey", [])
  else if String.eqb name "PublicKey" then Some ("PublicKey", [])
  else if String.eqb name "SecretKey" then Some ("SecretKey", [])
  else if String.eqb name "KeyId" then Some ("KeyId", ["K"])
  else if String.eqb name "KeyText" then Some ("KeyText", ["K"])
  else if String.eqb name "SealedKey" then Some ("SealedKey", [])
  else if String.eqb name "PasswordWrappedLocalKey" then Some ("PasswordWrappedKey", ["Local"])
  else if String.eqb name "PasswordWrappedSecretKey" then Some ("PasswordWrappedKey", ["Secret"])
  else if String.eqb name "PieWrappedLocalKey" then Some ("PieWrappedKey", ["Local"])
  else if String.eqb name "PieWrappedSecretKey" then Some ("PieWrappedKey", ["Secret"])
  else None.

Fixpoint list_eqb (a b : list string) : bool :=
  match a, b with
  | [], [] => true
  | x :: a', y :: b' => String.eqb x y && list_eqb a' b'
  | _, _ => false
  end.

Definition alias_ok (a : string * string * string * string * list string) : bool :=
  let '(crate, name, generic, ver, rest) := a in
  match alias_rule name with
  | Some (g, r) => String.eqb generic g && String.eqb ver (crate_version crate) && list_eqb rest r
  | None => false          (* an alias this review does not know *)
  end.

Lemma aliases_ok : forallb alias_ok gen_aliases = true.
Proof. vm_compute. reflexivity. Qed.

Lemma aliases_ok_forall : forall a, In a gen_aliases -> alias_ok a = true.
Proof. intros a H. pose proof aliases_ok as A. rewrite forallb_forall in A. exact (A a H). Qed.
