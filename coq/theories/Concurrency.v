(* Concurrency.v — C17: shared keys under concurrent use and after failed operations.
   Keys are immutable values: an operation is a function of (key, input, the random blocks it is served);
   the only state an operation consumes is the position in the random stream (C16).  The step relation
   therefore has no shared mutable component, and every interleaving of per-thread operation lists is
   equivalent to running each operation alone on a fresh copy of the key.
   That the Rust code has no hidden shared state is the obligation over Gen/Sharing.v (regenerated). *)
From Coq Require Import List String Bool.
Import ListNotations.

Section Steps.
  Context {Key Op Out : Type}.
  (* the result of one operation on a key: success or failure, it is a function of key and operation *)
  Variable eval : Key -> Op -> Out.

  Definition step (k : Key) (o : Op) : Key * Out := (k, eval k o).

  Fixpoint run (k : Key) (ops : list Op) : Key * list Out :=
    match ops with
    | [] => (k, [])
    | o :: rest => let '(k1, r) := step k o in let '(k2, rs) := run k1 rest in (k2, r :: rs)
    end.

  (* all interleavings of per-thread operation lists, each operation tagged with its thread *)
  Inductive interleave : list (list Op) -> list (nat * Op) -> Prop :=
  | il_done : forall ts, Forall (fun t => t = []) ts -> interleave ts []
  | il_step : forall ts i o rest l,
      nth_error ts i = Some (o :: rest) ->
      interleave (firstn i ts ++ rest :: skipn (S i) ts) l ->
      interleave ts ((i, o) :: l).
End Steps.
